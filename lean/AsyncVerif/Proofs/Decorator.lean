import AsyncVerif.Machines.Decorator
/-! Helper lemmas for C15 (context managers as decorators). Property theorems live in
    `Properties/C15.lean`. -/
namespace AsyncVerif.Decorator

/-! ## the per-call automaton -/

theorem specFrom_append (st : SpecSt) (a b : List LEv) :
    specFrom st (a ++ b) = (specFrom st a).bind (fun st' => specFrom st' b) := by
  induction a generalizing st with
  | nil => simp [specFrom]
  | cons e rest ih =>
    simp only [List.cons_append, specFrom]
    cases specStep st e with
    | none => simp
    | some st' => simpa using ih st'

/-- abstraction of a call's program counter to the automaton's state -/
def absSt : Pc → SpecSt
  | .fresh => .init
  | .entering _ => .entering
  | .body _ => .inBody
  | .exiting o _ => .exiting o
  | .done r => .finished r

/-- coherence between a call's program counter and the state of its own generator -/
def Coh (gb : Bool) (l : Local) : Prop :=
  gb = true →
    match l.pc with
    | .fresh => l.cell.pc = .unstarted
    | .entering _ => ∃ j, l.cell.pc = .pre j
    | .body _ => l.cell.pc = .atYield
    | .exiting o _ =>
      (match o.exc with
       | none => ∃ j, l.cell.pc = .post j
       | some e => ∃ j, l.cell.pc = .thr e j)
    | .done _ => True

/-- the events of `r` lead the automaton from `st` to the abstraction of the new pc, and the new
    local state is coherent -/
def Good (gb : Bool) (st : SpecSt) (r : R) : Prop :=
  specFrom st r.2.1 = some (absSt r.1.pc) ∧ Coh gb r.1

theorem good_prepend {gb : Bool} {st st' : SpecSt} {evs : List LEv} {r : R}
    (h1 : specFrom st evs = some st') (h2 : Good gb st' r) : Good gb st (prepend evs r) := by
  refine ⟨?_, h2.2⟩
  simp only [prepend, specFrom_append, h1, Option.bind]
  exact h2.1

theorem good_finishExit (gb : Bool) (cell : GenCell) (o : BodyOut) (resp : ExitResp) :
    Good gb (.exiting o) (finishExit cell o resp) := by
  refine ⟨?_, ?_⟩
  · simp [finishExit, specFrom, specStep, absSt]
  · intro _; simp [finishExit]

theorem good_contExit (gb : Bool) (cell : GenCell) (o : BodyOut) (left : Nat) (aw : Aw Bool)
    (h : aw = .suspended → Coh gb { pc := .exiting o left, cell := cell }) :
    Good gb (.exiting o) (contExit cell o left aw) := by
  cases aw with
  | suspended => exact ⟨by simp [contExit, specFrom, absSt], h rfl⟩
  | returned b => exact good_finishExit gb cell o _
  | raised x => exact good_finishExit gb cell o _

theorem good_plainExitSeg (cc : CallCfg) (cell : GenCell) (o : BodyOut) (n : Nat) :
    Good false (.exiting o) (plainExitSeg cc cell o n) := by
  cases n with
  | zero => exact good_contExit _ _ _ _ _ (fun _ h => by cases h)
  | succ k => exact good_contExit _ _ _ _ _ (fun _ h => by cases h)

theorem seg_zero (mk : Nat → GenPc) (fin : GRes) : seg 0 mk fin = fin := rfl
theorem seg_succ (k : Nat) (mk : Nat → GenPc) (fin : GRes) : seg (k + 1) mk fin = (mk k, .suspended, []) := rfl

theorem postFin_ns (p : GenProg) : (postFin p).2.1 ≠ .suspended := by
  unfold postFin; cases p.post <;> simp
theorem thrFin_ns (p : GenProg) (e : Exc) : (thrFin p e).2.1 ≠ .suspended := by
  unfold thrFin; cases p.thr <;> simp
theorem preFin_ns (p : GenProg) : (preFin p).2.1 ≠ .suspended := by
  unfold preFin; cases p.pre <;> simp

theorem genAexit_susp (exc : Option Exc) (out : GenOut) (h : genAexit exc out = .suspended) :
    out = .suspended := by
  unfold genAexit at h
  cases exc <;> cases out <;> simp at h ⊢
  all_goals (split at h <;> simp at h)

theorem genAenter_susp (out : GenOut) (h : genAenter out = .suspended) : out = .suspended := by
  cases out <;> simp [genAenter] at h ⊢

/-- the rest of the exit after a segment of the generator's code with `n` suspensions left -/
theorem good_exit_seg (cell : GenCell) (o : BodyOut) (n : Nat) (mk : Nat → GenPc) (fin : GRes)
    (hfin : fin.2.1 ≠ .suspended) (hev : fin.2.2 = [])
    (hmk : ∀ k, Coh true { pc := .exiting o 0, cell := { cell with pc := mk k } }) :
    Good true (.exiting o)
      (prepend (seg n mk fin).2.2
        (contExit { cell with pc := (seg n mk fin).1 } o 0 (genAexit o.exc (seg n mk fin).2.1))) := by
  cases n with
  | zero =>
    rw [seg_zero, hev]
    refine good_prepend (st' := .exiting o) (by simp [specFrom]) ?_
    exact good_contExit _ _ _ _ _ (fun h => absurd (genAexit_susp _ _ h) hfin)
  | succ k =>
    rw [seg_succ]
    refine good_prepend (st' := .exiting o) (by simp [specFrom]) ?_
    exact good_contExit _ _ _ _ _ (fun _ => hmk k)

theorem postFin_ev (p : GenProg) : (postFin p).2.2 = [] := by
  unfold postFin; cases p.post <;> simp
theorem thrFin_ev (p : GenProg) (e : Exc) : (thrFin p e).2.2 = [] := by
  unfold thrFin; cases p.thr <;> simp

theorem coh_post (cell : GenCell) (o : BodyOut) (h : o.exc = none) (k : Nat) :
    Coh true { pc := .exiting o 0, cell := { cell with pc := .post k } } := by
  intro _; simp only [h]; exact ⟨k, rfl⟩

theorem coh_thr (cell : GenCell) (o : BodyOut) (e : Exc) (h : o.exc = some e) (k : Nat) :
    Coh true { pc := .exiting o 0, cell := { cell with pc := .thr e k } } := by
  intro _; simp only [h]; exact ⟨k, rfl⟩

theorem good_genExit_start (cell : GenCell) (o : BodyOut) (h : cell.pc = .atYield) :
    Good true (.bodyDone o)
      (genExitSend cell o (exitResume o)) := by
  unfold genExitSend exitResume
  cases ho : o.exc with
  | none =>
    simp only [h, genAdvance, addEv]
    have := good_exit_seg cell o cell.prog.postSusp .post (postFin cell.prog) (postFin_ns _) (postFin_ev _)
      (coh_post cell o ho)
    rw [ho] at this
    unfold prepend at this ⊢
    refine ⟨?_, this.2⟩
    simp only [List.cons_append, List.nil_append, specFrom, specStep, ho, if_true]
    exact this.1
  | some e =>
    simp only [h, genAdvance, addEv]
    have := good_exit_seg cell o cell.prog.thrSusp (.thr e) (thrFin cell.prog e) (thrFin_ns _ _) (thrFin_ev _ _)
      (coh_thr cell o e ho)
    rw [ho] at this
    unfold prepend at this ⊢
    refine ⟨?_, this.2⟩
    simp only [List.cons_append, List.nil_append, specFrom, specStep, ho, if_true]
    exact this.1

/-- what `Coh` says about the generator while its owner is suspended in the exit -/
def ExitingPc (o : BodyOut) (pc : GenPc) : Prop :=
  match o.exc with
  | none => ∃ j, pc = .post j
  | some e => ∃ j, pc = .thr e j

theorem good_genExit_cont (cell : GenCell) (o : BodyOut) (h : ExitingPc o cell.pc) :
    Good true (.exiting o) (genExitSend cell o .cont) := by
  unfold genExitSend
  unfold ExitingPc at h
  cases ho : o.exc with
  | none =>
    rw [ho] at h; obtain ⟨j, hj⟩ := h
    simp only [hj, genAdvance]
    have := good_exit_seg cell o j .post (postFin cell.prog) (postFin_ns _) (postFin_ev _) (coh_post cell o ho)
    rw [ho] at this; exact this
  | some e =>
    rw [ho] at h; obtain ⟨j, hj⟩ := h
    simp only [hj, genAdvance]
    have := good_exit_seg cell o j (.thr e) (thrFin cell.prog e) (thrFin_ns _ _) (thrFin_ev _ _) (coh_thr cell o e ho)
    rw [ho] at this; exact this

theorem genAexit_raised_ns (exc : Option Exc) (x : Exc) : genAexit exc (.raised x) ≠ .suspended := by
  unfold genAexit; cases exc <;> simp
  split <;> simp

theorem good_genExit_cancel (cell : GenCell) (o : BodyOut) (x : Exc) (h : ExitingPc o cell.pc) :
    Good true (.exiting o) (genExitSend cell o (.cancel x)) := by
  unfold genExitSend
  unfold ExitingPc at h
  have key : ∀ pc, (∃ j, pc = GenPc.post j) ∨ (∃ e j, pc = GenPc.thr e j) →
      genAdvance cell.prog pc (.cancel x) = (.finished, .raised x, []) := by
    intro pc hpc
    rcases hpc with ⟨j, rfl⟩ | ⟨e, j, rfl⟩ <;> simp [genAdvance]
  have hk : genAdvance cell.prog cell.pc (.cancel x) = (.finished, .raised x, []) := by
    apply key
    cases ho : o.exc with
    | none => rw [ho] at h; exact Or.inl h
    | some e => rw [ho] at h; obtain ⟨j, hj⟩ := h; exact Or.inr ⟨e, j, hj⟩
  rw [hk]
  refine good_prepend (st' := .exiting o) (by simp [specFrom]) ?_
  exact good_contExit _ _ _ _ _ (fun hs => absurd hs (genAexit_raised_ns _ _))

theorem good_startExit (gb : Bool) (cc : CallCfg) (cell : GenCell) (o : BodyOut)
    (h : gb = true → cell.pc = .atYield) : Good gb (.bodyDone o) (startExit gb cc cell o) := by
  unfold startExit
  cases gb with
  | true => simpa using good_genExit_start cell o (h rfl)
  | false =>
    simp only [Bool.false_eq_true, if_false]
    refine good_prepend (st' := .exiting o) (by simp [specFrom, specStep]) ?_
    exact good_plainExitSeg _ _ _ _

theorem good_afterBody (gb : Bool) (cc : CallCfg) (cell : GenCell) (o : BodyOut)
    (h : gb = true → cell.pc = .atYield) : Good gb .inBody (afterBody gb cc cell o) := by
  unfold afterBody
  exact good_prepend (st' := .bodyDone o) (by simp [specFrom, specStep]) (good_startExit gb cc cell o h)

theorem good_contBody (gb : Bool) (cc : CallCfg) (cell : GenCell) (n : Nat)
    (h : gb = true → cell.pc = .atYield) : Good gb .inBody (contBody gb cc cell n) := by
  cases n with
  | zero => exact good_afterBody gb cc cell _ h
  | succ k => exact ⟨by simp [contBody, specFrom, absSt], fun hg => by simpa [contBody] using h hg⟩

theorem good_afterEnter (gb : Bool) (cc : CallCfg) (cell : GenCell) (left : Nat) (aw : Aw Unit)
    (hs : aw = .suspended → gb = true → ∃ j, cell.pc = .pre j)
    (hr : aw = .returned () → gb = true → cell.pc = .atYield) :
    Good gb .entering (prepend (match aw with | .returned () => [.entered] | _ => [])
      (afterEnter gb cc cell left aw)) := by
  cases aw with
  | suspended =>
    refine good_prepend (st' := .entering) (by simp [specFrom]) ?_
    exact ⟨by simp [afterEnter, specFrom, absSt], fun hg => by simpa [afterEnter] using hs rfl hg⟩
  | raised x =>
    refine good_prepend (st' := .entering) (by simp [specFrom]) ?_
    exact ⟨by simp [afterEnter, specFrom, specStep, absSt], fun _ => by simp [afterEnter]⟩
  | returned u =>
    cases u
    refine good_prepend (st' := .entered) (by simp [specFrom, specStep]) ?_
    unfold afterEnter
    exact good_prepend (st' := .inBody) (by simp [specFrom, specStep]) (good_contBody gb cc cell _ (hr rfl))

theorem good_plainEnterSeg (cc : CallCfg) (cell : GenCell) (n : Nat) :
    Good false .entering (plainEnterSeg false cc cell n) := by
  cases n with
  | zero =>
    unfold plainEnterSeg plainEnterFin
    cases cc.plain.enter with
    | ok => exact good_afterEnter false cc cell 0 (.returned ()) (by simp) (by simp)
    | raises e => exact good_afterEnter false cc cell 0 (.raised (.user e)) (by simp) (by simp)
  | succ k =>
    have := good_afterEnter false cc cell k .suspended (by simp) (by simp)
    simpa [plainEnterSeg, prepend] using this

/-- the rest of the enter after a segment of the generator's code before its first yield -/
theorem good_enter_seg (cc : CallCfg) (cell : GenCell) (n : Nat) :
    Good true .entering
      (prepend (seg n .pre (preFin cell.prog)).2.2
        (afterEnter true cc { cell with pc := (seg n .pre (preFin cell.prog)).1 } 0
          (genAenter (seg n .pre (preFin cell.prog)).2.1))) := by
  cases n with
  | zero =>
    rw [seg_zero]
    unfold preFin
    cases cell.prog.pre with
    | yields =>
      exact good_afterEnter true cc { cell with pc := .atYield } 0 (.returned ()) (by simp) (by simp)
    | raises e =>
      exact good_afterEnter true cc { cell with pc := .finished } 0 (.raised (.user e)) (by simp) (by simp)
    | returns =>
      exact good_afterEnter true cc { cell with pc := .finished } 0 (.raised (.runtime .didNotYield)) (by simp) (by simp)
  | succ k =>
    rw [seg_succ]
    exact good_afterEnter true cc { cell with pc := .pre k } 0 .suspended (fun _ _ => ⟨k, rfl⟩) (by simp)

theorem good_genEnter_start (cc : CallCfg) (cell : GenCell) (h : cell.pc = .unstarted) :
    Good true .init (genEnterSend true cc cell .next) := by
  unfold genEnterSend
  simp only [h, genAdvance, addEv]
  have := good_enter_seg cc cell cell.prog.preSusp
  unfold prepend at this ⊢
  refine ⟨?_, this.2⟩
  simp only [List.cons_append, List.nil_append, specFrom, specStep]
  exact this.1

theorem good_genEnter_cont (cc : CallCfg) (cell : GenCell) (j : Nat) (h : cell.pc = .pre j) :
    Good true .entering (genEnterSend true cc cell .cont) := by
  unfold genEnterSend
  simp only [h, genAdvance]
  exact good_enter_seg cc cell j

theorem good_genEnter_cancel (cc : CallCfg) (cell : GenCell) (j : Nat) (x : Exc) (h : cell.pc = .pre j) :
    Good true .entering (genEnterSend true cc cell (.cancel x)) := by
  unfold genEnterSend
  simp only [h, genAdvance]
  exact good_afterEnter true cc { cell with pc := .finished } 0 (.raised x) (by simp) (by simp)

/-- **Local step lemma.** From a coherent local state, one `send`/`throw` on the call emits events
    that the specification automaton accepts from the abstraction of the old pc, ending in the
    abstraction of the new pc; and the new local state is coherent. -/
theorem callStep_good (gb : Bool) (cc : CallCfg) (l : Local) (op : COp) (h : Coh gb l) :
    Good gb (absSt l.pc) (callStep gb cc l op) := by
  unfold callStep
  cases op with
  | resume =>
    cases hpc : l.pc with
    | fresh =>
      cases gb with
      | true =>
        have := h rfl; rw [hpc] at this
        simpa [absSt] using good_genEnter_start cc l.cell this
      | false =>
        simp only [Bool.false_eq_true, if_false, absSt]
        exact good_prepend (st' := .entering) (by simp [specFrom, specStep]) (good_plainEnterSeg _ _ _)
    | entering k =>
      cases gb with
      | true =>
        have := h rfl; rw [hpc] at this; obtain ⟨j, hj⟩ := this
        simpa [absSt] using good_genEnter_cont cc l.cell j hj
      | false => simpa [absSt] using good_plainEnterSeg cc l.cell k
    | body k =>
      simp only [absSt]
      exact good_contBody gb cc l.cell k (fun hg => by have := h hg; rw [hpc] at this; exact this)
    | exiting o k =>
      cases gb with
      | true =>
        have := h rfl; rw [hpc] at this
        simpa [absSt] using good_genExit_cont l.cell o this
      | false => simpa [absSt] using good_plainExitSeg cc l.cell o k
    | done r =>
      refine ⟨by simp [specFrom, hpc], ?_⟩
      exact h
  | cancel x =>
    cases hpc : l.pc with
    | fresh =>
      exact ⟨by simp [specFrom, specStep, absSt], fun _ => by simp⟩
    | entering k =>
      cases gb with
      | true =>
        have := h rfl; rw [hpc] at this; obtain ⟨j, hj⟩ := this
        simpa [absSt] using good_genEnter_cancel cc l.cell j x hj
      | false =>
        simp only [Bool.false_eq_true, if_false, absSt]
        exact good_afterEnter false cc l.cell 0 (.raised x) (by simp) (by simp)
    | body k =>
      simp only [absSt]
      exact good_afterBody gb cc l.cell _ (fun hg => by have := h hg; rw [hpc] at this; exact this)
    | exiting o k =>
      cases gb with
      | true =>
        have := h rfl; rw [hpc] at this
        simpa [absSt] using good_genExit_cancel l.cell o x this
      | false =>
        simp only [Bool.false_eq_true, if_false, absSt]
        exact good_contExit false l.cell o 0 (.raised x) (fun hs => by cases hs)
    | done r =>
      refine ⟨by simp [specFrom, hpc], ?_⟩
      exact h

/-! ## facts about `callStep` used by the heap/private refinement -/

theorem prepend_fst (evs : List LEv) (r : R) : (prepend evs r).1 = r.1 := rfl

theorem contExit_cell (cell : GenCell) (o : BodyOut) (left : Nat) (aw : Aw Bool) :
    (contExit cell o left aw).1.cell = cell := by cases aw <;> rfl

theorem plainExitSeg_cell (cc : CallCfg) (cell : GenCell) (o : BodyOut) (n : Nat) :
    (plainExitSeg cc cell o n).1.cell = cell := by
  cases n <;> simp [plainExitSeg, contExit_cell]

theorem startExit_cell_plain (cc : CallCfg) (cell : GenCell) (o : BodyOut) :
    (startExit false cc cell o).1.cell = cell := by
  simp [startExit, prepend_fst, plainExitSeg_cell]

theorem contBody_cell_plain (cc : CallCfg) (cell : GenCell) (n : Nat) :
    (contBody false cc cell n).1.cell = cell := by
  cases n <;> simp [contBody, afterBody, prepend_fst, startExit_cell_plain]

theorem afterEnter_cell_plain (cc : CallCfg) (cell : GenCell) (left : Nat) (aw : Aw Unit) :
    (afterEnter false cc cell left aw).1.cell = cell := by
  cases aw <;> simp [afterEnter, prepend_fst, contBody_cell_plain]

theorem plainEnterSeg_cell (cc : CallCfg) (cell : GenCell) (n : Nat) :
    (plainEnterSeg false cc cell n).1.cell = cell := by
  cases n <;> simp [plainEnterSeg, prepend_fst, afterEnter_cell_plain]

/-- a class-based manager never touches a generator -/
theorem callStep_cell_plain (cc : CallCfg) (l : Local) (op : COp) :
    (callStep false cc l op).1.cell = l.cell := by
  unfold callStep
  cases op <;> cases l.pc <;>
    simp [prepend_fst, plainEnterSeg_cell, contBody_cell_plain, plainExitSeg_cell, afterEnter_cell_plain,
      afterBody, startExit_cell_plain, contExit_cell]

theorem callStep_done (gb : Bool) (cc : CallCfg) (l : Local) (op : COp) (r : Result) (h : l.pc = .done r) :
    callStep gb cc l op = (l, [], .skipped) := by
  unfold callStep; cases op <;> simp [h]

theorem callStep_fresh_cancel (gb : Bool) (cc : CallCfg) (l : Local) (x : Exc) (h : l.pc = .fresh) :
    callStep gb cc l (.cancel x) = ({ l with pc := .done (.raised x) }, [.finish (.raised x)], .finished (.raised x)) := by
  unfold callStep; simp [h]

theorem contExit_nf (cell : GenCell) (o : BodyOut) (left : Nat) (aw : Aw Bool) :
    (contExit cell o left aw).1.pc ≠ .fresh := by cases aw <;> simp [contExit, finishExit]

theorem genExitSend_nf (cell : GenCell) (o : BodyOut) (r : Resume) : (genExitSend cell o r).1.pc ≠ .fresh := by
  simp [genExitSend, prepend_fst, contExit_nf]

theorem plainExitSeg_nf (cc : CallCfg) (cell : GenCell) (o : BodyOut) (n : Nat) :
    (plainExitSeg cc cell o n).1.pc ≠ .fresh := by cases n <;> simp [plainExitSeg, contExit_nf]

theorem startExit_nf (gb : Bool) (cc : CallCfg) (cell : GenCell) (o : BodyOut) :
    (startExit gb cc cell o).1.pc ≠ .fresh := by
  cases gb <;> simp [startExit, prepend_fst, genExitSend_nf, plainExitSeg_nf]

theorem contBody_nf (gb : Bool) (cc : CallCfg) (cell : GenCell) (n : Nat) :
    (contBody gb cc cell n).1.pc ≠ .fresh := by
  cases n <;> simp [contBody, afterBody, prepend_fst, startExit_nf]

theorem afterEnter_nf (gb : Bool) (cc : CallCfg) (cell : GenCell) (left : Nat) (aw : Aw Unit) :
    (afterEnter gb cc cell left aw).1.pc ≠ .fresh := by
  cases aw <;> simp [afterEnter, prepend_fst, contBody_nf]

theorem genEnterSend_nf (gb : Bool) (cc : CallCfg) (cell : GenCell) (r : Resume) :
    (genEnterSend gb cc cell r).1.pc ≠ .fresh := by
  simp [genEnterSend, prepend_fst, afterEnter_nf]

theorem plainEnterSeg_nf (gb : Bool) (cc : CallCfg) (cell : GenCell) (n : Nat) :
    (plainEnterSeg gb cc cell n).1.pc ≠ .fresh := by
  cases n <;> simp [plainEnterSeg, prepend_fst, afterEnter_nf]

/-- a coroutine that has been sent to or thrown into is never "not started" again -/
theorem callStep_nf (gb : Bool) (cc : CallCfg) (l : Local) (op : COp) (h : l.pc = .fresh) :
    (callStep gb cc l op).1.pc ≠ .fresh := by
  unfold callStep
  cases op <;> cases gb <;>
    simp [h, prepend_fst, genEnterSend_nf, plainEnterSeg_nf]

theorem callStep_nf' (gb : Bool) (cc : CallCfg) (l : Local) (op : COp) (h : l.pc ≠ .fresh) :
    (callStep gb cc l op).1.pc ≠ .fresh := by
  unfold callStep
  cases op <;> cases gb <;> cases hpc : l.pc <;>
    simp_all [prepend_fst, genEnterSend_nf, plainEnterSeg_nf, contBody_nf, genExitSend_nf, plainExitSeg_nf,
      afterEnter_nf, afterBody, startExit_nf, contExit_nf]

theorem callStep_not_fresh (gb : Bool) (cc : CallCfg) (l : Local) (op : COp) :
    (callStep gb cc l op).1.pc ≠ .fresh := by
  by_cases h : l.pc = .fresh
  · exact callStep_nf gb cc l op h
  · exact callStep_nf' gb cc l op h

/-! ## heap machine ≡ private machine -/

theorem setAt_same {α : Type} (f : Nat → α) (i : Nat) (v : α) : setAt f i v i = v := by simp [setAt]
theorem setAt_other {α : Type} (f : Nat → α) {i j : Nat} (v : α) (h : j ≠ i) : setAt f i v j = f j := by
  simp [setAt, h]

/-- the relation between the heap machine and the machine where every call owns its manager -/
structure Rel (cfg : Cfg) (s : State) (p : PState) : Prop where
  pcs : ∀ c, (s.calls c).pc = (p.calls c).pc
  log : s.log.map (fun e => (e.call, e.ev)) = p.log
  pos : 1 ≤ s.ngens
  gen0 : s.gens 0 = dfltCell
  own : ∀ c g, (s.calls c).gid = some g → 1 ≤ g ∧ g < s.ngens ∧ s.gens g = (p.calls c).cell
  inj : ∀ c c' g, (s.calls c).gid = some g → (s.calls c').gid = some g → c = c'
  nogid : ∀ c cc, (s.calls c).gid = none → cfg.calls[c]? = some cc → (p.calls c).cell = initCell cc
  gbnone : cfg.generatorBased = true → ∀ c, (s.calls c).gid = none →
    (s.calls c).pc = .fresh ∨ ∃ r, (s.calls c).pc = .done r
  plainnone : cfg.generatorBased = false → ∀ c, (s.calls c).gid = none
  freshcell : ∀ c cc, (s.calls c).pc = .fresh → cfg.calls[c]? = some cc → (p.calls c).cell = initCell cc
  fresh : ∀ c, (s.calls c).pc = .fresh → ∀ e ∈ s.log, e.call ≠ c
  tagged : ∀ e ∈ s.log, e.gen = (s.calls e.call).gid
  genev : cfg.generatorBased = true → ∀ e ∈ s.log, e.ev = .enter → e.gen ≠ none

theorem rel_init (cfg : Cfg) : Rel cfg State.init (PState.init cfg) where
  pcs := fun _ => rfl
  log := rfl
  pos := Nat.le_refl _
  gen0 := rfl
  own := fun c g h => by simp [State.init] at h
  inj := fun c c' g h => by simp [State.init] at h
  nogid := fun c cc _ hcc => by simp [PState.init, hcc]
  gbnone := fun _ c _ => Or.inl rfl
  plainnone := fun _ _ => rfl
  freshcell := fun c cc _ hcc => by simp [PState.init, hcc]
  fresh := fun c _ e he => by simp [State.init] at he
  tagged := fun e he => by simp [State.init] at he
  genev := fun _ e he => by simp [State.init] at he

theorem rel_recreate {cfg : Cfg} {s : State} {p : PState} (h : Rel cfg s p) (c : Nat) (cc : CallCfg)
    (hcc : cfg.calls[c]? = some cc) (hf : (s.calls c).pc = .fresh) (hgb : cfg.generatorBased = true) :
    Rel cfg (recreate cfg.generatorBased s c cc) p := by
  have hrec : recreate cfg.generatorBased s c cc =
      { s with gens := setAt s.gens s.ngens (initCell cc), ngens := s.ngens + 1,
               calls := setAt s.calls c { pc := .fresh, gid := some s.ngens } } := by
    simp [recreate, hgb]
  rw [hrec]
  have hpos := h.pos
  refine { pcs := ?_, log := h.log, pos := by simp, gen0 := ?_, own := ?_, inj := ?_, nogid := ?_, gbnone := ?_,
           plainnone := ?_, freshcell := ?_, fresh := ?_, tagged := ?_, genev := h.genev }
  · intro c'
    by_cases hc : c' = c
    · subst hc; simp [setAt_same, ← h.pcs, hf]
    · simp [setAt_other _ _ hc, h.pcs]
  · have : (0 : Nat) ≠ s.ngens := by omega
    simp only [setAt_other _ _ this]; exact h.gen0
  · intro c' g hg
    by_cases hc : c' = c
    · subst hc
      simp only [setAt_same] at hg
      have hg' : s.ngens = g := by simpa using hg
      subst hg'
      refine ⟨hpos, by simp, ?_⟩
      simp only [setAt_same]
      exact (h.freshcell c' cc hf hcc).symm
    · simp only [setAt_other _ _ hc] at hg
      obtain ⟨h1, h2, h3⟩ := h.own c' g hg
      refine ⟨h1, by simp; omega, ?_⟩
      have : g ≠ s.ngens := by omega
      simp only [setAt_other _ _ this]; exact h3
  · intro c1 c2 g h1 h2
    by_cases hc1 : c1 = c <;> by_cases hc2 : c2 = c
    · rw [hc1, hc2]
    · subst hc1
      simp only [setAt_same] at h1
      simp only [setAt_other _ _ hc2] at h2
      have : s.ngens = g := by simpa using h1
      have := (h.own c2 g h2).2.1
      omega
    · subst hc2
      simp only [setAt_same] at h2
      simp only [setAt_other _ _ hc1] at h1
      have : s.ngens = g := by simpa using h2
      have := (h.own c1 g h1).2.1
      omega
    · simp only [setAt_other _ _ hc1] at h1
      simp only [setAt_other _ _ hc2] at h2
      exact h.inj c1 c2 g h1 h2
  · intro c' cc' hg hcc'
    by_cases hc : c' = c
    · subst hc; simp [setAt_same] at hg
    · simp only [setAt_other _ _ hc] at hg; exact h.nogid c' cc' hg hcc'
  · intro _ c' hg
    by_cases hc : c' = c
    · subst hc; simp [setAt_same] at hg
    · simp only [setAt_other _ _ hc] at hg ⊢; exact h.gbnone hgb c' hg
  · intro hgb'; rw [hgb] at hgb'; cases hgb'
  · intro c' cc' hpc hcc'
    by_cases hc : c' = c
    · subst hc; exact h.freshcell c' cc' hf hcc'
    · simp only [setAt_other _ _ hc] at hpc; exact h.freshcell c' cc' hpc hcc'
  · intro c' hpc e he
    by_cases hc : c' = c
    · subst hc; exact h.fresh c' hf e he
    · simp only [setAt_other _ _ hc] at hpc; exact h.fresh c' hpc e he
  · intro e he
    have hne : e.call ≠ c := h.fresh c hf e he
    simp only [setAt_other _ _ hne]; exact h.tagged e he

theorem cellOf_eq {cfg : Cfg} {s : State} {p : PState} (h : Rel cfg s p) (c : Nat) (cc : CallCfg)
    (hcc : cfg.calls[c]? = some cc) :
    ({ pc := (s.calls c).pc, cell := cellOf s c cc } : Local) = p.calls c := by
  have hcell : cellOf s c cc = (p.calls c).cell := by
    unfold cellOf
    cases hg : (s.calls c).gid with
    | none => exact (h.nogid c cc hg hcc).symm
    | some g => exact (h.own c g hg).2.2
  rw [hcell, h.pcs c]

theorem rel_core {cfg : Cfg} {s : State} {p : PState} (h : Rel cfg s p) (c : Nat) (cc : CallCfg) (cop : COp)
    (hcc : cfg.calls[c]? = some cc)
    (hfirst : cfg.generatorBased = true → isFirstSend (s.calls c).pc cop = true → (s.calls c).gid ≠ none) :
    Rel cfg (core cfg.generatorBased s c cc cop).1 (pstep cfg p ⟨c, cop⟩).1 ∧
      (core cfg.generatorBased s c cc cop).2 = (pstep cfg p ⟨c, cop⟩).2 := by
  have hloc := cellOf_eq h c cc hcc
  simp only [core, pstep, hcc, hloc]
  generalize hr : callStep cfg.generatorBased cc (p.calls c) cop = r
  -- when the call has no generator reference, its private generator is untouched
  have hkeep : (s.calls c).gid = none → r.1.cell = initCell cc ∧
      (cfg.generatorBased = true → (∃ res, r.1.pc = .done res) ∧ ∀ e ∈ r.2.1, e ≠ LEv.enter) := by
    intro hg
    have hinit := h.nogid c cc hg hcc
    cases hgb : cfg.generatorBased with
    | false =>
      refine ⟨?_, fun hh => by cases hh⟩
      rw [← hr, hgb, callStep_cell_plain]; exact hinit
    | true =>
      rcases h.gbnone hgb c hg with hf | ⟨res, hd⟩
      · -- fresh: by `hfirst` the operation is a throw
        cases cop with
        | resume => exact absurd hg (hfirst hgb (by simp [isFirstSend, hf]))
        | cancel x =>
          have := callStep_fresh_cancel cfg.generatorBased cc (p.calls c) x (by rw [← h.pcs]; exact hf)
          rw [hgb] at this hr
          rw [← hr, this]
          exact ⟨hinit, fun _ => ⟨⟨_, rfl⟩, by simp⟩⟩
      · have := callStep_done cfg.generatorBased cc (p.calls c) cop res (by rw [← h.pcs]; exact hd)
        rw [hgb] at this hr
        rw [← hr, this]
        exact ⟨hinit, fun _ => ⟨⟨res, by rw [← h.pcs]; exact hd⟩, by simp⟩⟩
  have hnf : r.1.pc ≠ .fresh := by rw [← hr]; exact callStep_not_fresh _ _ _ _
  refine ⟨{ pcs := ?_, log := ?_, pos := h.pos, gen0 := ?_, own := ?_, inj := ?_, nogid := ?_, gbnone := ?_,
            plainnone := ?_, freshcell := ?_, fresh := ?_, tagged := ?_, genev := ?_ }, trivial⟩
  · intro c'
    by_cases hc : c' = c
    · subst hc; simp [setAt_same]
    · simp [setAt_other _ _ hc, h.pcs]
  · simp only [List.map_append, List.map_map, h.log]
    rfl
  · cases hg : (s.calls c).gid with
    | none => exact h.gen0
    | some g =>
      have : (0 : Nat) ≠ g := by have := (h.own c g hg).1; omega
      simp only [setAt_other _ _ this]; exact h.gen0
  · intro c' g' hg'
    by_cases hc : c' = c
    · subst hc
      simp only [setAt_same] at hg' ⊢
      obtain ⟨h1, h2, _⟩ := h.own c' g' hg'
      refine ⟨h1, h2, ?_⟩
      simp only [hg', setAt_same]
    · simp only [setAt_other _ _ hc] at hg' ⊢
      obtain ⟨h1, h2, h3⟩ := h.own c' g' hg'
      refine ⟨h1, h2, ?_⟩
      cases hg : (s.calls c).gid with
      | none => exact h3
      | some g =>
        have : g' ≠ g := fun heq => hc (h.inj c' c g (heq ▸ hg') hg)
        simp only [setAt_other _ _ this]; exact h3
  · intro c1 c2 g h1 h2
    have e1 : (setAt s.calls c { pc := r.1.pc, gid := (s.calls c).gid } c1).gid = (s.calls c1).gid := by
      by_cases hc : c1 = c
      · subst hc; simp [setAt_same]
      · simp [setAt_other _ _ hc]
    have e2 : (setAt s.calls c { pc := r.1.pc, gid := (s.calls c).gid } c2).gid = (s.calls c2).gid := by
      by_cases hc : c2 = c
      · subst hc; simp [setAt_same]
      · simp [setAt_other _ _ hc]
    rw [e1] at h1; rw [e2] at h2
    exact h.inj c1 c2 g h1 h2
  · intro c' cc' hg hcc'
    by_cases hc : c' = c
    · subst hc
      simp only [setAt_same] at hg ⊢
      have : cc' = cc := by rw [hcc] at hcc'; exact (Option.some.inj hcc').symm
      subst this
      exact (hkeep hg).1
    · simp only [setAt_other _ _ hc] at hg ⊢; exact h.nogid c' cc' hg hcc'
  · intro hgb c' hg
    by_cases hc : c' = c
    · subst hc
      simp only [setAt_same] at hg ⊢
      exact Or.inr ((hkeep hg).2 hgb).1
    · simp only [setAt_other _ _ hc] at hg ⊢; exact h.gbnone hgb c' hg
  · intro hgb c'
    by_cases hc : c' = c
    · subst hc; simp only [setAt_same]; exact h.plainnone hgb c'
    · simp only [setAt_other _ _ hc]; exact h.plainnone hgb c'
  · intro c' cc' hpc hcc'
    by_cases hc : c' = c
    · subst hc; simp only [setAt_same] at hpc; exact absurd hpc hnf
    · simp only [setAt_other _ _ hc] at hpc ⊢; exact h.freshcell c' cc' hpc hcc'
  · intro c' hpc e he
    by_cases hc : c' = c
    · subst hc; simp only [setAt_same] at hpc; exact absurd hpc hnf
    · simp only [setAt_other _ _ hc] at hpc
      rcases List.mem_append.mp he with he | he
      · exact h.fresh c' hpc e he
      · obtain ⟨x, _, rfl⟩ := List.mem_map.mp he
        exact fun heq => hc heq.symm
  · intro e he
    rcases List.mem_append.mp he with he | he
    · by_cases hc : e.call = c
      · rw [hc]; simp only [setAt_same]; rw [← hc]; exact h.tagged e he
      · simp only [setAt_other _ _ hc]; exact h.tagged e he
    · obtain ⟨x, _, rfl⟩ := List.mem_map.mp he
      simp [setAt_same]
  · intro hgb e he hev
    rcases List.mem_append.mp he with he | he
    · exact h.genev hgb e he hev
    · obtain ⟨x, hx, rfl⟩ := List.mem_map.mp he
      intro hnone
      exact ((hkeep hnone).2 hgb).2 x hx hev

theorem rel_step {cfg : Cfg} {s : State} {p : PState} (h : Rel cfg s p) (op : Op) :
    Rel cfg (step cfg s op).1 (pstep cfg p op).1 ∧ (step cfg s op).2 = (pstep cfg p op).2 := by
  obtain ⟨c, cop⟩ := op
  unfold step
  cases hcc : cfg.calls[c]? with
  | none => simp only [pstep, hcc]; exact ⟨h, trivial⟩
  | some cc =>
    simp only
    by_cases hfs : isFirstSend (s.calls c).pc cop = true
    · have hf : (s.calls c).pc = .fresh := by
        unfold isFirstSend at hfs
        split at hfs
        · assumption
        · cases hfs
      simp only [hfs, if_true]
      cases hgb : cfg.generatorBased with
      | true =>
        have h1 := rel_recreate h c cc hcc hf hgb
        have := rel_core h1 c cc cop hcc (by
          intro _ _
          simp [recreate, hgb, setAt_same])
        rw [hgb] at this; exact this
      | false =>
        have := rel_core h c cc cop hcc (by intro hh; rw [hgb] at hh; cases hh)
        simpa [recreate, hgb] using this
    · simp only [hfs]
      exact rel_core h c cc cop hcc (by intro _ hh; exact absurd hh hfs)

theorem rel_run {cfg : Cfg} (ops : List Op) {s : State} {p : PState} (h : Rel cfg s p) :
    Rel cfg (runFrom cfg s ops).1 (prunFrom cfg p ops).1 ∧ (runFrom cfg s ops).2 = (prunFrom cfg p ops).2 := by
  induction ops generalizing s p with
  | nil => exact ⟨h, rfl⟩
  | cons op rest ih =>
    obtain ⟨h1, h2⟩ := rel_step h op
    obtain ⟨h3, h4⟩ := ih h1
    simp only [runFrom, prunFrom]
    exact ⟨h3, by rw [h2, h4]⟩

theorem rel_reach (cfg : Cfg) (ops : List Op) : Rel cfg (run cfg ops).1 (prun cfg ops).1 :=
  (rel_run ops (rel_init cfg)).1

/-! ## the private machine: acceptance by the automaton, and independence of the calls -/

/-- the events of call `c` in the private machine's log -/
def pproj (c : Nat) (log : List (Nat × LEv)) : List LEv := (log.filter (fun e => e.1 == c)).map (·.2)

theorem proj_eq_pproj (c : Nat) (log : List Ev) :
    proj c log = pproj c (log.map (fun e => (e.call, e.ev))) := by
  induction log with
  | nil => rfl
  | cons e rest ih =>
    simp only [proj, pproj, List.map_cons, List.filter_cons] at ih ⊢
    by_cases h : (e.call == c) = true
    · simp only [h, if_true, List.map_cons]; rw [ih]
    · simp only [h]; exact ih

theorem pproj_append (c : Nat) (a b : List (Nat × LEv)) : pproj c (a ++ b) = pproj c a ++ pproj c b := by
  simp [pproj]

theorem pproj_tag_same (c : Nat) (evs : List LEv) : pproj c (evs.map (fun e => (c, e))) = evs := by
  induction evs with
  | nil => rfl
  | cons e rest ih => simp only [pproj, List.map_cons, List.filter_cons, beq_self_eq_true, if_true] at ih ⊢; rw [ih]

theorem pproj_tag_other {c c' : Nat} (h : c' ≠ c) (evs : List LEv) : pproj c' (evs.map (fun e => (c, e))) = [] := by
  induction evs with
  | nil => rfl
  | cons e rest ih =>
    have : (c == c') = false := by simp; exact fun h' => h h'.symm
    simp only [pproj, List.map_cons, List.filter_cons, this] at ih ⊢
    exact ih

structure PInv (cfg : Cfg) (p : PState) : Prop where
  acc : ∀ c, specFrom .init (pproj c p.log) = some (absSt (p.calls c).pc)
  coh : ∀ c, Coh cfg.generatorBased (p.calls c)

theorem pinv_init (cfg : Cfg) : PInv cfg (PState.init cfg) where
  acc := fun c => by simp [PState.init, pproj, specFrom, absSt]
  coh := fun c => by
    intro _
    simp only [PState.init]
    cases cfg.calls[c]? <;> simp [initCell, dfltCell]

theorem pinv_step {cfg : Cfg} {p : PState} (h : PInv cfg p) (op : Op) : PInv cfg (pstep cfg p op).1 := by
  unfold pstep
  cases hcc : cfg.calls[op.call]? with
  | none => exact h
  | some cc =>
    simp only
    have hg := callStep_good cfg.generatorBased cc (p.calls op.call) op.cop (h.coh op.call)
    refine ⟨fun c => ?_, fun c => ?_⟩
    · by_cases hc : c = op.call
      · subst hc
        simp only [pproj_append, pproj_tag_same, setAt_same, specFrom_append, h.acc, Option.bind]
        exact hg.1
      · simp only [pproj_append, pproj_tag_other hc, List.append_nil, setAt_other _ _ hc]
        exact h.acc c
    · by_cases hc : c = op.call
      · subst hc; simp only [setAt_same]; exact hg.2
      · simp only [setAt_other _ _ hc]; exact h.coh c

theorem pinv_run {cfg : Cfg} (ops : List Op) {p : PState} (h : PInv cfg p) : PInv cfg (prunFrom cfg p ops).1 := by
  induction ops generalizing p with
  | nil => exact h
  | cons op rest ih => exact ih (pinv_step h op)

theorem pstep_other (cfg : Cfg) (p : PState) (op : Op) (c : Nat) (hc : op.call ≠ c) :
    (pstep cfg p op).1.calls c = p.calls c ∧ pproj c (pstep cfg p op).1.log = pproj c p.log := by
  unfold pstep
  cases cfg.calls[op.call]? with
  | none => exact ⟨rfl, rfl⟩
  | some cc =>
    have hc' : c ≠ op.call := fun h => hc h.symm
    simp only [setAt_other _ _ hc', pproj_append, pproj_tag_other hc', List.append_nil, and_self]

theorem pstep_same (cfg : Cfg) (p q : PState) (op : Op) (h1 : p.calls op.call = q.calls op.call)
    (h2 : pproj op.call p.log = pproj op.call q.log) :
    (pstep cfg p op).1.calls op.call = (pstep cfg q op).1.calls op.call ∧
    pproj op.call (pstep cfg p op).1.log = pproj op.call (pstep cfg q op).1.log ∧
    (pstep cfg p op).2 = (pstep cfg q op).2 := by
  unfold pstep
  cases cfg.calls[op.call]? with
  | none => exact ⟨h1, h2, rfl⟩
  | some cc =>
    simp only [setAt_same, pproj_append, pproj_tag_same, h1, h2, and_self]

/-- the outputs of the operations on call `c`, in order -/
def outsOf (c : Nat) : List Op → List Out → List Out
  | op :: ops, o :: outs => if op.call == c then o :: outsOf c ops outs else outsOf c ops outs
  | _, _ => []

/-- in the private machine, what call `c` does depends only on the operations on `c` -/
theorem pproject (cfg : Cfg) (c : Nat) (ops : List Op) (p q : PState) (h1 : p.calls c = q.calls c)
    (h2 : pproj c p.log = pproj c q.log) :
    (prunFrom cfg p ops).1.calls c = (prunFrom cfg q (ops.filter (fun op => op.call == c))).1.calls c ∧
    pproj c (prunFrom cfg p ops).1.log = pproj c (prunFrom cfg q (ops.filter (fun op => op.call == c))).1.log ∧
    outsOf c ops (prunFrom cfg p ops).2 = (prunFrom cfg q (ops.filter (fun op => op.call == c))).2 := by
  induction ops generalizing p q with
  | nil => exact ⟨h1, h2, rfl⟩
  | cons op rest ih =>
    by_cases hc : op.call = c
    · have hb : (op.call == c) = true := by simp [hc]
      simp only [List.filter_cons, hb, if_true, prunFrom, outsOf]
      subst hc
      obtain ⟨a, b, d⟩ := pstep_same cfg p q op h1 h2
      obtain ⟨i1, i2, i3⟩ := ih _ _ a b
      exact ⟨i1, i2, by rw [i3, d]⟩
    · have hb : (op.call == c) = false := by simp [hc]
      simp only [List.filter_cons, hb, prunFrom, outsOf]
      obtain ⟨a, b⟩ := pstep_other cfg p op c hc
      exact ih _ _ (a.trans h1) (b.trans h2)

/-! ## one step of the heap machine leaves every other call alone -/

theorem proj_append (c : Nat) (a b : List Ev) : proj c (a ++ b) = proj c a ++ proj c b := by
  simp [proj]

theorem proj_tag_other {c c' : Nat} (h : c' ≠ c) (g : Option Nat) (evs : List LEv) :
    proj c' (evs.map (fun e => (⟨c, g, e⟩ : Ev))) = [] := by
  induction evs with
  | nil => rfl
  | cons e rest ih =>
    have : (c == c') = false := by simp; exact fun h' => h h'.symm
    simp only [proj, List.map_cons, List.filter_cons, this] at ih ⊢
    exact ih

theorem core_other (gb : Bool) (s : State) (c' : Nat) (cc : CallCfg) (cop : COp) (c : Nat) (hc : c ≠ c') :
    (core gb s c' cc cop).1.calls c = s.calls c ∧
    (∀ g, (s.calls c').gid ≠ some g → (core gb s c' cc cop).1.gens g = s.gens g) ∧
    proj c (core gb s c' cc cop).1.log = proj c s.log := by
  unfold core
  refine ⟨by simp [setAt_other _ _ hc], ?_, by simp [proj_append, proj_tag_other hc]⟩
  intro g hg
  cases hgid : (s.calls c').gid with
  | none => rfl
  | some g' =>
    have : g ≠ g' := fun h => hg (by rw [hgid, h])
    simp [setAt_other _ _ this]

theorem step_other {cfg : Cfg} {s : State} {p : PState} (h : Rel cfg s p) (op : Op) (c : Nat)
    (hc : op.call ≠ c) :
    (step cfg s op).1.calls c = s.calls c ∧
    (∀ g, (s.calls c).gid = some g → (step cfg s op).1.gens g = s.gens g) ∧
    proj c (step cfg s op).1.log = proj c s.log := by
  have hc' : c ≠ op.call := fun h' => hc h'.symm
  unfold step
  cases hcc : cfg.calls[op.call]? with
  | none => exact ⟨rfl, fun _ _ => rfl, rfl⟩
  | some cc =>
    simp only
    by_cases hrec : isFirstSend (s.calls op.call).pc op.cop = true ∧ cfg.generatorBased = true
    · obtain ⟨hfs, hgb⟩ := hrec
      simp only [hfs, if_true, recreate, hgb]
      obtain ⟨a, b, d⟩ := core_other true
        { s with gens := setAt s.gens s.ngens (initCell cc), ngens := s.ngens + 1,
                 calls := setAt s.calls op.call { pc := .fresh, gid := some s.ngens } } op.call cc op.cop c hc'
      refine ⟨by rw [a]; simp [setAt_other _ _ hc'], ?_, by rw [d]⟩
      intro g hg
      have hlt := (h.own c g hg).2.1
      have hne : g ≠ s.ngens := by omega
      rw [b g (by simp only [setAt_same]; intro heq; exact hne (Option.some.inj heq).symm)]
      simp [setAt_other _ _ hne]
    · have hs1 : (if isFirstSend (s.calls op.call).pc op.cop = true then recreate cfg.generatorBased s op.call cc else s) = s := by
        by_cases hfs : isFirstSend (s.calls op.call).pc op.cop = true
        · have hgb : cfg.generatorBased = false := by
            cases hh : cfg.generatorBased with
            | false => rfl
            | true => exact absurd ⟨hfs, hh⟩ hrec
          simp [hfs, recreate, hgb]
        · simp [hfs]
      rw [hs1]
      obtain ⟨a, b, d⟩ := core_other cfg.generatorBased s op.call cc op.cop c hc'
      refine ⟨a, ?_, d⟩
      intro g hg
      exact b g (fun h' => hc (h.inj op.call c g h' hg))

/-! ## complete calls have exactly one of three shapes -/

theorem from_finished (r : Result) (l : List LEv) (st : SpecSt) (h : specFrom (.finished r) l = some st) :
    l = [] ∧ st = .finished r := by
  cases l with
  | nil => simp [specFrom] at h; exact ⟨rfl, h.symm⟩
  | cons e rest => cases e <;> simp [specFrom, specStep] at h

theorem from_exited (o : BodyOut) (resp : ExitResp) (l : List LEv) (r : Result)
    (h : specFrom (.exited o resp) l = some (.finished r)) :
    l = [.finish (combine o resp)] ∧ r = combine o resp := by
  cases l with
  | nil => simp [specFrom] at h
  | cons e rest =>
    cases e <;> simp [specFrom, specStep] at h
    rename_i res
    by_cases hres : res = combine o resp
    · subst hres
      simp only [if_true] at h
      obtain ⟨h1, h2⟩ := from_finished _ _ _ h
      subst h1
      exact ⟨rfl, by cases h2; rfl⟩
    · simp [hres] at h

theorem from_exiting (o : BodyOut) (l : List LEv) (r : Result)
    (h : specFrom (.exiting o) l = some (.finished r)) :
    ∃ resp, l = [.exited resp, .finish (combine o resp)] ∧ r = combine o resp := by
  cases l with
  | nil => simp [specFrom] at h
  | cons e rest =>
    cases e <;> simp [specFrom, specStep] at h
    rename_i resp
    obtain ⟨h1, h2⟩ := from_exited _ _ _ _ h
    exact ⟨resp, by rw [h1], h2⟩

theorem from_bodyDone (o : BodyOut) (l : List LEv) (r : Result)
    (h : specFrom (.bodyDone o) l = some (.finished r)) :
    ∃ resp, l = [.exit o.exc, .exited resp, .finish (combine o resp)] ∧ r = combine o resp := by
  cases l with
  | nil => simp [specFrom] at h
  | cons e rest =>
    cases e <;> simp [specFrom, specStep] at h
    rename_i x
    by_cases hx : x = o.exc
    · subst hx
      simp only [if_true] at h
      obtain ⟨resp, h1, h2⟩ := from_exiting _ _ _ h
      exact ⟨resp, by rw [h1], h2⟩
    · simp [hx] at h

theorem from_inBody (l : List LEv) (r : Result) (h : specFrom .inBody l = some (.finished r)) :
    ∃ o resp, l = [.bodyEnd o, .exit o.exc, .exited resp, .finish (combine o resp)] ∧ r = combine o resp := by
  cases l with
  | nil => simp [specFrom] at h
  | cons e rest =>
    cases e <;> simp [specFrom, specStep] at h
    rename_i o
    obtain ⟨resp, h1, h2⟩ := from_bodyDone _ _ _ h
    exact ⟨o, resp, by rw [h1], h2⟩

theorem from_entered (l : List LEv) (r : Result) (h : specFrom .entered l = some (.finished r)) :
    ∃ o resp, l = [.bodyBegin, .bodyEnd o, .exit o.exc, .exited resp, .finish (combine o resp)] ∧
      r = combine o resp := by
  cases l with
  | nil => simp [specFrom] at h
  | cons e rest =>
    cases e <;> simp [specFrom, specStep] at h
    obtain ⟨o, resp, h1, h2⟩ := from_inBody _ _ h
    exact ⟨o, resp, by rw [h1], h2⟩

theorem from_entering (l : List LEv) (r : Result) (h : specFrom .entering l = some (.finished r)) :
    (∃ x, l = [.finish (.raised x)] ∧ r = .raised x) ∨
    ∃ o resp, l = [.entered, .bodyBegin, .bodyEnd o, .exit o.exc, .exited resp, .finish (combine o resp)] ∧
      r = combine o resp := by
  cases l with
  | nil => simp [specFrom] at h
  | cons e rest =>
    cases e with
    | entered =>
      simp only [specFrom, specStep] at h
      obtain ⟨o, resp, h1, h2⟩ := from_entered _ _ h
      exact Or.inr ⟨o, resp, by rw [h1], h2⟩
    | finish res =>
      cases res with
      | raised x =>
        simp only [specFrom, specStep] at h
        obtain ⟨h1, h2⟩ := from_finished _ _ _ h
        subst h1
        exact Or.inl ⟨x, rfl, by cases h2; rfl⟩
      | value v => simp [specFrom, specStep] at h
      | none => simp [specFrom, specStep] at h
    | _ => simp [specFrom, specStep] at h

theorem from_init (l : List LEv) (r : Result) (h : specFrom .init l = some (.finished r)) :
    (∃ x, l = [.finish (.raised x)] ∧ r = .raised x) ∨
    (∃ x, l = [.enter, .finish (.raised x)] ∧ r = .raised x) ∨
    ∃ o resp, l = [.enter, .entered, .bodyBegin, .bodyEnd o, .exit o.exc, .exited resp, .finish (combine o resp)] ∧
      r = combine o resp := by
  cases l with
  | nil => simp [specFrom] at h
  | cons e rest =>
    cases e with
    | enter =>
      simp only [specFrom, specStep] at h
      rcases from_entering _ _ h with ⟨x, h1, h2⟩ | ⟨o, resp, h1, h2⟩
      · exact Or.inr (Or.inl ⟨x, by rw [h1], h2⟩)
      · exact Or.inr (Or.inr ⟨o, resp, by rw [h1], h2⟩)
    | finish res =>
      cases res with
      | raised x =>
        simp only [specFrom, specStep] at h
        obtain ⟨h1, h2⟩ := from_finished _ _ _ h
        subst h1
        exact Or.inl ⟨x, rfl, by cases h2; rfl⟩
      | value v => simp [specFrom, specStep] at h
      | none => simp [specFrom, specStep] at h
    | _ => simp [specFrom, specStep] at h

/-! ## progress: every operation on a call brings it strictly closer to completion -/

def exitBound (gb : Bool) (cc : CallCfg) (cell : GenCell) : Nat :=
  if gb then max cell.prog.postSusp cell.prog.thrSusp else cc.plain.exitSusp

def enterBound (gb : Bool) (cc : CallCfg) (cell : GenCell) : Nat :=
  if gb then cell.prog.preSusp else cc.plain.enterSusp

def genLeft : GenPc → Nat
  | .pre j => j
  | .post j => j
  | .thr _ j => j
  | _ => 0

/-- an upper bound on the number of operations call still needs before it is done -/
def pot (gb : Bool) (cc : CallCfg) (l : Local) : Nat :=
  match l.pc with
  | .fresh => 1 + enterBound gb cc l.cell + cc.bodySusp + exitBound gb cc l.cell
  | .entering k => (if gb then genLeft l.cell.pc else k) + 1 + cc.bodySusp + exitBound gb cc l.cell
  | .body k => k + 1 + exitBound gb cc l.cell
  | .exiting _ k => (if gb then genLeft l.cell.pc else k) + 1
  | .done _ => 0

theorem pot_zero_done (gb : Bool) (cc : CallCfg) (l : Local) (h : pot gb cc l = 0) : ∃ r, l.pc = .done r := by
  unfold pot at h
  cases hpc : l.pc with
  | done r => exact ⟨r, rfl⟩
  | fresh => rw [hpc] at h; simp at h
  | entering k => rw [hpc] at h; simp at h
  | body k => rw [hpc] at h; simp at h
  | exiting o k => rw [hpc] at h; simp at h

theorem exitBound_pc (gb : Bool) (cc : CallCfg) (cell : GenCell) (pc : GenPc) :
    exitBound gb cc { cell with pc := pc } = exitBound gb cc cell := rfl

theorem pot_finishExit (gb : Bool) (cc : CallCfg) (cell : GenCell) (o : BodyOut) (resp : ExitResp) :
    pot gb cc (finishExit cell o resp).1 = 0 := rfl

theorem pot_contExit_ns (gb : Bool) (cc : CallCfg) (cell : GenCell) (o : BodyOut) (left : Nat) (aw : Aw Bool)
    (h : aw ≠ .suspended) : pot gb cc (contExit cell o left aw).1 = 0 := by
  cases aw with
  | suspended => exact absurd rfl h
  | returned b => rfl
  | raised x => rfl

theorem pot_plainExitSeg (cc : CallCfg) (cell : GenCell) (o : BodyOut) (n : Nat) :
    pot false cc (plainExitSeg cc cell o n).1 ≤ n := by
  cases n with
  | zero =>
    have : plainExitFin cc o.exc ≠ .suspended := by
      unfold plainExitFin plainExitAct
      cases o.exc <;> simp <;> split <;> simp
    simp [plainExitSeg, pot_contExit_ns false cc cell o 0 _ this]
  | succ k => simp [plainExitSeg, contExit, pot]

theorem genAexit_ns (exc : Option Exc) (out : GenOut) (h : out ≠ .suspended) : genAexit exc out ≠ .suspended :=
  fun h' => h (genAexit_susp exc out h')

/-- the exit after a generator segment with `n` suspensions left needs at most `n` more operations -/
theorem pot_exit_seg (cc : CallCfg) (cell : GenCell) (o : BodyOut) (n : Nat) (mk : Nat → GenPc) (fin : GRes)
    (hfin : fin.2.1 ≠ .suspended) (hmk : ∀ k, genLeft (mk k) = k) (evs : List LEv) :
    pot true cc (prepend evs
      (contExit { cell with pc := (seg n mk fin).1 } o 0 (genAexit o.exc (seg n mk fin).2.1))).1 ≤ n := by
  cases n with
  | zero =>
    rw [seg_zero, prepend_fst, pot_contExit_ns true cc _ o 0 _ (genAexit_ns _ _ hfin)]
    exact Nat.le_refl _
  | succ k =>
    rw [seg_succ, prepend_fst]
    cases o.exc <;> simp [genAexit, contExit, pot, hmk]

theorem pot_startExit (gb : Bool) (cc : CallCfg) (cell : GenCell) (o : BodyOut) (h : gb = true → cell.pc = .atYield) :
    pot gb cc (startExit gb cc cell o).1 ≤ exitBound gb cc cell := by
  cases gb with
  | false =>
    simp only [startExit, Bool.false_eq_true, if_false, prepend_fst, exitBound]
    exact pot_plainExitSeg cc cell o _
  | true =>
    simp only [startExit, if_true, genExitSend, exitResume, h rfl, exitBound]
    cases ho : o.exc with
    | none =>
      simp only [genAdvance, addEv]
      have := pot_exit_seg cc cell o cell.prog.postSusp .post (postFin cell.prog) (postFin_ns _) (fun _ => rfl)
        ([.exit none] ++ (seg cell.prog.postSusp .post (postFin cell.prog)).2.2)
      rw [ho] at this
      exact Nat.le_trans this (Nat.le_max_left _ _)
    | some e =>
      simp only [genAdvance, addEv]
      have := pot_exit_seg cc cell o cell.prog.thrSusp (.thr e) (thrFin cell.prog e) (thrFin_ns _ _) (fun _ => rfl)
        ([.exit (some e)] ++ (seg cell.prog.thrSusp (.thr e) (thrFin cell.prog e)).2.2)
      rw [ho] at this
      exact Nat.le_trans this (Nat.le_max_right _ _)

theorem pot_afterBody (gb : Bool) (cc : CallCfg) (cell : GenCell) (o : BodyOut) (h : gb = true → cell.pc = .atYield) :
    pot gb cc (afterBody gb cc cell o).1 ≤ exitBound gb cc cell := by
  simp only [afterBody, prepend_fst]; exact pot_startExit gb cc cell o h

theorem pot_contBody (gb : Bool) (cc : CallCfg) (cell : GenCell) (n : Nat) (h : gb = true → cell.pc = .atYield) :
    pot gb cc (contBody gb cc cell n).1 ≤ n + exitBound gb cc cell := by
  cases n with
  | zero => simp only [contBody, Nat.zero_add]; exact pot_afterBody gb cc cell _ h
  | succ k => simp [contBody, pot]

theorem pot_afterEnter (gb : Bool) (cc : CallCfg) (cell : GenCell) (left : Nat) (aw : Aw Unit)
    (hr : aw = .returned () → gb = true → cell.pc = .atYield) :
    pot gb cc (afterEnter gb cc cell left aw).1 ≤
      (match aw with
       | .suspended => (if gb then genLeft cell.pc else left) + 1
       | _ => 0) + cc.bodySusp + exitBound gb cc cell := by
  cases aw with
  | suspended => simp [afterEnter, pot]
  | raised x => simp [afterEnter, pot]
  | returned u =>
    cases u
    simp only [afterEnter, prepend_fst, Nat.zero_add]
    exact pot_contBody gb cc cell _ (hr rfl)

theorem pot_plainEnterSeg (cc : CallCfg) (cell : GenCell) (n : Nat) :
    pot false cc (plainEnterSeg false cc cell n).1 ≤ n + cc.bodySusp + exitBound false cc cell := by
  cases n with
  | zero =>
    simp only [plainEnterSeg, prepend_fst, Nat.zero_add]
    have := pot_afterEnter false cc cell 0 (plainEnterFin cc).1 (by simp)
    refine Nat.le_trans this ?_
    unfold plainEnterFin
    cases cc.plain.enter <;> simp
  | succ k =>
    simp only [plainEnterSeg]
    have := pot_afterEnter false cc cell k .suspended (by simp)
    simpa using this

theorem pot_enter_seg (cc : CallCfg) (cell : GenCell) (n : Nat) (evs : List LEv) :
    pot true cc (prepend evs
      (afterEnter true cc { cell with pc := (seg n .pre (preFin cell.prog)).1 } 0
        (genAenter (seg n .pre (preFin cell.prog)).2.1))).1 ≤ n + cc.bodySusp + exitBound true cc cell := by
  rw [prepend_fst]
  cases n with
  | zero =>
    rw [seg_zero]
    unfold preFin
    cases cell.prog.pre with
    | yields =>
      have := pot_afterEnter true cc { cell with pc := .atYield } 0 (.returned ()) (by simp)
      simpa [genAenter, exitBound_pc] using this
    | raises e =>
      have := pot_afterEnter true cc { cell with pc := .finished } 0 (.raised (.user e)) (by simp)
      simpa [genAenter, exitBound_pc] using this
    | returns =>
      have := pot_afterEnter true cc { cell with pc := .finished } 0 (.raised (.runtime .didNotYield)) (by simp)
      simpa [genAenter, exitBound_pc] using this
  | succ k =>
    rw [seg_succ]
    have := pot_afterEnter true cc { cell with pc := .pre k } 0 .suspended (by simp)
    simpa [genAenter, exitBound_pc, genLeft] using this

/-- **Progress.** From a coherent local state, every operation on a call that is not done
    strictly decreases the bound on the operations it still needs. -/
theorem callStep_pot (gb : Bool) (cc : CallCfg) (l : Local) (op : COp) (h : Coh gb l) :
    pot gb cc (callStep gb cc l op).1 ≤ pot gb cc l - 1 := by
  unfold callStep
  cases op with
  | resume =>
    cases hpc : l.pc with
    | fresh =>
      cases gb with
      | true =>
        have hc := h rfl; rw [hpc] at hc
        simp only [if_true, genEnterSend, hc, genAdvance, addEv]
        have := pot_enter_seg cc l.cell l.cell.prog.preSusp
          ([.enter] ++ (seg l.cell.prog.preSusp .pre (preFin l.cell.prog)).2.2)
        have hp : pot true cc l = 1 + l.cell.prog.preSusp + cc.bodySusp + exitBound true cc l.cell := by
          simp [pot, hpc, enterBound]
        rw [hp]; omega
      | false =>
        simp only [Bool.false_eq_true, if_false, prepend_fst]
        have := pot_plainEnterSeg cc l.cell cc.plain.enterSusp
        have hp : pot false cc l = 1 + cc.plain.enterSusp + cc.bodySusp + exitBound false cc l.cell := by
          simp [pot, hpc, enterBound]
        rw [hp]; omega
    | entering k =>
      cases gb with
      | true =>
        have hc := h rfl; rw [hpc] at hc; obtain ⟨j, hj⟩ := hc
        simp only [if_true, genEnterSend, hj, genAdvance]
        have := pot_enter_seg cc l.cell j (seg j .pre (preFin l.cell.prog)).2.2
        have hp : pot true cc l = j + 1 + cc.bodySusp + exitBound true cc l.cell := by
          simp [pot, hpc, hj, genLeft]
        rw [hp]; omega
      | false =>
        simp only [Bool.false_eq_true, if_false]
        have := pot_plainEnterSeg cc l.cell k
        have hp : pot false cc l = k + 1 + cc.bodySusp + exitBound false cc l.cell := by
          simp [pot, hpc]
        rw [hp]; omega
    | body k =>
      have := pot_contBody gb cc l.cell k (fun hg => by have := h hg; rw [hpc] at this; exact this)
      have hp : pot gb cc l = k + 1 + exitBound gb cc l.cell := by simp [pot, hpc]
      rw [hp]; dsimp only; omega
    | exiting o k =>
      cases gb with
      | true =>
        have hc : ExitingPc o l.cell.pc := by have := h rfl; rw [hpc] at this; exact this
        unfold ExitingPc at hc
        simp only [if_true, genExitSend]
        cases ho : o.exc with
        | none =>
          rw [ho] at hc; obtain ⟨j, hj⟩ := hc
          simp only [hj, genAdvance]
          have := pot_exit_seg cc l.cell o j .post (postFin l.cell.prog) (postFin_ns _) (fun _ => rfl)
            (seg j .post (postFin l.cell.prog)).2.2
          rw [ho] at this
          have hp : pot true cc l = j + 1 := by simp [pot, hpc, hj, genLeft]
          rw [hp]; omega
        | some e =>
          rw [ho] at hc; obtain ⟨j, hj⟩ := hc
          simp only [hj, genAdvance]
          have := pot_exit_seg cc l.cell o j (.thr e) (thrFin l.cell.prog e) (thrFin_ns _ _) (fun _ => rfl)
            (seg j (.thr e) (thrFin l.cell.prog e)).2.2
          rw [ho] at this
          have hp : pot true cc l = j + 1 := by simp [pot, hpc, hj, genLeft]
          rw [hp]; omega
      | false =>
        simp only [Bool.false_eq_true, if_false]
        have := pot_plainExitSeg cc l.cell o k
        have hp : pot false cc l = k + 1 := by simp [pot, hpc]
        rw [hp]; omega
    | done r => simp [pot, hpc]
  | cancel x =>
    cases hpc : l.pc with
    | fresh => simp [pot]
    | entering k =>
      cases gb with
      | true =>
        have hc := h rfl; rw [hpc] at hc; obtain ⟨j, hj⟩ := hc
        simp only [if_true, genEnterSend, hj, genAdvance, prepend_fst, genAenter, afterEnter]
        simp [pot]
      | false => simp [afterEnter, pot]
    | body k =>
      have := pot_afterBody gb cc l.cell (.raised x) (fun hg => by have := h hg; rw [hpc] at this; exact this)
      have hp : pot gb cc l = k + 1 + exitBound gb cc l.cell := by simp [pot, hpc]
      rw [hp]; dsimp only; omega
    | exiting o k =>
      cases gb with
      | true =>
        have hc : ExitingPc o l.cell.pc := by have := h rfl; rw [hpc] at this; exact this
        unfold ExitingPc at hc
        have hk : genAdvance l.cell.prog l.cell.pc (.cancel x) = (.finished, .raised x, []) := by
          cases ho : o.exc with
          | none => rw [ho] at hc; obtain ⟨j, hj⟩ := hc; simp [hj, genAdvance]
          | some e => rw [ho] at hc; obtain ⟨j, hj⟩ := hc; simp [hj, genAdvance]
        simp only [if_true, genExitSend, hk, prepend_fst]
        rw [pot_contExit_ns true cc _ o 0 _ (genAexit_raised_ns _ _)]
        exact Nat.zero_le _
      | false =>
        simp only [Bool.false_eq_true, if_false]
        rw [pot_contExit_ns false cc _ o 0 _ (by simp)]
        exact Nat.zero_le _
    | done r => simp [pot, hpc]

/-- number of operations on call `c` in a schedule -/
def opsOn (c : Nat) (ops : List Op) : Nat := (ops.filter (fun op => op.call == c)).length

theorem pstep_pot {cfg : Cfg} {p : PState} (h : PInv cfg p) (op : Op) (c : Nat) (cc : CallCfg)
    (hcc : cfg.calls[c]? = some cc) :
    pot cfg.generatorBased cc ((pstep cfg p op).1.calls c) ≤
      pot cfg.generatorBased cc (p.calls c) - (if op.call == c then 1 else 0) := by
  by_cases hc : op.call = c
  · subst hc
    simp only [pstep, hcc, setAt_same, beq_self_eq_true, if_true]
    exact callStep_pot _ _ _ _ (h.coh op.call)
  · have hb : (op.call == c) = false := by simp [hc]
    rw [(pstep_other cfg p op c hc).1]
    simp [hb]

theorem prun_pot {cfg : Cfg} (ops : List Op) {p : PState} (h : PInv cfg p) (c : Nat) (cc : CallCfg)
    (hcc : cfg.calls[c]? = some cc) :
    pot cfg.generatorBased cc ((prunFrom cfg p ops).1.calls c) ≤ pot cfg.generatorBased cc (p.calls c) - opsOn c ops := by
  induction ops generalizing p with
  | nil => simp [prunFrom, opsOn]
  | cons op rest ih =>
    have h1 := pstep_pot h op c cc hcc
    have h2 := ih (pinv_step h op)
    simp only [prunFrom]
    by_cases hc : (op.call == c) = true
    · have : opsOn c (op :: rest) = opsOn c rest + 1 := by simp [opsOn, hc]
      rw [this]; simp only [hc, if_true] at h1; omega
    · have : opsOn c (op :: rest) = opsOn c rest := by simp [opsOn, hc]
      rw [this]; simp only [hc] at h1; simp at h1; omega

/-- the number of operations (`send`/`throw`) after which a call is certainly done: one per
    suspension of the enter, the body and the exit it can take, plus one -/
def sendBound (gb : Bool) (cc : CallCfg) : Nat :=
  1 + (if gb then cc.gen.preSusp else cc.plain.enterSusp) + cc.bodySusp +
    (if gb then max cc.gen.postSusp cc.gen.thrSusp else cc.plain.exitSusp)

theorem pot_init (cfg : Cfg) (c : Nat) (cc : CallCfg) (hcc : cfg.calls[c]? = some cc) :
    pot cfg.generatorBased cc ((PState.init cfg).calls c) = sendBound cfg.generatorBased cc := by
  simp [PState.init, hcc, pot, sendBound, enterBound, exitBound, initCell]

/-- the three shapes of the event sequence of a complete call, with its result -/
inductive CompleteShape : List LEv → Result → Prop
  /-- an exception thrown into the call before it ever ran: nothing happens -/
  | thrownBeforeStart (x : Exc) : CompleteShape [.finish (.raised x)] (.raised x)
  /-- entering the context failed (or was cancelled): no body, no exit, the exception leaves -/
  | enterFailed (x : Exc) : CompleteShape [.enter, .finish (.raised x)] (.raised x)
  /-- enter, body, exit handed the body's exception (or none), result combined from both -/
  | paired (o : BodyOut) (resp : ExitResp) :
      CompleteShape [.enter, .entered, .bodyBegin, .bodyEnd o, .exit o.exc, .exited resp, .finish (combine o resp)]
        (combine o resp)

theorem shape_of_accepted (l : List LEv) (r : Result) (h : specFrom .init l = some (.finished r)) :
    CompleteShape l r := by
  rcases from_init l r h with ⟨x, h1, h2⟩ | ⟨x, h1, h2⟩ | ⟨o, resp, h1, h2⟩
  · subst h1; subst h2; exact .thrownBeforeStart x
  · subst h1; subst h2; exact .enterFailed x
  · subst h1; subst h2; exact .paired o resp

/-- every state of the automaton can still reach a final state -/
theorem completion (st : SpecSt) : ∃ rest r, specFrom st rest = some (.finished r) := by
  cases st with
  | init => exact ⟨[.finish (.raised (.user 0))], _, rfl⟩
  | entering => exact ⟨[.finish (.raised (.user 0))], _, rfl⟩
  | entered =>
    exact ⟨[.bodyBegin, .bodyEnd (.returned 0), .exit none, .exited (.returned false), .finish (.value 0)], _, rfl⟩
  | inBody => exact ⟨[.bodyEnd (.returned 0), .exit none, .exited (.returned false), .finish (.value 0)], _, rfl⟩
  | bodyDone o =>
    exact ⟨[.exit o.exc, .exited (.raised (.user 0)), .finish (.raised (.user 0))], .raised (.user 0), by
      simp [specFrom, specStep, combine]⟩
  | exiting o =>
    exact ⟨[.exited (.raised (.user 0)), .finish (.raised (.user 0))], .raised (.user 0), by
      simp [specFrom, specStep, combine]⟩
  | exited o resp => exact ⟨[.finish (combine o resp)], combine o resp, by simp [specFrom, specStep]⟩
  | finished r => exact ⟨[], r, rfl⟩

theorem prefix_of_complete (l : List LEv) (st : SpecSt) (h : specFrom .init l = some st) :
    ∃ full r, l <+: full ∧ CompleteShape full r := by
  obtain ⟨rest, r, hr⟩ := completion st
  refine ⟨l ++ rest, r, List.prefix_append l rest, shape_of_accepted _ _ ?_⟩
  rw [specFrom_append, h]; exact hr

end AsyncVerif.Decorator
