import AsyncVerif.Machines.ContextManager
/-!
# contextmanager — helper lemmas for C13
-/
namespace AsyncVerif.ContextManager

theorem settle_yield (v : Val) (k : Resume → Gen) : settle (.yield v k) = .yielded v k := rfl
theorem settle_ret : settle .ret = .raised (.lib .stopAsync) := rfl
theorem settle_raise (e : Exc) :
    settle (.raise e) = if e.isStop then .raised (.promoted e) else .raised e := rfl

theorem Kind.isSub_refl (a : Kind) : a.isSub a = true := by
  cases a <;> rfl

/-- what comes out of a generator frame is never a user `StopAsyncIteration`: the only
    `StopAsyncIteration` an awaiter of `__anext__`/`athrow` can see is the runtime's own
    end-of-generator signal -/
theorem settle_sai {g : Gen} {e : Exc} (h : settle g = .raised e)
    (hk : e.kind.isSub .stopAsyncIteration = true) : e = .lib .stopAsync ∧ g = .ret := by
  cases g with
  | ret => simp [settle] at h; exact ⟨h.symm, rfl⟩
  | «yield» v k => simp [settle] at h
  | raise e0 =>
    simp only [settle] at h
    by_cases hs : e0.isStop = true
    · simp [hs] at h; subst h; simp [Exc.kind, Kind.isSub] at hk
    · simp [hs] at h; subst h
      simp [Exc.isStop] at hs
      rw [hs.2] at hk; exact absurd hk (by simp)

/-- what comes out of a generator frame is never a `StopIteration` -/
theorem settle_not_stop {g : Gen} {e : Exc} (h : settle g = .raised e) (hne : e ≠ .lib .stopAsync) :
    e.isStop = false := by
  cases g with
  | ret => simp [settle] at h; exact absurd h.symm hne
  | «yield» v k => simp [settle] at h
  | raise e0 =>
    simp only [settle] at h
    by_cases hs : e0.isStop = true
    · simp [hs] at h; subst h; simp [Exc.isStop, Exc.kind, Kind.isSub]
    · simp [hs] at h; subst h; simpa using hs

/-- exceptions raised by the block are user objects -/
theorem Block.exc_user {b : Block} {ev : Exc} (h : b.exc = some ev) :
    (∃ i k, ev = .user i k) ∨ (∃ i k c, ev = .userFrom i k c) := by
  cases b with
  | normal => simp [Block.exc] at h
  | raises i k => simp [Block.exc] at h; exact Or.inl ⟨i, k, h.symm⟩
  | raisesFrom i k c => simp [Block.exc] at h; exact Or.inr ⟨i, k, c, h.symm⟩

theorem Block.exc_ne_lib {b : Block} {ev : Exc} (h : b.exc = some ev) (l : LibExc) : ev ≠ .lib l := by
  rcases Block.exc_user h with ⟨i, k, rfl⟩ | ⟨i, k, c, rfl⟩ <;> simp

theorem Block.exc_ne_promoted {b : Block} {ev : Exc} (h : b.exc = some ev) (c : Exc) :
    ev ≠ .promoted c := by
  rcases Block.exc_user h with ⟨i, k, rfl⟩ | ⟨i, k, c', rfl⟩ <;> simp

/-- asyncstdlib's and CPython's `except` chains decide alike on everything an async generator
    can raise into them -/
theorem handlers_eq (exc ev : Exc)
    (h : exc.kind.isSub .stopAsyncIteration = true → exc ≠ ev) :
    Impl.handlers exc ev = Std.handlers exc ev := by
  unfold Impl.handlers Std.handlers
  by_cases h1 : exc.kind.isSub .stopAsyncIteration = true
  · simp [h1, h h1]
  · simp only [h1, if_false, Bool.false_eq_true]
    by_cases h2 : exc.kind.isSub .runtimeError = true
    · simp only [h2, if_true]
      by_cases h3 : exc = ev
      · simp [h3]
      · simp only [h3, if_false]
        by_cases h4 : ev.isStop = true <;> by_cases h5 : exc.cause = some ev <;> simp [h4, h5]
    · simp only [h2, if_false, Bool.false_eq_true]
      by_cases h3 : exc = ev
      · subst h3; simp [Kind.isSub_refl]
      · by_cases h6 : exc.kind.isSub ev.kind = true <;> simp [h3, h6]

theorem aenter_eq (g : Gen) : Impl.aenter g = Std.aenter g := rfl

theorem aenter_ret : Impl.aenter .ret = .raises (.lib .didNotYield) := by
  simp [Impl.aenter, settle, Exc.kind, LibExc.kind, Kind.isSub]

theorem aenter_raise (e : Exc) : Impl.aenter (.raise e) = .raises (Decl.surface e) := by
  by_cases hs : e.isStop = true
  · simp [Impl.aenter, settle, hs, Decl.surface, Exc.kind, Kind.isSub]
  · have h2 : e.kind.isSub .stopAsyncIteration = false := by
      simp [Exc.isStop] at hs; exact hs.2
    simp [Impl.aenter, settle, hs, Decl.surface, h2]

/-- a generator that does not yield first: same observation under both libraries -/
theorem run_not_entered (g : Gen) (b : Block) (e : Exc) (h : Impl.aenter g = .raises e) :
    Impl.run g b = { entered := none, final := .raises e, ops := [.anext] } ∧
    Std.run g b = { entered := none, final := .raises e, ops := [.anext] } := by
  have h' : Std.aenter g = .raises e := h
  simp [Impl.run, Std.run, withStmt, h, h']

/-- an exception of one class is not an object of an unrelated class -/
theorem ne_of_kind {a b : Exc} (h : a.kind ≠ b.kind) : a ≠ b := by
  intro hab; subst hab; exact h rfl

/-- what `aclose()` raises is neither a `GeneratorExit` nor a `StopAsyncIteration` nor a
    `StopIteration` -/
theorem aclose_raised {k : Resume → Gen} {e : Exc} (h : aclose k = some e) :
    e.kind.isSub .generatorExit = false ∧ e.kind.isSub .stopAsyncIteration = false := by
  unfold aclose at h
  split at h
  · simp at h; subst h; simp [Exc.kind, LibExc.kind, Kind.isSub]
  · split at h
    · simp at h
    · rename_i hh
      simp at h; subst h
      simp at hh
      exact ⟨by simpa using hh.1, by simpa using hh.2⟩

end AsyncVerif.ContextManager
