import AsyncVerif.Machines.ScopeExit
/-!
# Lemmas for `Machines/ScopeExit.lean` (used by `Properties/C08ScopeExit.lean`)
-/
namespace AsyncVerif.ScopeExit

/-! ## wrappers table -/

theorem getD_set_false (l : List Bool) (k i : Nat) :
    (l.set k false).getD i false = if i = k then false else l.getD i false := by
  induction l generalizing k i with
  | nil => simp
  | cons b l ih =>
    cases k with
    | zero => cases i <;> simp
    | succ k =>
      cases i with
      | zero => simp
      | succ i => simpa using ih k i

theorem getElem?_getD_set_false (l : List Bool) (k i : Nat) :
    (l.set k false)[i]?.getD false = if i = k then false else l[i]?.getD false := by
  have := getD_set_false l k i
  simpa [List.getD_eq_getElem?_getD] using this

theorem getD_of_length_le (l : List Bool) (i : Nat) (h : l.length ≤ i) : l.getD i false = false := by
  simp [List.getD_eq_getElem?_getD, List.getElem?_eq_none h]

@[simp] theorem wopen_finish (s : St) (k i : Nat) :
    (s.finish k).wopen i = if i = k then false else s.wopen i := by
  simp only [St.wopen, St.finish, getD_set_false]

@[simp] theorem wopen_closeWrapper (s : St) (k i : Nat) :
    (closeWrapper k s).wopen i = if i = k then false else s.wopen i := by
  simp only [St.wopen, closeWrapper, getD_set_false]

/-- the handles of scopes that were already left are retired (invariant of every reachable state) -/
def Retired (s : St) : Prop := ∀ i, s.active ≤ i → s.wopen i = false

/-! ## pulls -/

theorem pullU_frame (s : St) :
    (pullU s).1.active = s.active ∧ (pullU s).1.beh = s.beh ∧ (pullU s).1.uclosed = s.uclosed
    ∧ (pullU s).1.closes = s.closes ∧ (pullU s).1.log = s.log ∧ (pullU s).1.wrappers = s.wrappers := by
  unfold pullU
  split
  · simp
  · split <;> simp

theorem pullH_closed (k : Nat) (s : St) (h : s.wopen k = false) : pullH k s = (s, none) := by
  cases k <;> simp [pullH, h]

/-- what a pull leaves alone: everything but `n`, `pos` and the wrappers `≤ k`, which can only finish -/
theorem pullH_frame (k : Nat) (s : St) :
    (pullH k s).1.active = s.active ∧ (pullH k s).1.beh = s.beh ∧ (pullH k s).1.uclosed = s.uclosed
    ∧ (pullH k s).1.closes = s.closes ∧ (pullH k s).1.log = s.log
    ∧ (∀ i, (pullH k s).1.wopen i = true → s.wopen i = true)
    ∧ (∀ i, k < i → (pullH k s).1.wopen i = s.wopen i) := by
  induction k generalizing s with
  | zero =>
    obtain ⟨h1, h2, h3, h4, h5, h6⟩ := pullU_frame s
    have hw : ∀ i, (pullU s).1.wopen i = s.wopen i := fun i => by simp only [St.wopen, h6]
    unfold pullH
    split
    · split
      · next s1 v he =>
        rw [he] at h1 h2 h3 h4 h5 hw
        simp only [] at h1 h2 h3 h4 h5 hw
        exact ⟨h1, h2, h3, h4, h5, fun i hi => by rw [← hw i]; exact hi, fun i _ => hw i⟩
      · next s1 he =>
        rw [he] at h1 h2 h3 h4 h5 hw
        simp only [] at h1 h2 h3 h4 h5 hw
        refine ⟨h1, h2, h3, h4, h5, fun i hi => ?_, fun i hi => ?_⟩
        · simp only [wopen_finish] at hi
          split at hi
          · cases hi
          · rw [← hw i]; exact hi
        · simp only [wopen_finish]
          rw [if_neg (by omega)]; exact hw i
    · simp
  | succ k ih =>
    obtain ⟨h1, h2, h3, h4, h5, h6, h7⟩ := ih s
    unfold pullH
    split
    · split
      · next s1 v he =>
        rw [he] at h1 h2 h3 h4 h5 h6 h7
        simp only [] at h1 h2 h3 h4 h5 h6 h7
        exact ⟨h1, h2, h3, h4, h5, h6, fun i hi => h7 i (by omega)⟩
      · next s1 he =>
        rw [he] at h1 h2 h3 h4 h5 h6 h7
        simp only [] at h1 h2 h3 h4 h5 h6 h7
        refine ⟨h1, h2, h3, h4, h5, fun i hi => ?_, fun i hi => ?_⟩
        · simp only [wopen_finish] at hi
          split at hi
          · cases hi
          · exact h6 i hi
        · simp only [wopen_finish]
          rw [if_neg (by omega)]; exact h7 i (by omega)
    · simp

theorem pullH_retired (k : Nat) (s : St) (h : Retired s) : Retired (pullH k s).1 := by
  obtain ⟨h1, _, _, _, _, h6, _⟩ := pullH_frame k s
  intro i hi
  rw [h1] at hi
  have := h i hi
  cases hw : (pullH k s).1.wopen i
  · rfl
  · rw [h6 i hw] at this; cases this

/-- a handle all of whose wrappers down to the iterator are open passes the iterator's next item on -/
theorem pullH_item (k : Nat) (s : St) (c : Nat) (ho : ∀ j, j ≤ k → s.wopen j = true)
    (hu : s.uclosed = false) (hn : s.n = c + 1) :
    pullH k s = ({ s with n := c, pos := s.pos + 1 }, some s.pos) := by
  induction k with
  | zero =>
    have h0 := ho 0 (Nat.le_refl _)
    simp [pullH, h0, pullU, hu, hn]
  | succ k ih =>
    have h1 := ho (k + 1) (Nat.le_refl _)
    have := ih (fun j hj => ho j (by omega))
    simp [pullH, h1, this]

theorem takeH_closed (k c : Nat) (s : St) (h : s.wopen k = false) : takeH k c s = (s, []) := by
  cases c <;> simp [takeH, pullH_closed k s h]

/-- a consumer of such a handle gets the iterator's next `c` items -/
theorem takeH_open (k c : Nat) (s : St) (ho : ∀ j, j ≤ k → s.wopen j = true)
    (hu : s.uclosed = false) (hn : c ≤ s.n) :
    takeH k c s = ({ s with n := s.n - c, pos := s.pos + c }, List.range' s.pos c) := by
  induction c generalizing s with
  | zero => simp [takeH]
  | succ c ih =>
    obtain ⟨m, hm⟩ : ∃ m, s.n = m + 1 := ⟨s.n - 1, by omega⟩
    have hp := pullH_item k s m ho hu hm
    have := ih { s with n := m, pos := s.pos + 1 } (fun j hj => by simpa [St.wopen] using ho j hj) hu
      (by show c ≤ m; omega)
    simp only [takeH, hp, this, List.range'_succ, hm]
    have e1 : m + 1 - (c + 1) = m - c := Nat.add_sub_add_right m 1 c
    have e2 : s.pos + 1 + c = s.pos + (c + 1) := by rw [Nat.add_assoc, Nat.add_comm 1 c]
    rw [e1, e2]

theorem takeH_frame (k c : Nat) (s : St) :
    (takeH k c s).1.active = s.active ∧ (takeH k c s).1.beh = s.beh ∧ (takeH k c s).1.uclosed = s.uclosed
    ∧ (takeH k c s).1.closes = s.closes ∧ (takeH k c s).1.log = s.log
    ∧ (Retired s → Retired (takeH k c s).1) := by
  induction c generalizing s with
  | zero => simp [takeH]
  | succ c ih =>
    obtain ⟨h1, h2, h3, h4, h5, _⟩ := pullH_frame k s
    have hr := pullH_retired k s
    unfold takeH
    split
    · next s1 v he =>
      rw [he] at h1 h2 h3 h4 h5 hr
      simp only [] at h1 h2 h3 h4 h5 hr
      obtain ⟨g1, g2, g3, g4, g5, g6⟩ := ih s1
      exact ⟨g1.trans h1, g2.trans h2, g3.trans h3, g4.trans h4, g5.trans h5, fun h => g6 (hr h)⟩
    · next s1 he =>
      rw [he] at h1 h2 h3 h4 h5 hr
      exact ⟨h1, h2, h3, h4, h5, hr⟩

/-- two states that agree on the iterator and on the wrappers `0 … k` -/
def AgreeUpTo (k : Nat) (s t : St) : Prop :=
  (∀ j, j ≤ k → s.wopen j = t.wopen j) ∧ s.n = t.n ∧ s.pos = t.pos ∧ s.uclosed = t.uclosed

theorem pullU_agree (s t : St) (hn : s.n = t.n) (hp : s.pos = t.pos) (hu : s.uclosed = t.uclosed) :
    (pullU s).2 = (pullU t).2 ∧ (pullU s).1.n = (pullU t).1.n ∧ (pullU s).1.pos = (pullU t).1.pos
    ∧ (pullU s).1.uclosed = (pullU t).1.uclosed := by
  unfold pullU
  rw [← hu, ← hn, ← hp]
  split
  · simp [hn, hp, hu]
  · split <;> simp [hn, hp, hu]

/-- a pull on handle `k` sees nothing but the iterator and the wrappers `0 … k` -/
theorem pullH_agree (k : Nat) (s t : St) (h : AgreeUpTo k s t) :
    (pullH k s).2 = (pullH k t).2 ∧ AgreeUpTo k (pullH k s).1 (pullH k t).1 := by
  induction k generalizing s t with
  | zero =>
    obtain ⟨hw, hn, hp, hu⟩ := h
    obtain ⟨a1, a2, a3, a4⟩ := pullU_agree s t hn hp hu
    have ws := (pullU_frame s).2.2.2.2.2
    have wt := (pullU_frame t).2.2.2.2.2
    have h0 := hw 0 (Nat.le_refl _)
    unfold pullH
    rw [← h0]
    split
    · next ho =>
      have hws : (pullU s).1.wopen 0 = (pullU t).1.wopen 0 := by
        simp only [St.wopen, ws, wt]; exact h0
      rcases hs : pullU s with ⟨s1, _ | v⟩ <;> rcases ht : pullU t with ⟨t1, _ | w⟩ <;>
        rw [hs, ht] at a1 a2 a3 a4 hws <;> simp only [] at a1 a2 a3 a4 hws
      · refine ⟨rfl, fun j hj => ?_, a2, a3, a4⟩
        have : j = 0 := by omega
        subst this; simp
      · cases a1
      · cases a1
      · refine ⟨a1, fun j hj => ?_, a2, a3, a4⟩
        have : j = 0 := by omega
        subst this; exact hws
    · exact ⟨rfl, hw, hn, hp, hu⟩
  | succ k ih =>
    obtain ⟨hw, hn, hp, hu⟩ := h
    have hk : AgreeUpTo k s t := ⟨fun j hj => hw j (by omega), hn, hp, hu⟩
    obtain ⟨b1, b2, b3, b4, b5⟩ := ih s t hk
    have fs := (pullH_frame k s).2.2.2.2.2.2 (k + 1) (by omega)
    have ft := (pullH_frame k t).2.2.2.2.2.2 (k + 1) (by omega)
    have h1 := hw (k + 1) (Nat.le_refl _)
    unfold pullH
    rw [← h1]
    split
    · rcases hs : pullH k s with ⟨s1, _ | v⟩ <;> rcases ht : pullH k t with ⟨t1, _ | w⟩ <;>
        rw [hs] at b1 b2 b3 b4 b5 fs <;> rw [ht] at b1 b2 b3 b4 b5 ft <;>
        simp only [] at b1 b2 b3 b4 b5 fs ft
      · refine ⟨rfl, fun j hj => ?_, b3, b4, b5⟩
        simp only [wopen_finish]
        by_cases hj' : j = k + 1
        · simp [hj']
        · rw [if_neg hj', if_neg hj']; exact b2 j (by omega)
      · cases b1
      · cases b1
      · refine ⟨b1, fun j hj => ?_, b3, b4, b5⟩
        by_cases hj' : j = k + 1
        · subst hj'; rw [fs, ft]; exact h1
        · exact b2 j (by omega)
    · exact ⟨rfl, hw, hn, hp, hu⟩

/-! ## `__aexit__`, one step -/

/-- the state after `__aexit__` of an inner scope `a` -/
def retire1 (a : Nat) (s : St) : St :=
  { s with wrappers := s.wrappers.set a false, log := s.log ++ [.wclose a], active := a }

@[simp] theorem retire1_active (a : Nat) (s : St) : (retire1 a s).active = a := rfl
@[simp] theorem retire1_closes (a : Nat) (s : St) : (retire1 a s).closes = s.closes := rfl
@[simp] theorem retire1_n (a : Nat) (s : St) : (retire1 a s).n = s.n := rfl
@[simp] theorem retire1_pos (a : Nat) (s : St) : (retire1 a s).pos = s.pos := rfl
@[simp] theorem retire1_beh (a : Nat) (s : St) : (retire1 a s).beh = s.beh := rfl
@[simp] theorem retire1_uclosed (a : Nat) (s : St) : (retire1 a s).uclosed = s.uclosed := rfl
@[simp] theorem retire1_log (a : Nat) (s : St) : (retire1 a s).log = s.log ++ [.wclose a] := rfl
@[simp] theorem retire1_wopen (a : Nat) (s : St) (i : Nat) :
    (retire1 a s).wopen i = if i = a then false else s.wopen i := by
  simp only [St.wopen, retire1, getD_set_false]

theorem aexit_inner (s : St) (a : Nat) (h : s.active = a + 2) :
    aexit s = (retire1 (a + 1) s, none) := by
  simp [aexit, h, closeTarget, closeWrapper, retire1]

theorem aexitSwapped_inner (s : St) (a : Nat) (h : s.active = a + 2) : aexitSwapped s = aexit s := by
  simp [aexit, aexitSwapped, h, closeTarget, closeWrapper]

theorem leaveOneWith_fst (ax : St → St × Option Leave) (m : Leave) (s : St) :
    (leaveOneWith ax m s).1 = (ax s).1 := by
  unfold leaveOneWith
  split <;> simp [*]

/-- what the `__aexit__`s do does not depend on how the block is left -/
theorem leaveNWith_fst_mode (ax : St → St × Option Leave) (k : Nat) (m m' : Leave) (s : St) :
    (leaveNWith ax k m s).1 = (leaveNWith ax k m' s).1 := by
  induction k generalizing m m' s with
  | zero => rfl
  | succ k ih =>
    simp only [leaveNWith, leaveOneWith_fst]
    exact ih _ _ _

theorem leaveNWith_add (ax : St → St × Option Leave) (j k : Nat) (m : Leave) (s : St) :
    leaveNWith ax (j + k) m s = leaveNWith ax k (leaveNWith ax j m s).2 (leaveNWith ax j m s).1 := by
  induction j generalizing m s with
  | zero => simp [leaveNWith]
  | succ j ih =>
    have : j + 1 + k = (j + k) + 1 := by omega
    rw [this]
    simp only [leaveNWith]
    exact ih _ _

/-- the outermost scope's `__aexit__`, as written -/
theorem leaveOne_outer (m : Leave) (s : St) (h : s.active = 1) :
    (leaveOneWith aexit m s).2 = s.beh.failure.getD m
    ∧ (leaveOneWith aexit m s).1.active = 0
    ∧ (∀ i, (leaveOneWith aexit m s).1.wopen i = if i = 0 then false else s.wopen i)
    ∧ (leaveOneWith aexit m s).1.closes = s.closes + 1
    ∧ (leaveOneWith aexit m s).1.n = s.n ∧ (leaveOneWith aexit m s).1.pos = s.pos
    ∧ (leaveOneWith aexit m s).1.beh = s.beh
    ∧ (leaveOneWith aexit m s).1.uclosed = (s.uclosed || s.beh.failure.isNone)
    ∧ (leaveOneWith aexit m s).1.log = s.log ++ [.wclose 0, .uclose 0] := by
  cases hb : s.beh <;>
    simp [leaveOneWith, aexit, h, closeTarget, closeU, closeWrapper, hb, CloseBeh.failure, St.wopen,
      getElem?_getD_set_false]

/-- the outermost scope's `__aexit__` in the wrong order, the underlying `aclose()` failing -/
theorem leaveOne_outer_swapped_fail (m x : Leave) (s : St) (h : s.active = 1) (hf : s.beh.failure = some x) :
    (leaveOneWith aexitSwapped m s).2 = x
    ∧ (leaveOneWith aexitSwapped m s).1.active = 0
    ∧ (∀ i, (leaveOneWith aexitSwapped m s).1.wopen i = s.wopen i)
    ∧ (leaveOneWith aexitSwapped m s).1.closes = s.closes + 1
    ∧ (leaveOneWith aexitSwapped m s).1.n = s.n ∧ (leaveOneWith aexitSwapped m s).1.pos = s.pos
    ∧ (leaveOneWith aexitSwapped m s).1.beh = s.beh
    ∧ (leaveOneWith aexitSwapped m s).1.uclosed = s.uclosed
    ∧ (leaveOneWith aexitSwapped m s).1.log = s.log ++ [.uclose 0] := by
  simp [leaveOneWith, aexitSwapped, h, closeTarget, closeU, hf, St.wopen]

/-- … and when the underlying `aclose()` succeeds the order is immaterial, up to the order of the log -/
theorem leaveOne_outer_swapped_ok (m : Leave) (s : St) (h : s.active = 1) (hf : s.beh.failure = none) :
    (leaveOneWith aexitSwapped m s).2 = m
    ∧ (leaveOneWith aexitSwapped m s).1.active = 0
    ∧ (∀ i, (leaveOneWith aexitSwapped m s).1.wopen i = if i = 0 then false else s.wopen i)
    ∧ (leaveOneWith aexitSwapped m s).1.closes = s.closes + 1
    ∧ (leaveOneWith aexitSwapped m s).1.n = s.n ∧ (leaveOneWith aexitSwapped m s).1.pos = s.pos
    ∧ (leaveOneWith aexitSwapped m s).1.log = s.log ++ [.uclose 0, .wclose 0] := by
  simp [leaveOneWith, aexitSwapped, h, closeTarget, closeU, closeWrapper, hf, St.wopen, getElem?_getD_set_false]

/-! ## leaving inner scopes only -/

/-- the events of leaving the scopes `hi-1, hi-2, …, lo` -/
def wcloses (lo cnt : Nat) : List Ev := (List.range' lo cnt).reverse.map Ev.wclose

theorem wcloses_succ (lo cnt : Nat) : wcloses lo (cnt + 1) = Ev.wclose (lo + cnt) :: wcloses lo cnt := by
  simp [wcloses, List.range'_concat]

/-- Leaving `k` scopes, fewer than are open: exactly their wrappers are closed, innermost first; nothing else
    happens and the block's outcome arrives unchanged. -/
theorem leaveN_inner (k : Nat) (m : Leave) (s : St) (h : k < s.active) :
    (leaveN k m s).2 = m
    ∧ (leaveN k m s).1.active = s.active - k
    ∧ (∀ i, (leaveN k m s).1.wopen i = if s.active - k ≤ i ∧ i < s.active then false else s.wopen i)
    ∧ (leaveN k m s).1.closes = s.closes
    ∧ (leaveN k m s).1.n = s.n ∧ (leaveN k m s).1.pos = s.pos
    ∧ (leaveN k m s).1.beh = s.beh ∧ (leaveN k m s).1.uclosed = s.uclosed
    ∧ (leaveN k m s).1.log = s.log ++ wcloses (s.active - k) k := by
  induction k generalizing s with
  | zero =>
    simp [leaveN, leaveNWith, wcloses]
    intro i _; omega
  | succ k ih =>
    obtain ⟨a, ha⟩ : ∃ a, s.active = a + 2 := ⟨s.active - 2, by omega⟩
    have hstep : leaveN (k + 1) m s
        = leaveN k m (retire1 (a + 1) s) := by
      simp [leaveN, leaveNWith, leaveOneWith, aexit_inner s a ha]
    obtain ⟨i1, i2, i3, i4, i5, i6, i7, i8, i9⟩ :=
      ih (retire1 (a + 1) s) (by simp only [retire1_active]; omega)
    simp only [retire1_active, retire1_closes, retire1_n, retire1_pos, retire1_beh, retire1_uclosed,
      retire1_log, retire1_wopen] at i2 i3 i4 i5 i6 i7 i8 i9
    rw [hstep]
    refine ⟨i1, by rw [i2, ha]; omega, fun i => ?_, i4, i5, i6, i7, i8, ?_⟩
    · rw [i3 i]
      simp only [ha]
      by_cases c1 : a + 1 - k ≤ i ∧ i < a + 1
      · rw [if_pos c1, if_pos (by omega)]
      · rw [if_neg c1]
        by_cases c2 : i = a + 1
        · rw [if_pos c2, if_pos (by omega)]
        · rw [if_neg c2, if_neg (by omega)]
    · rw [i9]
      simp only [ha]
      have e1 : a + 1 - k = a + 2 - (k + 1) := by omega
      have e2 : a + 1 = (a + 2 - (k + 1)) + k := by omega
      rw [e1, wcloses_succ, ← e2]
      simp

theorem leaveNWith_swapped_inner (k : Nat) (m : Leave) (s : St) (h : k < s.active) :
    leaveNWith aexitSwapped k m s = leaveNWith aexit k m s := by
  induction k generalizing s m with
  | zero => rfl
  | succ k ih =>
    obtain ⟨a, ha⟩ : ∃ a, s.active = a + 2 := ⟨s.active - 2, by omega⟩
    simp only [leaveNWith, leaveOneWith, aexitSwapped_inner s a ha]
    apply ih
    simp only [aexit_inner s a ha, retire1_active]
    omega

/-- blocks left one by one (each exception handled in the enclosing block) do the same as one exception
    travelling through them, and every outcome arrives unchanged -/
theorem leaveEach_inner (ms : List Leave) (s : St) (h : ms.length < s.active) :
    (leaveEach ms s).2 = ms ∧ (leaveEach ms s).1 = (leaveN ms.length .normal s).1 := by
  induction ms generalizing s with
  | nil => simp [leaveEach, leaveN, leaveNWith]
  | cons m ms ih =>
    obtain ⟨a, ha⟩ : ∃ a, s.active = a + 2 := ⟨s.active - 2, by simp at h; omega⟩
    have hs : leaveOneWith aexit m s
        = ((retire1 (a + 1) s), m) := by
      simp [leaveOneWith, aexit_inner s a ha]
    have hs' : (leaveOneWith aexit Leave.normal s).1
        = (retire1 (a + 1) s) := by
      simp [leaveOneWith, aexit_inner s a ha]
    obtain ⟨j1, j2⟩ := ih (retire1 (a + 1) s) (by simp at h ⊢; omega)
    simp only [leaveEach, hs, j1, j2, List.length_cons, leaveN, leaveNWith, hs', true_and]
    exact leaveNWith_fst_mode _ _ _ _ _

/-! ## leaving the whole nest -/

/-- Leaving the whole nest with `__aexit__` as written. -/
theorem exitAll_spec (m : Leave) (s : St) (h : 0 < s.active) :
    (exitAll m s).2 = s.beh.failure.getD m
    ∧ (exitAll m s).1.active = 0
    ∧ (∀ i, i < s.active → (exitAll m s).1.wopen i = false)
    ∧ (∀ i, s.active ≤ i → (exitAll m s).1.wopen i = s.wopen i)
    ∧ (exitAll m s).1.closes = s.closes + 1
    ∧ (exitAll m s).1.n = s.n ∧ (exitAll m s).1.pos = s.pos
    ∧ (exitAll m s).1.beh = s.beh
    ∧ (exitAll m s).1.uclosed = (s.uclosed || s.beh.failure.isNone)
    ∧ (exitAll m s).1.log = s.log ++ wcloses 0 s.active ++ [.uclose 0] := by
  obtain ⟨a, ha⟩ : ∃ a, s.active = a + 1 := ⟨s.active - 1, by omega⟩
  obtain ⟨i1, i2, i3, i4, i5, i6, i7, i8, i9⟩ := leaveN_inner a m s (by omega)
  have hsplit : exitAll m s = leaveOneWith aexit (leaveN a m s).2 (leaveN a m s).1 := by
    unfold exitAll
    rw [ha, leaveNWith_add aexit a 1 m s]
    simp [leaveNWith, leaveN]
  have h1 : (leaveN a m s).1.active = 1 := by rw [i2, ha]; omega
  obtain ⟨o1, o2, o3, o4, o5, o6, o7, o8, o9⟩ := leaveOne_outer (leaveN a m s).2 (leaveN a m s).1 h1
  rw [hsplit]
  refine ⟨by rw [o1, i7, i1], o2, fun i hi => ?_, fun i hi => ?_, by rw [o4, i4], by rw [o5, i5],
    by rw [o6, i6], by rw [o7, i7], by rw [o8, i8, i7], ?_⟩
  · rw [o3 i, i3 i]
    by_cases c : i = 0
    · simp [c]
    · rw [if_neg c, if_pos (by omega)]
  · rw [o3 i, i3 i, if_neg (by omega), if_neg (by omega)]
  · rw [o9, i9, ha]
    have : a + 1 - a = 1 := by omega
    rw [this]
    have e : wcloses 0 (a + 1) = wcloses 1 a ++ [Ev.wclose 0] := by
      simp [wcloses, List.range'_succ]
    rw [e]
    simp

/-- Leaving the whole nest with every `__aexit__` in the wrong order, the underlying `aclose()` failing. -/
theorem exitSwapped_fail_spec (m x : Leave) (s : St) (h : 0 < s.active) (hf : s.beh.failure = some x) :
    (exitSwapped m s).2 = x
    ∧ (exitSwapped m s).1.active = 0
    ∧ (exitSwapped m s).1.wopen 0 = s.wopen 0
    ∧ (∀ i, 0 < i → i < s.active → (exitSwapped m s).1.wopen i = false)
    ∧ (∀ i, s.active ≤ i → (exitSwapped m s).1.wopen i = s.wopen i)
    ∧ (exitSwapped m s).1.closes = s.closes + 1
    ∧ (exitSwapped m s).1.n = s.n ∧ (exitSwapped m s).1.pos = s.pos
    ∧ (exitSwapped m s).1.uclosed = s.uclosed
    ∧ (exitSwapped m s).1.log = s.log ++ wcloses 1 (s.active - 1) ++ [.uclose 0] := by
  obtain ⟨a, ha⟩ : ∃ a, s.active = a + 1 := ⟨s.active - 1, by omega⟩
  obtain ⟨i1, i2, i3, i4, i5, i6, i7, i8, i9⟩ := leaveN_inner a m s (by omega)
  have hsplit : exitSwapped m s = leaveOneWith aexitSwapped (leaveN a m s).2 (leaveN a m s).1 := by
    unfold exitSwapped
    rw [ha, leaveNWith_add aexitSwapped a 1 m s, leaveNWith_swapped_inner a m s (by omega)]
    simp [leaveNWith, leaveN]
  have h1 : (leaveN a m s).1.active = 1 := by rw [i2, ha]; omega
  obtain ⟨o1, o2, o3, o4, o5, o6, o7, o8, o9⟩ :=
    leaveOne_outer_swapped_fail (leaveN a m s).2 x (leaveN a m s).1 h1 (by rw [i7]; exact hf)
  rw [hsplit]
  refine ⟨o1, o2, ?_, fun i h0 hi => ?_, fun i hi => ?_, by rw [o4, i4], by rw [o5, i5], by rw [o6, i6],
    by rw [o8, i8], ?_⟩
  · rw [o3 0, i3 0, if_neg (by omega)]
  · rw [o3 i, i3 i, if_pos (by omega)]
  · rw [o3 i, i3 i, if_neg (by omega)]
  · rw [o9, i9, ha]
    have : a + 1 - a = 1 := by omega
    rw [this]
    simp

/-- … and the underlying `aclose()` succeeding: every handle is retired all the same. -/
theorem exitSwapped_ok_spec (m : Leave) (s : St) (h : 0 < s.active) (hf : s.beh.failure = none) :
    (exitSwapped m s).2 = m
    ∧ (∀ i, i < s.active → (exitSwapped m s).1.wopen i = false)
    ∧ (∀ i, s.active ≤ i → (exitSwapped m s).1.wopen i = s.wopen i)
    ∧ (exitSwapped m s).1.closes = s.closes + 1 := by
  obtain ⟨a, ha⟩ : ∃ a, s.active = a + 1 := ⟨s.active - 1, by omega⟩
  obtain ⟨i1, i2, i3, i4, i5, i6, i7, i8, i9⟩ := leaveN_inner a m s (by omega)
  have hsplit : exitSwapped m s = leaveOneWith aexitSwapped (leaveN a m s).2 (leaveN a m s).1 := by
    unfold exitSwapped
    rw [ha, leaveNWith_add aexitSwapped a 1 m s, leaveNWith_swapped_inner a m s (by omega)]
    simp [leaveNWith, leaveN]
  have h1 : (leaveN a m s).1.active = 1 := by rw [i2, ha]; omega
  obtain ⟨o1, o2, o3, o4, _⟩ :=
    leaveOne_outer_swapped_ok (leaveN a m s).2 (leaveN a m s).1 h1 (by rw [i7]; exact hf)
  rw [hsplit]
  refine ⟨by rw [o1, i1], fun i hi => ?_, fun i hi => ?_, by rw [o4, i4]⟩
  · rw [o3 i, i3 i]
    by_cases c : i = 0
    · simp [c]
    · rw [if_neg c, if_pos (by omega)]
  · rw [o3 i, i3 i, if_neg (by omega), if_neg (by omega)]

/-! ## the nest of the harness is a reachable state -/

theorem enter_retired (s : St) : Retired (enter s) := by
  intro i hi
  simp only [enter] at hi
  simp only [St.wopen, enter]
  apply getD_of_length_le
  simp only [List.length_append, List.length_take, List.length_cons, List.length_nil]
  omega

theorem build_spec (taken d : Nat) (s : St) (h : Retired s) :
    (build taken d s).active = s.active + d ∧ Retired (build taken d s)
    ∧ (build taken d s).beh = s.beh ∧ (build taken d s).closes = s.closes
    ∧ (build taken d s).uclosed = s.uclosed ∧ (build taken d s).log = s.log := by
  induction d generalizing s with
  | zero => exact ⟨rfl, h, rfl, rfl, rfl, rfl⟩
  | succ d ih =>
    obtain ⟨f1, f2, f3, f4, f5, f6⟩ := takeH_frame ((enter s).active - 1) taken (enter s)
    obtain ⟨g1, g2, g3, g4, g5, g6⟩ := ih (takeH ((enter s).active - 1) taken (enter s)).1 (f6 (enter_retired s))
    simp only [build]
    refine ⟨by rw [g1, f1]; simp only [enter]; omega, g2, by rw [g3, f2]; rfl, by rw [g4, f4]; rfl,
      by rw [g5, f3]; rfl, by rw [g6, f5]; rfl⟩

theorem nest_spec (depth n : Nat) (beh : CloseBeh) (taken : Nat) :
    (nest depth n beh taken).active = depth ∧ Retired (nest depth n beh taken)
    ∧ (nest depth n beh taken).beh = beh ∧ (nest depth n beh taken).closes = 0
    ∧ (nest depth n beh taken).uclosed = false ∧ (nest depth n beh taken).log = [] := by
  have h0 : Retired (init n beh) := fun i _ => by simp [St.wopen, init]
  obtain ⟨g1, g2, g3, g4, g5, g6⟩ := build_spec taken depth (init n beh) h0
  exact ⟨by rw [nest, g1]; simp [init], g2, g3, g4, g5, g6⟩

/-- every scope is still entered, every wrapper is open, the iterator was not closed -/
def AllOpen (s : St) : Prop :=
  s.wrappers.length = s.active ∧ (∀ j, j < s.active → s.wopen j = true) ∧ s.uclosed = false

theorem enter_allOpen (s : St) (h : AllOpen s) : AllOpen (enter s) := by
  obtain ⟨hl, ho, hu⟩ := h
  refine ⟨by simp [enter, hl], fun j hj => ?_, hu⟩
  simp only [enter] at hj
  have ht : s.wrappers.take s.active = s.wrappers := by rw [← hl]; exact List.take_length
  simp only [St.wopen, enter, ht, List.getD_eq_getElem?_getD]
  by_cases c : j < s.active
  · have := ho j c
    simp only [St.wopen, List.getD_eq_getElem?_getD] at this
    rw [List.getElem?_append_left (by omega)]; exact this
  · have : j = s.wrappers.length := by omega
    subst this
    simp

theorem build_open (taken d : Nat) (s : St) (h : AllOpen s) (hn : d * taken ≤ s.n) :
    AllOpen (build taken d s) ∧ (build taken d s).n = s.n - d * taken
    ∧ (build taken d s).pos = s.pos + d * taken := by
  induction d generalizing s with
  | zero => simp [build, h]
  | succ d ih =>
    have hm : (d + 1) * taken = d * taken + taken := Nat.succ_mul d taken
    obtain ⟨el, eo, eu⟩ := enter_allOpen s h
    have ea : (enter s).active = s.active + 1 := rfl
    have ht := takeH_open ((enter s).active - 1) taken (enter s) (fun j hj => eo j (by omega)) eu
      (by show taken ≤ s.n; omega)
    have hA : AllOpen (takeH ((enter s).active - 1) taken (enter s)).1 := by
      rw [ht]; exact ⟨el, eo, eu⟩
    obtain ⟨g1, g2, g3⟩ := ih (takeH ((enter s).active - 1) taken (enter s)).1 hA
      (by rw [ht]; show d * taken ≤ s.n - taken; omega)
    simp only [build]
    refine ⟨g1, ?_, ?_⟩
    · rw [g2, ht]; show s.n - taken - d * taken = s.n - (d + 1) * taken; omega
    · rw [g3, ht]; show s.pos + taken + d * taken = s.pos + (d + 1) * taken
      rw [hm, Nat.add_assoc, Nat.add_comm taken]

/-- while the items last, every wrapper of the harness's nest is open -/
theorem nest_open (depth n : Nat) (beh : CloseBeh) (taken : Nat) (hn : depth * taken ≤ n) :
    (∀ j, j < depth → (nest depth n beh taken).wopen j = true)
    ∧ (nest depth n beh taken).n = n - depth * taken ∧ (nest depth n beh taken).pos = depth * taken := by
  have h0 : AllOpen (init n beh) := ⟨rfl, fun j hj => by simp [init] at hj, rfl⟩
  obtain ⟨⟨_, g1, _⟩, g2, g3⟩ := build_open taken depth (init n beh) h0 hn
  have ha := (nest_spec depth n beh taken).1
  refine ⟨fun j hj => g1 j (by rw [← nest, ha]; exact hj), g2, ?_⟩
  rw [nest, g3]; simp [init]

end AsyncVerif.ScopeExit
