import AsyncVerif.Machines.ExitStackReentrant
import AsyncVerif.Proofs.ExitStack
/-! Helper lemmas for the re-entrant ExitStack machine (`Machines/ExitStackReentrant.lean`).
    Property theorems live in `Properties/C14Reentrant.lean`. -/
namespace AsyncVerif.ExitStackRe
open AsyncVerif.ExitStack

/-! ## A. asyncstdlib's loop and CPython's loop compute the same -/

/-- the local variables of the two `__aexit__` correspond -/
def Rel (ls : Impl.Loop) (ss : Spec.Loop) : Prop :=
  ss.details = ls.exc ∧ ss.suppressed = ls.suppress ∧ ss.pending = ls.reraise ∧
    (ls.reraise = true → ls.exc.isSome = true)

theorem rel_init (body : Outcome) : Rel ⟨body.exc, false, false⟩ ⟨body.exc, false, false⟩ := by
  simp [Rel]

theorem rel_react {ls ss} (h : Rel ls ss) (r : ExitResp) : Rel (Impl.react ls r) (Spec.react ss r) := by
  obtain ⟨h1, h2, h3, h4⟩ := h
  cases r <;> simp_all [Rel, Impl.react, Spec.react]

theorem loop_eq (sc : Script) (sid : Nat) (fuel : Nat) : ∀ (st : St) (ls : Impl.Loop) (ss : Spec.Loop),
    Rel ls ss →
    (Impl.loop sc sid fuel st ls).1 = (Spec.loop sc sid fuel st ss).1 ∧
    Rel (Impl.loop sc sid fuel st ls).2 (Spec.loop sc sid fuel st ss).2 := by
  induction fuel with
  | zero => intro st ls ss h; exact ⟨rfl, h⟩
  | succ f ih =>
    intro st ls ss h
    unfold Impl.loop Spec.loop
    split
    · exact ⟨rfl, h⟩
    · rw [h.1]
      exact ih _ _ _ (rel_react h _)

theorem outcome_eq {ls ss} (h : Rel ls ss) (body : Outcome) :
    Impl.outcome body ls = Spec.outcome body ss := by
  obtain ⟨h1, h2, h3, h4⟩ := h
  unfold Impl.outcome Spec.outcome
  rw [h1, h2, h3]
  cases hr : ls.reraise
  · simp
  · simp [h4 hr]

theorem unwind_eq (sc : Script) (st : St) (sid : Nat) (body : Outcome) :
    Impl.unwind sc st sid body = Spec.unwind sc st sid body := by
  have h := loop_eq sc sid ((st.stacks sid).length + st.budget) st _ _ (rel_init body)
  unfold Impl.unwind Spec.unwind
  simp only [h.1, outcome_eq h.2]

theorem unwind_fun_eq (sc : Script) : Impl.unwind sc = Spec.unwind sc := by
  funext st sid body; exact unwind_eq sc st sid body


/-! ## B. Projections of the primitive operations -/

@[simp] theorem setStack_stacks (st : St) (sid : Nat) (v : List Item) (j : Nat) :
    (st.setStack sid v).stacks j = if j = sid then v else st.stacks j := rfl
@[simp] theorem setStack_nstacks (st : St) (sid : Nat) (v : List Item) :
    (st.setStack sid v).nstacks = st.nstacks := rfl
@[simp] theorem setStack_log (st : St) (sid : Nat) (v : List Item) : (st.setStack sid v).log = st.log := rfl
@[simp] theorem setStack_outs (st : St) (sid : Nat) (v : List Item) : (st.setStack sid v).outs = st.outs := rfl
@[simp] theorem setStack_regs (st : St) (sid : Nat) (v : List Item) : (st.setStack sid v).regs = st.regs := rfl
@[simp] theorem setStack_budget (st : St) (sid : Nat) (v : List Item) :
    (st.setStack sid v).budget = st.budget := rfl

@[simp] theorem popAllAt_stacks (st : St) (sid j : Nat) :
    (popAllAt st sid).stacks j =
      if j = sid then [] else if j = st.nstacks then st.stacks sid else st.stacks j := rfl
@[simp] theorem popAllAt_nstacks (st : St) (sid : Nat) : (popAllAt st sid).nstacks = st.nstacks + 1 := rfl
@[simp] theorem popAllAt_log (st : St) (sid : Nat) : (popAllAt st sid).log = st.log := rfl
@[simp] theorem popAllAt_outs (st : St) (sid : Nat) : (popAllAt st sid).outs = st.outs := rfl
@[simp] theorem popAllAt_regs (st : St) (sid : Nat) : (popAllAt st sid).regs = st.regs := rfl
@[simp] theorem popAllAt_budget (st : St) (sid : Nat) : (popAllAt st sid).budget = st.budget := rfl

@[simp] theorem registerAt_stacks (st : St) (sid : Nat) (it : Item) (j : Nat) :
    (registerAt st sid it).stacks j = if j = sid then it :: st.stacks sid else st.stacks j := rfl
@[simp] theorem registerAt_nstacks (st : St) (sid : Nat) (it : Item) :
    (registerAt st sid it).nstacks = st.nstacks := rfl
@[simp] theorem registerAt_log (st : St) (sid : Nat) (it : Item) : (registerAt st sid it).log = st.log := rfl
@[simp] theorem registerAt_outs (st : St) (sid : Nat) (it : Item) : (registerAt st sid it).outs = st.outs := rfl
@[simp] theorem registerAt_regs (st : St) (sid : Nat) (it : Item) :
    (registerAt st sid it).regs = st.regs ++ [it.id] := rfl
@[simp] theorem registerAt_budget (st : St) (sid : Nat) (it : Item) :
    (registerAt st sid it).budget = st.budget := rfl

/-- the item an action registers, if any -/
def Act.item? : Act → Option Item
  | .popAll => none
  | .push id => some ⟨id, false⟩
  | .callback id => some ⟨id, true⟩

theorem lateRegister_pos (st : St) (sid : Nat) (it : Item) (h : 0 < st.budget) :
    lateRegister st sid it = registerAt { st with budget := st.budget - 1 } sid it := by
  unfold lateRegister; rw [if_neg (by omega)]

theorem lateRegister_zero (st : St) (sid : Nat) (it : Item) (h : st.budget = 0) :
    lateRegister st sid it = st := by
  unfold lateRegister; rw [if_pos h]

@[simp] theorem lateRegister_log (st : St) (sid : Nat) (it : Item) : (lateRegister st sid it).log = st.log := by
  unfold lateRegister; split <;> rfl
@[simp] theorem lateRegister_outs (st : St) (sid : Nat) (it : Item) : (lateRegister st sid it).outs = st.outs := by
  unfold lateRegister; split <;> rfl
@[simp] theorem lateRegister_nstacks (st : St) (sid : Nat) (it : Item) :
    (lateRegister st sid it).nstacks = st.nstacks := by
  unfold lateRegister; split <;> rfl

@[simp] theorem applyAct_log (sid : Nat) (st : St) (a : Act) : (applyAct sid st a).log = st.log := by
  cases a <;> simp [applyAct]
@[simp] theorem applyAct_outs (sid : Nat) (st : St) (a : Act) : (applyAct sid st a).outs = st.outs := by
  cases a <;> simp [applyAct]
theorem applyAct_nstacks (sid : Nat) (st : St) (a : Act) : st.nstacks ≤ (applyAct sid st a).nstacks := by
  cases a <;> simp [applyAct]

@[simp] theorem applyActs_log (sid : Nat) (acts : List Act) : ∀ (st : St),
    (acts.foldl (applyAct sid) st).log = st.log := by
  induction acts with
  | nil => intro st; rfl
  | cons a r ih => intro st; simp [ih]
@[simp] theorem applyActs_outs (sid : Nat) (acts : List Act) : ∀ (st : St),
    (acts.foldl (applyAct sid) st).outs = st.outs := by
  induction acts with
  | nil => intro st; rfl
  | cons a r ih => intro st; simp [ih]
theorem applyActs_nstacks (sid : Nat) (acts : List Act) : ∀ (st : St),
    st.nstacks ≤ (acts.foldl (applyAct sid) st).nstacks := by
  induction acts with
  | nil => intro st; exact Nat.le_refl _
  | cons a r ih => intro st; exact Nat.le_trans (applyAct_nstacks sid st a) (ih _)

/-- an action does not increase `len(deque) + budget` of the stack being unwound -/
theorem applyAct_measure (sid : Nat) (st : St) (a : Act) :
    ((applyAct sid st a).stacks sid).length + (applyAct sid st a).budget
      ≤ (st.stacks sid).length + st.budget := by
  cases a with
  | popAll => simp [applyAct]
  | push id =>
    simp only [applyAct]
    by_cases h : st.budget = 0
    · rw [lateRegister_zero _ _ _ h]; exact Nat.le_refl _
    · rw [lateRegister_pos _ _ _ (by omega)]; simp; omega
  | callback id =>
    simp only [applyAct]
    by_cases h : st.budget = 0
    · rw [lateRegister_zero _ _ _ h]; exact Nat.le_refl _
    · rw [lateRegister_pos _ _ _ (by omega)]; simp; omega

theorem applyActs_measure (sid : Nat) (acts : List Act) : ∀ (st : St),
    ((acts.foldl (applyAct sid) st).stacks sid).length + (acts.foldl (applyAct sid) st).budget
      ≤ (st.stacks sid).length + st.budget := by
  induction acts with
  | nil => intro st; exact Nat.le_refl _
  | cons a r ih => intro st; exact Nat.le_trans (ih _) (applyAct_measure sid st a)

/-- an action leaves every other already existing stack alone -/
theorem applyAct_frame (sid : Nat) (st : St) (a : Act) (j : Nat) (hj : j ≠ sid) (hlt : j < st.nstacks) :
    (applyAct sid st a).stacks j = st.stacks j := by
  cases a with
  | popAll => simp [applyAct, hj]; omega
  | push id =>
    simp only [applyAct]
    by_cases h : st.budget = 0
    · rw [lateRegister_zero _ _ _ h]
    · rw [lateRegister_pos _ _ _ (by omega)]; simp [hj]
  | callback id =>
    simp only [applyAct]
    by_cases h : st.budget = 0
    · rw [lateRegister_zero _ _ _ h]
    · rw [lateRegister_pos _ _ _ (by omega)]; simp [hj]

theorem applyActs_frame (sid : Nat) (acts : List Act) (j : Nat) (hj : j ≠ sid) : ∀ (st : St),
    j < st.nstacks → (acts.foldl (applyAct sid) st).stacks j = st.stacks j := by
  induction acts with
  | nil => intro st _; rfl
  | cons a r ih =>
    intro st hlt
    simp only [List.foldl_cons]
    rw [ih _ (Nat.lt_of_lt_of_le hlt (applyAct_nstacks sid st a)), applyAct_frame sid st a j hj hlt]

/-! projections of `invoke` -/

theorem invoke_log (sc : Script) (sid : Nat) (st : St) (it : Item) (rest : List Item) (infl : Option ExcId) :
    (invoke sc sid st it rest infl).1.log = st.log ++ [⟨it.id, sid, it.cb, it.handed infl⟩] := by
  simp [invoke]

theorem invoke_outs (sc : Script) (sid : Nat) (st : St) (it : Item) (rest : List Item) (infl : Option ExcId) :
    (invoke sc sid st it rest infl).1.outs = st.outs := by
  simp [invoke]

theorem invoke_nstacks (sc : Script) (sid : Nat) (st : St) (it : Item) (rest : List Item)
    (infl : Option ExcId) : st.nstacks ≤ (invoke sc sid st it rest infl).1.nstacks := by
  simp only [invoke]
  exact applyActs_nstacks sid (sc.beh it.id (it.handed infl)).1
    { st.setStack sid rest with log := st.log ++ [⟨it.id, sid, it.cb, it.handed infl⟩] }

theorem invoke_frame (sc : Script) (sid : Nat) (st : St) (it : Item) (rest : List Item)
    (infl : Option ExcId) (j : Nat) (hj : j ≠ sid) (hlt : j < st.nstacks) :
    (invoke sc sid st it rest infl).1.stacks j = st.stacks j := by
  simp only [invoke]
  rw [applyActs_frame sid _ j hj _ (by simpa using hlt)]
  simp [hj]

theorem invoke_measure (sc : Script) (sid : Nat) (st : St) (it : Item) (rest : List Item)
    (infl : Option ExcId) :
    ((invoke sc sid st it rest infl).1.stacks sid).length + (invoke sc sid st it rest infl).1.budget
      ≤ rest.length + st.budget := by
  simp only [invoke]
  refine Nat.le_trans (applyActs_measure sid _ _) ?_
  simp

/-- the fuel `unwind` hands to the loop is enough: the deque is empty when the loop ends -/
theorem loop_done (sc : Script) (sid : Nat) (fuel : Nat) : ∀ (st : St) (ls : Impl.Loop),
    (st.stacks sid).length + st.budget ≤ fuel → (Impl.loop sc sid fuel st ls).1.stacks sid = [] := by
  induction fuel with
  | zero =>
    intro st ls h
    simp only [Impl.loop]
    exact List.eq_nil_of_length_eq_zero (by omega)
  | succ f ih =>
    intro st ls h
    unfold Impl.loop
    split
    · assumption
    · rename_i it rest heq
      apply ih
      have := invoke_measure sc sid st it rest ls.exc
      rw [heq] at h; simp at h; omega

/-- a loop on stack `sid` leaves every other already existing stack alone -/
theorem loop_frame (sc : Script) (sid : Nat) (j : Nat) (hj : j ≠ sid) (fuel : Nat) :
    ∀ (st : St) (ls : Impl.Loop), j < st.nstacks →
    (Impl.loop sc sid fuel st ls).1.stacks j = st.stacks j := by
  induction fuel with
  | zero => intro st ls _; rfl
  | succ f ih =>
    intro st ls hlt
    unfold Impl.loop
    split
    · rfl
    · rename_i it rest heq
      rw [ih _ _ (Nat.lt_of_lt_of_le hlt (invoke_nstacks ..)), invoke_frame _ _ _ _ _ _ j hj hlt]

/-- the exit log only grows -/
theorem loop_log_prefix (sc : Script) (sid : Nat) (fuel : Nat) : ∀ (st : St) (ls : Impl.Loop),
    ∃ tail, (Impl.loop sc sid fuel st ls).1.log = st.log ++ tail := by
  induction fuel with
  | zero => intro st ls; exact ⟨[], by simp [Impl.loop]⟩
  | succ f ih =>
    intro st ls
    unfold Impl.loop
    split
    · exact ⟨[], by simp⟩
    · rename_i it rest heq
      obtain ⟨t, ht⟩ := ih (invoke sc sid st it rest ls.exc).1 (Impl.react ls (invoke sc sid st it rest ls.exc).2)
      exact ⟨⟨it.id, sid, it.cb, it.handed ls.exc⟩ :: t, by rw [ht, invoke_log]; simp⟩

theorem loop_outs (sc : Script) (sid : Nat) (fuel : Nat) : ∀ (st : St) (ls : Impl.Loop),
    (Impl.loop sc sid fuel st ls).1.outs = st.outs := by
  induction fuel with
  | zero => intro st ls; rfl
  | succ f ih =>
    intro st ls
    unfold Impl.loop
    split
    · rfl
    · rw [ih, invoke_outs]


/-! ## C. The "every exit lives in exactly one place" invariant -/

def itemIds (l : List Item) : List Nat := l.map (·.id)
def St.logIds (st : St) : List Nat := st.log.map (·.id)

@[simp] theorem itemIds_nil : itemIds [] = [] := rfl
@[simp] theorem itemIds_cons (it : Item) (l : List Item) : itemIds (it :: l) = it.id :: itemIds l := rfl

/-- every registered exit is either in the log (it ran, once) or on exactly one stack (once) -/
structure HInv (st : St) : Prop where
  logNodup : st.logIds.Nodup
  stackNodup : ∀ sid, (itemIds (st.stacks sid)).Nodup
  logStack : ∀ sid x, x ∈ itemIds (st.stacks sid) → x ∉ st.logIds
  stackStack : ∀ s1 s2 x, s1 ≠ s2 → x ∈ itemIds (st.stacks s1) → x ∉ itemIds (st.stacks s2)
  known : ∀ x, (x ∈ st.logIds ∨ ∃ sid, x ∈ itemIds (st.stacks sid)) → x ∈ st.regs
  complete : ∀ x, x ∈ st.regs → x ∈ st.logIds ∨ ∃ sid, x ∈ itemIds (st.stacks sid)

/-- stacks that do not exist yet are empty -/
def Fresh (st : St) : Prop := ∀ j, st.nstacks ≤ j → st.stacks j = []

/-- the invariant: unconditional part + the part that needs distinct registrations -/
def Inv (st : St) : Prop := Fresh st ∧ (st.regs.Nodup → HInv st)

theorem HInv.congr {st st' : St} (h : HInv st) (h1 : st'.stacks = st.stacks) (h2 : st'.log = st.log)
    (h3 : st'.regs = st.regs) : HInv st' := by
  obtain ⟨a, b, c, d, e, f⟩ := h
  constructor <;> simp only [St.logIds, h1, h2, h3] <;> assumption

/-- `callback = self._exit_callbacks.pop()` + the invocation is logged -/
theorem HInv.pop {st : St} (h : HInv st) (sid : Nat) (it : Item) (rest : List Item)
    (heq : st.stacks sid = it :: rest) (r : Rec) (hr : r.id = it.id) :
    HInv { st.setStack sid rest with log := st.log ++ [r] } := by
  obtain ⟨a, b, c, d, e, f⟩ := h
  have bs := b sid
  have cs := c sid
  rw [heq] at bs cs
  simp only [itemIds_cons, List.nodup_cons] at bs
  constructor
  · simp only [St.logIds, List.map_append, List.map_cons, List.map_nil, hr]
    refine List.nodup_append.mpr ⟨a, by simp, ?_⟩
    intro x hx y hy hxy
    simp at hy; subst hy; subst hxy
    exact cs _ (by simp) hx
  · intro j
    simp only [setStack_stacks]
    split
    · exact bs.2
    · exact b j
  · intro j x hx
    simp only [setStack_stacks] at hx
    simp only [St.logIds, List.map_append, List.map_cons, List.map_nil, hr, List.mem_append,
      List.mem_singleton]
    split at hx
    · rintro (h1 | h1)
      · exact cs x (by simp [hx]) h1
      · subst h1; exact bs.1 hx
    · rename_i hj
      rintro (h1 | h1)
      · exact c j x hx h1
      · subst h1
        exact d j sid _ hj hx (by rw [heq]; simp)
  · intro s1 s2 x hne h1 h2
    simp only [setStack_stacks] at h1 h2
    split at h1 <;> split at h2
    · omega
    · rename_i e1 e2; subst e1
      exact d s1 s2 x hne (by rw [heq]; simp [h1]) h2
    · rename_i e1 e2; subst e2
      exact d s1 s2 x hne h1 (by rw [heq]; simp [h2])
    · exact d s1 s2 x hne h1 h2
  · intro x hx
    simp only [St.logIds, List.map_append, List.map_cons, List.map_nil, hr, List.mem_append,
      List.mem_singleton, setStack_stacks] at hx
    rcases hx with (hx | hx) | ⟨j, hx⟩
    · exact e x (Or.inl hx)
    · subst hx; exact e _ (Or.inr ⟨sid, by rw [heq]; simp⟩)
    · split at hx
      · exact e x (Or.inr ⟨sid, by rw [heq]; simp [hx]⟩)
      · exact e x (Or.inr ⟨j, hx⟩)
  · intro x hx
    simp only [St.logIds, List.map_append, List.map_cons, List.map_nil, hr, List.mem_append,
      List.mem_singleton, setStack_stacks]
    rcases f x hx with h1 | ⟨j, h1⟩
    · exact Or.inl (Or.inl h1)
    · by_cases hj : j = sid
      · subst hj
        rw [heq] at h1
        simp only [itemIds_cons, List.mem_cons] at h1
        rcases h1 with h1 | h1
        · exact Or.inl (Or.inr h1)
        · exact Or.inr ⟨j, by simp [h1]⟩
      · exact Or.inr ⟨j, by simp [hj, h1]⟩

/-- `self._exit_callbacks.append(...)` of a new object -/
theorem HInv.register {st : St} (h : HInv st) (sid : Nat) (it : Item) (hfresh : it.id ∉ st.regs) :
    HInv (registerAt st sid it) := by
  obtain ⟨a, b, c, d, e, f⟩ := h
  have nl : it.id ∉ st.logIds := fun hm => hfresh (e _ (Or.inl hm))
  have ns : ∀ j, it.id ∉ itemIds (st.stacks j) := fun j hm => hfresh (e _ (Or.inr ⟨j, hm⟩))
  constructor
  · exact a
  · intro j
    simp only [registerAt_stacks]
    split
    · simp only [itemIds_cons, List.nodup_cons]; exact ⟨ns sid, b sid⟩
    · exact b j
  · intro j x hx
    simp only [registerAt_stacks] at hx
    show x ∉ st.logIds
    split at hx
    · simp only [itemIds_cons, List.mem_cons] at hx
      rcases hx with hx | hx
      · subst hx; exact nl
      · exact c sid x hx
    · exact c j x hx
  · intro s1 s2 x hne h1 h2
    simp only [registerAt_stacks] at h1 h2
    split at h1 <;> split at h2
    · omega
    · rename_i e1 e2; subst e1
      simp only [itemIds_cons, List.mem_cons] at h1
      rcases h1 with h1 | h1
      · subst h1; exact ns s2 h2
      · exact d s1 s2 x hne h1 h2
    · rename_i e1 e2; subst e2
      simp only [itemIds_cons, List.mem_cons] at h2
      rcases h2 with h2 | h2
      · subst h2; exact ns s1 h1
      · exact d s1 s2 x hne h1 h2
    · exact d s1 s2 x hne h1 h2
  · intro x hx
    simp only [registerAt_regs, List.mem_append, List.mem_singleton]
    rcases hx with hx | ⟨j, hx⟩
    · exact Or.inl (e x (Or.inl hx))
    · simp only [registerAt_stacks] at hx
      split at hx
      · simp only [itemIds_cons, List.mem_cons] at hx
        rcases hx with hx | hx
        · exact Or.inr hx
        · exact Or.inl (e x (Or.inr ⟨sid, hx⟩))
      · exact Or.inl (e x (Or.inr ⟨j, hx⟩))
  · intro x hx
    simp only [registerAt_regs, List.mem_append, List.mem_singleton] at hx
    show x ∈ st.logIds ∨ _
    rcases hx with hx | hx
    · rcases f x hx with h1 | ⟨j, h1⟩
      · exact Or.inl h1
      · refine Or.inr ⟨j, ?_⟩
        simp only [registerAt_stacks]
        split
        · rename_i ej; subst ej; simp [h1]
        · exact h1
    · exact Or.inr ⟨sid, by simp [hx]⟩

/-- `pop_all` into a stack slot that is still empty -/
theorem HInv.popAll {st : St} (h : HInv st) (sid : Nat) (hne : sid ≠ st.nstacks)
    (hempty : st.stacks st.nstacks = []) : HInv (popAllAt st sid) := by
  obtain ⟨a, b, c, d, e, f⟩ := h
  constructor
  · exact a
  · intro j
    simp only [popAllAt_stacks]
    split
    · simp
    · split
      · exact b sid
      · exact b j
  · intro j x hx
    simp only [popAllAt_stacks] at hx
    show x ∉ st.logIds
    split at hx
    · simp at hx
    · split at hx
      · exact c sid x hx
      · exact c j x hx
  · intro s1 s2 x hne' h1 h2
    simp only [popAllAt_stacks] at h1 h2
    split at h1
    · simp at h1
    · split at h2
      · simp at h2
      · split at h1 <;> split at h2
        · omega
        · rename_i n1 n2 e1 e2
          exact d sid s2 x (fun hh => n2 hh.symm) h1 h2
        · rename_i n1 n2 e1 e2
          exact d s1 sid x n1 h1 h2
        · exact d s1 s2 x hne' h1 h2
  · intro x hx
    show x ∈ st.regs
    rcases hx with hx | ⟨j, hx⟩
    · exact e x (Or.inl hx)
    · simp only [popAllAt_stacks] at hx
      split at hx
      · simp at hx
      · split at hx
        · exact e x (Or.inr ⟨sid, hx⟩)
        · exact e x (Or.inr ⟨j, hx⟩)
  · intro x hx
    show x ∈ st.logIds ∨ _
    rcases f x hx with h1 | ⟨j, h1⟩
    · exact Or.inl h1
    · refine Or.inr ?_
      by_cases hj : j = sid
      · subst hj
        have hn : ¬ (st.nstacks = j) := fun hh => hne hh.symm
        exact ⟨st.nstacks, by simp only [popAllAt_stacks, if_neg hn, if_true]; exact h1⟩
      · have : j ≠ st.nstacks := by
          intro hh; subst hh; rw [hempty] at h1; simp at h1
        exact ⟨j, by simp [hj, this, h1]⟩


theorem Inv.lt_of_cons {st : St} (h : Inv st) {sid : Nat} {it : Item} {rest : List Item}
    (heq : st.stacks sid = it :: rest) : sid < st.nstacks := by
  apply Nat.lt_of_not_le
  intro hle
  have := h.1 sid hle
  rw [heq] at this; cases this

theorem Inv.pop {st : St} (h : Inv st) (sid : Nat) (it : Item) (rest : List Item)
    (heq : st.stacks sid = it :: rest) (r : Rec) (hr : r.id = it.id) :
    Inv { st.setStack sid rest with log := st.log ++ [r] } := by
  refine ⟨?_, fun hnd => (h.2 hnd).pop sid it rest heq r hr⟩
  intro j hj
  have hlt := h.lt_of_cons heq
  have hj' : st.nstacks ≤ j := hj
  show (if j = sid then rest else st.stacks j) = []
  rw [if_neg (by omega)]
  exact h.1 j hj'

theorem Inv.registerAt {st : St} (h : Inv st) (sid : Nat) (it : Item) (hs : sid < st.nstacks) :
    Inv (registerAt st sid it) := by
  constructor
  · intro j hj
    have hj' : st.nstacks ≤ j := hj
    show (if j = sid then it :: st.stacks sid else st.stacks j) = []
    rw [if_neg (by omega)]
    exact h.1 j hj'
  · intro hnd
    simp only [registerAt_regs] at hnd
    have hnd' := List.nodup_append.mp hnd
    refine (h.2 hnd'.1).register sid it ?_
    intro hm
    exact hnd'.2.2 _ hm _ (by simp) rfl

theorem Inv.budget {st : St} (h : Inv st) (b : Nat) : Inv { st with budget := b } :=
  ⟨h.1, fun hnd => (h.2 hnd).congr rfl rfl rfl⟩

theorem Inv.outs {st : St} (h : Inv st) (o : List Left) : Inv { st with outs := o } :=
  ⟨h.1, fun hnd => (h.2 hnd).congr rfl rfl rfl⟩

theorem Inv.lateRegister {st : St} (h : Inv st) (sid : Nat) (it : Item) (hs : sid < st.nstacks) :
    Inv (lateRegister st sid it) := by
  unfold ExitStackRe.lateRegister
  split
  · exact h
  · exact (h.budget _).registerAt sid it hs

theorem Inv.popAllAt {st : St} (h : Inv st) (sid : Nat) (hs : sid < st.nstacks) :
    Inv (popAllAt st sid) := by
  constructor
  · intro j hj
    have hj' : st.nstacks + 1 ≤ j := hj
    simp only [popAllAt_stacks]
    rw [if_neg (by omega), if_neg (by omega)]
    exact h.1 j (by omega)
  · intro hnd
    exact (h.2 hnd).popAll sid (by omega) (h.1 _ (Nat.le_refl _))

theorem Inv.applyAct {st : St} (h : Inv st) (sid : Nat) (a : Act) (hs : sid < st.nstacks) :
    Inv (applyAct sid st a) := by
  cases a with
  | popAll => exact h.popAllAt sid hs
  | push id => exact h.lateRegister sid _ hs
  | callback id => exact h.lateRegister sid _ hs

theorem Inv.applyActs (sid : Nat) (acts : List Act) : ∀ {st : St}, Inv st → sid < st.nstacks →
    Inv (acts.foldl (ExitStackRe.applyAct sid) st) := by
  induction acts with
  | nil => intro st h _; exact h
  | cons a r ih =>
    intro st h hs
    exact ih (h.applyAct sid a hs) (Nat.lt_of_lt_of_le hs (applyAct_nstacks sid st a))

theorem Inv.invoke {st : St} (h : Inv st) (sc : Script) (sid : Nat) (it : Item) (rest : List Item)
    (heq : st.stacks sid = it :: rest) (infl : Option ExcId) :
    Inv (invoke sc sid st it rest infl).1 := by
  simp only [ExitStackRe.invoke]
  exact Inv.applyActs sid _ (h.pop sid it rest heq _ rfl) (h.lt_of_cons heq)

theorem Inv.loop (sc : Script) (sid : Nat) (fuel : Nat) : ∀ {st : St} (ls : Impl.Loop), Inv st →
    Inv (Impl.loop sc sid fuel st ls).1 := by
  induction fuel with
  | zero => intro st ls h; exact h
  | succ f ih =>
    intro st ls h
    unfold Impl.loop
    split
    · exact h
    · rename_i it rest heq
      exact ih _ (h.invoke sc sid it rest heq ls.exc)

theorem Inv.unwind {st : St} (h : Inv st) (sc : Script) (sid : Nat) (body : Outcome) :
    Inv (Impl.unwind sc st sid body) := by
  unfold Impl.unwind
  exact (Inv.loop sc sid _ _ h).outs _

theorem Inv.step {st : St} (h : Inv st) (sc : Script) (op : Op) :
    Inv (stepWith (Impl.unwind sc) st op) := by
  cases op with
  | register sid it =>
    simp only [stepWith]; split
    · rename_i hs; exact h.registerAt sid it hs
    · exact h
  | leave sid body => exact h.unwind sc sid body
  | aclose sid => exact h.unwind sc sid .normal
  | popAll sid =>
    simp only [stepWith]; split
    · rename_i hs; exact h.popAllAt sid hs
    · exact h

theorem Inv.run (sc : Script) (ops : List Op) : ∀ {st : St}, Inv st → Inv (Impl.run sc ops st) := by
  induction ops with
  | nil => intro st h; exact h
  | cons op r ih =>
    intro st h
    exact ih (h.step sc op)

theorem Inv.init (items : List Item) (budget : Nat) : Inv (St.init items budget) := by
  constructor
  · intro j hj
    have : 1 ≤ j := hj
    show (if j = 0 then items else []) = []
    rw [if_neg (by omega)]
  · intro hnd
    have hnd' : (itemIds items).reverse.Nodup := by
      simpa [St.init, itemIds, List.map_reverse] using hnd
    have hnd'' : (itemIds items).Nodup := by
      have := nodup_reverse' _ hnd'
      simpa using this
    have hs : ∀ j, (St.init items budget).stacks j = if j = 0 then items else [] := fun _ => rfl
    have hl : (St.init items budget).logIds = [] := rfl
    have hr : ∀ x, x ∈ (St.init items budget).regs ↔ x ∈ itemIds items := by
      intro x; simp [St.init, itemIds]
    constructor
    · rw [hl]; exact List.nodup_nil
    · intro j; rw [hs]; split
      · exact hnd''
      · simp
    · intro j x _; rw [hl]; simp
    · intro s1 s2 x hne h1 h2
      rw [hs] at h1 h2
      split at h1
      · split at h2
        · omega
        · simp at h2
      · simp at h1
    · intro x hx
      rw [hr]
      rcases hx with hx | ⟨j, hx⟩
      · rw [hl] at hx; simp at hx
      · rw [hs] at hx; split at hx
        · exact hx
        · simp at hx
    · intro x hx
      exact Or.inr ⟨0, by rw [hs]; simpa using (hr x).mp hx⟩


/-! ## D. One iteration at a time -/

theorem loop_succ_cons (sc : Script) (sid : Nat) (f : Nat) (st : St) (ls : Impl.Loop) (it : Item)
    (rest : List Item) (heq : st.stacks sid = it :: rest) :
    Impl.loop sc sid (f + 1) st ls =
      Impl.loop sc sid f (invoke sc sid st it rest ls.exc).1
        (Impl.react ls (invoke sc sid st it rest ls.exc).2) := by
  simp only [Impl.loop, heq]

theorem loop_nil (sc : Script) (sid : Nat) (f : Nat) (st : St) (ls : Impl.Loop)
    (heq : st.stacks sid = []) : Impl.loop sc sid f st ls = (st, ls) := by
  cases f with
  | zero => rfl
  | succ f => simp only [Impl.loop, heq]

theorem applyAct_budget (sid : Nat) (st : St) (a : Act) :
    st.budget ≤ (applyAct sid st a).budget + 1 := by
  cases a with
  | popAll => simp [applyAct]
  | push id =>
    simp only [applyAct]
    by_cases h : st.budget = 0
    · rw [lateRegister_zero _ _ _ h]; omega
    · rw [lateRegister_pos _ _ _ (by omega)]; simp; omega
  | callback id =>
    simp only [applyAct]
    by_cases h : st.budget = 0
    · rw [lateRegister_zero _ _ _ h]; omega
    · rw [lateRegister_pos _ _ _ (by omega)]; simp; omega

theorem applyActs_budget (sid : Nat) (acts : List Act) : ∀ (st : St),
    st.budget ≤ (acts.foldl (applyAct sid) st).budget + acts.length := by
  induction acts with
  | nil => intro st; simp
  | cons a r ih =>
    intro st
    have h1 := applyAct_budget sid st a
    have h2 := ih (applyAct sid st a)
    simp only [List.foldl_cons, List.length_cons]
    omega

/-- a registering action with budget left puts its item on top of the deque being unwound -/
theorem applyAct_item (sid : Nat) (st : St) (a : Act) (it' : Item) (ha : a.item? = some it')
    (hb : 0 < st.budget) : (applyAct sid st a).stacks sid = it' :: st.stacks sid := by
  cases a with
  | popAll => simp [Act.item?] at ha
  | push id =>
    simp only [Act.item?, Option.some.injEq] at ha; subst ha
    simp only [applyAct]; rw [lateRegister_pos _ _ _ hb]; simp
  | callback id =>
    simp only [Act.item?, Option.some.injEq] at ha; subst ha
    simp only [applyAct]; rw [lateRegister_pos _ _ _ hb]; simp

/-- if the last stack action of the running exit registers `it'` (and the budget allows it),
    `it'` is on top of the deque when the exit returns -/
theorem invoke_last_register (sc : Script) (sid : Nat) (st : St) (it : Item) (rest : List Item)
    (infl : Option ExcId) (pre : List Act) (a : Act) (it' : Item) (ha : a.item? = some it')
    (hacts : (sc.beh it.id (it.handed infl)).1 = pre ++ [a]) (hbud : pre.length < st.budget) :
    ∃ below, (invoke sc sid st it rest infl).1.stacks sid = it' :: below := by
  simp only [invoke, hacts, List.foldl_append, List.foldl_cons, List.foldl_nil]
  refine ⟨_, applyAct_item sid _ a it' ha ?_⟩
  have key : ∀ st1 : St, st1.budget = st.budget → 0 < (pre.foldl (applyAct sid) st1).budget := by
    intro st1 h1
    have := applyActs_budget sid pre st1
    omega
  exact key _ rfl

/-- (d) the exit registered last by a running exit is the next one to run on that stack, and is
    handed the exception in flight after the registering exit answered -/
theorem loop_runs_registered_next (sc : Script) (sid : Nat) (fuel : Nat) (st : St) (ls : Impl.Loop)
    (it : Item) (rest : List Item) (heq : st.stacks sid = it :: rest)
    (pre : List Act) (a : Act) (it' : Item) (ha : a.item? = some it')
    (hacts : (sc.beh it.id (it.handed ls.exc)).1 = pre ++ [a]) (hbud : pre.length < st.budget) :
    ∃ tail, (Impl.loop sc sid (fuel + 2) st ls).1.log =
      st.log ++ [⟨it.id, sid, it.cb, it.handed ls.exc⟩,
                 ⟨it'.id, sid, it'.cb,
                  it'.handed (Impl.react ls (it.resp (sc.beh it.id (it.handed ls.exc)).2)).exc⟩] ++ tail := by
  obtain ⟨below, hb⟩ := invoke_last_register sc sid st it rest ls.exc pre a it' ha hacts hbud
  rw [loop_succ_cons sc sid (fuel + 1) st ls it rest heq, loop_succ_cons sc sid fuel _ _ it' below hb]
  obtain ⟨tail, ht⟩ := loop_log_prefix sc sid fuel
    (invoke sc sid (invoke sc sid st it rest ls.exc).1 it' below
      (Impl.react ls (invoke sc sid st it rest ls.exc).2).exc).1
    (Impl.react (Impl.react ls (invoke sc sid st it rest ls.exc).2)
      (invoke sc sid (invoke sc sid st it rest ls.exc).1 it' below
        (Impl.react ls (invoke sc sid st it rest ls.exc).2).exc).2)
  refine ⟨tail, ?_⟩
  rw [ht, invoke_log, invoke_log]
  simp [invoke]

/-! ## E. What runs on a stack was on it or was registered meanwhile -/

theorem applyAct_stack_sub (sid : Nat) (st : St) (a : Act) :
    ∃ new, (applyAct sid st a).regs = st.regs ++ new ∧
      ∀ x, x ∈ itemIds ((applyAct sid st a).stacks sid) → x ∈ itemIds (st.stacks sid) ∨ x ∈ new := by
  cases a with
  | popAll => exact ⟨[], by simp [applyAct]⟩
  | push id =>
    simp only [applyAct]
    by_cases h : st.budget = 0
    · rw [lateRegister_zero _ _ _ h]; exact ⟨[], by simp, fun x hx => Or.inl hx⟩
    · rw [lateRegister_pos _ _ _ (by omega)]
      refine ⟨[id], by simp, ?_⟩
      intro x hx
      simp only [registerAt_stacks, if_true, itemIds_cons, List.mem_cons] at hx
      rcases hx with hx | hx
      · exact Or.inr (by simp [hx])
      · exact Or.inl hx
  | callback id =>
    simp only [applyAct]
    by_cases h : st.budget = 0
    · rw [lateRegister_zero _ _ _ h]; exact ⟨[], by simp, fun x hx => Or.inl hx⟩
    · rw [lateRegister_pos _ _ _ (by omega)]
      refine ⟨[id], by simp, ?_⟩
      intro x hx
      simp only [registerAt_stacks, if_true, itemIds_cons, List.mem_cons] at hx
      rcases hx with hx | hx
      · exact Or.inr (by simp [hx])
      · exact Or.inl hx

theorem applyActs_stack_sub (sid : Nat) (acts : List Act) : ∀ (st : St),
    ∃ new, (acts.foldl (applyAct sid) st).regs = st.regs ++ new ∧
      ∀ x, x ∈ itemIds ((acts.foldl (applyAct sid) st).stacks sid) →
        x ∈ itemIds (st.stacks sid) ∨ x ∈ new := by
  induction acts with
  | nil => intro st; exact ⟨[], by simp, fun x hx => Or.inl hx⟩
  | cons a r ih =>
    intro st
    obtain ⟨n1, e1, s1⟩ := applyAct_stack_sub sid st a
    obtain ⟨n2, e2, s2⟩ := ih (applyAct sid st a)
    refine ⟨n1 ++ n2, by simp only [List.foldl_cons]; rw [e2, e1, List.append_assoc], ?_⟩
    intro x hx
    rcases s2 x hx with h | h
    · rcases s1 x h with h' | h'
      · exact Or.inl h'
      · exact Or.inr (List.mem_append_left _ h')
    · exact Or.inr (List.mem_append_right _ h)

theorem invoke_stack_sub (sc : Script) (sid : Nat) (st : St) (it : Item) (rest : List Item)
    (infl : Option ExcId) :
    ∃ new, (invoke sc sid st it rest infl).1.regs = st.regs ++ new ∧
      ∀ x, x ∈ itemIds ((invoke sc sid st it rest infl).1.stacks sid) → x ∈ itemIds rest ∨ x ∈ new := by
  obtain ⟨n, e, s⟩ := applyActs_stack_sub sid (sc.beh it.id (it.handed infl)).1
    { st.setStack sid rest with log := st.log ++ [⟨it.id, sid, it.cb, it.handed infl⟩] }
  refine ⟨n, e, ?_⟩
  intro x hx
  rcases s x hx with h | h
  · left; simpa using h
  · exact Or.inr h

/-- everything a loop on stack `sid` runs was on that stack when the loop started, or was registered
    during the loop -/
theorem loop_ran_from (sc : Script) (sid : Nat) (fuel : Nat) : ∀ (st : St) (ls : Impl.Loop),
    ∃ tail new, (Impl.loop sc sid fuel st ls).1.log = st.log ++ tail ∧
      (Impl.loop sc sid fuel st ls).1.regs = st.regs ++ new ∧
      ∀ r, r ∈ tail → r.sid = sid ∧ (r.id ∈ itemIds (st.stacks sid) ∨ r.id ∈ new) := by
  induction fuel with
  | zero => intro st ls; exact ⟨[], [], by simp [Impl.loop]⟩
  | succ f ih =>
    intro st ls
    cases heq : st.stacks sid with
    | nil => rw [loop_nil sc sid _ st ls heq]; exact ⟨[], [], by simp⟩
    | cons it rest =>
      rw [loop_succ_cons sc sid f st ls it rest heq]
      obtain ⟨n1, e1, s1⟩ := invoke_stack_sub sc sid st it rest ls.exc
      obtain ⟨tail, n2, hl, hr, hs⟩ := ih (invoke sc sid st it rest ls.exc).1
        (Impl.react ls (invoke sc sid st it rest ls.exc).2)
      refine ⟨⟨it.id, sid, it.cb, it.handed ls.exc⟩ :: tail, n1 ++ n2, ?_, ?_, ?_⟩
      · rw [hl, invoke_log]; simp
      · rw [hr, e1, List.append_assoc]
      · intro r hr'
        rcases List.mem_cons.mp hr' with h | h
        · subst h; exact ⟨rfl, Or.inl (by simp)⟩
        · obtain ⟨h1, h2⟩ := hs r h
          refine ⟨h1, ?_⟩
          rcases h2 with h2 | h2
          · rcases s1 _ h2 with h3 | h3
            · exact Or.inl (by simp [h3])
            · exact Or.inr (List.mem_append_left _ h3)
          · exact Or.inr (List.mem_append_right _ h2)

/-- an exit whose first stack action is `pop_all`: the rest of the deque is on the new stack when
    it returns, and what is on the old stack then was registered by this exit afterwards -/
theorem invoke_popAll (sc : Script) (sid : Nat) (st : St) (it : Item) (rest : List Item)
    (infl : Option ExcId) (hs : sid < st.nstacks) (post : List Act)
    (hacts : (sc.beh it.id (it.handed infl)).1 = .popAll :: post) :
    (invoke sc sid st it rest infl).1.stacks st.nstacks = rest ∧
    st.nstacks < (invoke sc sid st it rest infl).1.nstacks ∧
    ∃ new, (invoke sc sid st it rest infl).1.regs = st.regs ++ new ∧
      ∀ x, x ∈ itemIds ((invoke sc sid st it rest infl).1.stacks sid) → x ∈ new := by
  simp only [invoke, hacts, List.foldl_cons, applyAct]
  refine ⟨?_, ?_, ?_⟩
  rotate_left
  · have := applyActs_nstacks sid post
      (popAllAt { st.setStack sid rest with log := st.log ++ [⟨it.id, sid, it.cb, it.handed infl⟩] } sid)
    exact Nat.lt_of_lt_of_le (Nat.lt_succ_self _) this
  rotate_left
  · rw [applyActs_frame sid post st.nstacks (by omega) _ (by simp)]
    simp only [popAllAt_stacks, setStack_stacks, setStack_nstacks]
    rw [if_neg (by omega)]; simp
  · obtain ⟨n, e, s⟩ := applyActs_stack_sub sid post
      (popAllAt { st.setStack sid rest with log := st.log ++ [⟨it.id, sid, it.cb, it.handed infl⟩] } sid)
    refine ⟨n, e, ?_⟩
    intro x hx
    rcases s x hx with h | h
    · simp at h
    · exact h


/-! ## F. Exits without stack actions: the old machine -/

theorem St.ext' {a b : St} (h1 : ∀ j, a.stacks j = b.stacks j) (h2 : a.nstacks = b.nstacks)
    (h3 : a.log = b.log) (h4 : a.outs = b.outs) (h5 : a.regs = b.regs) (h6 : a.budget = b.budget) :
    a = b := by
  cases a; cases b
  simp only [St.mk.injEq]
  exact ⟨funext h1, h2, h3, h4, h5, h6⟩

/-- the entry of `Machines/ExitStack.lean` that answers like the item and does nothing else -/
def entryOf (sc : Script) (it : Item) : Entry := ⟨it.id, it.cb, fun h => (sc.beh it.id h).2⟩

def toLoopSt (ls : Impl.Loop) (log : ExitLog) : LoopSt := ⟨ls.exc, ls.suppress, ls.reraise, log⟩

/-- the records a loop over action-free items produces ... -/
def quietRecs (sc : Script) (sid : Nat) : List Item → Impl.Loop → List Rec
  | [], _ => []
  | it :: rest, ls =>
    ⟨it.id, sid, it.cb, it.handed ls.exc⟩ ::
      quietRecs sc sid rest (Impl.react ls (it.resp (sc.beh it.id (it.handed ls.exc)).2))

/-- ... and its final local variables -/
def quietEnd (sc : Script) : List Item → Impl.Loop → Impl.Loop
  | [], ls => ls
  | it :: rest, ls => quietEnd sc rest (Impl.react ls (it.resp (sc.beh it.id (it.handed ls.exc)).2))

def Rec.pair (r : Rec) : Nat × Option ExcId := (r.id, r.handed)

theorem quietRecs_sid (sc : Script) (sid : Nat) (items : List Item) : ∀ (ls : Impl.Loop) (r : Rec),
    r ∈ quietRecs sc sid items ls → r.sid = sid := by
  induction items with
  | nil => intro ls r h; simp [quietRecs] at h
  | cons it rest ih =>
    intro ls r h
    simp only [quietRecs, List.mem_cons] at h
    rcases h with h | h
    · subst h; rfl
    · exact ih _ r h

theorem quietRecs_ids (sc : Script) (sid : Nat) (items : List Item) : ∀ (ls : Impl.Loop),
    (quietRecs sc sid items ls).map (·.id) = itemIds items := by
  induction items with
  | nil => intro ls; rfl
  | cons it rest ih => intro ls; simp [quietRecs, ih]

theorem stepLoop_entryOf (sc : Script) (ls : Impl.Loop) (log : ExitLog) (it : Item) :
    stepLoop (toLoopSt ls log) (entryOf sc it) =
      toLoopSt (Impl.react ls (it.resp (sc.beh it.id (it.handed ls.exc)).2))
        (log ++ [(it.id, it.handed ls.exc)]) := by
  unfold stepLoop Entry.run entryOf toLoopSt Item.resp Item.handed
  cases hcb : it.cb
  · simp only [Bool.false_eq_true, if_false]
    cases (sc.beh it.id ls.exc).2 <;> simp [Impl.react]
  · simp only [if_true]
    cases (sc.beh it.id none).2 <;> simp [Impl.react]

theorem foldl_quiet (sc : Script) (sid : Nat) (items : List Item) : ∀ (ls : Impl.Loop) (log : ExitLog),
    (items.map (entryOf sc)).foldl stepLoop (toLoopSt ls log) =
      toLoopSt (quietEnd sc items ls) (log ++ (quietRecs sc sid items ls).map Rec.pair) := by
  induction items with
  | nil => intro ls log; simp [quietRecs, quietEnd]
  | cons it rest ih =>
    intro ls log
    simp only [List.map_cons, List.foldl_cons, stepLoop_entryOf, ih, quietRecs, quietEnd,
      List.append_assoc, Rec.pair, List.cons_append, List.nil_append]

theorem outcome_toLoopSt (body : Outcome) (ls : Impl.Loop) (log : ExitLog) :
    Impl.outcome body ls = stOutcome body (toLoopSt ls log) := rfl

/-- the old machine's `__aexit__` on the corresponding entries (registration order) -/
theorem implExit_quiet (sc : Script) (sid : Nat) (items : List Item) (body : Outcome) :
    implExit (items.reverse.map (entryOf sc)) body =
      (Impl.outcome body (quietEnd sc items ⟨body.exc, false, false⟩),
       (quietRecs sc sid items ⟨body.exc, false, false⟩).map Rec.pair) := by
  have h := foldl_quiet sc sid items ⟨body.exc, false, false⟩ []
  have e : loopInit body = toLoopSt ⟨body.exc, false, false⟩ [] := rfl
  simp only [implExit, e, ← List.map_reverse, List.reverse_reverse, h, List.nil_append]
  rfl

/-- a loop over a deque of action-free exits: pop, run, next -/
theorem loop_quiet (sc : Script) (sid : Nat) (fuel : Nat) : ∀ (st : St) (ls : Impl.Loop),
    (∀ it, it ∈ st.stacks sid → ∀ h, (sc.beh it.id h).1 = []) → (st.stacks sid).length ≤ fuel →
    Impl.loop sc sid fuel st ls =
      ({ st.setStack sid [] with log := st.log ++ quietRecs sc sid (st.stacks sid) ls },
       quietEnd sc (st.stacks sid) ls) := by
  induction fuel with
  | zero =>
    intro st ls _ hlen
    have hnil : st.stacks sid = [] := List.eq_nil_of_length_eq_zero (by omega)
    rw [loop_nil sc sid 0 st ls hnil, hnil]
    simp only [quietRecs, quietEnd, List.append_nil]
    congr 1
    apply St.ext' <;> try rfl
    intro j; simp only [setStack_stacks]; split
    · rename_i e; subst e; exact hnil
    · rfl
  | succ f ih =>
    intro st ls hq hlen
    cases heq : st.stacks sid with
    | nil =>
      rw [loop_nil sc sid _ st ls heq]
      simp only [quietRecs, quietEnd, List.append_nil]
      congr 1
      apply St.ext' <;> try rfl
      intro j; simp only [setStack_stacks]; split
      · rename_i e; subst e; exact heq
      · rfl
    | cons it rest =>
      rw [loop_succ_cons sc sid f st ls it rest heq]
      have hacts : (sc.beh it.id (it.handed ls.exc)).1 = [] := hq it (by rw [heq]; simp) _
      have hinv : (invoke sc sid st it rest ls.exc).1 =
          { st.setStack sid rest with log := st.log ++ [⟨it.id, sid, it.cb, it.handed ls.exc⟩] } := by
        simp only [invoke, hacts, List.foldl_nil]
      have hres : (invoke sc sid st it rest ls.exc).2 = it.resp (sc.beh it.id (it.handed ls.exc)).2 := rfl
      rw [hinv, hres]
      have hst : ({ st.setStack sid rest with
          log := st.log ++ [⟨it.id, sid, it.cb, it.handed ls.exc⟩] } : St).stacks sid = rest := by
        simp
      rw [ih _ _ (by rw [hst]; intro i hi; exact hq i (by rw [heq]; simp [hi]))
        (by rw [hst]; rw [heq] at hlen; simp at hlen; omega), hst]
      simp only [quietRecs, quietEnd]
      congr 1
      apply St.ext' <;> try rfl
      · intro j; simp only [setStack_stacks]; split <;> rfl
      · simp

/-- `__aexit__` on a deque of action-free exits -/
theorem unwind_quiet (sc : Script) (st : St) (sid : Nat) (body : Outcome)
    (hq : ∀ it, it ∈ st.stacks sid → ∀ h, (sc.beh it.id h).1 = []) :
    Impl.unwind sc st sid body =
      { st.setStack sid [] with
        log := st.log ++ quietRecs sc sid (st.stacks sid) ⟨body.exc, false, false⟩
        outs := st.outs ++ [⟨sid, Impl.outcome body (quietEnd sc (st.stacks sid) ⟨body.exc, false, false⟩),
                  (st.log ++ quietRecs sc sid (st.stacks sid) ⟨body.exc, false, false⟩).length⟩] } := by
  unfold Impl.unwind
  rw [loop_quiet sc sid _ st _ hq (Nat.le_add_right _ _)]
  rfl

/-- nobody raises when handed nothing: everybody is handed nothing -/
theorem quiet_none (sc : Script) (sid : Nat) (items : List Item)
    (hnr : ∀ it, it ∈ items → ∀ e, it.resp (sc.beh it.id none).2 ≠ .raise e) :
    ∀ (ls : Impl.Loop), ls.exc = none → ls.reraise = false →
      quietRecs sc sid items ls = items.map (fun it => ⟨it.id, sid, it.cb, none⟩) ∧
      (quietEnd sc items ls).exc = none ∧ (quietEnd sc items ls).reraise = false := by
  induction items with
  | nil => intro ls h1 h2; exact ⟨rfl, h1, h2⟩
  | cons it rest ih =>
    intro ls h1 h2
    have hh : it.handed ls.exc = none := by unfold Item.handed; split <;> simp [h1]
    have hr := hnr it (by simp)
    simp only [quietRecs, quietEnd, hh, List.map_cons]
    have hnext : (Impl.react ls (it.resp (sc.beh it.id none).2)).exc = none ∧
        (Impl.react ls (it.resp (sc.beh it.id none).2)).reraise = false := by
      cases hresp : it.resp (sc.beh it.id none).2 with
      | falsy => exact ⟨h1, h2⟩
      | truthy => exact ⟨rfl, rfl⟩
      | raise e => exact absurd hresp (hr e)
    obtain ⟨a, b, c⟩ := ih (fun i hi => hnr i (by simp [hi])) _ hnext.1 hnext.2
    exact ⟨by rw [a], b, c⟩

/-! ## G. The harness history is a history -/

theorem foldl_aclose (uw : St → Nat → Outcome → St) (l : List Nat) : ∀ (st : St),
    (l.map Op.aclose).foldl (stepWith uw) st = l.foldl (fun s j => uw s j .normal) st := by
  induction l with
  | nil => intro st; rfl
  | cons a r ih => intro st; simp only [List.map_cons, List.foldl_cons, stepWith, ih]

theorem history_eq_run (uw : St → Nat → Outcome → St) (st : St) (body : Outcome) :
    historyWith uw st body = (harnessOps body (uw st 0 body).nstacks).foldl (stepWith uw) st := by
  simp only [historyWith, harnessOps, List.foldl_append, List.foldl_cons, List.foldl_nil, stepWith,
    foldl_aclose]

end AsyncVerif.ExitStackRe
