import AsyncVerif.Machines.Heap
/-!
# The binary heap of `heapq`: invariant, multiset, minimum

For `lt` a strict weak order (in particular a strict total order) the algorithms of `Machines/Heap.lean`
establish (`heapify`) and preserve (`heappush`, `heappop`, `heapreplace`) the heap invariant, keep the multiset of
entries (plus the pushed / minus the popped one), and `heap[0]` is a minimum — *the* minimum for a strict total order.
The order hypotheses are also available relative to a predicate `S` holding for all entries present
(`StrictWeakOn`, `StrictTotalOn`); those versions are obtained from the unconditional ones through the
naturality of the algorithms (`*_map`: the array layout depends on the entries only through the comparisons).
-/
namespace AsyncVerif.Heap

variable {α β : Type}

/-! ## Order hypotheses -/

/-- `lt` is a strict weak order: `¬ lt b a` is a total preorder -/
structure StrictWeak (lt : α → α → Bool) : Prop where
  irrefl : ∀ a, lt a a = false
  trans : ∀ a b c, lt a b = true → lt b c = true → lt a c = true
  ntrans : ∀ a b c, lt a b = false → lt b c = false → lt a c = false

/-- `lt` is a strict total order -/
structure StrictTotal (lt : α → α → Bool) : Prop where
  irrefl : ∀ a, lt a a = false
  trans : ∀ a b c, lt a b = true → lt b c = true → lt a c = true
  total : ∀ a b, a ≠ b → lt a b = true ∨ lt b a = true

/-- strict weak order on the elements satisfying `S` -/
structure StrictWeakOn (lt : α → α → Bool) (S : α → Prop) : Prop where
  irrefl : ∀ a, S a → lt a a = false
  trans : ∀ a b c, S a → S b → S c → lt a b = true → lt b c = true → lt a c = true
  ntrans : ∀ a b c, S a → S b → S c → lt a b = false → lt b c = false → lt a c = false

/-- strict total order on the elements satisfying `S` -/
structure StrictTotalOn (lt : α → α → Bool) (S : α → Prop) : Prop where
  irrefl : ∀ a, S a → lt a a = false
  trans : ∀ a b c, S a → S b → S c → lt a b = true → lt b c = true → lt a c = true
  total : ∀ a b, S a → S b → a ≠ b → lt a b = true ∨ lt b a = true

theorem StrictWeak.asymm {lt : α → α → Bool} (ho : StrictWeak lt) {a b : α} (h : lt a b = true) : lt b a = false := by
  cases hba : lt b a with
  | false => rfl
  | true => have := ho.trans a b a h hba; rw [ho.irrefl] at this; cases this

theorem StrictTotalOn.toWeakOn {lt : α → α → Bool} {S : α → Prop} (ho : StrictTotalOn lt S) : StrictWeakOn lt S where
  irrefl := ho.irrefl
  trans := ho.trans
  ntrans := by
    intro a b c ha hb hc hab hbc
    cases hac : lt a c with
    | false => rfl
    | true =>
      by_cases he : a = b
      · subst he; rw [hac] at hbc; cases hbc
      · rcases ho.total a b ha hb he with h | h
        · rw [h] at hab; cases hab
        · have := ho.trans b a c hb ha hc h hac; rw [this] at hbc; cases hbc

theorem StrictWeak.on {lt : α → α → Bool} (ho : StrictWeak lt) : StrictWeakOn lt (fun _ => True) :=
  ⟨fun a _ => ho.irrefl a, fun a b c _ _ _ => ho.trans a b c, fun a b c _ _ _ => ho.ntrans a b c⟩

theorem StrictTotal.on {lt : α → α → Bool} (ho : StrictTotal lt) : StrictTotalOn lt (fun _ => True) :=
  ⟨fun a _ => ho.irrefl a, fun a b c _ _ _ => ho.trans a b c, fun a b _ _ => ho.total a b⟩

theorem StrictWeakOn.univ {lt : α → α → Bool} (ho : StrictWeakOn lt (fun _ => True)) : StrictWeak lt :=
  ⟨fun a => ho.irrefl a trivial, fun a b c => ho.trans a b c trivial trivial trivial,
   fun a b c => ho.ntrans a b c trivial trivial trivial⟩

theorem StrictTotal.toWeak {lt : α → α → Bool} (ho : StrictTotal lt) : StrictWeak lt := ho.on.toWeakOn.univ

/-- the order induced on the subtype of the elements satisfying `S` is unconditionally a strict weak order -/
theorem StrictWeakOn.sub {lt : α → α → Bool} {S : α → Prop} (ho : StrictWeakOn lt S) :
    StrictWeak (fun (u v : {x // S x}) => lt u.1 v.1) :=
  ⟨fun a => ho.irrefl a.1 a.2, fun a b c => ho.trans a.1 b.1 c.1 a.2 b.2 c.2,
   fun a b c => ho.ntrans a.1 b.1 c.1 a.2 b.2 c.2⟩

theorem StrictWeakOn.mono {lt : α → α → Bool} {S T : α → Prop} (ho : StrictWeakOn lt S) (h : ∀ x, T x → S x) :
    StrictWeakOn lt T :=
  ⟨fun a ha => ho.irrefl a (h a ha), fun a b c ha hb hc => ho.trans a b c (h a ha) (h b hb) (h c hc),
   fun a b c ha hb hc => ho.ntrans a b c (h a ha) (h b hb) (h c hc)⟩

/-! ## Sizes -/

@[simp] theorem siftdownLoop_size (lt : α → α → Bool) (x : α) (s : Nat) (a : Array α) (pos : Nat) (h : pos < a.size) :
    (siftdownLoop lt x s a pos h).size = a.size := by
  fun_induction siftdownLoop lt x s a pos h with
  | case1 a pos h _ _ ih => rw [ih, Array.size_set]
  | case2 => rw [Array.size_set]
  | case3 => rw [Array.size_set]

@[simp] theorem siftdown_size (lt : α → α → Bool) (a : Array α) (s pos : Nat) : (siftdown lt a s pos).size = a.size := by
  unfold siftdown; split
  · rw [siftdownLoop_size]
  · rfl

@[simp] theorem siftupLoop_size (lt : α → α → Bool) (x : α) (s : Nat) (a : Array α) (pos : Nat) (h : pos < a.size) :
    (siftupLoop lt x s a pos h).size = a.size := by
  fun_induction siftupLoop lt x s a pos h with
  | case1 a pos h _ _ _ ih => rw [ih, Array.size_set]
  | case2 a pos h _ _ _ ih => rw [ih, Array.size_set]
  | case3 a pos h _ _ ih => rw [ih, Array.size_set]
  | case4 => rw [siftdown_size, Array.size_set]

@[simp] theorem siftup_size (lt : α → α → Bool) (a : Array α) (pos : Nat) : (siftup lt a pos).size = a.size := by
  unfold siftup; split
  · rw [siftupLoop_size]
  · rfl

@[simp] theorem heappush_size (lt : α → α → Bool) (a : Array α) (x : α) : (heappush lt a x).size = a.size + 1 := by
  unfold heappush; rw [siftdown_size, Array.size_push]

@[simp] theorem heapifyLoop_size (lt : α → α → Bool) (a : Array α) (k : Nat) : (heapifyLoop lt a k).size = a.size := by
  induction k generalizing a with
  | zero => rfl
  | succ k ih => rw [heapifyLoop, ih, siftup_size]

@[simp] theorem heapify_size (lt : α → α → Bool) (a : Array α) : (heapify lt a).size = a.size := by
  unfold heapify; rw [heapifyLoop_size]


/-! ## Multiset of entries -/

theorem set_set_eq_swap (a : Array α) (i j : Nat) (x : α) (hi : i < a.size) (hj : j < a.size) (hij : i ≠ j) :
    (a.set i a[j] hi).set j x (by simp only [Array.size_set]; exact hj)
      = (a.set i x hi).swap i j (by simp only [Array.size_set]; exact hi) (by simp only [Array.size_set]; exact hj) := by
  apply Array.ext
  · simp
  · intro k h1 h2
    grind

theorem siftdownLoop_perm (lt : α → α → Bool) (x : α) (s : Nat) (a : Array α) (pos : Nat) (h : pos < a.size) :
    (siftdownLoop lt x s a pos h).Perm (a.set pos x h) := by
  fun_induction siftdownLoop lt x s a pos h with
  | case1 a pos h hs hlt ih =>
    refine ih.trans ?_
    rw [set_set_eq_swap a pos ((pos - 1) / 2) x h (by omega) (by omega)]
    exact Array.swap_perm _ _
  | case2 => exact Array.Perm.refl _
  | case3 => exact Array.Perm.refl _

theorem siftdown_perm (lt : α → α → Bool) (a : Array α) (s pos : Nat) : (siftdown lt a s pos).Perm a := by
  unfold siftdown; split
  · next h =>
    have := siftdownLoop_perm lt a[pos] s a pos h
    rwa [Array.set_getElem_self] at this
  · exact Array.Perm.refl _

theorem siftupLoop_perm (lt : α → α → Bool) (x : α) (s : Nat) (a : Array α) (pos : Nat) (h : pos < a.size) :
    (siftupLoop lt x s a pos h).Perm (a.set pos x h) := by
  fun_induction siftupLoop lt x s a pos h with
  | case1 a pos h hc hr _ ih =>
    refine ih.trans ?_
    rw [set_set_eq_swap a pos (2 * pos + 1) x h hc (by omega)]
    exact Array.swap_perm _ _
  | case2 a pos h hc hr _ ih =>
    refine ih.trans ?_
    rw [set_set_eq_swap a pos (2 * pos + 2) x h hr (by omega)]
    exact Array.swap_perm _ _
  | case3 a pos h hc hr ih =>
    refine ih.trans ?_
    rw [set_set_eq_swap a pos (2 * pos + 1) x h hc (by omega)]
    exact Array.swap_perm _ _
  | case4 => exact siftdown_perm _ _ _ _

theorem siftup_perm (lt : α → α → Bool) (a : Array α) (pos : Nat) : (siftup lt a pos).Perm a := by
  unfold siftup; split
  · next h =>
    have := siftupLoop_perm lt a[pos] pos a pos h
    rwa [Array.set_getElem_self] at this
  · exact Array.Perm.refl _

/-- `heappush` adds the item to the multiset of entries -/
theorem heappush_perm (lt : α → α → Bool) (a : Array α) (x : α) : (heappush lt a x).Perm (a.push x) :=
  siftdown_perm _ _ _ _

theorem heapifyLoop_perm (lt : α → α → Bool) (a : Array α) (k : Nat) : (heapifyLoop lt a k).Perm a := by
  induction k generalizing a with
  | zero => exact Array.Perm.refl _
  | succ k ih => rw [heapifyLoop]; exact (ih _).trans (siftup_perm _ _ _)

/-- `heapify` keeps the multiset of entries -/
theorem heapify_perm (lt : α → α → Bool) (a : Array α) : (heapify lt a).Perm a := heapifyLoop_perm _ _ _

theorem pop_set_perm (a : Array α) (h0 : 0 < a.size) (h1 : 0 < a.pop.size) :
    a.toList.Perm (a.pop[0] :: (a.pop.set 0 a[a.size - 1] h1).toList) := by
  obtain ⟨l⟩ := a
  rcases List.eq_nil_or_concat l with rfl | ⟨D, last, rfl⟩
  · simp at h0
  · cases D with
    | nil => simp at h1
    | cons d D =>
      have hd : (d :: (D ++ [last])).dropLast = d :: D := by
        rw [← List.cons_append, List.dropLast_concat]
      simp [hd]

/-- `heappop` of a non-empty heap, unfolded: the returned item is `heap[0]` -/
theorem heappop_eq (lt : α → α → Bool) (a : Array α) (h0 : 0 < a.size) :
    heappop lt a = some (a[0], if h1 : 0 < a.pop.size then siftup lt (a.pop.set 0 a[a.size - 1] h1) 0 else a.pop) := by
  unfold heappop
  rw [dif_pos h0]
  by_cases h1 : 0 < a.pop.size
  · simp only [dif_pos h1, Array.getElem_pop]
  · simp only [dif_neg h1]
    have : a.size - 1 = 0 := by simp only [Array.size_pop] at h1; omega
    simp only [this]

theorem heappop_none (lt : α → α → Bool) (a : Array α) : heappop lt a = none ↔ a.size = 0 := by
  by_cases h0 : 0 < a.size
  · rw [heappop_eq lt a h0]; constructor
    · intro h; cases h
    · intro h; omega
  · unfold heappop; rw [dif_neg h0]; constructor
    · intro _; omega
    · intro _; rfl

/-- `heappop` on a non-empty heap returns `heap[0]` -/
theorem heappop_fst (lt : α → α → Bool) (a : Array α) (x : α) (r : Array α) (h : heappop lt a = some (x, r)) :
    ∃ h0 : 0 < a.size, x = a[0] := by
  by_cases h0 : 0 < a.size
  · rw [heappop_eq lt a h0] at h
    simp only [Option.some.injEq, Prod.mk.injEq] at h
    exact ⟨h0, h.1.symm⟩
  · rw [(heappop_none lt a).mpr (by omega)] at h; cases h

theorem heappop_size (lt : α → α → Bool) (a : Array α) (x : α) (r : Array α) (h : heappop lt a = some (x, r)) :
    r.size + 1 = a.size := by
  obtain ⟨h0, _⟩ := heappop_fst lt a x r h
  rw [heappop_eq lt a h0] at h
  simp only [Option.some.injEq, Prod.mk.injEq] at h
  rw [← h.2]
  split
  · rw [siftup_size, Array.size_set, Array.size_pop]; omega
  · rw [Array.size_pop]; omega

/-- `heappop` removes the returned item from the multiset of entries -/
theorem heappop_perm (lt : α → α → Bool) (a : Array α) (x : α) (r : Array α) (h : heappop lt a = some (x, r)) :
    a.toList.Perm (x :: r.toList) := by
  obtain ⟨h0, _⟩ := heappop_fst lt a x r h
  rw [heappop_eq lt a h0] at h
  simp only [Option.some.injEq, Prod.mk.injEq] at h
  rw [← h.1, ← h.2]
  split
  · next h1 =>
    have hp := (siftup_perm lt (a.pop.set 0 a[a.size - 1] h1) 0).toList
    have := pop_set_perm a h0 h1
    rw [Array.getElem_pop] at this
    exact this.trans (List.Perm.cons _ hp.symm)
  · next h1 =>
    have hs : a.size = 1 := by simp only [Array.size_pop] at h1; omega
    obtain ⟨l⟩ := a
    match l, hs with
    | [y], _ => simp

/-- `heapreplace` of a non-empty heap, unfolded: the returned item is `heap[0]` -/
theorem heapreplace_eq (lt : α → α → Bool) (a : Array α) (x : α) (h0 : 0 < a.size) :
    heapreplace lt a x = some (a[0], siftup lt (a.set 0 x h0) 0) := by
  unfold heapreplace; rw [dif_pos h0]

theorem heapreplace_none (lt : α → α → Bool) (a : Array α) (x : α) : heapreplace lt a x = none ↔ a.size = 0 := by
  unfold heapreplace; split
  · constructor
    · intro h; cases h
    · intro h; omega
  · constructor
    · intro _; omega
    · intro _; rfl

theorem heapreplace_fst (lt : α → α → Bool) (a : Array α) (x y : α) (r : Array α)
    (h : heapreplace lt a x = some (y, r)) : ∃ h0 : 0 < a.size, y = a[0] ∧ r = siftup lt (a.set 0 x h0) 0 := by
  by_cases h0 : 0 < a.size
  · rw [heapreplace_eq lt a x h0] at h
    simp only [Option.some.injEq, Prod.mk.injEq] at h
    exact ⟨h0, h.1.symm, h.2.symm⟩
  · rw [(heapreplace_none lt a x).mpr (by omega)] at h; cases h

/-- `heapreplace` keeps the size -/
theorem heapreplace_size (lt : α → α → Bool) (a : Array α) (x y : α) (r : Array α)
    (h : heapreplace lt a x = some (y, r)) : r.size = a.size := by
  obtain ⟨h0, _, hr⟩ := heapreplace_fst lt a x y r h
  rw [hr, siftup_size, Array.size_set]

/-- `heapreplace` removes the returned item from the multiset of entries and adds the new one -/
theorem heapreplace_perm (lt : α → α → Bool) (a : Array α) (x y : α) (r : Array α)
    (h : heapreplace lt a x = some (y, r)) : (y :: r.toList).Perm (x :: a.toList) := by
  obtain ⟨h0, hy, hr⟩ := heapreplace_fst lt a x y r h
  have hp := (siftup_perm lt (a.set 0 x h0) 0).toList
  rw [← hr] at hp
  refine (List.Perm.cons y hp).trans ?_
  rw [hy]
  obtain ⟨l⟩ := a
  cases l with
  | nil => simp at h0
  | cons d l => simpa using List.Perm.swap x d l

/-! ## The heap invariant -/

/-- the heap invariant: no entry is smaller than its parent -/
def IsHeap (lt : α → α → Bool) (a : Array α) : Prop :=
  ∀ i (h : i < a.size), 0 < i → lt a[i] (a[(i - 1) / 2]'(by omega)) = false

/-- the heap invariant below `s`: every entry whose parent is at index `≥ s` is not smaller than its parent
    (all subtrees rooted at indices `≥ s` are heaps) -/
def HeapFrom (lt : α → α → Bool) (s : Nat) (a : Array α) : Prop :=
  ∀ i (h : i < a.size), 0 < i → s ≤ (i - 1) / 2 → lt a[i] (a[(i - 1) / 2]'(by omega)) = false

theorem isHeap_iff_heapFrom (lt : α → α → Bool) (a : Array α) : IsHeap lt a ↔ HeapFrom lt 0 a :=
  ⟨fun h i hi h0 _ => h i hi h0, fun h i hi h0 => h i hi h0 (Nat.zero_le _)⟩

theorem HeapFrom.mono {lt : α → α → Bool} {s t : Nat} {a : Array α} (h : HeapFrom lt s a) (hst : s ≤ t) :
    HeapFrom lt t a := fun i hi h0 ht => h i hi h0 (Nat.le_trans hst ht)

/-- nothing has a parent at index `≥ size / 2` -/
theorem heapFrom_half (lt : α → α → Bool) (a : Array α) : HeapFrom lt (a.size / 2) a := by
  intro i hi h0 hs; omega

/-- `pos` is in the subtree rooted at `s` -/
inductive Desc (s : Nat) : Nat → Prop
  | refl : Desc s s
  | left {p : Nat} : Desc s p → Desc s (2 * p + 1)
  | right {p : Nat} : Desc s p → Desc s (2 * p + 2)

theorem Desc.le {s p : Nat} (h : Desc s p) : s ≤ p := by
  induction h with
  | refl => exact Nat.le_refl _
  | left _ ih => omega
  | right _ ih => omega

theorem Desc.parent {s p : Nat} (h : Desc s p) (hlt : s < p) : Desc s ((p - 1) / 2) := by
  cases h with
  | refl => omega
  | @left q hq => have : (2 * q + 1 - 1) / 2 = q := by omega
                  rw [this]; exact hq
  | @right q hq => have : (2 * q + 2 - 1) / 2 = q := by omega
                   rw [this]; exact hq

/-- a heap below `s` except that the entry at `pos` may be smaller than its parent (state of `_siftdown`, with the
    new item written at `pos`): the entries below `pos` are already not smaller than the parent of `pos` -/
structure UpInv (lt : α → α → Bool) (s pos : Nat) (F : Array α) : Prop where
  a : ∀ i (h : i < F.size), 0 < i → s ≤ (i - 1) / 2 → i ≠ pos → lt F[i] (F[(i - 1) / 2]'(by omega)) = false
  b : s < pos → ∀ c (h : c < F.size) (_ : 0 < c) (_ : (c - 1) / 2 = pos), lt F[c] (F[(pos - 1) / 2]'(by omega)) = false

/-- one round of the `_siftdown` loop: the new item and its greater parent change places -/
theorem UpInv.step {lt : α → α → Bool} (ho : StrictWeak lt) {s pos : Nat} {F : Array α} (hpos : pos < F.size)
    (hs : s < pos) (hd : Desc s pos) (hi : UpInv lt s pos F)
    (hlt : lt F[pos] (F[(pos - 1) / 2]'(by omega)) = true) :
    UpInv lt s ((pos - 1) / 2) (F.swap pos ((pos - 1) / 2) hpos (by omega)) := by
  have hpp : (pos - 1) / 2 < F.size := by omega
  have hne : (pos - 1) / 2 ≠ pos := by omega
  constructor
  · intro i h h0 hsi hip
    have hiF : i < F.size := by simpa using h
    by_cases hipos : i = pos
    · subst hipos
      simp only [Array.getElem_swap, if_pos, hne, if_false]
      exact ho.asymm hlt
    · have hq : (i - 1) / 2 < F.size := by omega
      rw [Array.getElem_swap hpos hpp, if_neg hipos, if_neg hip]
      by_cases hq1 : (i - 1) / 2 = (pos - 1) / 2
      · rw [Array.getElem_swap hpos hpp, if_neg (by omega), if_pos hq1]
        have h1 := hi.a i hiF h0 hsi hipos
        cases hx : lt F[i] F[pos] with
        | false => rfl
        | true =>
          have := ho.trans _ _ _ hx hlt
          simp only [hq1] at h1
          rw [this] at h1; cases h1
      · by_cases hq2 : (i - 1) / 2 = pos
        · rw [Array.getElem_swap hpos hpp, if_pos hq2]
          exact hi.b hs i hiF h0 hq2
        · rw [Array.getElem_swap hpos hpp, if_neg hq2, if_neg hq1]
          exact hi.a i hiF h0 hsi hipos
  · intro hs' c h h0 hc
    have hcF : c < F.size := by simpa using h
    have hdp := (hd.parent hs).parent hs' |>.le
    have hg := hi.a ((pos - 1) / 2) hpp (by omega) hdp hne
    rw [Array.getElem_swap hpos hpp (k := ((pos - 1) / 2 - 1) / 2), if_neg (by omega), if_neg (by omega)]
    by_cases hcpos : c = pos
    · subst hcpos
      rw [Array.getElem_swap hpos hpp, if_pos rfl]
      exact hg
    · rw [Array.getElem_swap hpos hpp, if_neg hcpos, if_neg (by omega)]
      have h1 := hi.a c hcF h0 (by omega) hcpos
      simp only [hc] at h1
      exact ho.ntrans _ _ _ h1 hg

/-- the `_siftdown` loop ends in a heap (below `startpos`) -/
theorem siftdownLoop_heapFrom {lt : α → α → Bool} (ho : StrictWeak lt) (x : α) (s : Nat) (a : Array α) (pos : Nat)
    (h : pos < a.size) (hd : Desc s pos) (hi : UpInv lt s pos (a.set pos x h)) :
    HeapFrom lt s (siftdownLoop lt x s a pos h) := by
  fun_induction siftdownLoop lt x s a pos h with
  | case1 a pos h hs hlt ih =>
    apply ih (hd.parent hs)
    rw [set_set_eq_swap a pos ((pos - 1) / 2) x h (by omega) (by omega)]
    refine UpInv.step ho (by simpa using h) hs hd hi ?_
    simp only [Array.getElem_set, if_true, if_neg (show ¬ pos = (pos - 1) / 2 by omega)]
    exact hlt
  | case2 a pos h hs hlt =>
    intro i hi' h0 hsi
    by_cases hip : i = pos
    · subst hip
      simp only [Array.getElem_set, if_true, if_neg (show ¬ i = (i - 1) / 2 by omega)]
      simpa using hlt
    · exact hi.a i hi' h0 hsi hip
  | case3 a pos h hs =>
    have : pos = s := by have := hd.le; omega
    subst this
    intro i hi' h0 hsi
    exact hi.a i hi' h0 hsi (by omega)

/-- `_siftdown(heap, startpos, pos)` repairs a heap (below `startpos`) whose entry at `pos` may be too small -/
theorem siftdown_heapFrom {lt : α → α → Bool} (ho : StrictWeak lt) (a : Array α) (s pos : Nat) (h : pos < a.size)
    (hd : Desc s pos) (hi : UpInv lt s pos a) : HeapFrom lt s (siftdown lt a s pos) := by
  unfold siftdown; rw [dif_pos h]
  apply siftdownLoop_heapFrom ho _ s a pos h hd
  rw [Array.set_getElem_self]; exact hi

/-- state of the first loop of `_siftup`, the hole at `pos` (its content is stale): a heap below `startpos` apart from
    the hole, and the entries below the hole are not smaller than the parent of the hole -/
structure DownInv (lt : α → α → Bool) (s pos : Nat) (H : Array α) : Prop where
  a : ∀ i (h : i < H.size), 0 < i → s ≤ (i - 1) / 2 → i ≠ pos → (i - 1) / 2 ≠ pos →
    lt H[i] (H[(i - 1) / 2]'(by omega)) = false
  b : s < pos → ∀ c (h : c < H.size) (_ : 0 < c) (_ : (c - 1) / 2 = pos), lt H[c] (H[(pos - 1) / 2]'(by omega)) = false

theorem DownInv.init {lt : α → α → Bool} {s : Nat} {a : Array α} (h : HeapFrom lt (s + 1) a) : DownInv lt s s a :=
  ⟨fun i hi h0 hs _ hne => h i hi h0 (by omega), fun hlt => absurd hlt (Nat.lt_irrefl _)⟩

/-- one round of the first `_siftup` loop: a smallest child `c` of the hole moves up -/
theorem DownInv.step {lt : α → α → Bool} {s pos c : Nat} {H : Array α} (hpos : pos < H.size) (hc : c < H.size)
    (hcp : (c - 1) / 2 = pos) (hc0 : 0 < c) (hsp : s ≤ pos) (hi : DownInv lt s pos H)
    (hmin : ∀ c' (h : c' < H.size), 0 < c' → (c' - 1) / 2 = pos → lt H[c'] H[c] = false) :
    DownInv lt s c (H.set pos H[c] hpos) := by
  have hne : pos ≠ c := by omega
  constructor
  · intro i h h0 hsi hic hqc
    have hiH : i < H.size := by simpa using h
    by_cases hip : i = pos
    · subst hip
      rw [Array.getElem_set, if_pos rfl, Array.getElem_set, if_neg (by omega)]
      exact hi.b (by omega) c hc hc0 hcp
    · rw [Array.getElem_set, if_neg (Ne.symm hip)]
      by_cases hq : (i - 1) / 2 = pos
      · rw [Array.getElem_set, if_pos hq.symm]
        exact hmin i hiH h0 hq
      · rw [Array.getElem_set, if_neg (Ne.symm hq)]
        exact hi.a i hiH h0 hsi hip hq
  · intro hsc d h h0 hdc
    have hdH : d < H.size := by simpa using h
    rw [Array.getElem_set, if_neg (show ¬ pos = d by omega), Array.getElem_set, if_pos hcp.symm]
    have := hi.a d hdH h0 (by omega) (by omega) (by omega)
    simpa only [hdc] using this

/-- the hole has reached a leaf: writing the new item there gives the state `_siftdown` starts from -/
theorem DownInv.leaf {lt : α → α → Bool} {s pos : Nat} {H : Array α} (x : α) (hpos : pos < H.size)
    (hleaf : ¬ 2 * pos + 1 < H.size) (hi : DownInv lt s pos H) : UpInv lt s pos (H.set pos x hpos) := by
  constructor
  · intro i h h0 hsi hip
    have hiH : i < H.size := by simpa using h
    rw [Array.getElem_set, if_neg (Ne.symm hip), Array.getElem_set, if_neg (by omega)]
    exact hi.a i hiH h0 hsi hip (by omega)
  · intro _ c h h0 hc
    have hcH : c < H.size := by simpa using h
    omega

/-- `_siftup` from `startpos`: both loops together end in a heap below `startpos` -/
theorem siftupLoop_heapFrom {lt : α → α → Bool} (ho : StrictWeak lt) (x : α) (s : Nat) (a : Array α) (pos : Nat)
    (h : pos < a.size) (hd : Desc s pos) (hi : DownInv lt s pos a) :
    HeapFrom lt s (siftupLoop lt x s a pos h) := by
  fun_induction siftupLoop lt x s a pos h with
  | case1 a pos h hc hr hlt ih =>
    apply ih hd.left
    refine DownInv.step h hc (by omega) (by omega) hd.le hi ?_
    intro c' hc' h0 hcp
    have : c' = 2 * pos + 1 ∨ c' = 2 * pos + 2 := by omega
    rcases this with rfl | rfl
    · exact ho.irrefl _
    · exact ho.asymm hlt
  | case2 a pos h hc hr hlt ih =>
    apply ih hd.right
    refine DownInv.step h hr (by omega) (by omega) hd.le hi ?_
    intro c' hc' h0 hcp
    have : c' = 2 * pos + 1 ∨ c' = 2 * pos + 2 := by omega
    rcases this with rfl | rfl
    · simpa using hlt
    · exact ho.irrefl _
  | case3 a pos h hc hr ih =>
    apply ih hd.left
    refine DownInv.step h hc (by omega) (by omega) hd.le hi ?_
    intro c' hc' h0 hcp
    have : c' = 2 * pos + 1 := by omega
    subst this
    exact ho.irrefl _
  | case4 a pos h hc =>
    exact siftdown_heapFrom ho _ s pos (by simpa using h) hd (hi.leaf x h hc)

/-- `_siftup(heap, pos)`: if the subtrees below `pos` are heaps, afterwards the subtree at `pos` is one -/
theorem siftup_heapFrom {lt : α → α → Bool} (ho : StrictWeak lt) (a : Array α) (s : Nat)
    (hh : HeapFrom lt (s + 1) a) : HeapFrom lt s (siftup lt a s) := by
  unfold siftup; split
  · next h => exact siftupLoop_heapFrom ho _ s a s h Desc.refl (DownInv.init hh)
  · next h => intro i hi h0 hs; omega

/-! ## `heapify`, `heappush`, `heappop`, `heapreplace` and the invariant -/

theorem heapifyLoop_heapFrom {lt : α → α → Bool} (ho : StrictWeak lt) (k : Nat) (a : Array α)
    (hh : HeapFrom lt k a) : IsHeap lt (heapifyLoop lt a k) := by
  induction k generalizing a with
  | zero => exact (isHeap_iff_heapFrom lt a).mpr hh
  | succ k ih => rw [heapifyLoop]; exact ih _ (siftup_heapFrom ho a k hh)

/-- `heapify` establishes the heap invariant -/
theorem heapify_isHeap {lt : α → α → Bool} (ho : StrictWeak lt) (a : Array α) : IsHeap lt (heapify lt a) :=
  heapifyLoop_heapFrom ho _ a (heapFrom_half lt a)

/-- `heappush` preserves the heap invariant -/
theorem heappush_isHeap {lt : α → α → Bool} (ho : StrictWeak lt) (a : Array α) (x : α) (hh : IsHeap lt a) :
    IsHeap lt (heappush lt a x) := by
  rw [isHeap_iff_heapFrom]
  unfold heappush
  have hd : ∀ p, Desc 0 p := by
    intro p
    induction p using Nat.strongRecOn with
    | _ p ih =>
      by_cases hp : p = 0
      · subst hp; exact Desc.refl
      · have := ih ((p - 1) / 2) (by omega)
        have hc : p = 2 * ((p - 1) / 2) + 1 ∨ p = 2 * ((p - 1) / 2) + 2 := by omega
        rcases hc with hc | hc
        · rw [hc]; exact this.left
        · rw [hc]; exact this.right
  apply siftdown_heapFrom ho _ 0 a.size (by simp) (hd _)
  constructor
  · intro i h h0 _ hne
    have hi : i < a.size := by simp only [Array.size_push] at h; omega
    rw [Array.getElem_push_lt hi, Array.getElem_push_lt (by omega)]
    exact hh i hi h0
  · intro _ c h h0 hc
    simp only [Array.size_push] at h; omega

/-- a heap with a new entry written at index 0 is still a heap below index 1 -/
theorem IsHeap.set_zero {lt : α → α → Bool} {a : Array α} (hh : IsHeap lt a) (x : α) (h0 : 0 < a.size) :
    HeapFrom lt 1 (a.set 0 x h0) := by
  intro i h hi hs
  have hiA : i < a.size := by simpa using h
  rw [Array.getElem_set, if_neg (by omega), Array.getElem_set, if_neg (by omega)]
  exact hh i hiA hi

theorem IsHeap.pop {lt : α → α → Bool} {a : Array α} (hh : IsHeap lt a) : IsHeap lt a.pop := by
  intro i h hi
  have hiA : i < a.size := by simp only [Array.size_pop] at h; omega
  rw [Array.getElem_pop, Array.getElem_pop]
  exact hh i hiA hi

/-- `heappop` preserves the heap invariant -/
theorem heappop_isHeap {lt : α → α → Bool} (ho : StrictWeak lt) (a : Array α) (x : α) (r : Array α)
    (hh : IsHeap lt a) (h : heappop lt a = some (x, r)) : IsHeap lt r := by
  obtain ⟨h0, _⟩ := heappop_fst lt a x r h
  rw [heappop_eq lt a h0] at h
  simp only [Option.some.injEq, Prod.mk.injEq] at h
  rw [← h.2]
  split
  · next h1 =>
    rw [isHeap_iff_heapFrom]
    exact siftup_heapFrom ho _ 0 (hh.pop.set_zero _ h1)
  · exact hh.pop

/-- `heapreplace` preserves the heap invariant -/
theorem heapreplace_isHeap {lt : α → α → Bool} (ho : StrictWeak lt) (a : Array α) (x y : α) (r : Array α)
    (hh : IsHeap lt a) (h : heapreplace lt a x = some (y, r)) : IsHeap lt r := by
  obtain ⟨h0, _, hr⟩ := heapreplace_fst lt a x y r h
  rw [hr, isHeap_iff_heapFrom]
  exact siftup_heapFrom ho _ 0 (hh.set_zero x h0)

/-! ## `heap[0]` is a minimum -/

/-- in a heap no entry is smaller than `heap[0]` -/
theorem IsHeap.root_min {lt : α → α → Bool} (ho : StrictWeak lt) {a : Array α} (hh : IsHeap lt a) :
    ∀ i (h : i < a.size), lt a[i] (a[0]'(by omega)) = false := by
  intro i
  induction i using Nat.strongRecOn with
  | _ i ih =>
    intro h
    by_cases hi : i = 0
    · subst hi; exact ho.irrefl _
    · exact ho.ntrans _ _ _ (hh i h (by omega)) (ih ((i - 1) / 2) (by omega) (by omega))

/-- in a heap no entry is smaller than `heap[0]` (membership form) -/
theorem IsHeap.root_min_mem {lt : α → α → Bool} (ho : StrictWeak lt) {a : Array α} (hh : IsHeap lt a)
    (h0 : 0 < a.size) : ∀ x ∈ a.toList, lt x a[0] = false := by
  intro x hx
  obtain ⟨i, hi, rfl⟩ := List.getElem_of_mem hx
  exact hh.root_min ho i (by simpa using hi)

/-- for a strict total order, `heap[0]` is the only entry that no entry is smaller than -/
theorem IsHeap.root_unique {lt : α → α → Bool} (ho : StrictTotal lt) {a : Array α} (hh : IsHeap lt a)
    (h0 : 0 < a.size) (m : α) (hm : m ∈ a.toList) (hmin : ∀ x ∈ a.toList, lt x m = false) : m = a[0] := by
  apply Classical.byContradiction
  intro hne
  rcases ho.total m a[0] hne with h | h
  · rw [hh.root_min_mem ho.toWeak h0 m hm] at h; cases h
  · rw [hmin a[0] (by simp)] at h; cases h

/-! ## Naturality: the array layout depends on the entries only through the comparisons

If the entries are mapped by `f` and `lt` on the images is what `lt'` is on the originals, every algorithm commutes
with `Array.map f`.  (So comparing layouts on integers — the differential test of the driver — covers every entry
type ranked by integers, and an order that is well behaved only on the entries present can be replaced by its
restriction to a subtype.) -/

theorem siftdownLoop_map (lt : α → α → Bool) (f : β → α) (x : β) (s : Nat) (b : Array β) (pos : Nat) (h : pos < b.size) :
    siftdownLoop lt (f x) s (b.map f) pos (by simpa using h)
      = (siftdownLoop (fun u v => lt (f u) (f v)) x s b pos h).map f := by
  fun_induction siftdownLoop (fun u v => lt (f u) (f v)) x s b pos h with
  | case1 b pos h hs hlt ih =>
    rw [siftdownLoop, if_pos hs]
    simp only [Array.getElem_map, hlt, if_true]
    rw [← ih]; congr 1; rw [Array.map_set]
  | case2 b pos h hs hlt =>
    rw [siftdownLoop, if_pos hs]
    simp only [Array.getElem_map, hlt]
    rw [Array.map_set]; rfl
  | case3 b pos h hs =>
    rw [siftdownLoop, if_neg hs, Array.map_set]

theorem siftdown_map (lt : α → α → Bool) (f : β → α) (b : Array β) (s pos : Nat) :
    siftdown lt (b.map f) s pos = (siftdown (fun u v => lt (f u) (f v)) b s pos).map f := by
  unfold siftdown
  by_cases h : pos < b.size
  · rw [dif_pos h, dif_pos (by simpa using h), ← siftdownLoop_map]
    congr 1; rw [Array.getElem_map]
  · rw [dif_neg h, dif_neg (by simpa using h)]

theorem siftupLoop_map (lt : α → α → Bool) (f : β → α) (x : β) (s : Nat) (b : Array β) (pos : Nat) (h : pos < b.size) :
    siftupLoop lt (f x) s (b.map f) pos (by simpa using h)
      = (siftupLoop (fun u v => lt (f u) (f v)) x s b pos h).map f := by
  fun_induction siftupLoop (fun u v => lt (f u) (f v)) x s b pos h with
  | case1 b pos h hc hr hlt ih =>
    rw [siftupLoop, dif_pos (by simpa using hc), dif_pos (by simpa using hr)]
    simp only [Array.getElem_map, hlt, if_true]
    rw [← ih]; congr 1; rw [Array.map_set]
  | case2 b pos h hc hr hlt ih =>
    rw [siftupLoop, dif_pos (by simpa using hc), dif_pos (by simpa using hr)]
    simp only [Array.getElem_map, hlt, Bool.false_eq_true, if_false]
    rw [← ih]; congr 1; rw [Array.map_set]
  | case3 b pos h hc hr ih =>
    rw [siftupLoop, dif_pos (by simpa using hc), dif_neg (by simpa using hr)]
    simp only [Array.getElem_map]
    rw [← ih]; congr 1; rw [Array.map_set]
  | case4 b pos h hc =>
    rw [siftupLoop, dif_neg (by simpa using hc), ← siftdown_map, Array.map_set]

theorem siftup_map (lt : α → α → Bool) (f : β → α) (b : Array β) (pos : Nat) :
    siftup lt (b.map f) pos = (siftup (fun u v => lt (f u) (f v)) b pos).map f := by
  unfold siftup
  by_cases h : pos < b.size
  · rw [dif_pos h, dif_pos (by simpa using h), ← siftupLoop_map]
    congr 1; rw [Array.getElem_map]
  · rw [dif_neg h, dif_neg (by simpa using h)]

theorem heappush_map (lt : α → α → Bool) (f : β → α) (b : Array β) (x : β) :
    heappush lt (b.map f) (f x) = (heappush (fun u v => lt (f u) (f v)) b x).map f := by
  unfold heappush
  rw [← siftdown_map, Array.map_push, Array.size_map]

theorem heapifyLoop_map (lt : α → α → Bool) (f : β → α) (b : Array β) (k : Nat) :
    heapifyLoop lt (b.map f) k = (heapifyLoop (fun u v => lt (f u) (f v)) b k).map f := by
  induction k generalizing b with
  | zero => rfl
  | succ k ih => rw [heapifyLoop, heapifyLoop, siftup_map, ih]

theorem heapify_map (lt : α → α → Bool) (f : β → α) (b : Array β) :
    heapify lt (b.map f) = (heapify (fun u v => lt (f u) (f v)) b).map f := by
  unfold heapify; rw [heapifyLoop_map, Array.size_map]

theorem heapreplace_map (lt : α → α → Bool) (f : β → α) (b : Array β) (x : β) :
    heapreplace lt (b.map f) (f x)
      = (heapreplace (fun u v => lt (f u) (f v)) b x).map (fun p => (f p.1, p.2.map f)) := by
  by_cases h0 : 0 < b.size
  · rw [heapreplace_eq _ _ _ h0, heapreplace_eq _ _ _ (by simpa using h0)]
    simp only [Option.map_some, Array.getElem_map, ← siftup_map, Array.map_set]
  · rw [(heapreplace_none _ b x).mpr (by omega), (heapreplace_none _ _ _).mpr (by rw [Array.size_map]; omega)]; rfl

theorem heappop_map (lt : α → α → Bool) (f : β → α) (b : Array β) :
    heappop lt (b.map f) = (heappop (fun u v => lt (f u) (f v)) b).map (fun p => (f p.1, p.2.map f)) := by
  by_cases h0 : 0 < b.size
  · rw [heappop_eq _ _ h0, heappop_eq _ _ (by simpa using h0)]
    simp only [Option.map_some, Array.getElem_map, Option.some.injEq, Prod.mk.injEq, true_and]
    by_cases h1 : 0 < b.pop.size
    · rw [dif_pos h1, dif_pos (by simpa using h1), ← siftup_map]
      congr 1
      simp only [Array.map_set, Array.map_pop, Array.size_map]
    · rw [dif_neg h1, dif_neg (by simpa using h1), Array.map_pop]
  · rw [(heappop_none _ b).mpr (by omega), (heappop_none _ _).mpr (by rw [Array.size_map]; omega)]; rfl

theorem isHeap_map (lt : α → α → Bool) (f : β → α) (b : Array β) :
    IsHeap lt (b.map f) ↔ IsHeap (fun u v => lt (f u) (f v)) b := by
  constructor
  · intro h i hi h0
    have := h i (by simpa using hi) h0
    simpa only [Array.getElem_map] using this
  · intro h i hi h0
    have := h i (by simpa using hi) h0
    simpa only [Array.getElem_map] using this

/-! ## The order hypotheses relative to the entries present -/

/-- an array of entries satisfying `S` is the image of an array over the subtype -/
theorem exists_sub {S : α → Prop} (a : Array α) (hS : ∀ x ∈ a.toList, S x) :
    ∃ b : Array {x // S x}, a = b.map Subtype.val :=
  ⟨a.attachWith S (fun x hx => hS x (Array.mem_toList_iff.mpr hx)), (Array.unattach_attachWith).symm⟩

/-- `heapify` establishes the heap invariant (order hypotheses on the entries present) -/
theorem heapify_isHeap_on {lt : α → α → Bool} {S : α → Prop} (ho : StrictWeakOn lt S) (a : Array α)
    (hS : ∀ x ∈ a.toList, S x) : IsHeap lt (heapify lt a) := by
  obtain ⟨b, rfl⟩ := exists_sub a hS
  rw [heapify_map, isHeap_map]
  exact heapify_isHeap ho.sub b

/-- `heappush` preserves the heap invariant (order hypotheses on the entries present) -/
theorem heappush_isHeap_on {lt : α → α → Bool} {S : α → Prop} (ho : StrictWeakOn lt S) (a : Array α) (x : α)
    (hS : ∀ x ∈ a.toList, S x) (hx : S x) (hh : IsHeap lt a) : IsHeap lt (heappush lt a x) := by
  obtain ⟨b, rfl⟩ := exists_sub a hS
  have := heappush_map lt Subtype.val b ⟨x, hx⟩
  simp only at this
  rw [this, isHeap_map]
  exact heappush_isHeap ho.sub b ⟨x, hx⟩ ((isHeap_map lt _ b).mp hh)

/-- `heappop` preserves the heap invariant (order hypotheses on the entries present) -/
theorem heappop_isHeap_on {lt : α → α → Bool} {S : α → Prop} (ho : StrictWeakOn lt S) (a : Array α) (x : α)
    (r : Array α) (hS : ∀ x ∈ a.toList, S x) (hh : IsHeap lt a) (h : heappop lt a = some (x, r)) : IsHeap lt r := by
  obtain ⟨b, rfl⟩ := exists_sub a hS
  rw [heappop_map] at h
  cases hp : heappop (fun (u v : {x // S x}) => lt u.1 v.1) b with
  | none => rw [hp] at h; cases h
  | some p =>
    rw [hp] at h
    simp only [Option.map_some, Option.some.injEq, Prod.mk.injEq] at h
    rw [← h.2, isHeap_map]
    exact heappop_isHeap ho.sub b p.1 p.2 ((isHeap_map lt _ b).mp hh) hp

/-- `heapreplace` preserves the heap invariant (order hypotheses on the entries present and the new one) -/
theorem heapreplace_isHeap_on {lt : α → α → Bool} {S : α → Prop} (ho : StrictWeakOn lt S) (a : Array α) (x y : α)
    (r : Array α) (hS : ∀ x ∈ a.toList, S x) (hx : S x) (hh : IsHeap lt a)
    (h : heapreplace lt a x = some (y, r)) : IsHeap lt r := by
  obtain ⟨b, rfl⟩ := exists_sub a hS
  have hm := heapreplace_map lt Subtype.val b ⟨x, hx⟩
  simp only at hm
  rw [hm] at h
  cases hp : heapreplace (fun (u v : {x // S x}) => lt u.1 v.1) b ⟨x, hx⟩ with
  | none => rw [hp] at h; cases h
  | some p =>
    rw [hp] at h
    simp only [Option.map_some, Option.some.injEq, Prod.mk.injEq] at h
    rw [← h.2, isHeap_map]
    exact heapreplace_isHeap ho.sub b ⟨x, hx⟩ p.1 p.2 ((isHeap_map lt _ b).mp hh) hp

/-- in a heap no entry is smaller than `heap[0]` (order hypotheses on the entries present) -/
theorem IsHeap.root_min_on {lt : α → α → Bool} {S : α → Prop} (ho : StrictWeakOn lt S) {a : Array α}
    (hS : ∀ x ∈ a.toList, S x) (hh : IsHeap lt a) (h0 : 0 < a.size) : ∀ x ∈ a.toList, lt x a[0] = false := by
  obtain ⟨b, rfl⟩ := exists_sub a hS
  intro x hx
  have hb0 : 0 < b.size := by simpa using h0
  have := ((isHeap_map lt _ b).mp hh).root_min_mem ho.sub hb0
  simp only [Array.toList_map, List.mem_map] at hx
  obtain ⟨u, hu, rfl⟩ := hx
  simpa only [Array.getElem_map] using this u hu

/-- for a strict total order on the entries present, `heap[0]` is the only entry that no entry is smaller than -/
theorem IsHeap.root_unique_on {lt : α → α → Bool} {S : α → Prop} (ho : StrictTotalOn lt S) {a : Array α}
    (hS : ∀ x ∈ a.toList, S x) (hh : IsHeap lt a) (h0 : 0 < a.size) (m : α) (hm : m ∈ a.toList)
    (hmin : ∀ x ∈ a.toList, lt x m = false) : m = a[0] := by
  apply Classical.byContradiction
  intro hne
  have h0m : a[0] ∈ a.toList := by simp
  rcases ho.total m a[0] (hS m hm) (hS _ h0m) hne with h | h
  · rw [hh.root_min_on ho.toWeakOn hS h0 m hm] at h; cases h
  · rw [hmin a[0] h0m] at h; cases h
end AsyncVerif.Heap
