import AsyncVerif.Proofs.CachedProperty
/-!
# cached_property — `sched` always reaches a suspension point or the end of the task

The micro-step budget is never exhausted from a reachable state (`step_not_stuck`), and between
operations no task sits at a transient program counter (`Inv'`).
-/
namespace AsyncVerif.CachedProperty

/-! ## the micro-step budget of `sched` is never exhausted -/

/-- upper bound on the number of further micro-steps before task t suspends or finishes -/
def rank (s : State) (t : Nat) : Nat :=
  match s.pc t with
  | .start _ => 5
  | .lockwait _ => 5
  | .entered p => if (instanceValue s p).2 = .ph p then 3 else 4
  | .holding p => if (instanceValue s p).2 = .ph p then 2 else 4
  | .getter _ _ _ => 1
  | _ => 0

theorem instanceValue_of_slot (s : State) (p : Nat) (x : Stored) (h : s.slot (s.phInst p) = some x) :
    instanceValue s p = (s, x) := by
  simp [instanceValue, access, h]

theorem rank_le (s : State) (t : Nat) : rank s t ≤ 5 := by
  unfold rank; split <;> (try split) <;> omega

theorem rank_entered (s : State) (t p : Nat) (h : s.pc t = .entered p) :
    rank s t = if (instanceValue s p).2 = .ph p then 3 else 4 := by simp [rank, h]
theorem rank_holding (s : State) (t p : Nat) (h : s.pc t = .holding p) :
    rank s t = if (instanceValue s p).2 = .ph p then 2 else 4 := by simp [rank, h]
theorem rank_entered_le (s : State) (t p : Nat) (h : s.pc t = .entered p) : rank s t ≤ 4 := by
  rw [rank_entered s t p h]; split <;> omega
theorem rank_holding_le (s : State) (t p : Nat) (h : s.pc t = .holding p) : rank s t ≤ 4 := by
  rw [rank_holding s t p h]; split <;> omega
theorem rank_entered_self (s : State) (t p : Nat) (h : s.pc t = .entered p)
    (hs : s.slot (s.phInst p) = some (.ph p)) : rank s t = 3 := by
  rw [rank_entered s t p h, instanceValue_of_slot s p _ hs]; simp
theorem rank_holding_self (s : State) (t p : Nat) (h : s.pc t = .holding p)
    (hs : s.slot (s.phInst p) = some (.ph p)) : rank s t = 2 := by
  rw [rank_holding s t p h, instanceValue_of_slot s p _ hs]; simp
theorem rank_getter (s : State) (t p r k : Nat) (h : s.pc t = .getter p r k) : rank s t = 1 := by
  simp [rank, h]

/-- `return await stored` from a state whose slot holds `stored`: finished, or at the first line of
    the stored placeholder's `_await_impl` with the slot being that placeholder -/
theorem awaitStored_rank (s : State) (t p : Nat) (x : Stored)
    (h : ∀ i p, s.slot i = some (.ph p) → s.phInst p = i)
    (hs : s.slot (s.phInst p) = some x) (s' : State) (hm : awaitStored s t x = (s', none)) :
    rank s' t = 3 := by
  cases x with
  | val v => simp [awaitStored] at hm
  | ph p' =>
    simp only [awaitStored, Prod.mk.injEq, and_true] at hm
    subst hm
    have := h _ _ hs
    exact rank_entered_self _ t p' (by simp [setPc]) (by simp only [setPc]; rw [this]; exact hs)

theorem micro_rank (cfg : Cfg) (s : State) (t : Nat) (h : Inv cfg s) (s' : State)
    (hm : micro cfg s t = (s', none)) : rank s' t < rank s t := by
  unfold micro at hm
  split at hm
  · simp at hm
  · simp at hm
  · simp at hm
  · rename_i p hpc
    simp only [Prod.mk.injEq, and_true] at hm
    subst hm
    have h1 : rank s t = 5 := by simp [rank, hpc]
    have h2 := rank_entered_le (setPc s t (.entered p)) t p (by simp [setPc])
    omega
  · rename_i p hpc
    have hr := rank_entered s t p hpc
    obtain ⟨hi, hpc1, hsl⟩ := instanceValue_spec cfg s p h (h.pc_entered t p hpc).1
    generalize instanceValue s p = r at hi hpc1 hsl hm hr
    obtain ⟨s1, stored⟩ := r
    simp only at hi hpc1 hsl hm hr
    split at hm
    · rename_i heq
      subst heq
      simp only [if_true] at hr
      have key : ∀ s2 : State, s2.slot = s1.slot → s2.phInst = s1.phInst → s2.pc t = .holding p → rank s2 t = 2 :=
        fun s2 e1 e2 e3 => rank_holding_self s2 t p e3 (by rw [e1, e2]; exact hsl)
      split at hm
      · split at hm
        · simp at hm
        · simp only [Prod.mk.injEq, and_true] at hm
          subst hm
          have := key (setPc (setLock s1 p (some t)) t (.holding p)) rfl rfl (by simp [setPc])
          omega
      · simp only [Prod.mk.injEq, and_true] at hm
        subst hm
        have := key (setPc s1 t (.holding p)) rfl rfl (by simp [setPc])
        omega
    · rename_i hne
      simp only [hne, if_false] at hr
      rw [awaitStored_rank s1 t p stored (fun i p hp => (hi.slot_ph i p hp).2) hsl s' hm, hr]; omega
  · rename_i p hpc
    split at hm
    · simp at hm
    · simp only [Prod.mk.injEq, and_true] at hm
      subst hm
      have h1 : rank s t = 5 := by simp [rank, hpc]
      have h2 := rank_holding_le (setPc (setLock s p (some t)) t (.holding p)) t p (by simp [setPc])
      omega
  · rename_i p hpc
    have hr := rank_holding s t p hpc
    obtain ⟨hi, hpc1, hsl⟩ := instanceValue_spec cfg s p h (h.pc_holding t p hpc).1
    generalize instanceValue s p = r at hi hpc1 hsl hm hr
    obtain ⟨s1, stored⟩ := r
    simp only at hi hpc1 hsl hm hr
    split at hm
    · rename_i heq
      subst heq
      simp only [if_true] at hr
      simp only [Prod.mk.injEq, and_true] at hm
      subst hm
      rw [rank_getter _ t p s1.nRuns (cfg.susp s1.nRuns) (by simp [setPc]), hr]; omega
    · rename_i hne
      simp only [hne, if_false] at hr
      have e1 : (release cfg s1 p).slot = s1.slot := by unfold release; split <;> rfl
      have e2 : (release cfg s1 p).phInst = s1.phInst := by unfold release; split <;> rfl
      rw [awaitStored_rank (release cfg s1 p) t p stored
        (by rw [e1, e2]; exact fun i p hp => (hi.slot_ph i p hp).2) (by rw [e1, e2]; exact hsl) s' hm, hr]
      omega
  · rename_i p r hpc
    unfold complete at hm
    split at hm <;> simp at hm
  · simp at hm

theorem micro_not_stuck (cfg : Cfg) (s : State) (t : Nat) : (micro cfg s t).2 ≠ some .stuck := by
  unfold micro
  split <;> try simp
  · generalize instanceValue s _ = r; obtain ⟨s1, x⟩ := r
    simp only
    split
    · split
      · split <;> simp
      · simp
    · cases x <;> simp [awaitStored]
  · split <;> simp
  · generalize instanceValue s _ = r; obtain ⟨s1, x⟩ := r
    simp only
    split
    · simp
    · cases x <;> simp [awaitStored]
  · unfold complete; split <;> simp

theorem schedN_not_stuck (cfg : Cfg) (n : Nat) : ∀ (s : State) (t : Nat), Inv cfg s → rank s t < n →
    (schedN cfg n s t).2 ≠ .stuck := by
  induction n with
  | zero => intro s t _ hr; omega
  | succ n ih =>
    intro s t h hr
    unfold schedN
    have hm := micro_inv cfg s t h
    have hns := micro_not_stuck cfg s t
    have hrk := micro_rank cfg s t h
    generalize micro cfg s t = r at hm hns hrk
    obtain ⟨s1, o⟩ := r
    cases o with
    | some o => simp only at hns ⊢; intro e; exact hns (by rw [e])
    | none => exact ih s1 t hm (by have := hrk s1 rfl; omega)

theorem step_not_stuck (cfg : Cfg) (s : State) (op : Op) (h : Inv cfg s) : (step cfg s op).2 ≠ .stuck := by
  cases op with
  | spawn i => simp [step]
  | respawn t => simp only [step]; split <;> simp
  | sched t => exact schedN_not_stuck cfg _ s t h (by have := rank_le s t; unfold schedFuel; omega)
  | cancel t => simp only [step, cancel]; split <;> simp
  | del i => simp only [step]; split <;> simp

/-- program counters that exist only inside one `sched` -/
def Pc.transient : Pc → Bool
  | .entered _ => true
  | .holding _ => true
  | _ => false

theorem release_pc (cfg : Cfg) (s : State) (p : Nat) : (release cfg s p).pc = s.pc := by
  unfold release; split <;> rfl

theorem awaitStored_frame (s : State) (t t' : Nat) (x : Stored) (hne : t' ≠ t) :
    (awaitStored s t x).1.pc t' = s.pc t' := by
  cases x <;> simp [awaitStored, setPc, hne]

theorem complete_frame (cfg : Cfg) (s : State) (t p r t' : Nat) (hne : t' ≠ t) :
    (complete cfg s t p r).1.pc t' = s.pc t' := by
  unfold complete
  split
  · simp only [setPc, hne, if_false, setRunSt]; rw [release_pc]; rfl
  · simp only [setPc, hne, if_false, setRunSt]; rw [release_pc]

theorem micro_frame (cfg : Cfg) (s : State) (t t' : Nat) (hne : t' ≠ t) : (micro cfg s t).1.pc t' = s.pc t' := by
  unfold micro
  split
  · rfl
  · rfl
  · simp [setPc, hne]
  · simp [setPc, hne]
  · have e := access_pc s (s.phInst ‹Nat›)
    unfold instanceValue
    generalize access s _ = r at e; obtain ⟨s1, x⟩ := r
    simp only at e ⊢
    split
    · split
      · split <;> simp [setPc, setLock, hne, e]
      · simp [setPc, hne, e]
    · rw [awaitStored_frame _ _ _ _ hne, e]
  · split <;> simp [setPc, setLock, hne]
  · have e := access_pc s (s.phInst ‹Nat›)
    unfold instanceValue
    generalize access s _ = r at e; obtain ⟨s1, x⟩ := r
    simp only at e ⊢
    split
    · simp [setPc, hne, e]
    · rw [awaitStored_frame _ _ _ _ hne, release_pc, e]
  · exact complete_frame cfg s t _ _ t' hne
  · simp [setPc, hne]

theorem micro_some_settled (cfg : Cfg) (s : State) (t : Nat) (s' : State) (o : Out)
    (hq : ∀ t', t' ≠ t → (s.pc t').transient = false)
    (hm : micro cfg s t = (s', some o)) : ∀ t', (s'.pc t').transient = false := by
  intro t'
  by_cases hne : t' = t
  · subst hne
    unfold micro at hm
    split at hm
    · simp only [Prod.mk.injEq] at hm; obtain ⟨e, _⟩ := hm; subst e; simp [*, Pc.transient]
    · simp only [Prod.mk.injEq] at hm; obtain ⟨e, _⟩ := hm; subst e; simp [*, Pc.transient]
    · simp only [Prod.mk.injEq] at hm; rw [← hm.1]; simp [setPc, Pc.transient]
    · simp at hm
    · generalize instanceValue s _ = r at hm; obtain ⟨s1, x⟩ := r
      simp only at hm
      split at hm
      · split at hm
        · split at hm
          · simp only [Prod.mk.injEq] at hm; rw [← hm.1]; simp [setPc, Pc.transient]
          · simp at hm
        · simp at hm
      · cases x <;> simp only [awaitStored, Prod.mk.injEq] at hm
        · simp at hm
        · rw [← hm.1]; simp [setPc, Pc.transient]
    · split at hm
      · simp only [Prod.mk.injEq] at hm; obtain ⟨e, _⟩ := hm; subst e; simp [*, Pc.transient]
      · simp at hm
    · generalize instanceValue s _ = r at hm; obtain ⟨s1, x⟩ := r
      simp only at hm
      split at hm
      · simp at hm
      · cases x <;> simp only [awaitStored, Prod.mk.injEq] at hm
        · simp at hm
        · rw [← hm.1]; simp [setPc, Pc.transient]
    · unfold complete at hm
      split at hm <;> (simp only [Prod.mk.injEq] at hm; rw [← hm.1]; simp [setPc, Pc.transient])
    · simp only [Prod.mk.injEq] at hm; rw [← hm.1]; simp [setPc, Pc.transient]
  · have := micro_frame cfg s t t' hne
    rw [hm] at this
    rw [this]; exact hq t' hne

theorem schedN_settled (cfg : Cfg) (n : Nat) : ∀ (s : State) (t : Nat),
    (∀ t', t' ≠ t → (s.pc t').transient = false) → (schedN cfg n s t).2 ≠ .stuck →
    ∀ t', ((schedN cfg n s t).1.pc t').transient = false := by
  induction n with
  | zero => intro s t _ hns; simp [schedN] at hns
  | succ n ih =>
    intro s t hq hns
    unfold schedN at hns ⊢
    have hfr := micro_frame cfg s t
    have hst := micro_some_settled cfg s t
    generalize micro cfg s t = r at hns hfr hst ⊢
    obtain ⟨s1, o⟩ := r
    cases o with
    | some o => exact hst s1 o hq rfl
    | none =>
      simp only at hns hfr ⊢
      exact ih s1 t (fun t' hne => by rw [hfr t' hne]; exact hq t' hne) hns

/-- reachable-state invariant plus: no task is at a transient program counter between operations -/
structure Inv' (cfg : Cfg) (s : State) : Prop extends Inv cfg s where
  settled : ∀ t, (s.pc t).transient = false

theorem step_inv' (cfg : Cfg) (s : State) (op : Op) (h : Inv' cfg s) : Inv' cfg (step cfg s op).1 := by
  refine ⟨step_inv cfg s op h.toInv, ?_⟩
  cases op with
  | spawn i =>
    simp only [step]
    have e := access_pc s i
    generalize access s i = r at e; obtain ⟨s1, x⟩ := r
    simp only at e ⊢
    intro t
    simp only [addTask]
    split
    · simp [Pc.transient]
    · rw [e]; exact h.settled t
  | respawn t =>
    simp only [step]
    split
    · intro t'
      simp only [addTask]
      split
      · simp [Pc.transient]
      · exact h.settled t'
    · exact h.settled
  | sched t =>
    exact schedN_settled cfg _ s t (fun t' _ => h.settled t') (step_not_stuck cfg s (.sched t) h.toInv)
  | cancel t =>
    simp only [step, cancel]
    intro t'
    split
    · simp only [setPc]; split
      · simp [Pc.transient]
      · exact h.settled t'
    · simp only [setPc]; split
      · simp [Pc.transient]
      · exact h.settled t'
    · simp only [setPc]; split
      · simp [Pc.transient]
      · simp only [setRunSt]; rw [release_pc]; exact h.settled t'
    · exact h.settled t'
  | del i =>
    simp only [step]
    split
    · exact h.settled
    · exact h.settled

theorem init_inv' (cfg : Cfg) : Inv' cfg State.init :=
  ⟨init_inv cfg, fun _ => by simp [State.init, Pc.transient]⟩

theorem exec_inv' (cfg : Cfg) (ops : List Op) : ∀ s, Inv' cfg s → Inv' cfg (exec cfg s ops) := by
  induction ops with
  | nil => intro s h; exact h
  | cons op ops ih => intro s h; exact ih _ (step_inv' cfg s op h)

end AsyncVerif.CachedProperty
