import AsyncVerif.Proofs.Release
import AsyncVerif.Impl.Aggregations
/-!
# Release when the scope is not the outermost construct (`cycle`, `sorted`)

`SrcsFrame m`: `m` never touches a source (it only yields to the consumer, or computes).  A scoped
first phase followed by a `SrcsFrame` continuation leaves the source exactly as the scope left it.
-/
namespace AsyncVerif

def SrcsFrame {α : Type} (m : M α) : Prop := ∀ w, (m w).2.srcs = w.srcs

theorem srcsFrame_pure {α : Type} (a : α) : SrcsFrame (pure a : M α) := fun _ => rfl
theorem srcsFrame_raise {α : Type} (e : Exc) : SrcsFrame (raise e : M α) := fun _ => rfl

theorem srcsFrame_liftExc {α : Type} (r : Except Exc α) : SrcsFrame (liftExc r) := by
  intro w; unfold liftExc; cases r <;> rfl

theorem srcsFrame_yieldV (v : Val) : SrcsFrame (yieldV v) := by
  intro w
  unfold yieldV
  cases hc : w.cons with
  | done => simp [World.pushVis]
  | run n fin =>
    cases n with
    | succ n => simp [World.pushVis]
    | zero => cases fin <;> simp [World.pushVis]

theorem srcsFrame_bind {α β : Type} {m : M α} {f : α → M β} (hm : SrcsFrame m) (hf : ∀ a, SrcsFrame (f a)) :
    SrcsFrame (m >>= f) := by
  intro w
  rw [bind_apply]
  have h1 := hm w
  rcases hmw : m w with ⟨r, w1⟩
  rw [hmw] at h1
  cases r with
  | ok a => simp only; rw [hf a w1]; exact h1
  | error e => exact h1

theorem srcsFrame_replay (buffer : List Val) (fuel : Nat) : ∀ l, SrcsFrame (Std.replay buffer l fuel) := by
  induction fuel with
  | zero => intro l; unfold Std.replay; exact srcsFrame_raise _
  | succ fuel ih =>
    intro l
    cases l with
    | nil =>
      unfold Std.replay
      split
      · exact srcsFrame_pure _
      · exact ih _
    | cons x rest =>
      unfold Std.replay
      exact srcsFrame_bind (srcsFrame_yieldV x) (fun _ => ih rest)

/-- a scoped phase followed by code that never touches a source: the source ends as the scope left it -/
theorem scoped_then_frame_released {α β : Type} (s : Nat) (body : M α) (k : α → M β) (hk : ∀ a, SrcsFrame (k a))
    (w : World) (h : ((scopedIter s body >>= k) w).1 ≠ .error .outOfFuel) :
    Released (((scopedIter s body >>= k) w).2.srcs s) := by
  rw [bind_apply] at h ⊢
  have hrel := scopedIter_released s body w
  rcases hsc : scopedIter s body w with ⟨r, w1⟩
  rw [hsc] at h hrel
  cases r with
  | ok a =>
    simp only at h ⊢
    rw [hk a w1]
    exact hrel (by simp)
  | error e =>
    simp only at h ⊢
    exact hrel (by simpa using h)

end AsyncVerif
