import AsyncVerif.Proofs.LruConc
import AsyncVerif.Proofs.LruOrder
/-! Helper definitions and lemmas for C11 (order): what each step of the overlapping machine does to
the ORDER of a bounded cache, the log of "touches", and the sequential history of an interleaving. -/
namespace AsyncVerif.Lru

/-- what one step of the overlapping machine does to the order of the cache -/
inductive Touch
  | hit (p : Pattern)              -- a `begin` that finds `p` in the cache: `move_to_end`
  | ins (p : Pattern) (v : Nat)    -- a successful `finish` whose key is absent: inserted (evicting if full)
  | clear
  | discard (p : Pattern)
  | none                           -- a `begin` that misses, a late duplicate, a failure, a cancellation, …
  deriving DecidableEq, Repr

/-- classification of the step `op` taken in state `s` (`t` = `typed`) -/
def classify (t : Bool) (s : CSt) : COp → Touch
  | .begin c p =>
    if (lookupCall c s.inflight).isSome then .none
    else if (find (Impl.eqv t) p s.core.store).isSome then .hit p else .none
  | .finish c r =>
    match lookupCall c s.inflight, r with
    | some p, .ok v => if (find (Impl.eqv t) p s.core.store).isSome then .none else .ins p v
    | _, _ => .none
  | .clear => .clear
  | .discard p => .discard p
  | .info => .none

/-- the log of touched keys since the last `cache_clear`, oldest first -/
def logStep (t : Bool) (s : CSt) (log : List NKey) (op : COp) : List NKey :=
  match classify t s op with
  | .hit p => log ++ [keyOf t p]
  | .ins p _ => log ++ [keyOf t p]
  | .clear => []
  | _ => log

/-- the machine together with its touch log -/
def tstep (cfg : Cfg) (x : CSt × List NKey) (op : COp) : CSt × List NKey :=
  ((cstep cfg x.1 op).1, logStep cfg.typed x.1 x.2 op)

def trun (cfg : Cfg) : CSt × List NKey → List COp → CSt × List NKey
  | x, [] => x
  | x, op :: ops => trun cfg (tstep cfg x op) ops

/-- the sequential call(s) standing for one step of the overlapping machine: a hit is a call at its
    `begin` (the wrapped function's result is irrelevant, the call is answered from the cache), an
    inserting miss is a call at its `finish`; everything else — the `begin` of a miss, a late
    duplicate, a failed or cancelled call — is dropped -/
def seqOps (t : Bool) (s : CSt) (op : COp) : List Op :=
  match classify t s op with
  | .hit p => [.call p (.ok 0)]
  | .ins p v => [.call p (.ok v)]
  | .clear => [.clear]
  | .discard p => [.discard p]
  | .none => []

def seqHistory (cfg : Cfg) : CSt → List COp → List Op
  | _, [] => []
  | s, op :: ops => seqOps cfg.typed s op ++ seqHistory cfg (cstep cfg s op).1 ops

/-! ## the log does not influence the machine -/

theorem trun_fst (cfg : Cfg) : ∀ (ops : List COp) (x : CSt × List NKey), (trun cfg x ops).1 = crun cfg x.1 ops := by
  intro ops
  induction ops with
  | nil => intro x; rfl
  | cons op rest ih => intro x; simp only [trun, crun]; rw [ih]; rfl

theorem trun_append (cfg : Cfg) : ∀ (a b : List COp) (x : CSt × List NKey),
    trun cfg x (a ++ b) = trun cfg (trun cfg x a) b := by
  intro a
  induction a with
  | nil => intro b x; rfl
  | cons op rest ih => intro b x; simp only [List.cons_append, trun]; exact ih b _

/-! ## the store after one step -/

theorem cstep_store (n : Nat) (t : Bool) (s : CSt) (op : COp) :
    (cstep ⟨.bounded n, t⟩ s op).1.core.store =
      match classify t s op with
      | .hit p => (Impl.call ⟨.bounded n, t⟩ s.core p (.ok 0)).1.store
      | .ins p v => (Impl.call ⟨.bounded n, t⟩ s.core p (.ok v)).1.store
      | .clear => []
      | .discard p => erase (Impl.eqv t) p s.core.store
      | .none => s.core.store := by
  cases op with
  | «begin» c p =>
    simp only [cstep, classify]
    by_cases hl : (lookupCall c s.inflight).isSome = true
    · simp [hl]
    · simp only [hl, Bool.false_eq_true, if_false]
      cases hf : find (Impl.eqv t) p s.core.store with
      | none => simp [Impl.begin, hf]
      | some e => simp [Impl.begin, Impl.call, hf]
  | finish c r =>
    simp only [cstep, classify]
    cases hl : lookupCall c s.inflight with
    | none => simp
    | some p =>
      cases r with
      | ok v =>
        cases hf : find (Impl.eqv t) p s.core.store with
        | none => simp [Impl.resume, Impl.call, Impl.begin, hf]; split <;> rfl
        | some e => simp [Impl.resume, hf]
      | fail e => simp
      | cancel => simp
  | clear => simp [cstep, classify, Impl.clear]
  | discard p => simp [cstep, classify, Impl.discard]
  | info => simp [cstep, classify]

/-! ## recency lists -/

theorem foldl_touch_nodup : ∀ (ks acc : List NKey), acc.Nodup → (ks.foldl touch acc).Nodup := by
  intro ks
  induction ks with
  | nil => intro acc h; exact h
  | cons k r ih => intro acc h; exact ih _ (touch_nodup h k)

theorem recency_nodup (log : List NKey) : (recency log).Nodup :=
  foldl_touch_nodup log [] List.nodup_nil

theorem recency_snoc (log : List NKey) (k : NKey) : recency (log ++ [k]) = touch (recency log) k := by
  simp [recency, List.foldl_append]

/-- the keys of the store after a successful sequential call -/
theorem call_ok_keys (n : Nat) (t : Bool) (s : St) (p : Pattern) (v : Nat) :
    keys t (Impl.call ⟨.bounded n, t⟩ s p (.ok v)).1.store =
      if keyOf t p ∈ keys t s.store then (keys t s.store).erase (keyOf t p) ++ [keyOf t p]
      else (if s.store.length < n then keys t s.store else (keys t s.store).drop 1) ++ [keyOf t p] := by
  cases hf : find (Impl.eqv t) p s.store with
  | some e =>
    have hmem : keyOf t p ∈ keys t s.store := by
      have := find_mem hf
      simp only [keys, List.mem_map]
      exact ⟨e, this.1, (eqv_iff_key t e.1 p).mp this.2⟩
    rw [if_pos hmem, ← keys_erase]
    have hek : keyOf t e.1 = keyOf t p := (eqv_iff_key t e.1 p).mp (find_mem hf).2
    simp [Impl.call, Impl.begin, hf, keys, hek]
  | none =>
    have hnm : keyOf t p ∉ keys t s.store := (find_none_iff_not_mem t p s.store).mp hf
    rw [if_neg hnm]
    simp only [Impl.call, Impl.begin, Impl.resume, hf, Option.isSome_none, Bool.false_eq_true, if_false]
    by_cases hlt : s.store.length < n
    · have : ¬ (s.store.length ≥ n) := by omega
      simp [hlt, this, keys]
    · have : s.store.length ≥ n := by omega
      simp [hlt, this, keys]

/-- a successful sequential call keeps "the store is listed in order of last touch" -/
theorem call_ok_sublist (n : Nat) (t : Bool) (s : St) (R : List NKey) (h : (keys t s.store).Sublist R)
    (p : Pattern) (v : Nat) :
    (keys t (Impl.call ⟨.bounded n, t⟩ s p (.ok v)).1.store).Sublist (touch R (keyOf t p)) := by
  rw [call_ok_keys]
  unfold touch
  by_cases hm : keyOf t p ∈ keys t s.store
  · rw [if_pos hm]
    exact List.Sublist.append (List.Sublist.erase _ h) (List.Sublist.refl _)
  · rw [if_neg hm]
    have h1 : (keys t s.store).Sublist (R.erase (keyOf t p)) := by
      have := List.Sublist.erase (keyOf t p) h
      rwa [List.erase_of_not_mem hm] at this
    refine List.Sublist.append ?_ (List.Sublist.refl _)
    split
    · exact h1
    · exact (List.drop_sublist 1 _).trans h1

theorem tstep_sublist (n : Nat) (t : Bool) (x : CSt × List NKey)
    (h : (keys t x.1.core.store).Sublist (recency x.2)) (op : COp) :
    (keys t (tstep ⟨.bounded n, t⟩ x op).1.core.store).Sublist (recency (tstep ⟨.bounded n, t⟩ x op).2) := by
  simp only [tstep]
  rw [cstep_store]
  unfold logStep
  cases hc : classify t x.1 op with
  | hit p => simp only; rw [recency_snoc]; exact call_ok_sublist n t _ _ h p 0
  | ins p v => simp only; rw [recency_snoc]; exact call_ok_sublist n t _ _ h p v
  | clear => simp [keys]
  | discard p =>
    simp only
    rw [keys_erase]
    exact (List.erase_sublist).trans h
  | none => exact h

theorem trun_sublist (n : Nat) (t : Bool) : ∀ (ops : List COp) (x : CSt × List NKey),
    (keys t x.1.core.store).Sublist (recency x.2) →
    (keys t (trun ⟨.bounded n, t⟩ x ops).1.core.store).Sublist (recency (trun ⟨.bounded n, t⟩ x ops).2) := by
  intro ops
  induction ops with
  | nil => intro x h; exact h
  | cons op rest ih => intro x h; exact ih _ (tstep_sublist n t x h op)

theorem classify_discard {t : Bool} {s : CSt} {op : COp} {p : Pattern} (h : classify t s op = .discard p) :
    op = .discard p := by
  cases op with
  | «begin» c q =>
    simp only [classify] at h
    split at h
    · cases h
    · split at h <;> cases h
  | finish c r =>
    simp only [classify] at h
    split at h
    · split at h <;> cases h
    · cases h
  | clear => cases h
  | discard q => simp only [classify, Touch.discard.injEq] at h; rw [h]
  | info => cases h

theorem tstep_lastN (n : Nat) (hn : 1 ≤ n) (t : Bool) (x : CSt × List NKey)
    (h : keys t x.1.core.store = lastN n (recency x.2)) (op : COp) (hop : ∀ p, op ≠ .discard p) :
    keys t (tstep ⟨.bounded n, t⟩ x op).1.core.store = lastN n (recency (tstep ⟨.bounded n, t⟩ x op).2) := by
  simp only [tstep]
  rw [cstep_store]
  unfold logStep
  cases hc : classify t x.1 op with
  | hit p => simp only; rw [recency_snoc]; exact call_ok_lru n hn t _ _ (recency_nodup _) h p 0
  | ins p v => simp only; rw [recency_snoc]; exact call_ok_lru n hn t _ _ (recency_nodup _) h p v
  | clear => simp [keys, recency, lastN]
  | discard p => exact absurd (classify_discard hc) (hop p)
  | none => exact h

theorem trun_lastN (n : Nat) (hn : 1 ≤ n) (t : Bool) : ∀ (ops : List COp) (x : CSt × List NKey),
    keys t x.1.core.store = lastN n (recency x.2) → (∀ op ∈ ops, ∀ p, op ≠ .discard p) →
    keys t (trun ⟨.bounded n, t⟩ x ops).1.core.store = lastN n (recency (trun ⟨.bounded n, t⟩ x ops).2) := by
  intro ops
  induction ops with
  | nil => intro x h _; exact h
  | cons op rest ih =>
    intro x h hop
    exact ih _ (tstep_lastN n hn t x h op (hop op (List.mem_cons_self ..)))
      (fun o ho => hop o (List.mem_cons_of_mem _ ho))

/-! ## generic list facts -/

/-- a sublist of a duplicate-free list is that list filtered by membership: same elements, same order -/
theorem sublist_eq_filter {l R : List NKey} (h : l.Sublist R) (hR : R.Nodup) :
    R.filter (fun k => decide (k ∈ l)) = l := by
  induction h with
  | slnil => rfl
  | @cons l R' a hs ih =>
    have hR' := List.nodup_cons.mp hR
    have : a ∉ l := fun hm => hR'.1 (hs.subset hm)
    simp [this, ih hR'.2]
  | @cons_cons l R' a hs ih =>
    have hR' := List.nodup_cons.mp hR
    simp only [List.filter_cons, List.mem_cons, true_or, decide_true, if_true, List.cons.injEq, true_and]
    rw [← ih hR'.2]
    apply List.filter_congr
    intro x hx
    have : x ≠ a := fun hxa => hR'.1 (hxa ▸ hx)
    simp [this, ih hR'.2]

theorem idxOf_cons_ne' {a b : NKey} (l : List NKey) (h : a ≠ b) : (a :: l).idxOf b = l.idxOf b + 1 := by
  rw [List.idxOf_cons]
  have : (a == b) = false := by simpa using h
  rw [this]; rfl

/-- in a duplicate-free list, `[a, b]` being a sublist means `a` comes strictly before `b` -/
theorem idxOf_lt_of_pair_sublist {a b : NKey} : ∀ {R : List NKey}, [a, b].Sublist R → R.Nodup →
    R.idxOf a < R.idxOf b := by
  intro R
  induction R with
  | nil => intro h; cases h
  | cons r R' ih =>
    intro h hR
    have hR' := List.nodup_cons.mp hR
    cases h with
    | cons _ h' =>
      have ha : a ∈ R' := h'.subset (by simp)
      have hb : b ∈ R' := h'.subset (by simp)
      have hra : r ≠ a := fun e => hR'.1 (e ▸ ha)
      have hrb : r ≠ b := fun e => hR'.1 (e ▸ hb)
      have := ih h' hR'.2
      rw [idxOf_cons_ne' _ hra, idxOf_cons_ne' _ hrb]
      omega
    | cons_cons _ h' =>
      have hb : b ∈ R' := h'.subset (by simp)
      have hrb : a ≠ b := fun e => hR'.1 (e ▸ hb)
      rw [List.idxOf_cons_self, idxOf_cons_ne' _ hrb]
      omega

/-! ## the sequential history -/

theorem final_append (f : St → Op → St × Out) : ∀ (a b : List Op) (s : St),
    final f s (a ++ b) = final f (final f s a) b := by
  intro a
  induction a with
  | nil => intro b s; rfl
  | cons op rest ih => intro b s; simp only [List.cons_append, final]; exact ih b _

theorem final_eq (c : Cfg) (hok : c.ok) : ∀ (ops : List Op) (s : St), Wf c s →
    final (Impl.step c) s ops = final (Spec.step c) s ops := by
  intro ops
  induction ops with
  | nil => intro s _; rfl
  | cons op rest ih =>
    intro s hwf
    simp only [final]
    rw [← step_eq c hok s hwf op, ih _ (step_wf c s hwf op)]

theorem dropCall_length {c : Nat} : ∀ {l : List (Nat × Pattern)} {p : Pattern}, lookupCall c l = some p →
    (dropCall c l).length + 1 = l.length := by
  intro l
  induction l with
  | nil => intro p h; simp [lookupCall] at h
  | cons e r ih =>
    intro p h
    simp only [lookupCall] at h
    by_cases he : e.1 = c
    · simp [dropCall, he]
    · simp only [he, if_false] at h
      simp only [dropCall, he, if_false, List.length_cons, ih h]

/-- one step of the overlapping machine against its sequential stand-in: same store, same hits; and
    (unless the step is a `cache_clear`) the sequential history's misses plus the calls still in
    flight stay below the misses counted by the overlapping machine -/
theorem seq_step (n : Nat) (t : Bool) (s : CSt) (σ : St) (h1 : σ.store = s.core.store)
    (h2 : σ.hits = s.core.hits) (op : COp) :
    (final (Impl.step ⟨.bounded n, t⟩) σ (seqOps t s op)).store = (cstep ⟨.bounded n, t⟩ s op).1.core.store ∧
    (final (Impl.step ⟨.bounded n, t⟩) σ (seqOps t s op)).hits = (cstep ⟨.bounded n, t⟩ s op).1.core.hits ∧
    (op ≠ .clear → σ.misses + s.inflight.length ≤ s.core.misses →
      (final (Impl.step ⟨.bounded n, t⟩) σ (seqOps t s op)).misses + (cstep ⟨.bounded n, t⟩ s op).1.inflight.length
        ≤ (cstep ⟨.bounded n, t⟩ s op).1.core.misses) := by
  obtain ⟨⟨ch, cm, cst⟩, infl⟩ := s
  obtain ⟨sh, sm, sst⟩ := σ
  simp only at h1 h2
  subst h1 h2
  cases op with
  | «begin» c p =>
    simp only [cstep, seqOps, classify]
    by_cases hl : (lookupCall c infl).isSome = true
    · simp [hl, final]
    · simp only [hl, Bool.false_eq_true, if_false]
      cases hf : find (Impl.eqv t) p sst with
      | none => simp [Impl.begin, hf, final]; omega
      | some e => simp [Impl.begin, Impl.call, Impl.step, hf, final]
  | finish c r =>
    simp only [cstep, seqOps, classify]
    cases hl : lookupCall c infl with
    | none => simp [final]
    | some p =>
      have hd := dropCall_length hl
      cases r with
      | ok v =>
        cases hf : find (Impl.eqv t) p sst with
        | none =>
          simp only [Option.isSome_none, Bool.false_eq_true, if_false, final, Impl.step, Impl.call,
            Impl.begin, Impl.resume, hf]
          refine ⟨?_, ?_, ?_⟩
          · split <;> rfl
          · split <;> rfl
          · intro _ h3
            split <;> (simp only; omega)
        | some e => simp [Impl.resume, hf, final]; omega
      | fail e => simp [final]; omega
      | cancel => simp [final]; omega
  | clear => simp [cstep, seqOps, classify, Impl.clear, Impl.step, final]
  | discard p => simp [cstep, seqOps, classify, Impl.discard, Impl.step, final]
  | info => simp [cstep, seqOps, classify, final]

theorem seq_run (n : Nat) (t : Bool) : ∀ (ops : List COp) (s : CSt) (σ : St), σ.store = s.core.store →
    σ.hits = s.core.hits →
    (final (Impl.step ⟨.bounded n, t⟩) σ (seqHistory ⟨.bounded n, t⟩ s ops)).store
      = (crun ⟨.bounded n, t⟩ s ops).core.store ∧
    (final (Impl.step ⟨.bounded n, t⟩) σ (seqHistory ⟨.bounded n, t⟩ s ops)).hits
      = (crun ⟨.bounded n, t⟩ s ops).core.hits ∧
    ((∀ op ∈ ops, op ≠ .clear) → σ.misses + s.inflight.length ≤ s.core.misses →
      (final (Impl.step ⟨.bounded n, t⟩) σ (seqHistory ⟨.bounded n, t⟩ s ops)).misses
        + (crun ⟨.bounded n, t⟩ s ops).inflight.length ≤ (crun ⟨.bounded n, t⟩ s ops).core.misses) := by
  intro ops
  induction ops with
  | nil => intro s σ h1 h2; exact ⟨h1, h2, fun _ h => h⟩
  | cons op rest ih =>
    intro s σ h1 h2
    simp only [seqHistory, crun, final_append]
    have hs := seq_step n t s σ h1 h2 op
    have := ih (cstep ⟨.bounded n, t⟩ s op).1 _ hs.1 hs.2.1
    refine ⟨this.1, this.2.1, ?_⟩
    intro hop h3
    exact this.2.2 (fun o ho => hop o (List.mem_cons_of_mem _ ho)) (hs.2.2 (hop op (List.mem_cons_self ..)) h3)

theorem classify_clear {t : Bool} {s : CSt} {op : COp} (h : classify t s op = .clear) : op = .clear := by
  cases op with
  | «begin» c q =>
    simp only [classify] at h
    split at h
    · cases h
    · split at h <;> cases h
  | finish c r =>
    simp only [classify] at h
    split at h
    · split at h <;> cases h
    · cases h
  | clear => rfl
  | discard q => cases h
  | info => cases h

/-- the sequential history consists of successful plain calls, plus the interleaving's own
    `cache_clear` / `cache_discard` steps -/
theorem seqHistory_shape (cfg : Cfg) : ∀ (ops : List COp) (s : CSt), ∀ o ∈ seqHistory cfg s ops,
    (∃ p v, o = Op.call p (.ok v)) ∨ (o = Op.clear ∧ COp.clear ∈ ops) ∨ (∃ p, o = Op.discard p ∧ COp.discard p ∈ ops) := by
  intro ops
  induction ops with
  | nil => intro s o ho; simp [seqHistory] at ho
  | cons op rest ih =>
    intro s o ho
    simp only [seqHistory, List.mem_append] at ho
    rcases ho with ho | ho
    · unfold seqOps at ho
      cases hc : classify cfg.typed s op with
      | hit p => rw [hc] at ho; simp only [List.mem_singleton] at ho; exact Or.inl ⟨p, 0, ho⟩
      | ins p v => rw [hc] at ho; simp only [List.mem_singleton] at ho; exact Or.inl ⟨p, v, ho⟩
      | clear =>
        rw [hc] at ho; simp only [List.mem_singleton] at ho
        exact Or.inr (Or.inl ⟨ho, by rw [classify_clear hc]; exact List.mem_cons_self ..⟩)
      | discard p =>
        rw [hc] at ho; simp only [List.mem_singleton] at ho
        exact Or.inr (Or.inr ⟨p, ho, by rw [classify_discard hc]; exact List.mem_cons_self ..⟩)
      | none => rw [hc] at ho; simp at ho
    · rcases ih _ o ho with h | h | h
      · exact Or.inl h
      · exact Or.inr (Or.inl ⟨h.1, List.mem_cons_of_mem _ h.2⟩)
      · obtain ⟨p, hp1, hp2⟩ := h
        exact Or.inr (Or.inr ⟨p, hp1, List.mem_cons_of_mem _ hp2⟩)

end AsyncVerif.Lru
