import AsyncVerif.Proofs.LruKey
/-! Helper lemmas for C10 / C11: refinement of the functools machine, invariants of the store. -/
namespace AsyncVerif.Lru

/-! ## configuration -/

/-- a bounded cache has room for at least one entry (what `lru_cache` guarantees) -/
def Cfg.ok (c : Cfg) : Prop :=
  match c.var with
  | .bounded n => 1 ≤ n
  | _ => True

instance (c : Cfg) : Decidable c.ok := by
  unfold Cfg.ok
  cases c.var <;> infer_instance

/-- `maxsize` as reported by `cache_info` / `cache_parameters` -/
def Cfg.maxsize (c : Cfg) : Option Nat :=
  match c.var with
  | .uncached => some 0
  | .memo => none
  | .bounded n => some n

theorem lruCache_eq (d : Dec) : Impl.lruCache d = Spec.lruCache d := by
  cases d with
  | bare => rfl
  | paren m t =>
    cases m with
    | none => rfl
    | int n =>
      simp only [Impl.lruCache, Spec.lruCache]
      by_cases h : n < 0
      · simp [h]
      · by_cases h0 : n = 0
        · simp [h0]
        · simp [h, h0]

theorem lruCache_ok (d : Dec) : (Impl.lruCache d).ok := by
  cases d with
  | bare => simp [Impl.lruCache, Cfg.ok]
  | paren m t =>
    cases m with
    | none => simp [Impl.lruCache, Cfg.ok]
    | int n =>
      simp only [Impl.lruCache]
      by_cases h : n < 0
      · simp [h, Cfg.ok]
      · by_cases h0 : n = 0
        · simp [h0, Cfg.ok]
        · simp only [h, if_false, h0, Cfg.ok]
          omega

/-- an uncached wrapper never counts a hit and never stores -/
def Wf (c : Cfg) (s : St) : Prop := c.var = .uncached → s.hits = 0 ∧ s.store = []

theorem Wf.init (c : Cfg) : Wf c St.init := fun _ => ⟨rfl, rfl⟩

/-! ## store lemmas -/

theorem dictSet_of_find_none (eqv : Pattern → Pattern → Bool) (p : Pattern) (v : Nat) :
    ∀ (st : Store), find eqv p st = none → Spec.dictSet eqv p v st = st ++ [(p, v)] := by
  intro st
  induction st with
  | nil => intro _; rfl
  | cons e r ih =>
    intro h
    simp only [find] at h
    by_cases he : eqv e.1 p = true
    · simp [he] at h
    · simp only [he, Bool.false_eq_true, if_false] at h
      simp only [Spec.dictSet, he, Bool.false_eq_true, if_false, List.cons_append, ih h]

theorem find_mem {eqv : Pattern → Pattern → Bool} {q : Pattern} :
    ∀ {st : Store} {e : Pattern × Nat}, find eqv q st = some e → e ∈ st ∧ eqv e.1 q = true := by
  intro st
  induction st with
  | nil => intro e h; simp [find] at h
  | cons x r ih =>
    intro e h
    simp only [find] at h
    by_cases hx : eqv x.1 q = true
    · simp only [hx, if_true, Option.some.injEq] at h
      subst h
      exact ⟨by simp, hx⟩
    · simp only [hx, Bool.false_eq_true, if_false] at h
      have := ih h
      exact ⟨by simp [this.1], this.2⟩

theorem find_none_iff {eqv : Pattern → Pattern → Bool} {q : Pattern} :
    ∀ {st : Store}, find eqv q st = none ↔ ∀ e ∈ st, eqv e.1 q = false := by
  intro st
  induction st with
  | nil => simp [find]
  | cons x r ih =>
    simp only [find]
    by_cases hx : eqv x.1 q = true
    · simp only [hx, if_true, List.mem_cons, forall_eq_or_imp]
      constructor
      · intro h; simp at h
      · intro h; simp at h
    · simp only [hx, Bool.false_eq_true, if_false, List.mem_cons, forall_eq_or_imp, ih]
      constructor
      · intro h; exact ⟨trivial, h⟩
      · intro h; exact h.2

theorem erase_length_le (eqv : Pattern → Pattern → Bool) (q : Pattern) :
    ∀ (st : Store), (erase eqv q st).length ≤ st.length := by
  intro st
  induction st with
  | nil => simp [erase]
  | cons x r ih =>
    simp only [erase]
    split
    · simp
    · simp only [List.length_cons]; omega

theorem erase_length_of_find {eqv : Pattern → Pattern → Bool} {q : Pattern} :
    ∀ {st : Store} {e : Pattern × Nat}, find eqv q st = some e → (erase eqv q st).length + 1 = st.length := by
  intro st
  induction st with
  | nil => intro e h; simp [find] at h
  | cons x r ih =>
    intro e h
    simp only [find] at h
    by_cases hx : eqv x.1 q = true
    · simp [erase, hx]
    · simp only [hx, Bool.false_eq_true, if_false] at h
      simp only [erase, hx, Bool.false_eq_true, if_false, List.length_cons, ih h]

theorem erase_of_find_none {eqv : Pattern → Pattern → Bool} {q : Pattern} :
    ∀ {st : Store}, find eqv q st = none → erase eqv q st = st := by
  intro st
  induction st with
  | nil => intro _; rfl
  | cons x r ih =>
    intro h
    simp only [find] at h
    by_cases hx : eqv x.1 q = true
    · simp [hx] at h
    · simp only [hx, Bool.false_eq_true, if_false] at h
      simp only [erase, hx, Bool.false_eq_true, if_false, ih h]

theorem erase_sublist (eqv : Pattern → Pattern → Bool) (q : Pattern) :
    ∀ (st : Store), List.Sublist (erase eqv q st) st := by
  intro st
  induction st with
  | nil => simp [erase]
  | cons x r ih =>
    simp only [erase]
    split
    · exact List.sublist_cons_self x r
    · exact List.Sublist.cons_cons x ih

theorem mem_erase_of_mem {eqv : Pattern → Pattern → Bool} {q : Pattern} {e : Pattern × Nat} :
    ∀ {st : Store}, e ∈ erase eqv q st → e ∈ st := fun h => (erase_sublist eqv q _).subset h

/-! ## the refinement -/

theorem call_eq (c : Cfg) (hok : c.ok) (s : St) (p : Pattern) (r : Res) :
    Impl.call c s p r = Spec.call c s p r := by
  obtain ⟨var, typed⟩ := c
  unfold Impl.call Impl.begin Impl.resume Spec.call
  simp only [← eqv_eq]
  cases var with
  | uncached => cases r <;> simp [Spec.ofRes]
  | memo =>
    simp only
    cases hf : find (Impl.eqv typed) p s.store with
    | some e => simp
    | none =>
      cases r with
      | fail e => simp
      | ok v => simp [hf, dictSet_of_find_none _ _ _ _ hf]
  | bounded n =>
    have hn : 1 ≤ n := hok
    simp only
    cases hf : find (Impl.eqv typed) p s.store with
    | some e => simp
    | none =>
      cases r with
      | fail e => simp
      | ok v =>
        simp only [hf, Option.isSome_none, Bool.false_eq_true, if_false]
        by_cases hl : s.store.length ≥ n
        · have h1 : ¬ (s.store.length < n ∨ s.store = []) := by
            intro h
            rcases h with h | h
            · omega
            · rw [h] at hl; simp at hl; omega
          simp [hl, h1]
        · have h1 : s.store.length < n ∨ s.store = [] := Or.inl (by omega)
          simp [hl, h1]

theorem discard_eq (c : Cfg) (s : St) (hwf : Wf c s) (p : Pattern) : Impl.discard c s p = Spec.discard c s p := by
  obtain ⟨var, typed⟩ := c
  unfold Impl.discard Spec.discard
  simp only [← eqv_eq]
  cases var with
  | uncached =>
    have := (hwf rfl).2
    obtain ⟨h, m, st⟩ := s
    simp only at this
    subst this
    simp [erase]
  | memo => rfl
  | bounded n => rfl

theorem step_eq (c : Cfg) (hok : c.ok) (s : St) (hwf : Wf c s) (op : Op) :
    Impl.step c s op = Spec.step c s op := by
  cases op with
  | call p r => exact call_eq c hok s p r
  | mcall i p r => exact call_eq c hok s (bind i p) r
  | clear =>
    simp only [Impl.step, Spec.step, Impl.clear, Spec.clear]
    obtain ⟨var, typed⟩ := c
    cases var with
    | uncached =>
      have := hwf rfl
      obtain ⟨h, m, st⟩ := s
      simp only at this
      simp [this.1, this.2]
    | memo => rfl
    | bounded n => rfl
  | discard p => simp only [Impl.step, Spec.step, discard_eq c s hwf p]
  | mdiscard i p => simp only [Impl.step, Spec.step, discard_eq c s hwf (bind i p)]
  | info =>
    simp only [Impl.step, Spec.step, Impl.info, Spec.info]
    obtain ⟨var, typed⟩ := c
    cases var with
    | uncached =>
      have := hwf rfl
      simp [this.1, this.2]
    | memo => rfl
    | bounded n => rfl
  | params =>
    simp only [Impl.step, Spec.step, Impl.params, Spec.params]

theorem begin_wf (c : Cfg) (s : St) (hwf : Wf c s) (p : Pattern) : Wf c (Impl.begin c s p).1 := by
  intro hu
  have := hwf hu
  unfold Impl.begin
  simp [hu, this.1, this.2]

theorem resume_wf (c : Cfg) (s : St) (hwf : Wf c s) (p : Pattern) (v : Nat) : Wf c (Impl.resume c s p v) := by
  intro hu
  have := hwf hu
  unfold Impl.resume
  simp [hu, this.1, this.2]

theorem clear_wf (c : Cfg) (s : St) (hwf : Wf c s) : Wf c (Impl.clear c s) := by
  intro hu
  have := hwf hu
  unfold Impl.clear
  simp [hu, this.1, this.2]

theorem discard_wf (c : Cfg) (s : St) (hwf : Wf c s) (p : Pattern) : Wf c (Impl.discard c s p) := by
  intro hu
  have := hwf hu
  unfold Impl.discard
  simp [hu, this.1, this.2]

theorem call_wf (c : Cfg) (s : St) (hwf : Wf c s) (p : Pattern) (r : Res) : Wf c (Impl.call c s p r).1 := by
  unfold Impl.call
  have hb := begin_wf c s hwf p
  rcases hbe : Impl.begin c s p with ⟨s1, o⟩
  rw [hbe] at hb
  cases o with
  | some v => exact hb
  | none =>
    cases r with
    | fail e => exact hb
    | ok v => exact resume_wf c s1 hb p v

theorem step_wf (c : Cfg) (s : St) (hwf : Wf c s) (op : Op) : Wf c (Impl.step c s op).1 := by
  cases op with
  | call p r => exact call_wf c s hwf p r
  | mcall i p r => exact call_wf c s hwf (bind i p) r
  | clear => exact clear_wf c s hwf
  | discard p => exact discard_wf c s hwf p
  | mdiscard i p => exact discard_wf c s hwf (bind i p)
  | info => exact hwf
  | params => exact hwf

theorem run_eq (c : Cfg) (hok : c.ok) : ∀ (ops : List Op) (s : St), Wf c s →
    run (Impl.step c) s ops = run (Spec.step c) s ops := by
  intro ops
  induction ops with
  | nil => intro s _; rfl
  | cons op rest ih =>
    intro s hwf
    simp only [run]
    rw [← step_eq c hok s hwf op, ih _ (step_wf c s hwf op)]

/-! ## key equality is an equivalence -/

theorem eqv_refl (t : Bool) (a : Pattern) : Impl.eqv t a a = true := by simp [Impl.eqv]

theorem eqv_symm (t : Bool) (a b : Pattern) : Impl.eqv t a b = Impl.eqv t b a := by
  simp only [Impl.eqv]
  exact decide_eq_decide.mpr ⟨Eq.symm, Eq.symm⟩

theorem eqv_trans (t : Bool) {a b c : Pattern} (h1 : Impl.eqv t a b = true) (h2 : Impl.eqv t b c = true) :
    Impl.eqv t a c = true := by
  simp only [Impl.eqv, decide_eq_true_eq] at *
  exact h1.trans h2

/-- if `a ~ q` and `b ≁ q` then `b ≁ a` -/
theorem eqv_false_of (t : Bool) {a b q : Pattern} (h1 : Impl.eqv t a q = true) (h2 : Impl.eqv t b q = false) :
    Impl.eqv t b a = false := by
  cases h : Impl.eqv t b a with
  | false => rfl
  | true => rw [eqv_trans t h h1] at h2; exact absurd h2 (by simp)

/-! ## invariant of the store -/

/-- no two entries have equal keys -/
def Distinct (t : Bool) (st : Store) : Prop := st.Pairwise fun a b => Impl.eqv t a.1 b.1 = false

structure Inv (c : Cfg) (s : St) : Prop where
  distinct : Distinct c.typed s.store
  bound : ∀ n, c.var = .bounded n → s.store.length ≤ n
  wf : Wf c s

theorem Inv.init (c : Cfg) : Inv c St.init :=
  ⟨List.Pairwise.nil, fun _ _ => Nat.zero_le _, Wf.init c⟩

theorem erase_others {t : Bool} {q : Pattern} : ∀ {st : Store} {e : Pattern × Nat}, Distinct t st →
    find (Impl.eqv t) q st = some e → ∀ x ∈ erase (Impl.eqv t) q st, Impl.eqv t x.1 q = false := by
  intro st
  induction st with
  | nil => intro e _ h; simp [find] at h
  | cons y r ih =>
    intro e hd h x hx
    have hd' := List.pairwise_cons.mp hd
    simp only [find] at h
    by_cases hy : Impl.eqv t y.1 q = true
    · simp only [erase, hy, if_true] at hx
      have := hd'.1 x hx
      rw [eqv_symm] at this
      cases hxq : Impl.eqv t x.1 q with
      | false => rfl
      | true =>
        have hqy : Impl.eqv t q y.1 = true := by rw [eqv_symm]; exact hy
        rw [eqv_trans t hxq hqy] at this; exact absurd this (by simp)
    · simp only [hy, Bool.false_eq_true, if_false] at h
      simp only [erase, hy, Bool.false_eq_true, if_false, List.mem_cons] at hx
      rcases hx with rfl | hx
      · simpa using hy
      · exact ih hd'.2 h x hx

theorem distinct_sublist {t : Bool} {a b : Store} (h : List.Sublist a b) (hd : Distinct t b) : Distinct t a :=
  List.Pairwise.sublist h hd

theorem distinct_snoc {t : Bool} {st : Store} {e : Pattern × Nat} (hd : Distinct t st)
    (he : ∀ x ∈ st, Impl.eqv t x.1 e.1 = false) : Distinct t (st ++ [e]) := by
  unfold Distinct
  rw [List.pairwise_append]
  refine ⟨hd, List.pairwise_singleton _ _, ?_⟩
  intro a ha b hb
  simp only [List.mem_singleton] at hb
  subst hb
  exact he a ha

theorem erase_eq_filter {t : Bool} {q : Pattern} : ∀ {st : Store}, Distinct t st →
    erase (Impl.eqv t) q st = st.filter fun e => !Impl.eqv t e.1 q := by
  intro st
  induction st with
  | nil => intro _; rfl
  | cons y r ih =>
    intro hd
    have hd' := List.pairwise_cons.mp hd
    by_cases hy : Impl.eqv t y.1 q = true
    · simp only [erase, hy, if_true, List.filter_cons, Bool.not_true, Bool.false_eq_true, if_false]
      symm
      rw [List.filter_eq_self]
      intro x hx
      have h1 := hd'.1 x hx
      have : Impl.eqv t x.1 q = false := by
        cases hxq : Impl.eqv t x.1 q with
        | false => rfl
        | true =>
          have hqy : Impl.eqv t q y.1 = true := by rw [eqv_symm]; exact hy
          rw [eqv_symm, eqv_trans t hxq hqy] at h1; exact absurd h1 (by simp)
      simp [this]
    · have hy' : Impl.eqv t y.1 q = false := by simpa using hy
      simp only [erase, hy', Bool.false_eq_true, if_false, List.filter_cons, Bool.not_false, if_true, ih hd'.2]

theorem begin_inv (c : Cfg) (s : St) (h : Inv c s) (p : Pattern) : Inv c (Impl.begin c s p).1 := by
  obtain ⟨var, typed⟩ := c
  refine ⟨?_, ?_, begin_wf _ s h.wf p⟩
  · have hd := h.distinct
    unfold Impl.begin
    cases var with
    | uncached => exact hd
    | memo =>
      simp only
      cases hf : find (Impl.eqv typed) p s.store <;> exact hd
    | bounded n =>
      simp only
      cases hf : find (Impl.eqv typed) p s.store with
      | none => exact hd
      | some e =>
        simp only
        apply distinct_snoc (distinct_sublist (erase_sublist _ _ _) hd)
        intro x hx
        exact eqv_false_of typed (find_mem hf).2 (erase_others hd hf x hx)
  · intro n hn
    have hb := h.bound n hn
    simp only at hn
    subst hn
    unfold Impl.begin
    simp only
    cases hf : find (Impl.eqv typed) p s.store with
    | none => exact hb
    | some e =>
      simp only [List.length_append, List.length_singleton, erase_length_of_find hf]
      exact hb

theorem resume_inv (c : Cfg) (hok : c.ok) (s : St) (h : Inv c s) (p : Pattern) (v : Nat) :
    Inv c (Impl.resume c s p v) := by
  obtain ⟨var, typed⟩ := c
  refine ⟨?_, ?_, resume_wf _ s h.wf p v⟩
  · have hd := h.distinct
    unfold Impl.resume
    cases var with
    | uncached => exact hd
    | memo =>
      simp only
      cases hf : find (Impl.eqv typed) p s.store with
      | some e => simpa using hd
      | none =>
        simp only [Option.isSome_none, Bool.false_eq_true, if_false]
        exact distinct_snoc hd (find_none_iff.mp hf)
    | bounded n =>
      simp only
      cases hf : find (Impl.eqv typed) p s.store with
      | some e => simpa using hd
      | none =>
        simp only [Option.isSome_none, Bool.false_eq_true, if_false]
        split
        · apply distinct_snoc (distinct_sublist (List.drop_sublist 1 _) hd)
          intro x hx
          exact find_none_iff.mp hf x (List.mem_of_mem_drop hx)
        · exact distinct_snoc hd (find_none_iff.mp hf)
  · intro n hn
    have hb := h.bound n hn
    simp only at hn
    subst hn
    have hn1 : 1 ≤ n := hok
    unfold Impl.resume
    simp only
    split
    · exact hb
    · split
      · simp only [List.length_append, List.length_drop, List.length_singleton]
        omega
      · simp only [List.length_append, List.length_singleton]
        omega

theorem clear_inv (c : Cfg) (s : St) (h : Inv c s) : Inv c (Impl.clear c s) := by
  refine ⟨?_, ?_, clear_wf c s h.wf⟩
  · unfold Impl.clear
    cases c.var with
    | uncached => exact h.distinct
    | memo => exact List.Pairwise.nil
    | bounded n => exact List.Pairwise.nil
  · intro n hn
    unfold Impl.clear
    simp [hn]

theorem discard_inv (c : Cfg) (s : St) (h : Inv c s) (p : Pattern) : Inv c (Impl.discard c s p) := by
  refine ⟨?_, ?_, discard_wf c s h.wf p⟩
  · unfold Impl.discard
    cases c.var with
    | uncached => exact h.distinct
    | memo => exact distinct_sublist (erase_sublist _ _ _) h.distinct
    | bounded n => exact distinct_sublist (erase_sublist _ _ _) h.distinct
  · intro n hn
    unfold Impl.discard
    simp only [hn]
    exact Nat.le_trans (erase_length_le _ _ _) (h.bound n hn)

theorem call_inv (c : Cfg) (hok : c.ok) (s : St) (h : Inv c s) (p : Pattern) (r : Res) :
    Inv c (Impl.call c s p r).1 := by
  unfold Impl.call
  have hb := begin_inv c s h p
  rcases hbe : Impl.begin c s p with ⟨s1, o⟩
  rw [hbe] at hb
  cases o with
  | some v => exact hb
  | none =>
    cases r with
    | fail e => exact hb
    | ok v => exact resume_inv c hok s1 hb p v

theorem step_inv (c : Cfg) (hok : c.ok) (s : St) (h : Inv c s) (op : Op) : Inv c (Impl.step c s op).1 := by
  cases op with
  | call p r => exact call_inv c hok s h p r
  | mcall i p r => exact call_inv c hok s h (bind i p) r
  | clear => exact clear_inv c s h
  | discard p => exact discard_inv c s h p
  | mdiscard i p => exact discard_inv c s h (bind i p)
  | info => exact h
  | params => exact h

theorem final_inv (c : Cfg) (hok : c.ok) : ∀ (ops : List Op) (s : St), Inv c s → Inv c (final (Impl.step c) s ops) := by
  intro ops
  induction ops with
  | nil => intro s h; exact h
  | cons op rest ih => intro s h; exact ih _ (step_inv c hok s h op)

/-! ## discard, failure, unbounded, methods -/

theorem find_filter_self (t : Bool) (p : Pattern) : ∀ (st : Store),
    find (Impl.eqv t) p (st.filter fun e => !Impl.eqv t e.1 p) = none := by
  intro st
  rw [find_none_iff]
  intro e he
  simp only [List.mem_filter, Bool.not_eq_true'] at he
  exact he.2

theorem find_filter_other (t : Bool) (p q : Pattern) (hq : Impl.eqv t q p = false) : ∀ (st : Store),
    find (Impl.eqv t) q (st.filter fun e => !Impl.eqv t e.1 p) = find (Impl.eqv t) q st := by
  intro st
  induction st with
  | nil => rfl
  | cons y r ih =>
    by_cases hy : Impl.eqv t y.1 p = true
    · have : Impl.eqv t y.1 q = false := by
        have h1 := eqv_false_of t hy hq      -- q ≁ y
        rw [eqv_symm]; exact h1
      simp only [List.filter_cons, hy, Bool.not_true, Bool.false_eq_true, if_false, find, this, ih]
    · have hy' : Impl.eqv t y.1 p = false := by simpa using hy
      simp only [List.filter_cons, hy', Bool.not_false, if_true, find, ih]

theorem begin_none_store (c : Cfg) (s : St) (p : Pattern) (h : (Impl.begin c s p).2 = none) :
    (Impl.begin c s p).1.store = s.store ∧ find (Impl.eqv c.typed) p s.store = none ∨ c.var = .uncached ∧ (Impl.begin c s p).1.store = s.store := by
  obtain ⟨var, typed⟩ := c
  unfold Impl.begin at h ⊢
  cases var with
  | uncached => right; simp
  | memo =>
    left
    simp only at h ⊢
    cases hf : find (Impl.eqv typed) p s.store with
    | none => simp
    | some e => simp [hf] at h
  | bounded n =>
    left
    simp only at h ⊢
    cases hf : find (Impl.eqv typed) p s.store with
    | none => simp
    | some e => simp [hf] at h

theorem find_append_of_some {eqv : Pattern → Pattern → Bool} {q : Pattern} {e : Pattern × Nat} :
    ∀ {st : Store} (l : Store), find eqv q st = some e → find eqv q (st ++ l) = some e := by
  intro st
  induction st with
  | nil => intro l h; simp [find] at h
  | cons y r ih =>
    intro l h
    simp only [find] at h
    simp only [List.cons_append, find]
    by_cases hy : eqv y.1 q = true
    · simp only [hy, if_true] at h ⊢; exact h
    · simp only [hy, Bool.false_eq_true, if_false] at h ⊢; exact ih l h

/-- the key of a bound call starts with the instance -/
theorem bind_key (t : Bool) (i : Nat) (p : Pattern) :
    ∃ rest, (asKey t (bind i p)).norm = .seq (.sc (.obj i) :: rest) := by
  unfold asKey bind
  by_cases hk : p.kwds.isEmpty = true
  · cases t with
    | true => simp [hk, Key.norm, KElem.norm, Arg.norm, Prim.norm]
    | false =>
      simp only [hk, if_true, Bool.false_eq_true, if_false, List.map_cons]
      cases p.args with
      | nil => simp [Key.norm, KElem.norm, Arg.norm, Prim.norm]
      | cons a l => simp [Key.norm, KElem.norm, Arg.norm, Prim.norm]
  · cases t with
    | true => simp [hk, Key.norm, KElem.norm, Arg.norm, Prim.norm]
    | false =>
      simp only [hk, Bool.false_eq_true, if_false, List.map_cons]
      cases hk' : p.kwds with
      | nil => simp [hk'] at hk
      | cons kv r =>
        cases p.args with
        | nil => simp [Key.norm, KElem.norm, Arg.norm, Prim.norm]
        | cons a l => simp [Key.norm, KElem.norm, Arg.norm, Prim.norm]

end AsyncVerif.Lru
