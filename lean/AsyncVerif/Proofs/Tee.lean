import AsyncVerif.Machines.Tee
/-!
Helper lemmas and invariants for C09 (tee). Property theorems live in `Properties/C09.lean`.

Structure: `Inv` is the invariant of the machine between two operations.  While child `i` runs, the
state passes through points where `i` is inside `async with lock` (`Mid s i`) or outside of it
(`Rest s i`); every function of the machine gets a Hoare-style lemma between these predicates.
-/
namespace AsyncVerif.Tee

/-! ## Reading and writing children -/

theorem kid_eq_getElem (s : St) (j : Nat) (h : j < s.kids.length) : s.kid j = s.kids[j] := by
  simp [St.kid, List.getD_eq_getElem?_getD, h]

@[simp] theorem length_setKid (s : St) (i : Nat) (c : Child) :
    (s.setKid i c).kids.length = s.kids.length := by
  simp [St.setKid]

theorem kid_setKid (s : St) (i j : Nat) (c : Child) (hi : i < s.kids.length) :
    (s.setKid i c).kid j = if j = i then c else s.kid j := by
  simp only [St.kid, St.setKid, List.getD_eq_getElem?_getD, List.getElem?_set]
  by_cases h : i = j
  · subst h; simp [hi]
  · have : ¬ j = i := fun e => h e.symm
    simp [h, this]

@[simp] theorem length_broadcast (s : St) (v : Val) : (broadcast s v).kids.length = s.kids.length := by
  simp [broadcast]

theorem kid_broadcast (s : St) (v : Val) (j : Nat) (hj : j < s.kids.length) :
    (broadcast s v).kid j = { s.kid j with buf := (s.kid j).buf.map (· ++ [v]) } := by
  simp [St.kid, broadcast, List.getD_eq_getElem?_getD, hj]

theorem all_none_iff (s : St) :
    s.kids.all (fun c => c.buf.isNone) = true ↔ ∀ j, j < s.kids.length → (s.kid j).buf = none := by
  simp only [List.all_eq_true, Option.isNone_iff_eq_none]
  constructor
  · intro h j hj
    rw [kid_eq_getElem s j hj]
    exact h _ (List.getElem_mem hj)
  · intro h c hc
    obtain ⟨j, hj, rfl⟩ := List.getElem_of_mem hc
    rw [← kid_eq_getElem s j hj]
    exact h j hj

theorem any_fetching_iff (s : St) :
    s.kids.any (fun c => isFetching c.pc) = true ↔
      ∃ j, j < s.kids.length ∧ isFetching (s.kid j).pc = true := by
  simp only [List.any_eq_true]
  constructor
  · rintro ⟨c, hc, h⟩
    obtain ⟨j, hj, rfl⟩ := List.getElem_of_mem hc
    exact ⟨j, hj, by rw [kid_eq_getElem s j hj]; exact h⟩
  · rintro ⟨j, hj, h⟩
    exact ⟨s.kids[j], List.getElem_mem hj, by rw [← kid_eq_getElem s j hj]; exact h⟩

/-! projections of the primitives (all by computation) -/

@[simp] theorem setKid_fetched (s : St) (i c) : (s.setKid i c).fetched = s.fetched := rfl
@[simp] theorem setKid_src (s : St) (i c) : (s.setKid i c).src = s.src := rfl
@[simp] theorem setKid_srcCloses (s : St) (i c) : (s.setKid i c).srcCloses = s.srcCloses := rfl
@[simp] theorem setKid_srcEnded (s : St) (i c) : (s.setKid i c).srcEnded = s.srcEnded := rfl
@[simp] theorem setKid_srcKilled (s : St) (i c) : (s.setKid i c).srcKilled = s.srcKilled := rfl
@[simp] theorem setKid_withLock (s : St) (i c) : (s.setKid i c).withLock = s.withLock := rfl
@[simp] theorem setKid_suspPat (s : St) (i c) : (s.setKid i c).suspPat = s.suspPat := rfl
@[simp] theorem setKid_holder (s : St) (i c) : (s.setKid i c).holder = s.holder := rfl
@[simp] theorem setKid_overlap (s : St) (i c) : (s.setKid i c).overlap = s.overlap := rfl
@[simp] theorem setKid_closeable (s : St) (i c) : (s.setKid i c).closeable = s.closeable := rfl
@[simp] theorem setKid_diesOnCancel (s : St) (i c) : (s.setKid i c).diesOnCancel = s.diesOnCancel := rfl
@[simp] theorem setKid_pulls (s : St) (i c) : (s.setKid i c).pulls = s.pulls := rfl

@[simp] theorem broadcast_fetched (s : St) (v) : (broadcast s v).fetched = s.fetched := rfl
@[simp] theorem broadcast_src (s : St) (v) : (broadcast s v).src = s.src := rfl
@[simp] theorem broadcast_srcCloses (s : St) (v) : (broadcast s v).srcCloses = s.srcCloses := rfl
@[simp] theorem broadcast_srcEnded (s : St) (v) : (broadcast s v).srcEnded = s.srcEnded := rfl
@[simp] theorem broadcast_srcKilled (s : St) (v) : (broadcast s v).srcKilled = s.srcKilled := rfl
@[simp] theorem broadcast_withLock (s : St) (v) : (broadcast s v).withLock = s.withLock := rfl
@[simp] theorem broadcast_suspPat (s : St) (v) : (broadcast s v).suspPat = s.suspPat := rfl
@[simp] theorem broadcast_holder (s : St) (v) : (broadcast s v).holder = s.holder := rfl
@[simp] theorem broadcast_overlap (s : St) (v) : (broadcast s v).overlap = s.overlap := rfl

@[simp] theorem release_kids (s : St) (i) : (release s i).kids = s.kids := by
  unfold release; split <;> rfl
@[simp] theorem release_kid (s : St) (i j) : (release s i).kid j = s.kid j := by
  simp [St.kid]
@[simp] theorem release_fetched (s : St) (i) : (release s i).fetched = s.fetched := by
  unfold release; split <;> rfl
@[simp] theorem release_src (s : St) (i) : (release s i).src = s.src := by
  unfold release; split <;> rfl
@[simp] theorem release_srcCloses (s : St) (i) : (release s i).srcCloses = s.srcCloses := by
  unfold release; split <;> rfl
@[simp] theorem release_srcEnded (s : St) (i) : (release s i).srcEnded = s.srcEnded := by
  unfold release; split <;> rfl
@[simp] theorem release_srcKilled (s : St) (i) : (release s i).srcKilled = s.srcKilled := by
  unfold release; split <;> rfl
@[simp] theorem release_withLock (s : St) (i) : (release s i).withLock = s.withLock := by
  unfold release; split <;> rfl
@[simp] theorem release_suspPat (s : St) (i) : (release s i).suspPat = s.suspPat := by
  unfold release; split <;> rfl
@[simp] theorem release_overlap (s : St) (i) : (release s i).overlap = s.overlap := by
  unfold release; split <;> rfl
@[simp] theorem release_closeable (s : St) (i) : (release s i).closeable = s.closeable := by
  unfold release; split <;> rfl
theorem release_holder (s : St) (i) :
    (release s i).holder = if s.holder = some i then none else s.holder := by
  unfold release; split <;> simp_all

/-- the child record the `finally` block leaves behind -/
def Child.finished (c : Child) (t : Task) : Child := { c with pc := .done, buf := none, task := t }

@[simp] theorem finishKid_length (s : St) (i t) : (finishKid s i t).kids.length = s.kids.length := by
  unfold finishKid; simp only []; split <;> simp
theorem finishKid_kid (s : St) (i j t) (hi : i < s.kids.length) :
    (finishKid s i t).kid j = if j = i then (s.kid i).finished t else s.kid j := by
  unfold finishKid; simp only []
  split
  · show (s.setKid i _).kid j = _
    rw [kid_setKid _ _ _ _ hi]; rfl
  · rw [kid_setKid _ _ _ _ hi]; rfl
@[simp] theorem finishKid_fetched (s : St) (i t) : (finishKid s i t).fetched = s.fetched := by
  unfold finishKid; simp only []; split <;> rfl
@[simp] theorem finishKid_src (s : St) (i t) : (finishKid s i t).src = s.src := by
  unfold finishKid; simp only []; split <;> rfl
@[simp] theorem finishKid_srcEnded (s : St) (i t) : (finishKid s i t).srcEnded = s.srcEnded := by
  unfold finishKid; simp only []; split <;> rfl
@[simp] theorem finishKid_srcKilled (s : St) (i t) : (finishKid s i t).srcKilled = s.srcKilled := by
  unfold finishKid; simp only []; split <;> rfl
@[simp] theorem finishKid_withLock (s : St) (i t) : (finishKid s i t).withLock = s.withLock := by
  unfold finishKid; simp only []; split <;> rfl
@[simp] theorem finishKid_suspPat (s : St) (i t) : (finishKid s i t).suspPat = s.suspPat := by
  unfold finishKid; simp only []; split <;> rfl
@[simp] theorem finishKid_holder (s : St) (i t) : (finishKid s i t).holder = s.holder := by
  unfold finishKid; simp only []; split <;> rfl
@[simp] theorem finishKid_overlap (s : St) (i t) : (finishKid s i t).overlap = s.overlap := by
  unfold finishKid; simp only []; split <;> rfl
@[simp] theorem finishKid_closeable (s : St) (i t) : (finishKid s i t).closeable = s.closeable := by
  unfold finishKid; simp only []; split <;> rfl

/-- the source is closed by `finishKid` only if afterwards no buffer is registered -/
theorem finishKid_srcCloses (s : St) (i t) (hi : i < s.kids.length) :
    (finishKid s i t).srcCloses = s.srcCloses ∨
    ((finishKid s i t).srcCloses = s.srcCloses + 1 ∧
      ∀ j, j < s.kids.length → j ≠ i → (s.kid j).buf = none) := by
  unfold finishKid; simp only []
  split
  · rename_i h
    right
    refine ⟨rfl, ?_⟩
    simp only [Bool.and_eq_true] at h
    have h1 := (all_none_iff _).1 h.1
    intro j hj hne
    have := h1 j (by simpa using hj)
    rw [kid_setKid _ _ _ _ hi] at this
    simpa [hne] using this
  · left; rfl

theorem finishKid_srcCloses_mono (s : St) (i t) : s.srcCloses ≤ (finishKid s i t).srcCloses := by
  unfold finishKid; simp only []; split <;> simp

/-! ## The invariant -/

/-- no pull of the source ever suspends -/
def NoSusp (s : St) : Prop := ∀ k, s.suspPat.getD k 0 = 0

/-- the property's precondition: a lock is supplied, or the source never suspends -/
def Safe (s : St) : Prop := s.withLock = true ∨ NoSusp s

/-- the part of the invariant that also holds while a child is running -/
structure DInv (s : St) : Prop where
  reg : ∀ j, j < s.kids.length → ∀ b, (s.kid j).buf = some b → (s.kid j).out ++ b = s.fetched
  unreg : ∀ j, j < s.kids.length → (s.kid j).buf = none →
    (∃ t, (s.kid j).out ++ t = s.fetched) ∧ (s.kid j).pc = .done
  closedAll : 0 < s.srcCloses → ∀ j, j < s.kids.length → (s.kid j).buf = none
  endedSrc : s.srcEnded = true → s.src = []
  taskEnded : Safe s → ∀ j, j < s.kids.length → (s.kid j).task = .ended →
    (s.kid j).out = s.fetched ∧ s.srcDead = true ∧ (s.srcKilled = false → s.src = [])
  noOverlap : Safe s → s.overlap = false

/-- the invariant between two operations -/
structure Inv (s : St) : Prop where
  d : DInv s
  holder_lt : ∀ h, s.holder = some h →
    h < s.kids.length ∧ s.withLock = true ∧ isFetching (s.kid h).pc = true
  lockFetch : s.withLock = true → ∀ j, j < s.kids.length →
    isFetching (s.kid j).pc = true → s.holder = some j
  inside : ∀ j, j < s.kids.length →
    (isFetching (s.kid j).pc = true ∨ (s.kid j).pc = .acquiring) → (s.kid j).task = .active
  fetchEmpty : Safe s → ∀ j, j < s.kids.length →
    isFetching (s.kid j).pc = true → (s.kid j).buf = some []
  noFetch : s.withLock = false → NoSusp s → ∀ j, j < s.kids.length →
    isFetching (s.kid j).pc = false

/-- child `i` is running and is outside `async with lock` -/
structure Rest (s : St) (i : Nat) : Prop where
  d : DInv s
  hi : i < s.kids.length
  holder_lt : ∀ h, s.holder = some h →
    h ≠ i ∧ h < s.kids.length ∧ s.withLock = true ∧ isFetching (s.kid h).pc = true
  lockFetch : s.withLock = true → ∀ j, j < s.kids.length → j ≠ i →
    isFetching (s.kid j).pc = true → s.holder = some j
  inside : ∀ j, j < s.kids.length → j ≠ i →
    (isFetching (s.kid j).pc = true ∨ (s.kid j).pc = .acquiring) → (s.kid j).task = .active
  fetchEmpty : Safe s → ∀ j, j < s.kids.length → j ≠ i →
    isFetching (s.kid j).pc = true → (s.kid j).buf = some []
  noFetch : s.withLock = false → NoSusp s → ∀ j, j < s.kids.length → j ≠ i →
    isFetching (s.kid j).pc = false

/-- child `i` is running and is inside `async with lock` -/
structure Mid (s : St) (i : Nat) : Prop where
  d : DInv s
  hi : i < s.kids.length
  live : (s.kid i).pc ≠ .done
  act : (s.kid i).task = .active
  holdL : s.withLock = true → s.holder = some i
  holdN : s.withLock = false → s.holder = none
  others : s.withLock = true → ∀ j, j < s.kids.length → j ≠ i → isFetching (s.kid j).pc = false
  inside : ∀ j, j < s.kids.length → j ≠ i →
    (isFetching (s.kid j).pc = true ∨ (s.kid j).pc = .acquiring) → (s.kid j).task = .active
  emptyBuf : Safe s → (s.kid i).buf = some []
  fetchEmpty : Safe s → ∀ j, j < s.kids.length → j ≠ i →
    isFetching (s.kid j).pc = true → (s.kid j).buf = some []
  noFetch : s.withLock = false → NoSusp s → ∀ j, j < s.kids.length → j ≠ i →
    isFetching (s.kid j).pc = false

theorem Inv.rest {s : St} (h : Inv s) (i : Nat) (hi : i < s.kids.length)
    (hf : isFetching (s.kid i).pc = false) : Rest s i := by
  obtain ⟨d, h1, h2, h3, h4, h5⟩ := h
  refine ⟨d, hi, ?_, ?_, ?_, ?_, ?_⟩ <;> grind

theorem Inv.mid {s : St} (h : Inv s) (i : Nat) (hi : i < s.kids.length)
    (hf : isFetching (s.kid i).pc = true) : Mid s i := by
  obtain ⟨d, h1, h2, h3, h4, h5⟩ := h
  have hw : s.withLock = false → s.holder = none := by
    intro hw
    cases hh : s.holder with
    | none => rfl
    | some x => have := (h1 x hh).2.1; simp_all
  refine ⟨d, hi, ?_, ?_, ?_, hw, ?_, ?_, ?_, ?_, ?_⟩
  · intro hd; rw [hd] at hf; simp [isFetching] at hf
  · exact h3 i hi (Or.inl hf)
  · intro hl; exact h2 hl i hi hf
  · intro hl j hj hne
    cases hfj : isFetching (s.kid j).pc with
    | false => rfl
    | true =>
      have a := h2 hl i hi hf
      have b := h2 hl j hj hfj
      rw [a] at b; cases b; exact absurd rfl hne
  · intro j hj _ hx; exact h3 j hj hx
  · intro hs; exact h4 hs i hi hf
  · intro hs j hj _ hx; exact h4 hs j hj hx
  · intro a b j hj _; exact h5 a b j hj

/-! ## Hoare-style lemmas -/


theorem safe_setKid (s : St) (i c) : Safe (s.setKid i c) ↔ Safe s := Iff.rfl
theorem srcDead_setKid (s : St) (i c) : (s.setKid i c).srcDead = s.srcDead := rfl

/-- child `i` changes only its program counter / task -/
theorem Rest.setKid {s : St} {i : Nat} (h : Rest s i) (c' : Child)
    (hb : c'.buf = (s.kid i).buf) (ho : c'.out = (s.kid i).out)
    (hf : isFetching c'.pc = false)
    (ha : c'.pc = .acquiring → c'.task = .active)
    (hn : (s.kid i).buf = none → c'.pc = .done)
    (ht : c'.task = .ended → (s.kid i).task = .ended) :
    Inv (s.setKid i c') := by
  obtain ⟨⟨d1, d2, d3, d4, d5, d6⟩, hi, h1, h2, h3, h4, h5⟩ := h
  refine ⟨⟨?_, ?_, ?_, ?_, ?_, ?_⟩, ?_, ?_, ?_, ?_, ?_⟩ <;>
    simp only [kid_setKid _ _ _ _ hi, length_setKid, setKid_fetched, setKid_src, setKid_srcCloses,
      setKid_srcEnded, setKid_srcKilled, setKid_withLock, setKid_holder, setKid_overlap,
      safe_setKid, srcDead_setKid]
  · grind [isFetching]
  · grind [isFetching]
  · grind [isFetching]
  · grind [isFetching]
  · grind [isFetching]
  · grind [isFetching]
  · grind [isFetching]
  · grind [isFetching]
  · grind [isFetching]
  · grind [isFetching]
  · intro a b; simp only [NoSusp, setKid_suspPat] at b; have := h5 a b; grind



theorem noSusp_setKid (s : St) (i c) : NoSusp (s.setKid i c) ↔ NoSusp s := Iff.rfl
theorem noSusp_finishKid (s : St) (i t) : NoSusp (finishKid s i t) ↔ NoSusp s := by
  simp [NoSusp]
theorem safe_finishKid (s : St) (i t) : Safe (finishKid s i t) ↔ Safe s := by
  simp [Safe, noSusp_finishKid]

/-- `yield buffer.popleft()` with a non-empty buffer -/
theorem Rest.pop {s : St} {i : Nat} (h : Rest s i) (v : Val) (r : List Val)
    (hb : (s.kid i).buf = some (v :: r)) (ht : (s.kid i).task = .active) :
    Inv (s.setKid i { (s.kid i) with pc := .atYield, buf := some r, out := (s.kid i).out ++ [v] }) := by
  obtain ⟨⟨d1, d2, d3, d4, d5, d6⟩, hi, h1, h2, h3, h4, h5⟩ := h
  refine ⟨⟨?_, ?_, ?_, ?_, ?_, ?_⟩, ?_, ?_, ?_, ?_, ?_⟩ <;>
    simp only [kid_setKid _ _ _ _ hi, length_setKid, setKid_fetched, setKid_src, setKid_srcCloses,
      setKid_srcEnded, setKid_srcKilled, setKid_withLock, setKid_holder, setKid_overlap,
      safe_setKid, srcDead_setKid, noSusp_setKid]
  · grind [isFetching]
  · grind [isFetching]
  · grind [isFetching]
  · grind [isFetching]
  · grind [isFetching]
  · grind [isFetching]
  · grind [isFetching]
  · grind [isFetching]
  · grind [isFetching]
  · grind [isFetching]
  · grind [isFetching]

/-- the `finally` block -/
theorem Rest.finish {s : St} {i : Nat} (h : Rest s i) (t : Task)
    (ht : t = .ended → Safe s →
      (s.kid i).out = s.fetched ∧ s.srcDead = true ∧ (s.srcKilled = false → s.src = [])) :
    Inv (finishKid s i t) := by
  obtain ⟨⟨d1, d2, d3, d4, d5, d6⟩, hi, h1, h2, h3, h4, h5⟩ := h
  have hc := finishKid_srcCloses s i t hi
  have hp : ∃ t, (s.kid i).out ++ t = s.fetched := by
    cases hb : (s.kid i).buf with
    | none => exact (d2 i hi hb).1
    | some b => exact ⟨b, d1 i hi b hb⟩
  have hd : (finishKid s i t).srcDead = true ↔ (s.srcDead = true ∨ 0 < (finishKid s i t).srcCloses) := by
    simp only [St.srcDead, finishKid_srcEnded, finishKid_srcKilled]
    have := finishKid_srcCloses_mono s i t
    grind
  refine ⟨⟨?_, ?_, ?_, ?_, ?_, ?_⟩, ?_, ?_, ?_, ?_, ?_⟩ <;>
    simp only [finishKid_kid _ _ _ _ hi, finishKid_length, finishKid_fetched, finishKid_src,
      finishKid_srcEnded, finishKid_srcKilled, finishKid_withLock, finishKid_holder, finishKid_overlap,
      safe_finishKid, noSusp_finishKid, Child.finished]
  · grind [isFetching]
  · grind [isFetching]
  · grind [isFetching]
  · grind [isFetching]
  · grind [isFetching]
  · grind [isFetching]
  · grind [isFetching]
  · grind [isFetching]
  · grind [isFetching]
  · grind [isFetching]
  · grind [isFetching]



theorem Rest.popYield_inv {s : St} {i : Nat} (h : Rest s i) (ht : (s.kid i).task = .active) :
    Inv (popYield s i).1 := by
  unfold popYield
  split
  · exact h.pop _ _ ‹_› ht
  · exact h.finish .failed (by simp)

/-- states that differ only in fields the data invariant does not read -/
theorem DInv.of_eq {s s' : St} (h : DInv s) (hk : s'.kids = s.kids) (hf : s'.fetched = s.fetched)
    (hs : s'.src = s.src) (hc : s'.srcCloses = s.srcCloses) (he : s'.srcEnded = s.srcEnded)
    (hx : s'.srcKilled = s.srcKilled) (hw : s'.withLock = s.withLock) (hp : s'.suspPat = s.suspPat)
    (ho : s'.overlap = s.overlap) : DInv s' := by
  have hkid : ∀ j, s'.kid j = s.kid j := by intro j; simp [St.kid, hk]
  have hsafe : Safe s' ↔ Safe s := by simp [Safe, NoSusp, hw, hp]
  have hdead : s'.srcDead = s.srcDead := by simp [St.srcDead, he, hx, hc]
  obtain ⟨d1, d2, d3, d4, d5, d6⟩ := h
  refine ⟨?_, ?_, ?_, ?_, ?_, ?_⟩ <;> simp only [hkid, hk, hf, hs, hc, he, hx, hsafe, hdead, ho] <;> assumption

theorem Mid.release_rest {s : St} {i : Nat} (h : Mid s i) : Rest (release s i) i := by
  obtain ⟨d, hi, hl, ha, m1, m2, m3, m4, m5, m6, m7⟩ := h
  have hsafe : Safe (release s i) ↔ Safe s := by simp [Safe, NoSusp]
  have hns : NoSusp (release s i) ↔ NoSusp s := by simp [NoSusp]
  refine ⟨d.of_eq (by simp) (by simp) (by simp) (by simp) (by simp) (by simp) (by simp) (by simp) (by simp),
    by simpa using hi, ?_, ?_, ?_, ?_, ?_⟩ <;>
    simp only [release_kid, release_kids, release_withLock, release_holder, hsafe, hns]
  · grind
  · grind
  · grind
  · grind
  · grind



/-- the source reports its end while child `i` is inside the lock -/
theorem Mid.srcEnd {s : St} {i : Nat} (h : Mid s i) (hs : s.src = []) :
    Mid { s with srcEnded := true } i := by
  obtain ⟨⟨d1, d2, d3, d4, d5, d6⟩, hi, hl, ha, m1, m2, m3, m4, m5, m6, m7⟩ := h
  refine ⟨⟨d1, d2, d3, fun _ => hs, ?_, d6⟩, hi, hl, ha, m1, m2, m3, m4, m5, m6, m7⟩
  intro hsafe j hj ht
  have := d5 hsafe j hj ht
  simp only [St.srcDead] at this ⊢
  refine ⟨this.1, by simp, fun _ => hs⟩

/-- the source returns an item while child `i` is inside the lock: it goes to every registered
    buffer, and the lock is released -/
theorem Mid.fetch_rest {s : St} {i : Nat} (h : Mid s i) (v : Val) (r : List Val)
    (hd : s.srcDead = false) (hs : s.src = v :: r) :
    Rest (release (broadcast { s with src := r, fetched := s.fetched ++ [v] } v) i) i := by
  obtain ⟨⟨d1, d2, d3, d4, d5, d6⟩, hi, hl, ha, m1, m2, m3, m4, m5, m6, m7⟩ := h
  simp only [St.srcDead, Bool.or_eq_false_iff, decide_eq_false_iff_not] at hd
  have hsafe : ∀ s', s'.withLock = s.withLock → s'.suspPat = s.suspPat → (Safe s' ↔ Safe s) := by
    intro s' a b; simp [Safe, NoSusp, a, b]
  have hns : ∀ s', s'.suspPat = s.suspPat → (NoSusp s' ↔ NoSusp s) := by
    intro s' b; simp [NoSusp, b]
  have hkid : ∀ j, j < s.kids.length →
      (release (broadcast { s with src := r, fetched := s.fetched ++ [v] } v) i).kid j
        = { s.kid j with buf := (s.kid j).buf.map (· ++ [v]) } := by
    intro j hj
    rw [release_kid, kid_broadcast _ _ _ (by simpa using hj)]
    rfl
  have hlen : (release (broadcast { s with src := r, fetched := s.fetched ++ [v] } v) i).kids.length
      = s.kids.length := by simp
  refine ⟨⟨?_, ?_, ?_, ?_, ?_, ?_⟩, by simpa using hi, ?_, ?_, ?_, ?_, ?_⟩
  all_goals simp only [hlen, release_fetched, broadcast_fetched, release_srcCloses, broadcast_srcCloses,
    release_srcEnded, broadcast_srcEnded, release_src, broadcast_src, release_withLock,
    broadcast_withLock, release_holder, broadcast_holder, release_overlap, broadcast_overlap,
    release_srcKilled, broadcast_srcKilled]
  · intro j hj b; rw [hkid j hj]
    cases hb : (s.kid j).buf with
    | none => simp
    | some b0 =>
      simp only [Option.map_some, Option.some.injEq]
      intro e; subst e; rw [← d1 j hj b0 hb]; simp
  · intro j hj; rw [hkid j hj]
    cases hb : (s.kid j).buf with
    | none =>
      simp only [Option.map_none, true_implies]
      obtain ⟨⟨t, ht⟩, hp⟩ := d2 j hj hb
      exact ⟨⟨t ++ [v], by rw [← List.append_assoc, ht]⟩, hp⟩
    | some b0 => simp
  · grind
  · grind
  · rw [hsafe _ (by simp) (by simp)]
    intro hsf j hj; rw [hkid j hj]; have := d5 hsf j hj
    simp only [St.srcDead]; grind
  · rw [hsafe _ (by simp) (by simp)]; exact d6
  · grind
  · intro hw j hj hne; rw [hkid j hj]; have := m3 hw j hj hne; grind
  · intro j hj hne; rw [hkid j hj]; exact m4 j hj hne
  · rw [hsafe _ (by simp) (by simp)]
    intro hsf j hj hne; rw [hkid j hj]
    intro hf
    have := m6 hsf j hj hne hf
    -- a fetching child other than `i` cannot exist under the precondition
    rcases hsf with hw | hn
    · have := m3 hw j hj hne; simp_all
    · cases hw : s.withLock with
      | true => have := m3 hw j hj hne; simp_all
      | false => have := m7 hw hn j hj hne; simp_all
  · rw [hns _ (by simp)]
    intro hw hn j hj hne; rw [hkid j hj]; exact m7 hw hn j hj hne



/-- what a child that ends by itself has yielded -/
theorem Mid.ended_ok {s : St} {i : Nat} (h : Mid s i) (hd : s.srcDead = true) (hsafe : Safe s) :
    (s.kid i).out = s.fetched ∧ s.srcDead = true ∧ (s.srcKilled = false → s.src = []) := by
  obtain ⟨⟨d1, d2, d3, d4, d5, d6⟩, hi, hl, ha, m1, m2, m3, m4, m5, m6, m7⟩ := h
  have hb := m5 hsafe
  have ho := d1 i hi [] hb
  simp only [List.append_nil] at ho
  refine ⟨ho, hd, ?_⟩
  intro hk
  simp only [St.srcDead, Bool.or_eq_true, decide_eq_true_eq] at hd
  rcases hd with (he | hk') | hc
  · exact d4 he
  · simp_all
  · have := d3 hc i hi; simp_all

theorem Mid.completeFetch_inv {s : St} {i : Nat} (h : Mid s i) : Inv (completeFetch s i).1 := by
  unfold completeFetch
  split
  · rename_i hd
    refine h.release_rest.finish .ended ?_
    intro _ hsafe
    have hsafe' : Safe s := by simpa [Safe, NoSusp] using hsafe
    have := h.ended_ok hd hsafe'
    simpa [St.srcDead] using this
  · rename_i hd
    split
    · rename_i hs
      have h' := h.srcEnd hs
      refine h'.release_rest.finish .ended ?_
      intro _ hsafe
      have hsafe' : Safe { s with srcEnded := true } := by simpa [Safe, NoSusp] using hsafe
      have := h'.ended_ok (by simp [St.srcDead]) hsafe'
      simpa [St.srcDead] using this
    · rename_i v r hs
      have hr := h.fetch_rest v r (by simpa using hd) hs
      apply hr.popYield_inv
      rw [release_kid, kid_broadcast _ _ _ (by simpa using h.hi)]
      exact h.act



/-- under the precondition nobody else is inside the source when child `i` enters it -/
theorem Mid.no_overlap {s : St} {i : Nat} (h : Mid s i) (hf : isFetching (s.kid i).pc = false)
    (hsafe : Safe s) : s.kids.any (fun c => isFetching c.pc) = false := by
  cases hany : s.kids.any (fun c => isFetching c.pc) with
  | false => rfl
  | true =>
    obtain ⟨j, hj, hfj⟩ := (any_fetching_iff s).1 hany
    by_cases hji : j = i
    · subst hji; simp_all
    · cases hw : s.withLock with
      | true => have := h.others hw j hj hji; simp_all
      | false =>
        rcases hsafe with hw' | hn
        · simp_all
        · have := h.noFetch hw hn j hj hji; simp_all

theorem Mid.of_eq {s s' : St} {i : Nat} (h : Mid s i) (hk : s'.kids = s.kids)
    (hf : s'.fetched = s.fetched) (hs : s'.src = s.src) (hc : s'.srcCloses = s.srcCloses)
    (he : s'.srcEnded = s.srcEnded) (hx : s'.srcKilled = s.srcKilled)
    (hw : s'.withLock = s.withLock) (hp : s'.suspPat = s.suspPat) (ho : s'.overlap = s.overlap)
    (hh : s'.holder = s.holder) : Mid s' i := by
  have hkid : ∀ j, s'.kid j = s.kid j := by intro j; simp [St.kid, hk]
  have hsafe : Safe s' ↔ Safe s := by simp [Safe, NoSusp, hw, hp]
  have hns : NoSusp s' ↔ NoSusp s := by simp [NoSusp, hp]
  obtain ⟨d, hi, hl, ha, m1, m2, m3, m4, m5, m6, m7⟩ := h
  refine ⟨d.of_eq hk hf hs hc he hx hw hp ho, ?_, ?_, ?_, ?_, ?_, ?_, ?_, ?_, ?_, ?_⟩ <;>
    simp only [hkid, hk, hw, hh, hsafe, hns] <;> assumption

/-- child `i` suspends inside the source -/
theorem Mid.suspend {s : St} {i : Nat} (h : Mid s i) (k : Nat)
    (hnn : s.withLock = false → ¬ NoSusp s) :
    Inv (s.setKid i { (s.kid i) with pc := .fetching k }) := by
  obtain ⟨⟨d1, d2, d3, d4, d5, d6⟩, hi, hl, ha, m1, m2, m3, m4, m5, m6, m7⟩ := h
  have hb : (s.kid i).buf ≠ none := fun e => hl (d2 i hi e).2
  refine ⟨⟨?_, ?_, ?_, ?_, ?_, ?_⟩, ?_, ?_, ?_, ?_, ?_⟩ <;>
    simp only [kid_setKid _ _ _ _ hi, length_setKid, setKid_fetched, setKid_src, setKid_srcCloses,
      setKid_srcEnded, setKid_srcKilled, setKid_withLock, setKid_holder, setKid_overlap,
      safe_setKid, srcDead_setKid, noSusp_setKid]
  · grind [isFetching]
  · grind [isFetching]
  · grind [isFetching]
  · grind [isFetching]
  · grind [isFetching]
  · grind [isFetching]
  · intro h' hh
    cases hw : s.withLock with
    | false => have := m2 hw; simp_all
    | true => have := m1 hw; simp_all [isFetching]
  · intro hw j hj; have := m3 hw j hj; have := m1 hw; grind [isFetching]
  · grind [isFetching]
  · grind [isFetching]
  · intro hw hn; exact absurd hn (hnn hw)

theorem Mid.startFetch_inv {s : St} {i : Nat} (h : Mid s i)
    (hf : isFetching (s.kid i).pc = false) : Inv (startFetch s i).1 := by
  have h1 : Mid { s with overlap := s.overlap || s.kids.any (fun c => isFetching c.pc) } i := by
    obtain ⟨⟨d1, d2, d3, d4, d5, d6⟩, hi, hl, ha, m1, m2, m3, m4, m5, m6, m7⟩ := h
    refine ⟨⟨d1, d2, d3, d4, d5, ?_⟩, hi, hl, ha, m1, m2, m3, m4, m5, m6, m7⟩
    intro hsafe
    have hm : Mid s i := ⟨⟨d1, d2, d3, d4, d5, d6⟩, hi, hl, ha, m1, m2, m3, m4, m5, m6, m7⟩
    have a := d6 hsafe
    have b := hm.no_overlap hf hsafe
    show (s.overlap || s.kids.any fun c => isFetching c.pc) = false
    rw [a, b]; rfl
  unfold startFetch
  simp only []
  split
  · exact h1.completeFetch_inv
  · have h2 : Mid { s with overlap := s.overlap || s.kids.any (fun c => isFetching c.pc),
                           pulls := s.pulls + 1 } i :=
      h1.of_eq rfl rfl rfl rfl rfl rfl rfl rfl rfl rfl
    split
    · exact h2.completeFetch_inv
    · rename_i k hk
      refine h2.suspend k ?_
      intro _ hn
      exact absurd ((hn _).symm.trans hk) (by omega)



theorem Rest.of_eq {s s' : St} {i : Nat} (h : Rest s i) (hk : s'.kids = s.kids)
    (hf : s'.fetched = s.fetched) (hs : s'.src = s.src) (hc : s'.srcCloses = s.srcCloses)
    (he : s'.srcEnded = s.srcEnded) (hx : s'.srcKilled = s.srcKilled)
    (hw : s'.withLock = s.withLock) (hp : s'.suspPat = s.suspPat) (ho : s'.overlap = s.overlap)
    (hh : s'.holder = s.holder) : Rest s' i := by
  have hkid : ∀ j, s'.kid j = s.kid j := by intro j; simp [St.kid, hk]
  have hsafe : Safe s' ↔ Safe s := by simp [Safe, NoSusp, hw, hp]
  have hns : NoSusp s' ↔ NoSusp s := by simp [NoSusp, hp]
  obtain ⟨d, hi, h1, h2, h3, h4, h5⟩ := h
  refine ⟨d.of_eq hk hf hs hc he hx hw hp ho, ?_, ?_, ?_, ?_, ?_, ?_⟩ <;>
    simp only [hkid, hk, hw, hh, hsafe, hns] <;> assumption

theorem Inv.buf_ne_none {s : St} (h : Inv s) (i : Nat) (hi : i < s.kids.length)
    (hl : (s.kid i).pc ≠ .done) : (s.kid i).buf ≠ none :=
  fun e => hl (h.d.unreg i hi e).2

theorem Inv.holder_none_of_nolock {s : St} (h : Inv s) (hw : s.withLock = false) : s.holder = none := by
  cases hh : s.holder with
  | none => rfl
  | some x => have := (h.holder_lt x hh).2.1; simp_all

/-- `lock.__aenter__` returns for child `i` -/
theorem Inv.enterCritical_inv {s : St} (h : Inv s) (i : Nat) (hi : i < s.kids.length)
    (hh : s.holder = none) (ha : (s.kid i).task = .active) (hl : (s.kid i).pc ≠ .done)
    (hf : isFetching (s.kid i).pc = false) : Inv (enterCritical s i).1 := by
  unfold enterCritical
  simp only []
  have hkid : ∀ j, (if s.withLock = true then { s with holder := some i } else s).kid j = s.kid j := by
    intro j; split <;> rfl
  rw [hkid]
  have hrest := h.rest i hi hf
  split
  · rename_i a b hb
    have hr : Rest (release (if s.withLock = true then { s with holder := some i } else s) i) i := by
      refine hrest.of_eq ?_ ?_ ?_ ?_ ?_ ?_ ?_ ?_ ?_ ?_
      all_goals (split <;> simp [release_holder, hh])
    apply hr.popYield_inv
    rw [release_kid, hkid]; exact ha
  · rename_i hb
    have hbuf : (s.kid i).buf = some [] := by
      cases hb' : (s.kid i).buf with
      | none => exact absurd hb' (h.buf_ne_none i hi hl)
      | some b =>
        cases b with
        | nil => rfl
        | cons x y => exact absurd hb' (hb x y)
    have hm : Mid (if s.withLock = true then { s with holder := some i } else s) i := by
      obtain ⟨d, h1, h2, h3, h4, h5⟩ := h
      have hnf : s.withLock = true → ∀ j, j < s.kids.length → isFetching (s.kid j).pc = false := by
        intro hw j hj
        cases hfj : isFetching (s.kid j).pc with
        | false => rfl
        | true => have := h2 hw j hj hfj; simp_all
      split
      · rename_i hw
        refine ⟨d.of_eq rfl rfl rfl rfl rfl rfl rfl rfl rfl, hi, hl, ha, fun _ => rfl,
          fun hw' => by simp_all, fun _ j hj _ => hnf hw j hj, fun j hj _ hx => h3 j hj hx,
          fun _ => hbuf, fun hs j hj _ hx => h4 hs j hj hx, fun a b j hj _ => h5 a b j hj⟩
      · rename_i hw
        refine ⟨d, hi, hl, ha, fun hw' => absurd hw' hw, fun _ => hh, fun hw' => absurd hw' hw,
          fun j hj _ hx => h3 j hj hx, fun _ => hbuf, fun hs j hj _ hx => h4 hs j hj hx,
          fun a b j hj _ => h5 a b j hj⟩
    apply hm.startFetch_inv
    rw [hkid]; exact hf

/-- top of the loop of `tee_peer` -/
theorem Inv.loopTop_inv {s : St} (h : Inv s) (i : Nat) (hi : i < s.kids.length)
    (ha : (s.kid i).task = .active) (hl : (s.kid i).pc ≠ .done)
    (hf : isFetching (s.kid i).pc = false) : Inv (loopTop s i).1 := by
  unfold loopTop
  split
  · exact (h.rest i hi hf).popYield_inv ha
  · split
    · refine (h.rest i hi hf).setKid _ rfl rfl rfl (fun _ => ha) ?_ (fun e => by simp_all)
      intro e; exact absurd e (h.buf_ne_none i hi hl)
    · rename_i hc
      have hh : s.holder = none := by
        cases hh' : s.holder with
        | none => rfl
        | some x => have := (h.holder_lt x hh').2.1; simp_all
      exact h.enterCritical_inv i hi hh ha hl hf

theorem Inv.sched_inv {s : St} (h : Inv s) (i : Nat) (hi : i < s.kids.length) :
    Inv (sched s i).1 := by
  unfold sched
  split
  · rename_i ha
    split
    · rename_i hp
      refine (h.rest i hi (by simp [hp, isFetching])).setKid _ rfl rfl (by simp [hp, isFetching])
        (by simp [hp]) (by simp [hp]) (by simp)
    · rename_i hp; exact h.loopTop_inv i hi ha (by simp [hp]) (by simp [hp, isFetching])
    · rename_i hp; exact h.loopTop_inv i hi ha (by simp [hp]) (by simp [hp, isFetching])
    · rename_i hp
      split
      · exact h
      · rename_i hh
        exact h.enterCritical_inv i hi (by simpa using hh) ha (by simp [hp]) (by simp [hp, isFetching])
    · rename_i hp
      exact (h.mid i hi (by simp [hp, isFetching])).completeFetch_inv
    · rename_i k hp
      refine (h.mid i hi (by simp [hp, isFetching])).suspend k ?_
      intro hw hn
      have := h.noFetch hw hn i hi
      simp [hp, isFetching] at this
  · exact h



theorem Inv.closeKid_inv {s : St} (h : Inv s) (i : Nat) (hi : i < s.kids.length) :
    Inv (closeKid s i).1 := by
  unfold closeKid
  split
  · rename_i hp
    exact (h.rest i hi (by simp [hp, isFetching])).setKid _ rfl rfl (by simp [isFetching])
      (by simp) (by simp) (by simp)
  · rename_i hp
    refine (h.rest i hi (by simp [hp, isFetching])).finish _ ?_
    intro ht hs
    exact h.d.taskEnded hs i hi ht
  · exact h
  · exact h

theorem Mid.kill {s : St} {i : Nat} (h : Mid s i) : Mid { s with srcKilled := true } i := by
  obtain ⟨⟨d1, d2, d3, d4, d5, d6⟩, hi, hl, ha, m1, m2, m3, m4, m5, m6, m7⟩ := h
  refine ⟨⟨d1, d2, d3, d4, ?_, d6⟩, hi, hl, ha, m1, m2, m3, m4, m5, m6, m7⟩
  intro hsafe j hj ht
  have := d5 hsafe j hj ht
  refine ⟨this.1, by simp [St.srcDead], by simp⟩

theorem Inv.cancel_inv {s : St} (h : Inv s) (i : Nat) (hi : i < s.kids.length) :
    Inv (cancel s i).1 := by
  unfold cancel
  split
  · rename_i ha
    split
    · rename_i hp
      exact (h.rest i hi (by simp [hp, isFetching])).finish _ (by simp)
    · rename_i k hp
      have hm := h.mid i hi (by simp [hp, isFetching])
      simp only []
      have hm' : Mid (if s.diesOnCancel = true then { s with srcKilled := true } else s) i := by
        split
        · exact hm.kill
        · exact hm
      exact hm'.release_rest.finish _ (by simp)
    · rename_i hp1 hp2
      have hf : isFetching (s.kid i).pc = false := by
        cases hpc : (s.kid i).pc with
        | fetching k => exact absurd hpc (hp2 k)
        | _ => rfl
      refine (h.rest i hi hf).setKid _ rfl rfl hf (fun e => absurd e hp1) ?_ (by simp)
      intro e; exact (h.d.unreg i hi e).2
  · exact h

@[simp] theorem popYield_length (s : St) (i : Nat) : (popYield s i).1.kids.length = s.kids.length := by
  unfold popYield; split <;> simp

@[simp] theorem closeKid_length (s : St) (i : Nat) : (closeKid s i).1.kids.length = s.kids.length := by
  unfold closeKid; split <;> simp

theorem Inv.closeFrom_inv {s : St} (h : Inv s) (l : List Nat) (hl : ∀ i ∈ l, i < s.kids.length) :
    Inv (closeFrom s l).1 := by
  induction l generalizing s with
  | nil => exact h
  | cons i rest ih =>
    unfold closeFrom
    have hi : i < s.kids.length := hl i (by simp)
    have h1 := h.closeKid_inv i hi
    have hlen := closeKid_length s i
    split
    · rename_i s' heq
      have : s' = (closeKid s i).1 := by rw [heq]
      rw [this]; exact h1
    · rename_i s' o hne heq
      have : s' = (closeKid s i).1 := by rw [heq]
      rw [this]
      apply ih h1
      intro j hj
      rw [hlen]; exact hl j (by simp [hj])

/-! ### `Tee.aclose`: the loop over the children, then `self._buffers.clear()` and closing the source -/

theorem closeFrom_cons (s : St) (i : Nat) (rest : List Nat) :
    closeFrom s (i :: rest) =
      if (closeKid s i).2 = .busy then ((closeKid s i).1, .busy) else closeFrom (closeKid s i).1 rest := by
  rw [closeFrom]
  split
  · rename_i s' heq; simp [heq]
  · rename_i s' o hne heq
    have : o ≠ .busy := hne
    simp [heq, this]

@[simp] theorem closeFrom_length (s : St) (l : List Nat) : (closeFrom s l).1.kids.length = s.kids.length := by
  induction l generalizing s with
  | nil => rfl
  | cons i rest ih => rw [closeFrom_cons]; split <;> simp [ih]

theorem closeKid_pc_done (s : St) (i : Nat) (hi : i < s.kids.length) (hb : (closeKid s i).2 ≠ .busy) :
    ((closeKid s i).1.kid i).pc = .done := by
  cases hp : (s.kid i).pc <;> simp [closeKid, hp] at hb ⊢
  · simp [kid_setKid _ _ _ _ hi]
  · simp [finishKid_kid _ _ _ _ hi, Child.finished]

theorem closeKid_keeps_done (s : St) (i j : Nat) (hi : i < s.kids.length) (hd : (s.kid j).pc = .done) :
    ((closeKid s i).1.kid j).pc = .done := by
  by_cases hji : j = i
  · subst hji; simp [closeKid, hd]
  · cases hp : (s.kid i).pc <;>
      simp [closeKid, hp, kid_setKid _ _ _ _ hi, finishKid_kid _ _ _ _ hi, hji, hd]

theorem closeFrom_keeps_done (s : St) (l : List Nat) (hl : ∀ i ∈ l, i < s.kids.length) (j : Nat)
    (hd : (s.kid j).pc = .done) : ((closeFrom s l).1.kid j).pc = .done := by
  induction l generalizing s with
  | nil => exact hd
  | cons i rest ih =>
    have hi : i < s.kids.length := hl i (by simp)
    have h1 := closeKid_keeps_done s i j hi hd
    rw [closeFrom_cons]
    split
    · exact h1
    · exact ih _ (by intro k hk; rw [closeKid_length]; exact hl k (by simp [hk])) h1

/-- a `Tee.aclose` loop that no child aborted has closed every child it went over -/
theorem closeFrom_pc_done (s : St) (l : List Nat) (hl : ∀ i ∈ l, i < s.kids.length)
    (hb : (closeFrom s l).2 ≠ .busy) : ∀ i ∈ l, ((closeFrom s l).1.kid i).pc = .done := by
  induction l generalizing s with
  | nil => intro i hi; simp at hi
  | cons i rest ih =>
    have hi : i < s.kids.length := hl i (by simp)
    have hl' : ∀ k ∈ rest, k < (closeKid s i).1.kids.length := by
      intro k hk; rw [closeKid_length]; exact hl k (by simp [hk])
    rw [closeFrom_cons] at hb ⊢
    split
    · rename_i hbusy; simp [hbusy] at hb
    · rename_i hnb
      simp only [hnb, if_false] at hb
      intro k hk
      rcases List.mem_cons.1 hk with e | hk'
      · subst e; exact closeFrom_keeps_done _ rest hl' k (closeKid_pc_done s k hi hnb)
      · exact ih _ hl' hb k hk'

theorem kid_clear (s : St) (j : Nat) (hj : j < s.kids.length) :
    ({ s with kids := s.kids.map fun (c : Child) => { c with buf := none } } : St).kid j
      = { s.kid j with buf := none } := by
  simp [St.kid, List.getD_eq_getElem?_getD, hj]

theorem any_some_iff (s : St) :
    s.kids.any (fun c => c.buf.isSome) = false ↔ ∀ j, j < s.kids.length → (s.kid j).buf = none := by
  rw [← all_none_iff]
  induction s.kids with
  | nil => simp
  | cons c r ih => cases hb : c.buf <;> simp [hb, ih]

@[simp] theorem clearBuffers_length (s : St) : (clearBuffers s).kids.length = s.kids.length := by
  unfold clearBuffers; simp only []; split <;> (try split) <;> simp
@[simp] theorem clearBuffers_fetched (s : St) : (clearBuffers s).fetched = s.fetched := by
  unfold clearBuffers; simp only []; split <;> (try split) <;> rfl
@[simp] theorem clearBuffers_src (s : St) : (clearBuffers s).src = s.src := by
  unfold clearBuffers; simp only []; split <;> (try split) <;> rfl
@[simp] theorem clearBuffers_srcEnded (s : St) : (clearBuffers s).srcEnded = s.srcEnded := by
  unfold clearBuffers; simp only []; split <;> (try split) <;> rfl
@[simp] theorem clearBuffers_srcKilled (s : St) : (clearBuffers s).srcKilled = s.srcKilled := by
  unfold clearBuffers; simp only []; split <;> (try split) <;> rfl
@[simp] theorem clearBuffers_withLock (s : St) : (clearBuffers s).withLock = s.withLock := by
  unfold clearBuffers; simp only []; split <;> (try split) <;> rfl
@[simp] theorem clearBuffers_suspPat (s : St) : (clearBuffers s).suspPat = s.suspPat := by
  unfold clearBuffers; simp only []; split <;> (try split) <;> rfl
@[simp] theorem clearBuffers_holder (s : St) : (clearBuffers s).holder = s.holder := by
  unfold clearBuffers; simp only []; split <;> (try split) <;> rfl
@[simp] theorem clearBuffers_overlap (s : St) : (clearBuffers s).overlap = s.overlap := by
  unfold clearBuffers; simp only []; split <;> (try split) <;> rfl
@[simp] theorem clearBuffers_closeable (s : St) : (clearBuffers s).closeable = s.closeable := by
  unfold clearBuffers; simp only []; split <;> (try split) <;> rfl
theorem clearBuffers_srcCloses_mono (s : St) : s.srcCloses ≤ (clearBuffers s).srcCloses := by
  unfold clearBuffers; simp only []; split <;> (try split) <;> simp

/-- `self._buffers.clear()`: every child keeps everything but its registration -/
theorem clearBuffers_kid (s : St) (j : Nat) (hj : j < s.kids.length) :
    (clearBuffers s).kid j = { s.kid j with buf := none } := by
  unfold clearBuffers; simp only []
  split
  · split
    · exact kid_clear s j hj
    · exact kid_clear s j hj
  · rename_i h
    have := (any_some_iff s).1 (by simpa using h) j hj
    cases hc : s.kid j with
    | mk pc buf out task => rw [hc] at this; simp at this; subst this; rfl

/-- `Tee.aclose` closes the source itself if a buffer was still registered -/
theorem clearBuffers_srcCloses_of_any (s : St) (hany : s.kids.any (fun c => c.buf.isSome) = true)
    (hc : s.closeable = true) : (clearBuffers s).srcCloses = s.srcCloses + 1 := by
  unfold clearBuffers; simp only [hany, if_true]
  split
  · rfl
  · rename_i h; exact absurd hc h

theorem clearBuffers_srcCloses (s : St) (j : Nat) (hj : j < s.kids.length) (hb : (s.kid j).buf ≠ none)
    (hc : s.closeable = true) : (clearBuffers s).srcCloses = s.srcCloses + 1 := by
  refine clearBuffers_srcCloses_of_any s ?_ hc
  cases h : s.kids.any (fun c => c.buf.isSome) with
  | true => rfl
  | false => exact absurd ((any_some_iff s).1 h j hj) hb

theorem Inv.clearBuffers_inv {s : St} (h : Inv s)
    (hd : ∀ j, j < s.kids.length → (s.kid j).pc = .done) : Inv (clearBuffers s) := by
  obtain ⟨⟨d1, d2, d3, d4, d5, d6⟩, h1, h2, h3, h4, h5⟩ := h
  have hk := clearBuffers_kid s
  have hdead : s.srcDead = true → (clearBuffers s).srcDead = true := by
    have := clearBuffers_srcCloses_mono s
    simp only [St.srcDead, clearBuffers_srcEnded, clearBuffers_srcKilled, Bool.or_eq_true, decide_eq_true_eq]
    intro h; rcases h with h | h
    · exact Or.inl h
    · exact Or.inr (by omega)
  have hsafe : Safe (clearBuffers s) ↔ Safe s := by simp [Safe, NoSusp]
  have hns : NoSusp (clearBuffers s) ↔ NoSusp s := by simp [NoSusp]
  refine ⟨⟨?_, ?_, ?_, ?_, ?_, ?_⟩, ?_, ?_, ?_, ?_, ?_⟩ <;>
    simp only [clearBuffers_length, clearBuffers_fetched, clearBuffers_src, clearBuffers_srcEnded,
      clearBuffers_srcKilled, clearBuffers_withLock, clearBuffers_holder, clearBuffers_overlap, hsafe, hns]
  · intro j hj b hb; rw [hk j hj] at hb; simp at hb
  · intro j hj _; rw [hk j hj]
    refine ⟨?_, hd j hj⟩
    cases hb : (s.kid j).buf with
    | none => exact (d2 j hj hb).1
    | some b => exact ⟨b, d1 j hj b hb⟩
  · intro _ j hj; rw [hk j hj]
  · exact d4
  · intro hs j hj ht; rw [hk j hj] at ht ⊢
    have := d5 hs j hj ht
    exact ⟨this.1, hdead this.2.1, this.2.2⟩
  · exact d6
  · intro x hx; have := h1 x hx; rw [hk x this.1]; exact this
  · intro hw j hj; rw [hk j hj]; exact h2 hw j hj
  · intro j hj; rw [hk j hj]; exact h3 j hj
  · intro _ j hj; rw [hk j hj]; intro hf
    have := hd j hj
    simp [this, isFetching] at hf
  · intro hw hn j hj; rw [hk j hj]; exact h5 hw hn j hj

/-- `Tee.aclose` was aborted by a busy child: only the loop ran -/
theorem closeAll_busy (s : St) (hb : (closeFrom s (List.range s.kids.length)).2 = .busy) :
    closeAll s = closeFrom s (List.range s.kids.length) := by
  unfold closeAll; simp only [hb]

/-- `Tee.aclose` went over all children: the rest is unregistered -/
theorem closeAll_not_busy (s : St) (hb : (closeFrom s (List.range s.kids.length)).2 ≠ .busy) :
    closeAll s = (clearBuffers (closeFrom s (List.range s.kids.length)).1,
      (closeFrom s (List.range s.kids.length)).2) := by
  unfold closeAll; simp only []

theorem closeAll_out_busy (s : St) :
    (closeAll s).2 = .busy ↔ (closeFrom s (List.range s.kids.length)).2 = .busy := by
  by_cases hb : (closeFrom s (List.range s.kids.length)).2 = .busy
  · rw [closeAll_busy s hb]
  · rw [closeAll_not_busy s hb]

@[simp] theorem closeAll_length (s : St) : (closeAll s).1.kids.length = s.kids.length := by
  by_cases hb : (closeFrom s (List.range s.kids.length)).2 = .busy
  · rw [closeAll_busy s hb]; simp
  · rw [closeAll_not_busy s hb]; simp

theorem range_lt (s : St) : ∀ i ∈ List.range s.kids.length, i < s.kids.length := by
  intro i hi; simpa using hi

theorem Inv.closeAll_inv {s : St} (h : Inv s) : Inv (closeAll s).1 := by
  have h1 := h.closeFrom_inv _ (range_lt s)
  by_cases hb : (closeFrom s (List.range s.kids.length)).2 = .busy
  · rw [closeAll_busy s hb]; exact h1
  · rw [closeAll_not_busy s hb]
    refine h1.clearBuffers_inv ?_
    intro j hj
    rw [closeFrom_length] at hj
    exact closeFrom_pc_done s _ (range_lt s) hb j (by simpa using hj)

theorem Inv.step_inv {s : St} (h : Inv s) (op : Op) : Inv (step s op).1 := by
  cases op with
  | sched i => simp only [step]; split; exact h.sched_inv i ‹_›; exact h
  | close i => simp only [step]; split; exact h.closeKid_inv i ‹_›; exact h
  | cancel i => simp only [step]; split; exact h.cancel_inv i ‹_›; exact h
  | closeAll => exact h.closeAll_inv

theorem Inv.runOps_inv {s : St} (h : Inv s) (ops : List Op) : Inv (runOps s ops) := by
  induction ops generalizing s with
  | nil => exact h
  | cons op rest ih => exact ih (h.step_inv op)

theorem kid_init (items : List Val) (n : Nat) (susp : List Nat) (lock closeable dies : Bool) (j : Nat) :
    (init items n susp lock closeable dies).kid j = {} := by
  simp only [St.kid, init, List.getD_eq_getElem?_getD]
  by_cases hj : j < n
  · simp [hj]
  · simp [hj]

theorem init_inv (items : List Val) (n : Nat) (susp : List Nat) (lock closeable dies : Bool) :
    Inv (init items n susp lock closeable dies) := by
  refine ⟨⟨?_, ?_, ?_, ?_, ?_, ?_⟩, ?_, ?_, ?_, ?_, ?_⟩
  · intro j _ b; rw [kid_init]; simp [init]
  · intro j _; rw [kid_init]; simp
  · simp [init]
  · simp [init]
  · intro _ j _; rw [kid_init]; simp
  · simp [init]
  · simp [init]
  · intro _ j _; rw [kid_init]; simp [isFetching]
  · intro j _; rw [kid_init]; simp [isFetching]
  · intro _ j _; rw [kid_init]; simp [isFetching]
  · intro _ _ j _; rw [kid_init]; simp [isFetching]


/-! ## Each source item is fetched once -/


/-- everything the source has handed out plus everything it still holds -/
def St.total (s : St) : List Val := s.fetched ++ s.src

@[simp] theorem total_setKid (s : St) (i c) : (s.setKid i c).total = s.total := rfl
@[simp] theorem total_release (s : St) (i) : (release s i).total = s.total := by simp [St.total]
@[simp] theorem total_finishKid (s : St) (i t) : (finishKid s i t).total = s.total := by simp [St.total]
@[simp] theorem total_broadcast (s : St) (v) : (broadcast s v).total = s.total := rfl

@[simp] theorem total_popYield (s : St) (i) : (popYield s i).1.total = s.total := by
  unfold popYield; split <;> simp

@[simp] theorem total_completeFetch (s : St) (i) : (completeFetch s i).1.total = s.total := by
  unfold completeFetch
  split
  · simp
  · split
    · rw [total_finishKid, total_release]; simp [St.total]
    · rename_i v r hs
      rw [total_popYield, total_release, total_broadcast]; simp [St.total, hs]

@[simp] theorem total_startFetch (s : St) (i) : (startFetch s i).1.total = s.total := by
  unfold startFetch; simp only []
  split
  · rw [total_completeFetch]; rfl
  · split
    · rw [total_completeFetch]; rfl
    · rfl

@[simp] theorem total_enterCritical (s : St) (i) : (enterCritical s i).1.total = s.total := by
  unfold enterCritical; simp only []
  split
  · rw [total_popYield, total_release]; split <;> rfl
  · rw [total_startFetch]; split <;> rfl

@[simp] theorem total_loopTop (s : St) (i) : (loopTop s i).1.total = s.total := by
  unfold loopTop; split
  · simp
  · split <;> simp

@[simp] theorem total_sched (s : St) (i) : (sched s i).1.total = s.total := by
  unfold sched; split
  · split <;> try simp
    split <;> simp
  · rfl

@[simp] theorem total_closeKid (s : St) (i) : (closeKid s i).1.total = s.total := by
  unfold closeKid; split <;> simp

@[simp] theorem total_cancel (s : St) (i) : (cancel s i).1.total = s.total := by
  unfold cancel; split
  · split <;> simp
    split <;> rfl
  · rfl

@[simp] theorem total_closeFrom (s : St) (l) : (closeFrom s l).1.total = s.total := by
  induction l generalizing s with
  | nil => rfl
  | cons i rest ih =>
    unfold closeFrom
    split
    · rename_i s' heq
      have : s' = (closeKid s i).1 := by rw [heq]
      rw [this]; simp
    · rename_i s' o hne heq
      have : s' = (closeKid s i).1 := by rw [heq]
      rw [ih, this]; simp

@[simp] theorem total_clearBuffers (s : St) : (clearBuffers s).total = s.total := by simp [St.total]

@[simp] theorem total_closeAll (s : St) : (closeAll s).1.total = s.total := by
  by_cases hb : (closeFrom s (List.range s.kids.length)).2 = .busy
  · rw [closeAll_busy s hb]; simp
  · rw [closeAll_not_busy s hb]; simp

@[simp] theorem total_step (s : St) (op) : (step s op).1.total = s.total := by
  cases op <;> simp only [step] <;> (try split) <;> simp

theorem total_runOps (s : St) (ops) : (runOps s ops).total = s.total := by
  induction ops generalizing s with
  | nil => rfl
  | cons op rest ih => simp [runOps, ih]


/-! ## What one step may change -/


/-- what running child `i` (one `send`) may do to the children: the others keep their position,
    their consumer's state and what they have yielded, and stay registered iff they were;
    child `i` yields at most the one item that is reported -/
structure Eff (s s' : St) (i : Nat) (o : Out) : Prop where
  len : s'.kids.length = s.kids.length
  others : ∀ j, j < s.kids.length → j ≠ i →
    (s'.kid j).pc = (s.kid j).pc ∧ (s'.kid j).task = (s.kid j).task ∧
    (s'.kid j).out = (s.kid j).out ∧ ((s'.kid j).buf = none ↔ (s.kid j).buf = none)
  item : ∀ v, o = .item v → (s'.kid i).out = (s.kid i).out ++ [v]
  noitem : (∀ v, o ≠ .item v) → (s'.kid i).out = (s.kid i).out
  done : (s'.kid i).pc = .done → (s'.kid i).buf = none ∨
    ((s.kid i).pc = .done ∧ ((s'.kid i).buf = none ↔ (s.kid i).buf = none))

theorem Eff.of_kids {s0 s s' : St} {i : Nat} {o : Out} (h : Eff s0 s' i o) (hk : s0.kids = s.kids) :
    Eff s s' i o := by
  have hkid : ∀ j, s0.kid j = s.kid j := by intro j; simp [St.kid, hk]
  obtain ⟨e1, e2, e3, e4, e5⟩ := h
  refine ⟨?_, ?_, ?_, ?_, ?_⟩ <;> simp only [← hkid, ← hk] <;> assumption

theorem Eff.refl (s : St) (i : Nat) (o : Out) (ho : ∀ v, o ≠ .item v) : Eff s s i o := by
  refine ⟨rfl, ?_, ?_, ?_, ?_⟩
  · intro j _ _; exact ⟨rfl, rfl, rfl, Iff.rfl⟩
  · intro v hv; exact absurd hv (ho v)
  · intro _; rfl
  · intro hd
    by_cases hb : (s.kid i).buf = none
    · exact Or.inl hb
    · exact Or.inr ⟨hd, Iff.rfl⟩

/-- child `i` is replaced by `c'` -/
theorem Eff.setKid (s : St) (i : Nat) (hi : i < s.kids.length) (c' : Child) (o : Out)
    (h3 : ∀ v, o = .item v → c'.out = (s.kid i).out ++ [v])
    (h4 : (∀ v, o ≠ .item v) → c'.out = (s.kid i).out)
    (h5 : c'.pc = .done → c'.buf = none ∨ ((s.kid i).pc = .done ∧ (c'.buf = none ↔ (s.kid i).buf = none))) :
    Eff s (s.setKid i c') i o := by
  refine ⟨by simp, ?_, ?_, ?_, ?_⟩ <;> simp only [kid_setKid _ _ _ _ hi]
  · intro j _ hne; simp [hne]
  · simpa using h3
  · simpa using h4
  · simpa using h5

theorem finishKid_eff (s : St) (i : Nat) (hi : i < s.kids.length) (t : Task) (o : Out)
    (ho : ∀ v, o ≠ .item v) : Eff s (finishKid s i t) i o := by
  refine ⟨by simp, ?_, ?_, ?_, ?_⟩ <;> simp only [finishKid_kid _ _ _ _ hi]
  · intro j _ hne; simp [hne]
  · intro v hv; exact absurd hv (ho v)
  · intro _; simp [Child.finished]
  · intro _; simp [Child.finished]

theorem popYield_eff (s : St) (i : Nat) (hi : i < s.kids.length) :
    Eff s (popYield s i).1 i (popYield s i).2 := by
  unfold popYield
  split
  · refine Eff.setKid s i hi _ _ ?_ ?_ ?_
    · intro v hv; simp only [Out.item.injEq] at hv; subst hv; rfl
    · intro h; exact absurd rfl (h _)
    · intro h; simp at h
  · exact finishKid_eff s i hi _ _ (by simp)

/-- a broadcast in front of a step of child `i` -/
theorem Eff.after_broadcast {s s1 s' : St} {i : Nat} {o : Out} (v : Val) (hi : i < s.kids.length)
    (hk : s1.kids = (broadcast s v).kids) (h : Eff s1 s' i o) : Eff s s' i o := by
  have hlen : s1.kids.length = s.kids.length := by rw [hk]; simp
  have hkid : ∀ j, j < s.kids.length →
      s1.kid j = { s.kid j with buf := (s.kid j).buf.map (· ++ [v]) } := by
    intro j hj
    have : s1.kid j = (broadcast s v).kid j := by simp [St.kid, hk]
    rw [this, kid_broadcast _ _ _ hj]
  obtain ⟨e1, e2, e3, e4, e5⟩ := h
  refine ⟨by rw [e1, hlen], ?_, ?_, ?_, ?_⟩
  · intro j hj hne
    have := e2 j (by rw [hlen]; exact hj) hne
    rw [hkid j hj] at this
    refine ⟨this.1, this.2.1, this.2.2.1, ?_⟩
    rw [this.2.2.2]; simp
  · intro w hw; have := e3 w hw; rw [hkid i hi] at this; exact this
  · intro hw; have := e4 hw; rw [hkid i hi] at this; exact this
  · intro hd; have := e5 hd; rw [hkid i hi] at this
    rcases this with h | ⟨h1, h2⟩
    · exact Or.inl h
    · exact Or.inr ⟨h1, by rw [h2]; simp⟩

theorem completeFetch_eff (s : St) (i : Nat) (hi : i < s.kids.length) :
    Eff s (completeFetch s i).1 i (completeFetch s i).2 := by
  unfold completeFetch
  split
  · exact (finishKid_eff (release s i) i (by simpa using hi) _ _ (by simp)).of_kids (by simp)
  · split
    · exact (finishKid_eff (release { s with srcEnded := true } i) i (by simpa using hi) _ _
        (by simp)).of_kids (by simp)
    · rename_i v r _
      refine Eff.after_broadcast v hi ?_ (popYield_eff _ i (by simpa using hi))
      simp [broadcast]

theorem startFetch_eff (s : St) (i : Nat) (hi : i < s.kids.length) :
    Eff s (startFetch s i).1 i (startFetch s i).2 := by
  unfold startFetch
  simp only []
  split
  · exact (completeFetch_eff _ i (by simpa using hi)).of_kids rfl
  · split
    · exact (completeFetch_eff _ i (by simpa using hi)).of_kids rfl
    · refine (Eff.setKid _ i (by simpa using hi) _ _ ?_ ?_ ?_).of_kids rfl
      · intro v hv; simp at hv
      · intro _; rfl
      · intro h; simp at h

theorem enterCritical_eff (s : St) (i : Nat) (hi : i < s.kids.length) :
    Eff s (enterCritical s i).1 i (enterCritical s i).2 := by
  unfold enterCritical
  simp only []
  have hk : (if s.withLock = true then { s with holder := some i } else s).kids = s.kids := by
    split <;> rfl
  split
  · exact (popYield_eff _ i (by simpa [hk] using hi)).of_kids (by simp [hk])
  · exact (startFetch_eff _ i (by simpa [hk] using hi)).of_kids hk

theorem loopTop_eff (s : St) (i : Nat) (hi : i < s.kids.length) :
    Eff s (loopTop s i).1 i (loopTop s i).2 := by
  unfold loopTop
  split
  · exact popYield_eff s i hi
  · split
    · refine Eff.setKid _ i hi _ _ ?_ ?_ ?_
      · intro v hv; simp at hv
      · intro _; rfl
      · intro h; simp at h
    · exact enterCritical_eff s i hi

theorem sched_eff (s : St) (i : Nat) (hi : i < s.kids.length) :
    Eff s (sched s i).1 i (sched s i).2 := by
  unfold sched
  split
  · split
    · rename_i hp
      refine Eff.setKid _ i hi _ _ ?_ ?_ ?_
      · intro v hv; simp at hv
      · intro _; rfl
      · intro _; exact Or.inr ⟨hp, Iff.rfl⟩
    · exact loopTop_eff s i hi
    · exact loopTop_eff s i hi
    · split
      · exact Eff.refl s i _ (by simp)
      · exact enterCritical_eff s i hi
    · exact completeFetch_eff s i hi
    · refine Eff.setKid _ i hi _ _ ?_ ?_ ?_
      · intro v hv; simp at hv
      · intro _; rfl
      · intro h; simp at h
  · exact Eff.refl s i _ (by simp)


/-! ## `popleft` never fails -/


theorem popYield_item (s : St) (i : Nat) (v : Val) (r : List Val)
    (hb : (s.kid i).buf = some (v :: r)) : (popYield s i).2 = .item v := by
  simp [popYield, hb]

theorem popYield_noerr (s : St) (i : Nat) (hb : ∃ v r, (s.kid i).buf = some (v :: r)) :
    (popYield s i).2 ≠ .error := by
  obtain ⟨v, r, hb⟩ := hb
  rw [popYield_item s i v r hb]; simp

theorem completeFetch_noerr (s : St) (i : Nat) (hi : i < s.kids.length)
    (hb : (s.kid i).buf ≠ none) : (completeFetch s i).2 ≠ .error := by
  unfold completeFetch
  split
  · simp
  · split
    · simp
    · rename_i v r _
      apply popYield_noerr
      rw [release_kid, kid_broadcast _ _ _ (by simpa using hi)]
      show ∃ v' r', Option.map (fun x => x ++ [v]) (s.kid i).buf = some (v' :: r')
      cases hb' : (s.kid i).buf with
      | none => exact absurd hb' hb
      | some b =>
        cases b with
        | nil => exact ⟨v, [], rfl⟩
        | cons x y => exact ⟨x, y ++ [v], rfl⟩

theorem startFetch_noerr (s : St) (i : Nat) (hi : i < s.kids.length)
    (hb : (s.kid i).buf ≠ none) : (startFetch s i).2 ≠ .error := by
  unfold startFetch
  simp only []
  split
  · exact completeFetch_noerr _ i hi hb
  · split
    · exact completeFetch_noerr _ i hi hb
    · simp

theorem enterCritical_noerr (s : St) (i : Nat) (hi : i < s.kids.length)
    (hb : (s.kid i).buf ≠ none) : (enterCritical s i).2 ≠ .error := by
  unfold enterCritical
  simp only []
  have hk : (if s.withLock = true then { s with holder := some i } else s).kids = s.kids := by
    split <;> rfl
  have hkid : (if s.withLock = true then { s with holder := some i } else s).kid i = s.kid i := by
    simp [St.kid, hk]
  split
  · rename_i a b hab
    apply popYield_noerr
    rw [release_kid]; exact ⟨a, b, hab⟩
  · exact startFetch_noerr _ i (by simpa [hk] using hi) (by rw [hkid]; exact hb)

theorem loopTop_noerr (s : St) (i : Nat) (hi : i < s.kids.length)
    (hb : (s.kid i).buf ≠ none) : (loopTop s i).2 ≠ .error := by
  unfold loopTop
  split
  · rename_i a b hab; exact popYield_noerr s i ⟨a, b, hab⟩
  · split
    · simp
    · exact enterCritical_noerr s i hi hb

theorem Inv.sched_noerr {s : St} (h : Inv s) (i : Nat) (hi : i < s.kids.length) :
    (sched s i).2 ≠ .error := by
  unfold sched
  split
  · split
    · simp
    · rename_i hp; exact loopTop_noerr s i hi (h.buf_ne_none i hi (by simp [hp]))
    · rename_i hp; exact loopTop_noerr s i hi (h.buf_ne_none i hi (by simp [hp]))
    · rename_i hp
      split
      · simp
      · exact enterCritical_noerr s i hi (h.buf_ne_none i hi (by simp [hp]))
    · rename_i hp; exact completeFetch_noerr s i hi (h.buf_ne_none i hi (by simp [hp]))
    · simp
  · simp

theorem closeKid_out (s : St) (i : Nat) : (closeKid s i).2 = .closed ∨ (closeKid s i).2 = .busy := by
  unfold closeKid; split <;> simp

theorem closeFrom_out (s : St) (l : List Nat) : (closeFrom s l).2 = .closed ∨ (closeFrom s l).2 = .busy := by
  induction l generalizing s with
  | nil => simp [closeFrom]
  | cons i rest ih =>
    unfold closeFrom
    split
    · simp
    · exact ih _

theorem closeAll_out (s : St) : (closeAll s).2 = .closed ∨ (closeAll s).2 = .busy := by
  by_cases hb : (closeFrom s (List.range s.kids.length)).2 = .busy
  · rw [closeAll_busy s hb]; exact Or.inr hb
  · rw [closeAll_not_busy s hb]; exact closeFrom_out s _

theorem cancel_out (s : St) (i : Nat) : (cancel s i).2 = .cancelled ∨ (cancel s i).2 = .noop := by
  unfold cancel; split
  · split <;> simp
  · simp

theorem Inv.step_noerr {s : St} (h : Inv s) (op : Op) : (step s op).2 ≠ .error := by
  cases op with
  | sched i => simp only [step]; split; exact h.sched_noerr i ‹_›; simp
  | close i =>
    simp only [step]; split
    · rcases closeKid_out s i with e | e <;> rw [e] <;> simp
    · simp
  | cancel i =>
    simp only [step]; split
    · rcases cancel_out s i with e | e <;> rw [e] <;> simp
    · simp
  | closeAll =>
    simp only [step]
    rcases closeAll_out s with e | e <;> rw [e] <;> simp

/-! ### closing or cancelling child `i` does not touch the others -/

theorem closeKid_frame (s : St) (i j : Nat) (hi : i < s.kids.length) (hne : j ≠ i) :
    (closeKid s i).1.kid j = s.kid j ∧ (closeKid s i).1.fetched = s.fetched ∧
      (closeKid s i).1.src = s.src := by
  unfold closeKid
  split
  · simp [kid_setKid _ _ _ _ hi, hne]
  · simp [finishKid_kid _ _ _ _ hi, hne]
  · simp
  · simp

theorem cancel_frame (s : St) (i j : Nat) (hi : i < s.kids.length) (hne : j ≠ i) :
    (cancel s i).1.kid j = s.kid j ∧ (cancel s i).1.fetched = s.fetched ∧
      (cancel s i).1.src = s.src := by
  unfold cancel
  split
  · split
    · simp [finishKid_kid _ _ _ _ hi, hne]
    · simp only []
      have hk : (if s.diesOnCancel = true then { s with srcKilled := true } else s).kids = s.kids := by
        split <;> rfl
      rw [finishKid_kid _ _ _ _ (by simpa [hk] using hi)]
      simp only [hne, if_false, release_kid, finishKid_fetched, release_fetched, finishKid_src, release_src]
      refine ⟨by simp [St.kid, hk], ?_, ?_⟩ <;> split <;> rfl
    · simp [kid_setKid _ _ _ _ hi, hne]
  · simp



/-! ## Finished children are unregistered — unless one was closed before its first step -/

/-- every finished or closed child has had its buffer removed from `peers` -/
def Tidy (s : St) : Prop :=
  ∀ j, j < s.kids.length → (s.kid j).pc = .done → (s.kid j).buf = none

theorem Tidy.eff {s s' : St} {i : Nat} {o : Out} (h : Tidy s) (e : Eff s s' i o) : Tidy s' := by
  intro j hj hd
  rw [e.len] at hj
  by_cases hji : j = i
  · subst hji
    rcases e.done hd with h1 | ⟨h1, h2⟩
    · exact h1
    · exact h2.2 (h j hj h1)
  · have := e.others j hj hji
    rw [this.1] at hd
    exact this.2.2.2.2 (h j hj hd)

theorem closeKid_eff (s : St) (i : Nat) (hi : i < s.kids.length)
    (hne : (s.kid i).pc ≠ .unstarted) : Eff s (closeKid s i).1 i (closeKid s i).2 := by
  unfold closeKid
  split
  · rename_i hp; exact absurd hp hne
  · exact finishKid_eff s i hi _ _ (by simp)
  · exact Eff.refl s i _ (by simp)
  · exact Eff.refl s i _ (by simp)

theorem cancel_eff (s : St) (i : Nat) (hi : i < s.kids.length) :
    Eff s (cancel s i).1 i (cancel s i).2 := by
  unfold cancel
  split
  · split
    · exact finishKid_eff s i hi _ _ (by simp)
    · simp only []
      have hk : (if s.diesOnCancel = true then { s with srcKilled := true } else s).kids = s.kids := by
        split <;> rfl
      exact (finishKid_eff _ i (by simpa [hk] using hi) _ _ (by simp)).of_kids (by simp [hk])
    · refine Eff.setKid _ i hi _ _ ?_ ?_ ?_
      · intro v hv; simp at hv
      · intro _; rfl
      · intro hd; exact Or.inr ⟨hd, Iff.rfl⟩
  · exact Eff.refl s i _ (by simp)

/-- the operation closes a child that has never been advanced and leaves its buffer registered:
    `child.aclose()` of such a child; `Tee.aclose()` only when it is aborted by a busy child
    (RuntimeError) while some child has never been advanced — a `Tee.aclose()` that goes over all
    children unregisters whatever is left by itself -/
def earlyClose (s : St) : Op → Bool
  | .close i => decide (i < s.kids.length) && decide ((s.kid i).pc = .unstarted)
  | .closeAll => s.kids.any (fun c => decide (c.pc = .unstarted)) && decide ((closeAll s).2 = .busy)
  | _ => false

/-- no operation of the sequence closes a child before its first step -/
def NoEarlyClose (s : St) : List Op → Prop
  | [] => True
  | op :: ops => earlyClose s op = false ∧ NoEarlyClose (step s op).1 ops

theorem any_unstarted_iff (s : St) :
    s.kids.any (fun c => decide (c.pc = .unstarted)) = false ↔
      ∀ j, j < s.kids.length → (s.kid j).pc ≠ .unstarted := by
  rw [Bool.eq_false_iff]
  simp only [ne_eq, List.any_eq_true, decide_eq_true_eq, not_exists, not_and]
  constructor
  · intro h j hj
    rw [kid_eq_getElem s j hj]
    exact h _ (List.getElem_mem hj)
  · intro h c hc
    obtain ⟨j, hj, rfl⟩ := List.getElem_of_mem hc
    rw [← kid_eq_getElem s j hj]
    exact h j hj

theorem Tidy.closeFrom_tidy {s : St} (h : Tidy s) (l : List Nat) (hl : ∀ i ∈ l, i < s.kids.length)
    (hu : ∀ j, j < s.kids.length → (s.kid j).pc ≠ .unstarted) : Tidy (closeFrom s l).1 := by
  induction l generalizing s with
  | nil => exact h
  | cons i rest ih =>
    unfold closeFrom
    have hi : i < s.kids.length := hl i (by simp)
    have e := closeKid_eff s i hi (hu i hi)
    have h1 := h.eff e
    split
    · rename_i s' heq
      have : s' = (closeKid s i).1 := by rw [heq]
      rw [this]; exact h1
    · rename_i s' o hne heq
      have : s' = (closeKid s i).1 := by rw [heq]
      rw [this]
      apply ih h1
      · intro j hj; rw [closeKid_length]; exact hl j (by simp [hj])
      · intro j hj
        rw [closeKid_length] at hj
        by_cases hji : j = i
        · subst hji
          unfold closeKid
          split
          · rename_i hp; exact absurd hp (hu j hj)
          · rw [finishKid_kid _ _ _ _ hj]; simp [Child.finished]
          · exact hu j hj
          · exact hu j hj
        · rw [(e.others j hj hji).1]; exact hu j hj

theorem Tidy.step_tidy {s : St} (h : Tidy s) (op : Op) (hne : earlyClose s op = false) :
    Tidy (step s op).1 := by
  cases op with
  | sched i => simp only [step]; split; exact h.eff (sched_eff s i ‹_›); exact h
  | close i =>
    simp only [step]; split
    · rename_i hi
      refine h.eff (closeKid_eff s i hi ?_)
      simpa [earlyClose, hi] using hne
    · exact h
  | cancel i => simp only [step]; split; exact h.eff (cancel_eff s i ‹_›); exact h
  | closeAll =>
    simp only [step]
    by_cases hb : (closeFrom s (List.range s.kids.length)).2 = .busy
    · have hu : s.kids.any (fun c => decide (c.pc = .unstarted)) = false := by
        simpa [earlyClose, (closeAll_out_busy s).2 hb] using hne
      rw [closeAll_busy s hb]
      exact h.closeFrom_tidy _ (range_lt s) ((any_unstarted_iff s).1 hu)
    · rw [closeAll_not_busy s hb]
      intro j hj _
      rw [clearBuffers_length] at hj
      rw [clearBuffers_kid _ j hj]

theorem Tidy.runOps_tidy {s : St} (h : Tidy s) (ops : List Op) (hne : NoEarlyClose s ops) :
    Tidy (runOps s ops) := by
  induction ops generalizing s with
  | nil => exact h
  | cons op rest ih => exact ih (h.step_tidy op hne.1) hne.2

theorem init_tidy (items : List Val) (n : Nat) (susp : List Nat) (lock closeable dies : Bool) :
    Tidy (init items n susp lock closeable dies) := by
  intro j _ hd; rw [kid_init] at hd; simp at hd



/-! ## The configuration (lock or not, suspension script) never changes -/

def St.cfg (s : St) : Bool × List Nat × Bool := (s.withLock, s.suspPat, s.closeable)

@[simp] theorem cfg_setKid (s : St) (i c) : (s.setKid i c).cfg = s.cfg := rfl
@[simp] theorem cfg_release (s : St) (i) : (release s i).cfg = s.cfg := by simp [St.cfg]
@[simp] theorem cfg_finishKid (s : St) (i t) : (finishKid s i t).cfg = s.cfg := by simp [St.cfg]
@[simp] theorem cfg_broadcast (s : St) (v) : (broadcast s v).cfg = s.cfg := rfl

@[simp] theorem cfg_popYield (s : St) (i) : (popYield s i).1.cfg = s.cfg := by
  unfold popYield; split <;> simp

@[simp] theorem cfg_completeFetch (s : St) (i) : (completeFetch s i).1.cfg = s.cfg := by
  unfold completeFetch
  split
  · simp
  · split
    · rw [cfg_finishKid, cfg_release]; rfl
    · rw [cfg_popYield, cfg_release, cfg_broadcast]; rfl

@[simp] theorem cfg_startFetch (s : St) (i) : (startFetch s i).1.cfg = s.cfg := by
  unfold startFetch; simp only []
  split
  · rw [cfg_completeFetch]; rfl
  · split
    · rw [cfg_completeFetch]; rfl
    · rfl

@[simp] theorem cfg_enterCritical (s : St) (i) : (enterCritical s i).1.cfg = s.cfg := by
  unfold enterCritical; simp only []
  split
  · rw [cfg_popYield, cfg_release]; split <;> rfl
  · rw [cfg_startFetch]; split <;> rfl

@[simp] theorem cfg_loopTop (s : St) (i) : (loopTop s i).1.cfg = s.cfg := by
  unfold loopTop; split
  · simp
  · split <;> simp

@[simp] theorem cfg_sched (s : St) (i) : (sched s i).1.cfg = s.cfg := by
  unfold sched; split
  · split <;> try simp
    split <;> simp
  · rfl

@[simp] theorem cfg_closeKid (s : St) (i) : (closeKid s i).1.cfg = s.cfg := by
  unfold closeKid; split <;> simp

@[simp] theorem cfg_cancel (s : St) (i) : (cancel s i).1.cfg = s.cfg := by
  unfold cancel; split
  · split <;> simp
    split <;> rfl
  · rfl

@[simp] theorem cfg_closeFrom (s : St) (l) : (closeFrom s l).1.cfg = s.cfg := by
  induction l generalizing s with
  | nil => rfl
  | cons i rest ih =>
    unfold closeFrom
    split
    · rename_i s' heq
      have : s' = (closeKid s i).1 := by rw [heq]
      rw [this]; simp
    · rename_i s' o hne heq
      have : s' = (closeKid s i).1 := by rw [heq]
      rw [ih, this]; simp

@[simp] theorem cfg_clearBuffers (s : St) : (clearBuffers s).cfg = s.cfg := by simp [St.cfg]

@[simp] theorem cfg_closeAll (s : St) : (closeAll s).1.cfg = s.cfg := by
  by_cases hb : (closeFrom s (List.range s.kids.length)).2 = .busy
  · rw [closeAll_busy s hb]; simp
  · rw [closeAll_not_busy s hb]; simp

@[simp] theorem cfg_step (s : St) (op) : (step s op).1.cfg = s.cfg := by
  cases op <;> simp only [step] <;> (try split) <;> simp

theorem cfg_runOps (s : St) (ops) : (runOps s ops).cfg = s.cfg := by
  induction ops generalizing s with
  | nil => rfl
  | cons op rest ih => simp [runOps, ih]

theorem safe_of_cfg {s s' : St} (h : s'.cfg = s.cfg) : Safe s' ↔ Safe s := by
  simp only [St.cfg, Prod.mk.injEq] at h
  simp [Safe, NoSusp, h.1, h.2.1]

theorem noSusp_of_zeros (susp : List Nat) (h : ∀ k ∈ susp, k = 0) (n : Nat) : susp.getD n 0 = 0 := by
  rw [List.getD_eq_getElem?_getD]
  cases hn : susp[n]? with
  | none => rfl
  | some k => exact h k (List.mem_of_getElem? hn)

@[simp] theorem length_step (s : St) (op) : (step s op).1.kids.length = s.kids.length := by
  cases op with
  | sched i => simp only [step]; split; exact (sched_eff s i ‹_›).len; rfl
  | close i => simp only [step]; split; simp; rfl
  | cancel i => simp only [step]; split; exact (cancel_eff s i ‹_›).len; rfl
  | closeAll => simp only [step]; simp

theorem length_runOps (s : St) (ops) : (runOps s ops).kids.length = s.kids.length := by
  induction ops generalizing s with
  | nil => rfl
  | cons op rest ih => simp [runOps, ih]

theorem runOps_append (s : St) (a b : List Op) : runOps s (a ++ b) = runOps (runOps s a) b := by
  induction a generalizing s with
  | nil => rfl
  | cons op rest ih => exact ih _

theorem getElem?_append_mid (a : List Val) (v : Val) (t : List Val) :
    (a ++ [v] ++ t)[a.length]? = some v := by
  simp

instance decNoEarlyClose : (s : St) → (ops : List Op) → Decidable (NoEarlyClose s ops)
  | _, [] => isTrue trivial
  | s, op :: ops => @instDecidableAnd _ _ _ (decNoEarlyClose (step s op).1 ops)


/-! ## Once no buffer is registered, a source that can be closed has been closed -/

/-- the converse of `DInv.closedAll` (for a tee with at least one child) -/
def ClosedLast (s : St) : Prop :=
  s.closeable = true → 0 < s.kids.length →
    (∀ j, j < s.kids.length → (s.kid j).buf = none) → 0 < s.srcCloses

theorem ClosedLast.of_some {s : St} (i : Nat) (hi : i < s.kids.length) (hb : (s.kid i).buf ≠ none) :
    ClosedLast s :=
  fun _ _ h => absurd (h i hi) hb

theorem ClosedLast.of_eq {s s' : St} (h : ClosedLast s) (hk : s'.kids = s.kids)
    (hc : s'.closeable = s.closeable) (hx : s'.srcCloses = s.srcCloses) : ClosedLast s' := by
  have hkid : ∀ j, s'.kid j = s.kid j := by intro j; simp [St.kid, hk]
  unfold ClosedLast
  simp only [hkid, hk, hc, hx]
  exact h

theorem ClosedLast.setKid_ok {s : St} (h : ClosedLast s) (i : Nat) (hi : i < s.kids.length) (c : Child)
    (hb : c.buf = none → (s.kid i).buf = none) : ClosedLast (s.setKid i c) := by
  intro hc hn hall
  simp only [length_setKid, setKid_closeable, setKid_srcCloses] at *
  apply h hc hn
  intro j hj
  have := hall j hj
  rw [kid_setKid _ _ _ _ hi] at this
  by_cases hji : j = i
  · subst hji; simp only [if_true] at this; exact hb this
  · simpa [hji] using this

theorem finishKid_srcCloses_eq (s : St) (i t) :
    (finishKid s i t).srcCloses =
      if ((finishKid s i t).kids.all (fun c => c.buf.isNone) && s.closeable) = true
      then s.srcCloses + 1 else s.srcCloses := by
  unfold finishKid; simp only []
  split
  · rename_i h; simp only [setKid_closeable] at h; simp [h]
  · rename_i h; simp only [setKid_closeable] at h; simp [h]

/-- the `finally` block establishes it outright -/
theorem finishKid_closedLast (s : St) (i t) : ClosedLast (finishKid s i t) := by
  intro hc _ hall
  have ha := (all_none_iff _).2 hall
  rw [finishKid_closeable] at hc
  rw [finishKid_srcCloses_eq, ha, hc]
  simp

theorem popYield_closedLast (s : St) (i : Nat) (hi : i < s.kids.length) : ClosedLast (popYield s i).1 := by
  unfold popYield
  split
  · exact ClosedLast.of_some i (by simpa using hi) (by rw [kid_setKid _ _ _ _ hi]; simp)
  · exact finishKid_closedLast _ _ _

theorem completeFetch_closedLast (s : St) (i : Nat) (hi : i < s.kids.length) :
    ClosedLast (completeFetch s i).1 := by
  unfold completeFetch
  split
  · exact finishKid_closedLast _ _ _
  · split
    · exact finishKid_closedLast _ _ _
    · exact popYield_closedLast _ i (by simpa using hi)

theorem ClosedLast.startFetch_ok {s : St} (h : ClosedLast s) (i : Nat) (hi : i < s.kids.length) :
    ClosedLast (startFetch s i).1 := by
  unfold startFetch
  simp only []
  split
  · exact completeFetch_closedLast _ i (by simpa using hi)
  · split
    · exact completeFetch_closedLast _ i (by simpa using hi)
    · refine ClosedLast.setKid_ok (h.of_eq rfl rfl rfl) i (by simpa using hi) _ (fun e => e)

theorem ClosedLast.enterCritical_ok {s : St} (h : ClosedLast s) (i : Nat) (hi : i < s.kids.length) :
    ClosedLast (enterCritical s i).1 := by
  unfold enterCritical
  simp only []
  have hk : (if s.withLock = true then { s with holder := some i } else s).kids = s.kids := by
    split <;> rfl
  split
  · exact popYield_closedLast _ i (by simpa [hk] using hi)
  · exact ClosedLast.startFetch_ok (h.of_eq hk (by split <;> rfl) (by split <;> rfl)) i (by simpa [hk] using hi)

theorem ClosedLast.loopTop_ok {s : St} (h : ClosedLast s) (i : Nat) (hi : i < s.kids.length) :
    ClosedLast (loopTop s i).1 := by
  unfold loopTop
  split
  · exact popYield_closedLast s i hi
  · split
    · exact h.setKid_ok i hi _ (fun e => e)
    · exact h.enterCritical_ok i hi

theorem ClosedLast.sched_ok {s : St} (h : ClosedLast s) (i : Nat) (hi : i < s.kids.length) :
    ClosedLast (sched s i).1 := by
  unfold sched
  split
  · split
    · exact h.setKid_ok i hi _ (fun e => e)
    · exact h.loopTop_ok i hi
    · exact h.loopTop_ok i hi
    · split
      · exact h
      · exact h.enterCritical_ok i hi
    · exact completeFetch_closedLast s i hi
    · exact h.setKid_ok i hi _ (fun e => e)
  · exact h

theorem ClosedLast.closeKid_ok {s : St} (h : ClosedLast s) (i : Nat) (hi : i < s.kids.length) :
    ClosedLast (closeKid s i).1 := by
  unfold closeKid
  split
  · exact h.setKid_ok i hi _ (fun e => e)
  · exact finishKid_closedLast _ _ _
  · exact h
  · exact h

theorem ClosedLast.cancel_ok {s : St} (h : ClosedLast s) (i : Nat) (hi : i < s.kids.length) :
    ClosedLast (cancel s i).1 := by
  unfold cancel
  split
  · split
    · exact finishKid_closedLast _ _ _
    · exact finishKid_closedLast _ _ _
    · exact h.setKid_ok i hi _ (fun e => e)
  · exact h

theorem ClosedLast.closeFrom_ok {s : St} (h : ClosedLast s) (l : List Nat) (hl : ∀ i ∈ l, i < s.kids.length) :
    ClosedLast (closeFrom s l).1 := by
  induction l generalizing s with
  | nil => exact h
  | cons i rest ih =>
    have h1 := h.closeKid_ok i (hl i (by simp))
    rw [closeFrom_cons]
    split
    · exact h1
    · exact ih h1 (by intro k hk; rw [closeKid_length]; exact hl k (by simp [hk]))

theorem ClosedLast.clearBuffers_ok {s : St} (h : ClosedLast s) : ClosedLast (clearBuffers s) := by
  intro hc hn _
  rw [clearBuffers_closeable] at hc
  rw [clearBuffers_length] at hn
  cases hany : s.kids.any (fun c => c.buf.isSome) with
  | true => rw [clearBuffers_srcCloses_of_any s hany hc]; omega
  | false =>
    have := h hc hn ((any_some_iff s).1 hany)
    have := clearBuffers_srcCloses_mono s
    omega

theorem ClosedLast.closeAll_ok {s : St} (h : ClosedLast s) : ClosedLast (closeAll s).1 := by
  have h1 := h.closeFrom_ok _ (range_lt s)
  by_cases hb : (closeFrom s (List.range s.kids.length)).2 = .busy
  · rw [closeAll_busy s hb]; exact h1
  · rw [closeAll_not_busy s hb]; exact h1.clearBuffers_ok

theorem ClosedLast.step_ok {s : St} (h : ClosedLast s) (op : Op) : ClosedLast (step s op).1 := by
  cases op with
  | sched i => simp only [step]; split; exact h.sched_ok i ‹_›; exact h
  | close i => simp only [step]; split; exact h.closeKid_ok i ‹_›; exact h
  | cancel i => simp only [step]; split; exact h.cancel_ok i ‹_›; exact h
  | closeAll => exact h.closeAll_ok

theorem ClosedLast.runOps_ok {s : St} (h : ClosedLast s) (ops : List Op) : ClosedLast (runOps s ops) := by
  induction ops generalizing s with
  | nil => exact h
  | cons op rest ih => exact ih (h.step_ok op)

theorem init_closedLast (items : List Val) (n : Nat) (susp : List Nat) (lock closeable dies : Bool) :
    ClosedLast (init items n susp lock closeable dies) := by
  intro _ hn hall
  have := hall 0 hn
  rw [kid_init] at this
  simp at this

/-! ## Reachable states -/

/-- the precondition of the property: a lock is supplied, or the source never suspends -/
def Pre (lock : Bool) (susp : List Nat) : Prop := lock = true ∨ ∀ k ∈ susp, k = 0

theorem reach_inv (items n susp lock closeable dies ops) :
    Inv (reach items n susp lock closeable dies ops) :=
  (init_inv items n susp lock closeable dies).runOps_inv ops

theorem reach_len (items n susp lock closeable dies ops) :
    (reach items n susp lock closeable dies ops).kids.length = n := by
  simp [reach, length_runOps, init]

theorem reach_closedLast (items n susp lock closeable dies ops) :
    ClosedLast (reach items n susp lock closeable dies ops) :=
  (init_closedLast items n susp lock closeable dies).runOps_ok ops

theorem reach_closeable (items n susp lock closeable dies ops) :
    (reach items n susp lock closeable dies ops).closeable = closeable := by
  have := cfg_runOps (init items n susp lock closeable dies) ops
  simp only [St.cfg, Prod.mk.injEq] at this
  exact this.2.2

theorem reach_safe (items n susp lock closeable dies ops) (h : Pre lock susp) :
    Safe (reach items n susp lock closeable dies ops) := by
  rw [safe_of_cfg (cfg_runOps _ ops)]
  rcases h with h | h
  · exact Or.inl h
  · exact Or.inr (noSusp_of_zeros susp h)

end AsyncVerif.Tee
