import AsyncVerif.Proofs.CachedPropertyFuel
/-!
# cached_property — two-state facts: what one task step / one operation can and cannot change
-/
namespace AsyncVerif.CachedProperty

/-- two-state facts about everything a task does between two operations -/
structure Mono (s s' : State) : Prop where
  runs_le : s.nRuns ≤ s'.nRuns
  run_inst : ∀ r, r < s.nRuns → (s'.run r).inst = (s.run r).inst
  val_stays : ∀ i v, s.slot i = some (.val v) → ∃ v', s'.slot i = some (.val v')
  new_run_uncached : ∀ r, s.nRuns ≤ r → r < s'.nRuns → ∀ v, s.slot (s'.run r).inst ≠ some (.val v)
  dels_eq : s'.dels = s.dels

theorem Mono.refl (s : State) : Mono s s := by
  constructor <;> grind

theorem Mono.trans {s s' s'' : State} (h1 : Mono s s') (h2 : Mono s' s'') : Mono s s'' := by
  obtain ⟨a1, a2, a3, a4, a5⟩ := h1
  obtain ⟨b1, b2, b3, b4, b5⟩ := h2
  constructor
  · omega
  · intro r hr; rw [b2 r (by omega), a2 r hr]
  · intro i v hv; obtain ⟨v', hv'⟩ := a3 i v hv; exact b3 i v' hv'
  · intro r hr1 hr2 v hv
    by_cases h : r < s'.nRuns
    · exact a4 r hr1 h v (by rw [← b2 r h]; exact hv)
    · obtain ⟨v', hv'⟩ := a3 _ v hv
      exact b4 r (by omega) hr2 v' hv'
  · rw [b5, a5]

theorem access_mono (s : State) (i : Nat) : Mono s (access s i).1 := by
  rcases access_cases s i with ⟨x, _, he⟩ | ⟨hn, he⟩ <;> rw [he]
  · exact Mono.refl s
  · constructor <;> simp only [newPh] <;> grind

theorem micro_mono (cfg : Cfg) (s : State) (t : Nat) : Mono s (micro cfg s t).1 := by
  unfold micro
  split
  · exact Mono.refl s
  · exact Mono.refl s
  · constructor <;> simp only [setPc] <;> grind
  · constructor <;> simp only [setPc] <;> grind
  · rename_i p hpc
    have hm := access_mono s (s.phInst p)
    unfold instanceValue
    generalize access s (s.phInst p) = r at hm
    obtain ⟨s1, x⟩ := r
    simp only at hm ⊢
    refine Mono.trans hm ?_
    split
    · split
      · split
        · constructor <;> simp only [setPc] <;> grind
        · constructor <;> simp only [setPc, setLock] <;> grind
      · constructor <;> simp only [setPc] <;> grind
    · cases x <;> simp only [awaitStored] <;> constructor <;> simp only [setPc] <;> grind
  · split
    · exact Mono.refl s
    · constructor <;> simp only [setPc, setLock] <;> grind
  · rename_i p hpc
    have hm := access_mono s (s.phInst p)
    have hsl := access_slot s (s.phInst p)
    have hcs := access_cases s (s.phInst p)
    unfold instanceValue
    generalize access s (s.phInst p) = r at hm hsl hcs
    obtain ⟨s1, x⟩ := r
    simp only at hm hsl hcs ⊢
    split
    · rename_i hx
      subst hx
      rcases hcs with ⟨x0, hx0, he⟩ | ⟨hn, he⟩
      · simp only [Prod.mk.injEq] at he
        obtain ⟨e1, e2⟩ := he
        subst e1
        constructor <;> simp only [setPc] <;> grind
      · simp only [Prod.mk.injEq, Stored.ph.injEq] at he
        obtain ⟨e1, e2⟩ := he
        subst e1
        constructor <;> simp only [setPc, newPh] <;> grind
    · refine Mono.trans hm ?_
      cases hl : cfg.lock <;> cases x <;> simp only [awaitStored, release, hl] <;> constructor <;>
        simp only [setPc, setLock] <;> grind
  · unfold complete
    cases hl : cfg.lock <;> split <;> simp only [release, hl] <;> constructor <;>
      simp only [setPc, setLock, setSlot, setRunSt] <;> grind
  · constructor <;> simp only [setPc] <;> grind

theorem schedN_mono (cfg : Cfg) (n : Nat) : ∀ (s : State) (t : Nat), Mono s (schedN cfg n s t).1 := by
  induction n with
  | zero => intro s t; exact Mono.refl s
  | succ n ih =>
    intro s t
    unfold schedN
    have hm := micro_mono cfg s t
    generalize micro cfg s t = r at hm
    obtain ⟨s1, o⟩ := r
    cases o with
    | some o => exact hm
    | none => exact Mono.trans hm (ih s1 t)

/-- the same facts for one operation; `del` is the only one that removes a value or counts as a deletion -/
theorem step_mono (cfg : Cfg) (s : State) (op : Op) (hop : ∀ i, op ≠ .del i) : Mono s (step cfg s op).1 := by
  cases op with
  | spawn i =>
    simp only [step]
    have hm := access_mono s i
    generalize access s i = r at hm
    obtain ⟨s1, x⟩ := r
    refine Mono.trans hm ?_
    constructor <;> simp only [addTask] <;> grind
  | respawn t =>
    simp only [step]; split
    · constructor <;> simp only [addTask] <;> grind
    · exact Mono.refl s
  | sched t => exact schedN_mono cfg _ s t
  | cancel t =>
    simp only [step, cancel]
    split
    · constructor <;> simp only [setPc] <;> grind
    · constructor <;> simp only [setPc] <;> grind
    · cases hl : cfg.lock <;> simp only [release, hl] <;> constructor <;>
        simp only [setPc, setLock, setRunSt] <;> grind
    · exact Mono.refl s
  | del i => exact absurd rfl (hop i)

theorem step_dels (cfg : Cfg) (s : State) (op : Op) (i : Nat) (hop : op ≠ .del i) :
    (step cfg s op).1.dels i = s.dels i := by
  cases op with
  | del j =>
    have hji : i ≠ j := by intro e; subst e; exact hop rfl
    simp only [step]; split
    · rfl
    · simp [delSlot, hji]
  | spawn j => rw [(step_mono cfg s (.spawn j) (by intro k; simp)).dels_eq]
  | respawn t => rw [(step_mono cfg s (.respawn t) (by intro k; simp)).dels_eq]
  | sched t => rw [(step_mono cfg s (.sched t) (by intro k; simp)).dels_eq]
  | cancel t => rw [(step_mono cfg s (.cancel t) (by intro k; simp)).dels_eq]

theorem exec_dels (cfg : Cfg) (i : Nat) (ops : List Op) : ∀ s, (∀ op ∈ ops, op ≠ .del i) →
    (exec cfg s ops).dels i = s.dels i := by
  induction ops with
  | nil => intro s _; rfl
  | cons op ops ih =>
    intro s h
    simp only [exec]
    rw [ih _ (fun o ho => h o (List.mem_cons_of_mem _ ho)), step_dels cfg s op i (h op (List.mem_cons_self ..))]

/-- the state reached from the initial state (no instance has the attribute, no task) by `ops` -/
def reach (cfg : Cfg) (ops : List Op) : State := exec cfg State.init ops

theorem reach_inv' (cfg : Cfg) (ops : List Op) : Inv' cfg (reach cfg ops) :=
  exec_inv' cfg ops _ (init_inv' cfg)

theorem reach_inv (cfg : Cfg) (ops : List Op) : Inv cfg (reach cfg ops) := (reach_inv' cfg ops).toInv

end AsyncVerif.CachedProperty
