import AsyncVerif.Proofs.TeeLive
import AsyncVerif.Proofs.LruConc
import AsyncVerif.Proofs.CachedPropertySeq
import AsyncVerif.Proofs.ExitStack
import AsyncVerif.Proofs.Borrow
import AsyncVerif.Proofs.Decorator
/-!
Helper lemmas for `Properties/C18Machines.lean`: what a cancellation does to each of the stateful
machines (tee, lru_cache, cached_property, ExitStack, scoped_iter, ContextDecorator), in the form the
C18 statements need.  Everything here is derived from the machines and the lemmas of the
`Proofs/*.lean` files of C08, C09, C11, C12, C14, C15.
-/

/-! ## tee -/
namespace AsyncVerif.Tee

/-- child `i` is the last one whose buffer is still registered in `peers` -/
def LastRegistered (s : St) (i : Nat) : Prop :=
  ∀ j, j < s.kids.length → j ≠ i → (s.kid j).buf = none

/-- the `finally` block of `tee_peer` closes the source exactly when the child is the last
    registered one and the source can be closed -/
theorem finishKid_srcCloses_last (s : St) (i : Nat) (t : Task) (hi : i < s.kids.length) :
    (s.closeable = true → LastRegistered s i → (finishKid s i t).srcCloses = s.srcCloses + 1) ∧
    ((s.closeable = false ∨ ¬ LastRegistered s i) → (finishKid s i t).srcCloses = s.srcCloses) := by
  have hall : (finishKid s i t).kids.all (fun c => c.buf.isNone) = true ↔ LastRegistered s i := by
    rw [all_none_iff]
    constructor
    · intro h j hj hne
      have := h j (by simpa using hj)
      rw [finishKid_kid _ _ _ _ hi] at this
      simpa [hne] using this
    · intro h j hj
      rw [finishKid_kid _ _ _ _ hi]
      by_cases hji : j = i
      · simp [hji, Child.finished]
      · simp only [hji, if_false]; exact h j (by simpa using hj) hji
  rw [finishKid_srcCloses_eq]
  constructor
  · intro hc hl; rw [hall.2 hl, hc]; simp
  · rintro (hc | hl)
    · rw [hc]; simp
    · have : (finishKid s i t).kids.all (fun c => c.buf.isNone) = false := by
        cases h : (finishKid s i t).kids.all (fun c => c.buf.isNone) with
        | false => rfl
        | true => exact absurd (hall.1 h) hl
      rw [this]; simp

theorem cancel_inactive (s : St) (i : Nat) (h : (s.kid i).task ≠ .active) : cancel s i = (s, .noop) := by
  unfold cancel
  split
  · rename_i ha; exact absurd ha h
  · rfl

theorem cancel_acquiring (s : St) (i : Nat) (ha : (s.kid i).task = .active)
    (hp : (s.kid i).pc = .acquiring) : cancel s i = (finishKid s i .cancelled, .cancelled) := by
  simp [cancel, ha, hp]

theorem cancel_fetching (s : St) (i k : Nat) (ha : (s.kid i).task = .active)
    (hp : (s.kid i).pc = .fetching k) :
    cancel s i = (finishKid (release (if s.diesOnCancel then { s with srcKilled := true } else s) i) i
      .cancelled, .cancelled) := by
  simp [cancel, ha, hp]

theorem cancel_outside (s : St) (i : Nat) (ha : (s.kid i).task = .active)
    (hp : (s.kid i).pc ≠ .acquiring) (hf : isFetching (s.kid i).pc = false) :
    cancel s i = (s.setKid i { (s.kid i) with task := .cancelled }, .cancelled) := by
  unfold cancel
  rw [ha]
  simp only []
  split
  · rename_i h; exact absurd h hp
  · rename_i k h; rw [h] at hf; simp [isFetching] at hf
  · rfl

/-- everything a cancellation thrown into the running consumer of child `i` does, in a state that
    satisfies the invariant of the machine -/
theorem Inv.cancel_spec {s : St} (h : Inv s) (i : Nat) (hi : i < s.kids.length)
    (ha : (s.kid i).task = .active) :
    ((cancel s i).2 = .cancelled ∧ ((cancel s i).1.kid i).task = .cancelled ∧
      ((cancel s i).1.kid i).out = (s.kid i).out) ∧
    ((cancel s i).1.holder = (if s.holder = some i then none else s.holder) ∧
      (cancel s i).1.holder ≠ some i) ∧
    (((s.kid i).pc = .acquiring ∨ isFetching (s.kid i).pc = true) →
       ((cancel s i).1.kid i).pc = .done ∧ ((cancel s i).1.kid i).buf = none ∧
       (s.closeable = true → LastRegistered s i → (cancel s i).1.srcCloses = s.srcCloses + 1) ∧
       ((s.closeable = false ∨ ¬ LastRegistered s i) → (cancel s i).1.srcCloses = s.srcCloses)) ∧
    ((s.kid i).pc ≠ .acquiring → isFetching (s.kid i).pc = false →
       ((cancel s i).1.kid i).pc = (s.kid i).pc ∧ ((cancel s i).1.kid i).buf = (s.kid i).buf ∧
       (cancel s i).1.srcCloses = s.srcCloses) ∧
    (cancel s i).1.srcKilled = (s.srcKilled || (s.diesOnCancel && isFetching (s.kid i).pc)) := by
  have hhold : s.holder = some i → isFetching (s.kid i).pc = true := fun e => (h.holder_lt i e).2.2
  by_cases hacq : (s.kid i).pc = .acquiring
  · -- suspended in `lock.__aenter__`
    have hnf : isFetching (s.kid i).pc = false := by rw [hacq]; rfl
    have hne : s.holder ≠ some i := fun e => by have := hhold e; rw [hnf] at this; cases this
    rw [cancel_acquiring s i ha hacq]
    refine ⟨⟨rfl, ?_, ?_⟩, ⟨?_, ?_⟩, fun _ => ⟨?_, ?_, ?_⟩, fun hx => absurd hacq hx, ?_⟩
    · simp [finishKid_kid _ _ _ _ hi, Child.finished]
    · simp [finishKid_kid _ _ _ _ hi, Child.finished]
    · rw [finishKid_holder, if_neg hne]
    · rw [finishKid_holder]; exact hne
    · simp [finishKid_kid _ _ _ _ hi, Child.finished]
    · simp [finishKid_kid _ _ _ _ hi, Child.finished]
    · exact finishKid_srcCloses_last s i .cancelled hi
    · rw [finishKid_srcKilled, hnf]; simp
  · by_cases hf : isFetching (s.kid i).pc = true
    · -- suspended inside `iterator.__anext__()`
      obtain ⟨k, hk⟩ : ∃ k, (s.kid i).pc = .fetching k := by
        cases hp : (s.kid i).pc <;> simp [hp, isFetching] at hf
        exact ⟨_, rfl⟩
      have hkids : (if s.diesOnCancel = true then { s with srcKilled := true } else s).kids = s.kids := by
        split <;> rfl
      have hi2 : i < (release (if s.diesOnCancel = true then { s with srcKilled := true } else s) i).kids.length := by
        simpa [hkids] using hi
      have hkid : ∀ j, (release (if s.diesOnCancel = true then { s with srcKilled := true } else s) i).kid j
          = s.kid j := by intro j; simp [St.kid, hkids]
      have hls := finishKid_srcCloses_last
        (release (if s.diesOnCancel = true then { s with srcKilled := true } else s) i) i .cancelled hi2
      have hc2 : (release (if s.diesOnCancel = true then { s with srcKilled := true } else s) i).closeable
          = s.closeable := by rw [release_closeable]; split <;> rfl
      have hsc : (release (if s.diesOnCancel = true then { s with srcKilled := true } else s) i).srcCloses
          = s.srcCloses := by rw [release_srcCloses]; split <;> rfl
      have hl2 : LastRegistered (release (if s.diesOnCancel = true then { s with srcKilled := true } else s) i) i
          ↔ LastRegistered s i := by
        simp only [LastRegistered, hkid, release_kids, hkids]
      rw [hc2, hsc, hl2] at hls
      have hho : (if s.diesOnCancel = true then { s with srcKilled := true } else s).holder = s.holder := by
        split <;> rfl
      have hki : (if s.diesOnCancel = true then { s with srcKilled := true } else s).srcKilled
          = (s.srcKilled || s.diesOnCancel) := by
        cases s.diesOnCancel <;> simp
      rw [cancel_fetching s i k ha hk]
      refine ⟨⟨rfl, ?_, ?_⟩, ⟨?_, ?_⟩, fun _ => ⟨?_, ?_, hls⟩, fun _ hx => ?_, ?_⟩
      · simp [finishKid_kid _ _ _ _ hi2, Child.finished]
      · simp [finishKid_kid _ _ _ _ hi2, Child.finished, hkid]
      · rw [finishKid_holder, release_holder, hho]
      · rw [finishKid_holder, release_holder, hho]; split <;> simp_all
      · simp [finishKid_kid _ _ _ _ hi2, Child.finished]
      · simp [finishKid_kid _ _ _ _ hi2, Child.finished]
      · rw [hf] at hx; cases hx
      · rw [finishKid_srcKilled, release_srcKilled, hki, hf]; simp
    · -- suspended at the consumer's own point
      have hnf : isFetching (s.kid i).pc = false := by
        cases hx : isFetching (s.kid i).pc with
        | false => rfl
        | true => exact absurd hx hf
      have hne : s.holder ≠ some i := fun e => by have := hhold e; rw [hnf] at this; cases this
      rw [cancel_outside s i ha hacq hnf]
      refine ⟨⟨rfl, ?_, ?_⟩, ⟨?_, ?_⟩, fun hx => ?_, fun _ _ => ⟨?_, ?_, rfl⟩, ?_⟩
      · simp [kid_setKid _ _ _ _ hi]
      · simp [kid_setKid _ _ _ _ hi]
      · rw [setKid_holder, if_neg hne]
      · rw [setKid_holder]; exact hne
      · rcases hx with hx | hx
        · exact absurd hx hacq
        · exact absurd hx hf
      · simp [kid_setKid _ _ _ _ hi]
      · simp [kid_setKid _ _ _ _ hi]
      · rw [setKid_srcKilled, hnf]; simp

/-! ### `diesOnCancel` never changes -/

@[simp] theorem release_diesOnCancel (s : St) (i) : (release s i).diesOnCancel = s.diesOnCancel := by
  unfold release; split <;> rfl
@[simp] theorem finishKid_diesOnCancel (s : St) (i t) : (finishKid s i t).diesOnCancel = s.diesOnCancel := by
  unfold finishKid; simp only []; split <;> rfl
@[simp] theorem broadcast_diesOnCancel (s : St) (v) : (broadcast s v).diesOnCancel = s.diesOnCancel := rfl

@[simp] theorem dies_popYield (s : St) (i) : (popYield s i).1.diesOnCancel = s.diesOnCancel := by
  unfold popYield; split <;> simp

@[simp] theorem dies_completeFetch (s : St) (i) : (completeFetch s i).1.diesOnCancel = s.diesOnCancel := by
  unfold completeFetch
  split
  · simp
  · split
    · rw [finishKid_diesOnCancel, release_diesOnCancel]
    · rw [dies_popYield, release_diesOnCancel, broadcast_diesOnCancel]

@[simp] theorem dies_startFetch (s : St) (i) : (startFetch s i).1.diesOnCancel = s.diesOnCancel := by
  unfold startFetch; simp only []
  split
  · rw [dies_completeFetch]
  · split
    · rw [dies_completeFetch]
    · rfl

@[simp] theorem dies_enterCritical (s : St) (i) : (enterCritical s i).1.diesOnCancel = s.diesOnCancel := by
  unfold enterCritical; simp only []
  split
  · rw [dies_popYield, release_diesOnCancel]; split <;> rfl
  · rw [dies_startFetch]; split <;> rfl

@[simp] theorem dies_loopTop (s : St) (i) : (loopTop s i).1.diesOnCancel = s.diesOnCancel := by
  unfold loopTop; split
  · simp
  · split <;> simp

@[simp] theorem dies_sched (s : St) (i) : (sched s i).1.diesOnCancel = s.diesOnCancel := by
  unfold sched; split
  · split <;> try simp
    split <;> simp
  · rfl

@[simp] theorem dies_closeKid (s : St) (i) : (closeKid s i).1.diesOnCancel = s.diesOnCancel := by
  unfold closeKid; split <;> simp

@[simp] theorem dies_cancel (s : St) (i) : (cancel s i).1.diesOnCancel = s.diesOnCancel := by
  unfold cancel; split
  · split <;> simp
    split <;> rfl
  · rfl

@[simp] theorem dies_closeFrom (s : St) (l) : (closeFrom s l).1.diesOnCancel = s.diesOnCancel := by
  induction l generalizing s with
  | nil => rfl
  | cons i rest ih => rw [closeFrom_cons]; split <;> simp [ih]

@[simp] theorem dies_clearBuffers (s : St) : (clearBuffers s).diesOnCancel = s.diesOnCancel := by
  unfold clearBuffers; split
  · simp only []; split <;> rfl
  · rfl

@[simp] theorem dies_closeAll (s : St) : (closeAll s).1.diesOnCancel = s.diesOnCancel := by
  by_cases hb : (closeFrom s (List.range s.kids.length)).2 = .busy
  · rw [closeAll_busy s hb]; simp
  · rw [closeAll_not_busy s hb]; simp

@[simp] theorem dies_step (s : St) (op) : (step s op).1.diesOnCancel = s.diesOnCancel := by
  cases op <;> simp only [step] <;> (try split) <;> simp

theorem dies_runOps (s : St) (ops) : (runOps s ops).diesOnCancel = s.diesOnCancel := by
  induction ops generalizing s with
  | nil => rfl
  | cons op rest ih => simp [runOps, ih]

theorem reach_dies (items n susp lock closeable dies ops) :
    (reach items n susp lock closeable dies ops).diesOnCancel = dies := by
  simp [reach, dies_runOps, init]

/-- a source that does not die on a cancellation is never killed -/
theorem killed_of_not_dies (s : St) (ops : List Op) (hd : s.diesOnCancel = false) :
    (runOps s ops).srcKilled = s.srcKilled := by
  induction ops generalizing s with
  | nil => rfl
  | cons op rest ih =>
    show (runOps (step s op).1 rest).srcKilled = s.srcKilled
    rw [ih _ (by simp [hd])]
    cases op with
    | sched i => simp only [step]; split <;> simp
    | close i => simp only [step]; split <;> simp
    | closeAll => simp [step]
    | cancel i =>
      simp only [step]
      split
      · unfold cancel
        split
        · split <;> simp [hd]
        · rfl
      · rfl

/-! ### `Tee.aclose()` is never aborted when no child is inside the lock or the source -/

/-- no child is suspended inside `lock.__aenter__` or inside the source -/
def NoneInside (s : St) : Prop :=
  ∀ j, j < s.kids.length → (s.kid j).pc ≠ .acquiring ∧ isFetching (s.kid j).pc = false

theorem closeKid_not_busy (s : St) (i : Nat) (hp : (s.kid i).pc ≠ .acquiring)
    (hf : isFetching (s.kid i).pc = false) : (closeKid s i).2 ≠ .busy := by
  cases h : (s.kid i).pc <;> simp_all [closeKid, isFetching]

theorem NoneInside.closeKid {s : St} (h : NoneInside s) (i : Nat) (hi : i < s.kids.length) :
    NoneInside (closeKid s i).1 := by
  intro j hj
  rw [closeKid_length] at hj
  by_cases hji : j = i
  · subst hji
    rw [closeKid_pc_done s j hi (closeKid_not_busy s j (h j hi).1 (h j hi).2)]
    simp [isFetching]
  · rw [(closeKid_frame s i j hi hji).1]; exact h j hj

theorem NoneInside.closeFrom_not_busy {s : St} (h : NoneInside s) (l : List Nat)
    (hl : ∀ i ∈ l, i < s.kids.length) : (closeFrom s l).2 ≠ .busy := by
  induction l generalizing s with
  | nil => simp [closeFrom]
  | cons i rest ih =>
    have hi : i < s.kids.length := hl i (by simp)
    have hnb := closeKid_not_busy s i (h i hi).1 (h i hi).2
    rw [closeFrom_cons]
    simp only [hnb, if_false]
    exact ih (h.closeKid i hi) (by intro k hk; rw [closeKid_length]; exact hl k (by simp [hk]))

theorem NoneInside.closeAll_not_busy {s : St} (h : NoneInside s) : (closeAll s).2 ≠ .busy := by
  intro e
  exact h.closeFrom_not_busy _ (range_lt s) ((closeAll_out_busy s).1 e)

end AsyncVerif.Tee

/-! ## lru_cache -/
namespace AsyncVerif.Lru

/-- what every state of the SEQUENTIAL machine satisfies: every entry was stored by a miss since the
    last `cache_clear` -/
def SeqBound (c : Cfg) (s : St) : Prop := Wf c s ∧ s.store.length ≤ s.misses

theorem begin_length (c : Cfg) (s : St) (p : Pattern) :
    (Impl.begin c s p).1.store.length = s.store.length := by
  obtain ⟨var, typed⟩ := c
  unfold Impl.begin
  cases var with
  | uncached => rfl
  | memo => simp only; cases find (Impl.eqv typed) p s.store <;> rfl
  | bounded n =>
    simp only
    cases hf : find (Impl.eqv typed) p s.store with
    | none => rfl
    | some e => simp [erase_length_of_find hf]

theorem resume_length_le (c : Cfg) (s : St) (p : Pattern) (v : Nat) :
    (Impl.resume c s p v).store.length ≤ s.store.length + 1 := by
  obtain ⟨var, typed⟩ := c
  unfold Impl.resume
  cases var with
  | uncached => simp
  | memo => simp only; split <;> simp
  | bounded n =>
    simp only
    split
    · simp
    · split <;> simp <;> omega

theorem call_seqBound (c : Cfg) (s : St) (h : SeqBound c s) (p : Pattern) (r : Res) :
    SeqBound c (Impl.call c s p r).1 := by
  refine ⟨call_wf c s h.1 p r, ?_⟩
  have hc := begin_counts c s p
  have hl := begin_length c s p
  have hb := h.2
  unfold Impl.call
  rcases hbe : Impl.begin c s p with ⟨s1, o⟩
  rw [hbe] at hc hl
  cases o with
  | some v =>
    have := (hc.1 rfl).2
    simp only at this hl ⊢
    omega
  | none =>
    have h1 := (hc.2 rfl).2
    simp only at h1 hl
    cases r with
    | fail e => simp only; omega
    | ok v =>
      simp only
      have h2 := resume_length_le c s1 p v
      have h3 := (resume_counts c s1 p v).2
      omega

theorem step_seqBound (c : Cfg) (s : St) (h : SeqBound c s) (op : Op) : SeqBound c (Impl.step c s op).1 := by
  cases op with
  | call p r => exact call_seqBound c s h p r
  | mcall i p r => exact call_seqBound c s h _ r
  | clear =>
    refine ⟨clear_wf c s h.1, ?_⟩
    have := clear_counts c s h.1
    show (Impl.clear c s).store.length ≤ (Impl.clear c s).misses
    rw [this.2.2, this.2.1]; simp
  | discard p =>
    refine ⟨discard_wf c s h.1 p, ?_⟩
    have := discard_counts c s p
    show (Impl.discard c s p).store.length ≤ (Impl.discard c s p).misses
    rw [this.2.1]
    obtain ⟨var, typed⟩ := c
    cases var <;> simp only [Impl.discard] <;> first | exact h.2 | exact Nat.le_trans (erase_length_le _ _ _) h.2
  | mdiscard i p =>
    refine ⟨discard_wf c s h.1 _, ?_⟩
    have := discard_counts c s (bind i p)
    show (Impl.discard c s (bind i p)).store.length ≤ (Impl.discard c s (bind i p)).misses
    rw [this.2.1]
    obtain ⟨var, typed⟩ := c
    cases var <;> simp only [Impl.discard] <;> first | exact h.2 | exact Nat.le_trans (erase_length_le _ _ _) h.2
  | info => exact h
  | params => exact h

theorem final_seqBound (c : Cfg) : ∀ (ops : List Op) (s : St), SeqBound c s →
    SeqBound c (final (Impl.step c) s ops) := by
  intro ops
  induction ops with
  | nil => intro s h; exact h
  | cons op rest ih => intro s h; exact ih _ (step_seqBound c s h op)

theorem seqBound_init (c : Cfg) : SeqBound c St.init := ⟨Wf.init c, Nat.le_refl _⟩

theorem gupd_cancel (infl : List (Nat × Pattern)) (g : Ghost) (c : Nat) (o : COut) :
    gupd infl g (.finish c .cancel) o = g := by
  cases o <;> rfl

theorem setTask_get : ∀ (l : List Task) (t : Nat) (tk : Task), t < l.length → (setTask l t tk)[t]? = some tk := by
  intro l
  induction l with
  | nil => intro t tk h; simp at h
  | cons x r ih =>
    intro t tk h
    cases t with
    | zero => simp [setTask]
    | succ n =>
      simp only [setTask, List.getElem?_cons_succ]
      exact ih n tk (by simpa using h)

theorem setTask_get_other : ∀ (l : List Task) (t t' : Nat) (tk : Task), t' ≠ t →
    (setTask l t tk)[t']? = l[t']? := by
  intro l
  induction l with
  | nil => intro t t' tk _; simp [setTask]
  | cons x r ih =>
    intro t t' tk hne
    cases t with
    | zero =>
      cases t' with
      | zero => exact absurd rfl hne
      | succ m => simp [setTask]
    | succ n =>
      cases t' with
      | zero => simp [setTask]
      | succ m =>
        simp only [setTask, List.getElem?_cons_succ]
        exact ih n m tk (by omega)

end AsyncVerif.Lru

/-! ## cached_property -/
namespace AsyncVerif.CachedProperty

theorem exec_append (cfg : Cfg) : ∀ (a b : List Op) (s : State),
    exec cfg s (a ++ b) = exec cfg (exec cfg s a) b := by
  intro a
  induction a with
  | nil => intro b s; rfl
  | cons op rest ih => intro b s; simp only [List.cons_append, exec]; exact ih b _

theorem reach_append (cfg : Cfg) (a b : List Op) : reach cfg (a ++ b) = exec cfg (reach cfg a) b :=
  exec_append cfg a b State.init

theorem reach_snoc (cfg : Cfg) (a : List Op) (op : Op) :
    reach cfg (a ++ [op]) = (step cfg (reach cfg a) op).1 := by
  rw [reach_append]; rfl

/-- `await instance_i.<name>` driven to completion, in ANY state in which the instance's entry is the
    placeholder `p` and `p`'s lock is free: the getter runs (run number `s.nRuns`, a new run), its
    value is what the await returns and what is cached -/
theorem await_recomputes (cfg : Cfg) (s : State) (i p : Nat) (hs : s.slot i = some (.ph p))
    (hi : s.phInst p = i) (hl : s.lock p = none) :
    seqStep cfg s (.await i)
      = (afterRun cfg (setPc (addTask s i (.ph p)) s.nTasks (.entered p)) s.nTasks p,
         if cfg.ok s.nRuns then .ret s.nRuns else .raised s.nRuns) := by
  have hsp : (step cfg s (.spawn i)).1 = addTask s i (.ph p) := by simp [step, access, hs]
  have hpc : (addTask s i (.ph p)).pc s.nTasks = .start (.ph p) := by simp [addTask]
  have hsched := sched_start_self cfg (addTask s i (.ph p)) s.nTasks p hpc
    (by simpa [addTask, hi] using hs) (by simpa [addTask] using hl)
  have hd := drive_from_sched cfg (addTask s i (.ph p)) (setPc (addTask s i (.ph p)) s.nTasks (.entered p))
    s.nTasks p rfl hsched
  simp only [seqStep, hsp, awaitNow, hpc]
  rw [hd]
  have := resultOf_afterRun cfg (setPc (addTask s i (.ph p)) s.nTasks (.entered p)) s.nTasks p
  exact Prod.ext rfl this

end AsyncVerif.CachedProperty

/-! ## ExitStack -/
namespace AsyncVerif.ExitStack

/-- what becomes of the exception in flight when exit `en` has run: suppressed (`truthy`), kept
    (`falsy`), replaced (`raise e`) -/
def react (en : Entry) (x : Option ExcId) : Option ExcId :=
  match en.run x with
  | .truthy => none
  | .falsy => x
  | .raise e => some e

/-- the exception in flight after the exits of `stack` (registration order; the last registered
    runs first) have run, starting from `x` -/
def inflight : List Entry → Option ExcId → Option ExcId
  | [], x => x
  | en :: rest, x => react en (inflight rest x)

/-- an outcome is determined by its exception -/
def ofExc : Option ExcId → Outcome
  | none => .normal
  | some e => .raises e

theorem ofExc_exc (o : Outcome) : ofExc o.exc = o := by cases o <;> rfl

theorem nested_exc (stack : List Entry) (body : Outcome) :
    (nested stack body).1.exc = inflight stack body.exc := by
  induction stack with
  | nil => rfl
  | cons en rest ih =>
    simp only [nested, inflight, react, ← ih]
    cases en.run (nested rest body).1.exc <;> rfl

theorem nested_outcome (stack : List Entry) (body : Outcome) :
    (nested stack body).1 = ofExc (inflight stack body.exc) := by
  rw [← nested_exc, ofExc_exc]

theorem nested_cons_log (en : Entry) (rest : List Entry) (body : Outcome) :
    (nested (en :: rest) body).2
      = (nested rest body).2 ++ [(en.id, if en.isCallback then none else inflight rest body.exc)] := by
  simp only [nested, ← nested_exc]
  cases en.run (nested rest body).1.exc <;> rfl

theorem nested_cons_outcome (en : Entry) (rest : List Entry) (body : Outcome) :
    (nested (en :: rest) body).1 = ofExc (react en (inflight rest body.exc)) := by
  rw [nested_outcome]; rfl

theorem nested_log_length (stack : List Entry) (body : Outcome) :
    (nested stack body).2.length = stack.length := by
  induction stack with
  | nil => rfl
  | cons en rest ih => rw [nested_cons_log]; simp [ih]

/-- unwinding `outer ++ inner` = unwinding `inner`, then unwinding `outer` with the outcome of that -/
theorem nested_append (outer inner : List Entry) (body : Outcome) :
    nested (outer ++ inner) body
      = ((nested outer (nested inner body).1).1, (nested inner body).2 ++ (nested outer (nested inner body).1).2) := by
  induction outer with
  | nil => simp [nested]
  | cons en rest ih =>
    apply Prod.ext
    · show (nested (en :: (rest ++ inner)) body).1 = (nested (en :: rest) (nested inner body).1).1
      rw [nested_cons_outcome, nested_cons_outcome, ← nested_exc, ← nested_exc, ih]
    · show (nested (en :: (rest ++ inner)) body).2 = _ ++ (nested (en :: rest) (nested inner body).1).2
      rw [nested_cons_log, nested_cons_log, ← nested_exc, ← nested_exc, ih]
      simp

theorem inflight_append (outer inner : List Entry) (x : Option ExcId) :
    inflight (outer ++ inner) x = inflight outer (inflight inner x) := by
  induction outer with
  | nil => rfl
  | cons en rest ih => simp only [List.cons_append, inflight, ih]

theorem inflight_all_falsy (stack : List Entry) (x : Option ExcId)
    (h : ∀ en ∈ stack, en.run x = .falsy) : inflight stack x = x := by
  induction stack with
  | nil => rfl
  | cons en rest ih =>
    have hr := ih (fun e he => h e (List.mem_cons_of_mem _ he))
    simp only [inflight, hr, react, h en (List.mem_cons_self ..)]

theorem nested_all_falsy_log (stack : List Entry) (body : Outcome)
    (h : ∀ en ∈ stack, en.run body.exc = .falsy) :
    (nested stack body).2 = stack.reverse.map (fun en => (en.id, if en.isCallback then none else body.exc)) := by
  induction stack with
  | nil => rfl
  | cons en rest ih =>
    have hr : ∀ e ∈ rest, e.run body.exc = .falsy := fun e he => h e (List.mem_cons_of_mem _ he)
    rw [nested_cons_log, ih hr, inflight_all_falsy rest _ hr]
    simp

end AsyncVerif.ExitStack

/-! ## ContextDecorator -/
namespace AsyncVerif.Decorator

theorem prunFrom_append (cfg : Cfg) : ∀ (a b : List Op) (p : PState),
    prunFrom cfg p (a ++ b)
      = ((prunFrom cfg (prunFrom cfg p a).1 b).1, (prunFrom cfg p a).2 ++ (prunFrom cfg (prunFrom cfg p a).1 b).2) := by
  intro a
  induction a with
  | nil => intro b p; rfl
  | cons op rest ih => intro b p; simp only [List.cons_append, prunFrom, ih, List.cons_append]

theorem prun_snoc (cfg : Cfg) (ops : List Op) (op : Op) :
    (prun cfg (ops ++ [op])).1 = (pstep cfg (prun cfg ops).1 op).1 := by
  simp only [prun, prunFrom_append, prunFrom]

/-- one more operation on call `op.call` after any schedule: the heap machine appends exactly the
    events of `callStep` run on the call's private state, which is coherent -/
theorem run_snoc (cfg : Cfg) (ops : List Op) (op : Op) (cc : CallCfg) (hcc : cfg.calls[op.call]? = some cc) :
    Coh cfg.generatorBased ((prun cfg ops).1.calls op.call) ∧
    ((prun cfg ops).1.calls op.call).pc = ((run cfg ops).1.calls op.call).pc ∧
    proj op.call (run cfg (ops ++ [op])).1.log
      = proj op.call (run cfg ops).1.log
        ++ (callStep cfg.generatorBased cc ((prun cfg ops).1.calls op.call) op.cop).2.1 ∧
    ((run cfg (ops ++ [op])).1.calls op.call).pc
      = (callStep cfg.generatorBased cc ((prun cfg ops).1.calls op.call) op.cop).1.pc := by
  have hs := rel_reach cfg ops
  have hs' := rel_reach cfg (ops ++ [op])
  have hp : PInv cfg (prun cfg ops).1 := pinv_run ops (pinv_init cfg)
  have hstep : (pstep cfg (prun cfg ops).1 op).1
      = { calls := setAt (prun cfg ops).1.calls op.call
            (callStep cfg.generatorBased cc ((prun cfg ops).1.calls op.call) op.cop).1,
          log := (prun cfg ops).1.log
            ++ (callStep cfg.generatorBased cc ((prun cfg ops).1.calls op.call) op.cop).2.1.map
                (fun e => (op.call, e)) } := by
    simp only [pstep, hcc]
  refine ⟨hp.coh op.call, (hs.pcs op.call).symm, ?_, ?_⟩
  · rw [proj_eq_pproj, hs'.log, prun_snoc, hstep, proj_eq_pproj, hs.log]
    simp only [pproj_append, pproj_tag_same]
  · rw [hs'.pcs op.call, prun_snoc, hstep]
    simp only [setAt_same]

/-- a cancellation thrown into a call that is suspended in `await cm.__aenter__()`: the context was
    not established, so nothing is exited; the cancellation leaves the call -/
theorem callStep_cancel_entering (gb : Bool) (cc : CallCfg) (l : Local) (x : Exc) (k : Nat)
    (hpc : l.pc = .entering k) (hcoh : Coh gb l) :
    (callStep gb cc l (.cancel x)).2.1 = [.finish (.raised x)] ∧
    (callStep gb cc l (.cancel x)).1.pc = .done (.raised x) ∧
    (callStep gb cc l (.cancel x)).2.2 = .finished (.raised x) := by
  cases gb with
  | false => simp [callStep, hpc, afterEnter]
  | true =>
    have := hcoh rfl
    rw [hpc] at this
    obtain ⟨j, hj⟩ := this
    simp [callStep, hpc, genEnterSend, hj, genAdvance, genAenter, afterEnter, prepend]

/-- a cancellation thrown into a call that is suspended in `await cm.__aexit__(...)`: the exit code is
    not run again, the cancellation leaves the call (it replaces whatever was in flight) -/
theorem callStep_cancel_exiting (gb : Bool) (cc : CallCfg) (l : Local) (x : Exc) (o : BodyOut) (k : Nat)
    (hpc : l.pc = .exiting o k) (hcoh : Coh gb l) :
    ∃ resp, (callStep gb cc l (.cancel x)).2.1 = [.exited resp, .finish (.raised x)] ∧
      (callStep gb cc l (.cancel x)).1.pc = .done (.raised x) ∧
      (callStep gb cc l (.cancel x)).2.2 = .finished (.raised x) ∧
      (resp = .raised x ∨ (resp = .returned false ∧ o = .raised x)) := by
  cases gb with
  | false =>
    exact ⟨.raised x, by simp [callStep, hpc, contExit, finishExit, combine]⟩
  | true =>
    have := hcoh rfl
    rw [hpc] at this
    cases o with
    | returned v =>
      obtain ⟨j, hj⟩ := this
      exact ⟨.raised x, by
        simp [callStep, hpc, genExitSend, hj, genAdvance, genAexit, BodyOut.exc, contExit, finishExit, combine, prepend]⟩
    | raised e =>
      obtain ⟨j, hj⟩ := this
      by_cases hxe : x = e
      · subst hxe
        exact ⟨.returned false, by
          simp [callStep, hpc, genExitSend, hj, genAdvance, genAexit, BodyOut.exc, contExit, finishExit, combine, prepend]⟩
      · exact ⟨.raised x, by
          simp [callStep, hpc, genExitSend, hj, genAdvance, genAexit, BodyOut.exc, contExit, finishExit, combine, prepend,
            hxe]⟩

/-- the automaton after `bodyEnd o`: the events that can follow are `exit (exception of o)` and then
    either nothing yet (the exit is suspended) or `exited resp, finish (combine o resp)` -/
theorem specFrom_bodyDone (o : BodyOut) (evs : List LEv) (pc : Pc)
    (h : specFrom (.bodyDone o) evs = some (absSt pc)) :
    (evs = [.exit o.exc] ∧ ∃ k, pc = .exiting o k) ∨
    (∃ resp, evs = [.exit o.exc, .exited resp, .finish (combine o resp)] ∧ pc = .done (combine o resp)) := by
  cases evs with
  | nil => cases pc <;> simp [specFrom, absSt] at h
  | cons e1 r1 =>
    cases e1 <;> simp only [specFrom, specStep] at h <;> try (cases h; done)
    rename_i y
    by_cases hy : y = o.exc
    · subst hy
      simp only [if_true] at h
      cases r1 with
      | nil =>
        left
        cases pc <;> simp [specFrom, absSt] at h
        rename_i o' k
        subst h
        exact ⟨rfl, k, rfl⟩
      | cons e2 r2 =>
        cases e2 <;> simp only [specFrom, specStep] at h <;> try (cases h; done)
        rename_i resp
        cases r2 with
        | nil => cases pc <;> simp [specFrom, absSt] at h
        | cons e3 r3 =>
          cases e3 <;> simp only [specFrom, specStep] at h <;> try (cases h; done)
          rename_i res
          by_cases hres : res = combine o resp
          · subst hres
            simp only [if_true] at h
            have hnil : r3 = [] := by
              cases r3 with
              | nil => rfl
              | cons e4 r4 => cases e4 <;> simp [specFrom, specStep] at h
            subst hnil
            right
            refine ⟨resp, rfl, ?_⟩
            cases pc <;> simp [specFrom, absSt] at h
            subst h; rfl
          · simp [hres] at h
    · simp [hy] at h

/-- a cancellation thrown into a call that is suspended in the body `await func(...)`: the body ends
    with the cancellation, the call's OWN context is exited with exactly that exception, once; then
    either the exit is suspended, or it has answered and the call finishes with `combine` -/
theorem callStep_cancel_body (gb : Bool) (cc : CallCfg) (l : Local) (x : Exc) (k : Nat)
    (hpc : l.pc = .body k) (hcoh : Coh gb l) :
    ((callStep gb cc l (.cancel x)).2.1 = [.bodyEnd (.raised x), .exit (some x)] ∧
      ∃ j, (callStep gb cc l (.cancel x)).1.pc = .exiting (.raised x) j) ∨
    (∃ resp, (callStep gb cc l (.cancel x)).2.1
        = [.bodyEnd (.raised x), .exit (some x), .exited resp, .finish (combine (.raised x) resp)] ∧
      (callStep gb cc l (.cancel x)).1.pc = .done (combine (.raised x) resp)) := by
  have hy : gb = true → l.cell.pc = .atYield := by
    intro hg; have := hcoh hg; rw [hpc] at this; exact this
  have hg := good_startExit gb cc l.cell (.raised x) hy
  have hcs : callStep gb cc l (.cancel x) = prepend [.bodyEnd (.raised x)] (startExit gb cc l.cell (.raised x)) := by
    simp [callStep, hpc, afterBody]
  rw [hcs]
  rcases specFrom_bodyDone (.raised x) _ _ hg.1 with ⟨h1, j, h2⟩ | ⟨resp, h1, h2⟩
  · left
    exact ⟨by simp [prepend, h1, BodyOut.exc], j, h2⟩
  · right
    exact ⟨resp, by simp [prepend, h1, BodyOut.exc], h2⟩

/-- the manager's exit code starts -/
def isExitEv : LEv → Bool
  | .exit _ => true
  | _ => false

theorem completeShape_exit_once (l : List LEv) (r : Result) (h : CompleteShape l r) :
    l.countP isExitEv ≤ 1 := by
  cases h <;> simp [isExitEv, List.countP_cons]

theorem runFrom_append (cfg : Cfg) : ∀ (a b : List Op) (s : State),
    runFrom cfg s (a ++ b)
      = ((runFrom cfg (runFrom cfg s a).1 b).1, (runFrom cfg s a).2 ++ (runFrom cfg (runFrom cfg s a).1 b).2) := by
  intro a
  induction a with
  | nil => intro b s; rfl
  | cons op rest ih => intro b s; simp only [List.cons_append, runFrom, ih, List.cons_append]

theorem run_snoc_state (cfg : Cfg) (ops : List Op) (op : Op) :
    (run cfg (ops ++ [op])).1 = (step cfg (run cfg ops).1 op).1 := by
  simp only [run, runFrom_append, runFrom]

end AsyncVerif.Decorator
