import AsyncVerif.Proofs.Core
import AsyncVerif.Impl.Aggregations
import AsyncVerif.Std.AggSpec
/-!
# Value lemmas for the aggregations (C02)

Step lemmas for the primitives in a fault-free world (`pull` on a source that `Feeds` items, `call`
of a pure function), frame facts (what a step leaves unchanged), the loop inductions relating
`Std.*` to `ListSpec.*`, the lifting through `scopedIter`, the pure list facts about the
specifications (first minimal item, stable sort, where a fold fails), and — for every world — the
frame predicate `OnlyConsumes` with its closure lemmas and the loop inductions (tactic `ocs`).
-/
set_option linter.unusedSimpArgs false
namespace AsyncVerif

/-! ## Steps of the primitives in a fault-free world -/

/-- pulling from a source that still has an item: the item is delivered, the rest stays scripted;
    callables, call counters and the consumer are untouched -/
theorem pull_cons {w : World} {s : Nat} {x : Val} {rest : List Val} (h : Feeds w s (x :: rest)) :
    ∃ w', pull s w = (.ok (some x), w') ∧ Feeds w' s rest ∧ w'.fns = w.fns ∧ w'.calls = w.calls
      ∧ w'.cons = w.cons ∧ w'.vis = w.vis ++ [.pull s, .item s x] := by
  have hs := h.script
  have hl := h.live
  simp only [List.map_cons] at hs
  refine ⟨((w.pushVis (.pull s)).setSrc s { (w.srcs s) with script := rest.map Resp.item, status := .running }).pushVis (.item s x),
    by unfold pull; simp only [hl, if_true, hs], ⟨?_, ?_⟩, rfl, rfl, rfl, ?_⟩
  · simp [World.pushVis, World.setSrc]
  · simp [World.pushVis, World.setSrc, Status.live]
  · simp [World.pushVis, World.setSrc]

/-- pulling from a source whose script is used up: end of input is detected, the script stays empty -/
theorem pull_nil {w : World} {s : Nat} (h : Feeds w s []) :
    ∃ w', pull s w = (.ok none, w') ∧ (w'.srcs s).script = [] ∧ w'.fns = w.fns ∧ w'.calls = w.calls
      ∧ w'.cons = w.cons ∧ w'.vis = w.vis ++ [.pull s, .endd s] := by
  have hs := h.script
  have hl := h.live
  simp only [List.map_nil] at hs
  refine ⟨((w.pushVis (.pull s)).setSrc s { (w.srcs s) with status := .exhausted }).pushVis (.endd s),
    by unfold pull; simp only [hl, if_true, hs], ?_, rfl, rfl, rfl, ?_⟩
  · simp [World.pushVis, World.setSrc, hs]
  · simp [World.pushVis, World.setSrc]


/-- calling a pure callable: it returns `q args`; sources and callables are untouched -/
theorem call_pure {w : World} {f : Nat} {q : List Val → Val} (h : ∀ n, w.fns f n args = .ok (q args)) :
    ∃ w', call f args w = (.ok (q args), w') ∧ w'.srcs = w.srcs ∧ w'.fns = w.fns
      ∧ w'.cons = w.cons ∧ w'.vis = w.vis ++ [.call f args, .ret f (q args)] := by
  refine ⟨({ w with calls := fun i => if i = f then w.calls f + 1 else w.calls i,
                     vis := w.vis ++ [Ev.call f args] } : World).pushVis (.ret f (q args)),
    by unfold call; simp only [h], rfl, rfl, rfl, ?_⟩
  simp [World.pushVis]

/-- computing the key of an item under a pure key function -/
theorem keyOf_pure {w : World} {fn : Option Nat} {kf : Val → Val} (h : KeyFn w fn kf) (x : Val) :
    ∃ w', Std.keyOf fn x w = (.ok (kf x), w') ∧ w'.srcs = w.srcs ∧ w'.fns = w.fns ∧ w'.cons = w.cons
      ∧ w'.vis = w.vis ++ ListSpec.keyLog fn kf x := by
  cases fn with
  | none =>
    refine ⟨w, ?_, rfl, rfl, rfl, by simp [ListSpec.keyLog]⟩
    have : kf x = x := h x
    simp [Std.keyOf, pure_apply, this]
  | some f =>
    obtain ⟨w', h1, h2, h3, h4, h5⟩ := call_pure (w := w) (f := f) (args := [x]) (q := fun _ => kf x) (fun n => h n x)
    exact ⟨w', by simpa [Std.keyOf] using h1, h2, h3, h4, by simpa [ListSpec.keyLog] using h5⟩

theorem Feeds.of_srcs {w w' : World} {s : Nat} {items : List Val} (h : Feeds w s items)
    (e : w'.srcs = w.srcs) : Feeds w' s items := ⟨by rw [e]; exact h.script, by rw [e]; exact h.live⟩

theorem KeyFn.of_fns {w w' : World} {fn : Option Nat} {kf : Val → Val} (h : KeyFn w fn kf)
    (e : w'.fns = w.fns) : KeyFn w' fn kf := by
  cases fn with
  | none => exact h
  | some f => intro n x; rw [e]; exact h n x

theorem PureFn.of_fns {w w' : World} {f : Nat} {q : List Val → Val} (h : PureFn w f q)
    (e : w'.fns = w.fns) : PureFn w' f q := by
  intro n args; rw [e]; exact h n args

/-! ## Lifting through `scopedIter`: closing the source changes neither result, visible log nor scripts -/

/-- `aclose()` never alters what a source (any source) still has to deliver, nor the callables -/
theorem closeSrc_frame (s : Nat) (w : World) :
    (∀ s', ((closeSrc s w).2.srcs s').script = (w.srcs s').script) ∧ (closeSrc s w).2.fns = w.fns
      ∧ (closeSrc s w).2.calls = w.calls := by
  have key : ∀ (x : Src), x.script = (w.srcs s).script → ∀ s',
      ((w.setSrc s x).srcs s').script = (w.srcs s').script := by
    intro x hx s'
    simp only [World.setSrc]
    split
    · subst_vars; exact hx
    · rfl
  unfold closeSrc
  cases hk : (w.srcs s).kind <;> simp only [hk]
  case aobj => exact ⟨fun s' => key _ (by rfl) s', by simp [World.pushRel, World.setSrc]⟩
  case aobjNc => simp
  case agen =>
    cases hs : (w.srcs s).status <;> simp only [hs]
    case running => exact ⟨fun s' => key _ (by rfl) s', by simp [World.pushRel, World.setSrc]⟩
    case fresh => exact ⟨fun s' => key _ (by rfl) s', by simp [World.pushRel, World.setSrc]⟩
    all_goals simp
  all_goals
    split
    · exact ⟨fun s' => key _ (by rfl) s', by simp [World.pushRel, World.setSrc]⟩
    · simp

/-- a tool that is `scopedIter s body`: same result and visible log as `body` (every world), and
    every source is left with the same remaining script as by `body` -/
theorem scopedIter_value {α : Type} (s : Nat) (body : M α) (w : World) :
    (scopedIter s body w).1 = (body w).1 ∧ (scopedIter s body w).2.vis = (body w).2.vis ∧
    (∀ s', ((scopedIter s body w).2.srcs s').script = ((body w).2.srcs s').script) ∧
    (scopedIter s body w).2.calls = (body w).2.calls := by
  refine ⟨(scopedIter_twin s body w).1, (scopedIter_twin s body w).2, ?_⟩
  unfold scopedIter tryFinally
  rcases hb : body w with ⟨r, w1⟩
  have hq := closeSrc_quiet s w1
  have hfr := closeSrc_frame s w1
  rcases hc : closeSrc s w1 with ⟨r2, w2⟩
  rw [hc] at hq hfr
  obtain ⟨hr, -, -⟩ := hq
  simp only at hr hfr
  subst hr
  cases r with
  | ok a => simp only [hc]; exact ⟨hfr.1, hfr.2.2⟩
  | error e => cases e <;> simp only [hc] <;> first | exact ⟨hfr.1, hfr.2.2⟩ | exact ⟨fun _ => trivial, trivial⟩ | exact ⟨fun _ => rfl, rfl⟩

/-! ## all / any -/

namespace ListSpec

theorem findIdx_first (p : Val → Bool) : ∀ (pre : List Val) (x : Val) (post : List Val),
    (∀ y ∈ pre, p y = false) → p x = true → (pre ++ x :: post).findIdx p = pre.length := by
  intro pre
  induction pre with
  | nil => intro x post _ hx; simp [List.findIdx_cons, hx]
  | cons y ys ih =>
    intro x post hpre hx
    have hy : p y = false := hpre y (by simp)
    simp [List.findIdx_cons, hy, ih x post (fun z hz => hpre z (by simp [hz])) hx]

theorem findIdx_none (p : Val → Bool) : ∀ (xs : List Val), (∀ y ∈ xs, p y = false) → xs.findIdx p = xs.length := by
  intro xs
  induction xs with
  | nil => intro _; rfl
  | cons y ys ih =>
    intro h
    have hy : p y = false := h y (by simp)
    simp [List.findIdx_cons, hy, ih (fun z hz => h z (by simp [hz]))]

/-- `all` consumes up to and including the first falsy item -/
theorem allConsumed_first_falsy (pre : List Val) (x : Val) (post : List Val)
    (hpre : ∀ y ∈ pre, y.truthy = true) (hx : x.truthy = false) :
    allConsumed (pre ++ x :: post) = pre.length + 1 := by
  unfold allConsumed
  rw [findIdx_first _ pre x post (fun y hy => by simp [hpre y hy]) (by simp [hx])]

/-- without a falsy item `all` consumes everything -/
theorem allConsumed_all_truthy (items : List Val) (h : ∀ y ∈ items, y.truthy = true) :
    allConsumed items = items.length + 1 := by
  unfold allConsumed
  rw [findIdx_none _ items (fun y hy => by simp [h y hy])]

/-- `any` consumes up to and including the first truthy item -/
theorem anyConsumed_first_truthy (pre : List Val) (x : Val) (post : List Val)
    (hpre : ∀ y ∈ pre, y.truthy = false) (hx : x.truthy = true) :
    anyConsumed (pre ++ x :: post) = pre.length + 1 := by
  unfold anyConsumed
  rw [findIdx_first _ pre x post hpre hx]

/-- without a truthy item `any` consumes everything -/
theorem anyConsumed_all_falsy (items : List Val) (h : ∀ y ∈ items, y.truthy = false) :
    anyConsumed items = items.length + 1 := by
  unfold anyConsumed
  rw [findIdx_none _ items h]

end ListSpec

theorem allLoop_value (s : Nat) : ∀ (items : List Val) (fuel : Nat) (w : World),
    Feeds w s items → items.length < fuel →
    (Std.allLoop s fuel w).1 = .ok (.bool (items.all Val.truthy)) ∧
    ((Std.allLoop s fuel w).2.srcs s).script = (items.drop (ListSpec.allConsumed items)).map Resp.item ∧
    (Std.allLoop s fuel w).2.vis = w.vis ++ ListSpec.pullLog s (items.take (ListSpec.allConsumed items))
      ++ (if items.all Val.truthy then ListSpec.endLog s else []) := by
  intro items
  induction items with
  | nil =>
    intro fuel w hf hlt
    cases fuel with
    | zero => simp at hlt
    | succ fuel =>
      obtain ⟨w', hp, hs, -, -, -, hv⟩ := pull_nil hf
      simp [Std.allLoop, bind_apply, hp, pure_apply, hs, hv, ListSpec.pullLog, ListSpec.endLog]
  | cons x rest ih =>
    intro fuel w hf hlt
    cases fuel with
    | zero => simp at hlt
    | succ fuel =>
      obtain ⟨w', hp, hf', -, -, -, hv⟩ := pull_cons hf
      simp only [Std.allLoop, bind_apply, hp]
      cases hx : x.truthy with
      | true =>
        have := ih fuel w' hf' (by simp at hlt; omega)
        simpa [hx, ListSpec.allConsumed, List.findIdx_cons, hv, ListSpec.pullLog] using this
      | false =>
        simp [hx, pure_apply, ListSpec.allConsumed, List.findIdx_cons, hf'.script, hv, ListSpec.pullLog]

theorem anyLoop_value (s : Nat) : ∀ (items : List Val) (fuel : Nat) (w : World),
    Feeds w s items → items.length < fuel →
    (Std.anyLoop s fuel w).1 = .ok (.bool (items.any Val.truthy)) ∧
    ((Std.anyLoop s fuel w).2.srcs s).script = (items.drop (ListSpec.anyConsumed items)).map Resp.item ∧
    (Std.anyLoop s fuel w).2.vis = w.vis ++ ListSpec.pullLog s (items.take (ListSpec.anyConsumed items))
      ++ (if items.any Val.truthy then [] else ListSpec.endLog s) := by
  intro items
  induction items with
  | nil =>
    intro fuel w hf hlt
    cases fuel with
    | zero => simp at hlt
    | succ fuel =>
      obtain ⟨w', hp, hs, -, -, -, hv⟩ := pull_nil hf
      simp [Std.anyLoop, bind_apply, hp, pure_apply, hs, hv, ListSpec.pullLog, ListSpec.endLog]
  | cons x rest ih =>
    intro fuel w hf hlt
    cases fuel with
    | zero => simp at hlt
    | succ fuel =>
      obtain ⟨w', hp, hf', -, -, -, hv⟩ := pull_cons hf
      simp only [Std.anyLoop, bind_apply, hp]
      cases hx : x.truthy with
      | false =>
        have := ih fuel w' hf' (by simp at hlt; omega)
        simpa [hx, ListSpec.anyConsumed, List.findIdx_cons, hv, ListSpec.pullLog] using this
      | true =>
        simp [hx, pure_apply, ListSpec.anyConsumed, List.findIdx_cons, hf'.script, hv, ListSpec.pullLog]


/-! ## list / tuple -/

theorem collectAll_value (s : Nat) : ∀ (items acc : List Val) (fuel : Nat) (w : World),
    Feeds w s items → items.length < fuel →
    (Std.collectAll s acc fuel w).1 = .ok (acc ++ items) ∧
    ((Std.collectAll s acc fuel w).2.srcs s).script = [] ∧
    (Std.collectAll s acc fuel w).2.vis = w.vis ++ ListSpec.pullLog s items ++ ListSpec.endLog s := by
  intro items
  induction items with
  | nil =>
    intro acc fuel w hf hlt
    cases fuel with
    | zero => simp at hlt
    | succ fuel =>
      obtain ⟨w', hp, hs, -, -, -, hv⟩ := pull_nil hf
      simp [Std.collectAll, bind_apply, hp, pure_apply, hs, hv, ListSpec.pullLog, ListSpec.endLog]
  | cons x rest ih =>
    intro acc fuel w hf hlt
    cases fuel with
    | zero => simp at hlt
    | succ fuel =>
      obtain ⟨w', hp, hf', -, -, -, hv⟩ := pull_cons hf
      simp only [Std.collectAll, bind_apply, hp]
      have := ih (acc ++ [x]) fuel w' hf' (by simp at hlt; omega)
      simpa [hv, ListSpec.pullLog] using this

/-! ## sum -/

theorem liftExc_apply {α : Type} (r : Except Exc α) (w : World) : liftExc r w = (r, w) := by
  cases r <;> rfl

namespace ListSpec

theorem foldAdd_append : ∀ (a b : List Val) (t : Val),
    foldAdd t (a ++ b) = (match foldAdd t a with | .ok t' => foldAdd t' b | .error e => .error e) := by
  intro a
  induction a with
  | nil => intro b t; rfl
  | cons x xs ih =>
    intro b t
    simp only [List.cons_append, foldAdd]
    cases t.add x with
    | ok t1 => exact ih b t1
    | error e => rfl

/-- `foldAdd` is the monadic left fold of `Val.add` in the exception monad -/
theorem foldAdd_eq_foldlM : ∀ (xs : List Val) (t : Val), foldAdd t xs = xs.foldlM Val.add t := by
  intro xs
  induction xs with
  | nil => intro t; rfl
  | cons x xs ih =>
    intro t
    simp only [foldAdd, List.foldlM_cons]
    cases h : t.add x with
    | ok t1 => simpa [bind, Except.bind] using ih t1
    | error e => simp [bind, Except.bind]

theorem add_error (a b : Val) (e : Exc) (h : a.add b = .error e) : e = .typeError := by
  unfold Val.add at h
  split at h <;> first | (injection h with h; exact h.symm) | simp at h

/-- **the sum fails exactly when some addition of the fold fails** — at the first such position,
    with that addition's error (always `TypeError`) -/
theorem foldAdd_error_iff (e : Exc) : ∀ (xs : List Val) (t : Val),
    foldAdd t xs = .error e ↔
      ∃ pre x post t', xs = pre ++ x :: post ∧ foldAdd t pre = .ok t' ∧ t'.add x = .error e := by
  intro xs t
  constructor
  · induction xs generalizing t with
    | nil => intro h; simp [foldAdd] at h
    | cons x xs ih =>
      intro h
      simp only [foldAdd] at h
      cases hadd : t.add x with
      | error e' =>
        rw [hadd] at h
        simp only [Except.error.injEq] at h
        subst h
        exact ⟨[], x, xs, t, rfl, rfl, hadd⟩
      | ok t1 =>
        rw [hadd] at h
        obtain ⟨pre, y, post, t', h1, h2, h3⟩ := ih t1 h
        exact ⟨x :: pre, y, post, t', by rw [h1]; rfl, by simp only [foldAdd, hadd]; exact h2, h3⟩
  · rintro ⟨pre, x, post, t', h1, h2, h3⟩
    rw [h1, foldAdd_append, h2]
    simp only [foldAdd, h3]

theorem foldAdd_error_typeError (e : Exc) (xs : List Val) (t : Val) (h : foldAdd t xs = .error e) :
    e = .typeError := by
  obtain ⟨_, x, _, t', _, _, h3⟩ := (foldAdd_error_iff e xs t).mp h
  exact add_error t' x e h3

/-- on integers the sum is the integer sum -/
theorem foldAdd_ints : ∀ (ns : List Int) (a : Int),
    foldAdd (.int a) (ns.map Val.int) = .ok (.int (ns.foldl (· + ·) a)) := by
  intro ns
  induction ns with
  | nil => intro a; rfl
  | cons n ns ih => intro a; simpa [foldAdd, Val.add] using ih (a + n)

end ListSpec

theorem sumLoop_value (s : Nat) : ∀ (items : List Val) (total : Val) (fuel : Nat) (w : World),
    Feeds w s items → items.length < fuel →
    (Std.sumLoop s total fuel w).1 = ListSpec.foldAdd total items ∧
    (∀ v, ListSpec.foldAdd total items = .ok v →
      ((Std.sumLoop s total fuel w).2.srcs s).script = [] ∧
      (Std.sumLoop s total fuel w).2.vis = w.vis ++ ListSpec.pullLog s items ++ ListSpec.endLog s) := by
  intro items
  induction items with
  | nil =>
    intro total fuel w hf hlt
    cases fuel with
    | zero => simp at hlt
    | succ fuel =>
      obtain ⟨w', hp, hs, -, -, -, hv⟩ := pull_nil hf
      simp [Std.sumLoop, bind_apply, hp, pure_apply, hs, hv, ListSpec.pullLog, ListSpec.endLog, ListSpec.foldAdd]
  | cons x rest ih =>
    intro total fuel w hf hlt
    cases fuel with
    | zero => simp at hlt
    | succ fuel =>
      obtain ⟨w', hp, hf', -, -, -, hv⟩ := pull_cons hf
      simp only [Std.sumLoop, bind_apply, hp, liftExc_apply, ListSpec.foldAdd]
      cases hadd : total.add x with
      | error e => simp
      | ok t =>
        have := ih t fuel w' hf' (by simp at hlt; omega)
        simpa [hv, ListSpec.pullLog] using this

/-- when the fold fails at the item `x` (after the prefix `pre`), `sum` raises that error having
    pulled exactly `pre` and `x`: the rest `post` is still scripted -/
theorem sumLoop_error (s : Nat) (x : Val) (post : List Val) (e : Exc) :
    ∀ (pre : List Val) (total t : Val) (fuel : Nat) (w : World),
    Feeds w s (pre ++ x :: post) → ListSpec.foldAdd total pre = .ok t → t.add x = .error e →
    pre.length < fuel →
    (Std.sumLoop s total fuel w).1 = .error e ∧
    ((Std.sumLoop s total fuel w).2.srcs s).script = post.map Resp.item ∧
    (Std.sumLoop s total fuel w).2.vis = w.vis ++ ListSpec.pullLog s (pre ++ [x]) := by
  intro pre
  induction pre with
  | nil =>
    intro total t fuel w hf hfold hadd hlt
    cases fuel with
    | zero => simp at hlt
    | succ fuel =>
      obtain ⟨w', hp, hf', -, -, -, hv⟩ := pull_cons (rest := post) (by simpa using hf)
      simp only [ListSpec.foldAdd, Except.ok.injEq] at hfold
      subst hfold
      simp [Std.sumLoop, bind_apply, hp, liftExc_apply, hadd, hf'.script, hv, ListSpec.pullLog]
  | cons y pre ih =>
    intro total t fuel w hf hfold hadd hlt
    cases fuel with
    | zero => simp at hlt
    | succ fuel =>
      obtain ⟨w', hp, hf', -, -, -, hv⟩ := pull_cons (rest := pre ++ x :: post) (by simpa using hf)
      simp only [ListSpec.foldAdd] at hfold
      cases hy : total.add y with
      | error e' => rw [hy] at hfold; simp at hfold
      | ok t1 =>
        rw [hy] at hfold
        have := ih t1 t fuel w' hf' hfold hadd (by simp at hlt; omega)
        simpa [Std.sumLoop, bind_apply, hp, liftExc_apply, hy, hv, ListSpec.pullLog] using this

/-! ## reduce -/

theorem reduceLoop_value (f s : Nat) (q : List Val → Val) : ∀ (items : List Val) (acc : Val) (fuel : Nat) (w : World),
    Feeds w s items → PureFn w f q → items.length < fuel →
    (Std.reduceLoop f s acc fuel w).1 = .ok (items.foldl (fun a x => q [a, x]) acc) ∧
    ((Std.reduceLoop f s acc fuel w).2.srcs s).script = [] ∧
    (Std.reduceLoop f s acc fuel w).2.vis = w.vis ++ ListSpec.reduceLog s f q acc items := by
  intro items
  induction items with
  | nil =>
    intro acc fuel w hf hq hlt
    cases fuel with
    | zero => simp at hlt
    | succ fuel =>
      obtain ⟨w', hp, hs, -, -, -, hv⟩ := pull_nil hf
      simp [Std.reduceLoop, bind_apply, hp, pure_apply, hs, hv, ListSpec.reduceLog, ListSpec.endLog]
  | cons x rest ih =>
    intro acc fuel w hf hq hlt
    cases fuel with
    | zero => simp at hlt
    | succ fuel =>
      obtain ⟨w', hp, hf', hfn, -, -, hv⟩ := pull_cons hf
      obtain ⟨w'', hc, hsr, hfn2, -, hv2⟩ := call_pure (w := w') (f := f) (args := [acc, x]) (q := q)
        (fun n => (hq.of_fns hfn) n _)
      simp only [Std.reduceLoop, bind_apply, hp, hc]
      have := ih (q [acc, x]) fuel w'' (hf'.of_srcs hsr) ((hq.of_fns hfn).of_fns hfn2) (by simp at hlt; omega)
      simpa [hv, hv2, ListSpec.reduceLog] using this

theorem reduce_value (f s : Nat) (q : List Val → Val) (initial : Option Val) (items : List Val)
    (fuel : Nat) (w : World) (hf : Feeds w s items) (hq : PureFn w f q) (hlt : items.length < fuel) :
    (Std.reduce f initial s fuel w).1 =
      (match ListSpec.reduce q initial items with | some v => .ok v | none => .error .typeError) ∧
    ((Std.reduce f initial s fuel w).2.srcs s).script = [] ∧
    (Std.reduce f initial s fuel w).2.vis = w.vis ++
      (match initial, items with
        | some v, items => ListSpec.reduceLog s f q v items
        | none, [] => ListSpec.endLog s
        | none, x :: xs => [Ev.pull s, Ev.item s x] ++ ListSpec.reduceLog s f q x xs) := by
  cases initial with
  | some v =>
    have := reduceLoop_value f s q items v fuel w hf hq hlt
    simpa [Std.reduce, bind_apply, pure_apply, ListSpec.reduce] using this
  | none =>
    cases items with
    | nil =>
      obtain ⟨w', hp, hs, -, -, -, hv⟩ := pull_nil hf
      simp [Std.reduce, bind_apply, tryCatchStop, anext, hp, raise, ListSpec.reduce, hs, hv, ListSpec.endLog]
    | cons x rest =>
      obtain ⟨w', hp, hf', hfn, -, -, hv⟩ := pull_cons hf
      have := reduceLoop_value f s q rest x fuel w' hf' (hq.of_fns hfn) (by simp at hlt; omega)
      simpa [Std.reduce, bind_apply, tryCatchStop, anext, hp, pure_apply, ListSpec.reduce, hv] using this

/-! ## min / max -/

theorem Val.lt_orderable {a b : Val} (ha : a.orderable = true) (hb : b.orderable = true) :
    Val.lt a b = .ok (decide (a.ikey < b.ikey)) := by
  unfold Val.orderable at ha hb
  unfold Val.lt Val.ikey
  cases h1 : a.key? with
  | none => simp [h1] at ha
  | some x =>
    cases h2 : b.key? with
    | none => simp [h2] at hb
    | some y => simp

namespace ListSpec

/-- characterisation of the scan: either `best` survives and nothing later is strictly smaller, or the
    result sits at a definite position, is strictly smaller than `best` and than everything before
    it, and nothing after it is strictly smaller -/
theorem firstMinFrom_spec (ik : Val → Int) : ∀ (xs : List Val) (best : Val),
    (firstMinFrom ik best xs = best ∧ ∀ y ∈ xs, ik best ≤ ik y) ∨
    (∃ pre post, xs = pre ++ firstMinFrom ik best xs :: post ∧
      ik (firstMinFrom ik best xs) < ik best ∧
      (∀ y ∈ pre, ik (firstMinFrom ik best xs) < ik y) ∧
      (∀ y ∈ post, ik (firstMinFrom ik best xs) ≤ ik y)) := by
  intro xs
  induction xs with
  | nil => intro best; left; simp [firstMinFrom]
  | cons x xs ih =>
    intro best
    by_cases hlt : ik x < ik best
    · simp only [firstMinFrom, hlt, if_true]
      right
      rcases ih x with ⟨hr, hall⟩ | ⟨pre, post, hxs, hlt2, hpre, hpost⟩
      · refine ⟨[], xs, by simp [hr], by rw [hr]; exact hlt, by simp, by rw [hr]; exact hall⟩
      · refine ⟨x :: pre, post, by rw [List.cons_append, ← hxs], by omega, ?_, hpost⟩
        intro y hy
        rcases List.mem_cons.mp hy with h | h
        · rw [h]; exact hlt2
        · exact hpre y h
    · simp only [firstMinFrom, hlt, if_false]
      rcases ih best with ⟨hr, hall⟩ | ⟨pre, post, hxs, hlt2, hpre, hpost⟩
      · left
        refine ⟨hr, ?_⟩
        intro y hy
        rcases List.mem_cons.mp hy with h | h
        · rw [h]; omega
        · exact hall y h
      · right
        refine ⟨x :: pre, post, by rw [List.cons_append, ← hxs], hlt2, ?_, hpost⟩
        intro y hy
        rcases List.mem_cons.mp hy with h | h
        · rw [h]; omega
        · exact hpre y h

theorem firstMaxFrom_eq_neg (ik : Val → Int) : ∀ (xs : List Val) (best : Val),
    firstMaxFrom ik best xs = firstMinFrom (fun x => - ik x) best xs := by
  intro xs
  induction xs with
  | nil => intro best; rfl
  | cons x xs ih =>
    intro best
    simp only [firstMaxFrom, firstMinFrom, ih]
    by_cases h : ik best < ik x
    · have : - ik x < - ik best := by omega
      simp [h, this]
    · have : ¬ (- ik x < - ik best) := by omega
      simp [h, this]

/-- **`min` is the first minimal item**: the result is an item of the input at a definite position,
    every earlier item has a strictly larger key, no later item has a smaller key -/
theorem firstMin_spec (ik : Val → Int) (items : List Val) (r : Val) (h : firstMin ik items = some r) :
    ∃ pre post, items = pre ++ r :: post ∧ (∀ y ∈ pre, ik r < ik y) ∧ (∀ y ∈ post, ik r ≤ ik y) := by
  cases items with
  | nil => simp [firstMin] at h
  | cons x xs =>
    simp only [firstMin, Option.some.injEq] at h
    subst h
    rcases firstMinFrom_spec ik xs x with ⟨hr, hall⟩ | ⟨pre, post, hxs, hlt2, hpre, hpost⟩
    · exact ⟨[], xs, by simp [hr], by simp, by rw [hr]; exact hall⟩
    · refine ⟨x :: pre, post, by rw [List.cons_append, ← hxs], ?_, hpost⟩
      intro y hy
      rcases List.mem_cons.mp hy with h | h
      · rw [h]; exact hlt2
      · exact hpre y h

/-- **`max` is the first maximal item**: every earlier item has a strictly smaller key, no later
    item has a larger key -/
theorem firstMax_spec (ik : Val → Int) (items : List Val) (r : Val) (h : firstMax ik items = some r) :
    ∃ pre post, items = pre ++ r :: post ∧ (∀ y ∈ pre, ik y < ik r) ∧ (∀ y ∈ post, ik y ≤ ik r) := by
  have h' : firstMin (fun x => - ik x) items = some r := by
    cases items with
    | nil => simp [firstMax] at h
    | cons x xs => simpa [firstMax, firstMin, firstMaxFrom_eq_neg] using h
  obtain ⟨pre, post, h1, h2, h3⟩ := firstMin_spec _ items r h'
  exact ⟨pre, post, h1, fun y hy => by have := h2 y hy; omega, fun y hy => by have := h3 y hy; omega⟩

end ListSpec

/-- the `min_max` loop, for arbitrary keys (orderable or not): the outcome — value or `TypeError` —
    is the list-level scan; on success everything was consumed and the key was applied once to each
    item as it arrived -/
theorem mmLoop_scan (fn : Option Nat) (isMax : Bool) (s : Nat) (kf : Val → Val) :
    ∀ (items : List Val) (best : Val) (fuel : Nat) (w : World),
    Feeds w s items → KeyFn w fn kf → items.length < fuel →
    (Std.mmLoop fn isMax s best (kf best) fuel w).1 = ListSpec.scanBest isMax kf best items ∧
    (∀ v, ListSpec.scanBest isMax kf best items = .ok v →
      ((Std.mmLoop fn isMax s best (kf best) fuel w).2.srcs s).script = [] ∧
      (Std.mmLoop fn isMax s best (kf best) fuel w).2.vis =
        w.vis ++ ListSpec.keyedPullLog s fn kf items ++ ListSpec.endLog s) := by
  intro items
  induction items with
  | nil =>
    intro best fuel w hf hk hlt
    cases fuel with
    | zero => simp at hlt
    | succ fuel =>
      obtain ⟨w', hp, hs, -, -, -, hv⟩ := pull_nil hf
      simp [Std.mmLoop, bind_apply, hp, pure_apply, hs, hv, ListSpec.scanBest, ListSpec.keyedPullLog, ListSpec.endLog]
  | cons x rest ih =>
    intro best fuel w hf hk hlt
    cases fuel with
    | zero => simp at hlt
    | succ fuel =>
      obtain ⟨w', hp, hf', hfn, -, -, hv⟩ := pull_cons hf
      obtain ⟨w'', hc, hsr, hfn2, -, hv2⟩ := keyOf_pure (hk.of_fns hfn) x
      have hlt' : rest.length < fuel := by simp at hlt; omega
      have hk'' := (hk.of_fns hfn).of_fns hfn2
      have hf'' := hf'.of_srcs hsr
      simp only [Std.mmLoop, bind_apply, hp, hc, liftExc_apply, ListSpec.scanBest]
      cases hcmp : (if isMax = true then Val.lt (kf best) (kf x) else Val.lt (kf x) (kf best)) with
      | error e => simp
      | ok b =>
        cases b with
        | true =>
          have := ih x fuel w'' hf'' hk'' hlt'
          simpa [hv, hv2, ListSpec.keyedPullLog] using this
        | false =>
          have := ih best fuel w'' hf'' hk'' hlt'
          simpa [hv, hv2, ListSpec.keyedPullLog] using this

namespace ListSpec

/-- with orderable keys the scan never fails and is the first-minimum / first-maximum scan on the
    integer keys -/
theorem scanBest_orderable (isMax : Bool) (kf : Val → Val) : ∀ (xs : List Val) (best : Val),
    (kf best).orderable = true → (∀ x ∈ xs, (kf x).orderable = true) →
    scanBest isMax kf best xs =
      .ok (if isMax then firstMaxFrom (fun x => (kf x).ikey) best xs
           else firstMinFrom (fun x => (kf x).ikey) best xs) := by
  intro xs
  induction xs with
  | nil => intro best _ _; cases isMax <;> rfl
  | cons x xs ih =>
    intro best hb hall
    have hx : (kf x).orderable = true := hall x (by simp)
    have hrest : ∀ y ∈ xs, (kf y).orderable = true := fun y hy => hall y (by simp [hy])
    cases isMax with
    | true =>
      simp only [scanBest, if_true, Val.lt_orderable hb hx, firstMaxFrom]
      by_cases hcmp : (kf best).ikey < (kf x).ikey
      · simpa [hcmp] using ih x hx hrest
      · simpa [hcmp] using ih best hb hrest
    | false =>
      simp only [scanBest, Bool.false_eq_true, if_false, Val.lt_orderable hx hb, firstMinFrom]
      by_cases hcmp : (kf x).ikey < (kf best).ikey
      · simpa [hcmp] using ih x hx hrest
      · simpa [hcmp] using ih best hb hrest

theorem lt_error (a b : Val) (e : Exc) (h : Val.lt a b = .error e) : e = .typeError := by
  unfold Val.lt at h
  split at h <;> first | (injection h with h; exact h.symm) | simp at h

/-- the scan can only fail with `TypeError` -/
theorem scanBest_error (isMax : Bool) (kf : Val → Val) (e : Exc) : ∀ (xs : List Val) (best : Val),
    scanBest isMax kf best xs = .error e → e = .typeError := by
  intro xs
  induction xs with
  | nil => intro best h; simp [scanBest] at h
  | cons x xs ih =>
    intro best h
    simp only [scanBest] at h
    cases hcmp : (if isMax = true then Val.lt (kf best) (kf x) else Val.lt (kf x) (kf best)) with
    | error e' =>
      rw [hcmp] at h
      simp only [Except.error.injEq] at h
      subst h
      cases isMax
      · exact lt_error _ _ _ (by simpa using hcmp)
      · exact lt_error _ _ _ (by simpa using hcmp)
    | ok b =>
      rw [hcmp] at h
      cases b
      · exact ih best h
      · exact ih x h

/-- the first comparison with an unorderable key raises: two items, one of whose keys is unorderable -/
theorem scanBest_unorderable (isMax : Bool) (kf : Val → Val) (best x : Val) (xs : List Val)
    (h : (kf best).orderable = false ∨ (kf x).orderable = false) :
    scanBest isMax kf best (x :: xs) = .error .typeError := by
  have hlt : ∀ a b : Val, (a.orderable = false ∨ b.orderable = false) → Val.lt a b = .error .typeError := by
    intro a b hab
    unfold Val.orderable at hab
    unfold Val.lt
    cases h1 : a.key? with
    | none => rfl
    | some k1 =>
      cases h2 : b.key? with
      | none => rfl
      | some k2 => simp [h1, h2] at hab
  cases isMax
  · simp [scanBest, hlt (kf x) (kf best) h.symm]
  · simp [scanBest, hlt (kf best) (kf x) h]

end ListSpec

/-- `min`/`max` (the CPython algorithm) for arbitrary keys: the first item starts the scan -/
theorem minmax_scan (fn : Option Nat) (isMax : Bool) (default : Option Val) (s : Nat) (kf : Val → Val)
    (x : Val) (rest : List Val) (fuel : Nat) (w : World)
    (hf : Feeds w s (x :: rest)) (hk : KeyFn w fn kf) (hlt : rest.length < fuel) :
    (Std.minmax fn isMax default s fuel w).1 = ListSpec.scanBest isMax kf x rest ∧
    (∀ v, ListSpec.scanBest isMax kf x rest = .ok v →
      ((Std.minmax fn isMax default s fuel w).2.srcs s).script = [] ∧
      (Std.minmax fn isMax default s fuel w).2.vis =
        w.vis ++ ListSpec.keyedPullLog s fn kf (x :: rest) ++ ListSpec.endLog s) := by
  obtain ⟨w', hp, hf', hfn, -, -, hv⟩ := pull_cons hf
  obtain ⟨w'', hc, hsr, hfn2, -, hv2⟩ := keyOf_pure (hk.of_fns hfn) x
  have := mmLoop_scan fn isMax s kf rest x fuel w'' (hf'.of_srcs hsr) ((hk.of_fns hfn).of_fns hfn2) hlt
  simpa [Std.minmax, bind_apply, hp, hc, hv, hv2, ListSpec.keyedPullLog] using this

/-- `min`/`max` (the CPython algorithm): empty input gives the default or `ValueError`;
    otherwise, with orderable keys, the first extreme item -/
theorem minmax_value (fn : Option Nat) (isMax : Bool) (default : Option Val) (s : Nat) (kf : Val → Val)
    (items : List Val) (fuel : Nat) (w : World)
    (hf : Feeds w s items) (hk : KeyFn w fn kf) (hall : ∀ x ∈ items, (kf x).orderable = true)
    (hlt : items.length ≤ fuel) :
    (Std.minmax fn isMax default s fuel w).1 =
      (match ListSpec.firstBest isMax (fun x => (kf x).ikey) items, default with
        | some r, _ => .ok r
        | none, some d => .ok d
        | none, none => .error .valueError) ∧
    ((Std.minmax fn isMax default s fuel w).2.srcs s).script = [] ∧
    (Std.minmax fn isMax default s fuel w).2.vis =
      w.vis ++ ListSpec.keyedPullLog s fn kf items ++ ListSpec.endLog s := by
  cases items with
  | nil =>
    obtain ⟨w', hp, hs, -, hcalls, -, hv⟩ := pull_nil hf
    cases default with
    | none => cases isMax <;>
        simp [Std.minmax, bind_apply, hp, raise, ListSpec.firstBest, ListSpec.firstMin, ListSpec.firstMax, hs, hv, ListSpec.endLog, ListSpec.keyedPullLog]
    | some d => cases isMax <;>
        simp [Std.minmax, bind_apply, hp, pure_apply, ListSpec.firstBest, ListSpec.firstMin, ListSpec.firstMax, hs, hv, ListSpec.endLog, ListSpec.keyedPullLog]
  | cons x rest =>
    have hscan := ListSpec.scanBest_orderable isMax kf rest x (hall x (by simp)) (fun y hy => hall y (by simp [hy]))
    obtain ⟨h1, h2⟩ := minmax_scan fn isMax default s kf x rest fuel w hf hk (by simp at hlt; omega)
    obtain ⟨h3, h4⟩ := h2 _ hscan
    refine ⟨?_, h3, h4⟩
    rw [h1, hscan]
    cases isMax <;> simp [ListSpec.firstBest, ListSpec.firstMin, ListSpec.firstMax]

/-- empty input, **whatever the key callable does**: the default comes back as the very same
    value, the only visible events are the pull and the end of the source (no `call` event: `key` is
    never applied to the default), no call counter moves; without default: `ValueError` -/
theorem minmax_empty (fn : Option Nat) (isMax : Bool) (default : Option Val) (s fuel : Nat) (w : World)
    (hf : Feeds w s []) :
    (Std.minmax fn isMax default s fuel w).1 = (match default with | some d => .ok d | none => .error .valueError) ∧
    (Std.minmax fn isMax default s fuel w).2.vis = w.vis ++ ListSpec.endLog s ∧
    (Std.minmax fn isMax default s fuel w).2.calls = w.calls ∧
    ((Std.minmax fn isMax default s fuel w).2.srcs s).script = [] := by
  obtain ⟨w', hp, hs, -, hcalls, -, hv⟩ := pull_nil hf
  cases default with
  | none => simp [Std.minmax, bind_apply, hp, raise, hs, hv, hcalls, ListSpec.endLog]
  | some d => simp [Std.minmax, bind_apply, hp, pure_apply, hs, hv, hcalls, ListSpec.endLog]

/-! ## sorted / nlargest / nsmallest -/

theorem collectKeyed_value (fn : Option Nat) (s : Nat) (kf : Val → Val) :
    ∀ (items : List Val) (acc : List (Val × Val)) (fuel : Nat) (w : World),
    Feeds w s items → KeyFn w fn kf → items.length < fuel →
    (Std.collectKeyed fn s acc fuel w).1 = .ok (acc ++ items.map (fun x => (kf x, x))) ∧
    ((Std.collectKeyed fn s acc fuel w).2.srcs s).script = [] ∧
    (Std.collectKeyed fn s acc fuel w).2.vis = w.vis ++ ListSpec.keyedPullLog s fn kf items ++ ListSpec.endLog s := by
  intro items
  induction items with
  | nil =>
    intro acc fuel w hf hk hlt
    cases fuel with
    | zero => simp at hlt
    | succ fuel =>
      obtain ⟨w', hp, hs, -, -, -, hv⟩ := pull_nil hf
      simp [Std.collectKeyed, bind_apply, hp, pure_apply, hs, hv, ListSpec.keyedPullLog, ListSpec.endLog]
  | cons x rest ih =>
    intro acc fuel w hf hk hlt
    cases fuel with
    | zero => simp at hlt
    | succ fuel =>
      obtain ⟨w', hp, hf', hfn, -, -, hv⟩ := pull_cons hf
      obtain ⟨w'', hc, hsr, hfn2, -, hv2⟩ := keyOf_pure (hk.of_fns hfn) x
      simp only [Std.collectKeyed, bind_apply, hp, hc]
      have := ih (acc ++ [(kf x, x)]) fuel w'' (hf'.of_srcs hsr) ((hk.of_fns hfn).of_fns hfn2)
        (by simp at hlt; omega)
      simpa [hv, hv2, ListSpec.keyedPullLog] using this

theorem keyLe_orderable {a b : Val} (ha : a.orderable = true) (hb : b.orderable = true) :
    Std.keyLe a b = decide (a.ikey ≤ b.ikey) := by
  unfold Val.orderable at ha hb
  unfold Std.keyLe Val.ikey
  cases h1 : a.key? with
  | none => simp [h1] at ha
  | some x =>
    cases h2 : b.key? with
    | none => simp [h2] at hb
    | some y => simp

/-- `list.sort` on the `(key, item)` pairs of items with orderable keys: no `TypeError`, and the
    items come out as the stable merge sort by integer key -/
theorem sortKeyed_value (reverse : Bool) (kf : Val → Val) (items : List Val)
    (hall : ∀ x ∈ items, (kf x).orderable = true) :
    Std.sortKeyed reverse (items.map (fun x => (kf x, x))) =
      .ok (ListSpec.sorted reverse (fun x => (kf x).ikey) items) := by
  have hany : (items.map (fun x => (kf x, x))).any (fun p => p.1.key?.isNone) = false := by
    rw [List.any_eq_false]
    intro p hp
    obtain ⟨x, hx, rfl⟩ := List.mem_map.mp hp
    have := hall x hx
    unfold Val.orderable at this
    cases hk : (kf x).key? with
    | none => simp [hk] at this
    | some k => simp [hk]
  have hsnd : (items.map (fun x => (kf x, x))).map (·.2) = items := by simp [List.map_map, Function.comp_def]
  unfold Std.sortKeyed
  simp only [hany, Bool.false_eq_true, and_false, if_false]
  congr 1
  unfold ListSpec.sorted
  cases reverse with
  | false =>
    simp only [Bool.false_eq_true, if_false]
    rw [List.map_mergeSort (s := ListSpec.sortLe false (fun x => (kf x).ikey)), hsnd]
    intro a ha b hb
    obtain ⟨x, hx, rfl⟩ := List.mem_map.mp ha
    obtain ⟨y, hy, rfl⟩ := List.mem_map.mp hb
    simp [ListSpec.sortLe, keyLe_orderable (hall x hx) (hall y hy)]
  | true =>
    simp only [if_true]
    rw [List.map_mergeSort (s := ListSpec.sortLe true (fun x => (kf x).ikey)), hsnd]
    intro a ha b hb
    obtain ⟨x, hx, rfl⟩ := List.mem_map.mp ha
    obtain ⟨y, hy, rfl⟩ := List.mem_map.mp hb
    simp [ListSpec.sortLe, keyLe_orderable (hall y hy) (hall x hx)]

namespace ListSpec

theorem sortLe_trans (reverse : Bool) (ik : Val → Int) (a b c : Val) :
    sortLe reverse ik a b = true → sortLe reverse ik b c = true → sortLe reverse ik a c = true := by
  cases reverse <;> simp only [sortLe, if_true, if_false, Bool.false_eq_true, decide_eq_true_eq] <;> omega

theorem sortLe_total (reverse : Bool) (ik : Val → Int) (a b : Val) :
    (sortLe reverse ik a b || sortLe reverse ik b a) = true := by
  cases reverse <;> simp only [sortLe, if_true, if_false, Bool.false_eq_true, Bool.or_eq_true, decide_eq_true_eq] <;> omega

/-- `sorted` returns a permutation of its input -/
theorem sorted_perm (reverse : Bool) (ik : Val → Int) (items : List Val) :
    (sorted reverse ik items).Perm items := List.mergeSort_perm items _

/-- `sorted` is ordered by key: ascending, or descending with `reverse` -/
theorem sorted_pairwise (reverse : Bool) (ik : Val → Int) (items : List Val) :
    (sorted reverse ik items).Pairwise (fun a b => if reverse then ik b ≤ ik a else ik a ≤ ik b) := by
  have := List.pairwise_mergeSort (le := sortLe reverse ik) (sortLe_trans reverse ik) (sortLe_total reverse ik) items
  refine this.imp ?_
  intro a b h
  cases reverse <;> simpa [sortLe] using h

/-- stability (core form): any sublist of the input that is already in order is still a sublist
    of the output -/
theorem sorted_sublist (reverse : Bool) (ik : Val → Int) (items c : List Val)
    (hc : c.Pairwise (fun a b => sortLe reverse ik a b = true)) (hsub : c.Sublist items) :
    c.Sublist (sorted reverse ik items) :=
  List.sublist_mergeSort (sortLe_trans reverse ik) (sortLe_total reverse ik) hc hsub

/-- **stability, both directions**: for every key `k`, the items with key `k` appear in the output
    in exactly their input order -/
theorem sorted_stable (reverse : Bool) (ik : Val → Int) (items : List Val) (k : Int) :
    (sorted reverse ik items).filter (fun x => ik x == k) = items.filter (fun x => ik x == k) := by
  have hsub : (items.filter (fun x => ik x == k)).Sublist (sorted reverse ik items) := by
    apply sorted_sublist reverse ik items _ _ List.filter_sublist
    rw [List.pairwise_iff_forall_sublist]
    intro a b hab
    have ha : a ∈ items.filter (fun x => ik x == k) := hab.subset (by simp)
    have hb : b ∈ items.filter (fun x => ik x == k) := hab.subset (by simp)
    simp only [List.mem_filter, beq_iff_eq] at ha hb
    cases reverse <;> simp [sortLe, ha.2, hb.2]
  have hsub2 := hsub.filter (fun x => ik x == k)
  rw [List.filter_filter] at hsub2
  simp only [Bool.and_self] at hsub2
  have hlen : ((sorted reverse ik items).filter (fun x => ik x == k)).length
      = (items.filter (fun x => ik x == k)).length :=
    ((sorted_perm reverse ik items).filter _).length_eq
  exact (hsub2.eq_of_length hlen.symm).symm

end ListSpec

/-- a list of at most one `(key, item)` pair is returned as it is — no comparison, no `TypeError`,
    whatever the key -/
theorem sortKeyed_short (reverse : Bool) (l : List (Val × Val)) (h : l.length ≤ 1) :
    Std.sortKeyed reverse l = .ok (l.map (·.2)) := by
  have h2 : ¬ (l.length ≥ 2) := by omega
  match l, h with
  | [], _ => cases reverse <;> simp [Std.sortKeyed]
  | [p], _ => cases reverse <;> simp [Std.sortKeyed]

/-- two or more items one of whose keys is unorderable: `TypeError` -/
theorem sortKeyed_typeError (reverse : Bool) (kf : Val → Val) (items : List Val)
    (hlen : 2 ≤ items.length) (hbad : ∃ x ∈ items, (kf x).orderable = false) :
    Std.sortKeyed reverse (items.map (fun x => (kf x, x))) = .error .typeError := by
  obtain ⟨x, hx, hxo⟩ := hbad
  have hany : (items.map (fun x => (kf x, x))).any (fun p => p.1.key?.isNone) = true := by
    rw [List.any_eq_true]
    refine ⟨(kf x, x), List.mem_map.mpr ⟨x, hx, rfl⟩, ?_⟩
    unfold Val.orderable at hxo
    cases hk : (kf x).key? with
    | none => rfl
    | some k => simp [hk] at hxo
  unfold Std.sortKeyed
  simp [hany, hlen]

/-- `sorted` (the CPython algorithm) for arbitrary keys: the outcome is `list.sort` applied to the
    `(key(x), x)` pairs in input order; everything is consumed first, the key applied once per item
    as it arrives -/
theorem sorted_gen (fn : Option Nat) (reverse : Bool) (s : Nat) (kf : Val → Val)
    (items : List Val) (fuel : Nat) (w : World)
    (hf : Feeds w s items) (hk : KeyFn w fn kf) (hlt : items.length < fuel) :
    (Std.sorted fn reverse s fuel w).1 =
      (match Std.sortKeyed reverse (items.map (fun x => (kf x, x))) with
        | .ok r => .ok (.lst r) | .error e => .error e) ∧
    ((Std.sorted fn reverse s fuel w).2.srcs s).script = [] ∧
    (Std.sorted fn reverse s fuel w).2.vis = w.vis ++ ListSpec.keyedPullLog s fn kf items ++ ListSpec.endLog s := by
  have h := collectKeyed_value fn s kf items [] fuel w hf hk hlt
  rcases hc : Std.collectKeyed fn s [] fuel w with ⟨r, w1⟩
  rw [hc] at h
  obtain ⟨h1, h2, h3⟩ := h
  simp only at h1 h2 h3
  subst h1
  simp only [Std.sorted, bind_apply, hc, List.nil_append, liftExc_apply]
  cases Std.sortKeyed reverse (items.map (fun x => (kf x, x))) with
  | ok r => exact ⟨rfl, h2, h3⟩
  | error e => exact ⟨rfl, h2, h3⟩

theorem sorted_value (fn : Option Nat) (reverse : Bool) (s : Nat) (kf : Val → Val)
    (items : List Val) (fuel : Nat) (w : World)
    (hf : Feeds w s items) (hk : KeyFn w fn kf) (hall : ∀ x ∈ items, (kf x).orderable = true)
    (hlt : items.length < fuel) :
    (Std.sorted fn reverse s fuel w).1 = .ok (.lst (ListSpec.sorted reverse (fun x => (kf x).ikey) items)) ∧
    ((Std.sorted fn reverse s fuel w).2.srcs s).script = [] ∧
    (Std.sorted fn reverse s fuel w).2.vis = w.vis ++ ListSpec.keyedPullLog s fn kf items ++ ListSpec.endLog s := by
  have h := sorted_gen fn reverse s kf items fuel w hf hk hlt
  rw [sortKeyed_value reverse kf items hall] at h
  exact h

/-- asyncstdlib's `sorted` collects inside the scope and sorts outside: same outcome, for arbitrary keys -/
theorem impl_sorted_gen (fn : Option Nat) (reverse : Bool) (s : Nat) (kf : Val → Val)
    (items : List Val) (fuel : Nat) (w : World)
    (hf : Feeds w s items) (hk : KeyFn w fn kf) (hlt : items.length < fuel) :
    (Impl.sorted fn reverse s fuel w).1 =
      (match Std.sortKeyed reverse (items.map (fun x => (kf x, x))) with
        | .ok r => .ok (.lst r) | .error e => .error e) ∧
    ((Impl.sorted fn reverse s fuel w).2.srcs s).script = [] ∧
    (Impl.sorted fn reverse s fuel w).2.vis = w.vis ++ ListSpec.keyedPullLog s fn kf items ++ ListSpec.endLog s := by
  have h := collectKeyed_value fn s kf items [] fuel w hf hk hlt
  have hs := scopedIter_value s (Std.collectKeyed fn s [] fuel) w
  rcases hc : scopedIter s (Std.collectKeyed fn s [] fuel) w with ⟨r, w1⟩
  rw [hc] at hs
  obtain ⟨hs1, hs2, hs3, -⟩ := hs
  simp only at hs1 hs2 hs3
  rw [h.1] at hs1
  subst hs1
  have h2 : (w1.srcs s).script = [] := by rw [hs3 s]; exact h.2.1
  have h3 : w1.vis = w.vis ++ ListSpec.keyedPullLog s fn kf items ++ ListSpec.endLog s := by rw [hs2]; exact h.2.2
  simp only [Impl.sorted, bind_apply, hc, List.nil_append, liftExc_apply]
  cases Std.sortKeyed reverse (items.map (fun x => (kf x, x))) with
  | ok r => exact ⟨rfl, h2, h3⟩
  | error e => exact ⟨rfl, h2, h3⟩

theorem impl_sorted_value (fn : Option Nat) (reverse : Bool) (s : Nat) (kf : Val → Val)
    (items : List Val) (fuel : Nat) (w : World)
    (hf : Feeds w s items) (hk : KeyFn w fn kf) (hall : ∀ x ∈ items, (kf x).orderable = true)
    (hlt : items.length < fuel) :
    (Impl.sorted fn reverse s fuel w).1 = .ok (.lst (ListSpec.sorted reverse (fun x => (kf x).ikey) items)) ∧
    ((Impl.sorted fn reverse s fuel w).2.srcs s).script = [] ∧
    (Impl.sorted fn reverse s fuel w).2.vis = w.vis ++ ListSpec.keyedPullLog s fn kf items ++ ListSpec.endLog s := by
  have h := impl_sorted_gen fn reverse s kf items fuel w hf hk hlt
  rw [sortKeyed_value reverse kf items hall] at h
  exact h

/-- a model of the form `scopedIter s body` inherits result and remaining script from `body` -/
theorem scopedIter_lift {α : Type} (s : Nat) (body : M α) (w : World) :
    (scopedIter s body w).1 = (body w).1 ∧
    ((scopedIter s body w).2.srcs s).script = ((body w).2.srcs s).script ∧
    (scopedIter s body w).2.vis = (body w).2.vis ∧
    (scopedIter s body w).2.calls = (body w).2.calls :=
  ⟨(scopedIter_value s body w).1, (scopedIter_value s body w).2.2.1 s, (scopedIter_value s body w).2.1,
    (scopedIter_value s body w).2.2.2⟩

/-! ## Twins in every world -/

/-- twins stay twins when followed by a computation that does not look at the world -/
theorem twin_bind_const {α β : Type} {a b : M α} (h : Twin a b) (f : α → M β) (g : α → Except Exc β)
    (hf : ∀ x w, f x w = (g x, w)) : Twin (a >>= f) (b >>= f) := by
  intro w
  obtain ⟨h1, h2⟩ := h w
  rw [bind_apply, bind_apply]
  rcases ha : a w with ⟨ra, wa⟩
  rcases hb : b w with ⟨rb, wb⟩
  rw [ha, hb] at h1 h2
  simp only at h1 h2
  subst h1
  cases ra with
  | ok x => simp only [hf]; exact ⟨trivial, h2⟩
  | error e => exact ⟨rfl, h2⟩

theorem impl_sorted_twin (fn : Option Nat) (reverse : Bool) (s fuel : Nat) :
    Twin (Impl.sorted fn reverse s fuel) (Std.sorted fn reverse s fuel) := by
  unfold Impl.sorted Std.sorted
  refine twin_bind_const (scopedIter_twin s _) _
    (fun keyed => match Std.sortKeyed reverse keyed with | .ok r => .ok (.lst r) | .error e => .error e) ?_
  intro keyed w
  rw [bind_apply, liftExc_apply]
  cases Std.sortKeyed reverse keyed <;> rfl

/-! ## Frame, every world: an aggregation only consumes from its source -/

/-- the three facts of `OnlyConsumes` about one world, as one conjunction -/
def OCAt (s : Nat) (w w' : World) : Prop :=
  (∀ s', s' ≠ s → w'.srcs s' = w.srcs s') ∧ w'.fns = w.fns ∧ (w'.srcs s).script <:+ (w.srcs s).script

theorem OCAt.refl (s : Nat) (w : World) : OCAt s w w := ⟨fun _ _ => rfl, rfl, List.suffix_refl _⟩

theorem OCAt.trans {s : Nat} {w w1 w2 : World} (h1 : OCAt s w w1) (h2 : OCAt s w1 w2) : OCAt s w w2 :=
  ⟨fun s' hs' => (h2.1 s' hs').trans (h1.1 s' hs'), h2.2.1.trans h1.2.1, h2.2.2.trans h1.2.2⟩

theorem OnlyConsumes.of_at {α : Type} {s : Nat} {m : M α} (h : ∀ w, OCAt s w (m w).2) : OnlyConsumes s m :=
  ⟨fun w => (h w).1, fun w => (h w).2.1, fun w => (h w).2.2⟩

theorem OnlyConsumes.at {α : Type} {s : Nat} {m : M α} (h : OnlyConsumes s m) (w : World) : OCAt s w (m w).2 :=
  ⟨h.others w, h.fns w, h.suffix w⟩

theorem oc_pure {α : Type} (s : Nat) (a : α) : OnlyConsumes s (pure a : M α) :=
  .of_at fun w => OCAt.refl s w

theorem oc_raise {α : Type} (s : Nat) (e : Exc) : OnlyConsumes s (raise e : M α) :=
  .of_at fun w => OCAt.refl s w

theorem oc_liftExc {α : Type} (s : Nat) (r : Except Exc α) : OnlyConsumes s (liftExc r) :=
  .of_at fun w => by rw [liftExc_apply]; exact OCAt.refl s w

theorem oc_bind {α β : Type} {s : Nat} {m : M α} {f : α → M β} (hm : OnlyConsumes s m)
    (hf : ∀ a, OnlyConsumes s (f a)) : OnlyConsumes s (m >>= f) := by
  refine .of_at fun w => ?_
  have h1 := hm.at w
  rw [bind_apply]
  rcases hmw : m w with ⟨r, w1⟩
  rw [hmw] at h1
  cases r with
  | error e => exact h1
  | ok a => exact h1.trans ((hf a).at w1)

theorem oc_pull (s : Nat) : OnlyConsumes s (pull s) := by
  refine .of_at fun w => ?_
  unfold pull
  by_cases hl : (w.srcs s).status.live
  · simp only [hl, if_true]
    cases hsc : (w.srcs s).script with
    | nil =>
      refine ⟨fun s' hs' => ?_, rfl, ?_⟩
      · simp [World.pushVis, World.setSrc, hs']
      · simp [World.pushVis, World.setSrc]
    | cons r rest =>
      cases r
      all_goals
        refine ⟨fun s' hs' => ?_, rfl, ?_⟩
        · simp [World.pushVis, World.setSrc, hs']
        · simp only [World.pushVis, World.setSrc, if_true]
          rw [hsc]; exact List.suffix_cons _ _
  · simp only [hl]
    by_cases hv : (w.srcs s).kind.repollVisible
    · simp only [hv, if_true, Bool.false_eq_true, if_false]; exact OCAt.refl s w
    · simp only [hv, Bool.false_eq_true, if_false]; exact OCAt.refl s w

theorem oc_call (s f : Nat) (args : List Val) : OnlyConsumes s (call f args) := by
  refine .of_at fun w => ?_
  unfold call
  simp only
  cases h : w.fns f (w.calls f) args <;> exact ⟨fun _ _ => rfl, rfl, List.suffix_refl _⟩

theorem oc_closeSrc (s : Nat) : OnlyConsumes s (closeSrc s) := by
  refine .of_at fun w => ⟨fun s' hs' => ?_, (closeSrc_frame s w).2.1, ?_⟩
  · unfold closeSrc
    cases hk : (w.srcs s).kind <;> simp only [hk]
    case agen => cases hst : (w.srcs s).status <;> simp [World.setSrc, World.pushRel, hs']
    all_goals first
      | (split <;> simp [World.setSrc, World.pushRel, hs'])
      | simp [World.setSrc, World.pushRel, hs']
  · rw [(closeSrc_frame s w).1 s]; exact List.suffix_refl _

theorem oc_tryFinally {α : Type} {s : Nat} {body : M α} {fin : M Unit} (hb : OnlyConsumes s body)
    (hfin : OnlyConsumes s fin) : OnlyConsumes s (tryFinally body fin) := by
  refine .of_at fun w => ?_
  have h1 := hb.at w
  unfold tryFinally
  rcases hbw : body w with ⟨r, w1⟩
  rw [hbw] at h1
  have g1 := hfin.at w1
  rcases hfw : fin w1 with ⟨r2, w2⟩
  rw [hfw] at g1
  cases r with
  | ok a => cases r2 <;> simp only [hfw] <;> exact h1.trans g1
  | error e =>
    cases e <;> cases r2 <;> simp only [hfw] <;> first | exact h1.trans g1 | exact h1

theorem oc_scopedIter {α : Type} {s : Nat} {body : M α} (hb : OnlyConsumes s body) :
    OnlyConsumes s (scopedIter s body) := oc_tryFinally hb (oc_closeSrc s)

theorem oc_tryCatchStop {α : Type} {s : Nat} {body handler : M α} (hb : OnlyConsumes s body)
    (hh : OnlyConsumes s handler) : OnlyConsumes s (tryCatchStop body handler) := by
  refine .of_at fun w => ?_
  have h1 := hb.at w
  unfold tryCatchStop
  rcases hbw : body w with ⟨r, w1⟩
  rw [hbw] at h1
  cases r with
  | ok a => exact h1
  | error e => cases e <;> simp only <;> first | exact h1.trans (hh.at w1) | exact h1

theorem oc_anext (s : Nat) : OnlyConsumes s (anext s) := by
  unfold anext
  refine oc_bind (oc_pull s) ?_
  intro r
  cases r with
  | none => exact oc_raise s _
  | some v => exact oc_pure s v

theorem oc_keyOf (s : Nat) (fn : Option Nat) (x : Val) : OnlyConsumes s (Std.keyOf fn x) := by
  unfold Std.keyOf
  cases fn with
  | none => exact oc_pure s x
  | some f => exact oc_call s f _

syntax "ocs" ("[" term,* "]")? : tactic
macro_rules
  | `(tactic| ocs) => `(tactic| ocs [])
  | `(tactic| ocs [$hs,*]) => `(tactic| repeat' (with_reducible first
      | assumption
      | exact oc_pure _ _ | exact oc_pull _ | exact oc_call _ _ _ | exact oc_raise _ _
      | exact oc_anext _ | exact oc_keyOf _ _ _ | exact oc_closeSrc _ | exact oc_liftExc _ _
      | (first $[| apply $hs]*)
      | (dsimp -proj only)
      | apply oc_bind | apply oc_scopedIter | apply oc_tryCatchStop
      | intro _ | split))

namespace Std

theorem oc_allLoop (s fuel : Nat) : OnlyConsumes s (allLoop s fuel) := by
  induction fuel with
  | zero => unfold allLoop; ocs
  | succ fuel ih => unfold allLoop; ocs [ih]

theorem oc_anyLoop (s fuel : Nat) : OnlyConsumes s (anyLoop s fuel) := by
  induction fuel with
  | zero => unfold anyLoop; ocs
  | succ fuel ih => unfold anyLoop; ocs [ih]

theorem oc_sumLoop (s fuel : Nat) : ∀ t, OnlyConsumes s (sumLoop s t fuel) := by
  induction fuel with
  | zero => intro t; unfold sumLoop; ocs
  | succ fuel ih => intro t; unfold sumLoop; ocs [ih]

theorem oc_mmLoop (fn : Option Nat) (isMax : Bool) (s fuel : Nat) : ∀ b k, OnlyConsumes s (mmLoop fn isMax s b k fuel) := by
  induction fuel with
  | zero => intro b k; unfold mmLoop; ocs
  | succ fuel ih => intro b k; unfold mmLoop; ocs [ih]

theorem oc_minmax (fn : Option Nat) (isMax : Bool) (d : Option Val) (s fuel : Nat) :
    OnlyConsumes s (minmax fn isMax d s fuel) := by
  unfold minmax; ocs [oc_mmLoop fn isMax s fuel]

theorem oc_reduceLoop (f s fuel : Nat) : ∀ acc, OnlyConsumes s (reduceLoop f s acc fuel) := by
  induction fuel with
  | zero => intro acc; unfold reduceLoop; ocs
  | succ fuel ih => intro acc; unfold reduceLoop; ocs [ih]

theorem oc_reduce (f : Nat) (ini : Option Val) (s fuel : Nat) : OnlyConsumes s (reduce f ini s fuel) := by
  unfold reduce; ocs [oc_reduceLoop f s fuel]

theorem oc_collectAll (s fuel : Nat) : ∀ acc, OnlyConsumes s (collectAll s acc fuel) := by
  induction fuel with
  | zero => intro acc; unfold collectAll; ocs
  | succ fuel ih => intro acc; unfold collectAll; ocs [ih]

theorem oc_collectKeyed (fn : Option Nat) (s fuel : Nat) : ∀ acc, OnlyConsumes s (collectKeyed fn s acc fuel) := by
  induction fuel with
  | zero => intro acc; unfold collectKeyed; ocs
  | succ fuel ih => intro acc; unfold collectKeyed; ocs [ih]

end Std

end AsyncVerif
