import AsyncVerif.Proofs.Lru
/-! A readable specification of "least recently used": after any sequence of successful calls a
bounded cache holds exactly the `maxsize` most recently used distinct keys, oldest first. -/
namespace AsyncVerif.Lru

/-- the key (equality class) of a pattern as asyncstdlib sees it -/
def keyOf (typed : Bool) (p : Pattern) : NKey := (asKey typed p).norm

/-- order of last use: using `k` moves it to the end -/
def touch (l : List NKey) (k : NKey) : List NKey := l.erase k ++ [k]

/-- all keys ever used, least recently used first -/
def recency (ks : List NKey) : List NKey := ks.foldl touch []

/-- the last `n` elements -/
def lastN (n : Nat) (l : List NKey) : List NKey := l.drop (l.length - n)

theorem eqv_iff_key (t : Bool) (p q : Pattern) : Impl.eqv t p q = true ↔ keyOf t p = keyOf t q := by
  simp [Impl.eqv, keyOf]

def keys (t : Bool) (st : Store) : List NKey := st.map fun e => keyOf t e.1

theorem find_none_iff_not_mem (t : Bool) (p : Pattern) (st : Store) :
    find (Impl.eqv t) p st = none ↔ keyOf t p ∉ keys t st := by
  rw [find_none_iff]
  simp only [keys, List.mem_map, not_exists, not_and]
  constructor
  · intro h e he heq
    have := h e he
    have h2 : Impl.eqv t e.1 p = true := (eqv_iff_key t e.1 p).mpr heq
    rw [h2] at this; exact absurd this (by simp)
  · intro h e he
    cases hc : Impl.eqv t e.1 p with
    | false => rfl
    | true => exact absurd ((eqv_iff_key t e.1 p).mp hc) (h e he)

theorem keys_erase (t : Bool) (p : Pattern) : ∀ (st : Store),
    keys t (erase (Impl.eqv t) p st) = (keys t st).erase (keyOf t p) := by
  intro st
  induction st with
  | nil => rfl
  | cons y r ih =>
    by_cases hy : Impl.eqv t y.1 p = true
    · have hk := (eqv_iff_key t y.1 p).mp hy
      simp [erase, hy, keys, hk]
    · have hk : ¬ keyOf t y.1 = keyOf t p := fun h => hy ((eqv_iff_key t y.1 p).mpr h)
      have hy' : Impl.eqv t y.1 p = false := by simpa using hy
      have ih' := ih
      simp only [keys] at ih'
      simp only [erase, hy', Bool.false_eq_true, if_false, keys, List.map_cons]
      rw [List.erase_cons_tail (by simpa using hk), ih']

theorem touch_nodup {l : List NKey} (h : l.Nodup) (k : NKey) : (touch l k).Nodup := by
  unfold touch
  rw [List.nodup_append]
  refine ⟨h.erase k, List.pairwise_singleton _ _, ?_⟩
  intro a ha b hb
  simp only [List.mem_singleton] at hb
  subst hb
  intro hab
  subst hab
  exact ((List.Nodup.mem_erase_iff h).mp ha).1 rfl

theorem split_at (l : List NKey) (d : Nat) (hd : d ≤ l.length) : ∃ T S, l = T ++ S ∧ T.length = d :=
  ⟨l.take d, l.drop d, (List.take_append_drop d l).symm, by rw [List.length_take]; omega⟩

theorem touch_length_mem {l : List NKey} {k : NKey} (hk : k ∈ l) : (touch l k).length = l.length := by
  unfold touch
  rw [List.length_append, List.length_erase_of_mem hk, List.length_singleton]
  have : 0 < l.length := List.length_pos_of_mem hk
  omega

theorem touch_not_mem {l : List NKey} {k : NKey} (hk : k ∉ l) : touch l k = l ++ [k] := by
  unfold touch; rw [List.erase_of_not_mem hk]

/-- using a key that is among the last `n`: it moves to the end, nothing else changes -/
theorem lastN_touch_mem (n : Nat) (l : List NKey) (h : l.Nodup) (k : NKey) (hk : k ∈ lastN n l) :
    lastN n (touch l k) = (lastN n l).erase k ++ [k] := by
  obtain ⟨T, S, rfl, hT⟩ := split_at l (l.length - n) (Nat.sub_le _ _)
  have hl : lastN n (T ++ S) = S := by unfold lastN; exact List.drop_left' hT
  rw [hl] at hk ⊢
  have hkl : k ∈ T ++ S := List.mem_append_right T hk
  have hnotT : k ∉ T := by
    intro hm
    rw [List.nodup_append] at h
    exact h.2.2 k hm k hk rfl
  unfold lastN
  rw [touch_length_mem hkl, ← hT]
  unfold touch
  rw [List.erase_append_right S hnotT, List.append_assoc, List.drop_left]

/-- using a key that is not among the last `n` (never used, or already evicted) -/
theorem lastN_touch_not_mem (n : Nat) (hn : 1 ≤ n) (l : List NKey) (h : l.Nodup) (k : NKey)
    (hk : k ∉ lastN n l) :
    lastN n (touch l k) = (if (lastN n l).length < n then lastN n l else (lastN n l).drop 1) ++ [k] := by
  obtain ⟨T, S, rfl, hT⟩ := split_at l (l.length - n) (Nat.sub_le _ _)
  have hl : lastN n (T ++ S) = S := by unfold lastN; exact List.drop_left' hT
  rw [hl] at hk ⊢
  have hlen : (T ++ S).length = T.length + S.length := List.length_append
  by_cases hkT : k ∈ T
  · -- already evicted
    have hkl : k ∈ T ++ S := List.mem_append_left S hkT
    have hTpos : 0 < T.length := List.length_pos_of_mem hkT
    have hfull : ¬ (S.length < n) := by omega
    rw [if_neg hfull]
    unfold lastN
    rw [touch_length_mem hkl, ← hT]
    unfold touch
    rw [List.erase_append_left S hkT, List.append_assoc]
    have hE : (T.erase k).length + 1 = T.length := by
      rw [List.length_erase_of_mem hkT]; omega
    rw [← hE, ← List.drop_drop, List.drop_left, List.drop_append_of_le_length (by omega)]
  · -- never used before
    have hkl : k ∉ T ++ S := by
      intro hm
      rcases List.mem_append.mp hm with h1 | h1
      · exact hkT h1
      · exact hk h1
    rw [touch_not_mem hkl]
    unfold lastN
    rw [List.length_append, List.length_singleton]
    by_cases hsmall : S.length < n
    · rw [if_pos hsmall]
      have hT0 : T.length = 0 := by omega
      have : T = [] := List.eq_nil_of_length_eq_zero hT0
      subst this
      have : ([] ++ S).length + 1 - n = 0 := by simp; omega
      rw [this]
      simp
    · rw [if_neg hsmall]
      have : (T ++ S).length + 1 - n = T.length + 1 := by omega
      rw [this, List.append_assoc, ← List.drop_drop, List.drop_left,
        List.drop_append_of_le_length (by omega)]

/-- one successful call keeps "the store holds the last `n` keys of the recency order" -/
theorem call_ok_lru (n : Nat) (hn : 1 ≤ n) (t : Bool) (s : St) (rec : List NKey) (hrec : rec.Nodup)
    (hs : keys t s.store = lastN n rec) (p : Pattern) (v : Nat) :
    keys t (Impl.call ⟨.bounded n, t⟩ s p (.ok v)).1.store = lastN n (touch rec (keyOf t p)) := by
  cases hf : find (Impl.eqv t) p s.store with
  | some e =>
    have hmem : keyOf t p ∈ lastN n rec := by
      rw [← hs]
      have := find_mem hf
      simp only [keys, List.mem_map]
      exact ⟨e, this.1, (eqv_iff_key t e.1 p).mp this.2⟩
    rw [lastN_touch_mem n rec hrec _ hmem, ← hs, ← keys_erase]
    have hek : keyOf t e.1 = keyOf t p := (eqv_iff_key t e.1 p).mp (find_mem hf).2
    simp [Impl.call, Impl.begin, hf, keys, hek]
  | none =>
    have hnm : keyOf t p ∉ lastN n rec := by rw [← hs]; exact (find_none_iff_not_mem t p s.store).mp hf
    rw [lastN_touch_not_mem n hn rec hrec _ hnm, ← hs]
    simp only [Impl.call, Impl.begin, Impl.resume, hf, Option.isSome_none, Bool.false_eq_true, if_false]
    have hl : (keys t s.store).length = s.store.length := by simp [keys]
    rw [hl]
    by_cases hlt : s.store.length < n
    · have : ¬ (s.store.length ≥ n) := by omega
      simp [hlt, this, keys]
    · have : s.store.length ≥ n := by omega
      simp [hlt, this, keys]

theorem calls_lru (n : Nat) (hn : 1 ≤ n) (t : Bool) : ∀ (calls : List (Pattern × Nat)) (s : St) (rec : List NKey),
    rec.Nodup → keys t s.store = lastN n rec →
    keys t (final (Impl.step ⟨.bounded n, t⟩) s (calls.map fun c => Op.call c.1 (.ok c.2))).store
      = lastN n ((calls.map fun c => keyOf t c.1).foldl touch rec) := by
  intro calls
  induction calls with
  | nil => intro s rec _ hs; exact hs
  | cons c rest ih =>
    intro s rec hrec hs
    simp only [List.map_cons, final, List.foldl_cons, Impl.step]
    exact ih _ _ (touch_nodup hrec _) (call_ok_lru n hn t s rec hrec hs c.1 c.2)

end AsyncVerif.Lru
