import AsyncVerif.Proofs.Select
import AsyncVerif.Proofs.AggValues
/-!
# The bounded-heap models of `nlargest` / `nsmallest` in a fault-free world

`Std.nBestAlgo` run against a source that delivers `items` and a pure key function returns exactly what the pure
selection `Sel.selectV` returns on the `(key, item)` pairs — for every key (a `TypeError` of the pure selection is the
`TypeError` of the run), every `n`, every stamp convention.  With orderable keys that is `sorted(…)[:n]`
(`Sel.selectV_orderable`).
-/
namespace AsyncVerif

open List ListSpec

/-- a source that has reported its end -/
structure Spent (w : World) (s : Nat) : Prop where
  script : (w.srcs s).script = []
  dead : (w.srcs s).status.live = false

/-- what polling a finished source again shows: class-based iterators run user code (`pull`, `end`), generators and the
    wrappers of synchronous iterables do not -/
def repollLog (w : World) (s : Nat) : List Ev := if (w.srcs s).kind.repollVisible then endLog s else []

theorem pull_spent {w : World} {s : Nat} (h : Spent w s) :
    ∃ w', pull s w = (.ok none, w') ∧ Spent w' s ∧ w'.fns = w.fns ∧ w'.vis = w.vis ++ repollLog w s ∧
      (w'.srcs s).script = [] := by
  unfold pull repollLog
  simp only [h.dead, Bool.false_eq_true, if_false]
  by_cases hk : (w.srcs s).kind.repollVisible = true
  · simp only [hk, if_true]
    refine ⟨_, rfl, ⟨by simp [World.pushVis, h.script], by simp [World.pushVis, h.dead]⟩, rfl,
      by simp [World.pushVis, endLog], by simp [World.pushVis, h.script]⟩
  · simp only [hk, Bool.false_eq_true, if_false]
    exact ⟨w, rfl, h, rfl, by simp, h.script⟩

theorem pull_nil_spent {w : World} {s : Nat} (h : Feeds w s []) :
    ∃ w', pull s w = (.ok none, w') ∧ Spent w' s ∧ w'.fns = w.fns ∧ w'.vis = w.vis ++ endLog s ∧
      (w'.srcs s).kind = (w.srcs s).kind := by
  have hs := h.script
  have hl := h.live
  simp only [List.map_nil] at hs
  refine ⟨((w.pushVis (.pull s)).setSrc s { (w.srcs s) with status := .exhausted }).pushVis (.endd s),
    by unfold pull; simp only [hl, if_true, hs], ⟨?_, ?_⟩, rfl, ?_, ?_⟩
  · simp [World.pushVis, World.setSrc, hs]
  · simp [World.pushVis, World.setSrc, Status.live]
  · simp [World.pushVis, World.setSrc, endLog]
  · simp [World.pushVis, World.setSrc]

/-- `(key(x), x)` for every item -/
def keyedOf (kf : Val → Val) (items : List Val) : List (Val × Val) := items.map (fun x => (kf x, x))

/-- phase 1 in a fault-free world: the first `k` items (or all of them, and then the end of the source is seen) -/
theorem nbFirst_value (fn : Option Nat) (s : Nat) (kf : Val → Val) :
    ∀ (k : Nat) (items : List Val) (acc : List (Val × Val)) (w : World),
    Feeds w s items → KeyFn w fn kf →
    ∃ w', Std.nbFirst fn s k acc w = (.ok (acc ++ keyedOf kf (items.take k)), w') ∧ KeyFn w' fn kf ∧
      w'.vis = w.vis ++ keyedPullLog s fn kf (items.take k) ++ (if items.length < k then endLog s else []) ∧
      (if items.length < k then Spent w' s ∧ (w'.srcs s).kind = (w.srcs s).kind else Feeds w' s (items.drop k)) := by
  intro k
  induction k with
  | zero =>
    intro items acc w hf hk
    exact ⟨w, by simp [Std.nbFirst, pure_apply, keyedOf], hk, by simp [keyedPullLog], by simpa using hf⟩
  | succ k ih =>
    intro items acc w hf hk
    cases items with
    | nil =>
      obtain ⟨w', hp, hsp, hfn, hv, hkind⟩ := pull_nil_spent hf
      refine ⟨w', by simp [Std.nbFirst, bind_apply, hp, pure_apply, keyedOf], hk.of_fns hfn, by simp [hv, keyedPullLog], ?_⟩
      simp [hsp, hkind]
    | cons x rest =>
      obtain ⟨w1, hp, hf1, hfn1, -, -, hv1⟩ := pull_cons hf
      obtain ⟨w2, hc, hsr2, hfn2, -, hv2⟩ := keyOf_pure (hk.of_fns hfn1) x
      obtain ⟨w3, h3, hk3, hv3, hrest⟩ := ih rest (acc ++ [(kf x, x)]) w2 (hf1.of_srcs hsr2) ((hk.of_fns hfn1).of_fns hfn2)
      refine ⟨w3, ?_, hk3, ?_, ?_⟩
      · simp only [Std.nbFirst, bind_apply, hp, hc, h3]
        simp [keyedOf]
      · rw [hv3, hv2, hv1]
        simp [keyedPullLog, List.append_assoc]
      · have hkind : (w2.srcs s).kind = (w.srcs s).kind := by
          rw [hsr2]
          have := hf1.script
          -- the kind of a source never changes: read it off `pull`
          have hpull := hp
          unfold pull at hpull
          simp only [hf.live, if_true, hf.script, List.map_cons] at hpull
          have hw1 := (Prod.mk.inj hpull).2
          rw [← hw1]
          simp [World.pushVis, World.setSrc]
        by_cases hlt : rest.length < k
        · have : (x :: rest).length < k + 1 := by simp; omega
          simp only [this, if_true]
          simp only [hlt, if_true] at hrest
          exact ⟨hrest.1, hrest.2.trans hkind⟩
        · have : ¬ (x :: rest).length < k + 1 := by simp; omega
          simp only [this, if_false, List.drop_succ_cons]
          simpa [hlt] using hrest

/-- phase 2 in a fault-free world: the scan is the pure fold over the remaining `(key, item)` pairs -/
theorem nbScan_value (c : Sel.Cfg) (fn : Option Nat) (s : Nat) (kf : Val → Val) :
    ∀ (rest : List Val) (st : List Sel.VE × Int) (fuel : Nat) (w : World),
    Feeds w s rest → KeyFn w fn kf → rest.length < fuel →
    match (keyedOf kf rest).foldlM (fun st p => Sel.acceptV c st p.1 p.2) st with
    | .ok st' => ∃ w', Std.nbScan c fn s st fuel w = (.ok st', w') ∧ ((w'.srcs s).script = []) ∧
        w'.vis = w.vis ++ keyedPullLog s fn kf rest ++ endLog s
    | .error e => (Std.nbScan c fn s st fuel w).1 = .error e := by
  intro rest
  induction rest with
  | nil =>
    intro st fuel w hf hk hlt
    cases fuel with
    | zero => simp at hlt
    | succ fuel =>
      obtain ⟨w', hp, hs, -, -, -, hv⟩ := pull_nil hf
      simp only [keyedOf, map_nil, foldlM_nil, pure, Except.pure]
      exact ⟨w', by simp [Std.nbScan, bind_apply, hp, pure_apply], hs, by simp [hv, keyedPullLog, endLog]⟩
  | cons x rest ih =>
    intro st fuel w hf hk hlt
    cases fuel with
    | zero => simp at hlt
    | succ fuel =>
      obtain ⟨w1, hp, hf1, hfn1, -, -, hv1⟩ := pull_cons hf
      obtain ⟨w2, hc, hsr2, hfn2, -, hv2⟩ := keyOf_pure (hk.of_fns hfn1) x
      simp only [keyedOf, map_cons, foldlM_cons]
      cases hst : Sel.acceptV c st (kf x) x with
      | error e =>
        simp only [bind, Except.bind]
        simp [Std.nbScan, bind_apply, hp, hc, hst, liftExc_apply]
      | ok st1 =>
        simp only [bind, Except.bind]
        have := ih st1 fuel w2 (hf1.of_srcs hsr2) ((hk.of_fns hfn1).of_fns hfn2) (by simp at hlt; omega)
        simp only [keyedOf] at this
        cases hfold : (map (fun x => (kf x, x)) rest).foldlM (fun st p => Sel.acceptV c st p.1 p.2) st1 with
        | error e =>
          rw [hfold] at this
          simpa [Std.nbScan, bind_apply, hp, hc, hst, liftExc_apply] using this
        | ok st' =>
          rw [hfold] at this
          obtain ⟨w', h1, h2, h3⟩ := this
          refine ⟨w', by simp [Std.nbScan, bind_apply, hp, hc, hst, liftExc_apply, h1], h2, ?_⟩
          rw [h3, hv2, hv1]
          simp [keyedPullLog, List.append_assoc]

/-- the scan over a source that has already reported its end: one more poll, nothing else -/
theorem nbScan_spent (c : Sel.Cfg) (fn : Option Nat) (s : Nat) (st : List Sel.VE × Int) (fuel : Nat) (w : World)
    (h : Spent w s) : ∃ w', Std.nbScan c fn s st (fuel + 1) w = (.ok st, w') ∧ (w'.srcs s).script = [] ∧
      w'.vis = w.vis ++ repollLog w s := by
  obtain ⟨w', hp, -, -, hv, hs⟩ := pull_spent h
  exact ⟨w', by simp [Std.nbScan, bind_apply, hp, pure_apply], hs, hv⟩

theorem keyedOf_take (kf : Val → Val) (items : List Val) (n : Nat) : keyedOf kf (items.take n) = (keyedOf kf items).take n := by
  simp [keyedOf, map_take]

theorem keyedOf_drop (kf : Val → Val) (items : List Val) (n : Nat) : keyedOf kf (items.drop n) = (keyedOf kf items).drop n := by
  simp [keyedOf, map_drop]

/-- **the run is the pure selection** (fault-free source, pure key function, any keys, any `n`, any stamp convention):
    the result — value or `TypeError` — is that of `Sel.selectV` on the `(key, item)` pairs; when it is a value and
    `n > 0`, the whole input was consumed, the key applied once per item as it arrived, and a source shorter than `n`
    is polled once more after it ended (as `heapq` itself does). -/
theorem nBestAlgo_run (c : Sel.Cfg) (n : Nat) (fn : Option Nat) (s : Nat) (kf : Val → Val) (items : List Val)
    (fuel : Nat) (w : World) (hf : Feeds w s items) (hk : KeyFn w fn kf) (hlt : items.length < fuel) :
    (Std.nBestAlgo c n fn s fuel w).1 =
      (match Sel.selectV c n (keyedOf kf items) with | .ok r => .ok (.lst r) | .error e => .error e) ∧
    (∀ r, Sel.selectV c n (keyedOf kf items) = .ok r → n ≠ 0 →
      ((Std.nBestAlgo c n fn s fuel w).2.srcs s).script = [] ∧
      (Std.nBestAlgo c n fn s fuel w).2.vis = w.vis ++ keyedPullLog s fn kf items ++ endLog s ++
        (if 0 < items.length ∧ items.length < n then repollLog w s else [])) := by
  obtain ⟨w1, h1, hk1, hv1, hrest⟩ := nbFirst_value fn s kf n items [] w hf hk
  simp only [nil_append] at h1
  unfold Std.nBestAlgo Sel.selectV
  simp only [bind_apply, h1, ← keyedOf_take, ← keyedOf_drop]
  by_cases hemp : (keyedOf kf (items.take n)).isEmpty = true
  · -- nothing collected: n = 0 or the input is empty
    simp only [hemp, if_true, pure_apply]
    refine ⟨by simp, fun r _ hn => ?_⟩
    have htake : items.take n = [] := by simpa [keyedOf] using hemp
    have hitems : items = [] := by
      cases items with
      | nil => rfl
      | cons x rest => cases n with
        | zero => exact absurd rfl hn
        | succ n => simp at htake
    subst hitems
    have hlt0 : ([] : List Val).length < n := by simp; omega
    simp only [hlt0, if_true] at hrest
    refine ⟨hrest.1.script, ?_⟩
    have hpos : 0 < n := Nat.pos_of_ne_zero hn
    simp [hv1, keyedPullLog, hpos]
  · simp only [hemp, Bool.false_eq_true, if_false]
    cases hh : Sel.heapifyV c (keyedOf kf (items.take n)) with
    | error e => simp [bind, Except.bind, liftExc_apply, bind_apply]
    | ok h0 =>
      simp only [liftExc_apply, bind, Except.bind]
      by_cases hshort : items.length < n
      · -- the source ended during phase 1: one more poll, no admission
        simp only [hshort, if_true] at hrest hv1
        obtain ⟨f', hf'⟩ : ∃ f', fuel = f' + 1 := ⟨fuel - 1, by omega⟩
        subst hf'
        obtain ⟨w2, h2, hs2, hv2⟩ := nbScan_spent c fn s (h0, Sel.stamp c.pos n) f' w1 hrest.1
        have hdrop : items.drop n = [] := drop_eq_nil_of_le (by omega)
        simp only [hdrop, keyedOf, map_nil, foldlM_nil, pure, Except.pure]
        simp only [h2]
        refine ⟨trivial, fun r _ hn => ⟨hs2, ?_⟩⟩
        have hpos : 0 < items.length := by
          cases items with
          | nil => simp [keyedOf] at hemp
          | cons x rest => simp
        have htk : items.take n = items := take_of_length_le (by omega)
        simp only [hv2, hv1, htk, hpos, hshort, and_self, if_true]
        unfold repollLog
        rw [hrest.2]
      · simp only [hshort, if_false] at hrest hv1
        have hdl : (items.drop n).length < fuel := by simp; omega
        have hsc := nbScan_value c fn s kf (items.drop n) (h0, Sel.stamp c.pos n) fuel w1 hrest hk1 hdl
        cases hfold : (keyedOf kf (items.drop n)).foldlM (fun st p => Sel.acceptV c st p.1 p.2) (h0, Sel.stamp c.pos n) with
        | error e =>
          rw [hfold] at hsc
          refine ⟨?_, fun r hr => by simp at hr⟩
          simp only at hsc
          cases hrun : Std.nbScan c fn s (h0, Sel.stamp c.pos n) fuel w1 with
          | mk res w2 =>
            rw [hrun] at hsc
            simp only at hsc
            subst hsc
            rfl
        | ok st' =>
          rw [hfold] at hsc
          obtain ⟨w2, h2, hs2, hv2⟩ := hsc
          simp only [h2, pure_apply]
          refine ⟨rfl, fun r _ hn => ⟨hs2, ?_⟩⟩
          have hnot : ¬ (0 < items.length ∧ items.length < n) := fun h => hshort h.2
          simp only [hv2, hv1, hnot, if_false, append_nil]
          have : keyedPullLog s fn kf (items.take n) ++ keyedPullLog s fn kf (items.drop n) = keyedPullLog s fn kf items := by
            unfold keyedPullLog; rw [← flatMap_append, take_append_drop]
          simp [List.append_assoc, ← this]

/-! ## The stamp convention is irrelevant — in every world

asyncstdlib stamps downwards in both directions and wraps the keys of `nsmallest` in `ReverseLT`; CPython's `nsmallest`
stamps upwards on a max-heap.  The two runs are the same function of the world: same pulls, same key calls, same
comparisons, same result or same exception at the same moment. -/

/-- two stamped heaps (possibly under different stamp conventions) that erase to the same stamp-free list -/
def RelHH (c1 c2 : Sel.Cfg) (st1 st2 : List Sel.VE × Int) : Prop :=
  ∃ acc, Sel.RelH c1.pos st1.2 st1.1 acc ∧ Sel.RelH c2.pos st2.2 st2.1 acc

/-- two computations related to a common third one are related to each other -/
theorem ExRel.join {α β γ : Type} {R1 : α → γ → Prop} {R2 : β → γ → Prop} {m1 : Except Exc α} {m2 : Except Exc β}
    {k : Except Exc γ} (h1 : Sel.ExRel R1 m1 k) (h2 : Sel.ExRel R2 m2 k) :
    Sel.ExRel (fun a b => ∃ c, R1 a c ∧ R2 b c) m1 m2 := by
  cases m1 with
  | error e1 =>
    cases k with
    | error e =>
      cases m2 with
      | error e2 =>
        have a : e1 = e := h1
        have b : e2 = e := h2
        exact a.trans b.symm
      | ok b => exact h2.elim
    | ok c => exact h1.elim
  | ok a =>
    cases k with
    | error e => exact h1.elim
    | ok c =>
      cases m2 with
      | error e2 => exact h2.elim
      | ok b => exact ⟨c, h1, h2⟩

theorem acceptV_rel (c1 c2 : Sel.Cfg) (hl : c1.largest = c2.largest) (st1 st2 : List Sel.VE × Int)
    (hr : RelHH c1 c2 st1 st2) (k x : Val) :
    Sel.ExRel (RelHH c1 c2) (Sel.acceptV c1 st1 k x) (Sel.acceptV c2 st2 k x) := by
  obtain ⟨acc, h1, h2⟩ := hr
  have s1 := Sel.accept_sim c1 st1.1 st1.2 acc h1 k x
  have s2 := Sel.accept_sim c2 st2.1 st2.2 acc h2 k x
  rw [← hl] at s2
  refine (ExRel.join s1 s2).mono ?_
  intro a b ⟨c, ha, hb⟩
  exact ⟨c, ha.1, hb.1⟩

theorem later_stamp_mono (pos : Bool) (m n : Nat) (i : Int) (hmn : m ≤ n)
    (h : Sel.later pos (Sel.stamp pos m) i = true) : Sel.later pos (Sel.stamp pos n) i = true := by
  unfold Sel.later Sel.stamp at *; cases pos <;> simp at * <;> omega

theorem nbFirst_length (fn : Option Nat) (s : Nat) : ∀ (k : Nat) (acc : List (Val × Val)) (w : World) (r : List (Val × Val))
    (w' : World), Std.nbFirst fn s k acc w = (.ok r, w') → r.length ≤ acc.length + k := by
  intro k
  induction k with
  | zero => intro acc w r w' h; simp [Std.nbFirst, pure_apply] at h; rw [← h.1]; omega
  | succ k ih =>
    intro acc w r w' h
    simp only [Std.nbFirst, bind_apply] at h
    rcases hp : pull s w with ⟨rp, w1⟩
    rw [hp] at h
    cases rp with
    | error e => simp at h
    | ok o =>
      cases o with
      | none => simp [pure_apply] at h; rw [← h.1]; omega
      | some x =>
        simp only [bind_apply] at h
        rcases hk : Std.keyOf fn x w1 with ⟨rk, w2⟩
        rw [hk] at h
        cases rk with
        | error e => simp at h
        | ok key =>
          have := ih _ _ _ _ h
          simp at this; omega

theorem nbScan_rel (c1 c2 : Sel.Cfg) (hl : c1.largest = c2.largest) (fn : Option Nat) (s : Nat) :
    ∀ (fuel : Nat) (st1 st2 : List Sel.VE × Int) (w : World), RelHH c1 c2 st1 st2 →
    (Std.nbScan c1 fn s st1 fuel w).2 = (Std.nbScan c2 fn s st2 fuel w).2 ∧
    Sel.ExRel (RelHH c1 c2) (Std.nbScan c1 fn s st1 fuel w).1 (Std.nbScan c2 fn s st2 fuel w).1 := by
  intro fuel
  induction fuel with
  | zero => intro st1 st2 w _; exact ⟨rfl, rfl⟩
  | succ fuel ih =>
    intro st1 st2 w hr
    simp only [Std.nbScan, bind_apply]
    rcases hp : pull s w with ⟨r, w1⟩
    cases r with
    | error e => exact ⟨rfl, rfl⟩
    | ok o =>
      cases o with
      | none => exact ⟨rfl, hr⟩
      | some x =>
        simp only [bind_apply]
        rcases hk : Std.keyOf fn x w1 with ⟨rk, w2⟩
        cases rk with
        | error e => exact ⟨rfl, rfl⟩
        | ok key =>
          simp only [liftExc_apply]
          have := acceptV_rel c1 c2 hl st1 st2 hr key x
          cases r1 : Sel.acceptV c1 st1 key x with
          | error e1 =>
            cases r2 : Sel.acceptV c2 st2 key x with
            | error e2 => rw [r1, r2] at this; exact ⟨rfl, this⟩
            | ok b => rw [r1, r2] at this; exact this.elim
          | ok a =>
            cases r2 : Sel.acceptV c2 st2 key x with
            | error e2 => rw [r1, r2] at this; exact this.elim
            | ok b => rw [r1, r2] at this; exact ih a b w2 this

/-- **the stamp convention is irrelevant**: two configurations with the same direction are the same computation -/
theorem nBestAlgo_stamp_irrelevant (c1 c2 : Sel.Cfg) (hl : c1.largest = c2.largest) (n : Nat) (fn : Option Nat)
    (s fuel : Nat) : Std.nBestAlgo c1 n fn s fuel = Std.nBestAlgo c2 n fn s fuel := by
  funext w
  simp only [Std.nBestAlgo, bind_apply]
  rcases hf : Std.nbFirst fn s n [] w with ⟨r, w1⟩
  cases r with
  | error e => rfl
  | ok first =>
    have hflen : first.length ≤ n := by simpa using nbFirst_length fn s n [] w first w1 hf
    simp only
    split
    · rfl
    · simp only [liftExc_apply, bind_apply]
      have h1 := Sel.heapify_sim c1 first 0 [] [] ⟨rfl, by simp⟩
      have h2 := Sel.heapify_sim c2 first 0 [] [] ⟨rfl, by simp⟩
      rw [← hl] at h2
      have hj := ExRel.join h1 h2
      unfold Sel.heapifyV
      cases r1 : first.zipIdx.foldlM (fun h (p : (Val × Val) × Nat) => Sel.insV c1 ⟨p.1.1, Sel.stamp c1.pos p.2, p.1.2⟩ h) [] with
      | error e1 =>
        cases r2 : first.zipIdx.foldlM (fun h (p : (Val × Val) × Nat) => Sel.insV c2 ⟨p.1.1, Sel.stamp c2.pos p.2, p.1.2⟩ h) [] with
        | error e2 =>
          rw [r1, r2] at hj
          have : e1 = e2 := hj
          subst this; rfl
        | ok b => rw [r1, r2] at hj; exact hj.elim
      | ok hh1 =>
        cases r2 : first.zipIdx.foldlM (fun h (p : (Val × Val) × Nat) => Sel.insV c2 ⟨p.1.1, Sel.stamp c2.pos p.2, p.1.2⟩ h) [] with
        | error e2 => rw [r1, r2] at hj; exact hj.elim
        | ok hh2 =>
          rw [r1, r2] at hj
          obtain ⟨acc, ⟨⟨he1, hfr1⟩, _⟩, ⟨⟨he2, hfr2⟩, _⟩⟩ := hj
          have hrel : RelHH c1 c2 (hh1, Sel.stamp c1.pos n) (hh2, Sel.stamp c2.pos n) :=
            ⟨acc, ⟨he1, fun a ha => later_stamp_mono _ _ n _ (by omega) (hfr1 a ha)⟩,
                  ⟨he2, fun a ha => later_stamp_mono _ _ n _ (by omega) (hfr2 a ha)⟩⟩
          obtain ⟨hw, hres⟩ := nbScan_rel c1 c2 hl fn s fuel _ _ w1 hrel
          rcases q1 : Std.nbScan c1 fn s (hh1, Sel.stamp c1.pos n) fuel w1 with ⟨a1, v1⟩
          rcases q2 : Std.nbScan c2 fn s (hh2, Sel.stamp c2.pos n) fuel w1 with ⟨a2, v2⟩
          rw [q1, q2] at hw hres
          simp only at hw hres
          subst hw
          dsimp only
          rw [q1, q2]
          cases a1 with
          | error e1 =>
            cases a2 with
            | error e2 =>
              have : e1 = e2 := hres
              subst this; rfl
            | ok b => exact hres.elim
          | ok s1 =>
            cases a2 with
            | error e2 => exact hres.elim
            | ok s2 =>
              obtain ⟨acc', ⟨e1, _⟩, ⟨e2, _⟩⟩ := hres
              simp only [pure_apply]
              have : s1.1.map (·.item) = s2.1.map (·.item) := by
                have a1 : s1.1.map (·.item) = (s1.1.map Sel.eraseE).map (·.2) := by simp [map_map, Sel.eraseE, Function.comp_def]
                have a2 : s2.1.map (·.item) = (s2.1.map Sel.eraseE).map (·.2) := by simp [map_map, Sel.eraseE, Function.comp_def]
                rw [a1, a2, e1, e2]
              rw [this]

/-! ## Consequences for the two models -/

/-- asyncstdlib's `nlargest` / `nsmallest` is the CPython algorithm inside the scope of its source — an identity of
    programs (the stamp conventions differ for `nsmallest`; `nBestAlgo_stamp_irrelevant`) -/
theorem Impl.nBest_eq (largest : Bool) (n : Nat) (fn : Option Nat) (s fuel : Nat) :
    Impl.nBest largest n fn s fuel = scopedIter s (Std.nBest largest n fn s fuel) := by
  unfold Impl.nBest Std.nBest
  rw [nBestAlgo_stamp_irrelevant ⟨largest, false⟩ ⟨largest, !largest⟩ rfl]

/-- `sorted(items, key, reverse=largest)[:n]` on the decorated pairs is `ListSpec.nBest` -/
theorem spec_eq_listSpec (largest : Bool) (n : Nat) (kf : Val → Val) (items : List Val) :
    (Sel.spec largest n ((keyedOf kf items).map Sel.ikp)).map (·.2) =
      ListSpec.nBest largest n (fun x => (kf x).ikey) items := by
  unfold Sel.spec ListSpec.nBest ListSpec.sorted keyedOf
  rw [map_map]
  have hm : ((items.map ((Sel.ikp ∘ fun x => (kf x, x)))).mergeSort (Sel.specLe largest)) =
      (items.mergeSort (ListSpec.sortLe largest fun x => (kf x).ikey)).map (Sel.ikp ∘ fun x => (kf x, x)) := by
    symm
    apply map_mergeSort
    intro a _ b _
    unfold ListSpec.sortLe Sel.specLe Sel.kb Sel.ikp
    cases largest <;> simp <;> (rw [Bool.eq_iff_iff]; simp)
  rw [hm, ← map_take, map_map]
  conv => rhs; rw [← map_id (take n _)]
  congr 1

theorem keyedOf_allOrd (kf : Val → Val) (items : List Val) (hall : ∀ x ∈ items, (kf x).orderable = true) :
    Sel.AllOrd (keyedOf kf items) := by
  intro a ha
  obtain ⟨x, hx, rfl⟩ := mem_map.mp ha
  exact hall x hx

/-- **value of the bounded-heap algorithm** (any direction, any stamp convention, every `n`): with orderable keys the run
    returns `sorted(items, key=key, reverse=largest)[:n]` -/
theorem nBestAlgo_value (c : Sel.Cfg) (n : Nat) (fn : Option Nat) (s : Nat) (kf : Val → Val) (items : List Val)
    (fuel : Nat) (w : World) (hf : Feeds w s items) (hk : KeyFn w fn kf)
    (hall : ∀ x ∈ items, (kf x).orderable = true) (hlt : items.length < fuel) :
    (Std.nBestAlgo c n fn s fuel w).1 = .ok (.lst (ListSpec.nBest c.largest n (fun x => (kf x).ikey) items)) ∧
    (n ≠ 0 → ((Std.nBestAlgo c n fn s fuel w).2.srcs s).script = [] ∧
      (Std.nBestAlgo c n fn s fuel w).2.vis = w.vis ++ keyedPullLog s fn kf items ++ endLog s ++
        (if 0 < items.length ∧ items.length < n then repollLog w s else [])) := by
  have hsel := Sel.selectV_orderable c n (keyedOf kf items) (keyedOf_allOrd kf items hall)
  obtain ⟨h1, h2⟩ := nBestAlgo_run c n fn s kf items fuel w hf hk hlt
  rw [hsel] at h1
  refine ⟨?_, fun hn => h2 _ hsel hn⟩
  rw [h1, spec_eq_listSpec]

/-- `n = 0`: nothing is pulled, no callable runs, the world is left as it was -/
theorem nBestAlgo_zero (c : Sel.Cfg) (fn : Option Nat) (s fuel : Nat) (w : World) :
    Std.nBestAlgo c 0 fn s fuel w = (.ok (.lst []), w) := by
  simp [Std.nBestAlgo, Std.nbFirst, bind_apply, pure_apply]

namespace Std

theorem oc_nbFirst (fn : Option Nat) (s : Nat) : ∀ k acc, OnlyConsumes s (nbFirst fn s k acc) := by
  intro k
  induction k with
  | zero => intro acc; unfold nbFirst; ocs
  | succ k ih => intro acc; unfold nbFirst; ocs [ih]

theorem oc_nbScan (c : Sel.Cfg) (fn : Option Nat) (s fuel : Nat) : ∀ st, OnlyConsumes s (nbScan c fn s st fuel) := by
  induction fuel with
  | zero => intro st; unfold nbScan; ocs
  | succ fuel ih => intro st; unfold nbScan; ocs [ih]

theorem oc_nBestAlgo (c : Sel.Cfg) (n : Nat) (fn : Option Nat) (s fuel : Nat) :
    OnlyConsumes s (nBestAlgo c n fn s fuel) := by
  unfold nBestAlgo; ocs [oc_nbFirst fn s, oc_nbScan c fn s fuel]

theorem oc_nBest (largest : Bool) (n : Nat) (fn : Option Nat) (s fuel : Nat) :
    OnlyConsumes s (nBest largest n fn s fuel) := oc_nBestAlgo _ n fn s fuel

end Std

/-! ## The heap is bounded by `n` at every moment of every run (C20's window for `nlargest` / `nsmallest`) -/

/-- every state the scan goes through holds exactly as many entries as the initial heap -/
theorem nbScan_heap_size (c : Sel.Cfg) (fn : Option Nat) (s : Nat) : ∀ (fuel : Nat) (st st' : List Sel.VE × Int) (w w' : World),
    Std.nbScan c fn s st fuel w = (.ok st', w') → st'.1.length = st.1.length := by
  intro fuel
  induction fuel with
  | zero => intro st st' w w' h; simp [Std.nbScan, raise] at h
  | succ fuel ih =>
    intro st st' w w' h
    simp only [Std.nbScan, bind_apply] at h
    rcases hp : pull s w with ⟨r, w1⟩
    rw [hp] at h
    cases r with
    | error e => simp at h
    | ok o =>
      cases o with
      | none => simp [pure_apply] at h; rw [← h.1]
      | some x =>
        simp only [bind_apply] at h
        rcases hk : Std.keyOf fn x w1 with ⟨rk, w2⟩
        rw [hk] at h
        cases rk with
        | error e => simp at h
        | ok key =>
          simp only [liftExc_apply] at h
          cases ha : Sel.acceptV c st key x with
          | error e => rw [ha] at h; simp at h
          | ok st1 =>
            rw [ha] at h
            rw [ih st1 st' w2 w' h, Sel.acceptV_length c st st1 key x ha]

end AsyncVerif
