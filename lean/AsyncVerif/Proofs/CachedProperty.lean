import AsyncVerif.Machines.CachedProperty
/-!
# cached_property — invariant of reachable states and helper lemmas (used by Properties/C12.lean)
-/
namespace AsyncVerif.CachedProperty

def RunSt.live : RunSt → Prop
  | .running => True | .returned => True | _ => False

/-- v is the value of a getter run on instance i that returned -/
def Good (cfg : Cfg) (s : State) (i v : Nat) : Prop :=
  v < s.nRuns ∧ (s.run v).st = .returned ∧ (s.run v).inst = i ∧ cfg.ok v = true

structure Inv (cfg : Cfg) (s : State) : Prop where
  fresh_task : ∀ t, s.nTasks ≤ t → s.pc t = .unborn
  pc_start : ∀ t p, s.pc t = .start (.ph p) → p < s.nextP ∧ s.phInst p = s.tinst t
  pc_entered : ∀ t p, s.pc t = .entered p → p < s.nextP ∧ s.phInst p = s.tinst t
  pc_lockwait : ∀ t p, s.pc t = .lockwait p → p < s.nextP ∧ s.phInst p = s.tinst t
  pc_holding : ∀ t p, s.pc t = .holding p → p < s.nextP ∧ s.phInst p = s.tinst t
  pc_getter : ∀ t p r k, s.pc t = .getter p r k → p < s.nextP ∧ s.phInst p = s.tinst t
  handle_ph : ∀ t p, t < s.nTasks → s.thandle t = .ph p → p < s.nextP ∧ s.phInst p = s.tinst t
  slot_ph : ∀ i p, s.slot i = some (.ph p) → p < s.nextP ∧ s.phInst p = i
  lock_owner : ∀ p t, s.lock p = some t → s.pc t = .holding p ∨ ∃ r k, s.pc t = .getter p r k
  owner_holding : cfg.lock = true → ∀ p t, s.pc t = .holding p → s.lock p = some t
  owner_getter : cfg.lock = true → ∀ p t r k, s.pc t = .getter p r k → s.lock p = some t
  nolock : cfg.lock = false → ∀ p, s.lock p = none
  lockwait_lock : ∀ t p, s.pc t = .lockwait p → cfg.lock = true
  getter_run : ∀ t p r k, s.pc t = .getter p r k → r < s.nRuns ∧ s.run r = ⟨s.phInst p, p, t, .running⟩
  run_getter : ∀ r, r < s.nRuns → (s.run r).st = .running → ∃ k, s.pc (s.run r).task = .getter (s.run r).ph r k
  run_ph : ∀ r, r < s.nRuns → (s.run r).ph < s.nextP ∧ (s.run r).inst = s.phInst (s.run r).ph
  slot_val : ∀ i v, s.slot i = some (.val v) → Good cfg s i v
  task_val : ∀ t v, (s.pc t = .done (.ok v) ∨ s.pc t = .start (.val v)) → Good cfg s (s.tinst t) v
  handle_val : ∀ t v, t < s.nTasks → s.thandle t = .val v → Good cfg s (s.tinst t) v
  returned_gone : ∀ r, r < s.nRuns → (s.run r).st = .returned → s.slot (s.run r).inst ≠ some (.ph (s.run r).ph)
  live_unique : cfg.lock = true → ∀ r r', r < s.nRuns → r' < s.nRuns → (s.run r).ph = (s.run r').ph →
    (s.run r).st.live → (s.run r').st.live → r = r'
  df_inj : ∀ p p', p < s.nextP → p' < s.nextP → s.phInst p = s.phInst p' → s.dels (s.phInst p) = 0 → p = p'
  df_none : ∀ i p, s.slot i = none → s.dels i = 0 → p < s.nextP → s.phInst p ≠ i


macro "inv_auto" : tactic => `(tactic|
  (constructor <;> simp only [setPc, setLock, setSlot, delSlot, setRunSt, newPh, release, addTask] <;> grind [Good, RunSt.live]))

theorem access_cases (s : State) (i : Nat) :
    (∃ x, s.slot i = some x ∧ access s i = (s, x)) ∨ (s.slot i = none ∧ access s i = (newPh s i, .ph s.nextP)) := by
  unfold access; cases h : s.slot i <;> simp

theorem newPh_inv (cfg : Cfg) (s : State) (i : Nat) (h : Inv cfg s) (hs : s.slot i = none) : Inv cfg (newPh s i) := by
  obtain ⟨h1,h2a,h2b,h2c,h2d,h2e,h3,h4,h5,h6,h6b,h7,h8,h9,h10,h11,h12,h13,h14,h15,h16,h17,h18⟩ := h
  inv_auto

theorem blocked_inv (cfg : Cfg) (s : State) (t p : Nat) (h : Inv cfg s) (hpc : s.pc t = .entered p)
    (hl : cfg.lock = true) : Inv cfg (setPc s t (.lockwait p)) := by
  obtain ⟨h1,h2a,h2b,h2c,h2d,h2e,h3,h4,h5,h6,h6b,h7,h8,h9,h10,h11,h12,h13,h14,h15,h16,h17,h18⟩ := h
  inv_auto

theorem acquire_inv (cfg : Cfg) (s : State) (t p : Nat) (h : Inv cfg s)
    (hpc : s.pc t = .entered p ∨ s.pc t = .lockwait p)
    (hl : cfg.lock = true) (hf : s.lock p = none) : Inv cfg (setPc (setLock s p (some t)) t (.holding p)) := by
  obtain ⟨h1,h2a,h2b,h2c,h2d,h2e,h3,h4,h5,h6,h6b,h7,h8,h9,h10,h11,h12,h13,h14,h15,h16,h17,h18⟩ := h
  inv_auto

theorem enter_nolock_inv (cfg : Cfg) (s : State) (t p : Nat) (h : Inv cfg s) (hpc : s.pc t = .entered p)
    (hl : cfg.lock = false) : Inv cfg (setPc s t (.holding p)) := by
  obtain ⟨h1,h2a,h2b,h2c,h2d,h2e,h3,h4,h5,h6,h6b,h7,h8,h9,h10,h11,h12,h13,h14,h15,h16,h17,h18⟩ := h
  inv_auto

theorem awaitStored_entered_inv (cfg : Cfg) (s : State) (t p : Nat) (x : Stored) (h : Inv cfg s)
    (hpc : s.pc t = .entered p) (hs : s.slot (s.phInst p) = some x) : Inv cfg (awaitStored s t x).1 := by
  obtain ⟨h1,h2a,h2b,h2c,h2d,h2e,h3,h4,h5,h6,h6b,h7,h8,h9,h10,h11,h12,h13,h14,h15,h16,h17,h18⟩ := h
  cases x <;> simp only [awaitStored] <;> inv_auto

set_option maxHeartbeats 1600000 in
theorem awaitStored_holding_inv (cfg : Cfg) (s : State) (t p : Nat) (x : Stored) (h : Inv cfg s)
    (hpc : s.pc t = .holding p) (hs : s.slot (s.phInst p) = some x) (hne : x ≠ .ph p) :
    Inv cfg (awaitStored (release cfg s p) t x).1 := by
  obtain ⟨h1,h2a,h2b,h2c,h2d,h2e,h3,h4,h5,h6,h6b,h7,h8,h9,h10,h11,h12,h13,h14,h15,h16,h17,h18⟩ := h
  cases hl : cfg.lock
  · cases x <;> simp only [awaitStored, release, hl, if_true, if_false, Bool.false_eq_true] <;> inv_auto
  · cases x <;> simp only [awaitStored, release, hl, if_true, if_false, Bool.false_eq_true] <;> inv_auto

/-- `holding p` with the slot still this placeholder: a new getter run starts -/
theorem startRun_inv (cfg : Cfg) (s : State) (t p : Nat) (h : Inv cfg s)
    (hpc : s.pc t = .holding p) (hs : s.slot (s.phInst p) = some (.ph p)) :
    Inv cfg (setPc { s with nRuns := s.nRuns + 1,
                            run := fun r' => if r' = s.nRuns then ⟨s.phInst p, p, t, .running⟩ else s.run r' }
              t (.getter p s.nRuns (cfg.susp s.nRuns))) := by
  obtain ⟨h1,h2a,h2b,h2c,h2d,h2e,h3,h4,h5,h6,h6b,h7,h8,h9,h10,h11,h12,h13,h14,h15,h16,h17,h18⟩ := h
  constructor
  case run_getter =>
    intro r hr hst
    by_cases hrn : r = s.nRuns
    · subst hrn; exact ⟨cfg.susp s.nRuns, by simp [setPc]⟩
    · simp only [setPc, hrn, if_false] at hst ⊢
      obtain ⟨k, hk⟩ := h10 r (by have : r < s.nRuns + 1 := hr; omega) hst
      refine ⟨k, ?_⟩
      have : (s.run r).task ≠ t := by intro e; rw [e, hpc] at hk; cases hk
      simp [this, hk]
  all_goals (simp only [setPc]; grind [Good, RunSt.live])

theorem getterStep_inv (cfg : Cfg) (s : State) (t p r k : Nat) (h : Inv cfg s)
    (hpc : s.pc t = .getter p r (k + 1)) : Inv cfg (setPc s t (.getter p r k)) := by
  obtain ⟨h1,h2a,h2b,h2c,h2d,h2e,h3,h4,h5,h6,h6b,h7,h8,h9,h10,h11,h12,h13,h14,h15,h16,h17,h18⟩ := h
  inv_auto

set_option maxHeartbeats 1600000 in
theorem complete_inv (cfg : Cfg) (s : State) (t p r k : Nat) (h : Inv cfg s)
    (hpc : s.pc t = .getter p r k) : Inv cfg (complete cfg s t p r).1 := by
  obtain ⟨h1,h2a,h2b,h2c,h2d,h2e,h3,h4,h5,h6,h6b,h7,h8,h9,h10,h11,h12,h13,h14,h15,h16,h17,h18⟩ := h
  cases hl : cfg.lock <;> cases hok : cfg.ok r <;>
    simp only [complete, release, hl, hok, if_true, if_false, Bool.false_eq_true] <;> inv_auto

theorem addTask_inv (cfg : Cfg) (s : State) (i : Nat) (x : Stored) (h : Inv cfg s)
    (hp : ∀ p, x = .ph p → p < s.nextP ∧ s.phInst p = i) (hv : ∀ v, x = .val v → Good cfg s i v) :
    Inv cfg (addTask s i x) := by
  obtain ⟨h1,h2a,h2b,h2c,h2d,h2e,h3,h4,h5,h6,h6b,h7,h8,h9,h10,h11,h12,h13,h14,h15,h16,h17,h18⟩ := h
  inv_auto

set_option maxHeartbeats 1600000 in
theorem cancel_inv (cfg : Cfg) (s : State) (t : Nat) (h : Inv cfg s) : Inv cfg (cancel cfg s t).1 := by
  obtain ⟨h1,h2a,h2b,h2c,h2d,h2e,h3,h4,h5,h6,h6b,h7,h8,h9,h10,h11,h12,h13,h14,h15,h16,h17,h18⟩ := h
  unfold cancel
  split
  · inv_auto
  · inv_auto
  · cases hl : cfg.lock <;> simp only [release, hl, if_true, if_false, Bool.false_eq_true] <;> inv_auto
  · constructor <;> assumption

theorem del_inv (cfg : Cfg) (s : State) (i : Nat) (h : Inv cfg s) : Inv cfg (delSlot s i) := by
  obtain ⟨h1,h2a,h2b,h2c,h2d,h2e,h3,h4,h5,h6,h6b,h7,h8,h9,h10,h11,h12,h13,h14,h15,h16,h17,h18⟩ := h
  inv_auto

theorem access_inv (cfg : Cfg) (s : State) (i : Nat) (h : Inv cfg s) : Inv cfg (access s i).1 := by
  rcases access_cases s i with ⟨x, _, he⟩ | ⟨hn, he⟩
  · rw [he]; exact h
  · rw [he]; exact newPh_inv cfg s i h hn

theorem access_slot (s : State) (i : Nat) : (access s i).1.slot i = some (access s i).2 := by
  rcases access_cases s i with ⟨x, hx, he⟩ | ⟨_, he⟩
  · rw [he]; exact hx
  · rw [he]; simp [newPh]

theorem access_pc (s : State) (i : Nat) : (access s i).1.pc = s.pc := by
  rcases access_cases s i with ⟨x, _, he⟩ | ⟨_, he⟩ <;> rw [he] <;> rfl

theorem access_phInst (s : State) (i p : Nat) (hp : p < s.nextP) : (access s i).1.phInst p = s.phInst p := by
  rcases access_cases s i with ⟨x, _, he⟩ | ⟨_, he⟩ <;> rw [he]
  simp [newPh]; omega

/-- what `_instance_value` establishes: an invariant state in which the slot is known -/
theorem instanceValue_spec (cfg : Cfg) (s : State) (p : Nat) (h : Inv cfg s) (hp : p < s.nextP) :
    Inv cfg (instanceValue s p).1 ∧ (instanceValue s p).1.pc = s.pc ∧
    (instanceValue s p).1.slot ((instanceValue s p).1.phInst p) = some (instanceValue s p).2 := by
  unfold instanceValue
  refine ⟨access_inv cfg s _ h, access_pc s _, ?_⟩
  rw [access_phInst s _ p hp]; exact access_slot s _

theorem micro_inv (cfg : Cfg) (s : State) (t : Nat) (h : Inv cfg s) : Inv cfg (micro cfg s t).1 := by
  unfold micro
  split
  · exact h
  · exact h
  · rename_i v hpc
    obtain ⟨h1,h2a,h2b,h2c,h2d,h2e,h3,h4,h5,h6,h6b,h7,h8,h9,h10,h11,h12,h13,h14,h15,h16,h17,h18⟩ := h
    inv_auto
  · rename_i p hpc
    obtain ⟨h1,h2a,h2b,h2c,h2d,h2e,h3,h4,h5,h6,h6b,h7,h8,h9,h10,h11,h12,h13,h14,h15,h16,h17,h18⟩ := h
    inv_auto
  · rename_i p hpc
    obtain ⟨hi, hpc1, hsl⟩ := instanceValue_spec cfg s p h (h.pc_entered t p hpc).1
    generalize instanceValue s p = r at hi hpc1 hsl
    obtain ⟨s1, stored⟩ := r
    simp only at hi hpc1 hsl ⊢
    have hpc' : s1.pc t = .entered p := by rw [hpc1]; exact hpc
    split
    · split
      · split
        · exact blocked_inv cfg s1 t p hi hpc' (by assumption)
        · exact acquire_inv cfg s1 t p hi (Or.inl hpc') (by assumption) (by assumption)
      · exact enter_nolock_inv cfg s1 t p hi hpc' (by simpa using ‹¬cfg.lock = true›)
    · exact awaitStored_entered_inv cfg s1 t p stored hi hpc' hsl
  · rename_i p hpc
    split
    · exact h
    · exact acquire_inv cfg s t p h (Or.inr hpc) (h.lockwait_lock t p hpc) (by assumption)
  · rename_i p hpc
    obtain ⟨hi, hpc1, hsl⟩ := instanceValue_spec cfg s p h (h.pc_holding t p hpc).1
    generalize instanceValue s p = r at hi hpc1 hsl
    obtain ⟨s1, stored⟩ := r
    simp only at hi hpc1 hsl ⊢
    have hpc' : s1.pc t = .holding p := by rw [hpc1]; exact hpc
    split
    · rename_i heq
      subst heq
      exact startRun_inv cfg s1 t p hi hpc' hsl
    · exact awaitStored_holding_inv cfg s1 t p stored hi hpc' hsl (by assumption)
  · rename_i p r hpc
    exact complete_inv cfg s t p r 0 h hpc
  · rename_i p r k hpc
    exact getterStep_inv cfg s t p r k h hpc

theorem schedN_inv (cfg : Cfg) (n : Nat) : ∀ (s : State) (t : Nat), Inv cfg s → Inv cfg (schedN cfg n s t).1 := by
  induction n with
  | zero => intro s t h; exact h
  | succ n ih =>
    intro s t h
    unfold schedN
    have hm := micro_inv cfg s t h
    generalize micro cfg s t = r at hm
    obtain ⟨s1, o⟩ := r
    cases o with
    | some o => exact hm
    | none => exact ih s1 t hm

theorem init_inv (cfg : Cfg) : Inv cfg State.init := by
  constructor <;> simp [State.init]

theorem step_inv (cfg : Cfg) (s : State) (op : Op) (h : Inv cfg s) : Inv cfg (step cfg s op).1 := by
  cases op with
  | spawn i =>
    simp only [step]
    have hi := access_inv cfg s i h
    have hsl := access_slot s i
    generalize access s i = r at hi hsl
    obtain ⟨s1, x⟩ := r
    simp only at hi hsl ⊢
    exact addTask_inv cfg s1 i x hi (fun p hp => hi.slot_ph i p (by rw [hsl, hp]))
      (fun v hv => hi.slot_val i v (by rw [hsl, hv]))
  | respawn t =>
    simp only [step]
    split
    · rename_i ht
      exact addTask_inv cfg s _ _ h (fun p hp => h.handle_ph t p ht hp) (fun v hv => h.handle_val t v ht hv)
    · exact h
  | sched t => exact schedN_inv cfg _ s t h
  | cancel t => exact cancel_inv cfg s t h
  | del i =>
    simp only [step]
    split
    · exact h
    · exact del_inv cfg s i h

theorem exec_inv (cfg : Cfg) (ops : List Op) : ∀ s, Inv cfg s → Inv cfg (exec cfg s ops) := by
  induction ops with
  | nil => intro s h; exact h
  | cons op ops ih => intro s h; exact ih _ (step_inv cfg s op h)

end AsyncVerif.CachedProperty
