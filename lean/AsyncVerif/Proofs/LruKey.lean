import AsyncVerif.Machines.Lru
/-! Key construction: `CallKey.from_call` and `lru_cache_make_key` distinguish call patterns identically. -/
namespace AsyncVerif.Lru

def NElem.isTy : NElem → Bool
  | .ty _ => true
  | _ => false

theorem Arg.norm_ne_mark (a : Arg) : a.norm ≠ .mark := by cases a <;> simp [Arg.norm]
theorem Arg.norm_not_ty (a : Arg) : a.norm.isTy = false := by cases a <;> simp [Arg.norm, NElem.isTy]

/-- a list without the marker, the marker, a rest: the split is determined -/
theorem split_mark : ∀ (a1 a2 r1 r2 : List NElem), (∀ x ∈ a1, x ≠ .mark) → (∀ x ∈ a2, x ≠ .mark) →
    (a1 ++ NElem.mark :: r1 = a2 ++ NElem.mark :: r2 ↔ a1 = a2 ∧ r1 = r2) := by
  intro a1
  induction a1 with
  | nil =>
    intro a2 r1 r2 _ h2
    cases a2 with
    | nil => simp
    | cons y a2 =>
      have : y ≠ .mark := h2 y (by simp)
      constructor
      · intro h; simp only [List.nil_append, List.cons_append, List.cons.injEq] at h; exact absurd h.1.symm this
      · intro h; simp at h
  | cons x a1 ih =>
    intro a2 r1 r2 h1 h2
    cases a2 with
    | nil =>
      have : x ≠ .mark := h1 x (by simp)
      constructor
      · intro h; simp only [List.nil_append, List.cons_append, List.cons.injEq] at h; exact absurd h.1 this
      · intro h; simp at h
    | cons y a2 =>
      have := ih a2 r1 r2 (fun z hz => h1 z (by simp [hz])) (fun z hz => h2 z (by simp [hz]))
      simp only [List.cons_append, List.cons.injEq, this]
      constructor
      · rintro ⟨h, h', h''⟩; exact ⟨⟨h, h'⟩, h''⟩
      · rintro ⟨⟨h, h'⟩, h''⟩; exact ⟨h, h', h''⟩

/-- non-type elements followed by type elements: the split is determined -/
theorem split_ty : ∀ (x1 x2 t1 t2 : List NElem), (∀ x ∈ x1, x.isTy = false) → (∀ x ∈ x2, x.isTy = false) →
    (∀ x ∈ t1, x.isTy = true) → (∀ x ∈ t2, x.isTy = true) →
    (x1 ++ t1 = x2 ++ t2 ↔ x1 = x2 ∧ t1 = t2) := by
  intro x1
  induction x1 with
  | nil =>
    intro x2 t1 t2 _ h2 ht1 _
    cases x2 with
    | nil => simp
    | cons y x2 =>
      have hy : y.isTy = false := h2 y (by simp)
      constructor
      · intro h
        cases t1 with
        | nil => simp at h
        | cons t t1 =>
          simp only [List.nil_append, List.cons_append, List.cons.injEq] at h
          have := ht1 t (by simp)
          rw [h.1, hy] at this; simp at this
      · intro h; simp at h
  | cons x x1 ih =>
    intro x2 t1 t2 h1 h2 ht1 ht2
    have hx : x.isTy = false := h1 x (by simp)
    cases x2 with
    | nil =>
      constructor
      · intro h
        cases t2 with
        | nil => simp at h
        | cons t t2 =>
          simp only [List.nil_append, List.cons_append, List.cons.injEq] at h
          have := ht2 t (by simp)
          rw [← h.1, hx] at this; simp at this
      · intro h; simp at h
    | cons y x2 =>
      have := ih x2 t1 t2 (fun z hz => h1 z (by simp [hz])) (fun z hz => h2 z (by simp [hz])) ht1 ht2
      simp only [List.cons_append, List.cons.injEq, this]
      constructor
      · rintro ⟨h, h', h''⟩; exact ⟨⟨h, h'⟩, h''⟩
      · rintro ⟨⟨h, h'⟩, h''⟩; exact ⟨h, h', h''⟩

@[simp] theorem mark_norm : KElem.mark.norm = NElem.mark := rfl

def itemsK (kw : List (Nat × Arg)) : List KElem := kw.map fun kv => .item kv.1 kv.2

theorem item_norm_inj (s s' : Nat) (a a' : Arg) :
    (KElem.item s a).norm = (KElem.item s' a').norm ↔ s = s' ∧ a.norm = a'.norm := by
  cases a <;> cases a' <;> simp [KElem.norm, Arg.norm]

theorem item_norm_not_ty (s : Nat) (a : Arg) : (KElem.item s a).norm.isTy = false := by
  cases a <;> simp [KElem.norm, NElem.isTy]

/-- `(name, value)` items compare like the flattened `name, value` sequence -/
theorem items_flat : ∀ (k1 k2 : List (Nat × Arg)),
    ((itemsK k1).map KElem.norm = (itemsK k2).map KElem.norm ↔
     (flatKw k1).map KElem.norm = (flatKw k2).map KElem.norm) := by
  intro k1
  induction k1 with
  | nil => intro k2; cases k2 <;> simp [itemsK, flatKw]
  | cons kv k1 ih =>
    intro k2
    cases k2 with
    | nil => simp [itemsK, flatKw]
    | cons kv' k2 =>
      have := ih k2
      simp only [itemsK, List.map_cons, List.cons.injEq, flatKw] at this ⊢
      rw [item_norm_inj, this]
      simp only [KElem.norm, Arg.norm, Prim.norm, NElem.sc.injEq, NV.str.injEq]
      constructor
      · rintro ⟨⟨h, h'⟩, h''⟩; exact ⟨h, h', h''⟩
      · rintro ⟨h, h', h''⟩; exact ⟨⟨h, h'⟩, h''⟩

theorem args_no_mark (l : List Arg) : ∀ x ∈ (l.map KElem.arg).map KElem.norm, x ≠ NElem.mark := by
  intro x hx
  simp only [List.map_map, List.mem_map, Function.comp] at hx
  obtain ⟨a, _, rfl⟩ := hx
  exact Arg.norm_ne_mark a

theorem args_not_ty (l : List Arg) : ∀ x ∈ (l.map KElem.arg).map KElem.norm, x.isTy = false := by
  intro x hx
  simp only [List.map_map, List.mem_map, Function.comp] at hx
  obtain ⟨a, _, rfl⟩ := hx
  exact Arg.norm_not_ty a

theorem items_not_ty (k : List (Nat × Arg)) : ∀ x ∈ (itemsK k).map KElem.norm, x.isTy = false := by
  intro x hx
  simp only [itemsK, List.map_map, List.mem_map, Function.comp] at hx
  obtain ⟨a, _, rfl⟩ := hx
  exact item_norm_not_ty _ _

theorem flat_not_ty : ∀ (k : List (Nat × Arg)), ∀ x ∈ (flatKw k).map KElem.norm, x.isTy = false := by
  intro k
  induction k with
  | nil => intro x hx; simp [flatKw] at hx
  | cons kv k ih =>
    intro x hx
    simp only [flatKw, List.map_cons, List.mem_cons] at hx
    rcases hx with h | h | h
    · rw [h]; simp [KElem.norm, Arg.norm, NElem.isTy]
    · rw [h]; exact Arg.norm_not_ty _
    · exact ih x h

theorem tys_ty (l : List Ty) : ∀ x ∈ (l.map KElem.ty).map KElem.norm, x.isTy = true := by
  intro x hx
  simp only [List.map_map, List.mem_map, Function.comp] at hx
  obtain ⟨a, _, rfl⟩ := hx
  rfl

theorem tys_no_mark (l : List Ty) : ∀ x ∈ (l.map KElem.ty).map KElem.norm, x ≠ NElem.mark := by
  intro x hx
  simp only [List.map_map, List.mem_map, Function.comp] at hx
  obtain ⟨a, _, rfl⟩ := hx
  simp [KElem.norm]

/-- the type suffix of a pattern, as a list of types -/
def Pattern.tyList (typed : Bool) (p : Pattern) : List Ty :=
  if typed then p.args.map Arg.ty ++ p.kwds.map (fun kv => kv.2.ty) else []

/-- normal form of the asyncstdlib key of a pattern with keywords -/
theorem asKey_kw (typed : Bool) (p : Pattern) (h : p.kwds ≠ []) :
    (asKey typed p).norm = .seq ((p.args.map KElem.arg).map KElem.norm ++ NElem.mark ::
      ((itemsK p.kwds).map KElem.norm ++ ((p.tyList typed).map KElem.ty).map KElem.norm)) := by
  have he : p.kwds.isEmpty = false := by cases hk : p.kwds <;> simp_all
  unfold asKey
  simp only [he, Bool.false_eq_true, if_false]
  cases typed with
  | true =>
    simp [Key.norm, Pattern.tyList, Pattern.argTys, Pattern.kwTys, itemsK, List.map_append, Function.comp_def]
  | false =>
    simp only [Bool.false_eq_true, if_false, Pattern.tyList, List.map_nil, List.append_nil]
    cases hk : p.kwds with
    | nil => exact absurd hk h
    | cons kv r =>
      cases ha : p.args with
      | nil => simp [Key.norm, itemsK]
      | cons a l =>
        cases l with
        | nil => simp [Key.norm, itemsK]
        | cons b l => simp [Key.norm, itemsK]

/-- normal form of the functools key of a pattern with keywords -/
theorem ftKey_kw (typed : Bool) (p : Pattern) (h : p.kwds ≠ []) :
    (ftKey typed p).norm = .seq ((p.args.map KElem.arg).map KElem.norm ++ NElem.mark ::
      ((flatKw p.kwds).map KElem.norm ++ ((p.tyList typed).map KElem.ty).map KElem.norm)) := by
  have he : p.kwds.isEmpty = false := by cases hk : p.kwds <;> simp_all
  unfold ftKey
  simp only [he, Bool.and_false, Bool.false_eq_true, if_false]
  cases typed with
  | true =>
    simp [Key.norm, Pattern.tyList, Pattern.argTys, Pattern.kwTys, List.map_append, Function.comp_def]
  | false =>
    simp [Key.norm, Pattern.tyList]

/-- without keywords the two constructions coincide -/
theorem key_nokw (typed : Bool) (p : Pattern) (h : p.kwds = []) : asKey typed p = ftKey typed p := by
  have he : p.kwds.isEmpty = true := by simp [h]
  unfold asKey ftKey
  simp only [he, if_true, Bool.and_true]
  cases typed with
  | true => simp
  | false =>
    simp only [Bool.false_eq_true, if_false, Bool.not_false, if_true]
    cases ha : p.args with
    | nil => simp
    | cons a l =>
      cases l with
      | nil =>
        cases a with
        | prim q => cases q <;> simp
        | tup t => simp
      | cons b l => simp

/-- a key built without keywords contains no marker -/
theorem nokw_no_mark (typed : Bool) (p : Pattern) (h : p.kwds = []) :
    (∃ v, (ftKey typed p).norm = .bare v) ∨
    (∃ l, (ftKey typed p).norm = .seq l ∧ ∀ x ∈ l, x ≠ NElem.mark) := by
  have he : p.kwds.isEmpty = true := by simp [h]
  unfold ftKey
  simp only [he, Bool.and_true, if_true]
  cases typed with
  | true =>
    right
    refine ⟨_, by simp only [Bool.not_true, Bool.false_eq_true, if_false, if_true, Key.norm]; rfl, ?_⟩
    intro x hx
    simp only [List.append_nil, List.map_append, List.mem_append] at hx
    rcases hx with hx | hx
    · exact args_no_mark _ x hx
    · have : p.argTys = (p.args.map Arg.ty).map KElem.ty := by simp [Pattern.argTys]
      rw [this] at hx
      exact tys_no_mark _ x hx
  | false =>
    simp only [Bool.not_false, if_true]
    split
    · left; exact ⟨_, rfl⟩
    · left; exact ⟨_, rfl⟩
    · right
      refine ⟨_, rfl, ?_⟩
      exact args_no_mark _

theorem kw_has_mark (l r : List NElem) : NElem.mark ∈ l ++ NElem.mark :: r := by simp

/-- **key equivalence**: asyncstdlib's `CallKey.from_call` and CPython's `lru_cache_make_key`
    identify exactly the same pairs of call patterns -/
theorem key_equiv (typed : Bool) (p q : Pattern) :
    ((asKey typed p).norm = (asKey typed q).norm) ↔ ((ftKey typed p).norm = (ftKey typed q).norm) := by
  by_cases hp : p.kwds = []
  · by_cases hq : q.kwds = []
    · rw [key_nokw typed p hp, key_nokw typed q hq]
    · rw [key_nokw typed p hp, asKey_kw typed q hq, ftKey_kw typed q hq]
      rcases nokw_no_mark typed p hp with ⟨v, hv⟩ | ⟨l, hl, hm⟩
      · rw [hv]; simp
      · rw [hl]
        constructor
        · intro h
          simp only [NKey.seq.injEq] at h
          exact absurd (h ▸ kw_has_mark _ _) (fun hmem => hm _ hmem rfl)
        · intro h
          simp only [NKey.seq.injEq] at h
          exact absurd (h ▸ kw_has_mark _ _) (fun hmem => hm _ hmem rfl)
  · by_cases hq : q.kwds = []
    · rw [key_nokw typed q hq, asKey_kw typed p hp, ftKey_kw typed p hp]
      rcases nokw_no_mark typed q hq with ⟨v, hv⟩ | ⟨l, hl, hm⟩
      · rw [hv]; simp
      · rw [hl]
        constructor
        · intro h
          simp only [NKey.seq.injEq] at h
          exact absurd (h ▸ kw_has_mark _ _) (fun hmem => hm _ hmem rfl)
        · intro h
          simp only [NKey.seq.injEq] at h
          exact absurd (h ▸ kw_has_mark _ _) (fun hmem => hm _ hmem rfl)
    · rw [asKey_kw typed p hp, asKey_kw typed q hq, ftKey_kw typed p hp, ftKey_kw typed q hq]
      simp only [NKey.seq.injEq]
      rw [split_mark _ _ _ _ (args_no_mark _) (args_no_mark _),
          split_mark _ _ _ _ (args_no_mark _) (args_no_mark _),
          split_ty _ _ _ _ (items_not_ty _) (items_not_ty _) (tys_ty _) (tys_ty _),
          split_ty _ _ _ _ (flat_not_ty _) (flat_not_ty _) (tys_ty _) (tys_ty _),
          items_flat]

theorem eqv_eq (typed : Bool) : Impl.eqv typed = Spec.eqv typed := by
  funext p q
  simp only [Impl.eqv, Spec.eqv]
  exact decide_eq_decide.mpr (key_equiv typed p q)

end AsyncVerif.Lru
