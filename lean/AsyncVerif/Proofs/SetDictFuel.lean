import AsyncVerif.Proofs.FuelAdequate
import AsyncVerif.Proofs.SetDict
/-!
# fuel adequacy for `set` / `dict`
-/
namespace AsyncVerif

theorem setLoop_triple (s : Nat) : ∀ fuel (acc : List Val),
    Triple (fun w => slen s w < fuel) (Std.setLoop s acc fuel) (fun _ _ => True) := by
  intro fuel
  induction fuel with
  | zero => intro t; exact Triple.zero_fuel s _ _
  | succ n ih =>
    intro t
    unfold Std.setLoop
    refine Triple.bind_pull_lt s n ?_ ?_
    · tpure
    · intro x
      refine Triple.ite (ih _) (Triple.raise _ (by decide))

theorem unpackPair_ne_oof (x : Val) : Std.unpackPair x ≠ .error .outOfFuel := by
  unfold Std.unpackPair; split <;> simp

theorem dictLoop_triple (s : Nat) : ∀ fuel (acc : List (Val × Val)),
    Triple (fun w => slen s w < fuel) (Std.dictLoop s acc fuel) (fun _ _ => True) := by
  intro fuel
  induction fuel with
  | zero => intro t; exact Triple.zero_fuel s _ _
  | succ n ih =>
    intro t
    unfold Std.dictLoop
    refine Triple.bind_pull_lt s n ?_ ?_
    · tpure
    · intro x
      refine Triple.bind_tame (Tame.liftExc _ (unpackPair_ne_oof x)) (Stable.slen_lt _ _) ?_
      intro p
      rcases p with ⟨k, v⟩
      exact Triple.ite (ih _) (Triple.raise _ (by decide))

theorem set_fuel_adequate (s : Nat) (w : World) :
    ∀ fuel, fuel ≥ fuelBound1 s w → (Impl.set s fuel w).1 ≠ .error .outOfFuel := by
  intro fuel h
  unfold Impl.set Std.set
  refine scoped_adequate (Q := fun _ _ => True) ?_ h
  exact Triple.bind (setLoop_triple s fuel []) (fun _ => Triple.pure _ (fun _ _ => trivial))

theorem dict_fuel_adequate (s : Nat) (w : World) :
    ∀ fuel, fuel ≥ fuelBound1 s w → (Impl.dict s fuel w).1 ≠ .error .outOfFuel := by
  intro fuel h
  unfold Impl.dict Std.dict
  refine scoped_adequate (Q := fun _ _ => True) ?_ h
  exact Triple.bind (dictLoop_triple s fuel []) (fun _ => Triple.pure _ (fun _ _ => trivial))

end AsyncVerif
