import AsyncVerif.Machines.GroupBy
namespace AsyncVerif.GroupBy

/-- invariant of reachable states -/
structure Inv (s : St) : Prop where
  consumed : s.cur = none → s.curKey = none ∨ s.tgt = s.curKey
  haskey : s.cur.isSome → s.curKey.isSome
  notgt : s.curKey = none → s.tgt = none
  grpTgt : ∀ g, s.grp = some g → s.groups[g]? = s.tgt ∧ s.tgt.isSome

/-- the loop equations in the shape the Python / C source has them -/
theorem scanI_eq (t : Key) (s : St) : scanI t s =
    if s.curKey = some t then
      match s.items with
      | [] => (s, false)
      | (v, k) :: r => scanI t { s with items := r, cur := some v, curKey := some k }
    else (s, true) := by
  obtain ⟨items, cur, curKey, tgt, grp, groups⟩ := s
  cases items with
  | nil => simp only [scanI, scanL]
  | cons p r => obtain ⟨v, k⟩ := p; simp only [scanI, scanL]

theorem loopS_eq (s : St) : loopS s =
    match s.curKey with
    | none =>
      (match s.items with
       | [] => (s, false)
       | (v, k) :: r => loopS { s with items := r, cur := some v, curKey := some k })
    | some ck =>
      match s.tgt with
      | none => (s, true)
      | some t =>
        if t = ck then
          (match s.items with
           | [] => (s, false)
           | (v, k) :: r => loopS { s with items := r, cur := some v, curKey := some k })
        else (s, true) := by
  obtain ⟨items, cur, curKey, tgt, grp, groups⟩ := s
  cases items with
  | nil => simp only [loopS, loopL]; cases curKey <;> cases tgt <;> simp
  | cons p r => obtain ⟨v, k⟩ := p; simp only [loopS, loopL]; cases curKey <;> cases tgt <;> simp

theorem loop_eq_scan (t : Key) : ∀ (n : Nat) (s : St), s.items.length = n → s.curKey.isSome → s.tgt = some t →
    loopS s = scanI t s := by
  intro n
  induction n with
  | zero =>
    intro s hn hk ht
    have hi : s.items = [] := List.eq_nil_of_length_eq_zero hn
    obtain ⟨ck, hck⟩ := Option.isSome_iff_exists.mp hk
    rw [loopS_eq, scanI_eq]
    simp only [hck, ht]
    by_cases h : t = ck
    · subst h; simp; split <;> simp_all
    · have : ¬ (some ck = some t) := by intro h'; exact h (Option.some.inj h').symm
      simp [h, this]
  | succ n ih =>
    intro s hn hk ht
    obtain ⟨ck, hck⟩ := Option.isSome_iff_exists.mp hk
    rw [loopS_eq, scanI_eq]
    simp only [hck, ht]
    by_cases h : t = ck
    · subst h
      simp only [if_true]
      split
      · rename_i heq; simp [heq] at hn
      · rename_i v k r heq
        exact ih _ (by simp [heq] at hn; simpa using hn) (by simp) (by simp)
    · have : ¬ (some ck = some t) := by intro h'; exact h (Option.some.inj h').symm
      simp [h, this]

theorem adv_eq (s : St) (hinv : Inv s) : advI s = advS s := by
  unfold advI advS
  cases hcur : s.cur with
  | some v =>
    have hk : s.curKey.isSome := hinv.haskey (by simp [hcur])
    obtain ⟨ck, hck⟩ := Option.isSome_iff_exists.mp hk
    simp only [hcur, Option.isNone_some, Bool.false_eq_true, if_false]
    cases ht : s.tgt with
    | none =>
      rw [loopS_eq]; simp [hck, ht]
    | some t =>
      simp only [ht]
      have := loop_eq_scan t _ { items := s.items, cur := some v, curKey := s.curKey, tgt := some t, grp := none, groups := s.groups } rfl (by simpa using hk) rfl
      rw [this]
  | none =>
    simp only [hcur, Option.isNone_none, if_true]
    cases hi : s.items with
    | nil =>
      unfold step; rw [loopS_eq]
      simp only [hi]
      cases hck : s.curKey with
      | none => simp [hi]
      | some ck =>
        have : s.tgt = some ck := by
          rcases hinv.consumed hcur with h | h
          · simp [hck] at h
          · rw [h, hck]
        simp [this, hi]
    | cons p r =>
      obtain ⟨v, k⟩ := p
      unfold step
      simp only [hi]
      cases ht : s.tgt with
      | none =>
        have hck : s.curKey = none := by
          rcases hinv.consumed hcur with h | h
          · exact h
          · rw [← h, ht]
        rw [loopS_eq]
        simp only [hck, hi]
        rw [loopS_eq]
      | some t =>
        have hck : s.curKey = some t := by
          rcases hinv.consumed hcur with h | h
          · have := hinv.notgt h; simp [ht] at this
          · rw [← h, ht]
        rw [loopS_eq]
        simp only [hck, hi, if_true]
        have := loop_eq_scan t _ { items := r, cur := some v, curKey := some k, tgt := some t, grp := none, groups := s.groups } rfl (by simp) rfl
        rw [this]

theorem step_eq (s : St) (hinv : Inv s) (op : Op) : stepI s op = stepS s op := by
  cases op with
  | adv => exact adv_eq s hinv
  | grpNext g => rfl
  | grpClose g => rfl

/-- scanning keeps everything but items/cur/curKey, and ends with a value and a key -/
theorem scanI_spec (t : Key) : ∀ (n : Nat) (s : St), s.items.length = n → s.cur.isSome → s.curKey.isSome →
    let r := scanI t s
    r.1.tgt = s.tgt ∧ r.1.grp = s.grp ∧ r.1.groups = s.groups ∧ r.1.cur.isSome ∧ r.1.curKey.isSome ∧
    (r.2 = false → r.1.curKey = some t) := by
  intro n
  induction n with
  | zero =>
    intro s hn hc hk
    have hi : s.items = [] := List.eq_nil_of_length_eq_zero hn
    rw [scanI_eq]
    by_cases h : s.curKey = some t
    · simp only [h, if_true]
      split
      · simp_all
      · rename_i heq; simp [heq] at hn
    · simp_all
  | succ n ih =>
    intro s hn hc hk
    rw [scanI_eq]
    by_cases h : s.curKey = some t
    · simp only [h, if_true]
      split
      · simp_all
      · rename_i v k r heq
        have := ih { s with items := r, cur := some v, curKey := some k }
          (by simp [heq] at hn; simpa using hn) (by simp) (by simp)
        simpa using this
    · simp_all

/-- scanning never touches the group bookkeeping -/
theorem scanI_frame (t : Key) : ∀ (n : Nat) (s : St), s.items.length = n →
    (scanI t s).1.grp = s.grp ∧ (scanI t s).1.groups = s.groups := by
  intro n
  induction n with
  | zero =>
    intro s hn
    rw [scanI_eq]
    split
    · split
      · simp
      · rename_i heq; simp [heq] at hn
    · simp
  | succ n ih =>
    intro s hn
    rw [scanI_eq]
    split
    · split
      · simp
      · rename_i v k r heq
        have := ih { s with items := r, cur := some v, curKey := some k }
          (by simp [heq] at hn; simpa using hn)
        simpa using this
    · simp

theorem step_frame {s s1 : St} (hs : step s = some s1) : s1.grp = s.grp ∧ s1.groups = s.groups := by
  unfold step at hs
  split at hs
  · simp at hs
  · simp only [Option.some.injEq] at hs; subst hs; simp

theorem finish_grp (s : St) : (finish s).1.grp = s.grp ∨ (finish s).1.grp = some s.groups.length := by
  unfold finish; split <;> simp

theorem advI_grp (s : St) : (advI s).1.grp = none ∨ (advI s).1.grp = some s.groups.length := by
  unfold advI
  generalize hs0 : ({ s with grp := none } : St) = s0
  have hg0 : s0.grp = none ∧ s0.groups = s.groups := by subst hs0; exact ⟨rfl, rfl⟩
  simp only
  cases hm : (if s0.cur.isNone then step s0 else some s0) with
  | none => left; exact hg0.1
  | some s1 =>
    have hs1 : s1.grp = none ∧ s1.groups = s.groups := by
      by_cases hc : s0.cur.isNone
      · simp only [hc, if_true] at hm
        have := step_frame hm
        exact ⟨this.1.trans hg0.1, this.2.trans hg0.2⟩
      · simp only [hc, Bool.false_eq_true, if_false, Option.some.injEq] at hm; subst hm; exact hg0
    simp only
    cases ht : s1.tgt with
    | none =>
      rcases finish_grp s1 with h | h
      · left; rw [h, hs1.1]
      · right; rw [h, hs1.2]
    | some t =>
      simp only
      have fr := scanI_frame t _ s1 rfl
      rcases hsc : scanI t s1 with ⟨s2, b⟩
      rw [hsc] at fr
      simp only at fr
      cases b with
      | false => left; simp only; rw [fr.1, hs1.1]
      | true =>
        simp only
        rcases finish_grp s2 with h | h
        · left; rw [h, fr.1, hs1.1]
        · right; rw [h, fr.2, hs1.2]

theorem finish_inv (s : St) (hc : s.cur.isSome) (hk : s.curKey.isSome) : Inv (finish s).1 := by
  obtain ⟨k, hk'⟩ := Option.isSome_iff_exists.mp hk
  unfold finish
  simp only [hk']
  constructor
  · intro h; have h' : s.cur = none := h; simp [h'] at hc
  · intro _; rfl
  · intro h; simp at h
  · intro g hg
    simp only [Option.some.injEq] at hg
    subst hg
    simp

theorem Inv.setGrpNone {s : St} (h : Inv s) : Inv { s with grp := none } :=
  ⟨h.consumed, h.haskey, h.notgt, by intro g hg; simp at hg⟩

theorem step_some_inv {s s1 : St} (h : Inv s) (hs : step s = some s1) :
    s1.cur.isSome ∧ s1.curKey.isSome ∧ s1.tgt = s.tgt ∧ s1.grp = s.grp ∧ s1.groups = s.groups := by
  unfold step at hs
  split at hs
  · simp at hs
  · simp only [Option.some.injEq] at hs; subst hs; simp

theorem advI_inv (s : St) (hinv : Inv s) : Inv (advI s).1 := by
  unfold advI
  have h0 := hinv.setGrpNone
  generalize hs0 : ({ s with grp := none } : St) = s0 at h0
  have hg0 : s0.grp = none := by subst hs0; rfl
  simp only
  cases hm : (if s0.cur.isNone then step s0 else some s0) with
  | none => simpa using h0
  | some s1 =>
    have hs1 : s1.cur.isSome ∧ s1.curKey.isSome ∧ s1.tgt = s0.tgt ∧ s1.grp = s0.grp ∧ s1.groups = s0.groups := by
      by_cases hc : s0.cur.isNone
      · simp only [hc, if_true] at hm; exact step_some_inv h0 hm
      · simp only [hc] at hm
        simp only [Bool.false_eq_true, if_false, Option.some.injEq] at hm; subst hm
        have : s0.cur.isSome := by cases h : s0.cur <;> simp_all
        exact ⟨this, h0.haskey this, rfl, rfl, rfl⟩
    simp only
    cases ht : s1.tgt with
    | none => exact finish_inv s1 hs1.1 hs1.2.1
    | some t =>
      simp only
      have sp := scanI_spec t _ s1 rfl hs1.1 hs1.2.1
      rcases hsc : scanI t s1 with ⟨s2, b⟩
      rw [hsc] at sp
      simp only at sp
      cases b with
      | true => exact finish_inv s2 sp.2.2.2.1 sp.2.2.2.2.1
      | false =>
        simp only
        have hk2 := sp.2.2.2.2.2 rfl
        constructor
        · intro h; rw [h] at sp; simp at sp
        · intro _; exact sp.2.2.2.2.1
        · intro h; rw [h] at hk2; simp at hk2
        · intro g hg; rw [sp.2.1, hs1.2.2.2.1, hg0] at hg; simp at hg

theorem grpNext_inv (s : St) (hinv : Inv s) (g : Nat) : Inv (grpNext s g).1 := by
  unfold grpNext
  by_cases hg : s.grp ≠ some g
  · rw [if_pos hg]; exact hinv
  · rw [if_neg hg]
    have hg' : s.grp = some g := by simpa using hg
    cases hm : (if s.cur.isNone then step s else some s) with
    | none => exact hinv
    | some s1 =>
      have hs1 : s1.cur.isSome ∧ s1.curKey.isSome ∧ s1.tgt = s.tgt ∧ s1.grp = s.grp ∧ s1.groups = s.groups := by
        by_cases hc : s.cur.isNone
        · simp only [hc, if_true] at hm; exact step_some_inv hinv hm
        · simp only [hc] at hm
          simp only [Bool.false_eq_true, if_false, Option.some.injEq] at hm; subst hm
          have : s.cur.isSome := by cases h : s.cur <;> simp_all
          exact ⟨this, hinv.haskey this, rfl, rfl, rfl⟩
      have hI1 : Inv s1 := by
        constructor
        · intro h; rw [h] at hs1; simp at hs1
        · intro _; exact hs1.2.1
        · intro h; rw [h] at hs1; simp at hs1
        · intro g' hg2; rw [hs1.2.2.2.1] at hg2; rw [hs1.2.2.2.2, hs1.2.2.1]; exact hinv.grpTgt g' hg2
      simp only
      by_cases hk : s.groups[g]? ≠ s1.curKey
      · rw [if_pos hk]; exact hI1
      · rw [if_neg hk]
        have hk' : s.groups[g]? = s1.curKey := by simpa using hk
        cases hc1 : s1.cur with
        | none => exact hI1
        | some v =>
          simp only
          have htg := (hinv.grpTgt g hg').1
          constructor
          · intro _; right; show s1.tgt = s1.curKey; rw [hs1.2.2.1, ← htg, hk']
          · intro h; simp at h
          · intro h; show s1.tgt = none; exact hI1.notgt h
          · intro g' hg2; exact hI1.grpTgt g' hg2

theorem stepI_inv (s : St) (hinv : Inv s) (op : Op) : Inv (stepI s op).1 := by
  cases op with
  | adv => exact advI_inv s hinv
  | grpNext g => exact grpNext_inv s hinv g
  | grpClose g =>
    show Inv (grpClose s g)
    unfold grpClose; split
    · exact hinv.setGrpNone
    · exact hinv

theorem init_inv (items : List (Val × Key)) : Inv (init items) := by
  constructor <;> simp [init]

theorem run_eq : ∀ (ops : List Op) (s : St), Inv s → run stepI s ops = run stepS s ops := by
  intro ops
  induction ops with
  | nil => intro s _; rfl
  | cons op rest ih =>
    intro s hinv
    simp only [run]
    rw [← step_eq s hinv op]
    rw [ih _ (stepI_inv s hinv op)]

end AsyncVerif.GroupBy
