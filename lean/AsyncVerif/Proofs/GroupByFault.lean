import AsyncVerif.Machines.GroupByFault
import AsyncVerif.Proofs.GroupBy
/-!
# groupby under faults: simulation asyncstdlib ↔ CPython, agreement with the fault-free machines, dropped items
-/
namespace AsyncVerif.GroupByFault
open AsyncVerif.GroupBy (Val Key Op)

/-! ## Part A — the two machines agree on every reachable state -/

/-- invariant of reachable states (the one of `GroupBy.Inv`; it does not mention the script) -/
structure Inv (s : St) : Prop where
  consumed : s.cur = none → s.curKey = none ∨ s.tgt = s.curKey
  haskey : s.cur.isSome → s.curKey.isSome
  notgt : s.curKey = none → s.tgt = none
  grpTgt : ∀ g, s.grp = some g → s.groups[g]? = s.tgt ∧ s.tgt.isSome

theorem Inv.setScript {s : St} (h : Inv s) (l : List Resp) : Inv { s with script := l } :=
  ⟨h.consumed, h.haskey, h.notgt, h.grpTgt⟩

theorem Inv.setGrpNone {s : St} (h : Inv s) : Inv { s with grp := none } :=
  ⟨h.consumed, h.haskey, h.notgt, by intro g hg; simp at hg⟩

/-- a state holding a value (with its key) and no current group is consistent -/
theorem inv_of_cur {s : St} (hc : s.cur.isSome) (hk : s.curKey.isSome) (hg : s.grp = none) : Inv s := by
  constructor
  · intro h; rw [h] at hc; simp at hc
  · intro _; exact hk
  · intro h; rw [h] at hk; simp at hk
  · intro g h; rw [hg] at h; simp at h

theorem stepOn_script (x : Resp) (r : List Resp) (s : St) : (stepOn x r s).1.script = r := by
  cases x <;> rfl

/-- a raising step changes nothing but the script -/
theorem stepOn_exc {x : Resp} {r : List Resp} {s s1 : St} {e : Exc} (h : stepOn x r s = (s1, some e)) :
    s1 = { s with script := r } := by
  cases x <;> simp [stepOn] at h <;> exact h.1.symm

/-- a successful step stores a value and its key and changes nothing else but the script -/
theorem stepOn_ok {x : Resp} {r : List Resp} {s s1 : St} (h : stepOn x r s = (s1, none)) :
    ∃ v k, x = .item v k ∧ s1 = { s with script := r, cur := some v, curKey := some k } := by
  cases x <;> simp [stepOn] at h
  exact ⟨_, _, rfl, h.symm⟩

theorem mustStep_iff {s : St} {t : Key} (hk : s.curKey.isSome) (ht : s.tgt = some t) :
    mustStep s = true ↔ s.curKey = some t := by
  obtain ⟨ck, hck⟩ := Option.isSome_iff_exists.mp hk
  simp only [mustStep, hck, ht, decide_eq_true_eq, Option.some.injEq]
  exact eq_comm

theorem loopL_break {s : St} (h : mustStep s = false) (l : List Resp) :
    loopL l s = ({ s with script := l }, .found) := by
  cases l <;> simp [loopL, h]

/-- with a target key and a current key, CPython's loop is asyncstdlib's scan — faults included -/
theorem loopL_eq_scanL (t : Key) : ∀ (l : List Resp) (s : St), s.curKey.isSome → s.tgt = some t →
    loopL l s = scanL t l s := by
  intro l
  induction l with
  | nil =>
    intro s hk ht
    have := mustStep_iff hk ht
    by_cases h : s.curKey = some t
    · simp [loopL, scanL, h, this.mpr h]
    · have hm : mustStep s = false := by
        cases hms : mustStep s with
        | false => rfl
        | true => exact absurd (this.mp hms) h
      simp [loopL, scanL, h, hm]
  | cons x r ih =>
    intro s hk ht
    have := mustStep_iff hk ht
    by_cases h : s.curKey = some t
    · simp only [loopL, scanL, h, this.mpr h, if_true]
      cases x with
      | item v k => exact ih _ (by simp) (by simpa [stepOn] using ht)
      | keyErr v e => rfl
      | srcErr e => rfl
    · have hm : mustStep s = false := by
        cases hms : mustStep s with
        | false => rfl
        | true => exact absurd (this.mp hms) h
      simp [loopL, scanL, h, hm]

theorem adv_eq (s : St) (hinv : Inv s) : advI s = advS s := by
  obtain ⟨script, cur, curKey, tgt, grp, groups⟩ := s
  have hcons := hinv.consumed
  have hhas := hinv.haskey
  have hnot := hinv.notgt
  simp only at hcons hhas hnot
  unfold advI advS
  cases cur with
  | some v =>
    obtain ⟨ck, hck⟩ := Option.isSome_iff_exists.mp (hhas rfl)
    subst hck
    simp only [maybeStep, Option.isNone_some, Bool.false_eq_true, if_false, loopS]
    cases tgt with
    | none =>
      rw [loopL_break (by simp [mustStep])]
    | some t =>
      simp only
      rw [loopL_eq_scanL t _ _ (by simp) rfl]
      rfl
  | none =>
    have hms : mustStep ⟨script, none, curKey, tgt, none, groups⟩ = true := by
      rcases hcons rfl with h | h
      · subst h; simp [mustStep]
      · subst h
        cases tgt with
        | none => simp [mustStep]
        | some ck => simp [mustStep]
    simp only [maybeStep, Option.isNone_none, if_true, loopS, step]
    cases script with
    | nil => simp [loopL, hms]
    | cons x r =>
      simp only [loopL, hms, if_true]
      cases x with
      | keyErr v e => rfl
      | srcErr e => rfl
      | item v k =>
        simp only [stepOn]
        cases tgt with
        | none => rw [loopL_break (by simp [mustStep])]
        | some t =>
          simp only
          rw [loopL_eq_scanL t _ _ (by simp) rfl]
          rfl

theorem grpNext_eq (s : St) (g : Nat) : grpNextI s g = grpNextS s g := by
  unfold grpNextI grpNextS maybeStep
  cases hc : s.cur with
  | none => simp
  | some v => simp [hc]

theorem step_eq (s : St) (hinv : Inv s) (op : Op) : stepIF s op = stepSF s op := by
  cases op with
  | adv => exact adv_eq s hinv
  | grpNext g => exact grpNext_eq s g
  | grpClose g => rfl

/-- scanning keeps the group bookkeeping and the target, and ends (however it ends) with a value and a key -/
theorem scanL_spec (t : Key) : ∀ (l : List Resp) (s : St), s.cur.isSome → s.curKey.isSome →
    (scanL t l s).1.tgt = s.tgt ∧ (scanL t l s).1.grp = s.grp ∧ (scanL t l s).1.groups = s.groups ∧
    (scanL t l s).1.cur.isSome ∧ (scanL t l s).1.curKey.isSome := by
  intro l
  induction l with
  | nil => intro s hc hk; simp only [scanL]; split <;> exact ⟨rfl, rfl, rfl, hc, hk⟩
  | cons x r ih =>
    intro s hc hk
    simp only [scanL]
    split
    · cases x with
      | item v k => simpa [stepOn] using ih { s with script := r, cur := some v, curKey := some k } rfl rfl
      | keyErr v e => exact ⟨rfl, rfl, rfl, hc, hk⟩
      | srcErr e => exact ⟨rfl, rfl, rfl, hc, hk⟩
    · exact ⟨rfl, rfl, rfl, hc, hk⟩

theorem finish_inv (s : St) (hc : s.cur.isSome) (hk : s.curKey.isSome) : Inv (finish s).1 := by
  obtain ⟨k, hk'⟩ := Option.isSome_iff_exists.mp hk
  unfold finish
  simp only [hk']
  constructor
  · intro h; have h' : s.cur = none := h; simp [h'] at hc
  · intro _; rfl
  · intro h; simp at h
  · intro g hg
    simp only [Option.some.injEq] at hg
    subst hg
    simp

/-- what `maybe_step` can do to a consistent state -/
theorem maybeStep_cases (s : St) :
    maybeStep s = .stop ∨
    (∃ e r, maybeStep s = .exc { s with script := r } e) ∨
    (∃ s1, maybeStep s = .ok s1 ∧ s1.cur.isSome ∧ (s.cur.isSome → s1 = s) ∧
      (s.cur = none → ∃ v k r, s1 = { s with script := r, cur := some v, curKey := some k })) := by
  obtain ⟨script, cur, curKey, tgt, grp, groups⟩ := s
  unfold maybeStep
  cases cur with
  | some v =>
    right; right
    exact ⟨_, by simp, by simp, fun _ => rfl, fun h => by simp at h⟩
  | none =>
    simp only [Option.isNone_none, if_true, step]
    cases script with
    | nil => left; rfl
    | cons x r =>
      cases x with
      | item v k =>
        right; right
        exact ⟨_, rfl, rfl, fun h => by simp at h, fun _ => ⟨v, k, r, rfl⟩⟩
      | keyErr v e => right; left; exact ⟨e, r, rfl⟩
      | srcErr e => right; left; exact ⟨e, r, rfl⟩

theorem advI_inv (s : St) (hinv : Inv s) : Inv (advI s).1 := by
  unfold advI
  have h0 := hinv.setGrpNone
  generalize hs0 : ({ s with grp := none } : St) = s0 at h0
  have hg0 : s0.grp = none := by subst hs0; rfl
  simp only
  rcases maybeStep_cases s0 with h | ⟨e, r, h⟩ | ⟨s1, h, hc1, hsame, hnew⟩
  · rw [h]; exact h0
  · rw [h]; exact h0.setScript r
  · rw [h]
    have hs1 : s1.curKey.isSome ∧ s1.grp = none := by
      cases hc : s0.cur with
      | some v =>
        have := hsame (by simp [hc]); subst this
        exact ⟨h0.haskey (by simp [hc]), hg0⟩
      | none =>
        obtain ⟨v, k, r, hv⟩ := hnew hc
        subst hv; exact ⟨rfl, hg0⟩
    simp only
    cases ht : s1.tgt with
    | none => exact finish_inv s1 hc1 hs1.1
    | some t =>
      simp only
      have sp := scanL_spec t s1.script s1 hc1 hs1.1
      unfold scanI
      rcases hsc : scanL t s1.script s1 with ⟨s2, b⟩
      rw [hsc] at sp
      simp only at sp
      cases b with
      | found => exact finish_inv s2 sp.2.2.2.1 sp.2.2.2.2
      | stop => exact inv_of_cur sp.2.2.2.1 sp.2.2.2.2 (sp.2.1.trans hs1.2)
      | exc e => exact inv_of_cur sp.2.2.2.1 sp.2.2.2.2 (sp.2.1.trans hs1.2)

theorem grpNextI_inv (s : St) (hinv : Inv s) (g : Nat) : Inv (grpNextI s g).1 := by
  unfold grpNextI
  by_cases hg : s.grp ≠ some g
  · rw [if_pos hg]; exact hinv
  · rw [if_neg hg]
    have hg' : s.grp = some g := by simpa using hg
    rcases maybeStep_cases s with h | ⟨e, r, h⟩ | ⟨s1, h, hc1, hsame, hnew⟩
    · rw [h]; exact hinv
    · rw [h]; exact hinv.setScript r
    · rw [h]
      have hs1 : s1.curKey.isSome ∧ s1.tgt = s.tgt ∧ s1.grp = s.grp ∧ s1.groups = s.groups := by
        cases hc : s.cur with
        | some v =>
          have := hsame (by simp [hc]); subst this
          exact ⟨hinv.haskey (by simp [hc]), rfl, rfl, rfl⟩
        | none =>
          obtain ⟨v, k, r, hv⟩ := hnew hc
          subst hv; exact ⟨rfl, rfl, rfl, rfl⟩
      have hI1 : Inv s1 := by
        constructor
        · intro h; rw [h] at hc1; simp at hc1
        · intro _; exact hs1.1
        · intro h; rw [h] at hs1; simp at hs1
        · intro g' hg2; rw [hs1.2.2.1] at hg2; rw [hs1.2.2.2, hs1.2.1]; exact hinv.grpTgt g' hg2
      simp only
      by_cases hk : s.groups[g]? ≠ s1.curKey
      · rw [if_pos hk]; exact hI1
      · rw [if_neg hk]
        have hk' : s.groups[g]? = s1.curKey := by simpa using hk
        cases hcv : s1.cur with
        | none => exact hI1
        | some v =>
          simp only
          have htg := (hinv.grpTgt g hg').1
          constructor
          · intro _; right; show s1.tgt = s1.curKey; rw [hs1.2.1, ← htg, hk']
          · intro h; simp at h
          · intro h; show s1.tgt = none; exact hI1.notgt h
          · intro g' hg2; exact hI1.grpTgt g' hg2

theorem stepIF_inv (s : St) (hinv : Inv s) (op : Op) : Inv (stepIF s op).1 := by
  cases op with
  | adv => exact advI_inv s hinv
  | grpNext g => exact grpNextI_inv s hinv g
  | grpClose g =>
    show Inv (grpClose s g)
    unfold grpClose; split
    · exact hinv.setGrpNone
    · exact hinv

theorem init_inv (script : List Resp) : Inv (init script) := by
  constructor <;> simp [init]

theorem run_eq : ∀ (ops : List Op) (s : St), Inv s → run stepIF s ops = run stepSF s ops := by
  intro ops
  induction ops with
  | nil => intro s _; rfl
  | cons op rest ih =>
    intro s hinv
    simp only [run]
    rw [← step_eq s hinv op]
    rw [ih _ (stepIF_inv s hinv op)]

theorem remaining_eq : ∀ (ops : List Op) (s : St), Inv s → remaining stepIF s ops = remaining stepSF s ops := by
  intro ops
  induction ops with
  | nil => intro s _; rfl
  | cons op rest ih =>
    intro s hinv
    simp only [remaining]
    rw [← step_eq s hinv op]
    rw [ih _ (stepIF_inv s hinv op)]

/-- the state after a whole operation sequence -/
def final (f : St → Op → St × Out) : St → List Op → St
  | s, [] => s
  | s, op :: ops => final f (f s op).1 ops

theorem final_eq : ∀ (ops : List Op) (s : St), Inv s → final stepIF s ops = final stepSF s ops := by
  intro ops
  induction ops with
  | nil => intro s _; rfl
  | cons op rest ih =>
    intro s hinv
    simp only [final]
    rw [← step_eq s hinv op]
    rw [ih _ (stepIF_inv s hinv op)]

/-! ## Part B — without faults the machines are the ones of `Machines/GroupBy.lean` -/

def ofBool : Bool → LoopR | true => .found | false => .stop

theorem scanL_embed (t : Key) : ∀ (items : List (Val × Key)) (s : GroupBy.St),
    scanL t (ofItems items) (embed s) =
      (embed (GroupBy.scanL t items s).1, ofBool (GroupBy.scanL t items s).2) := by
  intro items
  induction items with
  | nil =>
    intro s
    simp only [ofItems, List.map_nil, scanL, GroupBy.scanL]
    by_cases h : s.curKey = some t
    · have h' : (embed s).curKey = some t := h
      simp only [h, h', if_true]; rfl
    · have h' : ¬ (embed s).curKey = some t := h
      simp only [h, h', if_false]; rfl
  | cons p r ih =>
    intro s
    obtain ⟨v, k⟩ := p
    simp only [ofItems, List.map_cons, scanL, GroupBy.scanL]
    by_cases h : s.curKey = some t
    · have h' : (embed s).curKey = some t := h
      simp only [h, h', if_true, stepOn]
      exact ih { s with items := r, cur := some v, curKey := some k }
    · have h' : ¬ (embed s).curKey = some t := h
      simp only [h, h', if_false]; rfl

theorem loopL_embed : ∀ (items : List (Val × Key)) (s : GroupBy.St),
    loopL (ofItems items) (embed s) =
      (embed (GroupBy.loopL items s).1, ofBool (GroupBy.loopL items s).2) := by
  intro items
  induction items with
  | nil =>
    intro s
    obtain ⟨items, cur, curKey, tgt, grp, groups⟩ := s
    cases curKey with
    | none => simp [ofItems, loopL, GroupBy.loopL, mustStep, embed, ofBool]
    | some ck =>
      cases tgt with
      | none => simp [ofItems, loopL, GroupBy.loopL, mustStep, embed, ofBool]
      | some t =>
        by_cases h : t = ck <;> simp [ofItems, loopL, GroupBy.loopL, mustStep, embed, ofBool, h]
  | cons p r ih =>
    intro s
    obtain ⟨v, k⟩ := p
    obtain ⟨items, cur, curKey, tgt, grp, groups⟩ := s
    have e1 : mustStep (embed ⟨items, cur, curKey, tgt, grp, groups⟩) = true →
        loopL (ofItems ((v, k) :: r)) (embed ⟨items, cur, curKey, tgt, grp, groups⟩) =
        loopL (ofItems r) (embed ⟨r, some v, some k, tgt, grp, groups⟩) := by
      intro hm
      simp only [ofItems, List.map_cons, loopL, hm, if_true, stepOn]
      rfl
    cases curKey with
    | none =>
      rw [e1 (by simp [mustStep, embed])]
      have e2 : GroupBy.loopL ((v, k) :: r) ⟨items, cur, none, tgt, grp, groups⟩ =
          GroupBy.loopL r ⟨r, some v, some k, tgt, grp, groups⟩ := by simp [GroupBy.loopL]
      rw [e2]; exact ih _
    | some ck =>
      cases tgt with
      | none => simp [ofItems, loopL, GroupBy.loopL, mustStep, embed, ofBool]
      | some t =>
        by_cases h : t = ck
        · subst h
          rw [e1 (by simp [mustStep, embed])]
          have e2 : GroupBy.loopL ((v, k) :: r) ⟨items, cur, some t, some t, grp, groups⟩ =
              GroupBy.loopL r ⟨r, some v, some k, some t, grp, groups⟩ := by simp [GroupBy.loopL]
          rw [e2]; exact ih _
        · simp [ofItems, loopL, GroupBy.loopL, mustStep, embed, ofBool, h]

/-- how an advance ends, given how its loop ended (asyncstdlib / CPython, with and without faults) -/
def post : St × LoopR → St × Out
  | (s, .stop) => (s, .stop)
  | (s, .exc e) => (s, .exc e)
  | (s, .found) => finish s

def post0 : GroupBy.St × Bool → GroupBy.St × GroupBy.Out
  | (s, false) => (s, .stop)
  | (s, true) => GroupBy.finish s

theorem finish_embed (s : GroupBy.St) :
    finish (embed s) = (embed (GroupBy.finish s).1, liftOut (GroupBy.finish s).2) := by
  obtain ⟨items, cur, curKey, tgt, grp, groups⟩ := s
  cases curKey <;> rfl

theorem post_embed (r : GroupBy.St × Bool) :
    post (embed r.1, ofBool r.2) = (embed (post0 r).1, liftOut (post0 r).2) := by
  obtain ⟨s, b⟩ := r
  cases b with
  | false => rfl
  | true => exact finish_embed s

/-- after a successful `maybe_step`: no target yet → hand out the group, else scan -/
def afterStep (s1 : St) : St × Out :=
  match s1.tgt with
  | none => finish s1
  | some t => post (scanI t s1)

def afterStep0 (s1 : GroupBy.St) : GroupBy.St × GroupBy.Out :=
  match s1.tgt with
  | none => GroupBy.finish s1
  | some t => post0 (GroupBy.scanI t s1)

theorem afterStep_embed (s1 : GroupBy.St) :
    afterStep (embed s1) = (embed (afterStep0 s1).1, liftOut (afterStep0 s1).2) := by
  obtain ⟨items, cur, curKey, tgt, grp, groups⟩ := s1
  cases tgt with
  | none => exact finish_embed _
  | some t =>
    show post (scanL t (ofItems items) (embed ⟨items, cur, curKey, some t, grp, groups⟩)) = _
    rw [scanL_embed]
    exact post_embed _

theorem advI_embed (s : GroupBy.St) :
    advI (embed s) = (embed (GroupBy.advI s).1, liftOut (GroupBy.advI s).2) := by
  obtain ⟨items, cur, curKey, tgt, grp, groups⟩ := s
  cases cur with
  | some v =>
    have h1 : advI (embed ⟨items, some v, curKey, tgt, grp, groups⟩) =
        afterStep (embed ⟨items, some v, curKey, tgt, none, groups⟩) := by
      unfold advI afterStep maybeStep post
      cases tgt <;> rfl
    have h2 : GroupBy.advI ⟨items, some v, curKey, tgt, grp, groups⟩ =
        afterStep0 ⟨items, some v, curKey, tgt, none, groups⟩ := by
      unfold GroupBy.advI afterStep0 post0
      cases tgt <;> rfl
    rw [h1, h2]; exact afterStep_embed _
  | none =>
    cases items with
    | nil => rfl
    | cons p r =>
      obtain ⟨v, k⟩ := p
      have h1 : advI (embed ⟨(v, k) :: r, none, curKey, tgt, grp, groups⟩) =
          afterStep (embed ⟨r, some v, some k, tgt, none, groups⟩) := by
        unfold advI afterStep maybeStep post
        cases tgt <;> rfl
      have h2 : GroupBy.advI ⟨(v, k) :: r, none, curKey, tgt, grp, groups⟩ =
          afterStep0 ⟨r, some v, some k, tgt, none, groups⟩ := by
        unfold GroupBy.advI afterStep0 post0
        cases tgt <;> rfl
      rw [h1, h2]; exact afterStep_embed _

theorem advS_embed (s : GroupBy.St) :
    advS (embed s) = (embed (GroupBy.advS s).1, liftOut (GroupBy.advS s).2) := by
  have h1 : advS (embed s) = post (loopL (ofItems s.items) (embed { s with grp := none })) := by
    unfold advS post; rfl
  have h2 : GroupBy.advS s = post0 (GroupBy.loopL s.items { s with grp := none }) := by
    unfold GroupBy.advS post0; rfl
  rw [h1, h2, loopL_embed]
  exact post_embed _

theorem grpNextI_embed (s : GroupBy.St) (g : Nat) :
    grpNextI (embed s) g = (embed (GroupBy.grpNext s g).1, liftOut (GroupBy.grpNext s g).2) := by
  obtain ⟨items, cur, curKey, tgt, grp, groups⟩ := s
  unfold grpNextI GroupBy.grpNext maybeStep
  by_cases hg : grp = some g
  · subst hg
    cases cur with
    | some v =>
      by_cases hk : groups[g]? = curKey <;> simp [embed, liftOut, hk]
    | none =>
      cases items with
      | nil => simp [embed, liftOut, ofItems, step, GroupBy.step]
      | cons p r =>
        obtain ⟨v, k⟩ := p
        by_cases hk : groups[g]? = some k <;>
          simp [embed, liftOut, ofItems, step, stepOn, GroupBy.step, hk]
  · simp [embed, liftOut, hg]

theorem grpClose_embed (s : GroupBy.St) (g : Nat) : grpClose (embed s) g = embed (GroupBy.grpClose s g) := by
  unfold grpClose GroupBy.grpClose
  by_cases h : s.grp = some g
  · have h' : (embed s).grp = some g := h
    simp only [h, h', if_true]; rfl
  · have h' : ¬ (embed s).grp = some g := h
    simp only [h, h', if_false]

theorem stepIF_embed (s : GroupBy.St) (op : Op) :
    stepIF (embed s) op = (embed (GroupBy.stepI s op).1, liftOut (GroupBy.stepI s op).2) := by
  cases op with
  | adv => exact advI_embed s
  | grpNext g => exact grpNextI_embed s g
  | grpClose g => simp only [stepIF, GroupBy.stepI, grpClose_embed]; rfl

theorem stepSF_embed (s : GroupBy.St) (op : Op) :
    stepSF (embed s) op = (embed (GroupBy.stepS s op).1, liftOut (GroupBy.stepS s op).2) := by
  cases op with
  | adv => exact advS_embed s
  | grpNext g => rw [show stepSF (embed s) (.grpNext g) = grpNextS (embed s) g from rfl, ← grpNext_eq]
                 exact grpNextI_embed s g
  | grpClose g => simp only [stepSF, GroupBy.stepS, grpClose_embed]; rfl

theorem run_embed {f : St → Op → St × Out} {f0 : GroupBy.St → Op → GroupBy.St × GroupBy.Out}
    (hf : ∀ s op, f (embed s) op = (embed (f0 s op).1, liftOut (f0 s op).2)) :
    ∀ (ops : List Op) (s : GroupBy.St), run f (embed s) ops = (GroupBy.run f0 s ops).map liftOut := by
  intro ops
  induction ops with
  | nil => intro s; rfl
  | cons op rest ih =>
    intro s
    simp only [run, GroupBy.run, List.map_cons, hf]
    rw [ih]

/-- the fault-free machine's unread items, per operation -/
def remaining0 (f0 : GroupBy.St → Op → GroupBy.St × GroupBy.Out) : GroupBy.St → List Op → List Nat
  | _, [] => []
  | s, op :: ops => (f0 s op).1.items.length :: remaining0 f0 (f0 s op).1 ops

theorem remaining_embed {f : St → Op → St × Out} {f0 : GroupBy.St → Op → GroupBy.St × GroupBy.Out}
    (hf : ∀ s op, f (embed s) op = (embed (f0 s op).1, liftOut (f0 s op).2)) :
    ∀ (ops : List Op) (s : GroupBy.St), remaining f (embed s) ops = remaining0 f0 s ops := by
  intro ops
  induction ops with
  | nil => intro s; rfl
  | cons op rest ih =>
    intro s
    simp only [remaining, remaining0, hf]
    rw [ih]
    simp [embed, ofItems]

theorem embed_init (items : List (Val × Key)) : embed (GroupBy.init items) = init (ofItems items) := rfl

/-! ## Part C — a failed item is dropped; its exception is delivered by the operation that pulled it -/

/-- the exception a script entry raises when pulled -/
def faultOf : Resp → Option Exc
  | .item _ _ => none | .keyErr _ e => some e | .srcErr e => some e

/-- the value a script entry contributes to the stream seen by groups -/
def valOf : Resp → Option Val
  | .item v _ => some v | _ => none

def outExc : Out → Option Exc | .exc e => some e | _ => none
def outItem : Out → Option Val | .item v => some v | _ => none

/-- the exceptions a script raises, in order -/
def faults (l : List Resp) : List Exc := l.filterMap faultOf
/-- the values of the successful entries of a script, in order -/
def values (l : List Resp) : List Val := l.filterMap valOf
/-- the exceptions delivered to the consumer, in order -/
def raised (o : List Out) : List Exc := o.filterMap outExc
/-- the items delivered by group handles, in order -/
def delivered (o : List Out) : List Val := o.filterMap outItem

/-- `Pulled before oe after`: an operation that found the script `before` and left it `after` pulled successful
    entries only (`oe = none`), or successful entries followed by exactly one failing entry, whose exception `oe`
    it reports, and nothing after it. -/
inductive Pulled : List Resp → Option Exc → List Resp → Prop
  | done (l : List Resp) : Pulled l none l
  | item (v : Val) (k : Key) {r : List Resp} {oe : Option Exc} {r' : List Resp} :
      Pulled r oe r' → Pulled (.item v k :: r) oe r'
  | fault {x : Resp} {e : Exc} (r : List Resp) : faultOf x = some e → Pulled (x :: r) (some e) r

theorem Pulled.trans {a b c : List Resp} {oe : Option Exc} (h1 : Pulled a none b) (h2 : Pulled b oe c) :
    Pulled a oe c := by
  generalize hn : (none : Option Exc) = o at h1
  induction h1 with
  | done l => exact h2
  | item v k _ ih => exact .item v k (ih h2 hn)
  | fault r hf => cases hn

/-- `Pulled` spelled out -/
theorem Pulled.explicit {a b : List Resp} {oe : Option Exc} (h : Pulled a oe b) :
    ∃ pre, (∀ x ∈ pre, faultOf x = none) ∧
      ((oe = none ∧ a = pre ++ b) ∨ (∃ x e, oe = some e ∧ faultOf x = some e ∧ a = pre ++ x :: b)) := by
  induction h with
  | done l => exact ⟨[], by simp, .inl ⟨rfl, rfl⟩⟩
  | item v k _ ih =>
    obtain ⟨pre, hp, h⟩ := ih
    refine ⟨.item v k :: pre, ?_, ?_⟩
    · intro x hx
      rcases List.mem_cons.mp hx with rfl | hx
      · rfl
      · exact hp x hx
    · rcases h with ⟨h1, h2⟩ | ⟨x, e, h1, h2, h3⟩
      · exact .inl ⟨h1, by rw [h2]; rfl⟩
      · exact .inr ⟨x, e, h1, h2, by rw [h3]; rfl⟩
  | fault r hf => exact ⟨[], by simp, .inr ⟨_, _, rfl, hf, rfl⟩⟩

/-- the exceptions of the pulled entries are exactly the reported one -/
theorem Pulled.split {a b : List Resp} {oe : Option Exc} (h : Pulled a oe b) :
    ∃ pulled, a = pulled ++ b ∧ faults pulled = oe.toList := by
  induction h with
  | done l => exact ⟨[], rfl, rfl⟩
  | item v k _ ih =>
    obtain ⟨p, h1, h2⟩ := ih
    exact ⟨.item v k :: p, by rw [h1]; rfl, h2⟩
  | fault r hf => exact ⟨[_], rfl, by simp [faults, hf]⟩

theorem stepOn_pulled (x : Resp) (r : List Resp) (s : St) :
    Pulled (x :: r) (stepOn x r s).2 (stepOn x r s).1.script := by
  cases x with
  | item v k => exact .item v k (.done r)
  | keyErr v e => exact .fault r rfl
  | srcErr e => exact .fault r rfl

def loopExc : LoopR → Option Exc | .exc e => some e | _ => none

theorem scanL_pulled (t : Key) : ∀ (l : List Resp) (s : St),
    Pulled l (loopExc (scanL t l s).2) (scanL t l s).1.script := by
  intro l
  induction l with
  | nil => intro s; simp only [scanL]; split <;> exact .done []
  | cons x r ih =>
    intro s
    simp only [scanL]
    split
    · cases x with
      | item v k => exact .item v k (ih _)
      | keyErr v e => exact .fault r rfl
      | srcErr e => exact .fault r rfl
    · exact .done _

theorem finish_script (s : St) : (finish s).1.script = s.script := by
  unfold finish; split <;> rfl

theorem finish_outExc (s : St) : outExc (finish s).2 = none := by
  unfold finish; split <;> rfl

theorem finish_outItem (s : St) : outItem (finish s).2 = none := by
  unfold finish; split <;> rfl

theorem finish_cur (s : St) : (finish s).1.cur = s.cur := by
  unfold finish; split <;> rfl

theorem post_pulled {l : List Resp} (r : St × LoopR) (h : Pulled l (loopExc r.2) r.1.script) :
    Pulled l (outExc (post r).2) (post r).1.script := by
  obtain ⟨s, b⟩ := r
  cases b with
  | stop => exact h
  | exc e => exact h
  | found =>
    show Pulled l (outExc (finish s).2) (finish s).1.script
    rw [finish_outExc, finish_script]; exact h

theorem afterStep_pulled (s1 : St) : Pulled s1.script (outExc (afterStep s1).2) (afterStep s1).1.script := by
  unfold afterStep
  split
  · rw [finish_outExc, finish_script]; exact .done _
  · exact post_pulled _ (scanL_pulled _ _ _)

/-- `advI` as: detach, maybe step, then `afterStep` -/
theorem advI_unfold (s0 : St) :
    advI s0 =
      match maybeStep { s0 with grp := none } with
      | .stop => ({ s0 with grp := none }, .stop)
      | .exc s1 e => (s1, .exc e)
      | .ok s1 => afterStep s1 := by
  unfold advI afterStep
  simp only
  generalize maybeStep _ = m
  cases m with
  | stop => rfl
  | exc s1 e => rfl
  | ok s1 =>
    simp only
    cases s1.tgt with
    | none => rfl
    | some t =>
      simp only [post]
      rcases scanI t s1 with ⟨s2, b⟩
      cases b <;> rfl

theorem maybeStep_pulled (s : St) :
    (maybeStep s = .stop ∧ s.script = []) ∨
    (∃ s1 e, maybeStep s = .exc s1 e ∧ Pulled s.script (some e) s1.script) ∨
    (∃ s1, maybeStep s = .ok s1 ∧ Pulled s.script none s1.script) := by
  obtain ⟨script, cur, curKey, tgt, grp, groups⟩ := s
  unfold maybeStep
  cases cur with
  | some v => right; right; exact ⟨_, rfl, .done _⟩
  | none =>
    simp only [Option.isNone_none, if_true, step]
    cases script with
    | nil => left; exact ⟨rfl, rfl⟩
    | cons x r =>
      cases x with
      | item v k => right; right; exact ⟨_, rfl, .item v k (.done r)⟩
      | keyErr v e => right; left; exact ⟨_, e, rfl, .fault r rfl⟩
      | srcErr e => right; left; exact ⟨_, e, rfl, .fault r rfl⟩

theorem advI_pulled (s : St) : Pulled s.script (outExc (advI s).2) (advI s).1.script := by
  rw [advI_unfold]
  rcases maybeStep_pulled { s with grp := none } with ⟨h, _⟩ | ⟨s1, e, h, hp⟩ | ⟨s1, h, hp⟩
  · rw [h]; exact .done _
  · rw [h]; exact hp
  · rw [h]; exact hp.trans (afterStep_pulled s1)

theorem grpNextI_pulled (s : St) (g : Nat) :
    Pulled s.script (outExc (grpNextI s g).2) (grpNextI s g).1.script := by
  unfold grpNextI
  split
  · exact .done _
  · rcases maybeStep_pulled s with ⟨h, _⟩ | ⟨s1, e, h, hp⟩ | ⟨s1, h, hp⟩
    · rw [h]; exact .done _
    · rw [h]; exact hp
    · rw [h]
      simp only
      split
      · exact hp
      · split <;> exact hp

theorem grpClose_script (s : St) (g : Nat) : (grpClose s g).script = s.script := by
  unfold grpClose; split <;> rfl

theorem stepIF_pulled (s : St) (op : Op) :
    Pulled s.script (outExc (stepIF s op).2) (stepIF s op).1.script := by
  cases op with
  | adv => exact advI_pulled s
  | grpNext g => exact grpNextI_pulled s g
  | grpClose g =>
    show Pulled s.script none (grpClose s g).script
    rw [grpClose_script]; exact .done _

theorem raised_cons (o : Out) (l : List Out) : raised (o :: l) = (outExc o).toList ++ raised l := by
  unfold raised; rw [List.filterMap_cons]
  generalize outExc o = x
  cases x <;> rfl

theorem delivered_cons (o : Out) (l : List Out) : delivered (o :: l) = (outItem o).toList ++ delivered l := by
  unfold delivered; rw [List.filterMap_cons]
  generalize outItem o = x
  cases x <;> rfl

/-- over a whole run: the exceptions delivered are the faults of the consumed prefix of the script -/
theorem run_raised : ∀ (ops : List Op) (s : St),
    ∃ pulled, s.script = pulled ++ (final stepIF s ops).script ∧
      raised (run stepIF s ops) = faults pulled := by
  intro ops
  induction ops with
  | nil => intro s; exact ⟨[], rfl, rfl⟩
  | cons op rest ih =>
    intro s
    obtain ⟨p1, h1, h2⟩ := (stepIF_pulled s op).split
    obtain ⟨p2, h3, h4⟩ := ih (stepIF s op).1
    refine ⟨p1 ++ p2, ?_, ?_⟩
    · simp only [final]; rw [List.append_assoc, ← h3, ← h1]
    · simp only [run, raised_cons]
      rw [h4, ← h2]
      simp [faults]

/-- what groups may still deliver: the buffered value, then the values of the successful script entries -/
def pend (s : St) : List Val := s.cur.toList ++ values s.script

theorem values_cons_item (v : Val) (k : Key) (r : List Resp) : values (.item v k :: r) = v :: values r := rfl
theorem values_cons_keyErr (v : Val) (e : Exc) (r : List Resp) : values (.keyErr v e :: r) = values r := rfl
theorem values_cons_srcErr (e : Exc) (r : List Resp) : values (.srcErr e :: r) = values r := rfl

theorem sublist_drop_opt (o : Option Val) (l : List Val) : l.Sublist (o.toList ++ l) := by
  cases o <;> simp

theorem scanL_pend (t : Key) : ∀ (l : List Resp) (s : St),
    (pend (scanL t l s).1).Sublist (s.cur.toList ++ values l) := by
  intro l
  induction l with
  | nil => intro s; simp only [scanL]; split <;> exact List.Sublist.refl _
  | cons x r ih =>
    intro s
    simp only [scanL]
    split
    · cases x with
      | item v k =>
        refine (ih _).trans ?_
        simp only [values_cons_item]
        exact sublist_drop_opt s.cur (v :: values r)
      | keyErr v e => exact List.Sublist.refl _
      | srcErr e => exact List.Sublist.refl _
    · exact List.Sublist.refl _

theorem finish_pend (s : St) : pend (finish s).1 = pend s := by
  unfold pend; rw [finish_script, finish_cur]

theorem afterStep_pend (s1 : St) :
    outItem (afterStep s1).2 = none ∧ (pend (afterStep s1).1).Sublist (pend s1) := by
  unfold afterStep
  split
  · exact ⟨finish_outItem _, by rw [finish_pend]; exact List.Sublist.refl _⟩
  · rename_i t _
    have h := scanL_pend t s1.script s1
    unfold scanI
    rcases hsc : scanL t s1.script s1 with ⟨s2, b⟩
    rw [hsc] at h
    cases b with
    | stop => exact ⟨rfl, h⟩
    | exc e => exact ⟨rfl, h⟩
    | found => exact ⟨finish_outItem _, by show (pend (finish s2).1).Sublist _; rw [finish_pend]; exact h⟩

theorem maybeStep_pend (s : St) :
    maybeStep s = .stop ∨
    (∃ s1 e, maybeStep s = .exc s1 e ∧ pend s1 = pend s) ∨
    (∃ s1, maybeStep s = .ok s1 ∧ pend s1 = pend s ∧ s1.grp = s.grp ∧ s1.groups = s.groups) := by
  obtain ⟨script, cur, curKey, tgt, grp, groups⟩ := s
  unfold maybeStep
  cases cur with
  | some v => right; right; exact ⟨_, rfl, rfl, rfl, rfl⟩
  | none =>
    simp only [Option.isNone_none, if_true, step]
    cases script with
    | nil => left; rfl
    | cons x r =>
      cases x with
      | item v k => right; right; exact ⟨_, rfl, rfl, rfl, rfl⟩
      | keyErr v e => right; left; exact ⟨_, e, rfl, rfl⟩
      | srcErr e => right; left; exact ⟨_, e, rfl, rfl⟩

/-- one operation: what it delivers plus what may still be delivered afterwards is a subsequence of what could
    be delivered before -/
theorem stepIF_pend (s : St) (op : Op) :
    ((outItem (stepIF s op).2).toList ++ pend (stepIF s op).1).Sublist (pend s) := by
  cases op with
  | adv =>
    show ((outItem (advI s).2).toList ++ pend (advI s).1).Sublist (pend s)
    rw [advI_unfold]
    rcases maybeStep_pend { s with grp := none } with h | ⟨s1, e, h, hp⟩ | ⟨s1, h, hp, _⟩
    · rw [h]; exact List.Sublist.refl _
    · rw [h]; show (pend s1).Sublist (pend s); rw [hp]; exact List.Sublist.refl _
    · rw [h]
      have := afterStep_pend s1
      simp only [this.1, Option.toList_none, List.nil_append]
      exact this.2.trans (by rw [hp]; exact List.Sublist.refl _)
  | grpNext g =>
    show ((outItem (grpNextI s g).2).toList ++ pend (grpNextI s g).1).Sublist (pend s)
    unfold grpNextI
    split
    · exact List.Sublist.refl _
    · rcases maybeStep_pend s with h | ⟨s1, e, h, hp⟩ | ⟨s1, h, hp, _⟩
      · rw [h]; exact List.Sublist.refl _
      · rw [h]; show (pend s1).Sublist (pend s); rw [hp]; exact List.Sublist.refl _
      · rw [h]
        simp only
        split
        · show (pend s1).Sublist (pend s); rw [hp]; exact List.Sublist.refl _
        · split
          · show (pend s1).Sublist (pend s); rw [hp]; exact List.Sublist.refl _
          · rename_i v hv
            rw [← hp]
            show (v :: values s1.script).Sublist (s1.cur.toList ++ values s1.script)
            rw [hv]; exact List.Sublist.refl _
  | grpClose g =>
    show (pend (grpClose s g)).Sublist (pend s)
    unfold grpClose; split <;> exact List.Sublist.refl _

theorem run_delivered : ∀ (ops : List Op) (s : St), (delivered (run stepIF s ops)).Sublist (pend s) := by
  intro ops
  induction ops with
  | nil => intro s; exact List.nil_sublist _
  | cons op rest ih =>
    intro s
    refine List.Sublist.trans ?_ (stepIF_pend s op)
    simp only [run, delivered_cons]
    exact List.Sublist.append (List.Sublist.refl _) (ih (stepIF s op).1)

/-- a raising group pull leaves the whole state as it was, but for the consumed script entry -/
theorem grpNextI_exc_state (s : St) (g : Nat) (e : Exc) (h : (grpNextI s g).2 = .exc e) :
    (grpNextI s g).1 = { s with script := (grpNextI s g).1.script } := by
  unfold grpNextI at h ⊢
  split
  · rfl
  · rename_i hg
    rw [if_neg hg] at h
    rcases maybeStep_cases s with hm | ⟨e', r, hm⟩ | ⟨s1, hm, _⟩
    · rw [hm]
    · rw [hm]
    · rw [hm] at h
      simp only at h
      split at h
      · cases h
      · split at h <;> cases h

theorem scanL_grp (t : Key) : ∀ (l : List Resp) (s : St), (scanL t l s).1.grp = s.grp := by
  intro l
  induction l with
  | nil => intro s; simp only [scanL]; split <;> rfl
  | cons x r ih =>
    intro s
    simp only [scanL]
    split
    · cases x with
      | item v k => exact ih _
      | keyErr v e => rfl
      | srcErr e => rfl
    · rfl

/-- a raising advance leaves the buffered value, the keys and the handed-out groups of the last successful step
    — and no current group -/
theorem advI_exc_grp (s : St) (e : Exc) (h : (advI s).2 = .exc e) : (advI s).1.grp = none := by
  rw [advI_unfold] at h ⊢
  rcases maybeStep_pend { s with grp := none } with hm | ⟨s1, e', hm, _⟩ | ⟨s1, hm, _, hg1, _⟩
  · rw [hm]
  · rw [hm] at h ⊢
    rcases maybeStep_cases { s with grp := none } with hm' | ⟨e'', r, hm'⟩ | ⟨s1', hm', _⟩
    · rw [hm'] at hm; cases hm
    · rw [hm'] at hm; cases hm; rfl
    · rw [hm'] at hm; cases hm
  · rw [hm] at h ⊢
    have hg1 : s1.grp = none := hg1
    simp only at h ⊢
    unfold afterStep at h ⊢
    split at h
    · have := finish_outExc s1; rw [h] at this; cases this
    · rename_i t _
      have sp := scanL_grp t s1.script s1
      unfold scanI at h ⊢
      rcases hsc : scanL t s1.script s1 with ⟨s2, b⟩
      rw [hsc] at h sp
      cases b with
      | stop => cases h
      | exc e' => exact sp.trans hg1
      | found => have := finish_outExc s2; rw [show (finish s2).2 = .exc e from h] at this; cases this

end AsyncVerif.GroupByFault
