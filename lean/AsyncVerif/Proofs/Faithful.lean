import AsyncVerif.Proofs.Core
/-!
# Faithful exceptions (C06, C18): a user exception is never swallowed, replaced or deferred

`Faithful m`: in every world, the visible events `m` adds either contain no fault event and `m` does
not end with a user exception, or they end with exactly one fault event (a source failing, a callable
failing, the consumer throwing) carrying exception `e`, nothing visible happens after it, and `m`
ends by raising that very `e`.  Closed under the combinators the tool models are built from.
-/
namespace AsyncVerif

def isFault (e : Nat) : Ev → Bool
  | .srcErr _ e' => e == e'
  | .callErr _ e' => e == e'
  | .thrown e' => e == e'
  | _ => false

def anyFault : Ev → Bool
  | .srcErr _ _ => true
  | .callErr _ _ => true
  | .thrown _ => true
  | _ => false

/-- the events `new` added by a run and how it ended -/
def FaithfulRun {α : Type} (new : List Ev) (r : Except Exc α) : Prop :=
  ((∀ ev ∈ new, anyFault ev = false) ∧ (∀ e, r ≠ .error (.user e)))
  ∨ (∃ pre e ev, new = pre ++ [ev] ∧ isFault e ev = true ∧ (∀ x ∈ pre, anyFault x = false) ∧ r = .error (.user e))

structure Faithful {α : Type} (m : M α) : Prop where
  run : ∀ w, ∃ new, (m w).2.vis = w.vis ++ new ∧ FaithfulRun new (m w).1

theorem faithful_pure {α : Type} (a : α) : Faithful (pure a : M α) := by
  refine ⟨fun w => ?_⟩; exact ⟨[], by simp [pure_apply], Or.inl ⟨by simp, by simp [pure_apply]⟩⟩

theorem faithful_raise {α : Type} (x : Exc) (h : ∀ e, x ≠ .user e) : Faithful (raise x : M α) := by
  refine ⟨fun w => ?_⟩
  refine ⟨[], by simp [raise], Or.inl ⟨by simp, ?_⟩⟩
  intro e he; simp only [raise] at he; injection he with he; exact h e he

theorem faithful_bind {α β : Type} {m : M α} {f : α → M β} (hm : Faithful m) (hf : ∀ a, Faithful (f a)) :
    Faithful (m >>= f) := by
  refine ⟨fun w => ?_⟩
  obtain ⟨n1, hv1, hr1⟩ := hm.run w
  rw [bind_apply]
  rcases hmw : m w with ⟨r, w1⟩
  rw [hmw] at hv1 hr1
  simp only at hv1 hr1
  cases r with
  | ok a =>
    simp only
    obtain ⟨n2, hv2, hr2⟩ := (hf a).run w1
    refine ⟨n1 ++ n2, by rw [hv2, hv1, List.append_assoc], ?_⟩
    rcases hr1 with ⟨hnf1, _⟩ | ⟨pre, e, ev, _, _, _, hr⟩
    · rcases hr2 with ⟨hnf2, hne2⟩ | ⟨pre, e, ev, hnew, hfe, hpre, hr⟩
      · left
        refine ⟨?_, hne2⟩
        intro ev hev
        rcases List.mem_append.mp hev with h | h
        · exact hnf1 ev h
        · exact hnf2 ev h
      · right
        refine ⟨n1 ++ pre, e, ev, by rw [hnew, List.append_assoc], hfe, ?_, hr⟩
        intro x hx
        rcases List.mem_append.mp hx with h | h
        · exact hnf1 x h
        · exact hpre x h
    · simp at hr
  | error x =>
    simp only
    refine ⟨n1, hv1, ?_⟩
    rcases hr1 with ⟨hnf1, hne1⟩ | ⟨pre, e, ev, hnew, hfe, hpre, hr⟩
    · left
      refine ⟨hnf1, ?_⟩
      intro e he
      apply hne1 e
      injection he with he; rw [he]
    · right
      refine ⟨pre, e, ev, hnew, hfe, hpre, ?_⟩
      injection hr with hr; rw [hr]

theorem faithful_pull (s : Nat) : Faithful (pull s) := by
  refine ⟨fun w => ?_⟩
  unfold pull
  by_cases hl : (w.srcs s).status.live
  · simp only [hl, if_true]
    cases hs : (w.srcs s).script with
    | nil =>
      exact ⟨[.pull s, .endd s], by simp [World.pushVis, World.setSrc],
        Or.inl ⟨by simp [anyFault], by simp⟩⟩
    | cons r rest =>
      cases r with
      | item v =>
        exact ⟨[.pull s, .item s v], by simp [World.pushVis, World.setSrc],
          Or.inl ⟨by simp [anyFault], by simp⟩⟩
      | err e =>
        exact ⟨[.pull s, .srcErr s e], by simp [World.pushVis, World.setSrc],
          Or.inr ⟨[.pull s], e, .srcErr s e, by simp, by simp [isFault], by simp [anyFault], rfl⟩⟩
  · simp only [hl]
    by_cases hv : (w.srcs s).kind.repollVisible
    · simp only [hv, if_true, Bool.false_eq_true, if_false]
      exact ⟨[.pull s, .endd s], by simp [World.pushVis], Or.inl ⟨by simp [anyFault], by simp⟩⟩
    · simp only [hv, Bool.false_eq_true, if_false]
      exact ⟨[], by simp, Or.inl ⟨by simp, by simp⟩⟩

theorem faithful_call (f : Nat) (args : List Val) : Faithful (call f args) := by
  refine ⟨fun w => ?_⟩
  unfold call
  cases h : w.fns f (w.calls f) args with
  | ok v =>
    exact ⟨[.call f args, .ret f v], by simp [World.pushVis, h],
      Or.inl ⟨by simp [anyFault], by simp [h]⟩⟩
  | error e =>
    exact ⟨[.call f args, .callErr f e], by simp [World.pushVis, h],
      Or.inr ⟨[.call f args], e, .callErr f e, by simp, by simp [isFault], by simp [anyFault], by simp [h]⟩⟩

theorem faithful_yieldV (v : Val) : Faithful (yieldV v) := by
  refine ⟨fun w => ?_⟩
  unfold yieldV
  cases hc : w.cons with
  | done => exact ⟨[.yld v], by simp [World.pushVis], Or.inl ⟨by simp [anyFault], by simp⟩⟩
  | run n fin =>
    cases n with
    | succ n => exact ⟨[.yld v], by simp [World.pushVis], Or.inl ⟨by simp [anyFault], by simp⟩⟩
    | zero =>
      cases fin with
      | exhaust => exact ⟨[.yld v], by simp [World.pushVis], Or.inl ⟨by simp [anyFault], by simp⟩⟩
      | close => exact ⟨[.yld v, .closed], by simp [World.pushVis], Or.inl ⟨by simp [anyFault], by simp⟩⟩
      | throw e =>
        exact ⟨[.yld v, .thrown e], by simp [World.pushVis],
          Or.inr ⟨[.yld v], e, .thrown e, by simp, by simp [isFault], by simp [anyFault], rfl⟩⟩

theorem faithful_liftExc {α : Type} (r : Except Exc α) (h : ∀ e, r ≠ .error (.user e)) :
    Faithful (liftExc r) := by
  refine ⟨fun w => ?_⟩
  unfold liftExc
  cases r with
  | ok a => exact ⟨[], by simp, Or.inl ⟨by simp, by simp⟩⟩
  | error x =>
    refine ⟨[], by simp, Or.inl ⟨by simp, ?_⟩⟩
    intro e he; simp only at he; exact h e he

theorem faithful_tryFinally {α : Type} {body : M α} {fin : M Unit} (hb : Faithful body) (hq : Quiet fin) :
    Faithful (tryFinally body fin) := by
  refine ⟨fun w => ?_⟩
  obtain ⟨n, hv, hr⟩ := hb.run w
  have h := tryFinally_quiet body fin hq w
  exact ⟨n, by rw [h.2.1, hv], by rw [h.1]; exact hr⟩

theorem faithful_scopedIter {α : Type} (s : Nat) {body : M α} (hb : Faithful body) :
    Faithful (scopedIter s body) := faithful_tryFinally hb (closeSrc_quiet s)

theorem faithful_tryCatchStop {α : Type} {body handler : M α} (hb : Faithful body) (hh : Faithful handler) :
    Faithful (tryCatchStop body handler) := by
  refine ⟨fun w => ?_⟩
  obtain ⟨n1, hv1, hr1⟩ := hb.run w
  unfold tryCatchStop
  rcases hbw : body w with ⟨r, w1⟩
  rw [hbw] at hv1 hr1
  simp only at hv1 hr1
  by_cases hstop : r = .error .stop
  · subst hstop
    simp only
    obtain ⟨n2, hv2, hr2⟩ := hh.run w1
    refine ⟨n1 ++ n2, by rw [hv2, hv1, List.append_assoc], ?_⟩
    rcases hr1 with ⟨hnf1, _⟩ | ⟨pre, e, ev, _, _, _, hr⟩
    · rcases hr2 with ⟨hnf2, hne2⟩ | ⟨pre, e, ev, hnew, hfe, hpre, hr⟩
      · left
        refine ⟨?_, hne2⟩
        intro ev hev
        rcases List.mem_append.mp hev with h | h
        · exact hnf1 ev h
        · exact hnf2 ev h
      · right
        refine ⟨n1 ++ pre, e, ev, by rw [hnew, List.append_assoc], hfe, ?_, hr⟩
        intro x hx
        rcases List.mem_append.mp hx with h | h
        · exact hnf1 x h
        · exact hpre x h
    · simp at hr
  · cases r with
    | ok a => exact ⟨n1, hv1, hr1⟩
    | error x => cases x <;> first | exact ⟨n1, hv1, hr1⟩ | exact absurd rfl hstop

theorem faithful_closeSrc (s : Nat) : Faithful (closeSrc s) := by
  refine ⟨fun w => ?_⟩
  have h := closeSrc_quiet s w
  exact ⟨[], by simp [h.2.1], Or.inl ⟨by simp, by simp [h.1]⟩⟩

theorem faithful_closeAll (l : List Nat) : Faithful (closeAll l) := by
  refine ⟨fun w => ?_⟩
  have h := closeAll_quiet l w
  exact ⟨[], by simp [h.2.1], Or.inl ⟨by simp, by simp [h.1]⟩⟩

theorem faithful_ite {α : Type} (c : Prop) [Decidable c] {a b : M α} (ha : Faithful a) (hb : Faithful b) :
    Faithful (if c then a else b) := by
  split <;> assumption

theorem faithful_forEach (s : Nat) (body : Val → M Bool) (hb : ∀ x, Faithful (body x)) :
    ∀ fuel, Faithful (forEach s body fuel)
  | 0 => faithful_raise _ (by simp)
  | fuel+1 => by
    unfold forEach
    refine faithful_bind (faithful_pull s) ?_
    intro r
    cases r with
    | none => exact faithful_pure _
    | some x =>
      refine faithful_bind (hb x) ?_
      intro b
      cases b
      · exact faithful_pure _
      · exact faithful_forEach s body hb fuel

theorem faithful_test (fn : Option Nat) (x : Val) : Faithful (test fn x) := by
  unfold test
  cases fn with
  | none => exact faithful_pure _
  | some f => exact faithful_bind (faithful_call f [x]) (fun _ => faithful_pure _)

theorem faithful_anext (s : Nat) : Faithful (anext s) := by
  unfold anext
  refine faithful_bind (faithful_pull s) ?_
  intro r
  cases r with
  | none => exact faithful_raise _ (by simp)
  | some v => exact faithful_pure _

end AsyncVerif
