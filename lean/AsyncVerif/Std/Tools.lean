import AsyncVerif.Core.Prims
/-!
# "Sync twins": the algorithms CPython uses for the synchronous namesakes, in the same DSL

References: `Python/bltinmodule.c` (`filter_next`, `map_next`, `zip_next`, `enum_next`),
`Modules/itertoolsmodule.c` (`*_next`), CPython 3.12.  No scoping, no closes: a synchronous
iterator has no close protocol.  Each generator twin is one recursive function per C `*_next`
state machine; the consumer's repeated `next()` calls are the recursion.
-/
namespace AsyncVerif.Std

open AsyncVerif

/-- `filter_next` / `filterfalse_next` (`neg = true`) -/
def filterLoop (fn : Option Nat) (neg : Bool) (s : Nat) (fuel : Nat) : M Unit :=
  forEach s (fun x => do
    if (← test fn x) != neg then yieldV x
    pure true) fuel

/-- `enum_next` -/
def enumerateLoop (s : Nat) : Int → Nat → M Unit
  | _, 0 => raise .outOfFuel
  | count, fuel+1 => do
    match ← pull s with
    | none => pure ()
    | some x => do yieldV (.tup [.int count, x]); enumerateLoop s (count + 1) fuel

/-- `takewhile_next` -/
def takewhileLoop (f : Nat) (s : Nat) (fuel : Nat) : M Unit :=
  forEach s (fun x => do
    if (← call f [x]).truthy then do yieldV x; pure true else pure false) fuel

/-- `dropwhile_next`: one loop with the `start` flag -/
def dropwhileLoop (f : Nat) (s : Nat) : Bool → Nat → M Unit
  | _, 0 => raise .outOfFuel
  | started, fuel+1 => do
    match ← pull s with
    | none => pure ()
    | some x =>
      if started then do yieldV x; dropwhileLoop f s true fuel
      else do
        if (← call f [x]).truthy then dropwhileLoop f s false fuel
        else do yieldV x; dropwhileLoop f s true fuel

/-- `starmap_next` -/
def starmapLoop (f : Nat) (s : Nat) (fuel : Nat) : M Unit :=
  forEach s (fun x => do
    let args ← liftExc x.asArgs
    yieldV (← call f args)
    pure true) fuel

/-- one step of `accumulate`: `func(total, val)` or `total + val` -/
def accStep (fn : Option Nat) (total x : Val) : M Val :=
  match fn with
  | some f => call f [total, x]
  | none => liftExc (total.add x)

def accLoop (fn : Option Nat) (s : Nat) : Val → Nat → M Unit
  | _, 0 => raise .outOfFuel
  | total, fuel+1 => do
    match ← pull s with
    | none => pure ()
    | some x => do
      let t ← accStep fn total x
      yieldV t
      accLoop fn s t fuel

/-- `accumulate_next`; the documented deviation (TypeError on empty input without `initial`)
    is written into the twin, nothing else is -/
def accumulate (fn : Option Nat) (initial : Option Val) (s : Nat) (fuel : Nat) : M Unit := do
  let first ← match initial with
    | some v => pure v
    | none => tryCatchStop (anext s) (raise .typeError)
  yieldV first
  accLoop fn s first fuel

/-- inner loop of `batched_next`: collect up to `n` items; `false` = source ended -/
def collect (s : Nat) : Nat → List Val → M (List Val × Bool)
  | 0, acc => pure (acc, true)
  | n+1, acc => do
    match ← pull s with
    | none => pure (acc, false)
    | some x => collect s n (acc ++ [x])

/-- `batched_next` (+ the `strict` flag of 3.13) -/
def batchedLoop (n : Nat) (strict : Bool) (s : Nat) : Nat → M Unit
  | 0 => raise .outOfFuel
  | fuel+1 => do
    let (batch, full) ← collect s n []
    if full then do yieldV (.tup batch); batchedLoop n strict s fuel
    else if batch.isEmpty then pure ()
    else if strict then raise .valueError
    else yieldV (.tup batch)

def batched (n : Nat) (strict : Bool) (s : Nat) (fuel : Nat) : M Unit :=
  if n < 1 then raise .valueError else batchedLoop n strict s fuel

/-- `chain_next`: sources in order, each obtained lazily -/
def chain : List Nat → Nat → M Unit
  | [], _ => pure ()
  | s :: rest, fuel => do
    forEach s (fun x => do yieldV x; pure true) fuel
    chain rest fuel

/-- `compress_next` -/
def compressLoop (d sel : Nat) : Nat → M Unit
  | 0 => raise .outOfFuel
  | fuel+1 => do
    match ← pull d with
    | none => pure ()
    | some x =>
      match ← pull sel with
      | none => pure ()
      | some k => do
        if k.truthy then yieldV x
        compressLoop d sel fuel

/-- replay phase of `cycle_next` -/
def replay (buffer : List Val) : List Val → Nat → M Unit
  | _, 0 => raise .outOfFuel
  | [], fuel+1 => if buffer.isEmpty then pure () else replay buffer buffer fuel
  | x :: rest, fuel+1 => do yieldV x; replay buffer rest fuel

def cycleFirst (s : Nat) : List Val → Nat → M (List Val)
  | _, 0 => raise .outOfFuel
  | buf, fuel+1 => do
    match ← pull s with
    | none => pure buf
    | some x => do yieldV x; cycleFirst s (buf ++ [x]) fuel

/-- `cycle_next` (diverges for an exhausting consumer: the consumer must be finite) -/
def cycle (s : Nat) (fuel : Nat) : M Unit := do
  let buf ← cycleFirst s [] fuel
  replay buf [] fuel

/-- skip phase of `islice_next`: `while (cnt < next) iternext` ; false = source ended -/
def skipTo (s : Nat) : Nat → Nat → M (Nat × Bool)
  | 0, cnt => pure (cnt, true)
  | k+1, cnt => do
    match ← pull s with
    | none => pure (cnt, false)
    | some _ => skipTo s k (cnt + 1)

/-- `islice_next`: `cnt` items consumed so far, `next` = index of the next item to return -/
def isliceLoop (s : Nat) (stop : Option Nat) (step : Nat) : Nat → Nat → Nat → M Unit
  | _, _, 0 => raise .outOfFuel
  | cnt, next, fuel+1 => do
    let (cnt, ok) ← skipTo s (next - cnt) cnt
    if !ok then pure ()
    else if (match stop with | some st => decide (st ≤ cnt) | none => false) then pure ()
    else
      match ← pull s with
      | none => pure ()
      | some x => do
        let next' := match stop with
          | some st => if next + step > st then st else next + step
          | none => next + step
        yieldV x
        isliceLoop s stop step (cnt + 1) next' fuel

def islice (s : Nat) (start : Nat) (stop : Option Nat) (step : Nat) (fuel : Nat) : M Unit :=
  isliceLoop s stop step 0 start fuel

def pairwiseLoop (s : Nat) : Val → Nat → M Unit
  | _, 0 => raise .outOfFuel
  | old, fuel+1 => do
    match ← pull s with
    | none => pure ()
    | some x => do yieldV (.tup [old, x]); pairwiseLoop s x fuel

/-- `pairwise_next` -/
def pairwise (s : Nat) (fuel : Nat) : M Unit := do
  match ← pull s with
  | none => pure ()
  | some old => pairwiseLoop s old fuel

/-- one row of `zip_next` / `map_next`: pull every source in order; `none` as soon as one ends -/
def zipRow : List Nat → List Val → M (Option (List Val))
  | [], acc => pure (some acc)
  | s :: rest, acc => do
    match ← pull s with
    | none => pure none
    | some x => zipRow rest (acc ++ [x])

/-- `zip_next` (non-strict) with the row handed to `k` (`k = yield` for zip, call-then-yield for map) -/
def zipLoop (srcs : List Nat) (k : List Val → M Unit) : Nat → M Unit
  | 0 => raise .outOfFuel
  | fuel+1 => do
    match ← zipRow srcs [] with
    | none => pure ()
    | some row => do k row; zipLoop srcs k fuel

def zip (srcs : List Nat) (fuel : Nat) : M Unit :=
  if srcs.isEmpty then pure () else zipLoop srcs (fun row => yieldV (.tup row)) fuel

/-- `map_next` -/
def map (f : Nat) (srcs : List Nat) (fuel : Nat) : M Unit :=
  if srcs.isEmpty then pure () else zipLoop srcs (fun row => do yieldV (← call f row)) fuel

/-- strict `zip_next`: row, or the index of the source that ended -/
def zipRowStrict : List Nat → Nat → List Val → M (Except Nat (List Val))
  | [], _, acc => pure (.ok acc)
  | s :: rest, i, acc => do
    match ← pull s with
    | none => pure (.error i)
    | some x => zipRowStrict rest (i + 1) (acc ++ [x])

/-- after the first iterator ended: every later iterator must be empty too (`for i = 1 ..`) -/
def checkRestEmpty : List Nat → M Unit
  | [] => pure ()
  | s :: rest => do
    match ← pull s with
    | none => checkRestEmpty rest
    | some _ => raise .valueError

def zipStrictLoop (srcs : List Nat) : Nat → M Unit
  | 0 => raise .outOfFuel
  | fuel+1 => do
    match ← zipRowStrict srcs 0 [] with
    | .ok row => do yieldV (.tup row); zipStrictLoop srcs fuel
    | .error 0 => checkRestEmpty srcs.tail
    | .error _ => raise .valueError

def zipStrict (srcs : List Nat) (fuel : Nat) : M Unit :=
  if srcs.isEmpty then pure () else zipStrictLoop srcs fuel

/-- one row of `zip_longest_next`; the Bool marks sources not yet exhausted.
    Result: the row, the updated marks, the active count; or `none` when the last active one ended. -/
def longestRow (fillv : Val) : List (Nat × Bool) → List Val → List (Nat × Bool) → Nat →
    M (Option (List Val × List (Nat × Bool) × Nat))
  | [], acc, done, numactive => pure (some (acc, done, numactive))
  | (s, false) :: rest, acc, done, na => longestRow fillv rest (acc ++ [fillv]) (done ++ [(s, false)]) na
  | (s, true) :: rest, acc, done, na => do
    match ← pull s with
    | some x => longestRow fillv rest (acc ++ [x]) (done ++ [(s, true)]) na
    | none =>
      if na - 1 = 0 then pure none
      else longestRow fillv rest (acc ++ [fillv]) (done ++ [(s, false)]) (na - 1)

def zipLongestLoop (fillv : Val) : List (Nat × Bool) → Nat → Nat → M Unit
  | _, _, 0 => raise .outOfFuel
  | st, na, fuel+1 => do
    match ← longestRow fillv st [] [] na with
    | none => pure ()
    | some (row, st', na') => do yieldV (.tup row); zipLongestLoop fillv st' na' fuel

def zipLongest (fillv : Val) (srcs : List Nat) (fuel : Nat) : M Unit :=
  if srcs.isEmpty then pure () else zipLongestLoop fillv (srcs.map (·, true)) srcs.length fuel

/-- `calliter_iternext`: `iter(callable, sentinel)` -/
def iterSentinel (f : Nat) (sentinel : Val) : Nat → M Unit
  | 0 => raise .outOfFuel
  | fuel+1 => do
    let v ← call f []
    if v.pyEq sentinel then pure () else do yieldV v; iterSentinel f sentinel fuel

/-- `builtin_all` / `builtin_any` -/
def allLoop (s : Nat) : Nat → M Val
  | 0 => raise .outOfFuel
  | fuel+1 => do
    match ← pull s with
    | none => pure (.bool true)
    | some x => if x.truthy then allLoop s fuel else pure (.bool false)

def anyLoop (s : Nat) : Nat → M Val
  | 0 => raise .outOfFuel
  | fuel+1 => do
    match ← pull s with
    | none => pure (.bool false)
    | some x => if x.truthy then pure (.bool true) else anyLoop s fuel

end AsyncVerif.Std
