import AsyncVerif.Core.Prims
/-!
# List-level meaning of the aggregations (C02), and the fault-free-world hypotheses

Plain functions on `List Val` — what `all`, `any`, `sum`, `min`, `max`, `reduce`, `list`, `tuple`,
`sorted`, `nlargest`, `nsmallest` *mean* — written with core `List` functions or as short explicit
recursions (the tie rules of `min`/`max` are spelled out with the strict comparison).
No Mathlib, no proofs about the monad here; the theorems relating the models `Std.*` / `Impl.*`
to these functions are in `Proofs/AggValues.lean` and `Properties/C02.lean`.
-/
namespace AsyncVerif

/-! ## Hypotheses describing a fault-free world -/

/-- source `s` is usable (fresh or running) and will deliver exactly `items`, then end:
    its remaining script consists of items only (no injected fault) -/
structure Feeds (w : World) (s : Nat) (items : List Val) : Prop where
  script : (w.srcs s).script = items.map Resp.item
  live : (w.srcs s).status.live = true

/-- user callable `f` is a pure total function `q` of its argument list: it never fails and its
    result does not depend on the invocation number -/
def PureFn (w : World) (f : Nat) (q : List Val → Val) : Prop :=
  ∀ n args, w.fns f n args = .ok (q args)

/-- the optional `key=` argument denotes the pure function `kf` on items
    (`key=None`: the item itself, no user callable is involved) -/
def KeyFn (w : World) : Option Nat → (Val → Val) → Prop
  | some f, kf => ∀ n x, w.fns f n [x] = .ok (kf x)
  | none, kf => ∀ x, kf x = x

/-- the only thing `m` does to the arguments of a call — in **every** world, faulty or not — is to
    take responses off the front of source `s` (and change that source's status): every other source
    is left exactly as it was, the behaviour of every user callable is left as it was, and what
    source `s` still has to deliver is a suffix of what it had (nothing rewritten, reordered, added) -/
structure OnlyConsumes (s : Nat) {α : Type} (m : M α) : Prop where
  others : ∀ w s', s' ≠ s → (m w).2.srcs s' = w.srcs s'
  fns : ∀ w, (m w).2.fns = w.fns
  suffix : ∀ w, ((m w).2.srcs s).script <:+ (w.srcs s).script

/-- the value has an ordering key (objects, ints, bools): `<` between two such values is defined -/
def Val.orderable (v : Val) : Bool := v.key?.isSome

/-- the ordering key as an integer (`0` for unorderable values; only used under `orderable`) -/
def Val.ikey (v : Val) : Int := v.key?.getD 0

namespace ListSpec

/-- the visible events of pulling the items `xs` one after the other from source `s` -/
def pullLog (s : Nat) (xs : List Val) : List Ev := xs.flatMap (fun x => [Ev.pull s, Ev.item s x])

/-- the visible events of the pull that finds source `s` exhausted -/
def endLog (s : Nat) : List Ev := [Ev.pull s, Ev.endd s]

/-- the visible events of applying the optional key function to item `x` (none for `key=None`) -/
def keyLog (fn : Option Nat) (kf : Val → Val) (x : Val) : List Ev :=
  match fn with
  | some f => [Ev.call f [x], Ev.ret f (kf x)]
  | none => []

/-- pulling the items `xs` one after the other, the key function applied to each item as it arrives -/
def keyedPullLog (s : Nat) (fn : Option Nat) (kf : Val → Val) (xs : List Val) : List Ev :=
  xs.flatMap (fun x => [Ev.pull s, Ev.item s x] ++ keyLog fn kf x)

/-- the visible events of `reduce` from accumulator `acc`: each item is pulled, then the function is
    applied to the accumulator so far and the item -/
def reduceLog (s f : Nat) (q : List Val → Val) : Val → List Val → List Ev
  | _, [] => endLog s
  | acc, x :: xs => [Ev.pull s, Ev.item s x, Ev.call f [acc, x], Ev.ret f (q [acc, x])] ++ reduceLog s f q (q [acc, x]) xs

/-! ## all / any -/

/-- how many items `all` consumes: up to and including the first falsy one -/
def allConsumed (items : List Val) : Nat := items.findIdx (fun x => !x.truthy) + 1

/-- how many items `any` consumes: up to and including the first truthy one -/
def anyConsumed (items : List Val) : Nat := items.findIdx (fun x => x.truthy) + 1

/-! ## sum -/

/-- `sum(items, start)`: left fold of `+`; the first addition that fails ends it with that error -/
def foldAdd : Val → List Val → Except Exc Val
  | total, [] => .ok total
  | total, x :: xs =>
    match total.add x with
    | .ok t => foldAdd t xs
    | .error e => .error e

/-! ## min / max -/

/-- scan for the first minimal item: `best` is replaced only by a **strictly** smaller key -/
def firstMinFrom (ik : Val → Int) : Val → List Val → Val
  | best, [] => best
  | best, x :: xs => if ik x < ik best then firstMinFrom ik x xs else firstMinFrom ik best xs

/-- scan for the first maximal item: `best` is replaced only by a **strictly** larger key -/
def firstMaxFrom (ik : Val → Int) : Val → List Val → Val
  | best, [] => best
  | best, x :: xs => if ik best < ik x then firstMaxFrom ik x xs else firstMaxFrom ik best xs

/-- the scan of `min_max` with Python's `<` on arbitrary (possibly unorderable) keys `kf x`:
    `max` asks `key(best) < key(x)`, `min` asks `key(x) < key(best)`; a comparison that is not
    defined ends the scan with its `TypeError` -/
def scanBest (isMax : Bool) (kf : Val → Val) : Val → List Val → Except Exc Val
  | best, [] => .ok best
  | best, x :: xs =>
    match (if isMax then Val.lt (kf best) (kf x) else Val.lt (kf x) (kf best)) with
    | .ok true => scanBest isMax kf x xs
    | .ok false => scanBest isMax kf best xs
    | .error e => .error e

/-- the first item whose key is minimal (`none` on the empty list) -/
def firstMin (ik : Val → Int) : List Val → Option Val
  | [] => none
  | x :: xs => some (firstMinFrom ik x xs)

/-- the first item whose key is maximal (`none` on the empty list) -/
def firstMax (ik : Val → Int) : List Val → Option Val
  | [] => none
  | x :: xs => some (firstMaxFrom ik x xs)

/-- `min`/`max` in one: `isMax` selects the direction -/
def firstBest (isMax : Bool) (ik : Val → Int) (items : List Val) : Option Val :=
  if isMax then firstMax ik items else firstMin ik items

/-! ## reduce -/

/-- `functools.reduce(q, items[, initial])` for a pure binary function `q` (given on argument lists):
    `none` = the `TypeError` of an empty input without initial -/
def reduce (q : List Val → Val) : Option Val → List Val → Option Val
  | some init, items => some (items.foldl (fun acc x => q [acc, x]) init)
  | none, [] => none
  | none, x :: xs => some (xs.foldl (fun acc x => q [acc, x]) x)

/-! ## sorted / nlargest / nsmallest -/

/-- the comparison `list.sort` uses on items with integer keys `ik`; with `reverse` the order is
    flipped but equal keys still compare as "already in order" (so ties keep their input order) -/
def sortLe (reverse : Bool) (ik : Val → Int) (a b : Val) : Bool :=
  if reverse then decide (ik b ≤ ik a) else decide (ik a ≤ ik b)

/-- `sorted(items, key=, reverse=)`: the stable merge sort of core Lean by key -/
def sorted (reverse : Bool) (ik : Val → Int) (items : List Val) : List Val :=
  items.mergeSort (sortLe reverse ik)

/-- `heapq.nlargest(n, …)` (`largest = true`) / `heapq.nsmallest(n, …)`: `sorted(…)[:n]` -/
def nBest (largest : Bool) (n : Nat) (ik : Val → Int) (items : List Val) : List Val :=
  (sorted largest ik items).take n

/-! ## A concrete fault-free world (used by the satisfiability `example`s of `Properties/C02.lean`) -/

/-- every source is an async generator scripted to deliver `items`; callable `0` returns its first
    argument (an identity key function), every other callable returns its last argument (as a
    binary function: "take the right operand"); the consumer exhausts -/
def exampleWorld (items : List Val) : World :=
  { srcs := fun _ => { kind := .agen, script := items.map Resp.item },
    fns := fun f _ args => if f = 0 then .ok (args.headD .none) else .ok (args.getLastD .none),
    calls := fun _ => 0, cons := .run 0 .exhaust, vis := [], rel := [] }

end ListSpec
end AsyncVerif
