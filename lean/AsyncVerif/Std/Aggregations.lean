import AsyncVerif.Core.Prims
/-!
# Aggregations and `heapq.merge`: the CPython algorithms in the DSL, and list-level specifications

`builtin_sum`, `min_max`, `functools_reduce`, `list`/`tuple` constructors, `sorted` (with `list.sort`
abstracted as a stable sort that raises `TypeError` when it has to compare unorderable items),
`heapq.merge`
(heap abstracted as "the minimum entry under the entry order").
-/
namespace AsyncVerif.Std

open AsyncVerif

/-- `builtin_sum`: left fold with `+` -/
def sumLoop (s : Nat) : Val → Nat → M Val
  | _, 0 => raise .outOfFuel
  | total, fuel+1 => do
    match ← pull s with
    | none => pure total
    | some x => do
      let t ← liftExc (total.add x)
      sumLoop s t fuel

/-- key of an item: the user's key function, or the item itself -/
def keyOf (fn : Option Nat) (x : Val) : M Val :=
  match fn with
  | some f => call f [x]
  | none => pure x

/-- `min_max` loop: `op = Py_LT` for min, `Py_GT` for max; strict, so the first extreme item stays -/
def mmLoop (fn : Option Nat) (isMax : Bool) (s : Nat) : Val → Val → Nat → M Val
  | _, _, 0 => raise .outOfFuel
  | best, bk, fuel+1 => do
    match ← pull s with
    | none => pure best
    | some x => do
      let k ← keyOf fn x
      let better ← liftExc (if isMax then Val.lt bk k else Val.lt k bk)
      if better then mmLoop fn isMax s x k fuel else mmLoop fn isMax s best bk fuel

/-- `min_max`: empty input gives the default untouched, or `ValueError` -/
def minmax (fn : Option Nat) (isMax : Bool) (default : Option Val) (s : Nat) (fuel : Nat) : M Val := do
  match ← pull s with
  | none =>
    match default with
    | some d => pure d
    | none => raise .valueError
  | some x => do
    let k ← keyOf fn x
    mmLoop fn isMax s x k fuel

/-- `functools_reduce` -/
def reduceLoop (f : Nat) (s : Nat) : Val → Nat → M Val
  | _, 0 => raise .outOfFuel
  | acc, fuel+1 => do
    match ← pull s with
    | none => pure acc
    | some x => do
      let t ← call f [acc, x]
      reduceLoop f s t fuel

def reduce (f : Nat) (initial : Option Val) (s : Nat) (fuel : Nat) : M Val := do
  let first ← match initial with
    | some v => pure v
    | none => tryCatchStop (anext s) (raise .typeError)
  reduceLoop f s first fuel

/-- collect every item (`list(iterable)`) -/
def collectAll (s : Nat) : List Val → Nat → M (List Val)
  | _, 0 => raise .outOfFuel
  | acc, fuel+1 => do
    match ← pull s with
    | none => pure acc
    | some x => collectAll s (acc ++ [x]) fuel

/-- collect `(key(item), item)` pairs, key applied as each item arrives -/
def collectKeyed (fn : Option Nat) (s : Nat) : List (Val × Val) → Nat → M (List (Val × Val))
  | _, 0 => raise .outOfFuel
  | acc, fuel+1 => do
    match ← pull s with
    | none => pure acc
    | some x => do
      let k ← keyOf fn x
      collectKeyed fn s (acc ++ [(k, x)]) fuel

/-- `a ≤ b` on sort keys (both orderable) -/
def keyLe (a b : Val) : Bool :=
  match a.key?, b.key? with
  | some x, some y => decide (x ≤ y)
  | _, _ => true

/-- `list.sort(reverse=…)` on `(key, item)` pairs: a stable sort (`List.mergeSort`); with
    `reverse` equal keys still keep their original order.  `TypeError` if two or more items have to
    be compared and one of them is unorderable. -/
def sortKeyed (reverse : Bool) (l : List (Val × Val)) : Except Exc (List Val) :=
  if l.length ≥ 2 ∧ l.any (fun p => p.1.key?.isNone) then .error .typeError
  else
    let sorted := if reverse then l.mergeSort (fun a b => keyLe b.1 a.1) else l.mergeSort (fun a b => keyLe a.1 b.1)
    .ok (sorted.map (·.2))

/-- `sorted(iterable, key=, reverse=)` -/
def sorted (fn : Option Nat) (reverse : Bool) (s : Nat) (fuel : Nat) : M Val := do
  let keyed ← collectKeyed fn s [] fuel
  let r ← liftExc (sortKeyed reverse keyed)
  pure (.lst r)

/-! `heapq.nlargest` / `heapq.nsmallest`: see `Std/Select.lean` (the bounded-heap algorithms) -/

/-! ## merge -/

/-- one live input of `merge`: current head, its key, the source, its position -/
structure Entry where
  head : Val
  key : Val
  src : Nat
  idx : Nat

/-- entry order of the heap: key order (flipped by `reverse`), ties to the lower position -/
def Entry.before (reverse : Bool) (a b : Entry) : Bool :=
  match a.key.key?, b.key.key? with
  | some x, some y =>
    if x = y then decide (a.idx < b.idx)
    else if reverse then decide (y < x) else decide (x < y)
  | _, _ => decide (a.idx < b.idx)

/-- the minimum entry (`heap[0]`) and the others -/
def popMin (reverse : Bool) : List Entry → Option (Entry × List Entry)
  | [] => none
  | e :: rest =>
    match popMin reverse rest with
    | none => some (e, [])
    | some (m, others) => if Entry.before reverse m e then some (m, e :: others) else some (e, m :: others)

/-- collect the first item of every input, in order -/
def heads (fn : Option Nat) : List Nat → Nat → List Entry → M (List Entry)
  | [], _, acc => pure acc
  | s :: rest, idx, acc => do
    match ← pull s with
    | none => heads fn rest (idx + 1) acc
    | some x => do
      let k ← keyOf fn x
      heads fn rest (idx + 1) (acc ++ [{ head := x, key := k, src := s, idx := idx }])

/-- the merging loop; the last remaining input is passed through without key calls -/
def mergeLoop (fn : Option Nat) (reverse : Bool) : List Entry → Nat → M Unit
  | _, 0 => raise .outOfFuel
  | [], _ => pure ()
  | [e], fuel+1 => do
    yieldV e.head
    forEach e.src (fun x => do yieldV x; pure true) fuel
  | heap, fuel+1 =>
    match popMin reverse heap with
    | none => pure ()
    | some (e, others) => do
      yieldV e.head
      match ← pull e.src with
      | none => mergeLoop fn reverse others fuel
      | some x => do
        let k ← keyOf fn x
        mergeLoop fn reverse ({ e with head := x, key := k } :: others) fuel

/-- `heapq.merge(*iterables, key=, reverse=)` -/
def merge (fn : Option Nat) (reverse : Bool) (srcs : List Nat) (fuel : Nat) : M Unit := do
  let hs ← heads fn srcs 0 []
  mergeLoop fn reverse hs fuel

/-! ## `set` / `dict`: the collection is modelled by the list of its distinct elements in first-insertion order -/

mutual
/-- can the value be a set element / dict key: lists are unhashable, tuples are hashable iff their members are -/
def hashable : Val → Bool
  | .lst _ => false
  | .tup vs => hashableList vs
  | _ => true
def hashableList : List Val → Bool
  | [] => true
  | v :: r => hashable v && hashableList r
end

mutual
/-- `hash(a) == hash(b) and a == b` on the value domain: user items by key (only among themselves), numbers
    and bools by numeric value, `None`, the fill object, tuples elementwise -/
def hashEq : Val → Val → Bool
  | .obj _ k, .obj _ l => k == l
  | .int n, .int m => n == m
  | .int n, .bool b => n == (if b then 1 else 0)
  | .bool b, .int n => n == (if b then 1 else 0)
  | .bool a, .bool b => a == b
  | .none, .none => true
  | .fill, .fill => true
  | .tup a, .tup b => hashEqList a b
  | _, _ => false
def hashEqList : List Val → List Val → Bool
  | [], [] => true
  | x :: xs, y :: ys => hashEq x y && hashEqList xs ys
  | _, _ => false
end

/-- `set.add`: an element equal to one already present is dropped (the first one stays) -/
def setInsert (acc : List Val) (x : Val) : List Val :=
  if acc.any (fun y => hashEq y x) then acc else acc ++ [x]

/-- `{element async for element in it}` / `set(iterable)`: an unhashable element raises `TypeError` as it arrives -/
def setLoop (s : Nat) : List Val → Nat → M (List Val)
  | _, 0 => raise .outOfFuel
  | acc, fuel+1 => do
    match ← pull s with
    | none => pure acc
    | some x =>
      if hashable x then setLoop s (setInsert acc x) fuel else raise .typeError

/-- `d[k] = v`: an equal key keeps its first key object and position, the value is replaced -/
def dictInsert (acc : List (Val × Val)) (k v : Val) : List (Val × Val) :=
  if acc.any (fun p => hashEq p.1 k) then acc.map (fun p => if hashEq p.1 k then (p.1, v) else p)
  else acc ++ [(k, v)]

/-- `key, value = item`: a two-element tuple or list; another length is `ValueError`, a non-sequence `TypeError` -/
def unpackPair : Val → Except Exc (Val × Val)
  | .tup [k, v] => .ok (k, v)
  | .lst [k, v] => .ok (k, v)
  | .tup _ => .error .valueError
  | .lst _ => .error .valueError
  | _ => .error .typeError

/-- `{key: value async for key, value in it}` / `dict(iterable)` -/
def dictLoop (s : Nat) : List (Val × Val) → Nat → M (List (Val × Val))
  | _, 0 => raise .outOfFuel
  | acc, fuel+1 => do
    match ← pull s with
    | none => pure acc
    | some x => do
      let (k, v) ← liftExc (unpackPair x)
      if hashable k then dictLoop s (dictInsert acc k v) fuel else raise .typeError

/-- the value a set / dict is reported as: its elements / `(key, value)` pairs in insertion order -/
def setVal (l : List Val) : Val := .lst l
def dictVal (l : List (Val × Val)) : Val := .lst (l.map fun p => .tup [p.1, p.2])

/-- `builtins.set(iterable)` / `builtins.dict(iterable)` (the CPython twins) -/
def set (s : Nat) (fuel : Nat) : M Val := do pure (setVal (← setLoop s [] fuel))
def dict (s : Nat) (fuel : Nat) : M Val := do pure (dictVal (← dictLoop s [] fuel))

/-! ## `dict(iterable, **kwargs)` -/

/-- `base_dict.update(kwargs)`: `base_dict[k] = v` for every keyword, in keyword order.  (Python keywords are
    `str`, hence hashable; the check keeps the model total on the value domain: an unhashable key is `TypeError`
    as for every other `d[k] = v`) -/
def dictUpdateKw : List (Val × Val) → List (Val × Val) → M (List (Val × Val))
  | acc, [] => pure acc
  | acc, (k, v) :: rest => if hashable k then dictUpdateKw (dictInsert acc k v) rest else raise .typeError

/-- CPython `dict(iterable, **kwargs)` (`dict_update_common`): the pairs of the iterable are merged first, then
    the keywords (in keyword order) -/
def dictKw (kw : List (Val × Val)) (s : Nat) (fuel : Nat) : M Val := do
  let base ← dictLoop s [] fuel
  let base ← dictUpdateKw base kw
  pure (dictVal base)

end AsyncVerif.Std
