import AsyncVerif.Core.Prims
import AsyncVerif.Proofs.KindFree
import AsyncVerif.Std.AggSpec
import AsyncVerif.Std.Aggregations
/-!
# List-level specifications of the iterator tools (C01) and the hypotheses of the value theorems

What each tool *means* on plain lists: core `List` functions where one exists, a few short
structural recursions otherwise.  No Mathlib, no proofs.  `yields` projects the visible log of a run
to the sequence of values handed to the consumer; `Exhausting` / `FeedsL` / `PureFn` describe a
fault-free world: the consumer takes everything, a source delivers a given list of items and then
ends, a user callable is a pure function of its arguments.
-/
namespace AsyncVerif

/-- the consumer keeps asking until the generator ends (and never closes or throws) -/
def Exhausting (w : World) : Prop := w.cons = .run 0 .exhaust

/-- source `s` is usable and will deliver exactly `items`, without faults, and then end -/
def FeedsL (w : World) (s : Nat) (items : List Val) : Prop :=
  (w.srcs s).script = items.map Resp.item ∧ (w.srcs s).status.live = true

/-- run in world `w`, the generator `m` ends with `r` and hands exactly `ys` to the consumer -/
def Produces (m : M Unit) (w : World) (r : Except Exc Unit) (ys : List Val) : Prop :=
  (m w).1 = r ∧ yields (m w).2.vis = yields w.vis ++ ys

/-- numbers: the values Python's `+` (as used by `accumulate` without a function) is defined on -/
def Val.isNum : Val → Bool
  | .int _ => true
  | .bool _ => true
  | _ => false

namespace ListSpec

/-- Python `a + b` on numbers (`None` stands for "undefined": never reached on numbers) -/
def plus (a b : Val) : Val :=
  match a.add b with
  | .ok v => v
  | .error _ => .none

/-- the test applied by `filter` / `filterfalse`: the user predicate's result, or the item itself -/
def pred (fn : Option Nat) (q : List Val → Val) (x : Val) : Bool :=
  match fn with
  | some _ => (q [x]).truthy
  | none => x.truthy

/-- `filter(fn, items)` -/
def filter (fn : Option Nat) (q : List Val → Val) (items : List Val) : List Val :=
  items.filter (pred fn q)

/-- `itertools.filterfalse(fn, items)` -/
def filterfalse (fn : Option Nat) (q : List Val → Val) (items : List Val) : List Val :=
  items.filter (fun x => !pred fn q x)

/-- `enumerate(items, start)`: `(start, x0), (start+1, x1), …` -/
def enumerate (start : Int) (items : List Val) : List Val :=
  items.zipIdx.map (fun p => Val.tup [.int (start + (p.2 : Int)), p.1])

/-- `itertools.takewhile(f, items)` -/
def takewhile (q : List Val → Val) (items : List Val) : List Val :=
  items.takeWhile (fun x => (q [x]).truthy)

/-- `itertools.dropwhile(f, items)` -/
def dropwhile (q : List Val → Val) (items : List Val) : List Val :=
  items.dropWhile (fun x => (q [x]).truthy)

/-- `itertools.starmap(f, rows)` where every item is the tuple of a row -/
def starmap (q : List Val → Val) (rows : List (List Val)) : List Val := rows.map q

/-- running fold: `op t x0, op (op t x0) x1, …` (`scanl` without its first element) -/
def scan (op : Val → Val → Val) : Val → List Val → List Val
  | _, [] => []
  | t, x :: xs => op t x :: scan op (op t x) xs

/-- `itertools.accumulate(items, op, initial=…)`; `none` = `TypeError` (empty input, no initial:
    the documented deviation of asyncstdlib, written into the twin as well) -/
def accumulate (op : Val → Val → Val) : Option Val → List Val → Option (List Val)
  | some v, items => some (v :: scan op v items)
  | none, x :: xs => some (x :: scan op x xs)
  | none, [] => none

/-- how an `accumulate` run ends: normally, or `TypeError` for an empty input without `initial` -/
def accResult (r : Option (List Val)) : Except Exc Unit :=
  match r with
  | some _ => .ok ()
  | none => .error .typeError

/-- `itertools.pairwise(items)` -/
def pairwise (items : List Val) : List Val :=
  (items.zip items.tail).map (fun p => Val.tup [p.1, p.2])

/-- chunks of `n` (the last one may be shorter); the first argument bounds the number of chunks -/
def chunksN (n : Nat) : Nat → List Val → List (List Val)
  | 0, _ => []
  | k+1, l => if l.isEmpty then [] else l.take n :: chunksN n k (l.drop n)

/-- `itertools.batched(items, n)` for `n ≥ 1`, as lists -/
def chunks (n : Nat) (items : List Val) : List (List Val) := chunksN n items.length items

/-- `itertools.batched(items, n)` -/
def batched (n : Nat) (items : List Val) : List Val := (chunks n items).map Val.tup

/-- what `batched(items, n, strict=True)` yields: only the full chunks (then `ValueError` if there
    is a short tail) -/
def batchedStrict (n : Nat) (items : List Val) : List Val :=
  ((chunks n items).filter (fun c => c.length == n)).map Val.tup

/-- one row: the heads of all lists, `fillv` where a list has ended -/
def column (fillv : Val) (ls : List (List Val)) : List Val := ls.map (fun l => l.headD fillv)

/-- the first `n` rows of the transposition, padded with `fillv` -/
def rowsN (fillv : Val) : Nat → List (List Val) → List (List Val)
  | 0, _ => []
  | n+1, ls => column fillv ls :: rowsN fillv n (ls.map List.tail)

/-- length of the shortest list (0 for no lists) -/
def minLen (ls : List (List Val)) : Nat := ((ls.map List.length).min?).getD 0

/-- length of the longest list (0 for no lists) -/
def maxLen (ls : List (List Val)) : Nat := ((ls.map List.length).max?).getD 0

/-- `zip(*ls)`: rows up to the shortest input (no padding ever happens) -/
def zipRows (ls : List (List Val)) : List (List Val) := rowsN .none (minLen ls) ls

/-- `zip(*ls)` as tuples -/
def zip (ls : List (List Val)) : List Val := (zipRows ls).map Val.tup

/-- `map(f, *ls)` -/
def map (q : List Val → Val) (ls : List (List Val)) : List Val := (zipRows ls).map q

/-- do all inputs have the same length? (`zip(strict=True)` raises `ValueError` otherwise) -/
def sameLen (ls : List (List Val)) : Bool := ls.all (fun l => l.length == minLen ls)

/-- `itertools.zip_longest(*ls, fillvalue=fillv)`: rows up to the longest input, padded -/
def zipLongest (fillv : Val) (ls : List (List Val)) : List Val :=
  (rowsN fillv (maxLen ls) ls).map Val.tup

/-- `itertools.chain(*ls)` -/
def chain (ls : List (List Val)) : List Val := ls.flatten

/-- the first `m` elements of `cur` followed by `items` repeated for ever (nothing more once `cur`
    is used up if there are no items) -/
def cycleTake (items : List Val) : Nat → List Val → List Val
  | 0, _ => []
  | m+1, x :: cur => x :: cycleTake items m cur
  | m+1, [] =>
    match items with
    | [] => []
    | x :: rest => x :: cycleTake items m rest

/-- the first `m` elements of `items` repeated for ever: what a consumer of `itertools.cycle(items)`
    sees if it stops after `m` items -/
def cyclePrefix (items : List Val) (m : Nat) : List Val := cycleTake items m []

/-- `itertools.compress(data, selectors)`: the items of `data` paired positionally with `sel`, up to
    the shorter of the two, kept when the selector is truthy -/
def compress (data sel : List Val) : List Val :=
  (data.zip sel).filterMap (fun p => if p.2.truthy then some p.1 else none)

/-- `iter(callable, sentinel)` on the list `rs` of the callable's successive results: the results before
    the first one that is `==` to the sentinel -/
def iterSentinel (sentinel : Val) (rs : List Val) : List Val :=
  rs.takeWhile (fun v => !(v.pyEq sentinel))

/-- the Python slice `items[start:stop:step]` (`step ≥ 1`, `stop = none` for "to the end"):
    cut at `stop`, drop `start`, keep the elements whose offset is a multiple of `step` -/
def islice (start : Nat) (stop : Option Nat) (step : Nat) (items : List Val) : List Val :=
  let upTo := match stop with
    | some st => items.take st
    | none => items
  (((upTo.drop start).zipIdx).filter (fun p => p.2 % step == 0)).map (fun p => p.1)

/-! ### `heapq.merge` -/

/-- the sort key of an item: the user's key function applied to it, or the item itself -/
def keyFn (fn : Option Nat) (q : List Val → Val) (x : Val) : Val :=
  match fn with
  | some _ => q [x]
  | none => x

/-- does a head with key `ka` from input number `i` go before a head with key `kb` from input number
    `j`?  Key order (descending for `reverse`); equal keys: the lower input number first. -/
def goesBefore (reverse : Bool) (ka : Val) (i : Nat) (kb : Val) (j : Nat) : Bool :=
  match ka.key?, kb.key? with
  | some x, some y =>
    if x = y then decide (i < j)
    else if reverse then decide (y < x) else decide (x < y)
  | _, _ => decide (i < j)

/-- the input to take from next, with its head: the best head among the inputs (numbered from `i`) -/
def pickFrom (kf : Val → Val) (reverse : Bool) : Nat → List (List Val) → Option (Nat × Val)
  | _, [] => none
  | i, [] :: rest => pickFrom kf reverse (i + 1) rest
  | i, (x :: _) :: rest =>
    match pickFrom kf reverse (i + 1) rest with
    | none => some (i, x)
    | some (j, y) => if goesBefore reverse (kf y) j (kf x) i then some (j, y) else some (i, x)

/-- greedy k-way merge, at most `n` steps: output the best head, continue with that input's tail -/
def mergeN (kf : Val → Val) (reverse : Bool) : Nat → List (List Val) → List Val
  | 0, _ => []
  | n+1, ls =>
    match pickFrom kf reverse 0 ls with
    | none => []
    | some (i, x) => x :: mergeN kf reverse n (ls.modify i List.tail)

/-- `heapq.merge(*ls, key=kf, reverse=reverse)`: the greedy stable k-way merge — repeatedly the
    smallest head (largest for `reverse`), ties to the lower input number -/
def merge (kf : Val → Val) (reverse : Bool) (ls : List (List Val)) : List Val :=
  mergeN kf reverse ((ls.map List.length).sum) ls

/-! ## insertion-ordered dictionaries (association lists; key equality = same hash and `==`, `Std.hashEq`) -/

/-- `d[k] = v` on an insertion-ordered association list: an existing (equal) key keeps its position and its key
    object and takes the new value; a new key is appended at the end -/
def dictUpdate : List (Val × Val) → Val → Val → List (Val × Val)
  | [], k, v => [(k, v)]
  | (k', v') :: rest, k, v =>
    if Std.hashEq k' k then (k', v) :: rest else (k', v') :: dictUpdate rest k v

/-- `d.update(kw)`: `dictUpdate` for every `(key, value)` of `kw`, in order -/
def dictUpdateAll (d : List (Val × Val)) (kw : List (Val × Val)) : List (Val × Val) :=
  kw.foldl (fun a p => dictUpdate a p.1 p.2) d

/-- `d.get(k)`: the value stored under the (first) key equal to `k` -/
def dictLookup : List (Val × Val) → Val → Option Val
  | [], _ => none
  | (k', v') :: rest, k => if Std.hashEq k' k then some v' else dictLookup rest k

/-- the keys of a dictionary are pairwise different (no key equals an earlier one) -/
def DictKeysDistinct (d : List (Val × Val)) : Prop :=
  d.Pairwise (fun p q => Std.hashEq p.1 q.1 = false)

end ListSpec

end AsyncVerif
