import AsyncVerif.Std.Aggregations
/-!
# Bounded selection: `heapq.nlargest` / `heapq.nsmallest` as algorithms

asyncstdlib's `_largest` (heapq.py) and CPython's `heapq.nlargest` / `heapq.nsmallest` (general path) keep a heap of at
most `n` entries `(ordered key, stamp, item)`.  The first `n` items are stamped with their position, later admissions
with a running counter; a new item is let in only if its key is *strictly* better than the worst key in the heap
(`worst_key < item_key`), replacing the worst entry; the heap is sorted at the end.

Modelled here as written, with one abstraction (trusted base): the binary heap of `heapq` is presented as the list of its
entries in order, best first — `heap[0]`, the minimum of the min-heap, is the *last* element, `heapreplace` is "drop the
last, insert in order", `heapify` is "insert one by one", and the final `sort` of an ordered list is the identity.
Entry comparison is Python's tuple comparison: `==` on the keys first (then the stamps decide), otherwise `<` on the keys
(which raises `TypeError` for unorderable keys).

The four variants differ only in `Cfg`:
* asyncstdlib `nlargest`  : keys as they are,  stamps `0, -1, -2, …` (`index * order_sign`, `order_sign = -1`), min-heap
* asyncstdlib `nsmallest` : keys wrapped in `ReverseLT`, stamps `0, -1, -2, …`, min-heap
* CPython `nlargest`      : as asyncstdlib's
* CPython `nsmallest`     : keys as they are, stamps `0, 1, 2, …`, max-heap (`_heapify_max`, `_heapreplace_max`)
In all of them, among equal keys the later arrival is the worse entry.
-/
namespace AsyncVerif.Sel

open AsyncVerif

/-- one heap entry: `(ordered(key), stamp, item)` -/
structure VE where
  key : Val
  idx : Int
  item : Val
  deriving Repr

/-- direction of the selection and of the stamps -/
structure Cfg where
  largest : Bool    -- `nlargest` (true) / `nsmallest`
  pos : Bool        -- stamps count upwards (CPython `nsmallest`) / downwards (everything else)
  deriving Repr, DecidableEq

/-- stamp `i` marks a later arrival than stamp `j` -/
def later (pos : Bool) (i j : Int) : Bool := if pos then decide (j < i) else decide (i < j)

/-- stamp of the `i`-th of the first `n` items -/
def stamp (pos : Bool) (i : Nat) : Int := if pos then (i : Int) else -(i : Int)

/-- `next_index += order_sign` -/
def nextStamp (pos : Bool) (i : Int) : Int := if pos then i + 1 else i - 1

/-- key `x` is strictly better than key `y` (`y < x` for `nlargest`, `x < y` for `nsmallest`); `TypeError` if unorderable -/
def kbV (largest : Bool) (x y : Val) : Except Exc Bool := if largest then Val.lt y x else Val.lt x y

/-- entry `e` is worse than entry `a` (tuple comparison: equal keys → the stamps decide, otherwise `<` on the keys) -/
def worseV (c : Cfg) (e a : VE) : Except Exc Bool :=
  if Val.pyEq e.key a.key then .ok (later c.pos e.idx a.idx) else kbV c.largest a.key e.key

/-- insert in order, best first: `e` passes every entry it is worse than -/
def insV (c : Cfg) (e : VE) : List VE → Except Exc (List VE)
  | [] => .ok [e]
  | a :: l => do
    if (← worseV c e a) then
      let r ← insV c e l
      pure (a :: r)
    else pure (e :: a :: l)

/-- `heapify` of `[(ordered(key(item)), index * order_sign, item) for index, item in zip(range(n), it)]` -/
def heapifyV (c : Cfg) (first : List (Val × Val)) : Except Exc (List VE) :=
  first.zipIdx.foldlM (fun h (p : (Val × Val) × Nat) => insV c ⟨p.1.1, stamp c.pos p.2, p.1.2⟩ h) []

/-- one round of the scan: `if worst_key < item_key: heapreplace(...); next_index += order_sign` -/
def acceptV (c : Cfg) (st : List VE × Int) (k x : Val) : Except Exc (List VE × Int) :=
  match st.1.getLast? with
  | none => .ok st
  | some worst => do
    if (← kbV c.largest k worst.key) then
      let h ← insV c ⟨k, st.2, x⟩ st.1.dropLast
      pure (h, nextStamp c.pos st.2)
    else pure st

/-- the whole selection on the `(key, item)` pairs in arrival order -/
def selectV (c : Cfg) (n : Nat) (keyed : List (Val × Val)) : Except Exc (List Val) :=
  if (keyed.take n).isEmpty then .ok []
  else do
    let h0 ← heapifyV c (keyed.take n)
    let st ← (keyed.drop n).foldlM (fun st p => acceptV c st p.1 p.2) (h0, stamp c.pos n)
    pure (st.1.map (·.item))

/-! ## The same selection without stamps (what the stamps implement): equal keys keep their arrival order -/

/-- insert in order by key alone: `e` passes every entry whose key is equal or strictly better -/
def insKV (largest : Bool) (e : Val × Val) : List (Val × Val) → Except Exc (List (Val × Val))
  | [] => .ok [e]
  | a :: l => do
    if (← (if Val.pyEq e.1 a.1 then .ok true else kbV largest a.1 e.1)) then
      let r ← insKV largest e l
      pure (a :: r)
    else pure (e :: a :: l)

def acceptKV (largest : Bool) (acc : List (Val × Val)) (e : Val × Val) : Except Exc (List (Val × Val)) :=
  match acc.getLast? with
  | none => .ok acc
  | some worst => do
    if (← kbV largest e.1 worst.1) then insKV largest e acc.dropLast else pure acc

def selectKV (largest : Bool) (n : Nat) (keyed : List (Val × Val)) : Except Exc (List Val) :=
  if (keyed.take n).isEmpty then .ok []
  else do
    let h0 ← (keyed.take n).foldlM (fun acc e => insKV largest e acc) []
    let acc ← (keyed.drop n).foldlM (acceptKV largest) h0
    pure (acc.map (·.2))

/-! ## Integer keys: no `TypeError`, plain functions -/

/-- integer key `x` strictly better than `y` -/
def kb (largest : Bool) (x y : Int) : Bool := if largest then decide (y < x) else decide (x < y)

/-- insert `e` in front of the first entry it is strictly better than -/
def insK (largest : Bool) (e : Int × Val) : List (Int × Val) → List (Int × Val)
  | [] => [e]
  | a :: l => if kb largest e.1 a.1 then e :: a :: l else a :: insK largest e l

/-- keep the best `n` while folding: the stamp-free meaning of the bounded heap -/
def selK (largest : Bool) (n : Nat) (keyed : List (Int × Val)) : List (Int × Val) :=
  keyed.foldl (fun acc e => (insK largest e acc).take n) []

/-- `sorted(items, key=key, reverse=largest)[:n]` on `(key, item)` pairs -/
def specLe (largest : Bool) (a b : Int × Val) : Bool := !(kb largest b.1 a.1)

def spec (largest : Bool) (n : Nat) (keyed : List (Int × Val)) : List (Int × Val) :=
  (keyed.mergeSort (specLe largest)).take n

end AsyncVerif.Sel

namespace AsyncVerif.Std

open AsyncVerif

/-- `[… async for index, item in zip(range(k), borrow(it))]`: `range` is asked first, so nothing is pulled for `k = 0`
    and no further pull follows the `k`-th item -/
def nbFirst (fn : Option Nat) (s : Nat) : Nat → List (Val × Val) → M (List (Val × Val))
  | 0, acc => pure acc
  | k+1, acc => do
    match ← pull s with
    | none => pure acc
    | some x => do
      let key ← keyOf fn x
      nbFirst fn s k (acc ++ [(key, x)])

/-- `async for item in iterator: item_key = ordered(await key(item)); <step>` -/
def nbScan (c : Sel.Cfg) (fn : Option Nat) (s : Nat) : List Sel.VE × Int → Nat → M (List Sel.VE × Int)
  | _, 0 => raise .outOfFuel
  | st, fuel+1 => do
    match ← pull s with
    | none => pure st
    | some x => do
      let key ← keyOf fn x
      let st' ← liftExc (Sel.acceptV c st key x)
      nbScan c fn s st' fuel

/-- the selection algorithm (`_largest` of asyncstdlib, general path of `heapq.nlargest` / `heapq.nsmallest`) -/
def nBestAlgo (c : Sel.Cfg) (n : Nat) (fn : Option Nat) (s : Nat) (fuel : Nat) : M Val := do
  let first ← nbFirst fn s n []
  if first.isEmpty then pure (.lst [])
  else do
    let h0 ← liftExc (Sel.heapifyV c first)
    let st ← nbScan c fn s (h0, Sel.stamp c.pos n) fuel
    pure (.lst (st.1.map (·.item)))

/-- CPython `heapq.nlargest(n, it, key)` / `heapq.nsmallest(n, it, key)`, general path (the `n == 1` and
    `n >= len(iterable)` short-cuts return the same value through `max`/`min`/`sorted`; not modelled) -/
def nBest (largest : Bool) (n : Nat) (fn : Option Nat) (s : Nat) (fuel : Nat) : M Val :=
  nBestAlgo ⟨largest, !largest⟩ n fn s fuel

end AsyncVerif.Std
