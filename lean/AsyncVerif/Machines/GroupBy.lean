/-!
# groupby (asyncstdlib/itertools.py `GroupBy`, `_Grouper`, `_GroupByState`) — model

`stepI` follows asyncstdlib's `GroupBy.__anext__` / `_Grouper.__anext__`;
`stepS` follows CPython's `groupby_next` / `_grouper_next` / `groupby_step` (itertoolsmodule.c).
Items carry their precomputed key; keys are compared with a decidable (hence reflexive) equality.
-/
namespace AsyncVerif.GroupBy

abbrev Val := Nat
abbrev Key := Nat

structure St where
  items : List (Val × Key)      -- remaining source items with their keys
  cur : Option Val              -- _current_value / currvalue (none = sentinel / NULL)
  curKey : Option Key           -- current_key / currkey
  tgt : Option Key              -- target_key / tgtkey (none = attribute not set / NULL)
  grp : Option Nat              -- current_group / currgrouper
  groups : List Key             -- target key of every group handed out (index = handle id)
  deriving DecidableEq, Repr

inductive Op | adv | grpNext (g : Nat) | grpClose (g : Nat)
  deriving DecidableEq, Repr

inductive Out | key (k : Key) (g : Nat) | item (v : Val) | stop | closed
  deriving DecidableEq, Repr

/-- `_GroupByState.step` / `groupby_step`: none = StopAsyncIteration (state unchanged) -/
def step (s : St) : Option St :=
  match s.items with
  | [] => none
  | (v, k) :: r => some { s with items := r, cur := some v, curKey := some k }

/-- `while state.current_key == target_key: await state.step()` over the remaining items
    (structural recursion on them); Bool = false when the source is exhausted -/
def scanL (t : Key) : List (Val × Key) → St → St × Bool
  | [], s => if s.curKey = some t then ({ s with items := [] }, false) else ({ s with items := [] }, true)
  | (v, k) :: r, s =>
    if s.curKey = some t then scanL t r { s with items := r, cur := some v, curKey := some k }
    else ({ s with items := (v, k) :: r }, true)

def scanI (t : Key) (s : St) : St × Bool := scanL t s.items s

def finish (s : St) : St × Out :=
  match s.curKey with
  | none => (s, .stop)   -- unreachable: a value implies a key
  | some k => ({ s with tgt := some k, grp := some s.groups.length, groups := s.groups ++ [k] },
               .key k s.groups.length)

/-- asyncstdlib `GroupBy.__anext__` -/
def advI (s0 : St) : St × Out :=
  let s := { s0 with grp := none }
  match (if s.cur.isNone then step s else some s) with
  | none => (s, .stop)
  | some s1 =>
    match s1.tgt with
    | none => finish s1
    | some t =>
      match scanI t s1 with
      | (s2, false) => (s2, .stop)
      | (s2, true) => finish s2

/-- CPython `groupby_next` loop, over the remaining items -/
def loopL : List (Val × Key) → St → St × Bool
  | [], s =>
    match s.curKey with
    | none => ({ s with items := [] }, false)
    | some ck =>
      match s.tgt with
      | none => ({ s with items := [] }, true)
      | some t => if t = ck then ({ s with items := [] }, false) else ({ s with items := [] }, true)
  | (v, k) :: r, s =>
    match s.curKey with
    | none => loopL r { s with items := r, cur := some v, curKey := some k }
    | some ck =>
      match s.tgt with
      | none => ({ s with items := (v, k) :: r }, true)
      | some t =>
        if t = ck then loopL r { s with items := r, cur := some v, curKey := some k }
        else ({ s with items := (v, k) :: r }, true)

def loopS (s : St) : St × Bool := loopL s.items s

def advS (s0 : St) : St × Out :=
  let s := { s0 with grp := none }
  match loopS s with
  | (s1, false) => (s1, .stop)
  | (s1, true) => finish s1

/-- `_Grouper.__anext__` / `_grouper_next` -/
def grpNext (s : St) (g : Nat) : St × Out :=
  if s.grp ≠ some g then (s, .stop) else
  match (if s.cur.isNone then step s else some s) with
  | none => (s, .stop)
  | some s1 =>
    if s.groups[g]? ≠ s1.curKey then (s1, .stop)
    else match s1.cur with
      | none => (s1, .stop)
      | some v => ({ s1 with cur := none }, .item v)

/-- `_Grouper.aclose`: a closed current group is detached (a stale one is left alone); nothing is read.
    itertools' group objects cannot be closed — the consumer simply drops them and never advances them again, which for
    the shared cursor is the same thing: the dropped group no longer steps it. -/
def grpClose (s : St) (g : Nat) : St := if s.grp = some g then { s with grp := none } else s

def stepI (s : St) : Op → St × Out
  | .adv => advI s | .grpNext g => grpNext s g | .grpClose g => (grpClose s g, .closed)
def stepS (s : St) : Op → St × Out
  | .adv => advS s | .grpNext g => grpNext s g | .grpClose g => (grpClose s g, .closed)

def run (f : St → Op → St × Out) : St → List Op → List Out
  | _, [] => []
  | s, op :: ops => (f s op).2 :: run f (f s op).1 ops

def init (items : List (Val × Key)) : St := ⟨items, none, none, none, none, []⟩

/-- Readable specification: maximal runs of equal keys -/
def runs : List (Val × Key) → List (Key × List Val)
  | [] => []
  | (v, k) :: r =>
    match runs r with
    | (k', vs) :: rest => if k = k' then (k, v :: vs) :: rest else (k, [v]) :: (k', vs) :: rest
    | [] => [(k, [v])]

end AsyncVerif.GroupBy
