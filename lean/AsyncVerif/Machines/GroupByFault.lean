import AsyncVerif.Machines.GroupBy
/-!
# groupby with FAILING key functions and FAILING sources — model (extends `Machines/GroupBy.lean`)

The source is a script of responses (`Resp`): one entry per pull (`anext(self._iterator)` / `PyIter_Next(gbo->it)`).

* `item v k`   — the pull yields `v`, the key function returns `k`;
* `keyErr v e` — the pull yields `v`, the key function raises `e`: `v` is consumed from the source and DROPPED
                 (`step`: `value = await anext(it); key = await key_func(value)` raises before the assignment
                 `self._current_value, self.current_key = value, key`; `groupby_step`: `newkey == NULL` →
                 `Py_DECREF(newvalue); return -1` with `currvalue`/`currkey` untouched);
* `srcErr e`   — the pull itself raises `e` (nothing is produced; the script entry is used up, the next pull of a
                 source that survives its own failure continues with the next entry).

`stepIF` follows asyncstdlib's `GroupBy.__anext__` / `_Grouper.__anext__` / `_GroupByState.step` path by path,
`stepSF` follows CPython 3.12's `groupby_next` / `_grouper_next` / `groupby_step` (itertoolsmodule.c).
The consumer catches the exception and carries on with the same handles: a failing operation returns the state
the object is left in (`exc e` output), and the next operation continues from there.
-/
namespace AsyncVerif.GroupByFault
open AsyncVerif.GroupBy (Val Key Op)

abbrev Exc := Nat

inductive Resp | item (v : Val) (k : Key) | keyErr (v : Val) (e : Exc) | srcErr (e : Exc)
  deriving DecidableEq, Repr

structure St where
  script : List Resp            -- remaining responses of the source / key function
  cur : Option Val              -- _current_value / currvalue (none = sentinel / NULL)
  curKey : Option Key           -- current_key / currkey
  tgt : Option Key              -- target_key / tgtkey (none = attribute not set / NULL)
  grp : Option Nat              -- current_group / currgrouper
  groups : List Key             -- target key of every group handed out (index = handle id)
  deriving DecidableEq, Repr

inductive Out | key (k : Key) (g : Nat) | item (v : Val) | stop | closed | exc (e : Exc)
  deriving DecidableEq, Repr

/-- One `_GroupByState.step` / `groupby_step` on a source whose next response is `x` (rest `r`):
    fetch, THEN compute the key, THEN store both.  `some e` = the step raised `e`; the state then only lost the
    script entry (`_current_value`/`current_key` resp. `currvalue`/`currkey` keep their previous contents). -/
def stepOn (x : Resp) (r : List Resp) (s : St) : St × Option Exc :=
  match x with
  | .item v k => ({ s with script := r, cur := some v, curKey := some k }, none)
  | .keyErr _ e => ({ s with script := r }, some e)
  | .srcErr e => ({ s with script := r }, some e)

/-- result of a step: new value stored | StopAsyncIteration / exhausted (state unchanged) | exception -/
inductive StepR | ok (s : St) | stop | exc (s : St) (e : Exc)
  deriving DecidableEq, Repr

/-- `_GroupByState.step` / `groupby_step` -/
def step (s : St) : StepR :=
  match s.script with
  | [] => .stop
  | x :: r =>
    match stepOn x r s with
    | (s1, none) => .ok s1
    | (s1, some e) => .exc s1 e

/-- `_GroupByState.maybe_step`: only step if there is no current value -/
def maybeStep (s : St) : StepR := if s.cur.isNone then step s else .ok s

/-- how a scan loop ends: on an item of another group | source exhausted | a step raised -/
inductive LoopR | found | stop | exc (e : Exc)
  deriving DecidableEq, Repr

/-- asyncstdlib: `while state.current_key == target_key: await state.step()` over the remaining script
    (structural recursion on it).  A raising step leaves the loop at once: the items scanned so far are gone,
    `_current_value`/`current_key` are those of the last successful step. -/
def scanL (t : Key) : List Resp → St → St × LoopR
  | [], s => if s.curKey = some t then ({ s with script := [] }, .stop) else ({ s with script := [] }, .found)
  | x :: r, s =>
    if s.curKey = some t then
      match stepOn x r s with
      | (s1, none) => scanL t r s1
      | (s1, some e) => (s1, .exc e)
    else ({ s with script := x :: r }, .found)

def scanI (t : Key) (s : St) : St × LoopR := scanL t s.script s

def finish (s : St) : St × Out :=
  match s.curKey with
  | none => (s, .stop)   -- unreachable: a value implies a key
  | some k => ({ s with tgt := some k, grp := some s.groups.length, groups := s.groups ++ [k] },
               .key k s.groups.length)

/-- asyncstdlib `GroupBy.__anext__`:
    `state.current_group = None` (BEFORE anything can fail: after a failing advance the previous group is detached);
    `await state.maybe_step()` (may stop / raise: state otherwise unchanged);
    if `target_key` is set: the scan loop (may stop / raise in the middle);
    then `target_key = current_key`, new `_Grouper`. -/
def advI (s0 : St) : St × Out :=
  let s := { s0 with grp := none }
  match maybeStep s with
  | .stop => (s, .stop)
  | .exc s1 e => (s1, .exc e)
  | .ok s1 =>
    match s1.tgt with
    | none => finish s1
    | some t =>
      match scanI t s1 with
      | (s2, .stop) => (s2, .stop)
      | (s2, .exc e) => (s2, .exc e)
      | (s2, .found) => finish s2

/-- CPython `groupby_next` loop head: `true` = fall through to `groupby_step`, `false` = `break`
    (`currkey == NULL` → step; `tgtkey == NULL` → break; `tgtkey == currkey` → step, else break) -/
def mustStep (s : St) : Bool :=
  match s.curKey with
  | none => true
  | some ck =>
    match s.tgt with
    | none => false
    | some t => decide (t = ck)

/-- CPython `groupby_next`: `for (;;) { …break…; if (groupby_step(gbo) < 0) return NULL; }` over the remaining
    script.  `groupby_step < 0` is either exhaustion (`PyIter_Next` returned NULL without an error: StopIteration)
    or an exception of the source / the key function (the fetched value is released, nothing stored). -/
def loopL : List Resp → St → St × LoopR
  | [], s => if mustStep s then ({ s with script := [] }, .stop) else ({ s with script := [] }, .found)
  | x :: r, s =>
    if mustStep s then
      match stepOn x r s with
      | (s1, none) => loopL r s1
      | (s1, some e) => (s1, .exc e)
    else ({ s with script := x :: r }, .found)

def loopS (s : St) : St × LoopR := loopL s.script s

/-- CPython `groupby_next`: `gbo->currgrouper = NULL` first (as in asyncstdlib), then the loop, then
    `tgtkey = currkey` and `_grouper_create` (which sets `currgrouper`). -/
def advS (s0 : St) : St × Out :=
  let s := { s0 with grp := none }
  match loopS s with
  | (s1, .stop) => (s1, .stop)
  | (s1, .exc e) => (s1, .exc e)
  | (s1, .found) => finish s1

/-- asyncstdlib `_Grouper.__anext__`: stale → stop; `await state.maybe_step()` (stop / raise: state unchanged and
    the group STAYS the current group); key changed → stop (the value stays buffered); else `consume_value()`. -/
def grpNextI (s : St) (g : Nat) : St × Out :=
  if s.grp ≠ some g then (s, .stop) else
  match maybeStep s with
  | .stop => (s, .stop)
  | .exc s1 e => (s1, .exc e)
  | .ok s1 =>
    if s.groups[g]? ≠ s1.curKey then (s1, .stop)
    else match s1.cur with
      | none => (s1, .stop)
      | some v => ({ s1 with cur := none }, .item v)

/-- CPython `_grouper_next`: `currgrouper != igo` → NULL; `if (currvalue == NULL) { if (groupby_step(gbo) < 0)
    return NULL; }`; `igo->tgtkey != currkey` → NULL; `r = currvalue; currvalue = NULL`. -/
def grpNextS (s : St) (g : Nat) : St × Out :=
  if s.grp ≠ some g then (s, .stop) else
  match s.cur with
  | none =>
    (match step s with
     | .stop => (s, .stop)
     | .exc s1 e => (s1, .exc e)
     | .ok s1 =>
       if s.groups[g]? ≠ s1.curKey then (s1, .stop)
       else match s1.cur with
         | none => (s1, .stop)
         | some v => ({ s1 with cur := none }, .item v))
  | some v =>
    if s.groups[g]? ≠ s.curKey then (s, .stop) else ({ s with cur := none }, .item v)

/-- `_Grouper.aclose` (see `GroupBy.grpClose`): nothing is read, nothing can fail -/
def grpClose (s : St) (g : Nat) : St := if s.grp = some g then { s with grp := none } else s

def stepIF (s : St) : Op → St × Out
  | .adv => advI s | .grpNext g => grpNextI s g | .grpClose g => (grpClose s g, .closed)
def stepSF (s : St) : Op → St × Out
  | .adv => advS s | .grpNext g => grpNextS s g | .grpClose g => (grpClose s g, .closed)

def run (f : St → Op → St × Out) : St → List Op → List Out
  | _, [] => []
  | s, op :: ops => (f s op).2 :: run f (f s op).1 ops

/-- number of script entries still unread after each operation -/
def remaining (f : St → Op → St × Out) : St → List Op → List Nat
  | _, [] => []
  | s, op :: ops => (f s op).1.script.length :: remaining f (f s op).1 ops

/-- number of script entries consumed so far (out of `n`) after each operation -/
def consumed (f : St → Op → St × Out) (n : Nat) (s : St) (ops : List Op) : List Nat :=
  (remaining f s ops).map (n - ·)

def init (script : List Resp) : St := ⟨script, none, none, none, none, []⟩

/-- a fault-free source: every pull yields an item whose key is computed -/
def ofItems (items : List (Val × Key)) : List Resp := items.map fun p => .item p.1 p.2

/-- the state of the fault-free machine as a state of this one -/
def embed (s : GroupBy.St) : St := ⟨ofItems s.items, s.cur, s.curKey, s.tgt, s.grp, s.groups⟩

def liftOut : GroupBy.Out → Out
  | .key k g => .key k g | .item v => .item v | .stop => .stop | .closed => .closed

end AsyncVerif.GroupByFault
