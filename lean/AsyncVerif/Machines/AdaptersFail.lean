import AsyncVerif.Machines.Adapters
/-!
# asynctools adapters on the FAILURE and EARLY-END paths — model

Companion of `Machines/Adapters.lean` (whose `Val`, `Exc`, `Res`, `Kind` are reused) for
`asyncstdlib/asynctools.py` `apply`, `await_each`, `any_iter`, `sync`.  What is new here:

* user awaitables are *numbered by their position* (`await i` = the `__await__` of the `i`-th
  argument / item was entered, `susp i j` = its `j`-th suspension reached the event loop), so the
  log says which argument was touched;
* the event loop (= the hand driver) may, instead of resuming a suspension, THROW an exception in
  (a cancellation).  A `Cut` `some (n, c)` means: resume the first `n` suspensions of the
  operation, throw exception number `c` into the next one.  User awaitables do not catch it;
* an iterable argument may produce its elements lazily (a generator): `produced i` = the body of
  the generator ran up to the `yield` of element `i`;
* `sync(f)`'s wrapper is called repeatedly, the user function answering differently each time.

One def per Python function / branch.  Core Lean only, no proofs: compiled into the driver.
-/
namespace AsyncVerif.AdaptersFail
open AsyncVerif.Adapters (Val Exc Res Kind)

/-- what can come out of an await: an exception raised by the awaited object / the interpreter,
    or the very exception number `c` that the event loop threw in at a suspension -/
inductive Err where
  | raised (e : Exc)
  | thrown (c : Nat)
  deriving DecidableEq, Repr

inductive Ev where
  | await (i : Nat)                  -- `__await__` of awaitable `i` entered
  | susp (i j : Nat)                 -- suspension `j` of awaitable `i` reached the event loop
  | call (args : List Val) (kwargs : List (Nat × Val))   -- the user function's body ran
  | produced (i : Nat)               -- a lazy iterable produced its element `i`
  | awaitO                           -- `__await__` of the outer awaitable of `any_iter` entered
  | suspO (j : Nat)                  -- its suspension `j`
  deriving DecidableEq, Repr

/-- `some (n, c)`: the event loop resumes `n` suspensions, then throws exception `c` in -/
abbrev Cut := Option (Nat × Nat)

/-- the cut does not fire within `m` suspensions -/
def Cut.allows : Cut → Nat → Bool
  | none, _ => true
  | some (n, _), m => decide (m ≤ n)

/-- the cut as seen after `m` suspensions were resumed -/
def Cut.after : Cut → Nat → Cut
  | none, _ => none
  | some (n, c), m => some (n - m, c)

/-- an argument / item: a plain object, or an awaitable that suspends `k` times and then returns
    a value or raises -/
inductive Arg where
  | plain (v : Val)
  | aw (k : Nat) (r : Res)
  deriving DecidableEq, Repr

def ofRes : Res → Except Err Val
  | .ok v => .ok v
  | .err e => .error (.raised e)

/-- suspensions `0 … m-1` -/
def susps (s : Nat → Ev) (m : Nat) : List Ev := (List.range m).map s

/-- drive one user awaitable (`k` suspensions, then `r`) under a cut: events, what comes out,
    and the cut that is left for whatever is awaited next in the same operation -/
def awaitScript (a : Ev) (s : Nat → Ev) (k : Nat) (r : Res) : Cut → List Ev × Except Err Val × Cut
  | none => (a :: susps s k, ofRes r, none)
  | some (n, c) =>
    if n < k then (a :: susps s (n + 1), .error (.thrown c), none)   -- thrown in at suspension `n`
    else (a :: susps s k, ofRes r, some (n - k, c))

/-- `await x` (unconditional) for argument number `i`: a plain object is not awaitable -/
def awaitArg (i : Nat) : Arg → Cut → List Ev × Except Err Val × Cut
  | .plain _, cut => ([], .error (.raised .typeError), cut)
  | .aw k r, cut => awaitScript (.await i) (.susp i) k r cut

/-- `item if not isinstance(item, Awaitable) else await item` for item number `i` -/
def resolveArg (i : Nat) : Arg → Cut → List Ev × Except Err Val × Cut
  | .plain v, cut => ([], .ok v, cut)
  | .aw k r, cut => awaitScript (.await i) (.susp i) k r cut

/-- the plain result of `await x` without interference -/
def Arg.res : Arg → Res
  | .plain _ => .err .typeError
  | .aw _ r => r

/-- the plain result of `x if not isinstance(x, Awaitable) else await x` without interference -/
def Arg.resolved : Arg → Res
  | .plain v => .ok v
  | .aw _ r => r

/-- number of suspensions of an argument -/
def Arg.susps : Arg → Nat
  | .plain _ => 0
  | .aw k _ => k

/-- total number of suspensions of a list of arguments -/
def suspCount : List Arg → Nat
  | [] => 0
  | a :: r => a.susps + suspCount r

/-- the complete, undisturbed await of argument `i`: entered once, all its suspensions in order -/
def seg (i : Nat) : Arg → List Ev
  | .plain _ => []
  | .aw k _ => .await i :: susps (.susp i) k

/-- the complete awaits of consecutive arguments numbered from `i`, one after the other -/
def segs : Nat → List Arg → List Ev
  | _, [] => []
  | i, a :: r => seg i a ++ segs (i + 1) r

/-! ## apply -/

/-- `[await arg for arg in args]` / the values of `{k: await arg for k, arg in kwargs.items()}`,
    the arguments being numbered from `i` -/
def awaitFrom : Nat → List Arg → Cut → List Ev × Except Err (List Val) × Cut
  | _, [], cut => ([], .ok [], cut)
  | i, a :: rest, cut =>
    match awaitArg i a cut with
    | (evs, .error e, cut') => (evs, .error e, cut')
    | (evs, .ok v, cut') =>
      match awaitFrom (i + 1) rest cut' with
      | (evs', .ok vs, cut'') => (evs ++ evs', .ok (v :: vs), cut'')
      | (evs', .error e, cut'') => (evs ++ evs', .error e, cut'')

structure Fn where
  beh : List Val → List (Nat × Val) → Res

/-- `return __func(*[await arg for arg in args], **{k: await arg for k, arg in kwargs.items()})`:
    positional arguments are numbered `0 …`, keyword arguments continue the numbering -/
def apply (f : Fn) (args : List Arg) (kwargs : List (Nat × Arg)) (cut : Cut) : List Ev × Except Err Val :=
  match awaitFrom 0 args cut with
  | (evs, .error e, _) => (evs, .error e)
  | (evs, .ok vs, cut') =>
    match awaitFrom args.length (kwargs.map Prod.snd) cut' with
    | (evs', .error e, _) => (evs ++ evs', .error e)
    | (evs', .ok kvs, _) =>
      (evs ++ evs' ++ [Ev.call vs ((kwargs.map Prod.fst).zip kvs)],
        ofRes (f.beh vs ((kwargs.map Prod.fst).zip kvs)))

/-! ## the two async generators -/

/-- consumer operations: `__anext__()` driven under a cut, `aclose()` -/
inductive Op where
  | next (cut : Cut)
  | close
  deriving DecidableEq, Repr

inductive Out where
  | item (v : Val) | stop | failed (e : Err) | closed
  deriving DecidableEq, Repr

abbrev Step := List Ev × Out

/-- an operation on a finished generator: no event, `StopAsyncIteration` / nothing to close -/
def deadStep : Op → Step
  | .next _ => ([], .stop)
  | .close => ([], .closed)

/-- events of taking element `i` from the iterable -/
def produce (lazy : Bool) (i : Nat) : List Ev := if lazy then [.produced i] else []

/-- state of a generator looping over an iterable: `pos` elements were taken, `rest` are left
    (for a lazy iterable: not yet produced) -/
inductive LoopSt where
  | live (pos : Nat) (rest : List Arg)
  | done
  deriving DecidableEq, Repr

/-- `for awaitable in awaitables: yield await awaitable`, one `__anext__()` -/
def eachNext (lazy : Bool) : LoopSt → Cut → Step × LoopSt
  | .done, _ => (([], .stop), .done)
  | .live _ [], _ => (([], .stop), .done)
  | .live pos (a :: rest), cut =>
    match awaitArg pos a cut with
    | (evs, .ok v, _) => ((produce lazy pos ++ evs, .item v), .live (pos + 1) rest)
    | (evs, .error e, _) => ((produce lazy pos ++ evs, .failed e), .done)

/-- `await_each(awaitables)`: `__anext__()` / `aclose()` (no `finally`: nothing runs on close) -/
def eachStep (lazy : Bool) (s : LoopSt) : Op → Step × LoopSt
  | .next cut => eachNext lazy s cut
  | .close => (([], .closed), .done)

/-- the awaitable argument of `any_iter`: `k` suspensions, then it returns the iterable or raises -/
structure Outer where
  k : Nat
  fail : Option Exc
  deriving DecidableEq, Repr

inductive AnySt where
  | fresh (outer : Option Outer) (kind : Kind) (items : List Arg)  -- created, no code has run
  | loopA (pos : Nat) (rest : List Arg)          -- suspended at the `yield` of the `async for` branch
  | loopS (lazy : Bool) (pos : Nat) (rest : List Arg)   -- suspended at the `yield` of the `for` branch
  | done
  deriving DecidableEq, Repr

/-- one iteration of `async for item in iterable: yield (item if not isinstance(item, Awaitable) else await item)`
    (the `__anext__` of the source does not suspend in this model) -/
def anyStepA (pos : Nat) (items : List Arg) (cut : Cut) : Step × AnySt :=
  match items with
  | [] => (([], .stop), .done)
  | a :: rest =>
    match resolveArg pos a cut with
    | (evs, .ok v, _) => ((.produced pos :: evs, .item v), .loopA (pos + 1) rest)
    | (evs, .error e, _) => ((.produced pos :: evs, .failed e), .done)

/-- one iteration of `for item in iterable: yield (item if not isinstance(item, Awaitable) else await item)` -/
def anyStepS (lazy : Bool) (pos : Nat) (items : List Arg) (cut : Cut) : Step × AnySt :=
  match items with
  | [] => (([], .stop), .done)
  | a :: rest =>
    match resolveArg pos a cut with
    | (evs, .ok v, _) => ((produce lazy pos ++ evs, .item v), .loopS lazy (pos + 1) rest)
    | (evs, .error e, _) => ((produce lazy pos ++ evs, .failed e), .done)

/-- `if isinstance(iterable, AsyncIterable): … else: …` -/
def anyEnter (kind : Kind) (items : List Arg) (cut : Cut) : Step × AnySt :=
  match kind with
  | .aiter => anyStepA 0 items cut
  | .iter => anyStepS true 0 items cut
  | .list => anyStepS false 0 items cut

def prepend (evs : List Ev) (r : Step × AnySt) : Step × AnySt := ((evs ++ r.1.1, r.1.2), r.2)

/-- `any_iter(x).__anext__()` -/
def anyNext : AnySt → Cut → Step × AnySt
  | .fresh none kind items, cut => anyEnter kind items cut                      -- `iterable = __iter`
  | .fresh (some o) kind items, cut =>                                           -- `iterable = await __iter`
    match awaitScript .awaitO .suspO o.k (match o.fail with | none => .ok 0 | some e => .err e) cut with
    | (evs, .error e, _) => ((evs, .failed e), .done)
    | (evs, .ok _, cut') => prepend evs (anyEnter kind items cut')
  | .loopA pos rest, cut => anyStepA pos rest cut
  | .loopS lazy pos rest, cut => anyStepS lazy pos rest cut
  | .done, _ => (([], .stop), .done)

/-- `any_iter(x)`: `__anext__()` / `aclose()` (no `finally`: nothing runs on close) -/
def anyStep (s : AnySt) : Op → Step × AnySt
  | .next cut => anyNext s cut
  | .close => (([], .closed), .done)

/-- drive a generator through a sequence of consumer operations -/
def run {σ : Type} (step : σ → Op → Step × σ) : σ → List Op → List Step
  | _, [] => []
  | s, op :: ops => (step s op).1 :: run step (step s op).2 ops

def trace (l : List Step) : List Ev := (l.map Prod.fst).flatten

/-- the requests that deliver the items numbered from `i`, undisturbed: in request number `i`
    element `i` is produced (lazy iterable), awaited completely, its value handed out -/
def itemSteps (lazy : Bool) : Nat → List Arg → List Val → List Step
  | i, a :: r, v :: vs => (produce lazy i ++ seg i a, .item v) :: itemSteps lazy (i + 1) r vs
  | _, _, _ => []

/-- does the event concern argument / item number `i`? -/
def Ev.about (i : Nat) : Ev → Bool
  | .await j => j == i
  | .susp j _ => j == i
  | .produced j => j == i
  | _ => false

/-- is the iterable of this kind instrumented (a generator) rather than a `list`? -/
def kindLazy : Kind → Bool
  | .list => false
  | _ => true

/-- the events of the outer awaitable of `any_iter` (if any), completely awaited -/
def outerSeg : Option Outer → List Ev
  | none => []
  | some o => .awaitO :: susps .suspO o.k

/-- put events in front of the first request -/
def addFirst (evs : List Ev) : List Step → List Step
  | [] => []
  | s :: l => (evs ++ s.1, s.2) :: l

/-! ## sync -/

/-- what the user function does in one call: return a plain value, raise, return an awaitable -/
inductive Ans where
  | plain (v : Val)
  | raises (e : Exc)
  | aw (k : Nat) (r : Res)
  deriving DecidableEq, Repr

/-- body of `async_wrapped`, call number `i` (argument: `i`): `result = function(*args, **kwargs)`;
    `if isinstance(result, Awaitable): return await result`; `return result` -/
def asyncWrapped (i : Nat) (ans : Ans) (cut : Cut) : List Ev × Except Err Val :=
  match ans with
  | .plain v => ([.call [i] []], .ok v)
  | .raises e => ([.call [i] []], .error (.raised e))
  | .aw k r =>
    match awaitScript (.await i) (.susp i) k r cut with
    | (evs, out, _) => (.call [i] [] :: evs, out)

/-- the wrapper object returned by `sync(f)`: it has no attributes of its own; what the model
    threads through is only the number of calls made so far (to number the awaitables) -/
def syncRun : Nat → List (Ans × Cut) → List (List Ev × Except Err Val)
  | _, [] => []
  | i, (ans, cut) :: rest => asyncWrapped i ans cut :: syncRun (i + 1) rest

end AsyncVerif.AdaptersFail
