/-!
# `_core.awaitify` / `Awaitify` — model

`awaitify(function)` returns coroutine functions unchanged and wraps everything else in `Awaitify`,
which decides on its FIRST completed call whether the callable hands out awaitables (then it is
called directly from then on) or plain values (then it is wrapped by `force_async`).
A callable is given by its flavour and by what its n-th invocation does (`beh n`).
-/
namespace AsyncVerif.Awaitify

inductive Flavour where
  | def_          -- plain function: returns a value, fails at call time
  | asyncDef      -- `async def`: fails inside the coroutine
  | partialAsync  -- `functools.partial(async def)`
  | obj           -- callable object returning a coroutine: fails inside the coroutine
  | objx          -- callable object returning a coroutine, but failing at call time
  deriving DecidableEq, Repr

/-- what the library's `await awaitify(f)(*args)` evaluates to -/
inductive Res where
  | val (v : Nat) | exc (e : Nat)
  | unawaited                      -- a coroutine object handed back without being awaited (a bug if it happens)
  deriving DecidableEq, Repr

def ofBeh : Except Nat Nat → Res
  | .ok v => .val v
  | .error e => .exc e

/-- `inspect.iscoroutinefunction` -/
def isCoroFn : Flavour → Bool
  | .asyncDef | .partialAsync => true
  | _ => false

def returnsAwaitable : Flavour → Bool
  | .def_ => false
  | _ => true

def raisesAtCall : Flavour → Bool
  | .def_ | .objx => true
  | _ => false

structure St where
  decided : Option Bool      -- `_async_call`: none = not decided, some true = call directly, some false = force_async
  deriving DecidableEq, Repr

def init : St := ⟨none⟩

/-- one `await awaitify(f)(*args)` on the same wrapper; `b` = what this invocation of `f` does -/
def callStep (fl : Flavour) (s : St) (b : Except Nat Nat) : St × Res :=
  if isCoroFn fl then (s, ofBeh b)                 -- returned unchanged by `awaitify`
  else
    match s.decided with
    | none =>
      match b, raisesAtCall fl with
      | .error e, true => (s, .exc e)              -- the peek call raised: nothing is decided
      | _, _ =>
        if returnsAwaitable fl then (⟨some true⟩, ofBeh b)      -- `_async_call = __wrapped__`; return value
        else (⟨some false⟩, ofBeh b)                             -- `force_async`; `await_value(value)`
    | some true => (s, ofBeh b)
    | some false =>
      if returnsAwaitable fl then
        match b, raisesAtCall fl with
        | .error e, true => (s, .exc e)
        | _, _ => (s, .unawaited)                  -- `async_wrapped` returns the coroutine object as is
      else (s, ofBeh b)

def run (fl : Flavour) : St → List (Except Nat Nat) → List Res
  | _, [] => []
  | s, b :: bs => (callStep fl s b).2 :: run fl (callStep fl s b).1 bs

end AsyncVerif.Awaitify
