import AsyncVerif.Machines.Borrow
/-!
# borrow / scoped_iter: forwarding of `asend` and `athrow` (asyncstdlib/asynctools.py) — model

`Machines/Borrow.lean` models `__anext__` through the wrapper generators, `asend(None)` and the
closing of handles and scopes.  This machine adds what it leaves out: `asend(v)` with a value and
`athrow(e)`, which `_BorrowedAsyncIterator.__init__` binds — when the iterator it is given has
them — straight to *that iterator's* attribute (so, through a chain of handles, to the underlying
iterator's bound method, by-passing every wrapper generator), and which `_aclose_wrapper` re-binds
to the closed wrapper generator.

* `U` — the underlying iterator: an async generator (`gen = true`, has `asend`/`athrow`/`aclose`)
  or a class-based iterator with any subset of the three.  `log` records every call that reaches
  it: `pull` (`__anext__`), `sent v` (`asend(v)`), `thrown e` (`athrow(e)`), `closed` (`aclose()`).
  Its answers follow CPython 3.12 for an async generator whose body is
  `for x in items: try: yield x / except E as e: if e.id not in catches: raise`:
  a non-`None` value sent to a just-started generator is a `TypeError` (the generator stays
  unstarted); an exception thrown into an unstarted generator, or thrown in and not caught, finishes
  it and comes back out; one that is caught makes the generator go on to its next `yield` (the
  `athrow` call returns that item, or raises StopAsyncIteration at the end); a finished generator
  answers StopAsyncIteration to `__anext__`/`asend` and returns `None` from `athrow`.
  The class-based iterator does the same without the generator quirks (never a TypeError; an
  exception it does not catch comes back out and leaves it as it was; `aclose` ends it).
* `Handle` — `_BorrowedAsyncIterator` / `_ScopedAsyncIterator`: `parent` = the iterator it was
  given, `wopen` = `_wrapper` neither finished nor closed, `send` / `throw` = where the `asend` /
  `athrow` slots point (`absent`: slot not set, `direct`: the underlying iterator's bound method,
  `dead`: the closed wrapper generator's).  A new handle copies its parent's slots *as they are at
  that moment* (`hasattr(iterator, "asend")` / `iterator.asend`).
* a dead wrapper generator answers StopAsyncIteration to `asend(v)` (any `v`, also when it was
  never started) and returns `None` from `athrow(e)` — it swallows the exception.
* ops: `next h`, `asend h v`, `athrow h e`, `close h` (`h.aclose()`), `borrow t`, `scope t`
  (`scoped_iter(t).__aenter__()`; `t = none` is the underlying iterator itself), `scopeExit h`
  (`__aexit__` of the context whose scoped handle is `h`: `_aclose_wrapper` of `h`, then
  `aclose()` of the iterator the scope was opened on).

No Mathlib, no proofs here: this file is also compiled into the driver.
-/
namespace AsyncVerif.BorrowSend
open AsyncVerif.Borrow (Val ExcId Kind SendTgt)

/-- a call that reached the underlying iterator -/
inductive UEv where
  | pull
  | sent (v : Option Val)
  | thrown (e : ExcId)
  | closed
  deriving DecidableEq, Repr

inductive UStatus where
  | fresh | live | done
  deriving DecidableEq, Repr

structure U where
  gen : Bool               -- async generator (true) / class-based async iterator (false)
  hasSend : Bool
  hasThrow : Bool
  hasClose : Bool
  catches : List ExcId     -- the exceptions its body handles (and then goes on)
  rest : List Val          -- items not yet yielded
  status : UStatus
  log : List UEv
  deriving DecidableEq, Repr

inductive Res where
  | item (v : Val)
  | stop                   -- StopAsyncIteration
  | raised (e : ExcId)     -- the exception came (back) out
  | nothing                -- the call returned None (athrow on a finished async generator)
  | typeError              -- "can't send non-None value to a just-started async generator"
  | stuck                  -- recursion budget exhausted (never happens from `init`)
  deriving DecidableEq, Repr

/-- resume the iterator and run it to its next `yield` / its end -/
def advance (u : U) : U × Res :=
  match u.status with
  | .done => (u, .stop)
  | _ =>
    match u.rest with
    | [] => ({ u with status := .done }, .stop)
    | v :: r => ({ u with rest := r, status := .live }, .item v)

def logged (u : U) (ev : UEv) : U := { u with log := u.log ++ [ev] }

/-- `U.__anext__()` -/
def pullU (u : U) : U × Res := advance (logged u .pull)

/-- `U.asend(v)` -/
def sendU (v : Option Val) (u : U) : U × Res :=
  let u1 := logged u (.sent v)
  if u.gen && u.status == .fresh && v.isSome then (u1, .typeError) else advance u1

/-- `U.athrow(e)` -/
def throwU (e : ExcId) (u : U) : U × Res :=
  let u1 := logged u (.thrown e)
  if u.gen then
    match u.status with
    | .done => (u1, .nothing)
    | .fresh => ({ u1 with status := .done }, .raised e)
    | .live => if u.catches.contains e then advance u1 else ({ u1 with status := .done }, .raised e)
  else
    if u.catches.contains e then advance u1 else (u1, .raised e)

/-- `U.aclose()` (only ever called on an iterator that has it) -/
def closeU (u : U) : U :=
  if u.hasClose then { u with status := .done, log := u.log ++ [.closed] } else u

structure Handle where
  parent : Option Nat      -- none = the underlying iterator itself, some p = handle p
  kind : Kind
  wopen : Bool             -- `_wrapper` neither finished nor closed
  send : SendTgt           -- the `asend` slot
  throw : SendTgt          -- the `athrow` slot
  deriving DecidableEq, Repr

structure State where
  u : U
  hs : List Handle
  deriving DecidableEq, Repr

def init (u : U) : State := { u := u, hs := [] }

/-- the wrapper generator ran to its end -/
def finishWrapper (hd : Handle) : Handle := { hd with wopen := false }

def deaden : SendTgt → SendTgt
  | .absent => .absent
  | _ => .dead

/-- `_aclose_wrapper`: close the wrapper, re-bind `asend`/`athrow` (if set) to the closed wrapper -/
def closeWrapper (hd : Handle) : Handle :=
  { hd with wopen := false, send := deaden hd.send, throw := deaden hd.throw }

/-- `t.__anext__()` for `t` = U (none) or a handle.  Fuel = number of handles. -/
def pullH : Nat → State → Option Nat → State × Res
  | _, s, none =>
    let r := pullU s.u
    ({ s with u := r.1 }, r.2)
  | 0, s, some _ => (s, .stuck)
  | fuel + 1, s, some h =>
    match s.hs[h]? with
    | none => (s, .stuck)
    | some hd =>
      if !hd.wopen then (s, .stop)
      else
        let r := pullH fuel s hd.parent
        match r.2 with
        | .item v => (r.1, .item v)
        | res => ({ r.1 with hs := r.1.hs.modify h finishWrapper }, res)

inductive Op where
  | next (h : Nat)                        -- `await anext(h)`
  | asend (h : Nat) (v : Option Val)      -- `await h.asend(v)`
  | athrow (h : Nat) (e : ExcId)          -- `await h.athrow(E(e))`
  | close (h : Nat)                       -- `await h.aclose()`
  | scopeExit (h : Nat)                   -- `await ctx.__aexit__(...)`, ctx = the scope that made h
  | borrow (t : Option Nat)               -- `borrow(t)`
  | scope (t : Option Nat)                -- `await scoped_iter(t).__aenter__()`
  deriving DecidableEq, Repr

inductive Out where
  | res (r : Res)
  | ok
  | noattr                                -- AttributeError: the handle has no such method
  | handle (h : Nat)
  | nullctx                               -- `scoped_iter` of an iterator without aclose: no handle
  | invalid                               -- the operation names a handle that does not exist /
                                          --   `scopeExit` of a handle that is not a scope's
  deriving DecidableEq, Repr

def validT (s : State) : Option Nat → Bool
  | none => true
  | some h => h < s.hs.length

/-- `hasattr(t, "asend")` and what the attribute is -/
def sendOf (s : State) : Option Nat → SendTgt
  | none => if s.u.hasSend then .direct else .absent
  | some p => match s.hs[p]? with
    | some hd => hd.send
    | none => .absent

def throwOf (s : State) : Option Nat → SendTgt
  | none => if s.u.hasThrow then .direct else .absent
  | some p => match s.hs[p]? with
    | some hd => hd.throw
    | none => .absent

def newHandle (s : State) (t : Option Nat) (k : Kind) : Handle :=
  { parent := t, kind := k, wopen := true, send := sendOf s t, throw := throwOf s t }

/-- `h.aclose()` on a handle -/
def closeH (s : State) (h : Nat) : State :=
  match s.hs[h]? with
  | none => s
  | some hd =>
    match hd.kind with
    | .borrowed => { s with hs := s.hs.modify h closeWrapper }   -- `_BorrowedAsyncIterator.aclose`
    | .scoped => s                                               -- `_ScopedAsyncIterator.aclose`: pass

/-- `t.aclose()` for the iterator a scope was opened on -/
def closeT (s : State) : Option Nat → State
  | none => { s with u := closeU s.u }
  | some p => closeH s p

def step (s : State) : Op → State × Out
  | .next h =>
    if h < s.hs.length then
      let r := pullH s.hs.length s (some h)
      (r.1, .res r.2)
    else (s, .invalid)
  | .asend h v =>
    match s.hs[h]? with
    | none => (s, .invalid)
    | some hd =>
      match hd.send with
      | .absent => (s, .noattr)
      | .dead => (s, .res .stop)
      | .direct =>
        let r := sendU v s.u
        ({ s with u := r.1 }, .res r.2)
  | .athrow h e =>
    match s.hs[h]? with
    | none => (s, .invalid)
    | some hd =>
      match hd.throw with
      | .absent => (s, .noattr)
      | .dead => (s, .res .nothing)
      | .direct =>
        let r := throwU e s.u
        ({ s with u := r.1 }, .res r.2)
  | .close h =>
    if h < s.hs.length then (closeH s h, .ok) else (s, .invalid)
  | .scopeExit h =>
    match s.hs[h]? with
    | none => (s, .invalid)
    | some hd =>
      match hd.kind with
      | .borrowed => (s, .invalid)
      | .scoped => (closeT { s with hs := s.hs.modify h closeWrapper } hd.parent, .ok)
  | .borrow t =>
    if validT s t then
      ({ s with hs := s.hs ++ [newHandle s t .borrowed] }, .handle s.hs.length)
    else (s, .invalid)
  | .scope t =>
    if validT s t then
      if t = none && !s.u.hasClose then (s, .nullctx)        -- `nullcontext(iterator)`
      else ({ s with hs := s.hs ++ [newHandle s t .scoped] }, .handle s.hs.length)
    else (s, .invalid)

def exec (s : State) (ops : List Op) : State := ops.foldl (fun s op => (step s op).1) s

def outs : State → List Op → List Out
  | _, [] => []
  | s, op :: ops => (step s op).2 :: outs (step s op).1 ops

/-- items among the outcomes of a run (of `next`, `asend` and `athrow` alike), in order -/
def delivered : List Out → List Val
  | [] => []
  | .res (.item v) :: r => v :: delivered r
  | _ :: r => delivered r

/-- `scopeExit h` where `h` is the handle of a `scoped_iter` opened on the underlying iterator
    itself (the outermost scope, the one that owns it) -/
def ownerExit (s : State) : Op → Bool
  | .scopeExit h =>
    match s.hs[h]? with
    | some hd =>
      (match hd.kind with | .scoped => true | .borrowed => false) && hd.parent.isNone && s.u.hasClose
    | none => false
  | _ => false

/-- number of owner's scope exits along a run -/
def ownerExits : State → List Op → Nat
  | _, [] => 0
  | s, op :: ops => (if ownerExit s op then 1 else 0) + ownerExits (step s op).1 ops

end AsyncVerif.BorrowSend
