/-!
# borrow / scoped_iter (asyncstdlib/asynctools.py, asyncstdlib/_core.py) — model

One machine for C07 and C08: an underlying async iterator `U` (a script of items and faults, of
async-generator or class-based kind, with or without `aclose` / `asend`), a table of handles
(`_BorrowedAsyncIterator` / `_ScopedAsyncIterator`) forming a tree above it, and a table of
`scoped_iter` contexts.

* `pullU`, `cancelU`, `closeU` — what `U.__anext__()` / `U.asend(None)`, a cancellation thrown at the
  suspension inside `U.__anext__()`, and `U.aclose()` do to an async generator resp. a class-based
  iterator (the twin of the instrumented sources of `harness/props/c07.py`).
* `pullH` — `handle.__anext__`, i.e. `self._wrapper.__anext__` where
  `_wrapper = (item async for item in iterator)`: an open wrapper pulls its parent; anything but an
  item (StopAsyncIteration, an exception, a cancellation) passes through and finishes the wrapper.
* `closeWrapper` — `_BorrowedAsyncIterator._aclose_wrapper`: close the wrapper, then re-point
  `asend`/`athrow` (if present) to the closed wrapper.
* `step` — one operation of the owner / of whoever holds a handle, following `borrow`,
  `_BorrowedAsyncIterator.__init__/__aiter__/aclose`, `_ScopedAsyncIterator.aclose`, `scoped_iter`,
  `_ScopedAsyncIteratorContext.__aenter__/__aexit__` branch by branch.
* `TOp.tool` — a library tool that was handed `t`: some number `k` of `next t`, possibly one pull
  that is cancelled, possibly `close t` (the harness validates this shape against every real tool).

No Mathlib, no proofs here: this file is also compiled into the driver.
-/
namespace AsyncVerif.Borrow

abbrev Val := Nat
abbrev ExcId := Nat

/-- one entry of the underlying iterator's script -/
inductive Entry where
  | item (v : Val)
  | fail (e : ExcId)
  deriving DecidableEq, Repr

/-- what the instrumented underlying iterator logs -/
inductive Ev where
  | pull | send | item (v : Val) | end_ | err (e : ExcId) | close | killed
  deriving DecidableEq, Repr

inductive Status where
  | fresh        -- never advanced (an unstarted generator runs no code when closed)
  | live
  | exhausted
  | failed       -- async generator only: an exception escaped its body
  | killed       -- async generator only: a cancellation was thrown into it
  | closed       -- `aclose()` reached it while it was fresh/live (class-based: any time)
  deriving DecidableEq, Repr

def Status.dead : Status → Bool
  | .fresh => false
  | .live => false
  | _ => true

structure U where
  gen : Bool               -- async generator (true) / class-based async iterator (false)
  hasClose : Bool          -- has `aclose`
  hasSend : Bool           -- has `asend`
  rest : List Entry        -- remaining script
  status : Status
  log : List Ev
  closeReqs : Nat          -- ghost: number of `aclose()` calls that reached U
  deriving DecidableEq, Repr

/-- result of one pull -/
inductive Res where
  | item (v : Val)
  | stop                   -- StopAsyncIteration
  | raised (e : ExcId)
  | cancelled              -- the cancellation thrown at the suspension came back out
  | stuck                  -- recursion budget exhausted (never happens, see `C07_fuel_adequate`)
  deriving DecidableEq, Repr

/-- `U.__anext__()` (viaSend = false) / `U.asend(None)` (viaSend = true).
    A finished async generator raises StopAsyncIteration without running code; a class-based
    iterator logs the call and, once dead, answers StopAsyncIteration.  An async generator cannot
    tell `asend(None)` from `__anext__()`, a class-based iterator logs which method was called. -/
def pullU (viaSend : Bool) (u : U) : U × Res :=
  if u.gen && u.status.dead then (u, .stop)
  else
    let ev := if viaSend && !u.gen then Ev.send else Ev.pull
    if u.status.dead then ({ u with log := u.log ++ [ev, .end_] }, .stop)
    else match u.rest with
      | [] => ({ u with status := .exhausted, log := u.log ++ [ev, .end_] }, .stop)
      | .item v :: r => ({ u with rest := r, status := .live, log := u.log ++ [ev, .item v] }, .item v)
      | .fail e :: r =>
        ({ u with rest := r, status := if u.gen then .failed else .live, log := u.log ++ [ev, .err e] },
         .raised e)

/-- `U.__anext__()` suspends first; a cancellation is thrown in at that suspension.  A finished
    generator does not suspend (StopAsyncIteration at once); a live generator is killed by the
    exception passing through it; a class-based iterator just loses this call. -/
def cancelU (u : U) : U × Res :=
  if u.gen then
    if u.status.dead then (u, .stop)
    else ({ u with status := .killed, log := u.log ++ [.killed] }, .cancelled)
  else (u, .cancelled)

/-- `U.aclose()` -/
def closeU (u : U) : U :=
  if !u.hasClose then u
  else if u.gen then
    match u.status with
    | .fresh => { u with status := .closed, closeReqs := u.closeReqs + 1 }
    | .live => { u with status := .closed, closeReqs := u.closeReqs + 1, log := u.log ++ [.close] }
    | _ => { u with closeReqs := u.closeReqs + 1 }
  else { u with status := .closed, closeReqs := u.closeReqs + 1, log := u.log ++ [.close] }

inductive Kind where
  | borrowed | scoped
  deriving DecidableEq, Repr

/-- where the handle's `asend` slot points: not set / the underlying iterator's bound method /
    the (closed) wrapper's -/
inductive SendTgt where
  | absent | direct | dead
  deriving DecidableEq, Repr

structure Handle where
  parent : Option Nat      -- none = the underlying iterator itself, some p = handle p
  kind : Kind
  wopen : Bool             -- `_wrapper` neither finished nor closed
  send : SendTgt
  deriving DecidableEq, Repr

/-- a `scoped_iter(...)` context that was entered -/
structure Ctx where
  target : Option Nat      -- `_iterator`
  own : Option Nat         -- `_borrowed_iter` (none: `nullcontext`, the iterator has no aclose)
  deriving DecidableEq, Repr

structure State where
  u : U
  hs : List Handle
  ctxs : List Ctx
  deriving DecidableEq, Repr

def init (u : U) : State := { u := u, hs := [], ctxs := [] }

/-- the wrapper generator ran to its end (StopAsyncIteration / exception passed through) -/
def finishWrapper (hd : Handle) : Handle := { hd with wopen := false }

/-- `_aclose_wrapper` -/
def closeWrapper (hd : Handle) : Handle :=
  { hd with wopen := false, send := match hd.send with | .absent => .absent | _ => .dead }

/-- `t.__anext__()` for `t` = U (none) or a handle; `cancel`: a cancellation is thrown at the
    suspension inside `U.__anext__()`.  Fuel = number of handles (parents have smaller ids). -/
def pullH (cancel : Bool) : Nat → State → Option Nat → State × Res
  | _, s, none =>
    let r := if cancel then cancelU s.u else pullU false s.u
    ({ s with u := r.1 }, r.2)
  | 0, s, some _ => (s, .stuck)
  | fuel + 1, s, some h =>
    match s.hs[h]? with
    | none => (s, .stuck)
    | some hd =>
      if !hd.wopen then (s, .stop)
      else
        let r := pullH cancel fuel s hd.parent
        match r.2 with
        | .item v => (r.1, .item v)
        | res => ({ r.1 with hs := r.1.hs.modify h finishWrapper }, res)

inductive ExitMode where
  | normal | exc (e : ExcId) | cancel
  deriving DecidableEq, Repr

inductive Op where
  | next (t : Option Nat)            -- `await anext(t)`
  | nextCancel (t : Option Nat)      -- the same, cancelled at the suspension inside U
  | send (h : Nat)                   -- `await h.asend(None)`
  | close (t : Option Nat)           -- `await t.aclose()`
  | closeIter (h : Nat)              -- `await aiter(h).aclose()`
  | borrow (t : Option Nat)          -- `borrow(t)`
  | enter (t : Option Nat)           -- `await scoped_iter(t).__aenter__()`
  | exit (c : Nat) (m : ExitMode)    -- `await ctx.__aexit__(...)`: fall-through / exception / cancellation
  deriving DecidableEq, Repr

inductive Out where
  | res (r : Res)
  | ok
  | noattr                           -- AttributeError (no such method)
  | handle (h : Nat)
  | entered (c : Nat) (h : Option Nat)
  | invalid                          -- the operation names a handle / context that does not exist
  deriving DecidableEq, Repr

def validT (s : State) : Option Nat → Bool
  | none => true
  | some h => h < s.hs.length

/-- `hasattr(t, "asend")` and what the attribute is -/
def sendOf (s : State) : Option Nat → SendTgt
  | none => if s.u.hasSend then .direct else .absent
  | some p => match s.hs[p]? with
    | some hd => hd.send
    | none => .absent

/-- `t.aclose()` -/
def closeT (s : State) : Option Nat → State
  | none => { s with u := closeU s.u }
  | some h =>
    match s.hs[h]? with
    | none => s
    | some hd =>
      match hd.kind with
      | .borrowed => { s with hs := s.hs.modify h closeWrapper }   -- `_BorrowedAsyncIterator.aclose`
      | .scoped => s                                               -- `_ScopedAsyncIterator.aclose`: pass

def newHandle (s : State) (t : Option Nat) (k : Kind) : Handle :=
  { parent := t, kind := k, wopen := true, send := sendOf s t }

def step (s : State) : Op → State × Out
  | .next t =>
    if validT s t then
      let r := pullH false s.hs.length s t
      (r.1, .res r.2)
    else (s, .invalid)
  | .nextCancel t =>
    if validT s t then
      let r := pullH true s.hs.length s t
      (r.1, .res r.2)
    else (s, .invalid)
  | .send h =>
    match s.hs[h]? with
    | none => (s, .invalid)
    | some hd =>
      match hd.send with
      | .absent => (s, .noattr)
      | .dead => (s, .res .stop)
      | .direct =>
        let r := pullU true s.u
        ({ s with u := r.1 }, .res r.2)
  | .close t =>
    if validT s t then
      if t = none && !s.u.hasClose then (s, .noattr) else (closeT s t, .ok)
    else (s, .invalid)
  | .closeIter h =>                       -- `__aiter__` returns the handle itself
    if validT s (some h) then (closeT s (some h), .ok) else (s, .invalid)
  | .borrow t =>
    if validT s t then
      ({ s with hs := s.hs ++ [newHandle s t .borrowed] }, .handle s.hs.length)
    else (s, .invalid)
  | .enter t =>
    if validT s t then
      if t = none && !s.u.hasClose then      -- `nullcontext(iterator)`
        ({ s with ctxs := s.ctxs ++ [{ target := none, own := none }] }, .entered s.ctxs.length none)
      else
        ({ s with hs := s.hs ++ [newHandle s t .scoped],
                  ctxs := s.ctxs ++ [{ target := t, own := some s.hs.length }] },
         .entered s.ctxs.length (some s.hs.length))
    else (s, .invalid)
  | .exit c _ =>                           -- `__aexit__(*args)` ignores how the block ended
    match s.ctxs[c]? with
    | none => (s, .invalid)
    | some cx =>
      match cx.own with
      | none => (s, .ok)
      | some hid =>
        (closeT { s with hs := s.hs.modify hid closeWrapper } cx.target, .ok)

def exec (s : State) (ops : List Op) : State := ops.foldl (fun s op => (step s op).1) s

def outs : State → List Op → List Out
  | _, [] => []
  | s, op :: ops => (step s op).2 :: outs (step s op).1 ops

/-- top-level operations: primitive ones, and a library tool handed `t` -/
inductive TOp where
  | prim (op : Op)
  | tool (t : Option Nat) (k : Nat) (cancel : Bool) (closes : Bool)
  deriving DecidableEq, Repr

def TOp.expand : TOp → List Op
  | .prim op => [op]
  | .tool t k cancel closes =>
    List.replicate k (.next t) ++ (if cancel then [.nextCancel t] else [])
      ++ (if closes then [.close t] else [])

def flatten (tops : List TOp) : List Op := tops.flatMap TOp.expand

def execT (s : State) (tops : List TOp) : State := exec s (flatten tops)

/-- items among the outcomes of a run, in order of delivery -/
def delivered : List Out → List Val
  | [] => []
  | .res (.item v) :: r => v :: delivered r
  | _ :: r => delivered r

def itemsOf : List Entry → List Val
  | [] => []
  | .item v :: r => v :: itemsOf r
  | .fail _ :: r => itemsOf r

def faultFree : List Entry → Bool
  | [] => true
  | .item _ :: r => faultFree r
  | .fail _ :: _ => false

end AsyncVerif.Borrow
