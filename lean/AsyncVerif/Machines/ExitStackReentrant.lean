import AsyncVerif.Machines.ExitStack
/-!
# ExitStack whose exits touch their own stack while it unwinds — model

Extension of `Machines/ExitStack.lean` (property C14).  There an exit only *reacts* to the exception
it is handed.  Here an exit may, while it runs inside `__aexit__`, also

* call `stack.pop_all()` on the stack being unwound (`Act.popAll`),
* `stack.push(new_exit)` (`Act.push id`) or `stack.callback(fn, ...)` (`Act.callback id`) onto the
  stack being unwound,

and then returns falsy / truthy / raises.  The state therefore holds SEVERAL stacks.

* `Impl.unwind` follows `asyncstdlib.contextlib.ExitStack.__aexit__` line by line
  (`while self._exit_callbacks: callback = self._exit_callbacks.pop(); ...`): the deque is re-read on
  every iteration and the popped callback is gone before it runs.
* `Spec.unwind` follows CPython 3.12 `contextlib.AsyncExitStack.__aexit__`
  (`while self._exit_callbacks: is_sync, cb = self._exit_callbacks.pop(); ...`).
* `pop_all`, `push`, `callback` are the same three lines in both libraries
  (`new._exit_callbacks, self._exit_callbacks = self._exit_callbacks, deque()`, `append`) and are shared.

A deque is a `List Item` with the RIGHT end of the deque first (head = last registered = next to be
popped), so `pop()` is `head/tail` and `append` is `cons`.

Totality: a pushed exit may push again, for ever.  The state carries a `budget` — the number of
registrations that exits may still perform during unwinding (given with the script); a registration
attempted with budget 0 is dropped.  An unwind then needs at most `len(deque) + budget` iterations,
which is the fuel `unwind` hands to the loop (`Proofs/ExitStackReentrant.lean: loop_done` shows it
is enough: the unwound deque is empty afterwards).

No Mathlib, no proofs here: this file is also compiled into the driver.
-/
namespace AsyncVerif.ExitStackRe
open AsyncVerif.ExitStack

/-- one element of `_exit_callbacks`.  `cb`: registered through `callback(...)` — the wrapper
    (`_aexit_callback` / CPython's `_exit_wrapper`) drops the exception details and returns falsy. -/
structure Item where
  id : Nat
  cb : Bool
  deriving DecidableEq, Repr

/-- what an exit may do to the stack that is being unwound, besides answering -/
inductive Act where
  /-- `moved = stack.pop_all()`: everything now on the stack goes to a brand-new stack -/
  | popAll
  /-- `stack.push(exit)` (CPython: `push_async_exit`) of a new exit with this id -/
  | push (id : Nat)
  /-- `stack.callback(fn, *args)` (CPython: `callback` / `push_async_callback`) of a new callback -/
  | callback (id : Nat)
  deriving DecidableEq, Repr

/-- the script: what the exit with a given id does when handed `none` / `some e`:
    first the stack actions, in order, then the response -/
structure Script where
  beh : Nat → Option ExcId → List Act × ExitResp

/-- one exit invocation: which entry, during the unwind of which stack, registered how, handed what -/
structure Rec where
  id : Nat
  sid : Nat
  cb : Bool
  handed : Option ExcId
  deriving DecidableEq, Repr

/-- one finished `__aexit__`: on which stack, what the enclosing statement observed, and how many
    exit invocations had happened by then (a time stamp into `log`) -/
structure Left where
  sid : Nat
  out : Outcome
  ran : Nat
  deriving DecidableEq, Repr

structure St where
  /-- `stacks sid` = the deque of stack `sid`, right end first; stacks `≥ nstacks` do not exist yet -/
  stacks : Nat → List Item
  nstacks : Nat
  /-- every exit invocation so far, over all stacks -/
  log : List Rec
  /-- every finished unwind so far -/
  outs : List Left
  /-- ids of everything ever registered, in registration order -/
  regs : List Nat
  /-- registrations that exits may still perform while a stack unwinds -/
  budget : Nat

def St.stack (st : St) (sid : Nat) : List Item := st.stacks sid

/-- `stack` in registration order (as `Machines/ExitStack.lean` writes stacks) -/
def St.deque (st : St) (sid : Nat) : List Item := (st.stacks sid).reverse

def St.setStack (st : St) (sid : Nat) (v : List Item) : St :=
  { st with stacks := fun j => if j = sid then v else st.stacks j }

/-- one stack holding `items` (right end first), nothing run yet -/
def St.init (items : List Item) (budget : Nat) : St :=
  { stacks := fun j => if j = 0 then items else [], nstacks := 1, log := [], outs := [],
    regs := items.reverse.map (·.id), budget := budget }

/-- `pop_all` (both libraries): the deque object moves to a new stack (id = number of stacks so
    far), the old stack gets a fresh empty deque -/
def popAllAt (st : St) (sid : Nat) : St :=
  { st with
    stacks := fun j => if j = sid then [] else if j = st.nstacks then st.stacks sid else st.stacks j
    nstacks := st.nstacks + 1 }

/-- `self._exit_callbacks.append(...)` -/
def registerAt (st : St) (sid : Nat) (it : Item) : St :=
  { st with
    stacks := fun j => if j = sid then it :: st.stacks sid else st.stacks j
    regs := st.regs ++ [it.id] }

/-- a registration performed by a running exit: counted against the budget -/
def lateRegister (st : St) (sid : Nat) (it : Item) : St :=
  if st.budget = 0 then st else registerAt { st with budget := st.budget - 1 } sid it

/-- one stack action of the exit that runs during the unwind of stack `sid` -/
def applyAct (sid : Nat) (st : St) : Act → St
  | .popAll => popAllAt st sid
  | .push id => lateRegister st sid ⟨id, false⟩
  | .callback id => lateRegister st sid ⟨id, true⟩

/-- what the entry is handed: a `callback` wrapper swallows the exception details -/
def Item.handed (it : Item) (infl : Option ExcId) : Option ExcId :=
  if it.cb then none else infl

/-- what the loop sees of the entry's answer: a `callback` wrapper returns falsy
    (`return False` / `None`) unless the callback raised -/
def Item.resp (it : Item) (r : ExitResp) : ExitResp :=
  if it.cb then (match r with | .raise e => .raise e | _ => .falsy) else r

/-- `cb = self._exit_callbacks.pop()` happened (deque now `rest`); run `cb(*exc_details)`:
    the invocation is logged, the exit performs its stack actions and answers.
    Identical in both libraries (`await callback(exc_type, exc_val, tb)` /
    `cb_suppress = await cb(*exc_details)`). -/
def invoke (sc : Script) (sid : Nat) (st : St) (it : Item) (rest : List Item)
    (infl : Option ExcId) : St × ExitResp :=
  let r := sc.beh it.id (it.handed infl)
  let st1 : St := { st.setStack sid rest with
                    log := st.log ++ [⟨it.id, sid, it.cb, it.handed infl⟩] }
  (r.1.foldl (applyAct sid) st1, it.resp r.2)

/-! ## asyncstdlib -/
namespace Impl

/-- local variables of `ExitStack.__aexit__` -/
structure Loop where
  exc : Option ExcId          -- exc_val
  suppress : Bool             -- suppress_exc
  reraise : Bool              -- reraise_exc
  deriving DecidableEq, Repr

/-- the `try: if await callback(...): ... except BaseException as exc: ...` part -/
def react (ls : Loop) : ExitResp → Loop
  | .truthy => { exc := none, suppress := true, reraise := false }
  | .falsy => ls
  | .raise e => { exc := some e, suppress := ls.suppress, reraise := true }

/-- `while self._exit_callbacks: callback = self._exit_callbacks.pop(); ...` on stack `sid` -/
def loop (sc : Script) (sid : Nat) : Nat → St → Loop → St × Loop
  | 0, st, ls => (st, ls)
  | fuel + 1, st, ls =>
    match st.stacks sid with
    | [] => (st, ls)
    | it :: rest =>
      let r := invoke sc sid st it rest ls.exc
      loop sc sid fuel r.1 (react ls r.2)

/-- `if reraise_exc and exc_val is not None: raise exc_val`, else
    `return received_exc and suppress_exc`, as seen by the `async with` statement -/
def outcome (body : Outcome) (ls : Loop) : Outcome :=
  if ls.reraise && ls.exc.isSome then .raises (ls.exc.getD 0)
  else match body with
    | .normal => .normal
    | .raises e => if ls.suppress then .normal else .raises e

/-- leave `async with stack:` (stack `sid`) with this body outcome; `aclose()` is `body = normal` -/
def unwind (sc : Script) (st : St) (sid : Nat) (body : Outcome) : St :=
  let r := loop sc sid ((st.stacks sid).length + st.budget) st ⟨body.exc, false, false⟩
  { r.1 with outs := r.1.outs ++ [⟨sid, outcome body r.2, r.1.log.length⟩] }

end Impl

/-! ## CPython 3.12 `contextlib.AsyncExitStack` -/
namespace Spec

/-- local variables of `AsyncExitStack.__aexit__` -/
structure Loop where
  details : Option ExcId      -- exc_details[1]
  suppressed : Bool           -- suppressed_exc
  pending : Bool              -- pending_raise
  deriving DecidableEq, Repr

/-- `if cb_suppress: suppressed_exc = True; pending_raise = False; exc_details = (None, None, None)`
    / `except: pending_raise = True; exc_details = new_exc_details` -/
def react (ls : Loop) : ExitResp → Loop
  | .truthy => { details := none, suppressed := true, pending := false }
  | .falsy => ls
  | .raise e => { ls with details := some e, pending := true }

/-- `while self._exit_callbacks: is_sync, cb = self._exit_callbacks.pop(); ...` on stack `sid`
    (`is_sync` only selects `cb(...)` vs `await cb(...)`) -/
def loop (sc : Script) (sid : Nat) : Nat → St → Loop → St × Loop
  | 0, st, ls => (st, ls)
  | fuel + 1, st, ls =>
    match st.stacks sid with
    | [] => (st, ls)
    | it :: rest =>
      let r := invoke sc sid st it rest ls.details
      loop sc sid fuel r.1 (react ls r.2)

/-- `if pending_raise: raise exc_details[1]`, else `return received_exc and suppressed_exc` -/
def outcome (body : Outcome) (ls : Loop) : Outcome :=
  if ls.pending then .raises (ls.details.getD 0)
  else match body with
    | .normal => .normal
    | .raises e => if ls.suppressed then .normal else .raises e

def unwind (sc : Script) (st : St) (sid : Nat) (body : Outcome) : St :=
  let r := loop sc sid ((st.stacks sid).length + st.budget) st ⟨body.exc, false, false⟩
  { r.1 with outs := r.1.outs ++ [⟨sid, outcome body r.2, r.1.log.length⟩] }

end Spec

/-! ## Histories -/

inductive Op where
  /-- `push` / `callback` / successful `enter_context` from outside any unwind -/
  | register (sid : Nat) (it : Item)
  /-- leave an `async with stack:` block with this outcome -/
  | leave (sid : Nat) (body : Outcome)
  /-- `await stack.aclose()` -/
  | aclose (sid : Nat)
  /-- `stack.pop_all()` from outside any unwind -/
  | popAll (sid : Nat)

/-- one operation, for a given `__aexit__` -/
def stepWith (uw : St → Nat → Outcome → St) (st : St) : Op → St
  | .register sid it => if sid < st.nstacks then registerAt st sid it else st
  | .leave sid body => uw st sid body
  | .aclose sid => uw st sid .normal
  | .popAll sid => if sid < st.nstacks then popAllAt st sid else st

def Impl.run (sc : Script) (ops : List Op) (st : St) : St := ops.foldl (stepWith (Impl.unwind sc)) st
def Spec.run (sc : Script) (ops : List Op) (st : St) : St := ops.foldl (stepWith (Spec.unwind sc)) st

/-- the operations of the harness family `reentrant` after registration: leave the block on stack 0,
    close the stacks `1 .. k-1` (the ones `pop_all` produced during the block), `aclose()` stack 0 again -/
def harnessOps (body : Outcome) (k : Nat) : List Op :=
  [.leave 0 body] ++ (List.range' 1 (k - 1)).map .aclose ++ [.aclose 0]

/-- the whole harness history (`_run_reentrant` of `harness/props/c14.py`) -/
def historyWith (uw : St → Nat → Outcome → St) (st : St) (body : Outcome) : St :=
  let s1 := uw st 0 body
  let s2 := (List.range' 1 (s1.nstacks - 1)).foldl (fun s j => uw s j .normal) s1
  uw s2 0 .normal

def Impl.history (sc : Script) (st : St) (body : Outcome) : St := historyWith (Impl.unwind sc) st body
def Spec.history (sc : Script) (st : St) (body : Outcome) : St := historyWith (Spec.unwind sc) st body

/-- final deques of all existing stacks, in registration order -/
def St.allDeques (st : St) : List (List Item) := (List.range st.nstacks).map st.deque

/-! ## The harness family: `n` pushed exits `0 .. n-1`; exit `at` acts, then answers -/

/-- exit `k` (the harness's `at`) performs `act` and answers `resp`; every other exit (also the late ones) returns falsy -/
def familyScript (k : Nat) (act : Act) (resp : ExitResp) : Script :=
  { beh := fun id _ => if id = k then ([act], resp) else ([], .falsy) }

/-- exits `0 .. n-1` pushed in this order (so `n-1` is at the right end) -/
def familyItems (n : Nat) : List Item := (List.range n).reverse.map fun i => ⟨i, false⟩

end AsyncVerif.ExitStackRe
