/-!
# tee (asyncstdlib/itertools.py `tee_peer`, `Tee`, `NoLock`) — model

A schedule-driven machine: `n` children (`tee_peer` generators), each advanced by its own consumer
task (`async for item in child: ...; <suspend once between items>`).  `Op.sched i` runs task `i`
from its current suspension point to its next one — one `coro.send` of the hand-driven harness.
The suspension points are exactly those of the code: inside `lock.__aenter__` (lock held by
another child), inside `iterator.__anext__()` (as often as the source's script says), and the
consumer's own point between two items.  `Op.close i` is `child.aclose()`, `Op.cancel i` throws a
cancellation into task `i` at its current suspension point, `Op.closeAll` is `Tee.aclose()` (close every child in order, then
unregister the buffers of children that were never started and close the source for them).

Every `def` names the Python it follows.  No proofs here: the file is compiled into the driver.
-/
namespace AsyncVerif.Tee

abbrev Val := Nat

/-- where a `tee_peer` generator is -/
inductive Pc where
  /-- created, never advanced (no code of the generator has run) -/
  | unstarted
  /-- suspended at `yield buffer.popleft()` -/
  | atYield
  /-- inside `async with lock:` → suspended in `lock.__aenter__` (somebody else holds the lock) -/
  | acquiring
  /-- holds the lock (if there is one), suspended inside `await iterator.__anext__()`;
      `k` further suspensions of the source follow before it answers -/
  | fetching (k : Nat)
  /-- finished or closed -/
  | done
  deriving DecidableEq, Repr

/-- the consumer task that owns a child -/
inductive Task where
  | active
  /-- `async for` ended because the child reported the end of the source by itself -/
  | ended
  /-- `async for` ended because the child had been closed by `aclose()` -/
  | stopped
  /-- a cancellation was thrown into the task -/
  | cancelled
  /-- the child raised (IndexError from `popleft` on an empty deque) -/
  | failed
  deriving DecidableEq, Repr

structure Child where
  pc : Pc := .unstarted
  /-- this peer's deque; `none` = the deque has been removed from `peers` (the `finally` block ran) -/
  buf : Option (List Val) := some []
  /-- items yielded to the consumer so far -/
  out : List Val := []
  task : Task := .active
  deriving DecidableEq, Repr

structure St where
  /-- items the source will still produce -/
  src : List Val
  /-- number of suspensions inside the n-th `__anext__` of the source (0 beyond the list) -/
  suspPat : List Nat
  /-- `__anext__` calls that found the source alive, so far -/
  pulls : Nat := 0
  /-- every item the source has returned so far, in order -/
  fetched : List Val := []
  /-- a real lock was supplied (otherwise `NoLock`) -/
  withLock : Bool
  holder : Option Nat := none
  kids : List Child
  /-- `isinstance(iterator, ACloseable)` -/
  closeable : Bool := true
  /-- the source is an async generator: an exception thrown into its `__anext__` finishes it -/
  diesOnCancel : Bool := true
  /-- the source reported its end (afterwards `__anext__` ends at once, without suspending) -/
  srcEnded : Bool := false
  /-- a cancellation thrown into a pending `__anext__` finished the source -/
  srcKilled : Bool := false
  /-- `iterator.aclose()` calls made by the library -/
  srcCloses : Nat := 0
  /-- ghost: some `__anext__` of the source was started while another one was pending -/
  overlap : Bool := false
  deriving DecidableEq, Repr

inductive Op where
  | sched (i : Nat) | close (i : Nat) | cancel (i : Nat) | closeAll
  deriving DecidableEq, Repr

/-- what the harness sees of one operation -/
inductive Out where
  /-- the consumer received this item (and suspended at its own point between items) -/
  | item (v : Val)
  /-- the task suspended again, inside `lock.__aenter__` / inside the source -/
  | suspLock | suspSrc
  /-- the consumer's `async for` ended -/
  | end_
  | closed | cancelled
  /-- `aclose()` of a child whose `__anext__` is pending: RuntimeError, nothing changes -/
  | busy
  | noop
  /-- `buffer.popleft()` on an empty deque -/
  | error
  deriving DecidableEq, Repr

def St.kid (s : St) (i : Nat) : Child := s.kids.getD i {}
def St.setKid (s : St) (i : Nat) (c : Child) : St := { s with kids := s.kids.set i c }

def isFetching : Pc → Bool
  | .fetching _ => true
  | _ => false

/-- the source answers `StopAsyncIteration` at once: finished generator / closed iterator -/
def St.srcDead (s : St) : Bool := s.srcEnded || s.srcKilled || decide (0 < s.srcCloses)

/-- `lock.__aexit__` (for `NoLock` the holder is never set) -/
def release (s : St) (i : Nat) : St :=
  if s.holder = some i then { s with holder := none } else s

/-- the `finally:` block of `tee_peer`: remove the own buffer from `peers`; the last peer closes
    the source if it can be closed.  `t` = what becomes of the consumer task. -/
def finishKid (s : St) (i : Nat) (t : Task) : St :=
  let s := s.setKid i { (s.kid i) with pc := .done, buf := none, task := t }
  if s.kids.all (fun c => c.buf.isNone) && s.closeable then
    { s with srcCloses := s.srcCloses + 1 }
  else s

/-- `for peer_buffer in peers: peer_buffer.append(item)` — every buffer still registered -/
def broadcast (s : St) (v : Val) : St :=
  { s with kids := s.kids.map fun c => { c with buf := c.buf.map (· ++ [v]) } }

/-- `yield buffer.popleft()` -/
def popYield (s : St) (i : Nat) : St × Out :=
  match (s.kid i).buf with
  | some (v :: r) =>
    (s.setKid i { (s.kid i) with pc := .atYield, buf := some r, out := (s.kid i).out ++ [v] }, .item v)
  | _ => (finishKid s i .failed, .error)

/-- `item = await iterator.__anext__()` completes for child `i`:
    `except StopAsyncIteration: break` (→ `__aexit__`, → `finally`), `else:` append to all peers,
    leave the `async with`, `yield buffer.popleft()` -/
def completeFetch (s : St) (i : Nat) : St × Out :=
  if s.srcDead then (finishKid (release s i) i .ended, .end_)
  else match s.src with
    | [] => (finishKid (release { s with srcEnded := true } i) i .ended, .end_)
    | v :: r => popYield (release (broadcast { s with src := r, fetched := s.fetched ++ [v] } v) i) i

/-- `await iterator.__anext__()` starts -/
def startFetch (s : St) (i : Nat) : St × Out :=
  let s := { s with overlap := s.overlap || s.kids.any (fun c => isFetching c.pc) }
  if s.srcDead then completeFetch s i
  else
    let n := s.pulls
    let s := { s with pulls := s.pulls + 1 }
    match s.suspPat.getD n 0 with
    | 0 => completeFetch s i
    | k + 1 => (s.setKid i { (s.kid i) with pc := .fetching k }, .suspSrc)

/-- `lock.__aenter__` returned: `if buffer: continue` else fetch -/
def enterCritical (s : St) (i : Nat) : St × Out :=
  let s := if s.withLock then { s with holder := some i } else s
  match (s.kid i).buf with
  | some (_ :: _) => popYield (release s i) i
  | _ => startFetch s i

/-- top of `while True:` — `if not buffer: async with lock: …` / `yield buffer.popleft()` -/
def loopTop (s : St) (i : Nat) : St × Out :=
  match (s.kid i).buf with
  | some (_ :: _) => popYield s i
  | _ =>
    if s.withLock && s.holder.isSome then (s.setKid i { (s.kid i) with pc := .acquiring }, .suspLock)
    else enterCritical s i

/-- one `send` on consumer task `i` -/
def sched (s : St) (i : Nat) : St × Out :=
  match (s.kid i).task with
  | .active =>
    match (s.kid i).pc with
    | .done => (s.setKid i { (s.kid i) with task := .stopped }, .end_)
    | .unstarted => loopTop s i
    | .atYield => loopTop s i
    | .acquiring => if s.holder.isSome then (s, .suspLock) else enterCritical s i
    | .fetching 0 => completeFetch s i
    | .fetching (k + 1) => (s.setKid i { (s.kid i) with pc := .fetching k }, .suspSrc)
  | _ => (s, .noop)

/-- `await child.aclose()`: an unstarted generator is marked closed without running any of its
    code (so its `finally` does not run and its buffer stays in `peers`); at the `yield`,
    GeneratorExit runs the `finally`; a pending `__anext__` makes `aclose()` raise RuntimeError -/
def closeKid (s : St) (i : Nat) : St × Out :=
  match (s.kid i).pc with
  | .unstarted => (s.setKid i { (s.kid i) with pc := .done }, .closed)
  | .atYield => (finishKid s i (s.kid i).task, .closed)
  | .done => (s, .closed)
  | _ => (s, .busy)

/-- a cancellation is thrown into task `i` where it is suspended -/
def cancel (s : St) (i : Nat) : St × Out :=
  match (s.kid i).task with
  | .active =>
    match (s.kid i).pc with
    | .acquiring => (finishKid s i .cancelled, .cancelled)
    | .fetching _ =>
      let s := if s.diesOnCancel then { s with srcKilled := true } else s
      (finishKid (release s i) i .cancelled, .cancelled)
    | _ => (s.setKid i { (s.kid i) with task := .cancelled }, .cancelled)
  | _ => (s, .noop)

/-- the loop of `Tee.aclose`: `for child in self._children: await child.aclose()`
    (a RuntimeError of a child's `aclose()` leaves the loop and `Tee.aclose`) -/
def closeFrom (s : St) : List Nat → St × Out
  | [] => (s, .closed)
  | i :: rest =>
    match closeKid s i with
    | (s', .busy) => (s', .busy)
    | (s', _) => closeFrom s' rest

/-- the end of `Tee.aclose`:
    `if self._buffers: self._buffers.clear(); if isinstance(self._iterator, ACloseable): await self._iterator.aclose()`
    — buffers still registered here belong to children that were closed before their first step
    (their `finally` never ran); all of them are unregistered and the source is closed on their
    behalf (same bookkeeping as the last peer in `finishKid`) -/
def clearBuffers (s : St) : St :=
  if s.kids.any (fun c => c.buf.isSome) then
    let s := { s with kids := s.kids.map fun (c : Child) => { c with buf := none } }
    if s.closeable then { s with srcCloses := s.srcCloses + 1 } else s
  else s

/-- `Tee.aclose`: close every child in order; if none of them was busy, unregister what is left -/
def closeAll (s : St) : St × Out :=
  let r := closeFrom s (List.range s.kids.length)
  match r.2 with
  | .busy => r
  | o => (clearBuffers r.1, o)

def step (s : St) : Op → St × Out
  | .sched i => if i < s.kids.length then sched s i else (s, .noop)
  | .close i => if i < s.kids.length then closeKid s i else (s, .noop)
  | .cancel i => if i < s.kids.length then cancel s i else (s, .noop)
  | .closeAll => closeAll s

def runOps (s : St) : List Op → St
  | [] => s
  | op :: ops => runOps (step s op).1 ops

/-- outputs and the state after every operation -/
def trace (s : St) : List Op → List (Out × St)
  | [] => []
  | op :: ops => ((step s op).2, (step s op).1) :: trace (step s op).1 ops

def init (items : List Val) (n : Nat) (suspPat : List Nat) (lock closeable dies : Bool) : St :=
  { src := items, suspPat := suspPat, withLock := lock, kids := List.replicate n {},
    closeable := closeable, diesOnCancel := dies }

/-- the state reached from a fresh tee by the operation sequence `ops` -/
abbrev reach (items : List Val) (n : Nat) (susp : List Nat) (lock closeable dies : Bool)
    (ops : List Op) : St :=
  runOps (init items n susp lock closeable dies) ops

/-- Specification: what child `i` has been handed after `k` deliveries — the first `k` items of
    the source, as `itertools.tee` hands them out -/
def specOut (items : List Val) (k : Nat) : List Val := items.take k

end AsyncVerif.Tee
