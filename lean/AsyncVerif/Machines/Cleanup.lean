/-!
# Cleanup (`asyncstdlib/_core.py: close_all`) — model

`close_all(iterators)` is the clean-up helper used by the `finally` blocks of `zip`
(builtins.py), `zip_longest`, `chain.aclose` (itertools.py) and `merge` (heapq.py).  The S1 models
of these tools (`closeAll` in `Core/Basic.lean`) assume hypothesis H-close: a user `aclose()`
neither raises nor suspends.  This machine lifts that hypothesis for the clean-up step itself:
every iterator's `aclose` may be missing, succeed, raise, or be cancelled while suspended.

* `closeAllRobust` follows `_core.close_all` line by line (the code after the fix).
* `closeAllFlat` is the OLD plain loop `for it in iterators: await it.aclose()` (with the
  `hasattr`/`AttributeError` guard the old call sites had): kept as the reference for what was
  wrong (known findings D17/D23).
* `closeNested` is the specification: leaving literally nested
  `async with ScopedIter(..)` blocks (`scopes`).
* `finallyCloseAll` is `try: <body> finally: await close_all(..)`.

No Mathlib, no proofs here: this file is also compiled into the driver.
-/
namespace AsyncVerif.Cleanup

abbrev ExcId := Nat

/-- What `await iterator.aclose()` does for one iterator when `close_all` gets to it.

* `noAclose`: the object has no `aclose` attribute (`AttributeError` → `continue`); nothing is
  invoked.
* `ok`: `aclose()` is invoked and completes; the iterator is closed afterwards.
* `raises e`: `aclose()` is invoked, the iterator DOES its own closing (it is closed/finished
  afterwards, an instrumented source counts the close), but the call raises exception `e`
  (e.g. an `async` generator whose `finally:` block raises; any `BaseException`).
* `interrupted e`: `aclose()` is invoked (entered) but does NOT complete its own closing: it
  suspended and exception `e` — typically a cancellation (`CancelledError`, a `BaseException`) —
  was thrown into the suspended `aclose()`, which let it propagate.

DECISION.  For `close_all` (and for the old loop, and for `ScopedIter.__aexit__`) `raises e` and
`interrupted e` are indistinguishable: both are "the awaited `aclose()` raised `e`"
(`CloseBeh.exc`).  They differ only in what is true of the iterator ITSELF afterwards
(`CloseBeh.completes`, `closedAfter`) — which is the user's `aclose`, not the helper, so the
strongest thing any clean-up can guarantee is "`aclose` was invoked exactly once on each"
(`State.closes`), and the theorems are stated about invocations.  A harness that cannot tell the two
apart may use `raises` for both. -/
inductive CloseBeh where
  | noAclose
  | ok
  | raises (e : ExcId)
  | interrupted (e : ExcId)
  deriving DecidableEq, Repr

/-- the object has an `aclose` attribute -/
def CloseBeh.closeable : CloseBeh → Bool
  | .noAclose => false
  | _ => true

/-- the exception (if any) that the awaited `aclose()` raises into its caller -/
def CloseBeh.exc : CloseBeh → Option ExcId
  | .raises e => some e
  | .interrupted e => some e
  | _ => none

/-- once invoked, the iterator's own closing runs to completion -/
def CloseBeh.completes : CloseBeh → Bool
  | .ok => true
  | .raises _ => true
  | _ => false

/-- Observable state of a clean-up. `closes[i]` = how many times the `aclose` of iterator `i`
    was invoked; `log` = the indices in order of invocation; `failure` = the local variable
    `failure` of `close_all` (for the flat loop / nested scopes: the exception in flight). -/
structure State where
  closes : List Nat
  log : List Nat
  failure : Option ExcId
  deriving DecidableEq, Repr

def State.init (n : Nat) : State := { closes := List.replicate n 0, log := [], failure := none }

/-- `await aclose()` of iterator `i` is entered -/
def State.invoke (st : State) (i : Nat) : State :=
  { st with closes := st.closes.modify i (· + 1), log := st.log ++ [i] }

/-- iterators with their position: `(behaviour, index)` (`for iterator in iterators`) -/
abbrev Indexed := List (CloseBeh × Nat)

/-- One iteration of the `for` loop of `close_all`:
    ```
    try: aclose = iterator.aclose
    except AttributeError: continue
    try: await aclose()
    except BaseException as exc: failure = exc
    ``` -/
def stepRobust (st : State) (bi : CloseBeh × Nat) : State :=
  match bi.1 with
  | .noAclose => st
  | .ok => st.invoke bi.2
  | .raises e => { st.invoke bi.2 with failure := some e }
  | .interrupted e => { st.invoke bi.2 with failure := some e }

/-- the whole loop of `close_all`, started with `failure = None` -/
def runRobust (behs : List CloseBeh) : State :=
  behs.zipIdx.foldl stepRobust (State.init behs.length)

/-- `await close_all(iterators)`: the invocation log and `if failure is not None: raise failure`
    (`none` = returns normally). -/
def closeAllRobust (behs : List CloseBeh) : List Nat × Option ExcId :=
  ((runRobust behs).log, (runRobust behs).failure)

/-- The OLD loop `for iterator in iterators: if hasattr(iterator, "aclose"): await iterator.aclose()`:
    the first exception leaves the loop, the remaining iterators are never looked at. -/
def loopFlat : Indexed → State → State
  | [], st => st
  | (.noAclose, _) :: rest, st => loopFlat rest st
  | (.ok, i) :: rest, st => loopFlat rest (st.invoke i)
  | (.raises e, i) :: _, st => { st.invoke i with failure := some e }
  | (.interrupted e, i) :: _, st => { st.invoke i with failure := some e }

def runFlat (behs : List CloseBeh) : State :=
  loopFlat behs.zipIdx (State.init behs.length)

def closeAllFlat (behs : List CloseBeh) : List Nat × Option ExcId :=
  ((runFlat behs).log, (runFlat behs).failure)

/-- An exception raised while another one is in flight replaces it (`finally:` clause,
    `__aexit__` raising): `newer` if there is one, else `older` continues. -/
def replaceBy (newer older : Option ExcId) : Option ExcId :=
  match newer with
  | some e => some e
  | none => older

/-- Specification: literally nested scopes, head of the list = OUTERMOST scope,
    ```
    async with ScopedIter(head):
        async with ScopedIter(..): ...
            <body: raises `body` or completes>
    ```
    The inner scopes are left first; then `ScopedIter.__aexit__` of this scope runs whatever
    happened inside: no `aclose` attribute → nothing (`except AttributeError: pass`); otherwise
    `await aclose()`.  `__aexit__` returns `None` (falsy), so an exception coming from inside
    continues outward unless this `aclose()` raises, in which case the new exception replaces the
    one in flight.  Result: (indices whose `aclose` was invoked, in order; exception leaving the
    outermost scope). -/
def scopes : Indexed → Option ExcId → List Nat × Option ExcId
  | [], body => ([], body)
  | (b, i) :: inner, body =>
    let r := scopes inner body
    match b with
    | .noAclose => r
    | .ok => (r.1 ++ [i], r.2)
    | .raises e => (r.1 ++ [i], some e)
    | .interrupted e => (r.1 ++ [i], some e)

/-- The nesting that corresponds to `close_all([it0, it1, ..., itn])`.  `close_all` closes in list
    order it0, it1, ...; `async with A, B:` exits `B` first.  So the corresponding nesting enters
    the scopes in REVERSE list order,
    `async with ScopedIter(itn), ..., ScopedIter(it1), ScopedIter(it0): <body>`
    (itn outermost, it0 innermost and therefore closed first): `scopes` over the reversed
    indexed list, every iterator keeping its index in the original list. -/
def nestedOf (behs : List CloseBeh) : Indexed := behs.zipIdx.reverse

/-- leaving that nesting after a body that completed normally -/
def closeNested (behs : List CloseBeh) : List Nat × Option ExcId :=
  scopes (nestedOf behs) none

/-- `try: <body> finally: await close_all(iterators)` where the body raised `inflight` (or
    completed / was left by `return`: `none`): the invocation log of the clean-up, and the
    exception leaving the `try` statement — a failure of `close_all` replaces the in-flight
    exception, otherwise the in-flight one continues. -/
def finallyCloseAll (inflight : Option ExcId) (behs : List CloseBeh) : List Nat × Option ExcId :=
  ((closeAllRobust behs).1, replaceBy (closeAllRobust behs).2 inflight)

/-- the same with the old loop -/
def finallyCloseFlat (inflight : Option ExcId) (behs : List CloseBeh) : List Nat × Option ExcId :=
  ((closeAllFlat behs).1, replaceBy (closeAllFlat behs).2 inflight)

/-- the same position in the specification: the body inside the nested scopes raised `inflight` -/
def finallyNested (inflight : Option ExcId) (behs : List CloseBeh) : List Nat × Option ExcId :=
  scopes (nestedOf behs) inflight

/-- per iterator index: how often `aclose` was invoked according to an invocation log -/
def countsOf (n : Nat) (log : List Nat) : List Nat := (List.range n).map (fun i => log.count i)

/-- per iterator index: is the iterator closed afterwards (its `aclose` was invoked and completes
    its own closing)? -/
def closedAfter (behs : List CloseBeh) (log : List Nat) : List Bool :=
  behs.zipIdx.map (fun bi => bi.1.completes && log.contains bi.2)

end AsyncVerif.Cleanup
