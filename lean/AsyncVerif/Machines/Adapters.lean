/-!
# asynctools adapters (asyncstdlib/asynctools.py `any_iter`, `await_each`, `apply`, `sync`) — model

Self-contained model of "shapes".  A user awaitable is a script: it suspends with a list of tokens
(each token reaches the event loop = the hand driver) and then completes with a value or raises.
Everything the adapters do to user objects is recorded as an event (`Ev`), in program order:

* `pull`      — the `__next__` / `__anext__` of an (instrumentable) source ran,
* `start a`   — the `__await__` of user awaitable `a` was entered,
* `susp t`    — token `t` reached the event loop,
* `fin a`     — user awaitable `a` completed (returned or raised),
* `call f …`  — the body of user callable `f` ran with these positional / keyword arguments.

The two async generators (`any_iter`, `await_each`) are defunctionalised: one state per place where
the generator can be suspended (not started / at the `yield` of each loop / finished), and
`next` = one `__anext__()` driven to completion, `close` = `aclose()`.
One def per Python function / branch.  No Mathlib, no proofs: compiled into the driver.
-/
namespace AsyncVerif.Adapters

abbrev Val := Nat
abbrev Tok := Nat

inductive Exc where
  | user (e : Nat)          -- injected fault: identity = id
  | typeError               -- raised by the interpreter / the library (`await 3`, `for x in <async iterator>`, `sync(3)`)
  deriving DecidableEq, Repr

inductive Res where
  | ok (v : Val) | err (e : Exc)
  deriving DecidableEq, Repr

/-- a user awaitable -/
structure Aw where
  id : Nat
  toks : List Tok
  res : Res
  deriving DecidableEq, Repr

inductive Item where
  | plain (v : Val) | aw (a : Aw)
  deriving DecidableEq, Repr

inductive Ev where
  | pull
  | start (a : Nat)
  | susp (t : Tok)
  | fin (a : Nat)
  | call (f : Nat) (args : List Val) (kwargs : List (Nat × Val))
  deriving DecidableEq, Repr

/-- `await a` for a user awaitable -/
def awaitAw (a : Aw) : List Ev × Res :=
  (Ev.start a.id :: (a.toks.map Ev.susp ++ [Ev.fin a.id]), a.res)

/-- `await x` (unconditional): a plain object is not awaitable -/
def awaitItem : Item → List Ev × Res
  | .plain _ => ([], .err .typeError)
  | .aw a => awaitAw a

/-- `item if not isinstance(item, Awaitable) else await item` -/
def resolveItem : Item → List Ev × Res
  | .plain v => ([], .ok v)
  | .aw a => awaitAw a

/-- the plain result an item stands for -/
def Item.res : Item → Res
  | .plain v => .ok v
  | .aw a => a.res

/-- container kinds: a real `list` (pulls cannot be observed), a synchronous iterator,
    an asynchronous iterator / iterable -/
inductive Kind where
  | list | iter | aiter
  deriving DecidableEq, Repr

/-- an iterable argument: what each successive pull does (tokens: only an `__anext__` can suspend),
    and the tokens of the pull that finds the end -/
structure Src where
  kind : Kind
  items : List (List Tok × Item)
  endToks : List Tok
  deriving DecidableEq, Repr

/-- events of one `__anext__` of an async source -/
def pullA (toks : List Tok) : List Ev := Ev.pull :: toks.map Ev.susp

/-- events of one `__next__` of a sync source (never suspends; a `list` is not instrumented) -/
def pullS (k : Kind) : List Ev := if k = .list then [] else [Ev.pull]

/-- an awaitable that produces the iterable -/
structure Outer where
  id : Nat
  toks : List Tok
  fail : Option Exc
  deriving DecidableEq, Repr

def awaitOuter (o : Outer) : List Ev := Ev.start o.id :: (o.toks.map Ev.susp ++ [Ev.fin o.id])

inductive Op where
  | next | close
  deriving DecidableEq, Repr

inductive Out where
  | item (v : Val) | stop | raised (e : Exc) | closed
  deriving DecidableEq, Repr

/-- what one operation on a generator does: events, then its outcome -/
abbrev Step := List Ev × Out

/-! ## any_iter -/

inductive AnySt where
  | fresh (outer : Option Outer) (src : Src)   -- created, no code has run
  | loopA (src : Src)                          -- suspended at the `yield` of the `async for` branch
  | loopS (src : Src)                          -- suspended at the `yield` of the `for` branch
  | done
  deriving DecidableEq, Repr

/-- one iteration of `async for item in iterable: yield (item if not isinstance(item, Awaitable) else await item)` -/
def anyStepA (src : Src) : Step × AnySt :=
  match src.items with
  | [] => ((pullA src.endToks, .stop), .done)
  | (toks, it) :: rest =>
    match resolveItem it with
    | (evs, .ok v) => ((pullA toks ++ evs, .item v), .loopA { src with items := rest })
    | (evs, .err e) => ((pullA toks ++ evs, .raised e), .done)

/-- one iteration of `for item in iterable: yield (item if not isinstance(item, Awaitable) else await item)` -/
def anyStepS (src : Src) : Step × AnySt :=
  match src.items with
  | [] => ((pullS src.kind, .stop), .done)
  | (_, it) :: rest =>
    match resolveItem it with
    | (evs, .ok v) => ((pullS src.kind ++ evs, .item v), .loopS { src with items := rest })
    | (evs, .err e) => ((pullS src.kind ++ evs, .raised e), .done)

/-- `if isinstance(iterable, AsyncIterable): … else: …` -/
def anyEnter (src : Src) : Step × AnySt :=
  if src.kind = .aiter then anyStepA src else anyStepS src

def prepend (evs : List Ev) (r : Step × AnySt) : Step × AnySt := ((evs ++ r.1.1, r.1.2), r.2)

/-- `any_iter(x).__anext__()` -/
def anyNext : AnySt → Step × AnySt
  | .fresh none src => anyEnter src                              -- `iterable = __iter`
  | .fresh (some o) src =>                                        -- `iterable = await __iter`
    match o.fail with
    | some e => ((awaitOuter o, .raised e), .done)
    | none => prepend (awaitOuter o) (anyEnter src)
  | .loopA src => anyStepA src
  | .loopS src => anyStepS src
  | .done => (([], .stop), .done)

/-- `any_iter(x).aclose()`: `GeneratorExit` at the `yield` (or nothing, if not started); there is
    no `finally`, nothing is awaited, the source is not touched -/
def anyClose (_ : AnySt) : Step × AnySt := (([], .closed), .done)

def anyStep (s : AnySt) : Op → Step × AnySt
  | .next => anyNext s
  | .close => anyClose s

/-! ## await_each -/

inductive EachSt where
  | live (src : Src)        -- not started, or suspended at the `yield`
  | done
  deriving DecidableEq, Repr

/-- one iteration of `for awaitable in awaitables: yield await awaitable` -/
def eachNext : EachSt → Step × EachSt
  | .done => (([], .stop), .done)
  | .live src =>
    if src.kind = .aiter then (([], .raised .typeError), .done)   -- `for` over an async iterator
    else match src.items with
      | [] => ((pullS src.kind, .stop), .done)
      | (_, it) :: rest =>
        match awaitItem it with
        | (evs, .ok v) => ((pullS src.kind ++ evs, .item v), .live { src with items := rest })
        | (evs, .err e) => ((pullS src.kind ++ evs, .raised e), .done)

def eachStep (s : EachSt) : Op → Step × EachSt
  | .next => eachNext s
  | .close => (([], .closed), .done)

/-- drive a generator through a sequence of consumer operations -/
def run {σ : Type} (step : σ → Op → Step × σ) : σ → List Op → List Step
  | _, [] => []
  | s, op :: ops => (step s op).1 :: run step (step s op).2 ops

def outs (l : List Step) : List Out := l.map Prod.snd
def trace (l : List Step) : List Ev := (l.map Prod.fst).flatten

/-! ## Specifications on plain lists -/

/-- what a consumer asking `k` times sees from a generator whose successive items resolve to `rs`:
    the values in order; the first failure surfaces once; afterwards the generator is finished -/
def specOuts : List Res → Nat → List Out
  | _, 0 => []
  | [], k+1 => .stop :: specOuts [] k
  | .ok v :: r, k+1 => .item v :: specOuts r k
  | .err e :: _, k+1 => .raised e :: specOuts [] k

/-- an operation on a finished generator: no event, `StopAsyncIteration` / nothing to close -/
def deadStep : Op → Step
  | .next => ([], .stop)
  | .close => ([], .closed)

/-- what a consumer performing the operations `ops` (requests and closes, in any order) sees from a
    generator whose successive items resolve to `rs`: the values in order, one per request; the
    first failure surfaces once and finishes the generator; a close finishes it -/
def specOps : List Res → List Op → List Out
  | _, [] => []
  | _, .close :: ops => .closed :: (ops.map deadStep).map Prod.snd
  | [], .next :: ops => .stop :: (ops.map deadStep).map Prod.snd
  | .ok v :: r, .next :: ops => .item v :: specOps r ops
  | .err e :: _, .next :: ops => .raised e :: (ops.map deadStep).map Prod.snd

/-- the successive results of `any_iter` for an argument -/
def anyResults (o : Option Outer) (src : Src) : List Res :=
  match o.bind (·.fail) with
  | some e => [.err e]
  | none => src.items.map (fun p => p.2.res)

/-- the successive results of `await_each` -/
def eachResults (src : Src) : List Res := src.items.map (fun p => (awaitItem p.2).2)

/-- a synchronous source of awaitables -/
def awSrc (kind : Kind) (aws : List Aw) : Src := ⟨kind, aws.map (fun a => ([], .aw a)), []⟩

/-- the consumer request in which awaitable `a` is awaited: the source is asked for one more
    element, `a` runs from start to completion, its result is handed out -/
def eachSeg (kind : Kind) (a : Aw) : Step :=
  (pullS kind ++ (awaitAw a).1, match a.res with | .ok v => .item v | .err e => .raised e)

/-- requests after the last awaitable: the first finds the source exhausted, the others find the
    generator finished -/
def tailSteps (kind : Kind) : Nat → List Step
  | 0 => []
  | m+1 => (pullS kind, .stop) :: List.replicate m ([], .stop)

/-- number of `next` requests among the operations -/
def nexts : List Op → Nat
  | [] => 0
  | .next :: r => nexts r + 1
  | .close :: r => nexts r

/-- identities of the awaitables among items -/
def awIds : List (List Tok × Item) → List Nat
  | [] => []
  | (_, .aw a) :: r => a.id :: awIds r
  | (_, .plain _) :: r => awIds r

/-! ## apply -/

structure Fn where
  id : Nat
  beh : List Val → List (Nat × Val) → Res

/-- `[await arg for arg in args]` -/
def awaitAll : List Item → List Ev × Except Exc (List Val)
  | [] => ([], .ok [])
  | a :: rest =>
    match awaitItem a with
    | (evs, .err e) => (evs, .error e)
    | (evs, .ok v) =>
      match awaitAll rest with
      | (evs', .ok vs) => (evs ++ evs', .ok (v :: vs))
      | (evs', .error e) => (evs ++ evs', .error e)

/-- `{k: await arg for k, arg in kwargs.items()}` -/
def awaitKw : List (Nat × Item) → List Ev × Except Exc (List (Nat × Val))
  | [] => ([], .ok [])
  | (k, a) :: rest =>
    match awaitItem a with
    | (evs, .err e) => (evs, .error e)
    | (evs, .ok v) =>
      match awaitKw rest with
      | (evs', .ok vs) => (evs ++ evs', .ok ((k, v) :: vs))
      | (evs', .error e) => (evs ++ evs', .error e)

/-- `return __func(*[await arg for arg in args], **{k: await arg for k, arg in kwargs.items()})` -/
def apply (f : Fn) (args : List Item) (kwargs : List (Nat × Item)) : List Ev × Res :=
  match awaitAll args with
  | (evs, .error e) => (evs, .err e)
  | (evs, .ok vs) =>
    match awaitKw kwargs with
    | (evs', .error e) => (evs ++ evs', .err e)
    | (evs', .ok kvs) => (evs ++ evs' ++ [Ev.call f.id vs kvs], f.beh vs kvs)

/-! ## sync -/

/-- what kind of object is handed to `sync` -/
inductive Flavour where
  | notCallable
  | syncPlain     -- `def` / `lambda` / object with `def __call__` returning a plain value (or raising)
  | syncAw        -- `def` / `lambda` / object with `def __call__` returning an awaitable
  | objAsync      -- object with `async def __call__` (not a coroutine function for `iscoroutinefunction`)
  | asyncDef      -- `async def`, bound `async def` method
  | partialAsync  -- `functools.partial` of an `async def`
  deriving DecidableEq, Repr

def Flavour.callable : Flavour → Bool
  | .notCallable => false
  | _ => true

/-- `asyncio.iscoroutinefunction(function)` -/
def Flavour.isCoroFn : Flavour → Bool
  | .asyncDef | .partialAsync => true
  | _ => false

/-- does calling the object hand back an awaitable? -/
def Flavour.returnsAw : Flavour → Bool
  | .syncAw | .objAsync | .asyncDef | .partialAsync => true
  | _ => false

/-- a user callable: flavour, identity, and for given arguments the tokens its awaitable suspends
    with (awaitable-returning flavours only) and its result -/
structure UFn where
  flavour : Flavour
  id : Nat
  toks : List Val → List (Nat × Val) → List Tok
  res : List Val → List (Nat × Val) → Res

/-- the result of the plain call expression `function(*args, **kwargs)` -/
inductive Raw where
  | value (v : Val)          -- a plain value
  | raised (e : Exc)         -- the call itself raised
  | awaitable (toks : List Tok) (r : Res)
  deriving DecidableEq, Repr

/-- `function(*args, **kwargs)`: events of the call expression and what it evaluates to.
    (For coroutine flavours the body — hence the `call` event — runs when the result is awaited;
    nothing else happens in between, so the event is recorded here.) -/
def callRaw (f : UFn) (args : List Val) (kw : List (Nat × Val)) : List Ev × Raw :=
  if !f.flavour.callable then ([], .raised .typeError)
  else if f.flavour.returnsAw then ([Ev.call f.id args kw], .awaitable (f.toks args kw) (f.res args kw))
  else match f.res args kw with
    | .ok v => ([Ev.call f.id args kw], .value v)
    | .err e => ([Ev.call f.id args kw], .raised e)

/-- `await x` for the value of a call expression -/
def awaitRaw : Raw → List Ev × Res
  | .value _ => ([], .err .typeError)
  | .raised e => ([], .err e)
  | .awaitable toks r => (toks.map Ev.susp, r)

/-- what `sync(function)` returns -/
inductive Synced where
  | typeError      -- `raise TypeError("function argument should be Callable")`
  | same           -- `return function`
  | wrapped        -- `return async_wrapped`
  deriving DecidableEq, Repr

/-- `sync(function)` -/
def sync (f : UFn) : Synced :=
  if !f.flavour.callable then .typeError
  else if f.flavour.isCoroFn then .same
  else .wrapped

/-- body of `async_wrapped`: `result = function(*args, **kwargs)`;
    `if isinstance(result, Awaitable): return await result`; `return result` -/
def asyncWrapped (f : UFn) (args : List Val) (kw : List (Nat × Val)) : List Ev × Res :=
  match callRaw f args kw with
  | (evs, .value v) => (evs, .ok v)
  | (evs, .raised e) => (evs, .err e)
  | (evs, .awaitable toks r) => (evs ++ toks.map Ev.susp, r)

/-- `await sync(function)(*args, **kwargs)` -/
def callSynced (f : UFn) (args : List Val) (kw : List (Nat × Val)) : List Ev × Res :=
  match sync f with
  | .typeError => ([], .err .typeError)
  | .same => match callRaw f args kw with
    | (evs, raw) => (evs ++ (awaitRaw raw).1, (awaitRaw raw).2)
  | .wrapped => asyncWrapped f args kw

/-- Specification: what the user gets from the callable natively — `function(*a, **k)` when that
    is a plain value (or raises), `await function(*a, **k)` when it is an awaitable -/
def native (f : UFn) (args : List Val) (kw : List (Nat × Val)) : List Ev × Res :=
  if f.flavour.returnsAw then (Ev.call f.id args kw :: (f.toks args kw).map Ev.susp, f.res args kw)
  else ([Ev.call f.id args kw], f.res args kw)

end AsyncVerif.Adapters
