/-!
# contextmanager (asyncstdlib/contextlib.py `_AsyncGeneratorContextManager`) — model

Pure decision logic.

* `Gen` — an async generator as data: the tree of everything it can do.  A node says what the
  generator does until it next gives up control (return / raise `e` / yield `v`), and a `yield`
  node carries the continuation `Resume → Gen`: how it goes on when resumed normally or when an
  exception is thrown in at that `yield`.  Every terminating deterministic generator is such a
  tree, so "for every `Gen`" is "for every generator program" (awaits inside the generator are
  transparent and not modelled).
* `settle`, `anext`, `athrow`, `aclose` — the **runtime's** rules (PEP 479/525: a
  `StopIteration`/`StopAsyncIteration` leaving the generator frame becomes a `RuntimeError`
  with `__cause__`; `aclose()` throws a fresh `GeneratorExit`, swallows
  `GeneratorExit`/end-of-generator, and raises `RuntimeError` if the generator yields).  These
  are Python's, not the library's: trusted base, validated by the correspondence on both sides.
* `Impl.aenter/aexit` follow asyncstdlib's `_AsyncGeneratorContextManager` branch by branch;
  `Std.aenter/aexit` follow CPython 3.12 `contextlib._AsyncGeneratorContextManager`;
  `Decl.aexit` is the declarative reading of the property (no dispatch on exception types).
* `withStmt` is the `async with cm as x: <block>` statement around them.
* `Program` is the concrete grammar used by the correspondence harness; `Program.gen`
  translates it to a `Gen`.

No Mathlib, no proofs here: this file is also compiled into the driver.
-/
namespace AsyncVerif.ContextManager

abbrev Val := Nat

/-- exception classes that matter to the decision logic (each stands for itself and, for
    `exception`/`baseExc`, for an arbitrary user subclass of `Exception`/`BaseException`) -/
inductive Kind where
  | exception | valueError | baseExc | keyboardInterrupt | generatorExit
  | stopIteration | stopAsyncIteration | runtimeError | recursionError
  deriving DecidableEq, Repr

/-- `issubclass(a, b)` -/
def Kind.isSub (a b : Kind) : Bool :=
  a == b ||
  (b == .exception && (a == .valueError || a == .stopIteration || a == .stopAsyncIteration
                        || a == .runtimeError || a == .recursionError)) ||
  (b == .runtimeError && a == .recursionError)

/-- exception objects created by the runtime or by the context manager during this one
    `async with` statement (each exists at most once per statement) -/
inductive LibExc where
  /-- the `StopAsyncIteration` by which `__anext__`/`athrow` report that the generator returned -/
  | stopAsync
  /-- the `GeneratorExit` object that `aclose()` throws into the generator -/
  | closeGE
  /-- `RuntimeError("async generator ignored GeneratorExit")` raised by `aclose()` -/
  | ignoredGE
  /-- `RuntimeError`s raised by the context manager itself -/
  | didNotYield | didNotStop | didNotStopAfterThrow
  deriving DecidableEq, Repr

/-- exception objects; equality of terms = identity of objects -/
inductive Exc where
  /-- an object created by user code (the block or the generator); `id` names the object -/
  | user (id : Nat) (kind : Kind)
  /-- user object created by `raise K(...) from cause` -/
  | userFrom (id : Nat) (kind : Kind) (cause : Exc)
  /-- the `RuntimeError` the runtime creates when `cause` (a `Stop(Async)Iteration`) leaves the
      generator frame; `__cause__ = cause` -/
  | promoted (cause : Exc)
  | lib (l : LibExc)
  deriving DecidableEq, Repr

def LibExc.kind : LibExc → Kind
  | .stopAsync => .stopAsyncIteration
  | .closeGE => .generatorExit
  | _ => .runtimeError

def Exc.kind : Exc → Kind
  | .user _ k => k
  | .userFrom _ k _ => k
  | .promoted _ => .runtimeError
  | .lib l => l.kind

/-- `exc.__cause__` -/
def Exc.cause : Exc → Option Exc
  | .userFrom _ _ c => some c
  | .promoted c => some c
  | _ => none

/-- `isinstance(e, (StopIteration, StopAsyncIteration))` -/
def Exc.isStop (e : Exc) : Bool :=
  e.kind.isSub .stopIteration || e.kind.isSub .stopAsyncIteration

/-- how a suspended generator is woken up -/
inductive Resume where
  | next                 -- `asend(None)` / `__anext__`
  | throw (e : Exc)      -- `e` raised at the `yield`
  deriving DecidableEq, Repr

/-- an async generator as the tree of its possible behaviours -/
inductive Gen where
  | ret                                    -- the generator function returns
  | raise (e : Exc)                        -- `e` leaves the generator frame
  | yield (v : Val) (k : Resume → Gen)     -- yields `v`; `k` = how it continues

/-! ## Runtime rules (Python's, trusted) -/

/-- what the awaiter of `__anext__`/`athrow` sees -/
inductive Res where
  | yielded (v : Val) (k : Resume → Gen)
  | raised (e : Exc)

/-- PEP 479 / PEP 525: returning surfaces as the runtime's `StopAsyncIteration`; a user
    `StopIteration`/`StopAsyncIteration` leaving the frame is replaced by a `RuntimeError`
    whose `__cause__` it is -/
def settle : Gen → Res
  | .ret => .raised (.lib .stopAsync)
  | .raise e => if e.isStop then .raised (.promoted e) else .raised e
  | .yield v k => .yielded v k

def anext (k : Resume → Gen) : Res := settle (k .next)
def athrow (k : Resume → Gen) (e : Exc) : Res := settle (k (.throw e))

/-- `await gen.aclose()` on a generator suspended at a `yield`: `none` = returned `None` -/
def aclose (k : Resume → Gen) : Option Exc :=
  match settle (k (.throw (.lib .closeGE))) with
  | .yielded _ _ => some (.lib .ignoredGE)
  | .raised e =>
    if e.kind.isSub .generatorExit || e.kind.isSub .stopAsyncIteration then none else some e

/-! ## The context-manager protocol -/

/-- operations performed on the generator object -/
inductive GenOp where
  | anext | athrow (e : Exc) | aclose
  deriving DecidableEq, Repr

inductive EnterRes where
  | entered (v : Val) (k : Resume → Gen)
  | raises (e : Exc)

/-- result of `__aexit__`: returned truthiness, or raised exception -/
inductive ExitRes where
  | ret (suppress : Bool)
  | raises (e : Exc)
  deriving DecidableEq, Repr

namespace Impl

/-- asyncstdlib `_AsyncGeneratorContextManager.__aenter__` -/
def aenter (g : Gen) : EnterRes :=
  match settle g with                                     -- await self.gen.__anext__()
  | .yielded v k => .entered v k
  | .raised e =>
    if e.kind.isSub .stopAsyncIteration then              -- except StopAsyncIteration:
      .raises (.lib .didNotYield)                         --   raise RuntimeError(...) from None
    else .raises e

/-- the `except` clauses of asyncstdlib's `__aexit__` applied to `exc` raised by
    `athrow`/`aclose`; `ev` = `exc_val` (its class is `exc_type`) -/
def handlers (exc ev : Exc) : ExitRes :=
  if exc.kind.isSub .stopAsyncIteration then              -- except StopAsyncIteration as exc:
    .ret true                                             --   return exc is not exc_tb  (a traceback is never the exception)
  else if exc.kind.isSub .runtimeError then               -- except RuntimeError as exc:
    if exc = ev then .ret false                           --   if exc is exc_val: return False
    else if ev.isStop then                                --   if isinstance(exc_val, (StopIteration, StopAsyncIteration)):
      if exc.cause = some ev then .ret false              --     if exc.__cause__ is exc_val: return False
      else .raises exc                                    --   raise
    else .raises exc
  else if exc.kind.isSub ev.kind then                     -- except exc_type as exc:
    if exc ≠ ev then .raises exc                          --   if exc is not exc_val: raise
    else .ret false                                       --   return False
  else .raises exc                                        -- no clause matches

/-- asyncstdlib `_AsyncGeneratorContextManager.__aexit__` on a generator suspended at `k` -/
def aexit (k : Resume → Gen) : Option Exc → ExitRes × List GenOp
  | none =>                                               -- if exc_type is None:
    (match anext k with                                   --   await self.gen.__anext__()
     | .raised e =>
       if e.kind.isSub .stopAsyncIteration then .ret false   -- except StopAsyncIteration: return False
       else .raises e
     | .yielded _ _ => .raises (.lib .didNotStop),        --   else: raise RuntimeError
     [.anext])
  | some ev =>
    if ev.kind = .generatorExit then                      -- if exc_type is GeneratorExit:
      (match aclose k with                                --   result = await self.gen.aclose()
       | some exc => handlers exc ev
       | none => .ret false,                              -- else: exc_type is GeneratorExit and result is None
       [.aclose])
    else
      (match athrow k ev with                             --   result = await self.gen.athrow(exc_val)
       | .raised exc => handlers exc ev
       | .yielded _ _ => .raises (.lib .didNotStopAfterThrow),
       [.athrow ev])

end Impl

namespace Std

/-- CPython `contextlib._AsyncGeneratorContextManager.__aenter__` -/
def aenter (g : Gen) : EnterRes :=
  match settle g with                                     -- await anext(self.gen)
  | .yielded v k => .entered v k
  | .raised e =>
    if e.kind.isSub .stopAsyncIteration then .raises (.lib .didNotYield)
    else .raises e

/-- the `except` clauses of CPython's `__aexit__` -/
def handlers (exc ev : Exc) : ExitRes :=
  if exc.kind.isSub .stopAsyncIteration then              -- except StopAsyncIteration as exc:
    .ret (exc ≠ ev)                                       --   return exc is not value
  else if exc.kind.isSub .runtimeError then               -- except RuntimeError as exc:
    if exc = ev then .ret false
    else if ev.isStop && exc.cause = some ev then .ret false
    else .raises exc
  else                                                    -- except BaseException as exc:
    if exc ≠ ev then .raises exc else .ret false

/-- `try: raise RuntimeError(...) finally: await self.gen.aclose()` -/
def raiseThenClose (k2 : Resume → Gen) (r : LibExc) : ExitRes :=
  match aclose k2 with
  | none => .raises (.lib r)
  | some e => .raises e

/-- CPython `contextlib._AsyncGeneratorContextManager.__aexit__` -/
def aexit (k : Resume → Gen) : Option Exc → ExitRes × List GenOp
  | none =>
    match anext k with
    | .raised e =>
      (if e.kind.isSub .stopAsyncIteration then .ret false else .raises e, [.anext])
    | .yielded _ k2 => (raiseThenClose k2 .didNotStop, [.anext, .aclose])
  | some ev =>
    match athrow k ev with
    | .raised exc => (handlers exc ev, [.athrow ev])
    | .yielded _ k2 => (raiseThenClose k2 .didNotStopAfterThrow, [.athrow ev, .aclose])

end Std

namespace Decl

/-- what surfaces when `e` leaves the generator frame -/
def surface (e : Exc) : Exc := if e.isStop then .promoted e else e

/-- an explicit `raise RuntimeError(...) from <the block's Stop(Async)Iteration>` cannot be told
    from the runtime's promotion (neither by CPython) -/
def looksPromoted (e ev : Exc) : Bool :=
  ev.isStop && !e.isStop && e.kind.isSub .runtimeError && e.cause == some ev

/-- The property's reading of `__aexit__`, by what the generator does when woken (no dispatch
    on exception classes): it stops → suppress (after an exception) / fine (after a normal
    block); it yields again → `RuntimeError`; it lets the block's exception out (as itself or,
    for `Stop(Async)Iteration`, promoted) → that very object propagates; it raises something
    else → that surfaces.  `GeneratorExit`: the generator is closed; never suppressed. -/
def aexit (k : Resume → Gen) : Option Exc → ExitRes
  | none =>
    match k .next with
    | .ret => .ret false
    | .yield _ _ => .raises (.lib .didNotStop)
    | .raise e => .raises (surface e)
  | some ev =>
    if ev.kind = .generatorExit then
      match aclose k with
      | none => .ret false
      | some e => .raises e
    else
      match k (.throw ev) with
      | .ret => .ret true
      | .yield _ _ => .raises (.lib .didNotStopAfterThrow)
      | .raise e =>
        if e = ev then .ret false
        else if looksPromoted e ev then .ret false
        else .raises (surface e)

end Decl

/-! ## The `async with` statement -/

/-- how the block of the `async with` ends; exceptions raised by the block are user objects -/
inductive Block where
  | normal
  | raises (id : Nat) (kind : Kind)
  | raisesFrom (id : Nat) (kind : Kind) (cause : Exc)
  deriving DecidableEq, Repr

def Block.exc : Block → Option Exc
  | .normal => none
  | .raises i k => some (.user i k)
  | .raisesFrom i k c => some (.userFrom i k c)

def Block.isGenExit (b : Block) : Bool :=
  match b.exc with
  | some e => e.kind == .generatorExit
  | none => false

/-- outcome of the whole statement -/
inductive Final where
  | normal                -- block ended normally and `__aexit__` returned
  | suppressed            -- block raised, `__aexit__` returned truthy
  | raises (e : Exc)      -- this object leaves the statement
  deriving DecidableEq, Repr

structure Obs where
  entered : Option Val    -- the value bound by `as`, if the block was entered
  final : Final
  ops : List GenOp        -- everything done to the generator object, in order
  deriving DecidableEq, Repr

/-- `async with cm as x: <block ending as b>` -/
def withStmt (aenter : Gen → EnterRes) (aexit : (Resume → Gen) → Option Exc → ExitRes × List GenOp)
    (g : Gen) (b : Block) : Obs :=
  match aenter g with
  | .raises e => { entered := none, final := .raises e, ops := [.anext] }
  | .entered v k =>
    let (r, ops) := aexit k b.exc
    let final : Final :=
      match r, b.exc with
      | .raises e, _ => .raises e
      | .ret _, none => .normal
      | .ret true, some _ => .suppressed
      | .ret false, some ev => .raises ev          -- the statement re-raises the block's exception
    { entered := some v, final := final, ops := .anext :: ops }

def Impl.run (g : Gen) (b : Block) : Obs := withStmt Impl.aenter Impl.aexit g b
def Std.run (g : Gen) (b : Block) : Obs := withStmt Std.aenter Std.aexit g b

/-- the continuation the generator is left in after `__aenter__` and the single wake-up of
    `__aexit__`, if it yielded a second time -/
def secondYield (g : Gen) (b : Block) : Option (Resume → Gen) :=
  match g with
  | .yield _ k =>
    (match (match b.exc with | none => k .next | some ev => k (.throw ev)) with
     | .yield _ k2 => some k2
     | _ => none)
  | _ => none

/-- hypothesis of the equality theorem: a *second* `yield` reached by waking the generator is a
    plain one — closing the generator there just ends it (it neither yields again nor raises) -/
def secondYieldClean (g : Gen) (b : Block) : Bool :=
  match secondYield g b with
  | some k2 => (aclose k2).isNone
  | none => true

/-! ## The harness grammar of generator programs

```python
async def gen():
    <start: raise e0 | return | fall through>
    try:
        yield v
    except <catch> as exc: <action>      # or: finally: pass     or: no try at all
    <after: nothing | second yield (guarded in one of four ways) | raise e2>
```
-/

inductive Start where
  | raises (e : Exc) | noYield | yields (v : Val)
  deriving DecidableEq, Repr

/-- `except BaseException` / `except Exception` / `except GeneratorExit` -/
inductive Catch where
  | all | exception | genExit
  deriving DecidableEq, Repr

def Catch.catches (c : Catch) (e : Exc) : Bool :=
  match c with
  | .all => true
  | .exception => e.kind.isSub .exception
  | .genExit => e.kind.isSub .generatorExit

inductive Action where
  | swallow                                -- pass
  | reraise                                -- raise
  | raiseNew (e : Exc)                     -- raise <new object> [from None]
  | raiseFrom (id : Nat) (kind : Kind)     -- raise K() from exc
  | raiseSameType (id : Nat)               -- raise type(exc)()
  | return_                                -- return
  | yieldAgain (v : Val)                   -- yield v   (inside the handler)
  deriving DecidableEq, Repr

inductive Handler where
  | none | finally_ | handle (c : Catch) (a : Action)
  deriving DecidableEq, Repr

/-- how a second `yield` after the `try` statement reacts to being closed -/
inductive Guard where
  | bare                                   -- yield v
  | finallyRaise (e : Exc)                 -- try: yield v  finally: raise e
  | swallowYield (v : Val)                 -- try: yield v  except GeneratorExit: yield v'
  | swallowStop                            -- try: yield v  except GeneratorExit: pass
  deriving DecidableEq, Repr

inductive After where
  | stop | yieldAgain (v : Val) (g : Guard) | raises (e : Exc)
  deriving DecidableEq, Repr

structure Program where
  start : Start
  handler : Handler
  after : After
  deriving DecidableEq, Repr

/-- a plain `yield v` that is the last statement -/
def bareYield (v : Val) (rest : Gen) : Gen :=
  .yield v fun r => match r with | .next => rest | .throw e => .raise e

def After.gen : After → Gen
  | .stop => .ret
  | .raises e => .raise e
  | .yieldAgain v .bare => bareYield v .ret
  | .yieldAgain v (.finallyRaise x) => .yield v fun _ => .raise x
  | .yieldAgain v (.swallowYield v') => .yield v fun r =>
      match r with
      | .next => .ret
      | .throw e => if e.kind.isSub .generatorExit then bareYield v' .ret else .raise e
  | .yieldAgain v .swallowStop => .yield v fun r =>
      match r with
      | .next => .ret
      | .throw e => if e.kind.isSub .generatorExit then .ret else .raise e

def Action.gen (a : Action) (thrown : Exc) (after : Gen) : Gen :=
  match a with
  | .swallow => after
  | .reraise => .raise thrown
  | .raiseNew e => .raise e
  | .raiseFrom i k => .raise (.userFrom i k thrown)
  | .raiseSameType i => .raise (.user i thrown.kind)
  | .return_ => .ret
  | .yieldAgain v => bareYield v after

def Program.gen (p : Program) : Gen :=
  match p.start with
  | .raises e => .raise e
  | .noYield => .ret
  | .yields v => .yield v fun r =>
    match r with
    | .next => p.after.gen
    | .throw e =>
      match p.handler with
      | .none => .raise e
      | .finally_ => .raise e
      | .handle c a => if c.catches e then a.gen e p.after.gen else .raise e

end AsyncVerif.ContextManager
