/-!
# Context managers used as decorators (asyncstdlib/contextlib.py) — model

`ContextDecorator.__call__`:

    async def inner(*args, **kwds):
        async with self._recreate_cm():
            return await func(*args, **kwds)

`ContextDecorator._recreate_cm` returns `self`; `_AsyncGeneratorContextManager._recreate_cm`
returns `type(self)(*self.__recreate_args)`, whose `__init__` calls the generator function again:
a brand-new generator object per call.

* `genAdvance` — one `send`/`throw` into an async generator object (Python semantics of a scripted
  user generator, including what the runtime does when a generator is used by two callers);
* `genAenter` / `genAexit` — the branches of `_AsyncGeneratorContextManager.__aenter__/__aexit__`;
* `callStep` — one `send`/`throw` on the coroutine `inner(...)`: runs it to its next suspension
  point (the `async with` statement, the awaited body, the exit);
* `step` — the **heap machine**: generator objects live in a shared store `gens`, a call reaches
  its generator only through the reference `_recreate_cm()` gave it (`Op.sched c` = one `send` on
  task `c`, `Op.cancel c x` = one `throw`);
* `pstep` — the **specification machine**: every call privately owns its manager state, so calls
  cannot interfere by construction.

No Mathlib, no proofs here: this file is also compiled into the driver.
-/
namespace AsyncVerif.Decorator

abbrev ExcId := Nat

/-- the `RuntimeError`s raised by the library or by the Python runtime -/
inductive RtKind where
  | didNotYield        -- "generator did not yield to __aenter__"
  | didNotStop         -- "generator did not stop after __aexit__"
  | didNotStopThrow    -- "generator did not stop after throw() in __aexit__"
  | alreadyRunning     -- runtime: "asynchronous generator is already running"
  deriving DecidableEq, Repr

/-- exception objects: injected ones are identified with their id (same id = same object) -/
inductive Exc where
  | user (e : ExcId)
  | runtime (k : RtKind)
  deriving DecidableEq, Repr

/-! ## User programs (scripts) -/

/-- what the generator does before its first `yield` (after `preSusp` suspensions) -/
inductive PreAct where
  | yields | raises (e : ExcId) | returns
  deriving DecidableEq, Repr

/-- what the generator does when resumed normally at its `yield` (after `postSusp` suspensions) -/
inductive PostAct where
  | stops | yieldsAgain | raises (e : ExcId)
  deriving DecidableEq, Repr

/-- what the generator does with an exception thrown in at its `yield` (after `thrSusp` suspensions) -/
inductive ThrowAct where
  | reraise | swallow | raiseNew (e : ExcId) | yieldsAgain
  deriving DecidableEq, Repr

/-- a scripted async generator function body -/
structure GenProg where
  preSusp : Nat
  pre : PreAct
  postSusp : Nat
  post : PostAct
  thrSusp : Nat
  thr : ThrowAct
  deriving DecidableEq, Repr

inductive EnterAct where
  | ok | raises (e : ExcId)
  deriving DecidableEq, Repr

/-- `reraise` = raise the exception handed in (falsy when there is none) -/
inductive ExitAct where
  | falsy | truthy | raiseNew (e : ExcId) | reraise
  deriving DecidableEq, Repr

/-- scripted `__aenter__` / `__aexit__` of a class-based `ContextDecorator` -/
structure PlainProg where
  enterSusp : Nat
  enter : EnterAct
  exitSusp : Nat
  exitNone : ExitAct
  exitSome : ExitAct
  deriving DecidableEq, Repr

inductive BodyAct where
  | returns (v : Nat) | raises (e : ExcId)
  deriving DecidableEq, Repr

/-- everything user code does during one call of the decorated function -/
structure CallCfg where
  gen : GenProg          -- the generator created for this call (generator-based manager)
  plain : PlainProg      -- `__aenter__`/`__aexit__` during this call (class-based manager)
  bodySusp : Nat
  body : BodyAct
  deriving DecidableEq, Repr

structure Cfg where
  generatorBased : Bool  -- `contextmanager`-created manager, or a plain `ContextDecorator` subclass
  calls : List CallCfg

/-! ## Async generator objects -/

inductive GenPc where
  | unstarted
  | pre (left : Nat)               -- suspended in an await before the first yield; `left` more to go
  | atYield
  | post (left : Nat)              -- resumed normally; suspended in an await after the yield
  | thr (e : Exc) (left : Nat)     -- resumed by `athrow(e)`; suspended in an await of the handler
  | again                          -- suspended at a second `yield` (a generator that does not stop)
  | finished
  deriving DecidableEq, Repr

structure GenCell where
  prog : GenProg
  pc : GenPc
  deriving DecidableEq, Repr

inductive Resume where
  | next                 -- first send into a new `gen.__anext__()` awaitable
  | throwIn (e : Exc)    -- first send into a new `gen.athrow(e)` awaitable
  | cont                 -- send into the awaitable the caller is in the middle of
  | cancel (x : Exc)     -- throw `x` into the awaitable the caller is in the middle of
  deriving DecidableEq, Repr

inductive GenOut where
  | suspended | yielded | stopped | raised (x : Exc)
  deriving DecidableEq, Repr

/-- how the body of the decorated function ended -/
inductive BodyOut where
  | returned (v : Nat) | raised (x : Exc)
  deriving DecidableEq, Repr

def BodyOut.exc : BodyOut → Option Exc
  | .returned _ => none
  | .raised x => some x

/-- what `__aexit__` answered to the `async with` statement -/
inductive ExitResp where
  | returned (b : Bool) | raised (x : Exc)
  deriving DecidableEq, Repr

/-- what awaiting the decorated call gives: a value, `None` (exception suppressed), an exception -/
inductive Result where
  | value (v : Nat) | none | raised (x : Exc)
  deriving DecidableEq, Repr

/-- events logged by *user* code (generator body / manager methods / decorated function), plus
    `exited` (ghost: the answer of `__aexit__`) and `finish` (logged by whoever awaits the call) -/
inductive LEv where
  | enter                       -- the manager's enter code starts running
  | entered                     -- ... and completes: the context is established
  | bodyBegin
  | bodyEnd (o : BodyOut)
  | exit (exc : Option Exc)     -- the manager's exit code starts, handed this exception
  | exited (r : ExitResp)
  | finish (r : Result)
  deriving DecidableEq, Repr

abbrev GRes := GenPc × GenOut × List LEv

def seg (n : Nat) (mk : Nat → GenPc) (fin : GRes) : GRes :=
  match n with
  | 0 => fin
  | k + 1 => (mk k, .suspended, [])

def preFin (p : GenProg) : GRes :=
  match p.pre with
  | .yields => (.atYield, .yielded, [.entered])
  | .raises e => (.finished, .raised (.user e), [])
  | .returns => (.finished, .stopped, [])

def postFin (p : GenProg) : GRes :=
  match p.post with
  | .stops => (.finished, .stopped, [])
  | .yieldsAgain => (.again, .yielded, [])
  | .raises e => (.finished, .raised (.user e), [])

def thrFin (p : GenProg) (e : Exc) : GRes :=
  match p.thr with
  | .reraise => (.finished, .raised e, [])
  | .swallow => (.finished, .stopped, [])
  | .raiseNew x => (.finished, .raised (.user x), [])
  | .yieldsAgain => (.again, .yielded, [])

def addEv (evs : List LEv) (r : GRes) : GRes := (r.1, r.2.1, evs ++ r.2.2)

/-- One `send`/`throw` into an async generator object running program `p`.
    The last group of cases is the Python runtime's reaction to a generator that is not in the
    state its caller expects (it is shared with another caller). -/
def genAdvance (p : GenProg) : GenPc → Resume → GRes
  | .unstarted, .next => addEv [.enter] (seg p.preSusp .pre (preFin p))
  | .pre k, .cont => seg k .pre (preFin p)
  | .atYield, .next => addEv [.exit none] (seg p.postSusp .post (postFin p))
  | .post k, .cont => seg k .post (postFin p)
  | .atYield, .throwIn e => addEv [.exit (some e)] (seg p.thrSusp (.thr e) (thrFin p e))
  | .thr e k, .cont => seg k (.thr e) (thrFin p e)
  -- an exception thrown at an inner suspension is not caught by the scripted user code
  | .pre _, .cancel x => (.finished, .raised x, [])
  | .post _, .cancel x => (.finished, .raised x, [])
  | .thr _ _, .cancel x => (.finished, .raised x, [])
  -- runtime semantics for generators in an unexpected state (CPython 3.12)
  | .unstarted, .throwIn e => (.finished, .raised e, [])
  | .again, .next => (.finished, .stopped, [])
  | .again, .throwIn e => (.finished, .raised e, [])
  | .finished, .next => (.finished, .stopped, [])
  | .finished, .throwIn _ => (.finished, .yielded, [])      -- `athrow` on a finished generator returns None
  | pc, _ => (pc, .raised (.runtime .alreadyRunning), [])

/-! ## The manager's `__aenter__` / `__aexit__` -/

/-- progress of an awaited manager method after one send -/
inductive Aw (α : Type) where
  | suspended | returned (a : α) | raised (x : Exc)
  deriving DecidableEq, Repr

/-- `_AsyncGeneratorContextManager.__aenter__`:
    `try: return await self.gen.__anext__()  except StopAsyncIteration: raise RuntimeError(...)` -/
def genAenter : GenOut → Aw Unit
  | .suspended => .suspended
  | .yielded => .returned ()
  | .stopped => .raised (.runtime .didNotYield)
  | .raised x => .raised x

/-- `_AsyncGeneratorContextManager.__aexit__` (exceptions other than `GeneratorExit`,
    `StopIteration`, `StopAsyncIteration`) -/
def genAexit (exc : Option Exc) (out : GenOut) : Aw Bool :=
  match exc with
  | none =>                                   -- `if exc_type is None:`
    match out with
    | .suspended => .suspended
    | .stopped => .returned false             --   `except StopAsyncIteration: return False`
    | .yielded => .raised (.runtime .didNotStop)   -- `else: raise RuntimeError(...)`
    | .raised x => .raised x
  | some e =>                                 -- `else:` … `await self.gen.athrow(exc_val)`
    match out with
    | .suspended => .suspended
    | .stopped => .returned true              --   `except StopAsyncIteration as exc: return exc is not exc_tb`
    | .raised x => if x = e then .returned false else .raised x
                                              --   `except RuntimeError/exc_type as exc: if exc is exc_val: return False; raise`
    | .yielded => .raised (.runtime .didNotStopThrow)   -- `else: raise RuntimeError(...)`

def plainEnterFin (cc : CallCfg) : Aw Unit × List LEv :=
  match cc.plain.enter with
  | .ok => (.returned (), [.entered])
  | .raises e => (.raised (.user e), [])

def plainExitAct (a : ExitAct) (exc : Option Exc) : Aw Bool :=
  match a with
  | .falsy => .returned false
  | .truthy => .returned true
  | .raiseNew e => .raised (.user e)
  | .reraise => match exc with
    | none => .returned false
    | some x => .raised x

def plainExitFin (cc : CallCfg) (exc : Option Exc) : Aw Bool :=
  match exc with
  | none => plainExitAct cc.plain.exitNone none
  | some x => plainExitAct cc.plain.exitSome (some x)

/-! ## One call of the decorated function -/

inductive Pc where
  | fresh                                   -- coroutine `inner(...)` created, never sent to
  | entering (left : Nat)                   -- suspended inside `await cm.__aenter__()`
  | body (left : Nat)                       -- suspended inside `await func(*args, **kwds)`
  | exiting (o : BodyOut) (left : Nat)      -- suspended inside `await cm.__aexit__(...)`
  | done (r : Result)
  deriving DecidableEq, Repr
  -- `left` of entering/exiting: suspensions left in the running method of a class-based manager
  -- (a coroutine object private to the call); unused (0) for generator-based managers.

/-- what one call can see: its own program counter and the generator of *its* manager -/
structure Local where
  pc : Pc
  cell : GenCell
  deriving DecidableEq, Repr

inductive Stage where
  | enter | body | exit
  deriving DecidableEq, Repr

/-- what the scheduler sees after one `send`/`throw` on a task -/
inductive Out where
  | suspended (s : Stage) | finished (r : Result) | skipped
  deriving DecidableEq, Repr

inductive COp where
  | resume | cancel (x : Exc)
  deriving DecidableEq, Repr

abbrev R := Local × List LEv × Out

def prepend (evs : List LEv) (r : R) : R := (r.1, evs ++ r.2.1, r.2.2)

/-- the `async with` statement once `__aexit__` has answered; `o` = how the body ended.
    Body returned: the value is returned whatever `__aexit__` returns.  Body raised: a truthy answer
    suppresses (the function falls off the `async with` and returns `None`), a falsy one re-raises
    the body's exception.  An exception raised by `__aexit__` replaces everything. -/
def combine (o : BodyOut) (resp : ExitResp) : Result :=
  match resp, o with
  | .raised x, _ => .raised x
  | .returned _, .returned v => .value v
  | .returned true, .raised _ => .none
  | .returned false, .raised e => .raised e

def finishExit (cell : GenCell) (o : BodyOut) (resp : ExitResp) : R :=
  ({ pc := .done (combine o resp), cell := cell }, [.exited resp, .finish (combine o resp)],
   .finished (combine o resp))

def contExit (cell : GenCell) (o : BodyOut) (left : Nat) : Aw Bool → R
  | .suspended => ({ pc := .exiting o left, cell := cell }, [], .suspended .exit)
  | .returned b => finishExit cell o (.returned b)
  | .raised x => finishExit cell o (.raised x)

/-- one send into the running `__aexit__` of a class-based manager with `n` suspensions left -/
def plainExitSeg (cc : CallCfg) (cell : GenCell) (o : BodyOut) : Nat → R
  | 0 => contExit cell o 0 (plainExitFin cc o.exc)
  | k + 1 => contExit cell o k .suspended

/-- one send/throw into `cm.__aexit__(exc)` of a generator-based manager -/
def genExitSend (cell : GenCell) (o : BodyOut) (r : Resume) : R :=
  let g := genAdvance cell.prog cell.pc r
  prepend g.2.2 (contExit { cell with pc := g.1 } o 0 (genAexit o.exc g.2.1))

/-- `__aexit__` starts with `gen.__anext__()` (no exception) or `gen.athrow(exc_val)` -/
def exitResume (o : BodyOut) : Resume :=
  match o.exc with
  | none => .next
  | some e => .throwIn e

/-- leaving the `async with` block: first send into `cm.__aexit__(*exc_info)` -/
def startExit (gb : Bool) (cc : CallCfg) (cell : GenCell) (o : BodyOut) : R :=
  if gb then
    genExitSend cell o (exitResume o)
  else
    prepend [.exit o.exc] (plainExitSeg cc cell o cc.plain.exitSusp)

def bodyFin (cc : CallCfg) : BodyOut :=
  match cc.body with
  | .returns v => .returned v
  | .raises e => .raised (.user e)

def afterBody (gb : Bool) (cc : CallCfg) (cell : GenCell) (o : BodyOut) : R :=
  prepend [.bodyEnd o] (startExit gb cc cell o)

/-- one send into `await func(*args, **kwds)` with `n` suspensions left -/
def contBody (gb : Bool) (cc : CallCfg) (cell : GenCell) : Nat → R
  | 0 => afterBody gb cc cell (bodyFin cc)
  | k + 1 => ({ pc := .body k, cell := cell }, [], .suspended .body)

/-- the `async with` statement once `__aenter__` made progress: an exception leaves `inner`
    (no exit); a value starts the body -/
def afterEnter (gb : Bool) (cc : CallCfg) (cell : GenCell) (left : Nat) : Aw Unit → R
  | .suspended => ({ pc := .entering left, cell := cell }, [], .suspended .enter)
  | .raised x => ({ pc := .done (.raised x), cell := cell }, [.finish (.raised x)], .finished (.raised x))
  | .returned () => prepend [.bodyBegin] (contBody gb cc cell cc.bodySusp)

def genEnterSend (gb : Bool) (cc : CallCfg) (cell : GenCell) (r : Resume) : R :=
  let g := genAdvance cell.prog cell.pc r
  prepend g.2.2 (afterEnter gb cc { cell with pc := g.1 } 0 (genAenter g.2.1))

def plainEnterSeg (gb : Bool) (cc : CallCfg) (cell : GenCell) : Nat → R
  | 0 => prepend (plainEnterFin cc).2 (afterEnter gb cc cell 0 (plainEnterFin cc).1)
  | k + 1 => afterEnter gb cc cell k .suspended

/-- One `send` (`resume`) or `throw` (`cancel x`) on the coroutine `inner(*args, **kwds)`. -/
def callStep (gb : Bool) (cc : CallCfg) (l : Local) : COp → R
  | .resume =>
    match l.pc with
    | .fresh =>            -- `async with self._recreate_cm():` → `await cm.__aenter__()`
      if gb then genEnterSend gb cc l.cell .next
      else prepend [.enter] (plainEnterSeg gb cc l.cell cc.plain.enterSusp)
    | .entering k => if gb then genEnterSend gb cc l.cell .cont else plainEnterSeg gb cc l.cell k
    | .body k => contBody gb cc l.cell k
    | .exiting o k => if gb then genExitSend l.cell o .cont else plainExitSeg cc l.cell o k
    | .done _ => (l, [], .skipped)
  | .cancel x =>
    match l.pc with
    | .fresh =>            -- throwing into a coroutine that never started runs none of its code
      ({ l with pc := .done (.raised x) }, [.finish (.raised x)], .finished (.raised x))
    | .entering _ =>
      if gb then genEnterSend gb cc l.cell (.cancel x) else afterEnter gb cc l.cell 0 (.raised x)
    | .body _ => afterBody gb cc l.cell (.raised x)
    | .exiting o _ =>
      if gb then genExitSend l.cell o (.cancel x) else contExit l.cell o 0 (.raised x)
    | .done _ => (l, [], .skipped)

/-! ## The heap machine (implementation) -/

structure Op where
  call : Nat
  cop : COp
  deriving DecidableEq, Repr

/-- an event with the call whose task was running and the generator object that logged it /
    that this call's manager holds (`none`: class-based manager, or no manager yet) -/
structure Ev where
  call : Nat
  gen : Option Nat
  ev : LEv
  deriving DecidableEq, Repr

structure CallSt where
  pc : Pc
  gid : Option Nat        -- `cm.gen` of the manager `_recreate_cm()` returned, as a heap reference
  deriving DecidableEq, Repr

structure State where
  gens : Nat → GenCell    -- store of generator objects
  ngens : Nat             -- number of generator objects created so far
  calls : Nat → CallSt
  log : List Ev

def dfltProg : GenProg := ⟨0, .yields, 0, .stops, 0, .reraise⟩
def initCell (cc : CallCfg) : GenCell := { prog := cc.gen, pc := .unstarted }
def dfltCell : GenCell := { prog := dfltProg, pc := .unstarted }

/-- decoration time: `cm = ctx(...)` already created generator object 0 (never started by calls) -/
def State.init : State :=
  { gens := fun _ => dfltCell, ngens := 1, calls := fun _ => { pc := .fresh, gid := none }, log := [] }

def setAt {α : Type} (f : Nat → α) (i : Nat) (v : α) : Nat → α := fun j => if j = i then v else f j

/-- `self._recreate_cm()` for call `c`: a generator-based manager calls the generator function
    again (new object in the store); a plain `ContextDecorator` returns `self` (no generator) -/
def recreate (gb : Bool) (s : State) (c : Nat) (cc : CallCfg) : State :=
  if gb then
    { s with gens := setAt s.gens s.ngens (initCell cc), ngens := s.ngens + 1,
             calls := setAt s.calls c { pc := .fresh, gid := some s.ngens } }
  else s

def isFirstSend (pc : Pc) (op : COp) : Bool :=
  match pc, op with
  | .fresh, .resume => true
  | _, _ => false

/-- the call's manager state as the call reaches it: through its reference into the store -/
def cellOf (s : State) (c : Nat) (cc : CallCfg) : GenCell :=
  match (s.calls c).gid with
  | some g => s.gens g
  | none => initCell cc

/-- one `send`/`throw` on task `c` once its manager exists: read the manager's generator through
    the reference, run the coroutine to its next suspension point, write the generator back -/
def core (gb : Bool) (s : State) (c : Nat) (cc : CallCfg) (cop : COp) : State × Out :=
  let r := callStep gb cc { pc := (s.calls c).pc, cell := cellOf s c cc } cop
  ({ gens := match (s.calls c).gid with
        | some g => setAt s.gens g r.1.cell
        | none => s.gens,
     ngens := s.ngens,
     calls := setAt s.calls c { pc := r.1.pc, gid := (s.calls c).gid },
     log := s.log ++ r.2.1.map (fun e => ⟨c, (s.calls c).gid, e⟩) }, r.2.2)

def step (cfg : Cfg) (s : State) (op : Op) : State × Out :=
  match cfg.calls[op.call]? with
  | none => (s, .skipped)
  | some cc =>
    -- the first send runs `self._recreate_cm()` before anything else
    let s1 := if isFirstSend (s.calls op.call).pc op.cop then recreate cfg.generatorBased s op.call cc else s
    core cfg.generatorBased s1 op.call cc op.cop

def runFrom (cfg : Cfg) (s : State) : List Op → State × List Out
  | [] => (s, [])
  | op :: rest =>
    let r := step cfg s op
    let r' := runFrom cfg r.1 rest
    (r'.1, r.2 :: r'.2)

def run (cfg : Cfg) (ops : List Op) : State × List Out := runFrom cfg State.init ops

/-! ## The specification machine: every call owns its manager privately -/

structure PState where
  calls : Nat → Local
  log : List (Nat × LEv)

def PState.init (cfg : Cfg) : PState :=
  { calls := fun c => { pc := .fresh, cell := match cfg.calls[c]? with
                                               | some cc => initCell cc
                                               | none => dfltCell },
    log := [] }

def pstep (cfg : Cfg) (s : PState) (op : Op) : PState × Out :=
  match cfg.calls[op.call]? with
  | none => (s, .skipped)
  | some cc =>
    let r := callStep cfg.generatorBased cc (s.calls op.call) op.cop
    ({ calls := setAt s.calls op.call r.1, log := s.log ++ r.2.1.map (fun e => (op.call, e)) }, r.2.2)

def prunFrom (cfg : Cfg) (s : PState) : List Op → PState × List Out
  | [] => (s, [])
  | op :: rest =>
    let r := pstep cfg s op
    let r' := prunFrom cfg r.1 rest
    (r'.1, r.2 :: r'.2)

def prun (cfg : Cfg) (ops : List Op) : PState × List Out := prunFrom cfg (PState.init cfg) ops

/-! ## The per-call specification automaton -/

inductive SpecSt where
  | init | entering | entered | inBody
  | bodyDone (o : BodyOut) | exiting (o : BodyOut) | exited (o : BodyOut) (r : ExitResp)
  | finished (r : Result)
  deriving DecidableEq, Repr

/-- the only admissible next events of one call:
    `enter, entered, bodyBegin, bodyEnd o, exit (exception of o), exited resp, finish (combine o resp)`,
    cut short by `finish (raised x)` before anything ran (thrown into before it started) or while
    entering (enter failed / was cancelled: no body, no exit) -/
def specStep : SpecSt → LEv → Option SpecSt
  | .init, .enter => some .entering
  | .init, .finish (.raised x) => some (.finished (.raised x))
  | .entering, .entered => some .entered
  | .entering, .finish (.raised x) => some (.finished (.raised x))
  | .entered, .bodyBegin => some .inBody
  | .inBody, .bodyEnd o => some (.bodyDone o)
  | .bodyDone o, .exit x => if x = o.exc then some (.exiting o) else none
  | .exiting o, .exited r => some (.exited o r)
  | .exited o r, .finish res => if res = combine o r then some (.finished res) else none
  | _, _ => none

def specFrom (st : SpecSt) : List LEv → Option SpecSt
  | [] => some st
  | e :: rest => match specStep st e with
    | none => none
    | some st' => specFrom st' rest

/-- the events of call `c`, in order -/
def proj (c : Nat) (log : List Ev) : List LEv := (log.filter (fun e => e.call == c)).map (·.ev)

end AsyncVerif.Decorator
