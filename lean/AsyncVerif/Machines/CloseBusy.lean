/-!
# Closing a library iterator WHILE ANOTHER TASK IS INSIDE IT — model (C17, C07, C08)

Two tasks share one library handle `H` built on the user's source `S`:

* task **A** runs `await H.__anext__()` and is suspended inside the user's `S.__anext__()` (reached through
  `H`); `k` more user suspensions follow before `S.__anext__()` completes;
* task **B** runs `await H.aclose()`.

One scheduling step `Op.sched t` runs task `t` from its current suspension point to its next one (one real
`coro.send(None)`).  Every suspension that reaches the event loop is logged as an `Ev` carrying its ORIGIN:
`Origin.user tok` (an awaitable of the user's source: `Tok.src j` inside `S.__anext__()`, `Tok.close j` inside
`S.aclose()`) or `Origin.lib` (something of the library's own: a lock, an event, a `sleep(0)` poll …).

What `H.aclose()` does, per kind of handle (confirmed by hand-driving the real coroutines, CPython 3.12):

* `gen` — a tool that is ONE async generator over `S` (`zip`, `map`, `filter`, `takewhile`, …; `islice` is the same
  while busy, but it nests a second library generator, `enumerate`, see the report in `Properties/C17CloseBusy.lean`):
  `agen.aclose()` on a generator that is RUNNING (A is inside it) raises
  `RuntimeError("aclose(): asynchronous generator is already running")` at once.  On an idle generator it throws
  `GeneratorExit` in at the `yield`; the `async with ScopedIter(S)` is left: `S.aclose()`.
* `chainObj` — `chain.aclose` (itertools.py):
  ```
  try:     await close_all(self._owned_iterators)   # S.aclose(); a failure is kept, not raised yet
  finally: await self._iterator.aclose()            # the `_chain_iterator` generator: as `gen`
  ```
  So `S.aclose()` is called DIRECTLY, busy handle or not; then the generator's `aclose()` raises RuntimeError if
  A is still inside, or closes it (`ScopedIter.__aexit__` calls `S.aclose()` a second time) if A has left.
* `groupbyObj` — `_GroupByState.aclose`: `group.aclose()` (no await inside), then
  `if hasattr(it, "aclose"): await it.aclose()`: `S.aclose()` directly; `GroupBy` is a class, there is no busy check.
* `borrowed` — `borrow(S).aclose()` = `_aclose_wrapper()` = `await self._wrapper.aclose()`; the wrapper is the
  generator `(item async for item in S)`: RUNNING → RuntimeError at once (NOT a silent no-op); idle → the wrapper
  is closed, `S` is not touched.
* `scoped` — the handle of `scoped_iter(S)`: `_ScopedAsyncIterator.aclose` is `pass`.
* `teeChild` — `tee(S, n=2)[0].aclose()`: the `tee_peer` generator: running → RuntimeError; idle → its `finally`
  removes its buffer, the sibling's buffer is still there, `S` is not closed.
* `teeAll` — `tee(S, n=2).aclose()`: `for child in children: await child.aclose()`: child 0 running → RuntimeError;
  idle → both children closed, then `self._buffers` is non-empty (the never started sibling): `S.aclose()`.

What `S.aclose()` does (`callSrcClose`): a NATIVE async generator that is running refuses with RuntimeError at once,
a closed one returns at once, an idle one runs its `finally` (`closeSusp` user suspensions, then it is closed);
a CLASS-BASED source runs the user's `aclose` whenever it is called (`closeSusp` user suspensions, then `dead`),
also while A is inside its `__anext__`, also a second time.  After its last suspension `S.__anext__()` of a class-based
source that has been closed under it raises StopAsyncIteration (`harness/world.py: AObjSource`), otherwise it
returns the item.

`stepPolling` is a deliberately WRONG `aclose()` ("wait until the handle is idle, then close it"): it suspends on
an object of the library (`Origin.lib`) and B's number of steps grows with A's.  It is only used to show that the
theorems of `Properties/C17CloseBusy.lean` say something.

No Mathlib, no proofs here: this file is also compiled into the driver.
-/
namespace AsyncVerif.CloseBusy

/-- kind of the library handle `H` -/
inductive Kind where
  | gen | chainObj | groupbyObj | borrowed | scoped | teeChild | teeAll
  deriving DecidableEq, Repr

/-- the user's source: a native async generator or a class with `__anext__` / `aclose` -/
inductive SrcKind where
  | native | cls
  deriving DecidableEq, Repr

inductive Task where
  | A | B
  deriving DecidableEq, Repr

/-- tokens of the user's awaitables: suspension `j` inside `S.__anext__()` / inside one `S.aclose()` -/
inductive Tok where
  | src (j : Nat)
  | close (j : Nat)
  deriving DecidableEq, Repr

/-- where a suspension that reached the event loop comes from -/
inductive Origin where
  | user (tok : Tok)
  | lib
  deriving DecidableEq, Repr

/-- one suspension that reached the event loop -/
structure Ev where
  task : Task
  origin : Origin
  deriving DecidableEq, Repr

/-- what one `send` on a task's coroutine gives: a suspension, or the task's result -/
inductive Out where
  | susp (o : Origin)
  | item        -- A: `H.__anext__()` returned an item
  | stop        -- A: StopAsyncIteration
  | ret         -- B: `H.aclose()` returned None
  | busy        -- B: RuntimeError("aclose(): asynchronous generator is already running")
  deriving DecidableEq, Repr

inductive ARes where
  | item | stop
  deriving DecidableEq, Repr

def ARes.out : ARes → Out
  | .item => .item
  | .stop => .stop

/-- A's program counter -/
inductive APc where
  | inSrc (j : Nat)     -- suspended inside `S.__anext__()`, `j` more suspensions to come
  | inClose (j : Nat)   -- suspended inside `S.aclose()` called by `ScopedIter.__aexit__` in the handle's generator
  | done (r : ARes)
  deriving DecidableEq, Repr

/-- what B does when the `S.aclose()` it is suspended in returns -/
inductive Cont where
  | thenIter                -- chain: `close_all` is through; next `await self._iterator.aclose()`
  | genExit (fail : Bool)   -- inside the closing of the handle's generator; `fail`: re-raise `close_all`'s failure
  | ret                     -- return None
  deriving DecidableEq, Repr

/-- B's program counter -/
inductive BPc where
  | idle                               -- `H.aclose()` not started yet
  | inUserClose (j : Nat) (c : Cont)   -- suspended inside `S.aclose()`, `j` more suspensions to come
  | done
  deriving DecidableEq, Repr

structure St where
  kind : Kind
  srcKind : SrcKind
  k : Nat               -- suspensions of `S.__anext__()` that were still to come at the start
  closeSusp : Nat       -- suspensions of one `S.aclose()`
  a : APc
  b : BPc
  dead : Bool           -- an `S.aclose()` ran to completion
  closes : Nat          -- ghost: number of `S.aclose()` that ran to completion
  closeCalls : Nat      -- ghost: number of `S.aclose()` calls that entered the user's code
  handleDone : Bool     -- the handle's own generator is closed / ran to its end
  events : List Ev      -- every suspension that reached the loop, in order
  aOut : List Out
  bOut : List Out
  aSteps : Nat          -- ghost: `send`s performed on A
  bSteps : Nat          -- ghost: `send`s performed on B
  deriving DecidableEq, Repr

inductive Op where
  | sched (t : Task)
  deriving DecidableEq, Repr

/-- A is suspended inside the source through `H`, `k` suspensions to come; B has not called `H.aclose()` yet -/
def init (kind : Kind) (srcKind : SrcKind) (k closeSusp : Nat) : St :=
  { kind := kind, srcKind := srcKind, k := k, closeSusp := closeSusp, a := .inSrc k, b := .idle, dead := false,
    closes := 0, closeCalls := 0, handleDone := false, events := [], aOut := [], bOut := [], aSteps := 0,
    bSteps := 0 }

/-- A is inside the handle (and inside the source) -/
def St.aInside (s : St) : Bool :=
  match s.a with
  | .done _ => false
  | _ => true

/-- task `t`'s coroutine has returned / raised -/
def St.finished (s : St) : Task → Bool
  | .A => !s.aInside
  | .B => s.b == .done

/-- how a call of `S.aclose()` begins -/
inductive CloseStart where
  | refused            -- RuntimeError at once (running native generator)
  | returned           -- it returned without suspending
  | suspended (j : Nat) -- it suspended on the user's first close token; `j` more to come
  deriving DecidableEq, Repr

/-- the user's `aclose` body starts: `closeSusp` suspensions, then the source is closed -/
def beginClose (s : St) : St × CloseStart :=
  let s1 := { s with closeCalls := s.closeCalls + 1 }
  match s.closeSusp with
  | 0 => ({ s1 with dead := true, closes := s1.closes + 1 }, .returned)
  | j + 1 => (s1, .suspended j)

/-- `S.aclose()` called by B -/
def callSrcClose (s : St) : St × CloseStart :=
  match s.srcKind with
  | .native =>
    if s.aInside then (s, .refused)        -- `aclose(): asynchronous generator is already running`
    else if s.dead then (s, .returned)     -- closed generator: nothing to do
    else beginClose s                      -- GeneratorExit at its `yield`: its `finally` runs
  | .cls => beginClose s

/-- the source's `aclose()` that a task was suspended in has returned -/
def srcClosed (s : St) : St := { s with dead := true, closes := s.closes + 1 }

/-! ### task A -/

def aSusp (tok : Tok) (s : St) : St :=
  { s with events := s.events ++ [⟨.A, .user tok⟩], aOut := s.aOut ++ [.susp (.user tok)] }

def aFinish (r : ARes) (s : St) : St :=
  { s with a := .done r, aOut := s.aOut ++ [r.out] }

/-- `S.__anext__()` raised StopAsyncIteration into the handle (class-based source closed under A) -/
def aAfterStop (s : St) : St :=
  match s.kind with
  | .gen | .chainObj =>
    -- the `async for` ends, `async with ScopedIter(S)` is left: `S.aclose()` once more, by A
    match beginClose s with
    | (s1, .suspended j) => aSusp (.close 0) { s1 with a := .inClose j }
    | (s1, _) => aFinish .stop { s1 with handleDone := true }
  | .groupbyObj => aFinish .stop s                                -- `GroupBy.__anext__` lets it through
  | .borrowed | .scoped => aFinish .stop { s with handleDone := true }   -- the wrapper generator ends
  | .teeChild | .teeAll => aFinish .stop { s with handleDone := true }   -- `tee_peer`: `break`; a sibling remains

/-- one `send` on A -/
def stepA (s : St) : St :=
  match s.a with
  | .inSrc (j + 1) => aSusp (.src (s.k - j)) { s with a := .inSrc j }
  | .inSrc 0 =>
    if s.srcKind = .cls ∧ s.dead = true then aAfterStop s else aFinish .item s
  | .inClose (j + 1) => aSusp (.close (s.closeSusp - 1 - j)) { s with a := .inClose j }
  | .inClose 0 => aFinish .stop { srcClosed s with handleDone := true }
  | .done _ => s

/-! ### task B -/

def bSusp (tok : Tok) (s : St) : St :=
  { s with events := s.events ++ [⟨.B, .user tok⟩], bOut := s.bOut ++ [.susp (.user tok)] }

/-- `H.aclose()` raises RuntimeError -/
def bRaise (s : St) : St := { s with b := .done, bOut := s.bOut ++ [.busy] }

/-- `H.aclose()` is through: it returns None, or re-raises the failure `close_all` kept -/
def bFinish (fail : Bool) (s : St) : St :=
  { s with b := .done, bOut := s.bOut ++ [if fail then Out.busy else Out.ret] }

/-- `await self._iterator.aclose()` on the handle's own async generator -/
def bIterClose (fail : Bool) (s : St) : St :=
  if s.aInside then bRaise s                       -- the generator is running
  else if s.handleDone then bFinish fail s         -- finished / closed generator: nothing to do
  else
    -- GeneratorExit at the `yield`; `ScopedIter.__aexit__`: `S.aclose()`
    match callSrcClose s with
    | (s1, .refused) => bRaise { s1 with handleDone := true }
    | (s1, .returned) => bFinish fail { s1 with handleDone := true }
    | (s1, .suspended j) => bSusp (.close 0) { s1 with b := .inUserClose j (.genExit fail) }

/-- B calls `S.aclose()` directly and returns when it does -/
def bDirectClose (s : St) : St :=
  match callSrcClose s with
  | (s1, .refused) => bRaise s1
  | (s1, .returned) => bFinish false s1
  | (s1, .suspended j) => bSusp (.close 0) { s1 with b := .inUserClose j .ret }

/-- `H.aclose()` starts -/
def bStart (s : St) : St :=
  match s.kind with
  | .gen => bIterClose false s
  | .chainObj =>
    match callSrcClose s with                      -- `close_all(self._owned_iterators)`
    | (s1, .refused) => bIterClose true s1         -- failure kept; `finally:` the generator's `aclose()`
    | (s1, .returned) => bIterClose false s1
    | (s1, .suspended j) => bSusp (.close 0) { s1 with b := .inUserClose j .thenIter }
  | .groupbyObj => bDirectClose s
  | .borrowed | .teeChild =>
    if s.aInside then bRaise s else bFinish false { s with handleDone := true }
  | .scoped => bFinish false s
  | .teeAll => if s.aInside then bRaise s else bDirectClose { s with handleDone := true }

/-- the `S.aclose()` B was suspended in has returned -/
def bContinue (c : Cont) (s : St) : St :=
  match c with
  | .thenIter => bIterClose false s
  | .genExit fail => bFinish fail { s with handleDone := true }
  | .ret => bFinish false s

/-- one `send` on B -/
def stepB (s : St) : St :=
  match s.b with
  | .idle => bStart s
  | .inUserClose (j + 1) c => bSusp (.close (s.closeSusp - 1 - j)) { s with b := .inUserClose j c }
  | .inUserClose 0 c => bContinue c (srcClosed s)
  | .done => s

/-- one scheduling step; a finished task is not resumed -/
def step (s : St) : Op → St
  | .sched .A =>
    match s.a with
    | .done _ => s
    | _ => stepA { s with aSteps := s.aSteps + 1 }
  | .sched .B =>
    match s.b with
    | .done => s
    | _ => stepB { s with bSteps := s.bSteps + 1 }

def run (s : St) : List Op → St
  | [] => s
  | op :: ops => run (step s op) ops

/-- the whole scenario -/
def exec (kind : Kind) (srcKind : SrcKind) (k closeSusp : Nat) (ops : List Op) : St :=
  run (init kind srcKind k closeSusp) ops

/-- number of times task `t` is scheduled -/
def count (t : Task) : List Op → Nat
  | [] => 0
  | .sched u :: ops => (if u = t then 1 else 0) + count t ops

/-- the suspensions of task `t` that reached the loop -/
def St.eventsOf (s : St) (t : Task) : List Ev := s.events.filter (fun e => e.task = t)

/-- user suspensions of the closes `H.aclose()` may legitimately await, whatever the schedule:
    `chain` may await `S.aclose()` twice (once through `close_all`, once through `ScopedIter`),
    `gen` / `groupby` / `Tee.aclose` once, the others never -/
def closeBound (kind : Kind) (closeSusp : Nat) : Nat :=
  match kind with
  | .gen => closeSusp
  | .chainObj => closeSusp + closeSusp
  | .groupbyObj => closeSusp
  | .borrowed => 0
  | .scoped => 0
  | .teeChild => 0
  | .teeAll => closeSusp

/-! ### a WRONG `aclose()`, for contrast -/

/-- "wait until nobody is inside the handle, then close it": B polls a library-internal condition -/
def stepPolling (s : St) : Op → St
  | .sched .A => step s (.sched .A)
  | .sched .B =>
    if s.b = .idle ∧ s.aInside = true then
      { s with bSteps := s.bSteps + 1, events := s.events ++ [⟨.B, .lib⟩], bOut := s.bOut ++ [.susp .lib] }
    else step s (.sched .B)

def runPolling (s : St) : List Op → St
  | [] => s
  | op :: ops => runPolling (stepPolling s op) ops

end AsyncVerif.CloseBusy
