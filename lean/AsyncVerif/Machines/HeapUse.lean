import AsyncVerif.Machines.Heap
import AsyncVerif.Std.Aggregations
import AsyncVerif.Std.Select
/-!
# The binary heap in its two uses: `merge` and `nlargest` / `nsmallest`

The models `Std.mergeLoop` and `Sel.selectV` keep an *abstract* heap (a list with "take the minimum out" /
the ordered list of entries).  Here the same steps are written with the binary heap of `Machines/Heap.lean`, the way
asyncstdlib's `heapq.py` calls the standard library: `heapify`, then `heapreplace` / `heappop` on `heap[0]`.
`Proofs/HeapRefine.lean` shows that the two move together (so the abstraction is not part of the trusted base).
-/
namespace AsyncVerif.Heap

open AsyncVerif.Sel

/-! ## merge -/

/-- what one round of the merging loop does to the heap after yielding `heap[0].head`: the input delivered a
    next item (`heapreplace` with the same entry, new head and key) or is exhausted (`heappop`) -/
inductive MergeStep where
  | pulled (head key : Val)
  | exhausted

/-- one round on the abstract heap (`Std.mergeLoop`): the entry whose head is yielded, the heap afterwards -/
def absStep (reverse : Bool) (l : List Std.Entry) (op : MergeStep) : Option (Std.Entry × List Std.Entry) :=
  match Std.popMin reverse l with
  | none => none
  | some (m, others) =>
    match op with
    | .pulled h k => some (m, { m with head := h, key := k } :: others)
    | .exhausted => some (m, others)

/-- one round on the binary heap, as asyncstdlib's `merge` performs it -/
def heapStep (reverse : Bool) (a : Array Std.Entry) (op : MergeStep) : Option (Std.Entry × Array Std.Entry) :=
  if h : 0 < a.size then
    match op with
    | .pulled hd k => heapreplace (Std.Entry.before reverse) a { a[0] with head := hd, key := k }
    | .exhausted => heappop (Std.Entry.before reverse) a
  else none

/-- rounds on the abstract heap until the steps or the heap run out: the yielded entries, the heap afterwards -/
def absRun (reverse : Bool) : List Std.Entry → List MergeStep → List Std.Entry × List Std.Entry
  | l, [] => ([], l)
  | l, op :: ops =>
    match absStep reverse l op with
    | none => ([], l)
    | some (m, l') => let r := absRun reverse l' ops; (m :: r.1, r.2)

/-- the same rounds on the binary heap -/
def heapRun (reverse : Bool) : Array Std.Entry → List MergeStep → List Std.Entry × Array Std.Entry
  | a, [] => ([], a)
  | a, op :: ops =>
    match heapStep reverse a op with
    | none => ([], a)
    | some (m, a') => let r := heapRun reverse a' ops; (m :: r.1, r.2)

/-- the new key of a `pulled` round is orderable -/
def MergeStep.ok : MergeStep → Prop
  | .pulled _ k => k.key?.isSome = true
  | .exhausted => True

/-! ## nlargest / nsmallest -/

/-- Python's `<` on the heap entries of the selection (flipped for the max-heap variant): `e` is the worse entry.
    (`false` where the comparison raises `TypeError`; not used there.) -/
def worseB (c : Cfg) (e a : VE) : Bool :=
  match worseV c e a with
  | .ok b => b
  | .error _ => false

/-- the entries `heapify` is called on: `(ordered(key(item)), index * order_sign, item)` for the first items -/
def firstEntries (c : Cfg) (first : List (Val × Val)) : List VE :=
  first.zipIdx.map (fun p => ⟨p.1.1, stamp c.pos p.2, p.1.2⟩)

/-- one round of the scan on the binary heap, as written in `_largest`:
    `if worst_key < item_key: heapreplace(n_heap, (item_key, next_index, item)); next_index += order_sign`
    with `worst_key = n_heap[0][0]` -/
def heapAccept (c : Cfg) (st : Array VE × Int) (k x : Val) : Except Exc (Array VE × Int) :=
  match st.1[0]? with
  | none => .ok st
  | some worst => do
    if (← kbV c.largest k worst.key) then
      match heapreplace (worseB c) st.1 ⟨k, st.2, x⟩ with
      | some (_, h) => pure (h, nextStamp c.pos st.2)
      | none => pure st
    else pure st

/-- the selection with the binary heap: `heapify` of the first `n` entries, then the scan; the heap at the end
    (before the final `sort`) -/
def heapSelect (c : Cfg) (n : Nat) (keyed : List (Val × Val)) : Except Exc (Array VE) :=
  if (keyed.take n).isEmpty then .ok #[]
  else do
    let st ← (keyed.drop n).foldlM (fun st p => heapAccept c st p.1 p.2)
      (heapify (worseB c) (firstEntries c (keyed.take n)).toArray, stamp c.pos n)
    pure st.1

end AsyncVerif.Heap
