/-!
# cached_property (asyncstdlib/functools.py `CachedProperty`, `_FutureCachedPropertyValue`,
# `AwaitableValue`) — model

One attribute name, any number of instances.  `slot i` is `instance_i.__dict__.get(name)`:
absent, a placeholder (`_FutureCachedPropertyValue`, identified by its creation index) or a value
(`AwaitableValue(v)`).  Every placeholder owns the lock object created for it by
`CachedProperty.__get__` (`self._asynccontextmanager_type()`); `Cfg.lock = false` is the default
`nullcontext` (no exclusion, no suspension).

A task is one `await <handle>` where the handle was obtained earlier by attribute access
(`spawn`) — so "take the placeholder, await it later" is the general case and `await inst.attr`
is `spawn` immediately followed by `sched`.  `Op.sched t` runs task `t` from its current
suspension point to its next one (one `coro.send`); the code executed in between is cut into
micro-steps (`micro`) at the points where `_await_impl` reads or writes shared state, with
transient program counters `entered`/`holding` that never survive a `sched` (theorem
`C12_never_stuck`).  The getter run number `r` (global creation index) returns the value `r`, or
raises, after `Cfg.susp r` suspensions — values of distinct runs are distinct, so a returned
value names the run that produced it.

No Mathlib, no proofs here: this file is also compiled into the driver.
-/
namespace AsyncVerif.CachedProperty

/-- what `instance.__dict__[name]` can hold / what attribute access returns -/
inductive Stored where
  | ph (p : Nat)      -- `_FutureCachedPropertyValue` number p
  | val (v : Nat)     -- `AwaitableValue(v)`
  deriving DecidableEq, Repr

/-- how an `await` ended -/
inductive Res where
  | ok (v : Nat)        -- returned v
  | failed (r : Nat)    -- getter run r raised; the exception propagated to the awaiter
  | cancelled           -- a cancellation thrown into the task propagated
  deriving DecidableEq, Repr

/-- program counter of a task, following `_FutureCachedPropertyValue._await_impl` -/
inductive Pc where
  | unborn                       -- no such task yet
  | start (h : Stored)           -- coroutine created for `await h`, not yet run
  | entered (p : Nat)            -- (transient) first line of `p._await_impl()`
  | lockwait (p : Nat)           -- suspended inside `p._lock.__aenter__()` (lock is held by someone)
  | holding (p : Nat)            -- (transient) inside `async with p._lock:`, before the re-check
  | getter (p r k : Nat)         -- inside getter run r started by `p._get_attribute()`; k suspensions still to come
  | done (res : Res)
  deriving DecidableEq, Repr

inductive RunSt where
  | running | returned | raised | cancelled
  deriving DecidableEq, Repr

/-- ghost record of one getter invocation -/
structure Run where
  inst : Nat        -- the instance it was called with
  ph : Nat          -- the placeholder whose `_get_attribute` called it
  task : Nat        -- the task that runs it
  st : RunSt
  deriving DecidableEq, Repr

/-- the environment: lock type supplied or not, and what each getter run does -/
structure Cfg where
  lock : Bool
  susp : Nat → Nat        -- getter run r suspends this many times …
  ok : Nat → Bool         -- … and then returns r (true) or raises (false)

structure State where
  slot : Nat → Option Stored     -- instance id ↦ `__dict__.get(name)`
  nextP : Nat                    -- number of placeholders created so far
  phInst : Nat → Nat             -- placeholder ↦ its `_instance`
  lock : Nat → Option Nat        -- placeholder ↦ owner task of its `_lock` (none = free)
  nTasks : Nat
  pc : Nat → Pc
  tinst : Nat → Nat              -- (ghost) task ↦ instance whose attribute its handle came from
  thandle : Nat → Stored         -- task ↦ the object it awaits
  nRuns : Nat
  run : Nat → Run
  dels : Nat → Nat               -- (ghost) instance ↦ number of successful `del`s so far

def State.init : State :=
  { slot := fun _ => none, nextP := 0, phInst := fun _ => 0, lock := fun _ => none, nTasks := 0,
    pc := fun _ => .unborn, tinst := fun _ => 0, thandle := fun _ => .val 0, nRuns := 0,
    run := fun _ => ⟨0, 0, 0, .cancelled⟩, dels := fun _ => 0 }

inductive Out where
  | handle (h : Stored)     -- spawn/respawn: what the attribute access returned
  | blocked                 -- sched: suspended on the lock
  | suspended (r : Nat)     -- sched: suspended inside getter run r
  | ret (v : Nat)           -- sched: the await returned v
  | raised (r : Nat)        -- sched: the await raised getter run r's exception
  | cancelled               -- cancel: the cancellation propagated out of the task
  | deleted                 -- del: entry removed
  | attrError               -- del: nothing to delete (AttributeError)
  | noop                    -- op does not apply (task finished / does not exist)
  | stuck                   -- micro-step budget exhausted (never happens: `C12_never_stuck`)
  deriving DecidableEq, Repr

/-! ## primitive updates -/

def setPc (s : State) (t : Nat) (x : Pc) : State :=
  { s with pc := fun t' => if t' = t then x else s.pc t' }

def setLock (s : State) (p : Nat) (o : Option Nat) : State :=
  { s with lock := fun p' => if p' = p then o else s.lock p' }

def setSlot (s : State) (i : Nat) (x : Option Stored) : State :=
  { s with slot := fun i' => if i' = i then x else s.slot i' }

/-- `del instance_i.<name>` on a present entry -/
def delSlot (s : State) (i : Nat) : State :=
  { s with slot := fun i' => if i' = i then none else s.slot i',
           dels := fun i' => if i' = i then s.dels i + 1 else s.dels i' }

def setRunSt (s : State) (r : Nat) (st : RunSt) : State :=
  { s with run := fun r' => if r' = r then { s.run r with st := st } else s.run r' }

/-- `__aexit__` of the placeholder's lock (nothing to do for `nullcontext`) -/
def release (cfg : Cfg) (s : State) (p : Nat) : State :=
  if cfg.lock then setLock s p none else s

/-- `CachedProperty.__get__`: a brand-new placeholder with a brand-new lock, stored on the instance -/
def newPh (s : State) (i : Nat) : State :=
  { s with slot := fun i' => if i' = i then some (.ph s.nextP) else s.slot i',
           phInst := fun p => if p = s.nextP then i else s.phInst p,
           lock := fun p => if p = s.nextP then none else s.lock p,
           nextP := s.nextP + 1 }

/-- attribute access `instance_i.<name>`: the instance `__dict__` wins over the (non-data)
    descriptor; otherwise `CachedProperty.__get__` runs -/
def access (s : State) (i : Nat) : State × Stored :=
  match s.slot i with
  | some x => (s, x)
  | none => (newPh s i, .ph s.nextP)

/-- `_FutureCachedPropertyValue._instance_value` of placeholder p: `__dict__[name]`, on
    `KeyError` `getattr(instance, name)` -/
def instanceValue (s : State) (p : Nat) : State × Stored := access s (s.phInst p)

/-- `return await stored` (tail position of `_await_impl`) -/
def awaitStored (s : State) (t : Nat) : Stored → State × Option Out
  | .val v => (setPc s t (.done (.ok v)), some (.ret v))       -- `AwaitableValue.__await__`
  | .ph p' => (setPc s t (.entered p'), none)                   -- `p'.__await__()` → `p'._await_impl()`

/-- the getter returned / raised; `_get_attribute` stores; the `async with` releases -/
def complete (cfg : Cfg) (s : State) (t p r : Nat) : State × Option Out :=
  if cfg.ok r then
    -- `self._instance.__dict__[self._name] = AwaitableValue(value)` — unconditionally
    let s1 := setSlot s (s.phInst p) (some (.val r))
    (setPc (setRunSt (release cfg s1 p) r .returned) t (.done (.ok r)), some (.ret r))
  else
    (setPc (setRunSt (release cfg s p) r .raised) t (.done (.failed r)), some (.raised r))

/-- one micro-step of task t; `some out` = the task suspended or finished -/
def micro (cfg : Cfg) (s : State) (t : Nat) : State × Option Out :=
  match s.pc t with
  | .unborn => (s, some .noop)
  | .done _ => (s, some .noop)
  | .start (.val v) => (setPc s t (.done (.ok v)), some (.ret v))
  | .start (.ph p) => (setPc s t (.entered p), none)
  | .entered p =>
    -- `if (stored := self._instance_value) is self:`
    let (s1, stored) := instanceValue s p
    if stored = .ph p then
      -- `async with self._lock:`
      if cfg.lock then
        match s1.lock p with
        | some _ => (setPc s1 t (.lockwait p), some .blocked)
        | none => (setPc (setLock s1 p (some t)) t (.holding p), none)
      else (setPc s1 t (.holding p), none)
    else awaitStored s1 t stored
  | .lockwait p =>
    match s.lock p with
    | some _ => (s, some .blocked)
    | none => (setPc (setLock s p (some t)) t (.holding p), none)
  | .holding p =>
    -- `if (stored := self._instance_value) is self:`
    let (s1, stored) := instanceValue s p
    if stored = .ph p then
      -- `return await self._get_attribute()`: a new getter run begins
      let r := s1.nRuns
      let s2 := { s1 with nRuns := r + 1,
                          run := fun r' => if r' = r then ⟨s1.phInst p, p, t, .running⟩ else s1.run r' }
      (setPc s2 t (.getter p r (cfg.susp r)), none)
    else
      -- leave the `async with` (release), then `return await stored`
      awaitStored (release cfg s1 p) t stored
  | .getter p r 0 => complete cfg s t p r
  | .getter p r (k + 1) => (setPc s t (.getter p r k), some (.suspended r))

/-- micro-steps until the task suspends or finishes -/
def schedN (cfg : Cfg) : Nat → State → Nat → State × Out
  | 0, s, _ => (s, .stuck)
  | n + 1, s, t =>
    match micro cfg s t with
    | (s1, some o) => (s1, o)
    | (s1, none) => schedN cfg n s1 t

def schedFuel : Nat := 8

def sched (cfg : Cfg) (s : State) (t : Nat) : State × Out := schedN cfg schedFuel s t

def addTask (s : State) (i : Nat) (h : Stored) : State :=
  { s with nTasks := s.nTasks + 1,
           pc := fun t => if t = s.nTasks then .start h else s.pc t,
           tinst := fun t => if t = s.nTasks then i else s.tinst t,
           thandle := fun t => if t = s.nTasks then h else s.thandle t }

/-- throw a cancellation into task t at its current suspension point -/
def cancel (cfg : Cfg) (s : State) (t : Nat) : State × Out :=
  match s.pc t with
  | .start _ => (setPc s t (.done .cancelled), .cancelled)          -- unstarted coroutine: raises at once
  | .lockwait _ => (setPc s t (.done .cancelled), .cancelled)       -- `__aenter__` raises, lock not taken
  | .getter p r _ =>                                               -- getter raises; `__aexit__` releases
    (setPc (setRunSt (release cfg s p) r .cancelled) t (.done .cancelled), .cancelled)
  | _ => (s, .noop)

inductive Op where
  /-- `h = instance_i.<name>`; a new task (id = number of tasks so far) will `await h` -/
  | spawn (i : Nat)
  /-- a new task awaits the very object task t was created for -/
  | respawn (t : Nat)
  /-- run task t to its next suspension point -/
  | sched (t : Nat)
  /-- throw a cancellation into task t -/
  | cancel (t : Nat)
  /-- `del instance_i.<name>` -/
  | del (i : Nat)
  deriving DecidableEq, Repr

def step (cfg : Cfg) (s : State) : Op → State × Out
  | .spawn i => let (s1, h) := access s i; (addTask s1 i h, .handle h)
  | .respawn t =>
    if t < s.nTasks then (addTask s (s.tinst t) (s.thandle t), .handle (s.thandle t)) else (s, .noop)
  | .sched t => sched cfg s t
  | .cancel t => cancel cfg s t
  | .del i =>
    match s.slot i with
    | none => (s, .attrError)
    | some _ => (delSlot s i, .deleted)

def exec (cfg : Cfg) : State → List Op → State
  | s, [] => s
  | s, op :: ops => exec cfg (step cfg s op).1 ops

def outs (cfg : Cfg) : State → List Op → List Out
  | _, [] => []
  | s, op :: ops => (step cfg s op).2 :: outs cfg (step cfg s op).1 ops

/-! ## sequential histories and their specification -/

/-- a sequential client: every await is driven to completion before the next operation -/
inductive SOp where
  | await (i : Nat)        -- `await instance_i.<name>`
  | take (i : Nat)         -- `h = instance_i.<name>` (task id = number of takes/awaits so far)
  | awaitTaken (t : Nat)   -- `await h_t`
  | del (i : Nat)
  deriving DecidableEq, Repr

inductive SOut where
  | ret (v : Nat) | raised (r : Nat) | taken | deleted | attrError | noop
  deriving DecidableEq, Repr

/-- schedule t again and again: n+1 times -/
def drive (cfg : Cfg) (s : State) (t : Nat) : Nat → State
  | 0 => (sched cfg s t).1
  | n + 1 => drive cfg (sched cfg s t).1 t n

def resultOf (s : State) (t : Nat) : SOut :=
  match s.pc t with
  | .done (.ok v) => .ret v
  | .done (.failed r) => .raised r
  | _ => .noop

/-- run a not-yet-started task to completion (at most one getter run, number `s.nRuns`, is needed) -/
def awaitNow (cfg : Cfg) (s : State) (t : Nat) : State × SOut :=
  match s.pc t with
  | .start _ => let s1 := drive cfg s t (cfg.susp s.nRuns); (s1, resultOf s1 t)
  | _ => (s, .noop)

def seqStep (cfg : Cfg) (s : State) : SOp → State × SOut
  | .await i => awaitNow cfg (step cfg s (.spawn i)).1 s.nTasks
  | .take i => ((step cfg s (.spawn i)).1, .taken)
  | .awaitTaken t => awaitNow cfg s t
  | .del i => match step cfg s (.del i) with
    | (s1, .deleted) => (s1, .deleted)
    | (s1, _) => (s1, .attrError)

def seqOuts (cfg : Cfg) : State → List SOp → List SOut
  | _, [] => []
  | s, op :: ops => (seqStep cfg s op).2 :: seqOuts cfg (seqStep cfg s op).1 ops

/-- specification cache entry: nothing / accessed but no value (a deletable placeholder) / value -/
inductive Entry where
  | none | touched | cached (v : Nat)
  deriving DecidableEq, Repr

/-- what a taken handle means: a placeholder is late-bound to its instance, a value is a value -/
inductive SHandle where
  | late (i : Nat) | fixed (v : Nat) | used
  deriving DecidableEq, Repr

/-- Specification: `functools.cached_property` with an awaitable getter — compute when no value is
    cached, keep it until `del`, cache nothing on failure, per instance. -/
structure Spec where
  cache : Nat → Entry
  nRuns : Nat
  nTasks : Nat
  handle : Nat → SHandle

def Spec.init : Spec := { cache := fun _ => .none, nRuns := 0, nTasks := 0, handle := fun _ => .used }

def Spec.setCache (σ : Spec) (i : Nat) (e : Entry) : Spec :=
  { σ with cache := fun i' => if i' = i then e else σ.cache i' }

/-- `await instance_i.<name>` in the specification -/
def Spec.await (cfg : Cfg) (σ : Spec) (i : Nat) : Spec × SOut :=
  match σ.cache i with
  | .cached v => (σ, .ret v)
  | _ =>
    let r := σ.nRuns
    if cfg.ok r then ({ σ.setCache i (.cached r) with nRuns := r + 1 }, .ret r)
    else ({ σ.setCache i .touched with nRuns := r + 1 }, .raised r)

def Spec.newTask (σ : Spec) (h : SHandle) : Spec :=
  { σ with nTasks := σ.nTasks + 1, handle := fun t => if t = σ.nTasks then h else σ.handle t }

def Spec.useTask (σ : Spec) (t : Nat) : Spec :=
  { σ with handle := fun t' => if t' = t then .used else σ.handle t' }

def specStep (cfg : Cfg) (σ : Spec) : SOp → Spec × SOut
  | .await i => let (σ1, o) := σ.await cfg i; ((σ1.newTask .used), o)
  | .take i =>
    match σ.cache i with
    | .cached v => (σ.newTask (.fixed v), .taken)
    | _ => ((σ.setCache i .touched).newTask (.late i), .taken)
  | .awaitTaken t =>
    match σ.handle t with
    | .used => (σ, .noop)
    | .fixed v => (σ.useTask t, .ret v)
    | .late i => (σ.useTask t).await cfg i
  | .del i =>
    match σ.cache i with
    | .none => (σ, .attrError)
    | _ => (σ.setCache i .none, .deleted)

def specOuts (cfg : Cfg) : Spec → List SOp → List SOut
  | _, [] => []
  | σ, op :: ops => (specStep cfg σ op).2 :: specOuts cfg (specStep cfg σ op).1 ops

end AsyncVerif.CachedProperty
