import AsyncVerif.Machines.Tee
/-!
# `Tee.aclose()` when closing the source can fail (asyncstdlib/itertools.py `Tee.aclose`, `tee_peer`) — model

`Machines/Tee.lean` models `Tee.aclose()` (`closeAll`) for a source whose `aclose()` always succeeds.
Here the same code is followed once more for one call of `Tee.aclose()` on an arbitrary state of that
machine, with a source whose `aclose()`

* succeeds (`SrcClose.ok`),
* raises (`SrcClose.raises`) — the error leaves `iterator.aclose()`, then the `finally:` block of the
  `tee_peer` that called it (so `child.aclose()` raises it) or the tail of `Tee.aclose`, and so
  `Tee.aclose()` itself: whatever the code would have done afterwards is not done,
* does not exist (`SrcClose.none`: `hasattr(iterator, "aclose")` is false).

The source can be closed by this call iff the state says so (`St.closeable`) and `sc ≠ .none`
(`canClose`).  Every attempted `iterator.aclose()` is counted in `srcCloses`, whether it raises or not.

`retained` is the quantity of the bounded-retention property: the number of items that are held in
buffers still registered in `self._buffers` (the `peers` list of every `tee_peer`).

Every `def` names the Python it follows.  No proofs here: the file is compiled into the driver.
-/
namespace AsyncVerif.TeeClose
open AsyncVerif.Tee

/-- what `await iterator.aclose()` does during this `Tee.aclose()` -/
inductive SrcClose where
  /-- `aclose()` exists and returns -/
  | ok
  /-- `aclose()` exists and raises -/
  | raises
  /-- the source has no `aclose` -/
  | none
  deriving DecidableEq, Repr

/-- `hasattr(iterator, "aclose")` as this call sees it -/
def canClose (s : St) (sc : SrcClose) : Bool := s.closeable && decide (sc ≠ .none)

/-- the `finally:` block of `tee_peer`: remove the own buffer from `peers`;
    `if not peers and hasattr(iterator, "aclose"): await iterator.aclose()`.
    The Bool: `iterator.aclose()` was called and raised (the error leaves the `finally` block). -/
def finishKidF (s : St) (i : Nat) (t : Task) (sc : SrcClose) : St × Bool :=
  let s := s.setKid i { (s.kid i) with pc := .done, buf := none, task := t }
  if s.kids.all (fun c => c.buf.isNone) && canClose s sc then
    ({ s with srcCloses := s.srcCloses + 1 }, decide (sc = .raises))
  else (s, false)

/-- `await child.aclose()`: an unstarted generator is marked closed without running any of its code;
    at the `yield`, GeneratorExit runs the `finally:` block — an error of `iterator.aclose()` raised
    there is what `child.aclose()` raises (`Out.error`, Bool true); a pending `__anext__` makes
    `child.aclose()` raise RuntimeError (`Out.busy`) and changes nothing -/
def closeKidF (s : St) (i : Nat) (sc : SrcClose) : St × Out × Bool :=
  match (s.kid i).pc with
  | .unstarted => (s.setKid i { (s.kid i) with pc := .done }, .closed, false)
  | .atYield =>
    let r := finishKidF s i (s.kid i).task sc
    (r.1, if r.2 then .error else .closed, r.2)
  | .done => (s, .closed, false)
  | _ => (s, .busy, false)

/-- the loop of `Tee.aclose`: `for child in self._children: await child.aclose()` — an exception
    of a child's `aclose()` (RuntimeError of a busy child, or the error of the source's `aclose()`
    raised in the child's `finally:`) leaves the loop and `Tee.aclose`; the remaining children are
    not visited -/
def closeFromF (s : St) (sc : SrcClose) : List Nat → St × Out × Bool
  | [] => (s, .closed, false)
  | i :: rest =>
    match closeKidF s i sc with
    | (s', .busy, _) => (s', .busy, false)
    | (s', o, true) => (s', o, true)
    | (s', _, false) => closeFromF s' sc rest

/-- the end of `Tee.aclose`:
    `if self._buffers: self._buffers.clear(); if hasattr(self._iterator, "aclose"): await self._iterator.aclose()`
    — the buffers are unregistered BEFORE the source is closed, so they are gone also when that
    raises.  The Bool: `iterator.aclose()` was called and raised. -/
def clearBuffersF (s : St) (sc : SrcClose) : St × Bool :=
  if s.kids.any (fun c => c.buf.isSome) then
    let s := { s with kids := s.kids.map fun (c : Child) => { c with buf := none } }
    if canClose s sc then ({ s with srcCloses := s.srcCloses + 1 }, decide (sc = .raises))
    else (s, false)
  else (s, false)

/-- `Tee.aclose()`: close every child in order; if that loop was left by an exception, this is the
    result; otherwise unregister what is left and close the source.
    Answer: `.busy` = RuntimeError of a busy child, `.error` (and Bool true) = the error raised by the
    source's `aclose()`, `.closed` = returned normally. -/
def closeAllF (s : St) (sc : SrcClose) : St × Out × Bool :=
  let r := closeFromF s sc (List.range s.kids.length)
  match r.2.1, r.2.2 with
  | .busy, _ => r
  | _, true => r
  | o, false =>
    let c := clearBuffersF r.1 sc
    (c.1, if c.2 then .error else o, c.2)

/-- number of items a child's buffer holds for the tee: 0 once the buffer has been unregistered -/
def bufLen (c : Child) : Nat :=
  match c.buf with
  | some l => l.length
  | none => 0

/-- total number of items held in registered buffers -/
def retained (s : St) : Nat := (s.kids.map bufLen).sum

/-- Specification of `retained`: the sum, over the children whose buffer is registered, of
    (items fetched from the source so far − items this child has yielded) -/
def lag (s : St) : Nat :=
  (s.kids.map fun c => if c.buf.isSome then s.fetched.length - c.out.length else 0).sum

/-- Specification of one child after a `child.aclose()` that did not raise RuntimeError:
    closed; unregistered if its `finally:` block ran (it was suspended at the `yield`);
    a child that was never started keeps its buffer registered; a finished child, and a busy
    one (which is not closed), are as before -/
def closedChild (c : Child) : Child :=
  match c.pc with
  | .unstarted => { c with pc := .done }
  | .atYield => { c with pc := .done, buf := none }
  | _ => c

/-- `child.aclose()` would raise RuntimeError: the child's consumer is suspended inside the
    generator (in `lock.__aenter__` or in `iterator.__anext__()`) -/
def isBusy : Pc → Bool
  | .acquiring => true
  | .fetching _ => true
  | _ => false

end AsyncVerif.TeeClose
