/-!
# lru_cache (asyncstdlib/_lrucache.py) — model

* `asKey`  follows `CallKey.from_call` (asyncstdlib); `ftKey` follows CPython's
  `lru_cache_make_key` (`Modules/_functoolsmodule.c`; `functools._make_key` is the same up to the
  container type).  Argument atoms carry a type tag and a numeric value; `Prim.norm` is the
  equality class of an atom under Python `==`/`hash` (`1 == 1.0 == True`).  Two keys are equal
  for a `dict` exactly when their normal forms (`Key.norm`) are equal.
* `Impl.*` follows `lru_cache`, `UncachedLRUAsyncCallable`, `MemoizedLRUAsyncCallable`,
  `CachedLRUAsyncCallable`, `LRUAsyncBoundCallable`.  `__call__` is split at its only `await` into
  `Impl.begin` (lookup / hit) and `Impl.resume` (re-check, insert, evict).
* `Spec.*` follows `functools.lru_cache` and `uncached/infinite/bounded_lru_cache_wrapper`.
* `cstep` (Conc): overlapping calls — `begin c p` and `finish c r` are separate steps, `clear`,
  `discard` interleave freely.  `schedStep` runs task programs at the granularity of one
  `coro.send` (`SOp.send t`) or one `coro.throw(cancel)` (`SOp.cancel t`).

The `dict`/`OrderedDict` is an association list oldest-first whose entries keep the pattern that
created the key (Python keeps the first key object).
-/
namespace AsyncVerif.Lru

/-! ## argument atoms and keys -/

inductive Ty | int | float | bool | str | none | obj | tuple
  deriving DecidableEq, Repr

/-- scalar argument: `float` carries twice its value (so halves are representable, no NaN);
    `obj` is an instance / class with identity equality (the `self` of a method) -/
inductive Prim
  | int (n : Int) | float (twice : Int) | bool (b : Bool) | str (s : Nat) | none | obj (id : Nat)
  deriving DecidableEq, Repr

/-- equality class of a scalar under Python `==` (consistent with `hash`) -/
inductive NV | num (twice : Int) | str (s : Nat) | none | obj (id : Nat)
  deriving DecidableEq, Repr

def Prim.norm : Prim → NV
  | .int n => .num (2 * n)
  | .float t => .num t
  | .bool b => .num (if b then 2 else 0)
  | .str s => .str s
  | .none => .none
  | .obj i => .obj i

def Prim.ty : Prim → Ty
  | .int _ => .int | .float _ => .float | .bool _ => .bool | .str _ => .str | .none => .none
  | .obj _ => .obj

/-- a call argument: a scalar or a flat tuple of scalars -/
inductive Arg | prim (p : Prim) | tup (l : List Prim)
  deriving DecidableEq, Repr

/-- `type(arg)` -/
def Arg.ty : Arg → Ty
  | .prim p => p.ty
  | .tup _ => .tuple

/-- what an element of a key tuple is to `==`/`hash` -/
inductive NElem
  | sc (v : NV)                    -- a scalar
  | tup (l : List NV)              -- a flat tuple
  | tup2 (s : Nat) (l : List NV)   -- the tuple `(name, (..))`: a keyword item whose value is a tuple
  | mark                           -- the private keyword marker object
  | ty (t : Ty)                    -- a type object
  deriving DecidableEq, Repr

def Arg.norm : Arg → NElem
  | .prim p => .sc p.norm
  | .tup l => .tup (l.map Prim.norm)

/-- element of a key tuple as the code builds it -/
inductive KElem
  | arg (a : Arg)                  -- a positional argument, a keyword value, or (functools) a keyword name
  | mark
  | item (name : Nat) (a : Arg)    -- `(name, value)` from `kwds.items()` (asyncstdlib only)
  | ty (t : Ty)
  deriving DecidableEq, Repr

def KElem.norm : KElem → NElem
  | .arg a => a.norm
  | .mark => .mark
  | .ty t => .ty t
  | .item s (.prim p) => .tup [.str s, p.norm]     -- equal to a positional tuple `(name, value)`
  | .item s (.tup l) => .tup2 s (l.map Prim.norm)

/-- a cache key: the bare `int`/`str` of the fast path, or a `CallKey` / key tuple -/
inductive Key | bare (p : Prim) | seq (l : List KElem)
  deriving DecidableEq, Repr

inductive NKey | bare (v : NV) | seq (l : List NElem)
  deriving DecidableEq, Repr

def Key.norm : Key → NKey
  | .bare p => .bare p.norm
  | .seq l => .seq (l.map KElem.norm)

/-- a call pattern: positional arguments and keyword arguments in call order (names are codes of
    strings and share their code space with `Prim.str`) -/
structure Pattern where
  args : List Arg
  kwds : List (Nat × Arg)
  deriving DecidableEq, Repr

def Pattern.argTys (p : Pattern) : List KElem := p.args.map fun a => .ty a.ty
def Pattern.kwTys (p : Pattern) : List KElem := p.kwds.map fun kv => .ty kv.2.ty

/-- `CallKey.from_call(args, kwds, typed)` -/
def asKey (typed : Bool) (p : Pattern) : Key :=
  -- key = args if not kwds else (*args, kwarg_sentinel, *kwds.items())
  let key : List KElem :=
    if p.kwds.isEmpty then p.args.map .arg
    else p.args.map .arg ++ .mark :: p.kwds.map fun kv => .item kv.1 kv.2
  if typed then
    -- key += tuple(map(type, args)) if not kwds else (*map(type, args), *map(type, kwds.values()))
    .seq (key ++ (if p.kwds.isEmpty then p.argTys else p.argTys ++ p.kwTys))
  else
    -- elif len(key) == 1 and type(key[0]) in fast_types: return key[0]
    match key with
    | [.arg (.prim (.int n))] => .bare (.int n)
    | [.arg (.prim (.str s))] => .bare (.str s)
    | _ => .seq key

/-- keywords flattened `name, value, name, value, …` -/
def flatKw : List (Nat × Arg) → List KElem
  | [] => []
  | kv :: r => .arg (.prim (.str kv.1)) :: .arg kv.2 :: flatKw r

/-- CPython `lru_cache_make_key(kwd_mark, args, kwds, typed)` -/
def ftKey (typed : Bool) (p : Pattern) : Key :=
  if !typed && p.kwds.isEmpty then
    -- short path: the args tuple itself, or its only element if that is exactly an int / a str
    match p.args with
    | [.prim (.int n)] => .bare (.int n)
    | [.prim (.str s)] => .bare (.str s)
    | _ => .seq (p.args.map .arg)
  else
    .seq (p.args.map .arg
      ++ (if p.kwds.isEmpty then [] else .mark :: flatKw p.kwds)
      ++ (if typed then p.argTys ++ (if p.kwds.isEmpty then [] else p.kwTys) else []))

/-- `LRUAsyncBoundCallable`: the instance becomes the first positional argument -/
def bind (inst : Nat) (p : Pattern) : Pattern := { p with args := .prim (.obj inst) :: p.args }

/-! ## the store -/

abbrev Store := List (Pattern × Nat)

/-- `cache[key]` / `key in cache`: the entry whose key equals the key of `q` -/
def find (eqv : Pattern → Pattern → Bool) (q : Pattern) : Store → Option (Pattern × Nat)
  | [] => none
  | e :: r => if eqv e.1 q then some e else find eqv q r

/-- `cache.pop(key, None)`: remove that entry -/
def erase (eqv : Pattern → Pattern → Bool) (q : Pattern) : Store → Store
  | [] => []
  | e :: r => if eqv e.1 q then r else e :: erase eqv q r

structure St where
  hits : Nat
  misses : Nat
  store : Store
  deriving DecidableEq, Repr

def St.init : St := ⟨0, 0, []⟩

inductive Variant | uncached | memo | bounded (n : Nat)
  deriving DecidableEq, Repr

structure Cfg where
  var : Variant
  typed : Bool
  deriving DecidableEq, Repr

/-- the `maxsize` argument: `None` or an int -/
inductive MaxArg | none | int (n : Int)
  deriving DecidableEq, Repr

/-- `@lru_cache` (bare) or `@lru_cache(maxsize, typed)` -/
inductive Dec | bare | paren (m : MaxArg) (typed : Bool)
  deriving DecidableEq, Repr

/-- result the wrapped function produces if it is invoked -/
inductive Res | ok (v : Nat) | fail (e : Nat)
  deriving DecidableEq, Repr

inductive Op
  | call (p : Pattern) (r : Res)
  | mcall (inst : Nat) (p : Pattern) (r : Res)     -- through a bound method / classmethod
  | clear
  | discard (p : Pattern)
  | mdiscard (inst : Nat) (p : Pattern)
  | info
  | params
  deriving DecidableEq, Repr

inductive Out
  | ret (v : Nat) (invoked : Bool)       -- value returned; was the wrapped function invoked
  | raised (e : Nat)                     -- the wrapped function was invoked and raised
  | info (hits misses : Nat) (maxsize : Option Nat) (currsize : Nat)
  | params (maxsize : Option Nat) (typed : Bool)
  | done
  deriving DecidableEq, Repr

/-! ## asyncstdlib -/
namespace Impl

def eqv (typed : Bool) (p q : Pattern) : Bool := decide ((asKey typed p).norm = (asKey typed q).norm)

/-- `lru_cache(maxsize, typed)` -/
def lruCache : Dec → Cfg
  | .bare => ⟨.bounded 128, false⟩                 -- callable(maxsize): CachedLRUAsyncCallable(f, typed, 128)
  | .paren .none t => ⟨.memo, t⟩
  | .paren (.int n) t =>
    let m : Int := if n < 0 then 0 else n          -- maxsize = 0 if maxsize < 0 else maxsize
    if m = 0 then ⟨.uncached, t⟩ else ⟨.bounded m.toNat, t⟩

/-- `__call__` up to its `await`: `some v` = found in the cache, `none` = the wrapped function is
    now being awaited -/
def begin (c : Cfg) (s : St) (p : Pattern) : St × Option Nat :=
  match c.var with
  | .uncached => ({ s with misses := s.misses + 1 }, none)
  | .memo =>
    match find (eqv c.typed) p s.store with
    | some e => ({ s with hits := s.hits + 1 }, some e.2)
    | none => ({ s with misses := s.misses + 1 }, none)
  | .bounded _ =>
    match find (eqv c.typed) p s.store with
    | some e =>      -- move_to_end(key, last=True); hits += 1
      ({ s with store := erase (eqv c.typed) p s.store ++ [e], hits := s.hits + 1 }, some e.2)
    | none => ({ s with misses := s.misses + 1 }, none)

/-- `__call__` after the wrapped function returned `v` -/
def resume (c : Cfg) (s : St) (p : Pattern) (v : Nat) : St :=
  match c.var with
  | .uncached => s
  | .memo =>
    if (find (eqv c.typed) p s.store).isSome then s      -- `if key not in self.__cache`
    else { s with store := s.store ++ [(p, v)] }
  | .bounded n =>
    if (find (eqv c.typed) p s.store).isSome then s      -- `if key in self.__cache: pass`
    else if s.store.length ≥ n then                       -- popitem(last=False); cache[key] = result
      { s with store := s.store.drop 1 ++ [(p, v)] }
    else { s with store := s.store ++ [(p, v)] }

/-- a complete call with nothing in between -/
def call (c : Cfg) (s : St) (p : Pattern) (r : Res) : St × Out :=
  match begin c s p with
  | (s1, some v) => (s1, .ret v false)
  | (s1, none) =>
    match r with
    | .fail e => (s1, .raised e)         -- the exception propagates out of `await`
    | .ok v => (resume c s1 p v, .ret v true)

def clear (c : Cfg) (s : St) : St :=
  match c.var with
  | .uncached => { s with misses := 0 }
  | _ => ⟨0, 0, []⟩

def discard (c : Cfg) (s : St) (p : Pattern) : St :=
  match c.var with
  | .uncached => s
  | _ => { s with store := erase (eqv c.typed) p s.store }

def info (c : Cfg) (s : St) : Out :=
  match c.var with
  | .uncached => .info 0 s.misses (some 0) 0
  | .memo => .info s.hits s.misses none s.store.length
  | .bounded n => .info s.hits s.misses (some n) s.store.length

def params (c : Cfg) : Out :=
  match c.var with
  | .uncached => .params (some 0) c.typed
  | .memo => .params none c.typed
  | .bounded n => .params (some n) c.typed

def step (c : Cfg) (s : St) : Op → St × Out
  | .call p r => call c s p r
  | .mcall i p r => call c s (bind i p) r
  | .clear => (clear c s, .done)
  | .discard p => (discard c s p, .done)
  | .mdiscard i p => (discard c s (bind i p), .done)
  | .info => (s, info c s)
  | .params => (s, params c)

end Impl

/-! ## CPython functools -/
namespace Spec

def eqv (typed : Bool) (p q : Pattern) : Bool := decide ((ftKey typed p).norm = (ftKey typed q).norm)

/-- `functools.lru_cache` + `lru_cache_new`: negative → 0; `None` → infinite; 0 → uncached -/
def lruCache : Dec → Cfg
  | .bare => ⟨.bounded 128, false⟩
  | .paren m t =>
    match m with
    | .int n => if n < 0 then ⟨.uncached, t⟩ else if n = 0 then ⟨.uncached, t⟩ else ⟨.bounded n.toNat, t⟩
    | .none => ⟨.memo, t⟩

/-- `dict[key] = value` -/
def dictSet (eqv : Pattern → Pattern → Bool) (p : Pattern) (v : Nat) : Store → Store
  | [] => [(p, v)]
  | e :: r => if eqv e.1 p then (e.1, v) :: r else e :: dictSet eqv p v r

def ofRes (s : St) : Res → St × Out
  | .ok v => (s, .ret v true)
  | .fail e => (s, .raised e)

def call (c : Cfg) (s : St) (p : Pattern) (r : Res) : St × Out :=
  match c.var with
  | .uncached => ofRes { s with misses := s.misses + 1 } r
  | .memo =>
    match find (eqv c.typed) p s.store with
    | some e => ({ s with hits := s.hits + 1 }, .ret e.2 false)
    | none =>
      let s1 := { s with misses := s.misses + 1 }
      match r with
      | .fail e => (s1, .raised e)
      | .ok v => ({ s1 with store := dictSet (eqv c.typed) p v s1.store }, .ret v true)
  | .bounded n =>
    match find (eqv c.typed) p s.store with
    | some e =>        -- lru_cache_extract_link; lru_cache_append_link; hits++
      ({ s with store := erase (eqv c.typed) p s.store ++ [e], hits := s.hits + 1 }, .ret e.2 false)
    | none =>
      let s1 := { s with misses := s.misses + 1 }
      match r with
      | .fail e => (s1, .raised e)
      | .ok v =>
        if (find (eqv c.typed) p s1.store).isSome then (s1, .ret v true)    -- added during the call
        else if s1.store.length < n ∨ s1.store = [] then                      -- not full: new link
          ({ s1 with store := s1.store ++ [(p, v)] }, .ret v true)
        else                                                                  -- evict root.next, reuse the link
          ({ s1 with store := s1.store.drop 1 ++ [(p, v)] }, .ret v true)

def clear (_c : Cfg) (_s : St) : St := ⟨0, 0, []⟩

/-- functools has no `cache_discard`; its meaning: exactly that entry disappears -/
def discard (c : Cfg) (s : St) (p : Pattern) : St := { s with store := erase (eqv c.typed) p s.store }

def info (c : Cfg) (s : St) : Out :=
  match c.var with
  | .uncached => .info s.hits s.misses (some 0) s.store.length
  | .memo => .info s.hits s.misses none s.store.length
  | .bounded n => .info s.hits s.misses (some n) s.store.length

def params (c : Cfg) : Out :=
  match c.var with
  | .uncached => .params (some 0) c.typed
  | .memo => .params none c.typed
  | .bounded n => .params (some n) c.typed

def step (c : Cfg) (s : St) : Op → St × Out
  | .call p r => call c s p r
  | .mcall i p r => call c s (bind i p) r          -- PyMethod: func(inst, *args)
  | .clear => (clear c s, .done)
  | .discard p => (discard c s p, .done)
  | .mdiscard i p => (discard c s (bind i p), .done)
  | .info => (s, info c s)
  | .params => (s, params c)

end Spec

def run (f : St → Op → St × Out) : St → List Op → List Out
  | _, [] => []
  | s, op :: ops => (f s op).2 :: run f (f s op).1 ops

def final (f : St → Op → St × Out) : St → List Op → St
  | s, [] => s
  | s, op :: ops => final f (f s op).1 ops

/-! ## overlapping calls -/

inductive CRes | ok (v : Nat) | fail (e : Nat) | cancel
  deriving DecidableEq, Repr

def Res.toC : Res → CRes
  | .ok v => .ok v
  | .fail e => .fail e

structure CSt where
  core : St
  inflight : List (Nat × Pattern)      -- calls awaiting the wrapped function: call id, pattern
  deriving DecidableEq, Repr

def CSt.init : CSt := ⟨St.init, []⟩

inductive COp
  | begin (c : Nat) (p : Pattern)      -- a caller enters `__call__` (runs up to the await)
  | finish (c : Nat) (r : CRes)        -- the awaited wrapped call of `c` returns / raises / is cancelled
  | clear
  | discard (p : Pattern)
  | info
  deriving DecidableEq, Repr

inductive COut
  | hit (v : Nat)          -- `begin` found the value: the call is complete
  | started                -- `begin` missed: the wrapped function was invoked and is awaited
  | ret (v : Nat)          -- `finish` returned the freshly computed value
  | raised (e : Nat)
  | cancelled
  | seq (o : Out)
  | ignored                -- ill-formed op (unknown / duplicate call id)
  deriving DecidableEq, Repr

def lookupCall (c : Nat) : List (Nat × Pattern) → Option Pattern
  | [] => none
  | e :: r => if e.1 = c then some e.2 else lookupCall c r

def dropCall (c : Nat) : List (Nat × Pattern) → List (Nat × Pattern)
  | [] => []
  | e :: r => if e.1 = c then r else e :: dropCall c r

def cstep (cfg : Cfg) (s : CSt) : COp → CSt × COut
  | .begin c p =>
    if (lookupCall c s.inflight).isSome then (s, .ignored) else
    match Impl.begin cfg s.core p with
    | (s1, some v) => ({ s with core := s1 }, .hit v)
    | (s1, none) => ({ core := s1, inflight := s.inflight ++ [(c, p)] }, .started)
  | .finish c r =>
    match lookupCall c s.inflight with
    | none => (s, .ignored)
    | some p =>
      match r with
      | .ok v => ({ core := Impl.resume cfg s.core p v, inflight := dropCall c s.inflight }, .ret v)
      | .fail e => ({ s with inflight := dropCall c s.inflight }, .raised e)
      | .cancel => ({ s with inflight := dropCall c s.inflight }, .cancelled)
  | .clear => ({ s with core := Impl.clear cfg s.core }, .seq .done)
  | .discard p => ({ s with core := Impl.discard cfg s.core p }, .seq .done)
  | .info => (s, .seq (Impl.info cfg s.core))

def crun (cfg : Cfg) : CSt → List COp → CSt
  | s, [] => s
  | s, op :: ops => crun cfg (cstep cfg s op).1 ops

/-- ghost bookkeeping, a function of the ops and their outputs only -/
structure Ghost where
  calls : Nat                         -- calls begun since the last cache_clear
  invoked : Nat                       -- invocations of the wrapped function since the last cache_clear
  produced : List (Pattern × Nat)     -- every (pattern, value) the wrapped function has produced
  deriving DecidableEq, Repr

def Ghost.init : Ghost := ⟨0, 0, []⟩

def gupd (infl : List (Nat × Pattern)) (g : Ghost) : COp → COut → Ghost
  | .begin _ _, .hit _ => { g with calls := g.calls + 1 }
  | .begin _ _, .started => { g with calls := g.calls + 1, invoked := g.invoked + 1 }
  | .finish c (.ok v), .ret _ =>
    match lookupCall c infl with
    | some p => { g with produced := g.produced ++ [(p, v)] }
    | none => g
  | .clear, _ => { g with calls := 0, invoked := 0 }
  | _, _ => g

def gstep (cfg : Cfg) (x : CSt × Ghost) (op : COp) : (CSt × Ghost) × COut :=
  (((cstep cfg x.1 op).1, gupd x.1.inflight x.2 op (cstep cfg x.1 op).2), (cstep cfg x.1 op).2)

def grun (cfg : Cfg) : CSt × Ghost → List COp → CSt × Ghost
  | x, [] => x
  | x, op :: ops => grun cfg (gstep cfg x op).1 ops

/-! ## tasks: one `send` = one `SOp` -/

inductive Act
  | call (p : Pattern) (susp : Nat) (r : Res)   -- the wrapped function suspends `susp` times, then `r`
  | clear
  | discard (p : Pattern)
  | info
  deriving DecidableEq, Repr

structure Task where
  prog : List Act
  pc : Nat                                 -- number of actions started (call id = 100 * task + pc)
  waiting : Option (Nat × Nat × Res)       -- call id, suspensions still to come after this one, result
  deriving DecidableEq, Repr

inductive SOp | send (t : Nat) | cancel (t : Nat)
  deriving DecidableEq, Repr

abbrev Ev := COp × COut

/-- run a task's program until a call suspends or the program ends -/
def runProg (cfg : Cfg) (t : Nat) : List Act → Nat → CSt → CSt × Task × List Ev
  | [], pc, s => (s, ⟨[], pc, none⟩, [])
  | .call p k r :: rest, pc, s =>
    let c := 100 * t + pc
    match cstep cfg s (.begin c p) with
    | (s1, .started) =>
      match k with
      | 0 =>      -- the wrapped function does not suspend: the call completes within this step
        let x := cstep cfg s1 (.finish c r.toC)
        let y := runProg cfg t rest (pc + 1) x.1
        (y.1, y.2.1, (.begin c p, .started) :: (.finish c r.toC, x.2) :: y.2.2)
      | k + 1 => (s1, ⟨rest, pc + 1, some (c, k, r)⟩, [(.begin c p, .started)])
    | (s1, o) =>
      let y := runProg cfg t rest (pc + 1) s1
      (y.1, y.2.1, (.begin c p, o) :: y.2.2)
  | .clear :: rest, pc, s =>
    let x := cstep cfg s .clear
    let y := runProg cfg t rest (pc + 1) x.1
    (y.1, y.2.1, (.clear, x.2) :: y.2.2)
  | .discard p :: rest, pc, s =>
    let x := cstep cfg s (.discard p)
    let y := runProg cfg t rest (pc + 1) x.1
    (y.1, y.2.1, (.discard p, x.2) :: y.2.2)
  | .info :: rest, pc, s =>
    let x := cstep cfg s .info
    let y := runProg cfg t rest (pc + 1) x.1
    (y.1, y.2.1, (.info, x.2) :: y.2.2)

/-- `coro.send(None)` on a task -/
def sendTask (cfg : Cfg) (t : Nat) (tk : Task) (s : CSt) : CSt × Task × List Ev :=
  match tk.waiting with
  | some (c, k + 1, r) => (s, { tk with waiting := some (c, k, r) }, [])   -- wrapped function suspends again
  | some (c, 0, r) =>
    let x := cstep cfg s (.finish c r.toC)
    let y := runProg cfg t tk.prog tk.pc x.1
    (y.1, y.2.1, (.finish c r.toC, x.2) :: y.2.2)
  | none => runProg cfg t tk.prog tk.pc s

/-- `coro.throw(cancellation)` on a task suspended inside the wrapped function: the call is
    cancelled and the task ends; on a task that is not suspended there it acts like `send` -/
def cancelTask (cfg : Cfg) (t : Nat) (tk : Task) (s : CSt) : CSt × Task × List Ev :=
  match tk.waiting with
  | some (c, _, _) =>
    let x := cstep cfg s (.finish c .cancel)
    (x.1, ⟨[], tk.pc, none⟩, [(.finish c .cancel, x.2)])
  | none => sendTask cfg t tk s

def setTask : List Task → Nat → Task → List Task
  | [], _, _ => []
  | _ :: r, 0, tk => tk :: r
  | x :: r, n + 1, tk => x :: setTask r n tk

def schedStep (cfg : Cfg) (x : CSt × List Task) : SOp → (CSt × List Task) × List Ev
  | .send t =>
    match x.2[t]? with
    | none => (x, [])
    | some tk => let y := sendTask cfg t tk x.1; ((y.1, setTask x.2 t y.2.1), y.2.2)
  | .cancel t =>
    match x.2[t]? with
    | none => (x, [])
    | some tk => let y := cancelTask cfg t tk x.1; ((y.1, setTask x.2 t y.2.1), y.2.2)

/-- all events of a schedule, step by step, with the cache state after each step -/
def schedRun (cfg : Cfg) : CSt × List Task → List SOp → List (List Ev × CSt)
  | _, [] => []
  | x, op :: ops => ((schedStep cfg x op).2, (schedStep cfg x op).1.1) :: schedRun cfg (schedStep cfg x op).1 ops

def schedFinal (cfg : Cfg) : CSt × List Task → List SOp → CSt × List Task
  | x, [] => x
  | x, op :: ops => schedFinal cfg (schedStep cfg x op).1 ops

def schedEvents (cfg : Cfg) : CSt × List Task → List SOp → List Ev
  | _, [] => []
  | x, op :: ops => (schedStep cfg x op).2 ++ schedEvents cfg (schedStep cfg x op).1 ops

end AsyncVerif.Lru
