/-!
# `heapq` — the binary heap of the standard library, as written

CPython's `Lib/heapq.py` (`heappush`, `heappop`, `heapreplace`, `heapify`, `_siftdown`, `_siftup`; the C accelerator
`_heapq` implements the same algorithm, comparison for comparison) over `Array α`, parameterised by
`lt : α → α → Bool`, Python's `<` on the entries.  The heap is a 0-based array with `heap[k] <= heap[2*k+1]` and
`heap[k] <= heap[2*k+2]`; `heap[0]` is the smallest entry.

Naming follows heapq.py, which is the opposite of most textbooks: `_siftdown` moves an entry *towards the root*
(index 0), `_siftup` moves the hole at `pos` *towards the leaves*.  As in CPython, `_siftup` does not stop when the
new item fits: it bubbles the smaller child up until the hole is a leaf, puts the new item there and then lets
`_siftdown` carry it back up (not above `startpos`).

An index outside the list is `IndexError` in Python; for the internal helpers this cannot happen (they are only
called with valid positions) and the functions return the heap unchanged; for `heappop` / `heapreplace` on an empty
heap the result is `none`.
-/
namespace AsyncVerif.Heap

variable {α : Type}

/-- the `while pos > startpos` loop of `_siftdown`, with `newitem` already read; ends with `heap[pos] = newitem` -/
def siftdownLoop (lt : α → α → Bool) (newitem : α) (startpos : Nat) (heap : Array α) (pos : Nat)
    (hpos : pos < heap.size) : Array α :=
  if startpos < pos then
    -- parentpos = (pos - 1) >> 1 ; parent = heap[parentpos]
    if lt newitem (heap[(pos - 1) / 2]'(by omega)) then
      -- heap[pos] = parent ; pos = parentpos ; continue
      siftdownLoop lt newitem startpos (heap.set pos (heap[(pos - 1) / 2]'(by omega)) hpos) ((pos - 1) / 2)
        (by simp only [Array.size_set]; omega)
    else heap.set pos newitem hpos   -- break
  else heap.set pos newitem hpos
termination_by pos
decreasing_by omega

/-- `_siftdown(heap, startpos, pos)`: the entry at `pos` moves towards the root until its parent is not greater,
    at most up to `startpos` -/
def siftdown (lt : α → α → Bool) (heap : Array α) (startpos pos : Nat) : Array α :=
  if h : pos < heap.size then siftdownLoop lt heap[pos] startpos heap pos h else heap

/-- the `while childpos < endpos` loop of `_siftup` (the hole at `pos` takes the smaller child, all the way to a
    leaf), followed by `heap[pos] = newitem; _siftdown(heap, startpos, pos)` -/
def siftupLoop (lt : α → α → Bool) (newitem : α) (startpos : Nat) (heap : Array α) (pos : Nat)
    (hpos : pos < heap.size) : Array α :=
  if hc : 2 * pos + 1 < heap.size then
    if hr : 2 * pos + 2 < heap.size then
      -- rightpos < endpos and not heap[childpos] < heap[rightpos]  →  childpos = rightpos
      if lt heap[2 * pos + 1] heap[2 * pos + 2] then
        siftupLoop lt newitem startpos (heap.set pos heap[2 * pos + 1] hpos) (2 * pos + 1)
          (by simp only [Array.size_set]; exact hc)
      else
        siftupLoop lt newitem startpos (heap.set pos heap[2 * pos + 2] hpos) (2 * pos + 2)
          (by simp only [Array.size_set]; exact hr)
    else
      siftupLoop lt newitem startpos (heap.set pos heap[2 * pos + 1] hpos) (2 * pos + 1)
        (by simp only [Array.size_set]; exact hc)
  else
    siftdown lt (heap.set pos newitem hpos) startpos pos
termination_by heap.size - pos
decreasing_by all_goals (simp only [Array.size_set]; omega)

/-- `_siftup(heap, pos)` -/
def siftup (lt : α → α → Bool) (heap : Array α) (pos : Nat) : Array α :=
  if h : pos < heap.size then siftupLoop lt heap[pos] pos heap pos h else heap

/-- `heappush(heap, item)`: `heap.append(item); _siftdown(heap, 0, len(heap)-1)` -/
def heappush (lt : α → α → Bool) (heap : Array α) (item : α) : Array α :=
  siftdown lt (heap.push item) 0 heap.size

/-- `heappop(heap)`: the returned item and the heap afterwards; `none` is `IndexError` (empty heap) -/
def heappop (lt : α → α → Bool) (heap : Array α) : Option (α × Array α) :=
  if h : 0 < heap.size then
    let lastelt := heap[heap.size - 1]     -- lastelt = heap.pop()
    let heap' := heap.pop
    if h' : 0 < heap'.size then
      -- returnitem = heap[0]; heap[0] = lastelt; _siftup(heap, 0)
      some (heap'[0], siftup lt (heap'.set 0 lastelt h') 0)
    else some (lastelt, heap')
  else none

/-- `heapreplace(heap, item)`: `returnitem = heap[0]; heap[0] = item; _siftup(heap, 0)`; `none` is `IndexError` -/
def heapreplace (lt : α → α → Bool) (heap : Array α) (item : α) : Option (α × Array α) :=
  if h : 0 < heap.size then some (heap[0], siftup lt (heap.set 0 item h) 0) else none

/-- `for i in reversed(range(k)): _siftup(x, i)` -/
def heapifyLoop (lt : α → α → Bool) (x : Array α) : Nat → Array α
  | 0 => x
  | i + 1 => heapifyLoop lt (siftup lt x i) i

/-- `heapify(x)`: `n = len(x); for i in reversed(range(n//2)): _siftup(x, i)` -/
def heapify (lt : α → α → Bool) (x : Array α) : Array α :=
  heapifyLoop lt x (x.size / 2)

/-- `heap[0]` together with the heap after `heappop`: the concrete counterpart of the abstract "take the minimum
    entry out" (`Std.popMin`) -/
def heapPopMin (lt : α → α → Bool) (heap : Array α) : Option (α × Array α) :=
  if h : 0 < heap.size then
    match heappop lt heap with
    | some (_, rest) => some (heap[0], rest)
    | none => none
  else none

end AsyncVerif.Heap
