/-!
# Leaving a nest of `scoped_iter` blocks when the underlying iterator's own `aclose()` may FAIL — model

`Machines/Borrow.lean` (C07/C08) assumes that `aclose()` of the underlying iterator does not raise.  This
small machine drops that assumption for the one place where it matters, `_ScopedAsyncIteratorContext.__aexit__`
(asyncstdlib/asynctools.py):

```
async def __aexit__(self, *args):
    await self._borrowed_iter._aclose_wrapper()   # (1) retire OWN handle: close its wrapper generator
    await self._iterator.aclose()                 # (2) close what the scope was opened on
```

* the underlying iterator has `n` remaining items (`pos`, `pos+1`, …, as `_BadCloseSource` of
  `harness/props/c08.py`) and a close behaviour `CloseBeh`: `ok` (closing completes: it yields nothing
  afterwards), `raises e` (its `aclose()` raises `e`), `cancelledIn e` (its `aclose()` suspends and the
  cancellation `e` is thrown in there and comes back out).  In the two failing cases the iterator's own closing
  did NOT complete: it stays usable, which is exactly what makes a handle that was not retired observable;
* the nest: scope `0` is opened on the iterator itself (the iterator has `aclose`, so `scoped_iter` returns a
  `_ScopedAsyncIteratorContext`; the `nullcontext` path for iterators without `aclose` closes nothing and is
  covered by `Machines/Borrow.lean`), scope `k+1` is opened on the handle of scope `k`.  `wrappers[k]` says
  whether the wrapper generator `(item async for item in parent)` of handle `k` is still open; `active` is the
  number of scopes not yet left (`async with` statements nest, so they are left innermost first);
* `pullH k` — `handle_k.__anext__` = `_wrapper.__anext__`: a closed/finished wrapper raises StopAsyncIteration
  without touching its parent; an open one pulls its parent (handle `k-1`, or the iterator for `k = 0`) and
  passes an item on; when the parent yields nothing the generator expression runs to its end: finished for good;
* `aexit` — `__aexit__` as written: step (1), then step (2) on the scope's `_iterator`: the real iterator for
  scope `0`, otherwise the outer HANDLE, whose `aclose` is `_ScopedAsyncIterator.aclose` = `pass`;
* `aexitSwapped` — the WRONG order (step (2) first, then step (1)), as two independently written seeded changes
  did: if step (2) raises, step (1) is never reached;
* `leaveOneWith` — one `async with` statement is left (normally / by an exception / by a cancellation): its
  `__aexit__` runs; if that raises, its exception replaces whatever was leaving the block, otherwise (it returns
  `None`) the block's own outcome carries on;  `leaveNWith k` — the outcome travels on through the next
  enclosing `async with`, which runs its own `__aexit__` in turn, `k` statements in all.

No Mathlib, no proofs here: this file is also compiled into the driver.
-/
namespace AsyncVerif.ScopeExit

abbrev Val := Nat
abbrev ExcId := Nat

/-- how a block is left / what leaves an `async with` statement -/
inductive Leave where
  | normal
  | raised (e : ExcId)      -- an exception
  | cancelled (e : ExcId)   -- a cancellation (a BaseException thrown in at a suspension)
  deriving DecidableEq, Repr

/-- what the underlying iterator's own `aclose()` does -/
inductive CloseBeh where
  | ok
  | raises (e : ExcId)
  | cancelledIn (e : ExcId)
  deriving DecidableEq, Repr

/-- the exception that comes out of the underlying `aclose()`, if any -/
def CloseBeh.failure : CloseBeh → Option Leave
  | .ok => none
  | .raises e => some (.raised e)
  | .cancelledIn e => some (.cancelled e)

/-- ghost log of what the `__aexit__`s did, in order -/
inductive Ev where
  | wclose (k : Nat)     -- `_aclose_wrapper()` of handle `k`
  | uclose (k : Nat)     -- scope `k` invoked `aclose()` of the underlying iterator
  deriving DecidableEq, Repr

structure St where
  n : Nat                  -- remaining items of the underlying iterator
  pos : Val                -- its next item (= number of items consumed so far when started at 0)
  beh : CloseBeh
  uclosed : Bool           -- its `aclose()` ran to completion
  closes : Nat             -- ghost: number of `aclose()` calls that reached it
  wrappers : List Bool     -- wrapper of handle k open?  (0 = handle of the outermost scope)
  active : Nat             -- scopes 0 … active-1 have not been left yet
  log : List Ev
  deriving DecidableEq, Repr

/-- the underlying iterator, no scope yet -/
def init (n : Nat) (beh : CloseBeh) : St :=
  { n := n, pos := 0, beh := beh, uclosed := false, closes := 0, wrappers := [], active := 0, log := [] }

/-- is the wrapper of handle `k` open? (handles that do not exist yield nothing) -/
def St.wopen (s : St) (k : Nat) : Bool := s.wrappers.getD k false

/-- the wrapper generator of handle `k` is closed / ran to its end -/
def St.finish (s : St) (k : Nat) : St := { s with wrappers := s.wrappers.set k false }

/-- `U.__anext__()` -/
def pullU (s : St) : St × Option Val :=
  if s.uclosed then (s, none)
  else match s.n with
    | 0 => (s, none)
    | m + 1 => ({ s with n := m, pos := s.pos + 1 }, some s.pos)

/-- `handle_k.__anext__()`; `none` = StopAsyncIteration -/
def pullH : Nat → St → St × Option Val
  | 0, s =>
    if s.wopen 0 then
      match pullU s with
      | (s1, some v) => (s1, some v)
      | (s1, none) => (s1.finish 0, none)
    else (s, none)
  | k + 1, s =>
    if s.wopen (k + 1) then
      match pullH k s with
      | (s1, some v) => (s1, some v)
      | (s1, none) => (s1.finish (k + 1), none)
    else (s, none)

/-- advance handle `k` once -/
def nextH (k : Nat) (s : St) : St × Option Val := pullH k s

/-- a consumer (e.g. `list(islice(handle_k, c))`) takes up to `c` items from handle `k`, stopping at the first
    StopAsyncIteration -/
def takeH (k : Nat) : Nat → St → St × List Val
  | 0, s => (s, [])
  | c + 1, s =>
    match pullH k s with
    | (s1, some v) => let r := takeH k c s1; (r.1, v :: r.2)
    | (s1, none) => (s1, [])

/-- `scoped_iter(x).__aenter__()` with `x` = the iterator (no scope yet) or the handle of the innermost scope:
    a new `_ScopedAsyncIterator` with a fresh wrapper.  Handles of inner scopes that were already left are
    dropped from the table (they are retired for good, `C08_scope_exit_inner_only_own`). -/
def enter (s : St) : St :=
  { s with wrappers := s.wrappers.take s.active ++ [true], active := s.active + 1 }

/-- `aclose()` of the underlying iterator, invoked by scope `k` -/
def closeU (k : Nat) (s : St) : St × Option Leave :=
  let s1 := { s with closes := s.closes + 1, log := s.log ++ [.uclose k] }
  match s.beh.failure with
  | none => ({ s1 with uclosed := true }, none)
  | some x => (s1, some x)

/-- `self._iterator.aclose()` of scope `k`: the real iterator for the outermost scope, the outer handle's no-op
    `_ScopedAsyncIterator.aclose` otherwise -/
def closeTarget (k : Nat) (s : St) : St × Option Leave :=
  if k = 0 then closeU k s else (s, none)

/-- `self._borrowed_iter._aclose_wrapper()` of scope `k` -/
def closeWrapper (k : Nat) (s : St) : St :=
  { s with wrappers := s.wrappers.set k false, log := s.log ++ [.wclose k] }

/-- `__aexit__` of the innermost scope not yet left, as written: own wrapper first, then the target's `aclose()`.
    `some x` = `__aexit__` raised `x`. -/
def aexit (s : St) : St × Option Leave :=
  match s.active with
  | 0 => (s, none)
  | k + 1 => closeTarget k { closeWrapper k s with active := k }

/-- the WRONG order: the target's `aclose()` first, then the own wrapper — never reached if the former raises -/
def aexitSwapped (s : St) : St × Option Leave :=
  match s.active with
  | 0 => (s, none)
  | k + 1 =>
    match closeTarget k { s with active := k } with
    | (s1, some x) => (s1, some x)
    | (s1, none) => (closeWrapper k s1, none)

/-- one `async with` statement is left with outcome `m`: `__aexit__` runs; what it raises replaces `m` -/
def leaveOneWith (ax : St → St × Option Leave) (m : Leave) (s : St) : St × Leave :=
  match ax s with
  | (s1, some x) => (s1, x)
  | (s1, none) => (s1, m)

/-- the outcome travels through `k` nested `async with` statements, innermost first -/
def leaveNWith (ax : St → St × Option Leave) : Nat → Leave → St → St × Leave
  | 0, m, s => (s, m)
  | k + 1, m, s =>
    let r := leaveOneWith ax m s
    leaveNWith ax k r.2 r.1

/-- the innermost `k` blocks are left by `m` -/
def leaveN (k : Nat) (m : Leave) (s : St) : St × Leave := leaveNWith aexit k m s

/-- the whole nest is left by `m` (raised in the innermost block), or by the failing close -/
def exitAll (m : Leave) (s : St) : St × Leave := leaveNWith aexit s.active m s

/-- the whole nest is left, every `__aexit__` in the wrong order -/
def exitSwapped (m : Leave) (s : St) : St × Leave := leaveNWith aexitSwapped s.active m s

/-- the innermost block is left by `m`: its `__aexit__` runs; an exception raised by it propagates through the
    enclosing scopes' `__aexit__`s in turn; otherwise `m` arrives in the enclosing block (whose code may handle
    it) -/
def exitInnermost (m : Leave) (s : St) : St × Leave :=
  match aexit s with
  | (s1, some x) => leaveN s1.active x s1
  | (s1, none) => (s1, m)

/-- blocks that are left one by one, each by its own outcome (the exception of one block is handled in the
    enclosing block before that is left in turn); the outcomes that arrived in the enclosing blocks -/
def leaveEach : List Leave → St → St × List Leave
  | [], s => (s, [])
  | m :: ms, s =>
    let r := leaveOneWith aexit m s
    let q := leaveEach ms r.1
    (q.1, r.2 :: q.2)

/-- the nest of the harness's `_observe_badclose`: `depth` more scopes, each level takes `taken` items from its
    new handle before opening the next -/
def build (taken : Nat) : Nat → St → St
  | 0, s => s
  | d + 1, s =>
    let s1 := enter s
    build taken d (takeH (s1.active - 1) taken s1).1

/-- `n` items, close behaviour `beh`, `depth` nested scopes, `taken` items per level -/
def nest (depth n : Nat) (beh : CloseBeh) (taken : Nat) : St := build taken depth (init n beh)

/-- after the nest: one `__anext__` on each of the handles `0 … cnt-1` in turn -/
def probe : Nat → Nat → St → St × List (Option Val)
  | _, 0, s => (s, [])
  | k, c + 1, s =>
    let r := pullH k s
    let q := probe (k + 1) c r.1
    (q.1, r.2 :: q.2)

/-- what the harness records for one `badclose` case -/
structure Obs where
  exit : Leave
  after : List (Option Val)
  toolAfter : List Val
  closes : Nat
  consumed : Nat
  deriving DecidableEq, Repr

/-- `_observe_badclose`: build the nest, leave it (the innermost block falls through; `swapped` = with the wrong
    `__aexit__`), probe every handle, hand the retired outer handle to `list(islice(·, 2))` -/
def observe (swapped : Bool) (depth n : Nat) (beh : CloseBeh) (taken : Nat) (m : Leave) : Obs :=
  let s0 := nest depth n beh taken
  let r := if swapped then exitSwapped m s0 else exitAll m s0
  let p := probe 0 depth r.1
  let t := takeH 0 2 p.1
  { exit := r.2, after := p.2, toolAfter := t.2, closes := t.1.closes, consumed := t.1.pos }

end AsyncVerif.ScopeExit
