import AsyncVerif.Machines.ExitStack
/-!
# ExitStack.enter_context with managers whose enter / exit SUSPEND — model

`Machines/ExitStack.lean` and `Machines/ExitStackReentrant.lean` treat an `enter_context` as one atomic
step (`Op.register` / `Op.enterFails`) and an exit as one atomic reaction.  Here the single task

```python
async with ExitStack() as st:
    for m in managers:
        await st.enter_context(m)        # (callback flavour: st.callback(m))
    <body: bodySusp suspensions, then return / raise>
```

is advanced by hand (`send` / `throw e`, as `world.drive` does), and it may be suspended

* inside `await cm.__aenter__()` of manager `i`   (`Pc.enter`),
* inside the body of the block                    (`Pc.body`),
* inside `await callback(exc_type, exc_val, tb)` of manager `i` while `__aexit__` unwinds (`Pc.exit`).

A manager's enter program is `enterSusp` suspensions, then `ok v` / `raises e`; its exit program is
`exitSusp` suspensions, then falsy / truthy / `raise e`.  An exception thrown in at a suspension point
propagates out of the program that is suspended there (the programs do not catch).
Flavours: `async` (`__aenter__`/`__aexit__`), `sync` (`__enter__`/`__exit__`: cannot suspend; the exit is
`awaitify(cm.__exit__)`), `callback` (registered with `st.callback(fn)`: nothing is entered, the exit
gets no exception details and its return value is dropped by `_aexit_callback`).

* `Impl.*` follows `asyncstdlib.contextlib.ExitStack.enter_context` / `__aexit__` line by line:
  `aexit = cm.__aexit__` is looked up first, then `context_value = await cm.__aenter__()` runs (and may
  suspend / fail / be cancelled), and only then `self._exit_callbacks.append(aexit)`.
* `Nested.*` is the same task written with literally nested statements
  (`async with m0: async with m1: ... body`; `with m:` for a sync manager, `try: ... finally: await fn()`
  for a callback): the state is the list of enclosing blocks, an exit's answer is combined with the
  outcome of the block it encloses.

Managers are identified by their position in the list: the manager entered while `stack` holds the
already entered ones is number `stack.length`, the top of a stack `m :: rest` is number `rest.length`.

No Mathlib, no proofs here: this file is also compiled into the driver.
-/
namespace AsyncVerif.ExitStackEnter
open AsyncVerif.ExitStack (ExcId ExitResp Outcome)

inductive Flavour where
  | async | sync | callback
  deriving DecidableEq, Repr

/-- how a manager's enter ends once it is no longer suspended -/
inductive EnterRes where
  | ok (v : Nat) | raises (e : ExcId)
  deriving DecidableEq, Repr

structure Mgr where
  flavour : Flavour
  enterSusp : Nat
  enter : EnterRes
  exitSusp : Nat
  exit : ExitResp
  deriving DecidableEq, Repr

/-- suspensions of the enter: only `__aenter__` can suspend -/
def Mgr.eSusp (m : Mgr) : Nat :=
  match m.flavour with
  | .async => m.enterSusp
  | _ => 0

/-- suspensions of the exit: `__exit__` cannot suspend; an (async) callback can -/
def Mgr.xSusp (m : Mgr) : Nat :=
  match m.flavour with
  | .sync => 0
  | _ => m.exitSusp

/-- what the exit is handed: the `callback` wrapper swallows the exception details -/
def Mgr.handed (m : Mgr) (infl : Option ExcId) : Option ExcId :=
  match m.flavour with
  | .callback => none
  | _ => infl

/-- what the unwinding sees of the exit's own answer: the `callback` wrapper returns `False`
    unless the callback raised -/
def Mgr.resp (m : Mgr) : ExitResp :=
  match m.flavour with
  | .callback => (match m.exit with | .raise e => .raise e | _ => .falsy)
  | _ => m.exit

structure Cfg where
  mgrs : List Mgr
  bodySusp : Nat
  body : Outcome

/-- the driver's two moves on the task: `coro.send(None)` / `coro.throw(e)` -/
inductive Op where
  | send | throw (e : ExcId)
  deriving DecidableEq, Repr

/-- observable events -/
inductive Ev where
  /-- `cm.__aenter__()` / `cm.__enter__()` of manager `i` was called -/
  | enter (i : Nat)
  /-- the enter of manager `i` returned `v` (ExitStack: and its exit was registered) -/
  | entered (i : Nat) (v : Nat)
  /-- callback `i` was registered (`st.callback(fn)`; nested: its `try:` block was entered) -/
  | pushed (i : Nat)
  /-- the exit of manager `i` was called and handed this exception (`none` = `(None, None, None)`) -/
  | exit (i : Nat) (handed : Option ExcId)
  deriving DecidableEq, Repr

/-- where the task is suspended -/
inductive Where where
  | enter (i : Nat) | body | exit (i : Nat)
  deriving DecidableEq, Repr

/-- what the driver gets back from one `send` / `throw` -/
inductive Out where
  /-- the task suspended again, there -/
  | susp (w : Where)
  /-- the task finished: the `async with` statement ended like this -/
  | finished (o : Outcome)
  /-- the task had finished before -/
  | dead
  deriving DecidableEq, Repr

/-- managers whose enter completed / callbacks that were registered, in order -/
def enteredIds : List Ev → List Nat
  | [] => []
  | .entered i _ :: r => i :: enteredIds r
  | .pushed i :: r => i :: enteredIds r
  | _ :: r => enteredIds r

/-- managers whose exit was called, in order -/
def exitIds : List Ev → List Nat
  | [] => []
  | .exit i _ :: r => i :: exitIds r
  | _ :: r => exitIds r

/-! ## asyncstdlib -/
namespace Impl

/-- local variables of `ExitStack.__aexit__` -/
structure Loop where
  exc : Option ExcId          -- exc_val
  suppress : Bool             -- suppress_exc
  reraise : Bool              -- reraise_exc
  deriving DecidableEq, Repr

/-- `suppress_exc = False; reraise_exc = False` on entry of `__aexit__(exc)` -/
def loopInit (recv : Outcome) : Loop := ⟨recv.exc, false, false⟩

/-- the `try: if await callback(...): ... except BaseException as exc: ...` part -/
def react (ls : Loop) : ExitResp → Loop
  | .truthy => { exc := none, suppress := true, reraise := false }
  | .falsy => ls
  | .raise e => { exc := some e, suppress := ls.suppress, reraise := true }

/-- `if reraise_exc and exc_val is not None: raise exc_val`, else
    `return received_exc and suppress_exc`, as seen by the `async with stack:` statement whose block
    ended with `recv` -/
def outcome (recv : Outcome) (ls : Loop) : Outcome :=
  if ls.reraise && ls.exc.isSome then .raises (ls.exc.getD 0)
  else match recv with
    | .normal => .normal
    | .raises e => if ls.suppress then .normal else .raises e

/-- control point of the task -/
inductive Pc where
  /-- suspended in `await cm.__aenter__()` of `m`, `left` more suspensions to come;
      `stack` = `_exit_callbacks`, right end first; `todo` = the managers after `m` -/
  | enter (stack : List Mgr) (m : Mgr) (left : Nat) (todo : List Mgr)
  /-- suspended in the body of the block -/
  | body (stack : List Mgr) (left : Nat)
  /-- suspended in `await callback(exc_type, exc_val, tb)` of `m` inside `__aexit__`;
      `rest` = what is left of `_exit_callbacks`; `recv` = how the block ended -/
  | exit (rest : List Mgr) (m : Mgr) (left : Nat) (ls : Loop) (recv : Outcome)
  | done (o : Outcome)
  deriving DecidableEq, Repr

/-- `while self._exit_callbacks: callback = self._exit_callbacks.pop(); ...` up to the next
    suspension; returns the new control point and the events on the way -/
def unwind (recv : Outcome) : List Mgr → Loop → Pc × List Ev
  | [], ls => (.done (outcome recv ls), [])
  | m :: rest, ls =>
    let ev := Ev.exit rest.length (m.handed ls.exc)
    match m.xSusp with
    | 0 => let r := unwind recv rest (react ls m.resp); (r.1, ev :: r.2)
    | k + 1 => (.exit rest m k ls recv, [ev])

/-- exception `e` leaves the block of `async with stack:`: `__aexit__(type(e), e, tb)` -/
def fail (stack : List Mgr) (e : ExcId) : Pc × List Ev :=
  unwind (.raises e) stack (loopInit (.raises e))

/-- the body of the block, from its start -/
def runBody (cfg : Cfg) (stack : List Mgr) : Pc × List Ev :=
  match cfg.bodySusp with
  | 0 => unwind cfg.body stack (loopInit cfg.body)
  | k + 1 => (.body stack k, [])

/-- `for m in todo: await st.enter_context(m)`, then the body.  `enter_context`: the enter runs
    first; `_exit_callbacks.append(aexit)` (= `m :: stack`) only after it returned. -/
def enterFrom (cfg : Cfg) : List Mgr → List Mgr → Pc × List Ev
  | stack, [] => runBody cfg stack
  | stack, m :: todo =>
    match m.flavour with
    | .callback => let r := enterFrom cfg (m :: stack) todo; (r.1, .pushed stack.length :: r.2)
    | _ =>
      match m.eSusp with
      | k + 1 => (.enter stack m k todo, [.enter stack.length])
      | 0 =>
        match m.enter with
        | .ok v =>
          let r := enterFrom cfg (m :: stack) todo
          (r.1, .enter stack.length :: .entered stack.length v :: r.2)
        | .raises e => let r := fail stack e; (r.1, .enter stack.length :: r.2)

/-- the suspended `await cm.__aenter__()` of `m` is over -/
def finishEnter (cfg : Cfg) (stack : List Mgr) (m : Mgr) (todo : List Mgr) : Pc × List Ev :=
  match m.enter with
  | .ok v => let r := enterFrom cfg (m :: stack) todo; (r.1, .entered stack.length v :: r.2)
  | .raises e => fail stack e

/-- resume the suspended task with `send` / `throw e`, run to the next suspension -/
def next (cfg : Cfg) : Pc → Op → Pc × List Ev
  | .enter stack m (k + 1) todo, .send => (.enter stack m k todo, [])
  | .enter stack m 0 todo, .send => finishEnter cfg stack m todo
  | .enter stack _ _ _, .throw e => fail stack e          -- nothing was appended for `m`
  | .body stack (k + 1), .send => (.body stack k, [])
  | .body stack 0, .send => unwind cfg.body stack (loopInit cfg.body)
  | .body stack _, .throw e => fail stack e
  | .exit rest m (k + 1) ls recv, .send => (.exit rest m k ls recv, [])
  | .exit rest m 0 ls recv, .send => unwind recv rest (react ls m.resp)
  | .exit rest _ _ ls recv, .throw e => unwind recv rest (react ls (.raise e))
  | .done o, _ => (.done o, [])

def Pc.out : Pc → Out
  | .enter stack _ _ _ => .susp (.enter stack.length)
  | .body _ _ => .susp .body
  | .exit rest _ _ _ _ => .susp (.exit rest.length)
  | .done o => .finished o

/-- the number of the manager whose enter the task is suspended in -/
def Pc.entering : Pc → Option Nat
  | .enter stack _ _ _ => some stack.length
  | _ => none

def Pc.result : Pc → Option Outcome
  | .done o => some o
  | _ => none

structure St where
  pc : Pc
  /-- every event so far -/
  log : List Ev
  /-- what the driver got back: from starting the task, then from every operation -/
  outs : List Out
  deriving DecidableEq, Repr

def St.finished (s : St) : Bool := s.pc.result.isSome

/-- the task is started (first `send(None)`) and runs to its first suspension -/
def init (cfg : Cfg) : St :=
  let r := enterFrom cfg [] cfg.mgrs
  ⟨r.1, r.2, [r.1.out]⟩

def step (cfg : Cfg) (s : St) (op : Op) : St :=
  match s.pc with
  | .done _ => { s with outs := s.outs ++ [.dead] }
  | pc => let r := next cfg pc op; ⟨r.1, s.log ++ r.2, s.outs ++ [r.1.out]⟩

def run (cfg : Cfg) (ops : List Op) : St := ops.foldl (step cfg) (init cfg)

end Impl

/-! ## literally nested `async with` statements -/
namespace Nested

/-- what the statement `async with m: <block>` ends like, given how its block ended and what
    `m`'s exit answered -/
def combine (inner : Outcome) : ExitResp → Outcome
  | .truthy => .normal
  | .falsy => inner
  | .raise e => .raises e

/-- control point of the task -/
inductive Pc where
  /-- suspended in `__aenter__` of `m`; `outer` = the enclosing blocks, innermost first -/
  | enter (outer : List Mgr) (m : Mgr) (left : Nat) (todo : List Mgr)
  /-- suspended in the innermost block's body -/
  | body (outer : List Mgr) (left : Nat)
  /-- suspended in `__aexit__` of `m`, whose block ended with `inner`; `outer` = the blocks around -/
  | exit (outer : List Mgr) (m : Mgr) (left : Nat) (inner : Outcome)
  | done (o : Outcome)
  deriving DecidableEq, Repr

/-- a block ended with `inner`: leave the enclosing statements, innermost first -/
def unwind : List Mgr → Outcome → Pc × List Ev
  | [], inner => (.done inner, [])
  | m :: outer, inner =>
    let ev := Ev.exit outer.length (m.handed inner.exc)
    match m.xSusp with
    | 0 => let r := unwind outer (combine inner m.resp); (r.1, ev :: r.2)
    | k + 1 => (.exit outer m k inner, [ev])

def runBody (cfg : Cfg) (outer : List Mgr) : Pc × List Ev :=
  match cfg.bodySusp with
  | 0 => unwind outer cfg.body
  | k + 1 => (.body outer k, [])

/-- `async with m0: async with m1: ... : body` for the managers `todo`, inside the blocks `outer`.
    An enter that raises ends the block it stands in. -/
def enterFrom (cfg : Cfg) : List Mgr → List Mgr → Pc × List Ev
  | outer, [] => runBody cfg outer
  | outer, m :: todo =>
    match m.flavour with
    | .callback => let r := enterFrom cfg (m :: outer) todo; (r.1, .pushed outer.length :: r.2)
    | _ =>
      match m.eSusp with
      | k + 1 => (.enter outer m k todo, [.enter outer.length])
      | 0 =>
        match m.enter with
        | .ok v =>
          let r := enterFrom cfg (m :: outer) todo
          (r.1, .enter outer.length :: .entered outer.length v :: r.2)
        | .raises e => let r := unwind outer (.raises e); (r.1, .enter outer.length :: r.2)

def finishEnter (cfg : Cfg) (outer : List Mgr) (m : Mgr) (todo : List Mgr) : Pc × List Ev :=
  match m.enter with
  | .ok v => let r := enterFrom cfg (m :: outer) todo; (r.1, .entered outer.length v :: r.2)
  | .raises e => unwind outer (.raises e)

def next (cfg : Cfg) : Pc → Op → Pc × List Ev
  | .enter outer m (k + 1) todo, .send => (.enter outer m k todo, [])
  | .enter outer m 0 todo, .send => finishEnter cfg outer m todo
  | .enter outer _ _ _, .throw e => unwind outer (.raises e)     -- `m`'s block was never entered
  | .body outer (k + 1), .send => (.body outer k, [])
  | .body outer 0, .send => unwind outer cfg.body
  | .body outer _, .throw e => unwind outer (.raises e)
  | .exit outer m (k + 1) inner, .send => (.exit outer m k inner, [])
  | .exit outer m 0 inner, .send => unwind outer (combine inner m.resp)
  | .exit outer _ _ _, .throw e => unwind outer (.raises e)
  | .done o, _ => (.done o, [])

def Pc.out : Pc → Out
  | .enter outer _ _ _ => .susp (.enter outer.length)
  | .body _ _ => .susp .body
  | .exit outer _ _ _ => .susp (.exit outer.length)
  | .done o => .finished o

def Pc.result : Pc → Option Outcome
  | .done o => some o
  | _ => none

structure St where
  pc : Pc
  log : List Ev
  outs : List Out
  deriving DecidableEq, Repr

def init (cfg : Cfg) : St :=
  let r := enterFrom cfg [] cfg.mgrs
  ⟨r.1, r.2, [r.1.out]⟩

def step (cfg : Cfg) (s : St) (op : Op) : St :=
  match s.pc with
  | .done _ => { s with outs := s.outs ++ [.dead] }
  | pc => let r := next cfg pc op; ⟨r.1, s.log ++ r.2, s.outs ++ [r.1.out]⟩

def run (cfg : Cfg) (ops : List Op) : St := ops.foldl (step cfg) (init cfg)

end Nested

end AsyncVerif.ExitStackEnter
