/-!
# `_core.awaitify` / `Awaitify` across SEPARATE tool calls — model

Every tool of the library turns a user callable into something it can `await` by `awaitify(function)`,
ONCE per tool call, and then calls the result (`await wrapper(*args)`) once per item.  The same
function object may be handed to several tool calls, and what it hands out may change from call to
call (a forwarding `def` whose backend is swapped between a plain and an `async def`
implementation).

```python
def awaitify(function):
    if iscoroutinefunction(function):
        return function
    else:
        return Awaitify(function)

class Awaitify:
    __slots__ = "__wrapped__", "_async_call"
    def __init__(self, function):
        self.__wrapped__ = function
        self._async_call = None
    def __call__(self, *args, **kwargs):
        if (async_call := self._async_call) is None:
            value = self.__wrapped__(*args, **kwargs)          # the probing call; may raise
            if isinstance(value, Awaitable):
                self._async_call = self.__wrapped__
                return value
            else:
                self._async_call = force_async(self.__wrapped__)
                return await_value(value)
        else:
            return async_call(*args, **kwargs)

def force_async(call):
    async def async_wrapped(*args, **kwargs):
        return call(*args, **kwargs)                            # NOT awaited
    return async_wrapped
```

The machine: a family of function objects, each with a per-call script of answers (the n-th call of
that function object — through whatever wrapper — gets the n-th answer), and a history of
operations `wrap f` (`awaitify(f)`) and `call w` (`await w(*args)` as done by the library).
-/
namespace AsyncVerif.AwaitifyReuse

/-- what ONE call `function(*args)` of a user callable does -/
inductive Answer where
  | plain (v : Nat)              -- returns a value that is not awaitable
  | awaitable (v : Nat)          -- returns an awaitable that completes with `v`
  | raisesSync (e : Nat)         -- raises at call time
  | awaitableRaising (e : Nat)   -- returns an awaitable that raises `e` when awaited
  deriving DecidableEq, Repr

/-- a function object.  `coro` = `inspect.iscoroutinefunction(function)`; `answer n` = what its
    n-th call (counted over the whole history) does.  For a coroutine function the script says how
    the coroutine it hands out ends (`plain v`/`awaitable v`: with `v`; the raising ones: with `e`). -/
structure Func where
  coro : Bool
  answer : Nat → Answer

inductive Op where
  | wrap (f : Nat)      -- `w = awaitify(f)` at the start of a tool call
  | call (w : Nat)      -- `await w(*args)` inside the tool
  deriving DecidableEq, Repr

/-- what the library sees -/
inductive Out where
  | wrapper (w : Nat)   -- handle returned by `awaitify`
  | ret (v : Nat)       -- `await w(*args)` evaluated to the value `v`
  | raised (e : Nat)    -- `await w(*args)` raised the user's exception `e`
  | typeError           -- `await w(*args)` raised `TypeError: object int can't be used in 'await' expression`
  | unawaited           -- `await w(*args)` evaluated to an awaitable object that nobody awaited
  | noSuchWrapper       -- the history names a handle that no `wrap` returned (not a library behaviour)
  deriving DecidableEq, Repr

/-- REFERENCE: call the function, await the result if it is awaitable -/
def awaitIfNeeded : Answer → Out
  | .plain v => .ret v
  | .awaitable v => .ret v
  | .raisesSync e => .raised e
  | .awaitableRaising e => .raised e

/-- `Awaitify._async_call`: `None` / `force_async(__wrapped__)` / `__wrapped__` -/
inductive WState where
  | undecided | sync | async
  deriving DecidableEq, Repr

/-- what a handle returned by `awaitify` denotes -/
inductive Wrapper where
  | function (f : Nat)                 -- a coroutine function: `awaitify` returned the function itself
  | awaitify (f : Nat) (s : WState)    -- an `Awaitify` object around `f`
  deriving DecidableEq, Repr

def Wrapper.fn : Wrapper → Nat
  | .function f => f
  | .awaitify f _ => f

/-- `await Awaitify.__call__(self, *args)` when `__wrapped__(*args)` does `a`: new `_async_call`, outcome -/
def callWrapper : WState → Answer → WState × Out
  -- `_async_call is None`: the probing call
  | .undecided, .raisesSync e => (.undecided, .raised e)          -- raised before anything was stored
  | .undecided, .plain v => (.sync, .ret v)                        -- `force_async`; `await_value(value)`
  | .undecided, .awaitable v => (.async, .ret v)                   -- `_async_call = __wrapped__`; `return value`
  | .undecided, .awaitableRaising e => (.async, .raised e)         -- decided, then the awaitable raises
  -- `_async_call = __wrapped__`: `await __wrapped__(*args)`
  | .async, .plain _ => (.async, .typeError)                       -- `await 3`
  | .async, .awaitable v => (.async, .ret v)
  | .async, .raisesSync e => (.async, .raised e)
  | .async, .awaitableRaising e => (.async, .raised e)
  -- `_async_call = force_async(__wrapped__)`: `await async_wrapped(*args)` = `__wrapped__(*args)`, not awaited
  | .sync, .plain v => (.sync, .ret v)
  | .sync, .raisesSync e => (.sync, .raised e)
  | .sync, .awaitable _ => (.sync, .unawaited)
  | .sync, .awaitableRaising _ => (.sync, .unawaited)              -- the exception is never raised

structure St where
  wrappers : List Wrapper      -- handle `w` = index
  calls : Nat → Nat            -- per function object: how often it has been called (world state, not library state)

def init : St := ⟨[], fun _ => 0⟩

def bump (c : Nat → Nat) (f : Nat) : Nat → Nat := fun g => if g = f then c g + 1 else c g

/-- one entry of the trace: the operation, what the function object answered (if it was called), the outcome -/
structure Event where
  op : Op
  answer : Option Answer
  out : Out
  deriving DecidableEq, Repr

def step (fs : Nat → Func) (s : St) : Op → St × Event
  | .wrap f =>
    let wr : Wrapper := if (fs f).coro then .function f else .awaitify f .undecided
    ({ s with wrappers := s.wrappers ++ [wr] }, ⟨.wrap f, none, .wrapper s.wrappers.length⟩)
  | .call w =>
    match s.wrappers[w]? with
    | none => (s, ⟨.call w, none, .noSuchWrapper⟩)
    | some (.function f) =>
      let a := (fs f).answer (s.calls f)
      ({ s with calls := bump s.calls f }, ⟨.call w, some a, awaitIfNeeded a⟩)
    | some (.awaitify f ws) =>
      let a := (fs f).answer (s.calls f)
      let r := callWrapper ws a
      ({ wrappers := s.wrappers.set w (.awaitify f r.1), calls := bump s.calls f }, ⟨.call w, some a, r.2⟩)

def run (fs : Nat → Func) : St → List Op → List Event
  | _, [] => []
  | s, op :: ops => (step fs s op).2 :: run fs (step fs s op).1 ops

def stateAfter (fs : Nat → Func) : St → List Op → St
  | s, [] => s
  | s, op :: ops => stateAfter fs (step fs s op).1 ops

/-! ## Reference semantics: no wrapper state at all -/

structure SpecSt where
  fns : List Nat               -- handle ↦ function object
  calls : Nat → Nat

def specInit : SpecSt := ⟨[], fun _ => 0⟩

def specStep (fs : Nat → Func) (s : SpecSt) : Op → SpecSt × Event
  | .wrap f => ({ s with fns := s.fns ++ [f] }, ⟨.wrap f, none, .wrapper s.fns.length⟩)
  | .call w =>
    match s.fns[w]? with
    | none => (s, ⟨.call w, none, .noSuchWrapper⟩)
    | some f =>
      let a := (fs f).answer (s.calls f)
      ({ s with calls := bump s.calls f }, ⟨.call w, some a, awaitIfNeeded a⟩)

def specRun (fs : Nat → Func) : SpecSt → List Op → List Event
  | _, [] => []
  | s, op :: ops => (specStep fs s op).2 :: specRun fs (specStep fs s op).1 ops

/-! ## Notions used by the theorems -/

/-- the answers the function object gave in the calls made THROUGH handle `w`, in order -/
def answersVia (w : Nat) (tr : List Event) : List Answer :=
  tr.filterMap (fun e => if e.op = .call w then e.answer else none)

/-- what a completed call shows about the callable: `some false` plain, `some true` awaitable,
    `none` nothing (it raised at call time) -/
def Answer.flavour : Answer → Option Bool
  | .plain _ => some false
  | .awaitable _ => some true
  | .awaitableRaising _ => some true
  | .raisesSync _ => none

/-- the `_async_call` of a wrapper through which the answers `as` went: fixed by the FIRST answer
    that did not raise at call time, for good -/
def decidedBy (as : List Answer) : WState :=
  match as.findSome? Answer.flavour with
  | none => .undecided
  | some true => .async
  | some false => .sync

/-- outcome of a call in a given wrapper state, as a table -/
def outIn : WState → Answer → Out
  | .undecided, a => awaitIfNeeded a
  | .async, .plain _ => .typeError
  | .async, a => awaitIfNeeded a
  | .sync, .awaitable _ => .unawaited
  | .sync, .awaitableRaising _ => .unawaited
  | .sync, a => awaitIfNeeded a

/-! ## Sequential tool calls -/

/-- a tool call: `awaitify(f)` once, then `ncalls` calls through the wrapper -/
structure ToolCall where
  f : Nat
  ncalls : Nat
  deriving DecidableEq, Repr

/-- the history of tool calls run one after the other; `n` = the next free handle -/
def toolOps : Nat → List ToolCall → List Op
  | _, [] => []
  | n, tc :: rest => .wrap tc.f :: (List.replicate tc.ncalls (.call n) ++ toolOps (n + 1) rest)

/-- `k` consecutive answers of a script starting at position `c` -/
def segment (f : Func) (c : Nat) : Nat → List Answer
  | 0 => []
  | k + 1 => f.answer c :: segment f (c + 1) k

def bumpBy (c : Nat → Nat) (f k : Nat) : Nat → Nat := fun g => if g = f then c g + k else c g

end AsyncVerif.AwaitifyReuse
