/-!
# ExitStack (asyncstdlib/contextlib.py) — model

`Impl.*` follows `ExitStack.__aexit__`, `push`, `callback`, `enter_context`, `pop_all`, `aclose`
branch by branch.  `Spec.nested` is the meaning of literally nested `async with` statements.
No Mathlib, no proofs here: this file is also compiled into the driver.
-/
namespace AsyncVerif.ExitStack

abbrev ExcId := Nat

/-- what one registered exit does when invoked -/
inductive ExitResp where
  | falsy | truthy | raise (e : ExcId)
  deriving DecidableEq, Repr

/-- a registered exit: `beh` maps the exception it is handed to its reaction.
    `isCallback`: registered through `callback(...)` — gets only its own arguments, never the
    exception, and its return value is ignored (`_aexit_callback` returns `False`). -/
structure Entry where
  id : Nat
  isCallback : Bool
  beh : Option ExcId → ExitResp

/-- how the `async with` block (or an inner statement) ended -/
inductive Outcome where
  | normal | raises (e : ExcId)
  deriving DecidableEq, Repr

def Outcome.exc : Outcome → Option ExcId
  | .normal => none
  | .raises e => some e

def Entry.run (en : Entry) (inflight : Option ExcId) : ExitResp :=
  if en.isCallback then
    match en.beh none with
    | .raise e => .raise e
    | _ => .falsy
  else en.beh inflight

/-- one record per exit invocation: which entry, and the exception it was handed -/
abbrev ExitLog := List (Nat × Option ExcId)

/-- loop state of `ExitStack.__aexit__` -/
structure LoopSt where
  exc : Option ExcId          -- exc_val
  suppress : Bool             -- suppress_exc
  reraise : Bool              -- reraise_exc
  log : ExitLog

/-- one iteration of the callback loop -/
def stepLoop (st : LoopSt) (en : Entry) : LoopSt :=
  let log := st.log ++ [(en.id, if en.isCallback then none else st.exc)]
  match en.run st.exc with
  | .truthy => { exc := none, suppress := true, reraise := false, log := log }
  | .falsy => { st with log := log }
  | .raise e => { exc := some e, suppress := st.suppress, reraise := true, log := log }

def loopInit (body : Outcome) : LoopSt :=
  { exc := body.exc, suppress := false, reraise := false, log := [] }

/-- what the enclosing `async with stack:` statement observes from `__aexit__` -/
def stOutcome (body : Outcome) (st : LoopSt) : Outcome :=
  if st.reraise && st.exc.isSome then .raises (st.exc.getD 0)          -- `raise exc_val`
  else match body with
    | .normal => .normal                                               -- return value irrelevant
    | .raises e => if st.suppress then .normal else .raises e          -- `received_exc and suppress_exc`

/-- `__aexit__(exc)` + the `async with` statement's handling of its result.
    `stack` is in registration order; the loop visits it last-registered first. -/
def implExit (stack : List Entry) (body : Outcome) : Outcome × ExitLog :=
  let st := stack.reverse.foldl stepLoop (loopInit body)
  (stOutcome body st, st.log)

/-- Specification: nested `async with e1: async with e2: ... body`; first registered = outermost -/
def nested : List Entry → Outcome → Outcome × ExitLog
  | [], body => (body, [])
  | en :: rest, body =>
    let (inner, log) := nested rest body
    let log' := log ++ [(en.id, if en.isCallback then none else inner.exc)]
    match en.run inner.exc with
    | .truthy => (.normal, log')
    | .falsy => (inner, log')
    | .raise e => (.raises e, log')

/-! ## Histories: several stacks, registration, `pop_all`, `aclose`, leaving blocks -/

inductive Op where
  /-- `push` / `callback` / successful `enter_context` on stack `sid` -/
  | register (sid : Nat) (en : Entry)
  /-- `enter_context` whose `__aenter__` raised: nothing is registered -/
  | enterFails (sid : Nat) (en : Entry) (e : ExcId)
  /-- leave an `async with stack:` block with this outcome (= `__aexit__`) -/
  | leave (sid : Nat) (body : Outcome)
  /-- `await stack.aclose()` -/
  | aclose (sid : Nat)
  /-- `stack.pop_all()`: the callbacks move to a brand-new stack (its id = number of stacks so far) -/
  | popAll (sid : Nat)

structure Hist where
  stacks : List (List Entry)     -- index = stack id; registration order
  log : ExitLog                  -- every exit invocation so far, over all stacks
  outs : List Outcome            -- outcome of every leave/aclose so far

def Hist.init : Hist := { stacks := [[]], log := [], outs := [] }

def Hist.stack (h : Hist) (sid : Nat) : List Entry := h.stacks.getD sid []

/-- the unwinding empties the deque (`while self._exit_callbacks: pop()`) -/
def unwind (h : Hist) (sid : Nat) (body : Outcome) : Hist :=
  let r := implExit (h.stack sid) body
  { stacks := h.stacks.set sid [], log := h.log ++ r.2, outs := h.outs ++ [r.1] }

def step (h : Hist) : Op → Hist
  | .register sid en => { h with stacks := h.stacks.set sid (h.stack sid ++ [en]) }
  | .enterFails _ _ _ => h
  | .leave sid body => unwind h sid body
  | .aclose sid => unwind h sid .normal
  | .popAll sid =>
    if sid < h.stacks.length then
      { h with stacks := (h.stacks.set sid []) ++ [h.stack sid] }
    else h

def runOps (ops : List Op) : Hist := ops.foldl step Hist.init

end AsyncVerif.ExitStack
