import AsyncVerif.Machines.Cleanup
/-!
# `chain` as an object (`asyncstdlib/itertools.py: class chain`) — model

The S1 models of `chain` (`Proofs/Chain.lean`, `Proofs/ChainCancel.lean`) follow the generator
`_chain_iterator` only.  This machine models the OBJECT around it:

* `chain.__init__(*iterables)`: `_iterator = _chain_iterator(iterables)` (not started) and
  `_owned_iterators = tuple(it for it in iterables if isinstance(it, AsyncIterator) and
  hasattr(it, "aclose"))`, computed ONCE (`ownedOf`, `init`).
* `chain.from_iterable(iterable)`: `cls(_iterables=iterable)`, so `iterables = ()` and nothing is
  owned.  The outer iterable is a plain sequence (tuple/list) of the arguments.
* `chain.__anext__`: `self._iterator.__anext__()` (`next`: ONE send of the task that awaits it; it
  runs to the next suspension of a user iterator or to the item / StopAsyncIteration / exception).
* `chain.aclose`: `try: await close_all(self._owned_iterators) finally: await
  self._iterator.aclose()` (`aclose`, with `closeOwned` = `_core.close_all` line by line and
  `genAclose` = what CPython's `aclose()` does to the async generator in each of its states).
* a cancellation thrown into the task while it is suspended inside a pull (`cancel`).

The generator `_chain_iterator`:
```
async with ScopedIter(any_iterables) as iterables:      # library's own wrapper: no user event
    async for iterable in iterables:                     # `advance`
        async with ScopedIter(iterable) as iterator:     # `Scope.open` … `leaveScope`
            async for item in iterator:                  # `continuePull` / `replyPull`
                yield item                               # `Pc.suspendedAtYield`
```

User iterators are the twins of the instrumented class-based sources of the harness
(`world.AObjSource`): `__anext__` first suspends `susp` times, then logs `pull`, then answers —
StopAsyncIteration (`end_`) when its items are used up or its `aclose` was invoked before
(`dead`), else the next item; `aclose` logs `close`, marks the iterator dead, and then returns or
raises (`CloseBeh`); `aclose` itself never suspends.

No Mathlib, no proofs here: this file is also compiled into the driver.
-/
namespace AsyncVerif.ChainObj

abbrev Val := Nat
abbrev ExcId := Nat

/-- what an argument of `chain(...)` / an element of the iterable of `from_iterable` is -/
inductive Kind where
  /-- an async ITERATOR (`__aiter__` returns itself) with an `aclose`: owned when positional -/
  | asyncIteratorWithClose
  /-- an async iterator without `aclose`: never closed by anyone -/
  | asyncIteratorNoClose
  /-- an async ITERABLE that is not an iterator: `__aiter__` gives a fresh iterator (with
      `aclose`) that the chain creates itself, so only the chain can close it -/
  | reiterableAsync
  /-- a synchronous iterable: the chain wraps it in its own `_aiter_sync` generator; pulls
      never suspend, closing the wrapper is not visible to the user and never raises -/
  | syncIterable
  deriving DecidableEq, Repr

/-- what the user's `aclose()` does after logging the close: return or raise `e` -/
inductive CloseBeh where
  | ok
  | raises (e : ExcId)
  deriving DecidableEq, Repr

def CloseBeh.exc : CloseBeh → Option ExcId
  | .ok => none
  | .raises e => some e

/-- the same behaviour in the vocabulary of `Machines/Cleanup.lean` -/
def CloseBeh.toCleanup : CloseBeh → Cleanup.CloseBeh
  | .ok => .ok
  | .raises e => .raises e

/-- argument descriptor -/
structure Arg where
  kind : Kind
  items : List Val
  /-- number of suspensions of every `__anext__` call (ignored for `syncIterable`) -/
  susp : Nat
  close : CloseBeh
  deriving DecidableEq, Repr

inductive Mode where
  | positional
  | fromIterable
  deriving DecidableEq, Repr

/-- `isinstance(it, AsyncIterator) and hasattr(it, "aclose")` -/
def Arg.ownable (a : Arg) : Bool := a.kind == .asyncIteratorWithClose

/-- the inner iterator is made by the chain itself (`aiter(iterable)` is not `iterable`) -/
def Arg.createdByChain (a : Arg) : Bool :=
  a.kind == .reiterableAsync || a.kind == .syncIterable

/-- `ScopedIter.__aexit__` finds an `aclose` whose invocation the user can see -/
def Arg.closeVisible (a : Arg) : Bool :=
  a.kind == .asyncIteratorWithClose || a.kind == .reiterableAsync

/-- suspensions of one pull -/
def Arg.pullSusp (a : Arg) : Nat :=
  match a.kind with
  | .syncIterable => 0
  | _ => a.susp

/-- what `ScopedIter.__aexit__` awaits for this argument, as a `Cleanup.CloseBeh`
    (`noAclose`: `except AttributeError: pass`; the `_aiter_sync` wrapper closes silently) -/
def Arg.scopeBeh (a : Arg) : Cleanup.CloseBeh :=
  match a.kind with
  | .asyncIteratorNoClose => .noAclose
  | .syncIterable => .ok
  | _ => a.close.toCleanup

/-- user-visible events, in order -/
inductive Ev where
  /-- `__anext__` / `__next__` of argument `i` answers (after its suspensions) -/
  | pull (i : Nat)
  | item (v : Val)
  /-- the pull of argument `i` answered StopAsyncIteration / StopIteration -/
  | end_ (i : Nat)
  /-- `aclose()` of (the iterator of) argument `i` was invoked -/
  | close (i : Nat)
  deriving DecidableEq, Repr

/-- answer of one operation -/
inductive Out where
  | item (v : Val)
  /-- the task is suspended inside `__anext__` of argument `i` -/
  | susp (i : Nat)
  /-- StopAsyncIteration -/
  | end_
  /-- `aclose()` returned -/
  | closed
  /-- RuntimeError "aclose(): asynchronous generator is already running" -/
  | busy
  | raised (e : ExcId)
  /-- the CancelledError came back out -/
  | cancelled
  /-- `cancel` while the task is not inside the chain: nothing to deliver it to -/
  | idle
  deriving DecidableEq, Repr

def Out.isSusp : Out → Bool
  | .susp _ => true
  | _ => false

/-- where the generator is relative to `async with ScopedIter(iterable)` of one argument -/
inductive Scope where
  | untouched
  | open
  | left
  deriving DecidableEq, Repr

/-- who invoked an `aclose`: `close_all(self._owned_iterators)` or `ScopedIter.__aexit__` -/
inductive Closer where
  | owner
  | scope
  deriving DecidableEq, Repr

/-- per-argument status: `untouched | open | left`, and by whom (the iterator of) the argument
    was closed so far, in order -/
structure ArgSt where
  scope : Scope
  closedBy : List Closer
  deriving DecidableEq, Repr

/-- state of the async generator `self._iterator` -/
inductive Pc where
  | unstarted
  /-- suspended at `yield item` inside the scope of argument `idx` -/
  | suspendedAtYield (idx : Nat)
  /-- the task is suspended inside `__anext__` of argument `idx`; `k` = suspensions taken -/
  | runningInPull (idx k : Nat)
  /-- finished, failed or closed -/
  | done
  deriving DecidableEq, Repr

/-- the argument whose scope the generator is in -/
def Pc.current : Pc → Option Nat
  | .suspendedAtYield idx => some idx
  | .runningInPull idx _ => some idx
  | _ => none

def Pc.running : Pc → Bool
  | .runningInPull _ _ => true
  | _ => false

structure State where
  /-- `self._owned_iterators` (argument positions) -/
  owned : List Nat
  pc : Pc
  status : List ArgSt
  /-- remaining items of the argument whose scope is open -/
  cur : List Val
  log : List Ev
  deriving DecidableEq, Repr

/-- positions of the positional arguments that are async iterators with an `aclose` -/
def ownedOf : Mode → List Arg → List Nat
  | .positional, args => (args.zipIdx.filter (·.1.ownable)).map (·.2)
  | .fromIterable, _ => []

/-- `chain(*args)` / `chain.from_iterable(args)` -/
def init (mode : Mode) (args : List Arg) : State :=
  { owned := ownedOf mode args
    pc := .unstarted
    status := List.replicate args.length { scope := .untouched, closedBy := [] }
    cur := []
    log := [] }

def State.emit (st : State) (e : Ev) : State := { st with log := st.log ++ [e] }

def State.setScope (st : State) (i : Nat) (s : Scope) : State :=
  { st with status := st.status.modify i (fun a => { a with scope := s }) }

def State.addCloser (st : State) (i : Nat) (c : Closer) : State :=
  { st with status := st.status.modify i (fun a => { a with closedBy := a.closedBy ++ [c] }) }

/-- an `aclose` of argument `i`'s iterator was invoked before (`AObjSource.dead`) -/
def State.dead (st : State) (i : Nat) : Bool :=
  match st.status[i]? with
  | some s => !s.closedBy.isEmpty
  | none => false

/-- `ScopedIter.__aexit__` of argument `idx`: no `aclose` → nothing; else `await aclose()`.
    Returns the exception the `aclose()` raised. -/
def leaveScope (a : Arg) (idx : Nat) (st : State) : State × Option ExcId :=
  let st := st.setScope idx .left
  match a.kind with
  | .asyncIteratorNoClose => (st, none)
  | .syncIterable => (st.addCloser idx .scope, none)
  | _ => ((st.addCloser idx .scope).emit (.close idx), a.close.exc)

inductive PullRes where
  | item (v : Val)
  /-- StopAsyncIteration, and the scope was left without an exception -/
  | exhausted
  /-- StopAsyncIteration, and `aclose()` in `ScopedIter.__aexit__` raised `e` -/
  | failed (e : ExcId)
  deriving DecidableEq, Repr

/-- the pull of argument `idx` answers (its suspensions are over) -/
def replyPull (a : Arg) (idx : Nat) (st : State) : State × PullRes :=
  let st := st.emit (.pull idx)
  match (if st.dead idx then [] else st.cur) with
  | v :: r => ({ st.emit (.item v) with cur := r }, .item v)
  | [] =>
    match leaveScope a idx (st.emit (.end_ idx)) with
    | (st, some e) => (st, .failed e)
    | (st, none) => (st, .exhausted)

/-- `async for iterable in iterables:` from argument `idx` on (`rest` = the arguments from
    `idx`): enter the scope, pull; an exhausted argument is left and the next one entered in
    the same send. -/
def advance : List Arg → Nat → State → State × Out
  | [], _, st => ({ st with pc := .done }, .end_)
  | a :: rest, idx, st =>
    let st := { st.setScope idx .open with cur := a.items }
    if 0 < a.pullSusp then ({ st with pc := .runningInPull idx 1 }, .susp idx)
    else
      match replyPull a idx st with
      | (st, .item v) => ({ st with pc := .suspendedAtYield idx }, .item v)
      | (st, .failed e) => ({ st with pc := .done }, .raised e)
      | (st, .exhausted) => advance rest (idx + 1) st

/-- inside `iterator.__anext__()` of argument `idx` after `k` suspensions -/
def continuePull (args : List Arg) (a : Arg) (idx k : Nat) (st : State) : State × Out :=
  if k < a.pullSusp then ({ st with pc := .runningInPull idx (k + 1) }, .susp idx)
  else
    match replyPull a idx st with
    | (st, .item v) => ({ st with pc := .suspendedAtYield idx }, .item v)
    | (st, .failed e) => ({ st with pc := .done }, .raised e)
    | (st, .exhausted) => advance (args.drop (idx + 1)) (idx + 1) st

/-- one send of the task inside `await chain.__anext__()` -/
def next (args : List Arg) (st : State) : State × Out :=
  match st.pc with
  | .done => (st, .end_)
  | .unstarted => advance args 0 st
  | .suspendedAtYield idx =>
    match args[idx]? with
    | some a => continuePull args a idx 0 st
    | none => (st, .end_)
  | .runningInPull idx k =>
    match args[idx]? with
    | some a => continuePull args a idx k st
    | none => (st, .end_)

/-- one iteration of `close_all`: `await iterator.aclose()` for owned argument `i`,
    `except BaseException as exc: failure = exc` -/
def closeOne (args : List Arg) (sf : State × Option ExcId) (i : Nat) : State × Option ExcId :=
  match args[i]? with
  | some a => ((sf.1.addCloser i .owner).emit (.close i), Cleanup.replaceBy a.close.exc sf.2)
  | none => sf

/-- `await close_all(self._owned_iterators)`: final state and `failure` -/
def closeOwned (args : List Arg) (owned : List Nat) (st : State) : State × Option ExcId :=
  owned.foldl (closeOne args) (st, none)

inductive GenClose where
  | ok
  | raised (e : ExcId)
  | busy
  deriving DecidableEq, Repr

/-- `await self._iterator.aclose()`.  Not started: marked closed, no code runs.  Suspended at
    the `yield`: GeneratorExit is thrown there, the scope of the current argument is left
    (`ScopedIter.__aexit__`), then the outer one.  Finished: nothing.  Running (the task is
    suspended inside a pull): CPython raises RuntimeError at once, the generator is untouched. -/
def genAclose (args : List Arg) (st : State) : State × GenClose :=
  match st.pc with
  | .unstarted => ({ st with pc := .done }, .ok)
  | .done => (st, .ok)
  | .runningInPull _ _ => (st, .busy)
  | .suspendedAtYield idx =>
    match args[idx]? with
    | none => ({ st with pc := .done }, .ok)
    | some a =>
      match leaveScope a idx st with
      | (st, some e) => ({ st with pc := .done }, .raised e)
      | (st, none) => ({ st with pc := .done }, .ok)

/-- `await chain.aclose()`; the exception of the `finally` clause replaces the one in flight -/
def aclose (args : List Arg) (st : State) : State × Out :=
  let r := closeOwned args st.owned st
  match genAclose args r.1 with
  | (st, .busy) => (st, .busy)
  | (st, .raised e) => (st, .raised e)
  | (st, .ok) =>
    (st, match r.2 with
         | some e => .raised e
         | none => .closed)

/-- a CancelledError is thrown into the task at its suspension inside the pull of argument
    `idx`: the user's `__anext__` lets it pass, `ScopedIter.__aexit__` closes the iterator (an
    exception raised there replaces the cancellation), the generator is finished. -/
def cancel (args : List Arg) (st : State) : State × Out :=
  match st.pc with
  | .runningInPull idx _ =>
    match args[idx]? with
    | none => ({ st with pc := .done }, .cancelled)
    | some a =>
      match leaveScope a idx st with
      | (st, some e) => ({ st with pc := .done }, .raised e)
      | (st, none) => ({ st with pc := .done }, .cancelled)
  | _ => (st, .idle)

inductive Op where
  | next
  /-- `await chain.aclose()` -/
  | aclose
  /-- `await chain.aclose()` by a second task while the first one is suspended inside a pull.
      The library code is the same (`aclose`); which branch is taken depends on `pc` only, so
      both ops share `ChainObj.aclose` and differ in the situation the caller is in. -/
  | acloseWhileRunning
  | cancel
  deriving DecidableEq, Repr

def step (args : List Arg) (st : State) : Op → State × Out
  | .next => next args st
  | .aclose => aclose args st
  | .acloseWhileRunning => aclose args st
  | .cancel => cancel args st

/-- run a list of operations; answers in order -/
def run (args : List Arg) : State → List Op → State × List Out
  | st, [] => (st, [])
  | st, op :: ops =>
    let r := step args st op
    let r' := run args r.1 ops
    (r'.1, r.2 :: r'.2)

/-- states reachable from `chain(*args)` / `chain.from_iterable(args)` -/
def reach (mode : Mode) (args : List Arg) (ops : List Op) : State :=
  (run args (init mode args) ops).1

end AsyncVerif.ChainObj
