import AsyncVerif.Machines.Decorator
/-!
# A decorating manager that is ALSO entered directly (asyncstdlib/contextlib.py) — model

    traced = ctx(...)              # `_AsyncGeneratorContextManager.__init__`: `self.gen = func(*args, **kwds)`
    @traced                        #   = generator object 0 of the store, created at construction time
    async def f(...): ...
    ...
    async with traced:             # the SAME manager object, entered directly, at any moment between
        <body>                     # the sends of the decorated calls

`ContextDecorator.__call__`'s `inner` enters `self._recreate_cm()`:

* `_AsyncGeneratorContextManager._recreate_cm` = `type(self)(*self.__recreate_args)`: a new manager
  with a new generator object per call — the decorated calls never see `self.gen`;
* `ContextDecorator._recreate_cm` = `self`: calls and the direct use run the same `__aenter__` /
  `__aexit__` methods (a new coroutine object per use; no generator anywhere).

The direct use `async with traced: <body>` is `__aenter__` / body / `__aexit__` of the manager object
itself: for a generator-based manager it drives `self.gen` = generator object 0.  It is the very same
`async with` statement as in `inner`, so the direct task is run by `Decorator.callStep` (hence
`genAdvance`, `genAenter`, `genAexit`, `plainEnterSeg`, …) on the cell of generator 0, without the
`_recreate_cm()`.

* `DOp` — one operation of the scheduler: an operation on a decorated call, or one `send` / `throw`
  on the direct task;
* `DState` — `Decorator.State` × the direct task's program counter; the events of the direct task go
  to a log of their own (`dlog`);
* `dstep` / `drun` — the heap machine with direct use;
* `soloStep` / `soloRun` — the direct task alone with its generator (specification of what the direct
  use does when nothing else runs).

No Mathlib, no proofs here: this file is also compiled into the driver.
-/
namespace AsyncVerif.Decorator

/-- one scheduler operation when the manager is also used directly -/
inductive DOp where
  | call (op : Op)             -- `send` / `throw` on the task of a decorated call
  | directSend                 -- one `send` on the task running `async with cm: <body>`
  | directThrow (x : Exc)      -- one `throw` into it
  deriving DecidableEq, Repr

structure DState where
  st : State                   -- the heap machine of the decorated calls (incl. generator object 0)
  dpc : Pc                     -- program counter of the direct task (`fresh` = never sent to)
  dlog : List LEv              -- events logged while the direct task runs — a log of its own

/-- Decoration time with a direct program `d`: the manager object `cm = ctx(...)` was created by
    `__init__`, which called the generator function: generator object 0 runs `d.gen`.
    (`d.plain` = what `__aenter__`/`__aexit__` do during the direct use of a class-based manager,
    `d.bodySusp`/`d.body` = the block under the direct `async with`.) -/
def DState.init (d : CallCfg) : DState :=
  { st := { State.init with gens := setAt State.init.gens 0 (initCell d) }, dpc := .fresh, dlog := [] }

/-- the manager state the direct task reaches: `self.gen` = generator object 0 (generator-based);
    a class-based manager has no generator -/
def directCell (gb : Bool) (d : CallCfg) (s : State) : GenCell :=
  if gb then s.gens 0 else initCell d

/-- one `send`/`throw` on the direct task: `async with cm: <body>` on the manager object itself —
    no `_recreate_cm()`; reads `self.gen` (object 0), runs to the next suspension point, writes the
    generator back; its events go to `dlog` -/
def directStep (gb : Bool) (d : CallCfg) (s : DState) (cop : COp) : DState × Out :=
  let r := callStep gb d { pc := s.dpc, cell := directCell gb d s.st } cop
  ({ st := { s.st with gens := if gb then setAt s.st.gens 0 r.1.cell else s.st.gens },
     dpc := r.1.pc,
     dlog := s.dlog ++ r.2.1 }, r.2.2)

def dstep (cfg : Cfg) (d : CallCfg) (s : DState) : DOp → DState × Out
  | .call op =>
    let r := step cfg s.st op
    ({ s with st := r.1 }, r.2)
  | .directSend => directStep cfg.generatorBased d s .resume
  | .directThrow x => directStep cfg.generatorBased d s (.cancel x)

def drunFrom (cfg : Cfg) (d : CallCfg) (s : DState) : List DOp → DState × List Out
  | [] => (s, [])
  | op :: rest =>
    let r := dstep cfg d s op
    let r' := drunFrom cfg d r.1 rest
    (r'.1, r.2 :: r'.2)

def drun (cfg : Cfg) (d : CallCfg) (dops : List DOp) : DState × List Out :=
  drunFrom cfg d (DState.init d) dops

/-! ## Erasure of one side of an interleaving -/

def DOp.isDirect : DOp → Bool
  | .call _ => false
  | _ => true

/-- the operations on decorated calls, in order (the direct ops erased) -/
def callOps : List DOp → List Op
  | [] => []
  | .call op :: rest => op :: callOps rest
  | _ :: rest => callOps rest

/-- the operations on the direct task, in order (the call ops erased) -/
def directOps : List DOp → List COp
  | [] => []
  | .call _ :: rest => directOps rest
  | .directSend :: rest => .resume :: directOps rest
  | .directThrow x :: rest => .cancel x :: directOps rest

/-- the scheduler-visible outputs of the call ops / of the direct ops of an interleaving -/
def callOuts : List DOp → List Out → List Out
  | op :: ops, o :: outs => if op.isDirect then callOuts ops outs else o :: callOuts ops outs
  | _, _ => []

def directOuts : List DOp → List Out → List Out
  | op :: ops, o :: outs => if op.isDirect then o :: directOuts ops outs else directOuts ops outs
  | _, _ => []

/-! ## The direct task alone (specification) -/

/-- the direct task with its private view: its pc and the manager's own generator; its log -/
structure Solo where
  loc : Local
  log : List LEv

def Solo.init (d : CallCfg) : Solo := { loc := { pc := .fresh, cell := initCell d }, log := [] }

def soloStep (gb : Bool) (d : CallCfg) (s : Solo) (cop : COp) : Solo × Out :=
  let r := callStep gb d s.loc cop
  ({ loc := r.1, log := s.log ++ r.2.1 }, r.2.2)

def soloRunFrom (gb : Bool) (d : CallCfg) (s : Solo) : List COp → Solo × List Out
  | [] => (s, [])
  | op :: rest =>
    let r := soloStep gb d s op
    let r' := soloRunFrom gb d r.1 rest
    (r'.1, r.2 :: r'.2)

def soloRun (gb : Bool) (d : CallCfg) (cops : List COp) : Solo × List Out :=
  soloRunFrom gb d (Solo.init d) cops

end AsyncVerif.Decorator
