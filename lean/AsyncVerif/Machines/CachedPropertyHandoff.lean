import AsyncVerif.Machines.CachedProperty
/-!
# cached_property under a "hand-off" lock — model

`asyncstdlib/functools.py`, `_FutureCachedPropertyValue._await_impl`:

    async with self._lock:
        if (stored := self._instance_value) is self:
            return await self._get_attribute()      # value = await getter; __dict__[name] = value
    return await stored

The machine of `Machines/CachedProperty.lean` treats `self._lock.__aexit__` as atomic.  Here the
user-supplied lock type is a hand-off lock: its `__aexit__` first RELEASES (the lock is free, the
next waiter may acquire) and THEN suspends `handoff` times before it returns — the releasing task
is still inside `__aexit__`, every other task may run in the meantime (arrive, acquire, look at the
slot, `del`).  Everything else — slots, placeholders, locks, getter runs, attribute access, `del` —
is the plain machine, whose definitions are reused: the state is the plain `State` plus

* `unl t = some ⟨k, _⟩`: task t is suspended inside `__aexit__`, after the release, with k further
  suspensions to come.  While `unl t` is set, `base.pc t` is the CONTINUATION of the task, i.e. the
  program counter at which it goes on once `__aexit__` has returned: `done res` when a `return
  value` / an exception is passing through the `async with` (the getter path), `done (ok v)` or
  `entered p'` for `return await stored` with the `stored` read BEFORE the release;
* ghost counters per instance, all reset by `del`: the last getter run that returned, the number of
  getter runs started, the number of getter runs that raised or were cancelled.

The store `instance.__dict__[name] = AwaitableValue(value)` is part of `_get_attribute`, i.e. it
happens inside the `async with`, BEFORE `__aexit__` releases: this is the plain machine's `complete`
(store, then release), followed here by the suspensions.  `HCfg.lateStore = true` is a MUTANT, not
the library: it performs the store only after `__aexit__` has returned (release, suspensions,
store).  It exists so that the theorems of `Properties/C12Handoff.lean` can be shown to fail for it.

No Mathlib, no proofs here: this file is also compiled into the driver.
-/
namespace AsyncVerif.CachedPropertyHandoff
open AsyncVerif.CachedProperty

/-- the environment: the plain one, the number of suspensions of the lock's `__aexit__` after it has
    released, and the mutant switch (`false` = the library) -/
structure HCfg where
  cfg : Cfg
  handoff : Nat
  lateStore : Bool := false

/-- a task inside `__aexit__` after the release -/
structure Unl where
  k : Nat                          -- suspensions still to come after the current one
  store : Option (Nat × Nat)       -- MUTANT only: the store (instance, value) still to be done
  deriving DecidableEq, Repr

structure HState where
  base : State
  unl : Nat → Option Unl
  lastOk : Nat → Option Nat        -- (ghost) instance ↦ last getter run on it that returned since the last `del`
  starts : Nat → Nat               -- (ghost) instance ↦ getter runs started on it since the last `del`
  fails : Nat → Nat                -- (ghost) instance ↦ getter runs on it that raised / were cancelled since the last `del`

def HState.init : HState :=
  { base := State.init, unl := fun _ => none, lastOk := fun _ => none, starts := fun _ => 0, fails := fun _ => 0 }

inductive HOut where
  | base (o : Out)       -- as in the plain machine
  | handoff              -- sched / cancel: the task is suspended inside `__aexit__`, the lock is already free
  deriving DecidableEq, Repr

def setUnl (s : HState) (t : Nat) (u : Option Unl) : HState :=
  { s with unl := fun t' => if t' = t then u else s.unl t' }

def bump (f : Nat → Nat) (i : Nat) : Nat → Nat := fun i' => if i' = i then f i + 1 else f i'

def setAt {α : Type} (f : Nat → α) (i : Nat) (x : α) : Nat → α := fun i' => if i' = i then x else f i'

/-- what the driver of a task sees when the task ends with this result -/
def resOut : Res → Out
  | .ok v => .ret v
  | .failed r => .raised r
  | .cancelled => .cancelled

/-- `__aexit__` returns: the task goes on at its continuation `base.pc t` — a finished task now
    delivers its result, `entered p'` keeps running.  (MUTANT: the pending store happens first.) -/
def finishExit (s : HState) (t : Nat) (store : Option (Nat × Nat)) : HState × Option HOut :=
  let b := match store with
    | some (i, r) => setSlot s.base i (some (.val r))
    | none => s.base
  let s1 := setUnl { s with base := b } t none
  match b.pc t with
  | .done res => (s1, some (.base (resOut res)))
  | _ => (s1, none)

/-- the lock has just been released by task t (`s.base` is the plain machine's state after the
    release, `base.pc t` the continuation): a hand-off lock now suspends — first of `handoff`
    suspensions —, any other lock (and `nullcontext`) returns at once -/
def exitLock (hc : HCfg) (s : HState) (t : Nat) (store : Option (Nat × Nat)) : HState × Option HOut :=
  if hc.cfg.lock && hc.handoff > 0 then (setUnl s t (some ⟨hc.handoff - 1, store⟩), some .handoff)
  else finishExit s t store

/-- one micro-step of task t; `some out` = the task suspended or finished -/
def hmicro (hc : HCfg) (s : HState) (t : Nat) : HState × Option HOut :=
  match s.unl t with
  | some ⟨k + 1, st⟩ => (setUnl s t (some ⟨k, st⟩), some .handoff)     -- next suspension inside `__aexit__`
  | some ⟨0, st⟩ => finishExit s t st                                    -- `__aexit__` returns
  | none =>
    let (b1, o) := micro hc.cfg s.base t
    match s.base.pc t with
    | .holding p =>
      if (instanceValue s.base p).2 = .ph p then
        -- `return await self._get_attribute()`: a getter run starts (plain step)
        ({ s with base := b1, starts := bump s.starts (s.base.phInst p) }, o.map .base)
      else
        -- leave the `async with`: release (plain step), `__aexit__` suspends, then `return await stored`
        exitLock hc { s with base := b1 } t none
    | .getter p r 0 =>
      let i := s.base.phInst p
      if hc.cfg.ok r then
        if hc.lateStore then
          -- MUTANT: release, suspensions, and only then `__dict__[name] = AwaitableValue(r)`
          exitLock hc { s with base := setPc (setRunSt (release hc.cfg s.base p) r .returned) t (.done (.ok r)),
                               lastOk := setAt s.lastOk i (some r) } t (some (i, r))
        else
          -- the getter returned, `_get_attribute` stored, `__aexit__` released (plain `complete`); now it suspends
          exitLock hc { s with base := b1, lastOk := setAt s.lastOk i (some r) } t none
      else
        -- the getter raised; `__aexit__` released (plain `complete`); now it suspends, the exception is pending
        exitLock hc { s with base := b1, fails := bump s.fails i } t none
    | _ => ({ s with base := b1 }, o.map .base)

/-- micro-steps until the task suspends or finishes -/
def hschedN (hc : HCfg) : Nat → HState → Nat → HState × HOut
  | 0, s, _ => (s, .base .stuck)
  | n + 1, s, t =>
    match hmicro hc s t with
    | (s1, some o) => (s1, o)
    | (s1, none) => hschedN hc n s1 t

def hsched (hc : HCfg) (s : HState) (t : Nat) : HState × HOut := hschedN hc schedFuel s t

/-- throw a cancellation into task t at its current suspension point -/
def hcancel (hc : HCfg) (s : HState) (t : Nat) : HState × HOut :=
  match s.unl t with
  | some _ =>
    -- raised at the suspension inside `__aexit__` (the lock is free already): it propagates, replacing
    -- the pending return / exception (MUTANT: the pending store is lost)
    (setUnl { s with base := setPc s.base t (.done .cancelled) } t none, .base .cancelled)
  | none =>
    let (b1, o) := cancel hc.cfg s.base t
    match s.base.pc t with
    | .getter p _ _ =>
      -- the getter raises the cancellation; `__aexit__` releases (plain `cancel`) and then suspends
      let s1 : HState := { s with base := b1, fails := bump s.fails (s.base.phInst p) }
      if hc.cfg.lock && hc.handoff > 0 then (setUnl s1 t (some ⟨hc.handoff - 1, none⟩), .handoff)
      else (s1, .base o)
    | _ => ({ s with base := b1 }, .base o)

def hstep (hc : HCfg) (s : HState) : Op → HState × HOut
  | .spawn i => ({ s with base := (step hc.cfg s.base (.spawn i)).1 }, .base (step hc.cfg s.base (.spawn i)).2)
  | .respawn t => ({ s with base := (step hc.cfg s.base (.respawn t)).1 }, .base (step hc.cfg s.base (.respawn t)).2)
  | .sched t => hsched hc s t
  | .cancel t => hcancel hc s t
  | .del i =>
    match s.base.slot i with
    | none => (s, .base .attrError)
    | some _ =>
      ({ s with base := delSlot s.base i, lastOk := setAt s.lastOk i none, starts := setAt s.starts i 0,
                fails := setAt s.fails i 0 }, .base .deleted)

def hexec (hc : HCfg) : HState → List Op → HState
  | s, [] => s
  | s, op :: ops => hexec hc (hstep hc s op).1 ops

def houts (hc : HCfg) : HState → List Op → List HOut
  | _, [] => []
  | s, op :: ops => (hstep hc s op).2 :: houts hc (hstep hc s op).1 ops

/-- the state reached from the initial state by `ops` -/
def hreach (hc : HCfg) (ops : List Op) : HState := hexec hc HState.init ops

end AsyncVerif.CachedPropertyHandoff
