import AsyncVerif.Proofs.ExitStack
/-!
# C14 — ExitStack unwinds like nested async-with; each exit runs exactly once

Property theorems only.  Model: `Machines/ExitStack.lean` (`implExit` = the loop of
`ExitStack.__aexit__`, `nested` = literally nested `async with`, `step` = history machine).
-/
namespace AsyncVerif.ExitStack

/-- Unwinding an ExitStack has the outcome (which exception object propagates, or suppression)
    and the exit log (which exit was handed which in-flight exception, in which order) of the
    equivalent nested `async with` statements — for every stack, every behaviour of every entry
    and every block outcome. -/
theorem C14_nested (stack : List Entry) (body : Outcome) :
    implExit stack body = nested stack body := by
  have := (loop_nested body stack).2
  simpa [implExit] using this

/-- Exits are called in reverse registration order, each exactly once per unwind. -/
theorem C14_order (stack : List Entry) (body : Outcome) :
    (implExit stack body).2.map Prod.fst = (stack.map (·.id)).reverse := by
  simp only [implExit, foldl_log, loopInit, List.map_nil, List.nil_append, List.map_reverse]

/-- A callback never sees the exception and can never suppress: replacing its non-raising
    reaction by anything else changes nothing. -/
theorem C14_callback_cannot_suppress (en : Entry) (h : en.isCallback = true) (infl : Option ExcId) :
    en.run infl ≠ .truthy := by
  unfold Entry.run; simp only [h, if_true]; split <;> simp

/-- Every registered exit runs at most once over the whole history (any mix of registering,
    leaving blocks, `aclose`, `pop_all`, unwinding again), provided registrations are distinct
    objects (distinct ids). -/
theorem C14_once (ops : List Op) (hreg : (regIds ops).Nodup) :
    ((runOps ops).log.map Prod.fst).Nodup := by
  have := HInv.run ops Hist.init [] HInv.init hreg (by simp)
  exact this.logNodup

/-- Only registered exits ever run: in particular a manager whose enter failed is never exited. -/
theorem C14_only_registered (ops : List Op) (hreg : (regIds ops).Nodup) (x : Nat)
    (hx : x ∈ (runOps ops).log.map Prod.fst) : x ∈ regIds ops := by
  have := HInv.run ops Hist.init [] HInv.init hreg (by simp)
  simpa using this.known x (Or.inl hx)

/-- An exit that has run is on no stack any more (so a second `aclose`, or `aclose` after the
    block, cannot run it again), and no exit is on two stacks (after `pop_all` the original stack
    does not hold it). -/
theorem C14_ran_is_gone (ops : List Op) (hreg : (regIds ops).Nodup) (sid : Nat) (x : Nat)
    (hx : x ∈ ids ((runOps ops).stack sid)) :
    x ∉ (runOps ops).log.map Prod.fst ∧ ∀ sid', sid' ≠ sid → x ∉ ids ((runOps ops).stack sid') := by
  have := HInv.run ops Hist.init [] HInv.init hreg (by simp)
  exact ⟨this.logStack sid x hx, fun sid' hne => this.stackStack sid sid' x (Ne.symm hne) hx⟩

/-- `pop_all` empties the original stack and hands the very same exits to the new one. -/
theorem C14_popAll (h : Hist) (sid : Nat) (hl : sid < h.stacks.length) :
    (step h (.popAll sid)).stack sid = [] ∧
    (step h (.popAll sid)).stack h.stacks.length = h.stack sid := by
  constructor
  · rw [stack_popAll h sid sid hl]; simp
  · rw [stack_popAll h sid _ hl]
    have : ¬ (h.stacks.length = sid) := by omega
    simp [this]

/-- After an unwind the stack is empty: unwinding again runs nothing. -/
theorem C14_unwind_again (h : Hist) (sid : Nat) (b1 b2 : Outcome) :
    (unwind (unwind h sid b1) sid b2).log = (unwind h sid b1).log := by
  have : (unwind h sid b1).stack sid = [] := by rw [stack_unwind]; simp
  have h2 : (unwind (unwind h sid b1) sid b2).log
      = (unwind h sid b1).log ++ (implExit ((unwind h sid b1).stack sid) b2).2 := rfl
  rw [h2, this]; simp [implExit, loopInit]

/-! Non-vacuity: a concrete three-entry stack with a suppressing manager, a raising one and a
    callback; and a history that pops, closes twice and leaves. -/
private def eSupp : Entry := ⟨1, false, fun _ => .truthy⟩
private def eRaise : Entry := ⟨2, false, fun o => match o with | some _ => .raise 77 | none => .falsy⟩
private def eCb : Entry := ⟨3, true, fun _ => .truthy⟩

example : implExit [eSupp, eRaise, eCb] (.raises 5) = (.normal, [(3, none), (2, some 5), (1, some 77)]) := by
  decide
example : (regIds [.register 0 eSupp, .register 0 eRaise, .popAll 0, .aclose 0, .register 0 eCb,
    .leave 1 (.raises 5), .aclose 1, .aclose 0]).Nodup := by decide
example : (runOps [.register 0 eSupp, .register 0 eRaise, .popAll 0, .aclose 0, .register 0 eCb,
    .leave 1 (.raises 5), .aclose 1, .aclose 0]).log = [(2, some 5), (1, some 77), (3, none)] := by
  decide

end AsyncVerif.ExitStack
