import AsyncVerif.Proofs.Faithful
/-!
# C17 — the library suspends only where user awaitables suspend  (partial by nature)

In the model a library operation can interact with the outside world only through the primitives;
the only primitives behind which user code runs are `pull` (a source's `__anext__`) and `call`
(a user callable).  So the sequence of objects that reach the event loop during a run is a
function of the visible event log: the tokens of the user awaitable behind each `pull` / `call`
event, in order (`loopTrace`).  What this file proves is therefore structural; the part that
carries weight for the *code* is the correspondence, which hand-drives the real library and
compares the objects actually reaching the driver with `loopTrace` of the model's log, token
by token, and throws into every suspension point.  A loop-specific await hidden in a path no
enumerated case executes is invisible to both.
-/
namespace AsyncVerif

/-- what a user awaitable yields to the loop: which source pull / callable invocation, which suspension -/
inductive Tok where
  | src (s k j : Nat) | fn (f n j : Nat)
  deriving DecidableEq, Repr

/-- how often each source suspends per pull, each callable per invocation -/
structure SuspCfg where
  src : Nat → Nat
  fn : Nat → Nat

/-- the loop channel determined by a visible log (`pulls`/`calls` count earlier uses) -/
def loopTraceAux (c : SuspCfg) : List Ev → (Nat → Nat) → (Nat → Nat) → List Tok
  | [], _, _ => []
  | .pull s :: r, pulls, calls =>
    (List.range (c.src s)).map (Tok.src s (pulls s)) ++
      loopTraceAux c r (fun i => if i = s then pulls s + 1 else pulls i) calls
  | .call f _ :: r, pulls, calls =>
    (List.range (c.fn f)).map (Tok.fn f (calls f)) ++
      loopTraceAux c r pulls (fun i => if i = f then calls f + 1 else calls i)
  | _ :: r, pulls, calls => loopTraceAux c r pulls calls

def loopTrace (c : SuspCfg) (vis : List Ev) : List Tok := loopTraceAux c vis (fun _ => 0) (fun _ => 0)

theorem loopTraceAux_sync (c : SuspCfg) (hs : ∀ s, c.src s = 0) (hf : ∀ f, c.fn f = 0) (vis : List Ev) :
    ∀ p q, loopTraceAux c vis p q = [] := by
  induction vis with
  | nil => intro p q; rfl
  | cons ev r ih => intro p q; cases ev <;> simp [loopTraceAux, hs, hf, ih]

/-- With only synchronous arguments (nothing suspends) no operation ever reaches the loop. -/
theorem C17_sync_arguments_never_suspend (c : SuspCfg) (hs : ∀ s, c.src s = 0) (hf : ∀ f, c.fn f = 0)
    (vis : List Ev) : loopTrace c vis = [] := loopTraceAux_sync c hs hf vis _ _

theorem loopTraceAux_mem (c : SuspCfg) (t : Tok) (vis : List Ev) :
    ∀ p q, t ∈ loopTraceAux c vis p q →
    (∃ s k j, t = .src s k j ∧ Ev.pull s ∈ vis ∧ j < c.src s) ∨
    (∃ f n j args, t = .fn f n j ∧ Ev.call f args ∈ vis ∧ j < c.fn f) := by
  induction vis with
  | nil => intro p q ht; simp [loopTraceAux] at ht
  | cons ev r ih =>
    intro p q ht
    have lift : ((∃ s k j, t = .src s k j ∧ Ev.pull s ∈ r ∧ j < c.src s) ∨
        (∃ f n j args, t = .fn f n j ∧ Ev.call f args ∈ r ∧ j < c.fn f)) →
        ((∃ s k j, t = .src s k j ∧ Ev.pull s ∈ ev :: r ∧ j < c.src s) ∨
        (∃ f n j args, t = .fn f n j ∧ Ev.call f args ∈ ev :: r ∧ j < c.fn f)) := by
      intro h
      rcases h with ⟨s, k, j, h1, h2, h3⟩ | ⟨f, n, j, args, h1, h2, h3⟩
      · exact Or.inl ⟨s, k, j, h1, List.mem_cons_of_mem _ h2, h3⟩
      · exact Or.inr ⟨f, n, j, args, h1, List.mem_cons_of_mem _ h2, h3⟩
    cases ev with
    | pull s =>
      simp only [loopTraceAux, List.mem_append, List.mem_map, List.mem_range] at ht
      rcases ht with ⟨j, hj, rfl⟩ | ht
      · exact Or.inl ⟨s, p s, j, rfl, List.mem_cons_self, hj⟩
      · exact lift (ih _ _ ht)
    | call f args =>
      simp only [loopTraceAux, List.mem_append, List.mem_map, List.mem_range] at ht
      rcases ht with ⟨j, hj, rfl⟩ | ht
      · exact Or.inr ⟨f, q f, j, args, rfl, List.mem_cons_self, hj⟩
      · exact lift (ih _ _ ht)
    | _ => exact lift (ih _ _ (by simpa [loopTraceAux] using ht))

/-- Every token that reaches the loop belongs to a user awaitable that the log shows being invoked. -/
theorem C17_every_token_is_a_user_token (c : SuspCfg) (vis : List Ev) (t : Tok) (ht : t ∈ loopTrace c vis) :
    (∃ s k j, t = .src s k j ∧ Ev.pull s ∈ vis ∧ j < c.src s) ∨
    (∃ f n j args, t = .fn f n j ∧ Ev.call f args ∈ vis ∧ j < c.fn f) :=
  loopTraceAux_mem c t vis _ _ ht

/-- An exception thrown in at a suspension point makes the suspended user awaitable raise it; by
    `Faithful` (C06) that very exception is then what the operation raises, and nothing else is used. -/
theorem C17_thrown_exception_surfaces {α : Type} {m : M α} (h : Faithful m) (w : World) (e : Nat)
    (he : (m w).1 = .error (.user e)) :
    ∃ pre ev, (m w).2.vis = w.vis ++ pre ++ [ev] ∧ isFault e ev = true := by
  obtain ⟨new, hv, hr⟩ := h.run w
  rcases hr with ⟨_, hne⟩ | ⟨pre, e', ev, hnew, hfe, _, hr⟩
  · exact absurd he (hne e)
  · rw [hr] at he
    have : e' = e := by injection he with he; injection he
    subst this
    exact ⟨pre, ev, by rw [hv, hnew, List.append_assoc], hfe⟩

example : loopTrace ⟨fun _ => 2, fun _ => 1⟩ [.pull 0, .item 0 (.int 1), .call 0 [.int 1], .ret 0 (.int 1), .pull 0, .endd 0]
    = [.src 0 0 0, .src 0 0 1, .fn 0 0 0, .src 0 1 0, .src 0 1 1] := by decide

end AsyncVerif
