import AsyncVerif.Proofs.DecoratorDirect
import AsyncVerif.Properties.C15
/-!
# C15 (direct use) — the decorating manager object is also entered directly

Property theorems only.  Model: `Machines/DecoratorDirect.lean` (on top of `Machines/Decorator.lean`).

* `drun cfg d dops` — the heap machine of `Machines/Decorator.lean` plus ONE extra task running
  `async with cm: <body>` on the decorating manager object `cm` itself (`d : CallCfg` scripts the
  generator the manager was constructed with = generator object 0, the `__aenter__`/`__aexit__` of
  a class-based manager during the direct use, and the body of the block).  `DOp.call op` = an
  operation on a decorated call, `DOp.directSend` / `DOp.directThrow x` = one `send` / `throw` on the
  direct task.  The direct task's events go to a log of their own (`dlog`).
* `run cfg (callOps dops)` — the `Decorator` machine on the interleaving with the direct ops erased.
* `soloRun gb d (directOps dops)` — the direct task alone, with the call ops erased.

All statements are for every configuration, every direct program `d` and every interleaving
`dops : List DOp` (direct ops at arbitrary points between the operations of the decorated calls, any
cancellations on either side), by induction over `dops`.
-/
namespace AsyncVerif.Decorator

/-- **Direct use is invisible to the decorated calls.** For every configuration, every direct
    program and every interleaving: the `Decorator.State` component reached — event log of the
    calls, program counters and generator references of all calls, number of generator objects,
    and every generator object of index ≥ 1 — is exactly the one the `Decorator` machine reaches on
    the call ops alone, and the scheduler sees the same outputs for the call ops.  Erasing the
    direct ops changes nothing for the decorated calls. -/
theorem C15_direct_use_invisible (cfg : Cfg) (d : CallCfg) (dops : List DOp) :
    let s := (drun cfg d dops).1.st
    let t := (run cfg (callOps dops)).1
    s.log = t.log ∧ s.calls = t.calls ∧ s.ngens = t.ngens ∧ (∀ g, 1 ≤ g → s.gens g = t.gens g) ∧
    callOuts dops (drun cfg d dops).2 = (run cfg (callOps dops)).2 := by
  obtain ⟨hm, ho, _⟩ := decompose_run cfg d dops
  obtain ⟨x, hx⟩ := hm.st
  refine ⟨by rw [hx]; rfl, by rw [hx]; rfl, by rw [hx]; rfl, ?_, ho⟩
  intro g hg
  rw [hx]
  exact patch_gens_pos _ _ (by omega)

/-- **The decorated calls are invisible to the direct use.** Symmetrically: program counter and
    event log of the direct task, the scheduler-visible outputs of the direct ops, and (for a
    generator-based manager) the manager's own generator object 0 are exactly those of the direct
    task run alone on the direct ops — erasing the call ops changes nothing for the direct use. -/
theorem C15_direct_task_unaffected (cfg : Cfg) (d : CallCfg) (dops : List DOp) :
    let s := (drun cfg d dops).1
    let a := (soloRun cfg.generatorBased d (directOps dops)).1
    s.dpc = a.loc.pc ∧ s.dlog = a.log ∧
    (cfg.generatorBased = true → s.st.gens 0 = a.loc.cell) ∧
    directOuts dops (drun cfg d dops).2 = (soloRun cfg.generatorBased d (directOps dops)).2 := by
  obtain ⟨hm, _, ho⟩ := decompose_run cfg d dops
  refine ⟨by rw [hm.loc], hm.log.symm, ?_, ho⟩
  intro hgb
  rw [hm.loc]
  simp [directCell, hgb]

/-- **The direct task only ever touches generator 0; no decorated call ever touches generator 0.**
    In every state `s` reached by an interleaving:
    (a) an operation on the direct task changes nothing of the heap machine except (at most)
        generator object 0 — call log, call states, number of generators and every generator of
        index ≠ 0 are untouched, and for a class-based manager no generator at all is touched;
    (b) an operation on a decorated call leaves generator object 0, and the direct task's program
        counter and log, untouched;
    (c) no call holds a reference to generator 0, and no event of a call was logged by generator 0. -/
theorem C15_direct_uses_only_gen0 (cfg : Cfg) (d : CallCfg) (dops : List DOp) :
    let s := (drun cfg d dops).1
    (∀ dop, dop.isDirect = true →
      let s' := (dstep cfg d s dop).1
      s'.st.log = s.st.log ∧ s'.st.calls = s.st.calls ∧ s'.st.ngens = s.st.ngens ∧
      (∀ g, g ≠ 0 → s'.st.gens g = s.st.gens g) ∧
      (cfg.generatorBased = false → s'.st.gens = s.st.gens)) ∧
    (∀ op,
      let s' := (dstep cfg d s (.call op)).1
      s'.st.gens 0 = s.st.gens 0 ∧ s'.dpc = s.dpc ∧ s'.dlog = s.dlog) ∧
    (∀ c, (s.st.calls c).gid ≠ some 0) ∧
    (∀ e ∈ s.st.log, e.gen ≠ some 0) := by
  obtain ⟨hm, _, _⟩ := decompose_run cfg d dops
  obtain ⟨x, hx⟩ := hm.st
  have hrel := rel_reach cfg (callOps dops)
  have hgid : ∀ c, (((drun cfg d dops).1).st.calls c).gid ≠ some 0 := by
    intro c hc
    rw [hx] at hc
    have := (hrel.own c 0 hc).1
    omega
  refine ⟨?_, ?_, hgid, ?_⟩
  · intro dop hdop
    obtain ⟨cop, _, _, hstep⟩ := dstep_direct cfg d (drun cfg d dops).1 dop hdop
    simp only [hstep, directStep]
    refine ⟨trivial, trivial, trivial, ?_, ?_⟩
    · intro g hg
      cases cfg.generatorBased with
      | false => rfl
      | true => simp [setAt, hg]
    · intro hgb
      simp [hgb]
  · intro op
    have hs := step_patch (cfg := cfg) (own_of_rel hrel) op x
    simp only [dstep, hx, hs, patch_gens0, and_self]
  · intro e he hgen
    rw [hx] at he
    have ht := hrel.tagged e he
    rw [hgen] at ht
    have := (hrel.own e.call 0 ht.symm).1
    omega

/-- **Every decorated call is paired, also when the manager is used directly in between**
    (`C15_paired` for runs with direct use): under every interleaving with the direct task, the
    events of each decorated call form a run of the per-call specification automaton — enter before
    body, body only in an established context, exit after the body and handed exactly the body's
    exception, no body/exit after a failed enter, result `combine (body outcome) (exit answer)` —
    ending in the state that corresponds to the call's program counter. -/
theorem C15_direct_paired (cfg : Cfg) (d : CallCfg) (dops : List DOp) (c : Nat) :
    specFrom .init (proj c (drun cfg d dops).1.st.log) =
      some (absSt ((drun cfg d dops).1.st.calls c).pc) := by
  obtain ⟨h1, h2, _⟩ := C15_direct_use_invisible cfg d dops
  rw [h1, h2]
  exact C15_paired cfg (callOps dops) c

/-- **Each call gets its own generator, also when the manager is used directly in between**
    (`C15_fresh_generator` for runs with direct use): a generator reference held by a call points to
    an existing object created after decoration time (index ≥ 1); two different calls never hold the
    same generator; with a generator-based manager every `enter` event of a call was logged by the
    per-call generator of index ≥ 1 that this call holds; and the manager's own generator (index 0)
    is in exactly the state the direct task alone left it in (never started as long as no direct op
    happened: `soloRun true d [] = Solo.init d`), and untouched altogether for a class-based manager. -/
theorem C15_direct_fresh_generator (cfg : Cfg) (d : CallCfg) (dops : List DOp) :
    let s := (drun cfg d dops).1.st
    (∀ c g, (s.calls c).gid = some g → 1 ≤ g ∧ g < s.ngens) ∧
    (∀ c c' g, (s.calls c).gid = some g → (s.calls c').gid = some g → c = c') ∧
    (cfg.generatorBased = true → s.gens 0 = (soloRun true d (directOps dops)).1.loc.cell) ∧
    (cfg.generatorBased = false → s.gens 0 = initCell d) ∧
    (cfg.generatorBased = true → ∀ e ∈ s.log, e.ev = .enter →
      ∃ g, 1 ≤ g ∧ e.gen = some g ∧ (s.calls e.call).gid = some g) := by
  obtain ⟨h1, h2, h3, _, _⟩ := C15_direct_use_invisible cfg d dops
  obtain ⟨f1, f2, _, f4⟩ := C15_fresh_generator cfg (callOps dops)
  obtain ⟨hm, _, _⟩ := decompose_run cfg d dops
  show _ ∧ _ ∧ _ ∧ _ ∧ _
  rw [h1, h2, h3]
  refine ⟨f1, f2, ?_, ?_, ?_⟩
  · intro hgb
    have := (C15_direct_task_unaffected cfg d dops).2.2.1 hgb
    rw [hgb] at this
    rw [← this]
  · exact hm.plain0
  · intro hgb e he hev
    obtain ⟨g, hg1, hg2⟩ := f4 hgb e he hev
    exact ⟨g, (f1 e.call g hg2).1, hg1, hg2⟩

/-- **The direct use is itself a paired context, whatever the decorated calls do meanwhile.** The
    events of the direct task (its separate log) form a run of the same specification automaton,
    ending in the state that corresponds to the direct task's program counter: the manager object is
    entered, the block runs in the established context, the exit is handed the block's exception. -/
theorem C15_direct_task_paired (cfg : Cfg) (d : CallCfg) (dops : List DOp) :
    specFrom .init (drun cfg d dops).1.dlog = some (absSt (drun cfg d dops).1.dpc) := by
  obtain ⟨h1, h2, _⟩ := C15_direct_task_unaffected cfg d dops
  rw [h1, h2]
  exact (soloInv_run (directOps dops) (soloInv_init cfg.generatorBased d)).acc

/-- **Decorated calls still refine the private-manager machine under direct use**
    (`C15_refines_private` for runs with direct use): outputs of the call ops, the calls' event log
    and the calls' program counters equal those of the specification machine in which every call
    privately owns its manager and no direct task exists. -/
theorem C15_direct_refines_private (cfg : Cfg) (d : CallCfg) (dops : List DOp) :
    callOuts dops (drun cfg d dops).2 = (prun cfg (callOps dops)).2 ∧
    (drun cfg d dops).1.st.log.map (fun e => (e.call, e.ev)) = (prun cfg (callOps dops)).1.log ∧
    ∀ c, ((drun cfg d dops).1.st.calls c).pc = ((prun cfg (callOps dops)).1.calls c).pc := by
  obtain ⟨h1, h2, _, _, h5⟩ := C15_direct_use_invisible cfg d dops
  obtain ⟨r1, r2, r3⟩ := C15_refines_private cfg (callOps dops)
  rw [h1, h2, h5]
  exact ⟨r1, r2, r3⟩

/-- **Every call and the direct use complete, under every interleaving.** A decorated call that has
    been operated on at least `sendBound` times is done, however many direct ops were interleaved;
    and the direct task is done once it has been operated on `sendBound` times, however many call
    ops were interleaved. -/
theorem C15_direct_terminates (cfg : Cfg) (d : CallCfg) (dops : List DOp) :
    (∀ c cc, cfg.calls[c]? = some cc → sendBound cfg.generatorBased cc ≤ opsOn c (callOps dops) →
      ∃ r, ((drun cfg d dops).1.st.calls c).pc = .done r) ∧
    (sendBound cfg.generatorBased d ≤ (dops.filter DOp.isDirect).length →
      ∃ r, (drun cfg d dops).1.dpc = .done r) := by
  obtain ⟨_, h2, _⟩ := C15_direct_use_invisible cfg d dops
  obtain ⟨u1, _⟩ := C15_direct_task_unaffected cfg d dops
  refine ⟨?_, ?_⟩
  · intro c cc hcc hb
    rw [h2]
    exact C15_terminates cfg (callOps dops) c cc hcc hb
  · intro hb
    rw [u1]
    have hp := solo_pot (d := d) (directOps dops) (soloInv_init cfg.generatorBased d)
    have hi : pot cfg.generatorBased d (Solo.init d).loc = sendBound cfg.generatorBased d := by
      simp [Solo.init, pot, sendBound, enterBound, exitBound, initCell]
    rw [hi, directOps_length] at hp
    have hz : pot cfg.generatorBased d (soloRun cfg.generatorBased d (directOps dops)).1.loc = 0 := by
      unfold soloRun; omega
    exact pot_zero_done _ d _ hz

/-! ## Non-vacuity: concrete interleavings -/

private def gSusp : GenProg := ⟨1, .yields, 1, .stops, 1, .swallow⟩
private def pDflt : PlainProg := ⟨0, .ok, 0, .falsy, .falsy⟩
/-- call 0 returns 7; call 1 raises 11, which its generator swallows -/
private def cfg2 : Cfg :=
  { generatorBased := true,
    calls := [⟨gSusp, pDflt, 1, .returns 7⟩, ⟨gSusp, pDflt, 1, .raises 11⟩] }
/-- the direct use: `async with cm: <suspend once>; return 5`, the manager's own generator suspends
    once in each of its halves -/
private def dprog : CallCfg := ⟨gSusp, pDflt, 1, .returns 5⟩
private def s (c : Nat) : DOp := .call ⟨c, .resume⟩
private def D : DOp := .directSend
/-- two calls and the direct task interleaved at every suspension point -/
private def isched : List DOp := [s 1, D, s 0, D, s 0, s 1, D, s 1, D, s 0, s 0, s 1]

/-- the direct task ran to completion in its own log … -/
example : (drun cfg2 dprog isched).1.dlog =
    [.enter, .entered, .bodyBegin, .bodyEnd (.returned 5), .exit none, .exited (.returned false),
     .finish (.value 5)] := by decide
example : (drun cfg2 dprog isched).1.dpc = .done (.value 5) := by decide
/-- … using generator object 0, which is now exhausted, … -/
example : (drun cfg2 dprog isched).1.st.gens 0 = ⟨gSusp, .finished⟩ := by decide
/-- … while the calls got generators 2 and 1 and their usual paired histories and results -/
example : (List.range 2).map (fun c => ((drun cfg2 dprog isched).1.st.calls c).gid) = [some 2, some 1] := by decide
example : proj 1 (drun cfg2 dprog isched).1.st.log =
    [.enter, .entered, .bodyBegin, .bodyEnd (.raised (.user 11)), .exit (some (.user 11)),
     .exited (.returned true), .finish .none] := by decide
example : (drun cfg2 dprog isched).2 =
    [.suspended .enter, .suspended .enter, .suspended .enter, .suspended .body, .suspended .body,
     .suspended .body, .suspended .exit, .suspended .exit, .finished (.value 5), .suspended .exit,
     .finished (.value 7), .finished .none] := by decide
/-- the erasures of this interleaving -/
example : callOps isched = [⟨1, .resume⟩, ⟨0, .resume⟩, ⟨0, .resume⟩, ⟨1, .resume⟩, ⟨1, .resume⟩,
    ⟨0, .resume⟩, ⟨0, .resume⟩, ⟨1, .resume⟩] ∧ directOps isched = [.resume, .resume, .resume, .resume] := by decide
example : (drun cfg2 dprog isched).1.st.log = (run cfg2 (callOps isched)).1.log ∧
    (drun cfg2 dprog isched).1.st.ngens = 3 := by decide
example : callOuts isched (drun cfg2 dprog isched).2 = (run cfg2 (callOps isched)).2 ∧
    directOuts isched (drun cfg2 dprog isched).2 =
      [.suspended .enter, .suspended .body, .suspended .exit, .finished (.value 5)] := by decide
/-- the bounds of `C15_direct_terminates` are met by this interleaving -/
example : sendBound true dprog = 4 ∧ (isched.filter DOp.isDirect).length = 4 ∧
    opsOn 0 (callOps isched) = 4 := by decide
/-- a direct use that is cancelled inside the block: its generator swallows the exception; the
    calls do not notice -/
example : (drun cfg2 dprog [s 0, D, D, s 0, .directThrow (.user 9), D, s 0, s 0]).1.dlog =
    [.enter, .entered, .bodyBegin, .bodyEnd (.raised (.user 9)), .exit (some (.user 9)),
     .exited (.returned true), .finish .none] ∧
    ((drun cfg2 dprog [s 0, D, D, s 0, .directThrow (.user 9), D, s 0, s 0]).1.st.calls 0).pc = .done (.value 7) := by
  decide
/-- a class-based manager (`_recreate_cm` returns `self`): the direct use and the calls run the same
    plain enter/exit program, no generator object is ever touched -/
example : (drun { cfg2 with generatorBased := false } dprog [s 0, D, D, s 0]).1.dlog =
    [.enter, .entered, .bodyBegin, .bodyEnd (.returned 5), .exit none, .exited (.returned false),
     .finish (.value 5)] ∧
    (drun { cfg2 with generatorBased := false } dprog [s 0, D, D, s 0]).1.st.gens 0 = initCell dprog ∧
    ((drun { cfg2 with generatorBased := false } dprog [s 0, D, D, s 0]).1.st.calls 0).pc = .done (.value 7) := by
  decide
/-- a direct op is a direct op -/
example : D.isDirect = true ∧ (DOp.directThrow (.user 1)).isDirect = true ∧ (s 0).isDirect = false := by decide

end AsyncVerif.Decorator
