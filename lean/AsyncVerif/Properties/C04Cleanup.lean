import AsyncVerif.Proofs.Cleanup
/-!
# C04 / C18 — the clean-up helper `_core.close_all` closes every iterator, whatever the others do

Property theorems only.  Model: `Machines/Cleanup.lean` (`closeAllRobust` = `_core.close_all` as
written, `closeAllFlat` = the old plain loop of `zip`/`zip_longest`/`merge`/`chain.aclose`,
`closeNested`/`scopes` = literally nested `async with ScopedIter(..)`, `finallyCloseAll` =
`try: .. finally: await close_all(..)`).  These theorems lift hypothesis H-close (a user `aclose()`
neither raises nor suspends) of the S1 tool models for the clean-up step itself: every behaviour
list is allowed — missing `aclose`, success, a raising `aclose`, a cancellation thrown into a
suspended `aclose`.

Vocabulary (`Proofs/Cleanup.lean`): `closeableIdx behs` = the positions of the iterators that have
an `aclose`, increasing; `lastFailure behs` = `(behs.filterMap CloseBeh.exc).getLast?` = the
exception of the last raising `aclose` in list order.
-/
namespace AsyncVerif.Cleanup

/-- C04 for the clean-up step, no hypothesis on failures: after `close_all`, for every list of
    behaviours, (1) the invocation log is exactly the positions of the iterators that have an
    `aclose`, (2) it is strictly increasing — list order, nothing twice —, (3) every iterator that
    has an `aclose` had it invoked exactly once and the others never, whatever the other
    iterators' `aclose` did (raise, be cancelled), and (4) the per-iterator counters of the
    machine say the same. -/
theorem C04_cleanup_every_iterator_closed (behs : List CloseBeh) :
    (closeAllRobust behs).1 = closeableIdx behs
    ∧ (closeAllRobust behs).1.Pairwise (· < ·)
    ∧ (∀ i (h : i < behs.length),
        (closeAllRobust behs).1.count i = if behs[i] = .noAclose then 0 else 1)
    ∧ (∀ i, behs.length ≤ i → (closeAllRobust behs).1.count i = 0)
    ∧ (runRobust behs).closes = behs.map (fun b => if b = .noAclose then 0 else 1) := by
  have hlog : (closeAllRobust behs).1 = closeableIdx behs := by rw [closeAllRobust_closed]
  refine ⟨hlog, ?_, ?_, ?_, ?_⟩
  · rw [hlog]; exact closeableIds_zipIdx_pairwise behs 0
  · intro i h; rw [hlog]; exact count_closeableIdx behs i h
  · intro i h; rw [hlog]; exact count_closeableIdx_oob behs i h
  · rw [runRobust_closes]
    have : (runRobust behs).log = closeableIdx behs := hlog
    rw [this, countsOf_closeableIdx]

/-- Consequence for the iterators themselves: an iterator whose `aclose` completes its own closing
    once invoked (`ok`, or `raises e` = closes but raises) IS closed after `close_all`, whatever
    the others did; only a missing `aclose` or an `aclose` that was itself interrupted can leave
    an iterator open. -/
theorem C04_cleanup_closedAfter (behs : List CloseBeh) :
    closedAfter behs (closeAllRobust behs).1 = behs.map CloseBeh.completes := by
  rw [closeAllRobust_closed]
  apply List.ext_getElem
  · simp [closedAfter]
  · intro i h1 h2
    have hi : i < behs.length := by simpa using h2
    have hc := count_closeableIdx behs i hi
    simp only [closedAfter, List.getElem_map, List.getElem_zipIdx, Nat.zero_add]
    cases hb : behs[i] with
    | noAclose => simp [CloseBeh.completes]
    | interrupted e => simp [CloseBeh.completes]
    | ok =>
      have : 0 < (closeableIdx behs).count i := by rw [hc, hb]; simp
      have := List.count_pos_iff.mp this
      simp [CloseBeh.completes, this]
    | raises e =>
      have : 0 < (closeableIdx behs).count i := by rw [hc, hb]; simp
      have := List.count_pos_iff.mp this
      simp [CloseBeh.completes, this]

/-- `close_all(it0, .., itn)` refines leaving the nested scopes
    `async with ScopedIter(itn), .., ScopedIter(it1), ScopedIter(it0): pass`
    (scopes entered in reverse list order, so that it0 — the innermost — is exited first):
    the same `aclose` invocations in the same order and the same propagated exception, for every
    list of behaviours. -/
theorem C04_cleanup_refines_nested (behs : List CloseBeh) :
    closeAllRobust behs = closeNested behs := by
  rw [closeAllRobust_closed, closeNested, closeNested_closed, replaceBy_none_right]

/-- Which exception leaves `close_all`: (1) none iff no `aclose` raises; (2) it is the exception of
    the LAST raising iterator in list order — stated as `getLast?` of the raised exceptions and
    (3) explicitly: if `b` raises `e` and nothing after `b` raises, `e` propagates whatever the
    iterators before `b` raised. -/
theorem C18_cleanup_last_failure_propagates (behs : List CloseBeh) :
    ((closeAllRobust behs).2 = none ↔ ∀ b ∈ behs, b.exc = none)
    ∧ (closeAllRobust behs).2 = (behs.filterMap CloseBeh.exc).getLast?
    ∧ (∀ pre b post e, behs = pre ++ b :: post → b.exc = some e → (∀ p ∈ post, p.exc = none) →
        (closeAllRobust behs).2 = some e) := by
  have hexc : (closeAllRobust behs).2 = (behs.filterMap CloseBeh.exc).getLast? := by
    rw [closeAllRobust_closed]; rfl
  refine ⟨?_, hexc, ?_⟩
  · rw [hexc, List.getLast?_eq_none_iff, List.filterMap_eq_nil_iff]
  · intro pre b post e hd hb hpost
    have hp : post.filterMap CloseBeh.exc = [] := List.filterMap_eq_nil_iff.mpr hpost
    rw [hexc, hd, List.filterMap_append, List.filterMap_cons, hb, hp]
    simp

/-- Exactly one `aclose` fails or is cancelled (`b`, raising `e`), all others succeed or are
    missing: that very exception propagates out of `close_all` — and (by
    `C04_cleanup_every_iterator_closed`, restated here) every other closeable iterator, before
    and after `b`, was still closed. -/
theorem C18_cleanup_single_cancellation (pre post : List CloseBeh) (b : CloseBeh) (e : ExcId)
    (hb : b.exc = some e) (hpost : ∀ p ∈ post, p.exc = none) :
    (closeAllRobust (pre ++ b :: post)).2 = some e
    ∧ (closeAllRobust (pre ++ b :: post)).1 = closeableIdx (pre ++ b :: post) := by
  exact ⟨(C18_cleanup_last_failure_propagates _).2.2 pre b post e rfl hb hpost,
    (C04_cleanup_every_iterator_closed _).1⟩

/-- The old plain loop on a concrete list: the `aclose` of iterator 1 raises 7, so iterator 3 is
    never closed; `close_all` closes it and propagates the same exception. -/
theorem C04_cleanup_flat_loop_counterexample :
    closeAllFlat [.ok, .raises 7, .noAclose, .ok] = ([0, 1], some 7)
    ∧ closeAllRobust [.ok, .raises 7, .noAclose, .ok] = ([0, 1, 3], some 7)
    ∧ (runFlat [.ok, .raises 7, .noAclose, .ok]).closes = [1, 1, 0, 0]
    ∧ (runRobust [.ok, .raises 7, .noAclose, .ok]).closes = [1, 1, 0, 1] := by
  decide

/-- General characterisation of the OLD loop: (1) if no `aclose` raises it behaves like
    `close_all`; (2) otherwise, with `b` the FIRST raising iterator, it invokes exactly the
    closeable iterators up to and including `b`, nothing after it, and propagates `b`'s exception
    (not the last one); (3) uniformly: it is `close_all` run on the prefix that ends with the first
    raising iterator; (4) so it closed every closeable iterator iff no iterator after a raising
    one has an `aclose` — i.e. iff no `aclose` before the last closeable iterator raises. -/
theorem C04_cleanup_flat_skips_after_first_failure (behs : List CloseBeh) :
    ((∀ b ∈ behs, b.exc = none) → closeAllFlat behs = closeAllRobust behs)
    ∧ (∀ pre b post e, behs = pre ++ b :: post → (∀ p ∈ pre, p.exc = none) → b.exc = some e →
        closeAllFlat behs = (closeableIdx pre ++ [pre.length], some e)
        ∧ (closeAllRobust behs).1
            = closeableIdx pre ++ [pre.length] ++ closeableIds (post.zipIdx (pre.length + 1)))
    ∧ closeAllFlat behs
        = closeAllRobust (behs.take (behs.findIdx (fun b => b.exc.isSome) + 1))
    ∧ ((closeAllFlat behs).1 = (closeAllRobust behs).1 ↔
        ∀ pre b post, behs = pre ++ b :: post → b.exc ≠ none → ∀ p ∈ post, p = .noAclose) := by
  refine ⟨closeAllFlat_noexc behs, ?_, closeAllFlat_take behs, ?_⟩
  · intro pre b post e hd hpre hb
    subst hd
    refine ⟨closeAllFlat_first_failure pre post b e hpre hb, ?_⟩
    rw [closeAllRobust_closed]
    exact closeableIdx_append_cons pre post b (by intro h; subst h; simp [CloseBeh.exc] at hb)
  · exact flat_log_iff behs 0 (State.init behs.length)

/-- Every behaviour list either never raises or splits at its first raising iterator, so cases
    (1) and (2) of `C04_cleanup_flat_skips_after_first_failure` are exhaustive. -/
theorem C04_cleanup_flat_cases (behs : List CloseBeh) :
    (∀ b ∈ behs, b.exc = none) ∨
    ∃ pre b post e, behs = pre ++ b :: post ∧ (∀ p ∈ pre, p.exc = none) ∧ b.exc = some e :=
  exists_first_failure behs

/-- `try: <body> finally: await close_all(its)` (the position of `close_all` in `zip`,
    `zip_longest`, `merge`): whatever the body did (`inflight` = the exception it raised, if any),
    (1) every closeable iterator is closed exactly as without an exception in flight; (2) the
    exception leaving the statement is the last close failure if there is one, else the in-flight
    one (in particular `none` iff nothing was in flight and nothing failed); (3) this is what the
    nested scopes around the same body do. -/
theorem C04_cleanup_finally (inflight : Option ExcId) (behs : List CloseBeh) :
    (finallyCloseAll inflight behs).1 = closeableIdx behs
    ∧ (finallyCloseAll inflight behs).2
        = (match (behs.filterMap CloseBeh.exc).getLast? with
           | some e => some e
           | none => inflight)
    ∧ finallyCloseAll inflight behs = finallyNested inflight behs := by
  refine ⟨?_, ?_, ?_⟩
  · simp only [finallyCloseAll, closeAllRobust_closed]
  · simp only [finallyCloseAll, closeAllRobust_closed]; rfl
  · simp only [finallyCloseAll, finallyNested, closeAllRobust_closed, closeNested_closed]

/-- `chain.aclose` is `try: await close_all(owned) finally: await self._iterator.aclose()`: one
    more `finally` level around `close_all`.  It behaves like `close_all(owned ++ [iterator])`:
    the inner iterator is closed whatever closing the owned ones did, and the most recent failure
    propagates. -/
theorem C04_cleanup_chain_aclose (owned : List CloseBeh) (b : CloseBeh) :
    (finallyCloseAll (closeAllRobust owned).2 [b]).2 = (closeAllRobust (owned ++ [b])).2
    ∧ (closeAllRobust (owned ++ [b])).1
        = (closeAllRobust owned).1 ++ (if b = .noAclose then [] else [owned.length]) := by
  simp only [finallyCloseAll, closeAllRobust_closed]
  constructor
  · unfold lastFailure replaceBy
    cases b <;> simp [CloseBeh.exc, List.filterMap_append] <;>
      cases (List.filterMap CloseBeh.exc owned).getLast? <;> rfl
  · unfold closeableIdx
    rw [List.zipIdx_append, closeableIds_append]
    cases b <;> simp [closeableIds, CloseBeh.closeable]

/-! ## Examples: the statements are not vacuous -/

/-- a non-trivial list: two different failures, a missing `aclose`, an interrupted one -/
def exBehs : List CloseBeh := [.ok, .raises 7, .noAclose, .ok, .interrupted 9, .ok]

example : (closeAllRobust exBehs).1 = [0, 1, 3, 4, 5]
    ∧ (runRobust exBehs).closes = [1, 1, 0, 1, 1, 1] := by
  have h := C04_cleanup_every_iterator_closed exBehs
  refine ⟨h.1.trans (by decide), h.2.2.2.2.trans (by decide)⟩

example : (closeAllRobust exBehs).1.count 3 = 1 :=
  (C04_cleanup_every_iterator_closed exBehs).2.2.1 3 (by decide)

example : closedAfter exBehs (closeAllRobust exBehs).1 = [true, true, false, true, false, true] :=
  (C04_cleanup_closedAfter exBehs).trans (by decide)

example : closeAllRobust exBehs = closeNested exBehs ∧ closeNested exBehs = ([0, 1, 3, 4, 5], some 9) :=
  ⟨C04_cleanup_refines_nested exBehs, by decide⟩

example : (closeAllRobust exBehs).2 = some 9 :=
  (C18_cleanup_last_failure_propagates exBehs).2.2 [.ok, .raises 7, .noAclose, .ok] (.interrupted 9)
    [.ok] 9 rfl rfl (by decide)

example : (closeAllRobust [.ok, .noAclose, .ok]).2 = none :=
  (C18_cleanup_last_failure_propagates [.ok, .noAclose, .ok]).1.mpr (by decide)

/-- a single cancellation in the middle: it propagates, and iterators 0, 2, 3 are all closed -/
example : (closeAllRobust ([.ok] ++ .interrupted 5 :: [.ok, .ok])).2 = some 5
    ∧ (closeAllRobust ([.ok] ++ .interrupted 5 :: [.ok, .ok])).1 = [0, 1, 2, 3] := by
  have h := C18_cleanup_single_cancellation [.ok] [.ok, .ok] (.interrupted 5) 5 rfl (by decide)
  exact ⟨h.1, h.2.trans (by decide)⟩

/-- the old loop on `exBehs`: stops after iterator 1, propagates 7 (not 9), leaves 3, 4, 5 open -/
example : closeAllFlat exBehs = ([0, 1], some 7) :=
  ((C04_cleanup_flat_skips_after_first_failure exBehs).2.1 [.ok] (.raises 7)
    [.noAclose, .ok, .interrupted 9, .ok] 7 rfl (by decide) rfl).1

example : (closeAllFlat exBehs).1 ≠ (closeAllRobust exBehs).1 := by
  intro h
  have := (C04_cleanup_flat_skips_after_first_failure exBehs).2.2.2.mp h [.ok] (.raises 7)
    [.noAclose, .ok, .interrupted 9, .ok] rfl (by decide) .ok (by decide)
  exact absurd this (by decide)

/-- the old loop was complete when only the last closeable iterator raises -/
example : (closeAllFlat [.ok, .ok, .raises 3, .noAclose]).1
    = (closeAllRobust [.ok, .ok, .raises 3, .noAclose]).1 := by
  decide

/-- in flight 5, closing fails with 7 then 9: 9 leaves; nothing fails: 5 continues -/
example : finallyCloseAll (some 5) exBehs = ([0, 1, 3, 4, 5], some 9)
    ∧ finallyCloseAll (some 5) [.ok, .noAclose, .ok] = ([0, 2], some 5) := by
  have h1 := C04_cleanup_finally (some 5) exBehs
  have h2 := C04_cleanup_finally (some 5) [.ok, .noAclose, .ok]
  exact ⟨Prod.ext (h1.1.trans (by decide)) (h1.2.1.trans (by decide)),
    Prod.ext (h2.1.trans (by decide)) (h2.2.1.trans (by decide))⟩

/-- chain.aclose: an owned iterator fails with 7, closing the inner iterator is cancelled with 4 -/
example : (finallyCloseAll (closeAllRobust [.ok, .raises 7]).2 [.interrupted 4]).2 = some 4
    ∧ (closeAllRobust ([.ok, .raises 7] ++ [.interrupted 4])).1 = [0, 1, 2] := by
  have h := C04_cleanup_chain_aclose [.ok, .raises 7] (.interrupted 4)
  exact ⟨h.1.trans (by decide), h.2.trans (by decide)⟩

end AsyncVerif.Cleanup
