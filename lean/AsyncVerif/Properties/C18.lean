import AsyncVerif.Properties.C04
import AsyncVerif.Properties.C06
/-!
# C18 — cancellation anywhere leaves no leaked source (S1 tools)

A cancellation is an exception thrown into the task at a suspension point.  Every suspension of a
library operation is inside a user awaitable (C17), so the user awaitable that was suspended — a
source's `__anext__`, a callable, the consumer's `athrow` — raises that exception: to the library
this **is** a fault of that source / callable / consumer at that use.  The model's worlds already
quantify over every fault position, so C18 for the iterator tools and aggregations is the
conjunction of C06 (`Faithful`: that same exception propagates, nothing is used afterwards) and C04
(`Released`: every source is closed or exhausted when the operation has finished).  Hypothesis
H-close as in C04: a user `aclose()` neither raises nor suspends (a cancellation landing *inside* a
suspending user `aclose()` is outside the model; see DESIGN.md §7 D17).

Locks, caches, cached properties, ExitStack and scoped_iter are covered by their own machines
(C09, C11, C12, C14, C08).
-/
namespace AsyncVerif

/-- the shape of every per-tool statement: if the run is ended by user exception `e` (the
    cancellation), then that very `e` is what propagates, it was raised by the last visible event,
    and the source is released -/
def CancelSafe {α : Type} (m : M α) (s : Nat) : Prop :=
  ∀ (w : World) (e : Nat), (m w).1 = .error (.user e) →
    (∃ pre ev, (m w).2.vis = w.vis ++ pre ++ [ev] ∧ isFault e ev = true ∧ ∀ x ∈ pre, anyFault x = false)
    ∧ Released ((m w).2.srcs s)

theorem cancelSafe_of {α : Type} {m : M α} {s : Nat} (hf : Faithful m)
    (hr : ∀ w, (m w).1 ≠ .error .outOfFuel → Released ((m w).2.srcs s)) : CancelSafe m s := by
  intro w e he
  refine ⟨C06_surfaces_at_once hf w e he, hr w ?_⟩
  rw [he]; simp

theorem C18_filter (fn : Option Nat) (s fuel : Nat) : CancelSafe (Impl.filter fn s fuel) s :=
  cancelSafe_of (C06_filter fn s fuel) (C04_filter fn s fuel)

theorem C18_filterfalse (fn : Option Nat) (s fuel : Nat) : CancelSafe (Impl.filterfalse fn s fuel) s :=
  cancelSafe_of (C06_filterfalse fn s fuel) (C04_filterfalse fn s fuel)

theorem C18_enumerate (s : Nat) (start : Int) (fuel : Nat) : CancelSafe (Impl.enumerate s start fuel) s :=
  cancelSafe_of (C06_enumerate s start fuel) (C04_enumerate s start fuel)

theorem C18_takewhile (f s fuel : Nat) : CancelSafe (Impl.takewhile f s fuel) s :=
  cancelSafe_of (C06_takewhile f s fuel) (C04_takewhile f s fuel)

theorem C18_dropwhile (f s fuel : Nat) : CancelSafe (Impl.dropwhile f s fuel) s :=
  cancelSafe_of (C06_dropwhile f s fuel) (C04_dropwhile f s fuel)

theorem C18_starmap (f s fuel : Nat) : CancelSafe (Impl.starmap f s fuel) s :=
  cancelSafe_of (C06_starmap f s fuel) (C04_starmap f s fuel)

theorem C18_accumulate (fn : Option Nat) (initial : Option Val) (s fuel : Nat) :
    CancelSafe (Impl.accumulate fn initial s fuel) s :=
  cancelSafe_of (C06_accumulate fn initial s fuel) (C04_accumulate fn initial s fuel)

theorem C18_batched (n : Nat) (hn : 1 ≤ n) (strict : Bool) (s fuel : Nat) :
    CancelSafe (Impl.batched n strict s fuel) s :=
  cancelSafe_of (C06_batched n strict s fuel) (C04_batched n hn strict s fuel)

theorem C18_islice (s start : Nat) (stop : Option Nat) (step fuel : Nat) :
    CancelSafe (Impl.islice s start stop step fuel) s :=
  cancelSafe_of (C06_islice s start stop step fuel) (C04_islice s start stop step fuel)

theorem C18_pairwise (s fuel : Nat) : CancelSafe (Impl.pairwise s fuel) s :=
  cancelSafe_of (C06_pairwise s fuel) (C04_pairwise s fuel)

theorem C18_all (s fuel : Nat) : CancelSafe (Impl.all s fuel) s :=
  cancelSafe_of (C06_all s fuel) (C04_all s fuel)

theorem C18_any (s fuel : Nat) : CancelSafe (Impl.any s fuel) s :=
  cancelSafe_of (C06_any s fuel) (C04_any s fuel)

/-- multi-source tools: every source of the list -/
theorem C18_zip (srcs : List Nat) (fuel : Nat) : ∀ s ∈ srcs, CancelSafe (Impl.zip srcs fuel) s :=
  fun s hs => cancelSafe_of (C06_zip srcs fuel) (fun w h => C04_zip srcs fuel w h s hs)

theorem C18_zip_strict (srcs : List Nat) (fuel : Nat) : ∀ s ∈ srcs, CancelSafe (Impl.zipStrict srcs fuel) s :=
  fun s hs => cancelSafe_of (C06_zip_strict srcs fuel) (fun w h => C04_zip_strict srcs fuel w h s hs)

theorem C18_map (f : Nat) (srcs : List Nat) (fuel : Nat) : ∀ s ∈ srcs, CancelSafe (Impl.map f srcs fuel) s :=
  fun s hs => cancelSafe_of (C06_map f srcs fuel) (fun w h => C04_map f srcs fuel w h s hs)

theorem C18_zip_longest (fillv : Val) (srcs : List Nat) (fuel : Nat) :
    ∀ s ∈ srcs, CancelSafe (Impl.zipLongest fillv srcs fuel) s :=
  fun s hs => cancelSafe_of (C06_zip_longest fillv srcs fuel) (fun w h => C04_zip_longest fillv srcs fuel w h s hs)

theorem C18_compress (d sel fuel : Nat) :
    CancelSafe (Impl.compress d sel fuel) d ∧ CancelSafe (Impl.compress d sel fuel) sel :=
  ⟨cancelSafe_of (C06_compress d sel fuel) (fun w h => (C04_compress d sel fuel w h).1),
   cancelSafe_of (C06_compress d sel fuel) (fun w h => (C04_compress d sel fuel w h).2)⟩

theorem C18_merge (fn : Option Nat) (reverse : Bool) (srcs : List Nat) (fuel : Nat) :
    ∀ s ∈ srcs, CancelSafe (Impl.merge fn reverse srcs fuel) s :=
  fun s hs => cancelSafe_of (C06_merge fn reverse srcs fuel) (fun w h => C04_merge fn reverse srcs fuel w h s hs)

theorem C18_sum (start : Option Val) (s fuel : Nat) : CancelSafe (Impl.sum start s fuel) s :=
  cancelSafe_of (C06_sum start s fuel) (C04_sum start s fuel)

theorem C18_min_max (fn : Option Nat) (isMax : Bool) (d : Option Val) (s fuel : Nat) :
    CancelSafe (Impl.minmax fn isMax d s fuel) s :=
  cancelSafe_of (C06_min_max fn isMax d s fuel) (C04_min_max fn isMax d s fuel)

theorem C18_reduce (f : Nat) (ini : Option Val) (s fuel : Nat) : CancelSafe (Impl.reduce f ini s fuel) s :=
  cancelSafe_of (C06_reduce f ini s fuel) (C04_reduce f ini s fuel)

theorem C18_list (s fuel : Nat) : CancelSafe (Impl.list s fuel) s :=
  cancelSafe_of (C06_list s fuel) (C04_list s fuel)

theorem C18_tuple (s fuel : Nat) : CancelSafe (Impl.tuple s fuel) s :=
  cancelSafe_of (C06_tuple s fuel) (C04_tuple s fuel)

theorem C18_nlargest_nsmallest (largest : Bool) (n : Nat) (fn : Option Nat) (s fuel : Nat) :
    CancelSafe (Impl.nBest largest n fn s fuel) s :=
  cancelSafe_of (C06_nlargest_nsmallest largest n fn s fuel) (C04_nlargest_nsmallest largest n fn s fuel)

theorem C18_set (s fuel : Nat) : CancelSafe (Impl.set s fuel) s :=
  cancelSafe_of (C06_set s fuel) (C04_set s fuel)

theorem C18_dict (s fuel : Nat) : CancelSafe (Impl.dict s fuel) s :=
  cancelSafe_of (C06_dict s fuel) (C04_dict s fuel)

end AsyncVerif
