import AsyncVerif.Properties.C04
import AsyncVerif.Properties.C06
/-!
# C18 — cancellation anywhere leaves no leaked source (S1 tools)

A cancellation is an exception thrown into the task at a suspension point.  Every suspension of a
library operation is inside a user awaitable (C17), so the user awaitable that was suspended — a
source's `__anext__`, a callable, the consumer's `athrow` — raises that exception: to the library
this **is** a fault of that source / callable / consumer at that use.  The model's worlds already
quantify over every fault position, so C18 for the iterator tools and aggregations is the
conjunction of C06 (`Faithful`: that same exception propagates, nothing is used afterwards) and C04
(`Released`: every source is closed or exhausted when the operation has finished).  Hypothesis
H-close as in C04: a user `aclose()` neither raises nor suspends (a cancellation landing *inside* a
suspending user `aclose()` is outside the model; see DESIGN.md §7 D17).

Locks, caches, cached properties, ExitStack and scoped_iter are covered by their own machines
(C09, C11, C12, C14, C08).

`chain` is the one tool whose sources are not all released when the exception has propagated (the
arguments it had not started yet, known finding D19): its statement is two-step — the run ends with
the cancellation, then the owner closes the `chain` — see `C18_chain` / `C18_chain_close_quiet`.
-/
namespace AsyncVerif

/-- the shape of every per-tool statement: if the run is ended by user exception `e` (the
    cancellation), then that very `e` is what propagates, it was raised by the last visible event,
    and the source is released -/
def CancelSafe {α : Type} (m : M α) (s : Nat) : Prop :=
  ∀ (w : World) (e : Nat), (m w).1 = .error (.user e) →
    (∃ pre ev, (m w).2.vis = w.vis ++ pre ++ [ev] ∧ isFault e ev = true ∧ ∀ x ∈ pre, anyFault x = false)
    ∧ Released ((m w).2.srcs s)

theorem cancelSafe_of {α : Type} {m : M α} {s : Nat} (hf : Faithful m)
    (hr : ∀ w, (m w).1 ≠ .error .outOfFuel → Released ((m w).2.srcs s)) : CancelSafe m s := by
  intro w e he
  refine ⟨C06_surfaces_at_once hf w e he, hr w ?_⟩
  rw [he]; simp

theorem C18_filter (fn : Option Nat) (s fuel : Nat) : CancelSafe (Impl.filter fn s fuel) s :=
  cancelSafe_of (C06_filter fn s fuel) (C04_filter fn s fuel)

theorem C18_filterfalse (fn : Option Nat) (s fuel : Nat) : CancelSafe (Impl.filterfalse fn s fuel) s :=
  cancelSafe_of (C06_filterfalse fn s fuel) (C04_filterfalse fn s fuel)

theorem C18_enumerate (s : Nat) (start : Int) (fuel : Nat) : CancelSafe (Impl.enumerate s start fuel) s :=
  cancelSafe_of (C06_enumerate s start fuel) (C04_enumerate s start fuel)

theorem C18_takewhile (f s fuel : Nat) : CancelSafe (Impl.takewhile f s fuel) s :=
  cancelSafe_of (C06_takewhile f s fuel) (C04_takewhile f s fuel)

theorem C18_dropwhile (f s fuel : Nat) : CancelSafe (Impl.dropwhile f s fuel) s :=
  cancelSafe_of (C06_dropwhile f s fuel) (C04_dropwhile f s fuel)

theorem C18_starmap (f s fuel : Nat) : CancelSafe (Impl.starmap f s fuel) s :=
  cancelSafe_of (C06_starmap f s fuel) (C04_starmap f s fuel)

theorem C18_accumulate (fn : Option Nat) (initial : Option Val) (s fuel : Nat) :
    CancelSafe (Impl.accumulate fn initial s fuel) s :=
  cancelSafe_of (C06_accumulate fn initial s fuel) (C04_accumulate fn initial s fuel)

theorem C18_batched (n : Nat) (hn : 1 ≤ n) (strict : Bool) (s fuel : Nat) :
    CancelSafe (Impl.batched n strict s fuel) s :=
  cancelSafe_of (C06_batched n strict s fuel) (C04_batched n hn strict s fuel)

theorem C18_islice (s start : Nat) (stop : Option Nat) (step fuel : Nat) :
    CancelSafe (Impl.islice s start stop step fuel) s :=
  cancelSafe_of (C06_islice s start stop step fuel) (C04_islice s start stop step fuel)

theorem C18_pairwise (s fuel : Nat) : CancelSafe (Impl.pairwise s fuel) s :=
  cancelSafe_of (C06_pairwise s fuel) (C04_pairwise s fuel)

theorem C18_all (s fuel : Nat) : CancelSafe (Impl.all s fuel) s :=
  cancelSafe_of (C06_all s fuel) (C04_all s fuel)

theorem C18_any (s fuel : Nat) : CancelSafe (Impl.any s fuel) s :=
  cancelSafe_of (C06_any s fuel) (C04_any s fuel)

/-- multi-source tools: every source of the list -/
theorem C18_zip (srcs : List Nat) (fuel : Nat) : ∀ s ∈ srcs, CancelSafe (Impl.zip srcs fuel) s :=
  fun s hs => cancelSafe_of (C06_zip srcs fuel) (fun w h => C04_zip srcs fuel w h s hs)

theorem C18_zip_strict (srcs : List Nat) (fuel : Nat) : ∀ s ∈ srcs, CancelSafe (Impl.zipStrict srcs fuel) s :=
  fun s hs => cancelSafe_of (C06_zip_strict srcs fuel) (fun w h => C04_zip_strict srcs fuel w h s hs)

theorem C18_map (f : Nat) (srcs : List Nat) (fuel : Nat) : ∀ s ∈ srcs, CancelSafe (Impl.map f srcs fuel) s :=
  fun s hs => cancelSafe_of (C06_map f srcs fuel) (fun w h => C04_map f srcs fuel w h s hs)

theorem C18_zip_longest (fillv : Val) (srcs : List Nat) (fuel : Nat) :
    ∀ s ∈ srcs, CancelSafe (Impl.zipLongest fillv srcs fuel) s :=
  fun s hs => cancelSafe_of (C06_zip_longest fillv srcs fuel) (fun w h => C04_zip_longest fillv srcs fuel w h s hs)

theorem C18_compress (d sel fuel : Nat) :
    CancelSafe (Impl.compress d sel fuel) d ∧ CancelSafe (Impl.compress d sel fuel) sel :=
  ⟨cancelSafe_of (C06_compress d sel fuel) (fun w h => (C04_compress d sel fuel w h).1),
   cancelSafe_of (C06_compress d sel fuel) (fun w h => (C04_compress d sel fuel w h).2)⟩

theorem C18_merge (fn : Option Nat) (reverse : Bool) (srcs : List Nat) (fuel : Nat) :
    ∀ s ∈ srcs, CancelSafe (Impl.merge fn reverse srcs fuel) s :=
  fun s hs => cancelSafe_of (C06_merge fn reverse srcs fuel) (fun w h => C04_merge fn reverse srcs fuel w h s hs)

theorem C18_sum (start : Option Val) (s fuel : Nat) : CancelSafe (Impl.sum start s fuel) s :=
  cancelSafe_of (C06_sum start s fuel) (C04_sum start s fuel)

theorem C18_min_max (fn : Option Nat) (isMax : Bool) (d : Option Val) (s fuel : Nat) :
    CancelSafe (Impl.minmax fn isMax d s fuel) s :=
  cancelSafe_of (C06_min_max fn isMax d s fuel) (C04_min_max fn isMax d s fuel)

theorem C18_reduce (f : Nat) (ini : Option Val) (s fuel : Nat) : CancelSafe (Impl.reduce f ini s fuel) s :=
  cancelSafe_of (C06_reduce f ini s fuel) (C04_reduce f ini s fuel)

theorem C18_list (s fuel : Nat) : CancelSafe (Impl.list s fuel) s :=
  cancelSafe_of (C06_list s fuel) (C04_list s fuel)

theorem C18_tuple (s fuel : Nat) : CancelSafe (Impl.tuple s fuel) s :=
  cancelSafe_of (C06_tuple s fuel) (C04_tuple s fuel)

theorem C18_nlargest_nsmallest (largest : Bool) (n : Nat) (fn : Option Nat) (s fuel : Nat) :
    CancelSafe (Impl.nBest largest n fn s fuel) s :=
  cancelSafe_of (C06_nlargest_nsmallest largest n fn s fuel) (C04_nlargest_nsmallest largest n fn s fuel)

theorem C18_set (s fuel : Nat) : CancelSafe (Impl.set s fuel) s :=
  cancelSafe_of (C06_set s fuel) (C04_set s fuel)

theorem C18_dict (s fuel : Nat) : CancelSafe (Impl.dict s fuel) s :=
  cancelSafe_of (C06_dict s fuel) (C04_dict s fuel)

/-- `cycle`: the source is owned during the first pass only (the replay phase never touches it); a
    cancellation in either phase propagates unchanged and leaves the source released -/
theorem C18_cycle (s fuel : Nat) : CancelSafe (Impl.cycle s fuel) s :=
  cancelSafe_of (C06_cycle s fuel) (C04_cycle s fuel)

/-- `sorted`: items and keys are collected inside the scope of the source; a cancellation while
    collecting (in the source or in the key function) propagates unchanged and leaves the source released -/
theorem C18_sorted (fn : Option Nat) (reverse : Bool) (s fuel : Nat) :
    CancelSafe (Impl.sorted fn reverse s fuel) s :=
  cancelSafe_of (C06_sorted fn reverse s fuel) (C04_sorted fn reverse s fuel)

/-! ## chain

`chain` scopes its arguments one after the other, so a cancellation that ends the run while argument
`k` is being passed through finds the arguments after `k` not started.  The one-step statement
`∀ s ∈ srcs, CancelSafe (Impl.chain srcs fuel) s` is therefore **false** of the model and of the
library (known finding D19; counterexample in the Examples section below): a later async-generator
argument is still `fresh` when the exception has propagated.  C18 only asks for the sources to be
released "once the owner has closed the library iterator it was advancing", so the statement for
`chain` is two-step: the run ends with the cancellation, then the owner calls `chain.aclose()`.
In the model `chain.aclose()` after a raise is `Impl.closeOwned srcs` (`for it in
self._owned_iterators: await it.aclose()`), followed by `aclose()` of the already finished
`_chain_iterator` generator, which is a no-op.
-/

/-- `chain` under cancellation.  If the run of the handle is ended by user exception `e` (a fault of an
    argument or an exception thrown in by the consumer — to the library a cancellation is one of these) then

    1. that very `e` propagates and the fault that raised it is the last visible event, with no fault before it
       (same clause as in `CancelSafe`);
    2. when the exception has propagated, every argument is released **or has not been touched at all**
       (`srcs s` is exactly what was handed in): the arguments up to the one that was being passed through were
       each released by their own scope, the arguments after it were never started (D19: these may be open);
    3. after the owner's `chain.aclose()` — `Impl.closeOwned srcs` run in the world the raise left behind —
       **every** argument `s ∈ srcs` is `Released`.

    On kinds: `Released` constrains async generators (`.agen`: closed, exhausted or failed) and class-based
    iterators with `aclose` (`.aobj`: `aclose()` was called or it reported its end) — exactly the arguments
    `_owned_iterators` contains.  For the synchronous kinds (`.list`/`.seq`/`.iter`) and for `.aobjNc` there
    is no user `aclose` and `Released` holds by definition; what holds for them concretely is clause 2 (reached:
    the `_aiter_sync` wrapper was closed by the scope; not reached: untouched) together with
    `C18_chain_close_quiet` (the owner's close does not touch them). -/
theorem C18_chain (srcs : List Nat) (fuel : Nat) (w : World) (e : Nat)
    (he : (Impl.chain srcs fuel w).1 = .error (.user e)) :
    (∃ pre ev, (Impl.chain srcs fuel w).2.vis = w.vis ++ pre ++ [ev] ∧ isFault e ev = true
        ∧ ∀ x ∈ pre, anyFault x = false)
    ∧ (∀ s ∈ srcs, Released ((Impl.chain srcs fuel w).2.srcs s) ∨ (Impl.chain srcs fuel w).2.srcs s = w.srcs s)
    ∧ (∀ s ∈ srcs, Released ((Impl.closeOwned srcs (Impl.chain srcs fuel w).2).2.srcs s)) := by
  obtain ⟨h1, h2⟩ := C04_chain_raised srcs fuel w (.user e) he (by simp)
  exact ⟨C06_surfaces_at_once (C06_chain srcs fuel) w e he, h1, h2⟩

/-- The owner's `chain.aclose()` (`Impl.closeOwned srcs`), in **any** world `w'` (in particular the one a
    cancelled run left behind): it never raises, adds no visible event (no source is polled, no callable
    invoked, nothing is yielded — the only user code run is `aclose()` of owned arguments, H-close), leaves the
    consumer as it is, and leaves untouched every source that is not an owned argument: one that is not
    in `srcs`, or whose kind is not an async iterator with `aclose`. -/
theorem C18_chain_close_quiet (srcs : List Nat) (w' : World) :
    (Impl.closeOwned srcs w').1 = .ok ()
    ∧ (Impl.closeOwned srcs w').2.vis = w'.vis
    ∧ (Impl.closeOwned srcs w').2.cons = w'.cons
    ∧ (∀ t, t ∉ srcs → (Impl.closeOwned srcs w').2.srcs t = w'.srcs t)
    ∧ (∀ t, (w'.srcs t).kind ≠ .agen → (w'.srcs t).kind ≠ .aobj → (Impl.closeOwned srcs w').2.srcs t = w'.srcs t) := by
  obtain ⟨h1, h2, h3⟩ := closeOwned_quiet srcs w'
  refine ⟨h1, h2, h3, fun t ht => closeOwned_srcs_other srcs t w' ht, fun t ha hb => ?_⟩
  exact closeOwned_srcs_unowned srcs t w' (fun h => h.elim ha hb)

section Examples

/-- sources 0 and 1 are async generators, source 2 a class-based iterator with `aclose`, source 3 a list;
    source 0 delivers one item and is then cancelled (fault 7) at its second `__anext__` -/
private def wC : World where
  srcs := fun s =>
    if s = 0 then { kind := .agen, script := [.item (.obj 1 5), .err 7, .item (.obj 2 6)] }
    else if s = 1 then { kind := .agen, script := [.item (.obj 3 1)] }
    else if s = 2 then { kind := .aobj, script := [.item (.obj 4 2)] }
    else { kind := .list, script := [.item (.obj 5 3)] }
  fns := fun _ _ args => .ok (args.headD .none)
  calls := fun _ => 0
  cons := .run 5 .exhaust
  vis := []
  rel := []

/-- the same sources without the fault in source 0 … but the consumer throws 9 in at the second item
    (the first item of source 1) -/
private def wT : World :=
  { wC with
    srcs := fun s => if s = 0 then { kind := .agen, script := [.item (.obj 1 5)] } else wC.srcs s
    cons := .run 1 (.throw 9) }

example : (Impl.cycle 0 10 wC).1 = .error (.user 7) := by rfl
example : Released ((Impl.cycle 0 10 wC).2.srcs 0) := (C18_cycle 0 10 wC 7 rfl).2
example : ((Impl.cycle 0 10 wC).2.srcs 0).status = .failed := by rfl

example : (Impl.sorted (some 0) true 0 10 wC).1 = .error (.user 7) := by rfl
example : Released ((Impl.sorted (some 0) true 0 10 wC).2.srcs 0) := (C18_sorted (some 0) true 0 10 wC 7 rfl).2

/-- `chain(s0, s1, s2, s3)` cancelled inside `s0` -/
example : (Impl.chain [0, 1, 2, 3] 10 wC).1 = .error (.user 7) := by rfl
/-- D19: when the exception has propagated the later arguments are still unstarted … -/
example : ((Impl.chain [0, 1, 2, 3] 10 wC).2.srcs 1).status = .fresh := by rfl
example : ((Impl.chain [0, 1, 2, 3] 10 wC).2.srcs 2).closes = 0 := by rfl
/-- … so the one-step statement is false for `chain` -/
example : ¬ CancelSafe (Impl.chain [0, 1, 2, 3] 10) 1 := by
  intro h
  have h1 := (h wC 7 rfl).2
  have hk : ((Impl.chain [0, 1, 2, 3] 10 wC).2.srcs 1).kind = .agen := rfl
  have hs : ((Impl.chain [0, 1, 2, 3] 10 wC).2.srcs 1).status = .fresh := rfl
  unfold Released at h1
  rw [hk] at h1
  simp [hs] at h1
/-- … and the owner's close releases them -/
example : ∀ s ∈ [0, 1, 2, 3], Released ((Impl.closeOwned [0, 1, 2, 3] (Impl.chain [0, 1, 2, 3] 10 wC).2).2.srcs s) :=
  (C18_chain [0, 1, 2, 3] 10 wC 7 rfl).2.2
example : ((Impl.closeOwned [0, 1, 2, 3] (Impl.chain [0, 1, 2, 3] 10 wC).2).2.srcs 1).status = .closed := by rfl
example : ((Impl.closeOwned [0, 1, 2, 3] (Impl.chain [0, 1, 2, 3] 10 wC).2).2.srcs 2).closes = 1 := by rfl
/-- the list argument was never started and the owner's close does not touch it -/
example : ((Impl.closeOwned [0, 1, 2, 3] (Impl.chain [0, 1, 2, 3] 10 wC).2).2.srcs 3).status = .fresh := by rfl

/-- cancellation delivered at a `yield` (the consumer throws into the suspended `chain`): source 0 is
    exhausted, source 1 was being passed through and is closed by its scope, 2 and 3 wait for the owner -/
example : (Impl.chain [0, 1, 2, 3] 10 wT).1 = .error (.user 9) := by rfl
example : ((Impl.chain [0, 1, 2, 3] 10 wT).2.srcs 1).status = .closed := by rfl
example : ((Impl.chain [0, 1, 2, 3] 10 wT).2.srcs 2).closes = 0 := by rfl
example : ∀ s ∈ [0, 1, 2, 3], Released ((Impl.closeOwned [0, 1, 2, 3] (Impl.chain [0, 1, 2, 3] 10 wT).2).2.srcs s) :=
  (C18_chain [0, 1, 2, 3] 10 wT 9 rfl).2.2
example : (Impl.closeOwned [0, 1, 2, 3] (Impl.chain [0, 1, 2, 3] 10 wT).2).2.vis = (Impl.chain [0, 1, 2, 3] 10 wT).2.vis :=
  (C18_chain_close_quiet [0, 1, 2, 3] _).2.1

end Examples

end AsyncVerif
