import AsyncVerif.Proofs.AwaitifyReuse
/-!
# C03 — async neutrality of `awaitify` across SEPARATE tool calls and across failures

Machine: `Machines/AwaitifyReuse.lean` (function objects with per-call scripts of answers, a history
of `wrap f` = `awaitify(f)` and `call w` = `await w(*args)`).  Reference: `specRun` — every call
gives what awaiting-if-awaitable the function's answer gives, whatever happened before.
An `Event` carries the operation, the function's answer in that call and the outcome, so
"`run` and `specRun` agree at position `i`" means: same function call, same answer, same outcome.
-/
namespace AsyncVerif.AwaitifyReuse

/-- **Wrapper state is per wrapper (one step).** In ANY state: a call through handle `w` leaves every
    other handle exactly as it was (in particular other `Awaitify` objects around the SAME function
    object) and creates none; `awaitify(f)` leaves every existing handle as it was, and what it returns
    is the function itself for a coroutine function and otherwise an UNDECIDED `Awaitify` object —
    whatever earlier wrappers of `f` have seen: nothing is cached on the function object. -/
theorem C03_awaitify_wrapper_state_is_per_wrapper (fs : Nat → Func) (s : St) :
    (∀ w w', w' ≠ w → (step fs s (.call w)).1.wrappers[w']? = s.wrappers[w']?) ∧
    (∀ w, (step fs s (.call w)).1.wrappers.length = s.wrappers.length) ∧
    (∀ f w', w' < s.wrappers.length → (step fs s (.wrap f)).1.wrappers[w']? = s.wrappers[w']?) ∧
    (∀ f, (step fs s (.wrap f)).1.wrappers[s.wrappers.length]? =
      some (if (fs f).coro then Wrapper.function f else Wrapper.awaitify f .undecided)) := by
  refine ⟨?_, ?_, ?_, ?_⟩
  · intro w w' hne
    simp only [step]
    cases h : s.wrappers[w]? with
    | none => rfl
    | some wr =>
      cases wr with
      | function f => rfl
      | awaitify f ws => simp only [List.getElem?_set_ne (Ne.symm hne)]
  · intro w
    simp only [step]
    cases h : s.wrappers[w]? with
    | none => rfl
    | some wr => cases wr <;> simp
  · intro f w' h
    simp only [step, List.getElem?_append_left h]
  · intro f
    simp [step]

/-- **Wrapper state is per wrapper (whole histories).** After any history, the `_async_call` of an
    `Awaitify` object is determined by the answers that went through THAT object alone: it is fixed by
    the first of them that did not raise at call time (`decidedBy`).  Calls through other wrappers of
    the same function object, or calls that raised at call time, have no influence. -/
theorem C03_awaitify_wrapper_state_from_own_calls (fs : Nat → Func) (ops : List Op) (w f : Nat) (ws : WState)
    (h : (stateAfter fs init ops).wrappers[w]? = some (.awaitify f ws)) :
    ws = decidedBy (answersVia w (run fs init ops)) := by
  have hfin : Inv fs (run fs init ops) (stateAfter fs init ops) := by
    simpa using inv_run fs ops [] init (inv_init fs)
  exact (hfin.aw_ w f ws h).2

/-- **Stable flavour within one wrapper's lifetime.** For all function scripts and all histories
    (any interleaving of wraps and calls, several wrappers of one function object, coroutine functions,
    unknown handles): if the answers that the function gave in the calls through handle `w` are all
    plain or all awaitable — calls raising at call time allowed anywhere, also first — then at every
    position where the history calls through `w` the model's event is the reference's event: same
    value returned, same exception raised. -/
theorem C03_awaitify_matches_spec_when_flavour_is_stable (fs : Nat → Func) (ops : List Op) (w : Nat)
    (hs : Stable (answersVia w (specRun fs specInit ops)))
    (i : Nat) (e : Event) (h : (run fs init ops)[i]? = some e) (hop : e.op = .call w) :
    (specRun fs specInit ops)[i]? = some e := by
  rw [answersVia_specRun] at hs
  have := specEv_eq_of_stable fs ops i e h (fun w' hw' => by
    rw [hop] at hw'; cases hw'; exact hs)
  rw [← proj_init, specRun_eq, List.getElem?_map, h, Option.map_some, this]

/-- **A first call that raises synchronously does not poison the wrapper** (nothing is stored): the
    wrapper is still undecided and the next call probes again. -/
theorem C03_awaitify_raising_probe_leaves_wrapper_undecided (e : Nat) (as : List Answer) :
    callWrapper .undecided (.raisesSync e) = (.undecided, .raised e) ∧
    decidedBy (.raisesSync e :: as) = decidedBy as :=
  ⟨rfl, rfl⟩

/-- **Fresh wrapper per tool call.** Tool calls run one after the other, each doing `awaitify(f)` once
    and then `ncalls` calls through the wrapper; the function objects may be shared between tool calls.
    If within each tool call the answers have one flavour (`StableTools`, a condition on the scripts
    alone) — the flavour may change from one tool call to the next — the whole run is the reference run. -/
theorem C03_awaitify_fresh_wrapper_per_tool_call (fs : Nat → Func) (tcs : List ToolCall)
    (h : StableTools fs (fun _ => 0) tcs) :
    run fs init (toolOps 0 tcs) = specRun fs specInit (toolOps 0 tcs) := by
  rw [← proj_init, specRun_eq]
  exact (map_specEv_eq_self' _ (tools_match fs tcs init h)).symm

/-- **Fresh wrapper per tool call, interleaved.** Any history, tool calls interleaved at will (a tool
    call = the lifetime of one handle): if for every handle the answers that went through it have one
    flavour, the whole run is the reference run. -/
theorem C03_awaitify_fresh_wrapper_per_tool_call_interleaved (fs : Nat → Func) (ops : List Op)
    (hs : ∀ w, Stable (answersVia w (specRun fs specInit ops))) :
    run fs init ops = specRun fs specInit ops := by
  rw [← proj_init, specRun_eq]
  refine (map_specEv_eq_self _ fun i e h => ?_).symm
  exact specEv_eq_of_stable fs ops i e h (fun w _ => by rw [← answersVia_specRun]; exact hs w)

/-- **Flavour change within one wrapper's lifetime: what the code does.** Let `w` be the handle returned
    by `awaitify(f)` for a non-coroutine function somewhere in the history.  At every call through `w`
    where the function answers `a`, the outcome is `outIn ws a`, where `ws = decidedBy pre` is fixed by
    the first answer among the EARLIER calls through `w` (`pre`) that did not raise at call time:
    nothing earlier → reference outcome (this is the probing call); a plain value earlier → awaitables
    are handed back un-awaited (`force_async` does not await; an exception inside is never raised),
    everything else as the reference; an awaitable earlier → a plain value gives `TypeError` (`await 3`),
    everything else as the reference.  Hence the outcome differs from the reference exactly when the
    flavour of `a` is the opposite of the flavour that decided the wrapper. -/
theorem C03_awaitify_flavour_change_within_wrapper (fs : Nat → Func) (ops : List Op) (f w : Nat)
    (hwrap : (⟨.wrap f, none, .wrapper w⟩ : Event) ∈ run fs init ops) (hc : (fs f).coro = false)
    (i : Nat) (e : Event) (a : Answer) (h : (run fs init ops)[i]? = some e) (hop : e.op = .call w)
    (ha : e.answer = some a) :
    e.out = outIn (decidedBy (answersVia w ((run fs init ops).take i))) a ∧
    (e.out ≠ awaitIfNeeded a ↔
      (decidedBy (answersVia w ((run fs init ops).take i)) = .sync ∧ a.flavour = some true) ∨
      (decidedBy (answersVia w ((run fs init ops).take i)) = .async ∧ a.flavour = some false)) := by
  have := out_characterised fs ops f w hwrap hc i e a h hop ha
  exact ⟨this, by rw [this]; exact outIn_ne_spec_iff _ _⟩

section Examples

/-- function object 0: a forwarding `def` whose backend is swapped: its first call raises at call time,
    then two plain values, then (backend swapped) awaitables, one of them failing; function object 1:
    an `async def`; all others: plain `def`s -/
private def exFs : Nat → Func := fun f =>
  if f = 0 then ⟨false, fun n =>
    [.raisesSync 7, .plain 1, .plain 2, .awaitable 3, .awaitableRaising 8, .awaitable 4].getD n (.plain 0)⟩
  else if f = 1 then ⟨true, fun n => if n = 0 then .plain 5 else .raisesSync 6⟩
  else ⟨false, fun n => .plain n⟩

/-- three tool calls one after the other: function 0 (three calls), function 1 (two), function 0 again (three) -/
private def exTools : List ToolCall := [⟨0, 3⟩, ⟨1, 2⟩, ⟨0, 3⟩]

example : toolOps 0 exTools =
    [.wrap 0, .call 0, .call 0, .call 0, .wrap 1, .call 1, .call 1, .wrap 0, .call 2, .call 2, .call 2] := by decide

example : StableTools exFs (fun _ => 0) exTools := by
  refine ⟨?_, ?_, ?_, trivial⟩ <;> decide

/-- the raising first call does not poison the first wrapper; the second wrapper of function 0 decides
    afresh (async) although the first one had decided sync -/
example : (run exFs init (toolOps 0 exTools)).map (·.out) =
    [.wrapper 0, .raised 7, .ret 1, .ret 2, .wrapper 1, .ret 5, .raised 6, .wrapper 2, .ret 3, .raised 8, .ret 4] := by
  decide

example : (stateAfter exFs init (toolOps 0 exTools)).wrappers =
    [.awaitify 0 .sync, .function 1, .awaitify 0 .async] := by decide

example : run exFs init (toolOps 0 exTools) = specRun exFs specInit (toolOps 0 exTools) :=
  C03_awaitify_fresh_wrapper_per_tool_call exFs exTools (by refine ⟨?_, ?_, ?_, trivial⟩ <;> decide)

/-- ONE wrapper kept over the change of flavour (handle 0 gets all six answers), interleaved with a second
    wrapper of the same function object that is never called -/
private def exOps : List Op := [.wrap 0, .call 0, .wrap 0, .call 0, .call 0, .call 0, .call 0, .call 0]

/-- what the code does: decided sync by the plain `1`; the awaitables come back un-awaited and the
    exception `8` is never raised -/
example : (run exFs init exOps).map (·.out) =
    [.wrapper 0, .raised 7, .wrapper 1, .ret 1, .ret 2, .unawaited, .unawaited, .unawaited] := by decide

example : (specRun exFs specInit exOps).map (·.out) =
    [.wrapper 0, .raised 7, .wrapper 1, .ret 1, .ret 2, .ret 3, .raised 8, .ret 4] := by decide

/-- the second wrapper of the same function object is still undecided -/
example : (stateAfter exFs init exOps).wrappers = [.awaitify 0 .sync, .awaitify 0 .undecided] := by decide

example : answersVia 0 (run exFs init exOps) =
    [.raisesSync 7, .plain 1, .plain 2, .awaitable 3, .awaitableRaising 8, .awaitable 4] := by decide

example : ¬ Stable (answersVia 0 (specRun exFs specInit exOps)) := by decide

/-- hypotheses of the characterisation at position 5 (the first awaitable through the sync wrapper) -/
example : (⟨.wrap 0, none, .wrapper 0⟩ : Event) ∈ run exFs init exOps := by decide
example : (run exFs init exOps)[5]? = some ⟨.call 0, some (.awaitable 3), .unawaited⟩ := by decide
example : decidedBy (answersVia 0 ((run exFs init exOps).take 5)) = .sync := by decide
example : (Out.unawaited ≠ awaitIfNeeded (.awaitable 3)) :=
  ((C03_awaitify_flavour_change_within_wrapper exFs exOps 0 0 (by decide) rfl 5
    ⟨.call 0, some (.awaitable 3), .unawaited⟩ (.awaitable 3) (by decide) rfl rfl).2).mpr
    (Or.inl ⟨by decide, rfl⟩)

/-- the other direction: decided async, then a plain value: `TypeError` -/
private def exFs2 : Nat → Func := fun _ =>
  ⟨false, fun n => [.awaitableRaising 7, .awaitable 1, .plain 2, .raisesSync 5, .awaitable 3].getD n (.plain 0)⟩

example : (run exFs2 init [.wrap 0, .call 0, .call 0, .call 0, .call 0, .call 0]).map (·.out) =
    [.wrapper 0, .raised 7, .ret 1, .typeError, .raised 5, .ret 3] := by decide

/-- stable flavour with raising calls in between, through a wrapper next to an unstable one:
    handle 1 (function 2, all plain) matches the reference at each of its calls -/
private def exOps3 : List Op := [.wrap 0, .wrap 2, .call 0, .call 1, .call 0, .call 1, .call 0, .call 0, .call 1]

example : Stable (answersVia 1 (specRun exFs specInit exOps3)) := by decide
example : ¬ Stable (answersVia 0 (specRun exFs specInit exOps3)) := by decide
example : (run exFs init exOps3)[5]? = some ⟨.call 1, some (.plain 1), .ret 1⟩ := by decide
example : (specRun exFs specInit exOps3)[5]? = some ⟨.call 1, some (.plain 1), .ret 1⟩ :=
  C03_awaitify_matches_spec_when_flavour_is_stable exFs exOps3 1 (by decide) 5 _ (by decide) rfl

/-- two tool calls truly interleaved (say an outer and an inner `map` over the same forwarding function
    whose backend flips at every call): each wrapper sees one flavour only -/
private def exFs4 : Nat → Func := fun _ => ⟨false, fun n => if n % 2 = 0 then .plain n else .awaitable n⟩
private def exOps4 : List Op := [.wrap 0, .wrap 0, .call 0, .call 1, .call 0, .call 1]

example : ∀ w, Stable (answersVia w (specRun exFs4 specInit exOps4)) := by
  intro w
  match w with
  | 0 => decide
  | 1 => decide
  | w + 2 => exact Or.inl (fun a ha => by simp [answersVia, specRun, specStep, exOps4, specInit] at ha)

example : (run exFs4 init exOps4).map (·.out) = [.wrapper 0, .wrapper 1, .ret 0, .ret 1, .ret 2, .ret 3] := by decide

example : (stateAfter exFs4 init exOps4).wrappers[1]? = some (.awaitify 0 .async) := by decide
example : decidedBy (answersVia 1 (run exFs4 init exOps4)) = .async := by decide

/-- one step in a state with two wrappers of the same function object -/
example : (step exFs ⟨[.awaitify 0 .undecided, .awaitify 0 .undecided], fun _ => 1⟩ (.call 1)).1.wrappers =
    [.awaitify 0 .undecided, .awaitify 0 .sync] := by decide

end Examples

end AsyncVerif.AwaitifyReuse
