import AsyncVerif.Proofs.Core
namespace AsyncVerif
theorem C06_placeholder_true : True := trivial
end AsyncVerif
