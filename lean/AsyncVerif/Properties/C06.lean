import AsyncVerif.Proofs.AggTools
import AsyncVerif.Proofs.SetDict
import AsyncVerif.Proofs.FaithfulTools
import AsyncVerif.Proofs.ChainCancel
/-!
# C06 — errors from sources/callables surface unchanged where the stdlib would raise

`Faithful m` (Proofs/Faithful.lean) is a statement about **every world**: every input, every fault
position over the merged sequence of pulls, end checks and invocations, sync and async flavours
alike (the model has one primitive for both), every consumer behaviour.  The two corollaries below
spell out what it means; the `C06_<tool>` theorems establish it for each modelled tool.
"Delivers exactly the items its stdlib counterpart delivers before failing" is the twin theorem of
C05 (same visible log, hence same yields, in every world including the faulty ones).
-/
namespace AsyncVerif

/-- If a run ends with user exception `e`, then the last visible event is the fault that raised `e`
    (a source failing, a callable failing, or the consumer throwing it in): it is raised at once —
    never deferred — and no source or callable is used after it. -/
theorem C06_surfaces_at_once {α : Type} {m : M α} (h : Faithful m) (w : World) (e : Nat)
    (he : (m w).1 = .error (.user e)) :
    ∃ pre ev, (m w).2.vis = w.vis ++ pre ++ [ev] ∧ isFault e ev = true ∧ ∀ x ∈ pre, anyFault x = false := by
  obtain ⟨new, hv, hr⟩ := h.run w
  rcases hr with ⟨_, hne⟩ | ⟨pre, e', ev, hnew, hfe, hpre, hr⟩
  · exact absurd he (hne e)
  · rw [hr] at he
    have : e' = e := by injection he with he; injection he
    subst this
    exact ⟨pre, ev, by rw [hv, hnew, List.append_assoc], hfe, hpre⟩

/-- If any fault event occurs during a run, it is the last visible event and the run ends by
    raising exactly that exception: it is never swallowed, replaced or wrapped. -/
theorem C06_never_swallowed {α : Type} {m : M α} (h : Faithful m) (w : World) (new : List Ev)
    (hv : (m w).2.vis = w.vis ++ new) (ev : Ev) (hev : ev ∈ new) (hf : anyFault ev = true) :
    ∃ e, isFault e ev = true ∧ (m w).1 = .error (.user e) ∧ new.getLast? = some ev := by
  obtain ⟨new', hv', hr⟩ := h.run w
  have hnn : new' = new := List.append_cancel_left (hv'.symm.trans hv)
  subst hnn
  rcases hr with ⟨hnf, _⟩ | ⟨pre, e, ev', hnew, hfe, hpre, hr⟩
  · have := hnf ev hev; rw [this] at hf; exact absurd hf (by simp)
  · subst hnew
    rcases List.mem_append.mp hev with h1 | h1
    · have := hpre ev h1; rw [this] at hf; exact absurd hf (by simp)
    · have : ev = ev' := by simpa using h1
      subst this
      exact ⟨e, hfe, hr, by simp⟩

theorem C06_filter (fn : Option Nat) (s fuel : Nat) : Faithful (Impl.filter fn s fuel) :=
  faithful_scopedIter s (Std.faithful_filterLoop fn false s fuel)

theorem C06_filterfalse (fn : Option Nat) (s fuel : Nat) : Faithful (Impl.filterfalse fn s fuel) :=
  faithful_scopedIter s (Std.faithful_filterLoop fn true s fuel)

theorem C06_enumerate (s : Nat) (start : Int) (fuel : Nat) : Faithful (Impl.enumerate s start fuel) :=
  faithful_scopedIter s (Std.faithful_enumerateLoop s fuel start)

theorem C06_takewhile (f s fuel : Nat) : Faithful (Impl.takewhile f s fuel) :=
  faithful_scopedIter s (Std.faithful_takewhileLoop f s fuel)

theorem C06_dropwhile (f s fuel : Nat) : Faithful (Impl.dropwhile f s fuel) := by
  unfold Impl.dropwhile
  faith [Impl.faithful_dropPhase f s fuel]

theorem C06_starmap (f s fuel : Nat) : Faithful (Impl.starmap f s fuel) :=
  faithful_scopedIter s (Std.faithful_starmapLoop f s fuel)

theorem C06_accumulate (fn : Option Nat) (initial : Option Val) (s fuel : Nat) :
    Faithful (Impl.accumulate fn initial s fuel) :=
  faithful_scopedIter s (Std.faithful_accumulate fn initial s fuel)

theorem C06_batched (n : Nat) (strict : Bool) (s fuel : Nat) : Faithful (Impl.batched n strict s fuel) := by
  unfold Impl.batched
  faith [Std.faithful_batchedLoop n strict s fuel]

theorem C06_chain_iterator (srcs : List Nat) (fuel : Nat) : Faithful (Impl.chainIter srcs fuel) :=
  Impl.faithful_chainIter srcs fuel

/-- the `chain` handle (`Impl.chain`: advancing delegates to `_chain_iterator`, the consumer's `aclose()`
    also closes every owned iterator): in every world a fault of an input, or an exception thrown in by
    the consumer, is the last visible event and the run ends with exactly that exception.  The handle
    differs from its iterator only when the consumer closes it, and that close is invisible
    (`chain_handle_twin`), so faithfulness transfers. -/
theorem C06_chain (srcs : List Nat) (fuel : Nat) : Faithful (Impl.chain srcs fuel) :=
  Impl.faithful_chain srcs fuel

theorem C06_compress (d sel fuel : Nat) : Faithful (Impl.compress d sel fuel) := by
  unfold Impl.compress
  refine faithful_scopedIter d (faithful_scopedIter sel (faithful_tryFinally ?_ (closeAll_quiet _)))
  apply Std.faithful_zipLoop
  intro row
  faith

theorem C06_cycle (s fuel : Nat) : Faithful (Impl.cycle s fuel) := by
  unfold Impl.cycle
  faith [Std.faithful_cycleFirst s fuel, Std.faithful_replay]

theorem C06_islice (s start : Nat) (stop : Option Nat) (step fuel : Nat) :
    Faithful (Impl.islice s start stop step fuel) := by
  unfold Impl.islice
  faith [Std.faithful_skipTo s start, Impl.faithful_idxLoop s step]

theorem C06_pairwise (s fuel : Nat) : Faithful (Impl.pairwise s fuel) :=
  faithful_scopedIter s (Std.faithful_pairwise s fuel)

theorem C06_zip (srcs : List Nat) (fuel : Nat) : Faithful (Impl.zip srcs fuel) := by
  unfold Impl.zip
  split
  · exact faithful_pure _
  · exact faithful_tryFinally (Std.faithful_zipLoop srcs _ (fun row => faithful_yieldV _) fuel) (closeAll_quiet srcs)

theorem C06_zip_strict (srcs : List Nat) (fuel : Nat) : Faithful (Impl.zipStrict srcs fuel) := by
  unfold Impl.zipStrict
  split
  · exact faithful_pure _
  · exact faithful_tryFinally (Std.faithful_zipStrictLoop srcs fuel) (closeAll_quiet srcs)

theorem C06_map (f : Nat) (srcs : List Nat) (fuel : Nat) : Faithful (Impl.map f srcs fuel) := by
  unfold Impl.map
  split
  · exact faithful_pure _
  · refine faithful_tryFinally (Std.faithful_zipLoop srcs _ ?_ fuel) (closeAll_quiet srcs)
    intro row
    faith

theorem C06_zip_longest (fillv : Val) (srcs : List Nat) (fuel : Nat) : Faithful (Impl.zipLongest fillv srcs fuel) := by
  unfold Impl.zipLongest
  split
  · exact faithful_pure _
  · exact faithful_tryFinally (Std.faithful_zipLongestLoop fillv fuel _ _) (closeAll_quiet srcs)

theorem C06_iter_sentinel (f : Nat) (sentinel : Val) (fuel : Nat) : Faithful (Impl.iterSentinel f sentinel fuel) :=
  Std.faithful_iterSentinel f sentinel fuel

theorem C06_all (s fuel : Nat) : Faithful (Impl.all s fuel) := faithful_scopedIter s (Std.faithful_allLoop s fuel)
theorem C06_any (s fuel : Nat) : Faithful (Impl.any s fuel) := faithful_scopedIter s (Std.faithful_anyLoop s fuel)

theorem C06_merge (fn : Option Nat) (reverse : Bool) (srcs : List Nat) (fuel : Nat) :
    Faithful (Impl.merge fn reverse srcs fuel) :=
  faithful_tryFinally (Std.faithful_merge fn reverse srcs fuel) (closeAll_quiet srcs)

theorem C06_sum (start : Option Val) (s fuel : Nat) : Faithful (Impl.sum start s fuel) :=
  faithful_scopedIter s (Std.faithful_sumLoop s fuel _)

theorem C06_min_max (fn : Option Nat) (isMax : Bool) (d : Option Val) (s fuel : Nat) :
    Faithful (Impl.minmax fn isMax d s fuel) :=
  faithful_scopedIter s (Std.faithful_minmax fn isMax d s fuel)

theorem C06_reduce (f : Nat) (ini : Option Val) (s fuel : Nat) : Faithful (Impl.reduce f ini s fuel) :=
  faithful_scopedIter s (Std.faithful_reduce f ini s fuel)

theorem C06_list (s fuel : Nat) : Faithful (Impl.list s fuel) := by
  unfold Impl.list; faith [Std.faithful_collectAll s fuel]

theorem C06_tuple (s fuel : Nat) : Faithful (Impl.tuple s fuel) := by
  unfold Impl.tuple; faith [Std.faithful_collectAll s fuel]

theorem C06_sorted (fn : Option Nat) (reverse : Bool) (s fuel : Nat) : Faithful (Impl.sorted fn reverse s fuel) := by
  unfold Impl.sorted; faith [Std.faithful_collectKeyed fn s fuel, faithful_sortKeyed]

theorem C06_nlargest_nsmallest (largest : Bool) (n : Nat) (fn : Option Nat) (s fuel : Nat) :
    Faithful (Impl.nBest largest n fn s fuel) :=
  faithful_scopedIter s (Std.faithful_nBestAlgo ⟨largest, false⟩ n fn s fuel)

/-! Non-vacuity: a concrete world in which the source of `filter` fails at its third use. -/
private def w0 : World :=
  { srcs := fun _ => { kind := .agen, script := [.item (.obj 1 1), .item (.obj 2 0), .err 7, .item (.obj 3 1)] },
    fns := fun _ _ args => .ok (.bool ((args.headD .none).truthy)),
    calls := fun _ => 0, cons := .run 0 .exhaust, vis := [], rel := [] }

example : (Impl.filter (some 0) 0 10 w0).1 = .error (.user 7) := by rfl

/-- `chain` over two such sources: the fault of the first one surfaces at once, as the last visible event -/
example : (Impl.chain [0, 1] 10 w0).1 = .error (.user 7) := by rfl
example : ∃ pre ev, (Impl.chain [0, 1] 10 w0).2.vis = w0.vis ++ pre ++ [ev] ∧ isFault 7 ev = true
    ∧ ∀ x ∈ pre, anyFault x = false :=
  C06_surfaces_at_once (C06_chain [0, 1] 10) w0 7 rfl

theorem C06_set (s fuel : Nat) : Faithful (Impl.set s fuel) := by
  unfold Impl.set Std.set; faith [Std.faithful_setLoop s fuel]

theorem C06_dict (s fuel : Nat) : Faithful (Impl.dict s fuel) := by
  unfold Impl.dict Std.dict; faith [Std.faithful_dictLoop s fuel]

end AsyncVerif
