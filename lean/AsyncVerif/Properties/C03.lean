import AsyncVerif.Proofs.AggTools
import AsyncVerif.Proofs.SetDict
import AsyncVerif.Proofs.KindFreeTools
import AsyncVerif.Proofs.Awaitify
import AsyncVerif.Impl.Aggregations
/-!
# C03 — async neutrality: sync and async arguments are interchangeable

`World.withKinds κ w` re-flavours every iterable argument (list, sequence via `__getitem__`, sync
iterator, async generator, class-based async iterator) while keeping what it produces.
`KindFree m` then gives: same items yielded, same return value, same raised exception — for every
world (every input, fault position, consumer behaviour) and every re-flavouring.
Callable flavours need no erasure in the model (a single primitive `call`); the second sentence of
the property (every library callable returns an awaitable / async iterator / async context manager)
is a typing fact in the model (`M _`), checked on the real code by the harness.
-/
namespace AsyncVerif

/-- replace the kind of every source (any mixture), keeping scripts and state -/
def World.withKinds (κ : Nat → SrcKind) (w : World) : World :=
  { w with srcs := fun s => { (w.srcs s) with kind := κ s } }

/-- the kinds the property quantifies over (everything but "class-based iterator without aclose") -/
def Neutral (κ : Nat → SrcKind) : Prop := ∀ s, κ s ≠ .aobjNc

theorem sim_withKinds (w : World) (κ κ' : Nat → SrcKind) (h : Neutral κ) (h' : Neutral κ') :
    Sim (w.withKinds κ) (w.withKinds κ') :=
  ⟨rfl, rfl, rfl, rfl, fun _ => ⟨rfl, rfl⟩, fun s => ⟨h s, h' s⟩⟩

/-- **Flavour erasure.** Re-flavouring the iterable arguments of a kind-free program in any mixture
    changes neither its outcome (return value / exception) nor the items it yields. -/
theorem C03_erasure {α : Type} {m : M α} (hm : KindFree m) (w : World) (κ κ' : Nat → SrcKind)
    (h : Neutral κ) (h' : Neutral κ') :
    (m (w.withKinds κ)).1 = (m (w.withKinds κ')).1 ∧
    yields (m (w.withKinds κ)).2.vis = yields (m (w.withKinds κ')).2.vis := by
  have := hm.run _ _ (sim_withKinds w κ κ' h h')
  exact ⟨this.1, this.2.1⟩

theorem C03_filter (fn : Option Nat) (s fuel : Nat) : KindFree (Impl.filter fn s fuel) :=
  kf_scopedIter s (Std.kf_filterLoop fn false s fuel)
theorem C03_filterfalse (fn : Option Nat) (s fuel : Nat) : KindFree (Impl.filterfalse fn s fuel) :=
  kf_scopedIter s (Std.kf_filterLoop fn true s fuel)
theorem C03_enumerate (s : Nat) (start : Int) (fuel : Nat) : KindFree (Impl.enumerate s start fuel) :=
  kf_scopedIter s (Std.kf_enumerateLoop s fuel start)
theorem C03_takewhile (f s fuel : Nat) : KindFree (Impl.takewhile f s fuel) :=
  kf_scopedIter s (Std.kf_takewhileLoop f s fuel)
theorem C03_dropwhile (f s fuel : Nat) : KindFree (Impl.dropwhile f s fuel) := by
  unfold Impl.dropwhile
  kfree [Impl.kf_dropPhase f s fuel]
theorem C03_starmap (f s fuel : Nat) : KindFree (Impl.starmap f s fuel) :=
  kf_scopedIter s (Std.kf_starmapLoop f s fuel)
theorem C03_accumulate (fn : Option Nat) (initial : Option Val) (s fuel : Nat) :
    KindFree (Impl.accumulate fn initial s fuel) :=
  kf_scopedIter s (Std.kf_accumulate fn initial s fuel)
theorem C03_batched (n : Nat) (strict : Bool) (s fuel : Nat) : KindFree (Impl.batched n strict s fuel) := by
  unfold Impl.batched
  kfree [Std.kf_batchedLoop n strict s fuel]
theorem C03_chain_iterator (srcs : List Nat) (fuel : Nat) : KindFree (Impl.chainIter srcs fuel) :=
  Impl.kf_chainIter srcs fuel
theorem C03_compress (d sel fuel : Nat) : KindFree (Impl.compress d sel fuel) := by
  unfold Impl.compress
  refine kf_scopedIter d (kf_scopedIter sel (kf_tryFinally ?_ (kf_closeAll _) (closeAll_quiet _)))
  apply Std.kf_zipLoop
  intro row
  kfree
theorem C03_cycle (s fuel : Nat) : KindFree (Impl.cycle s fuel) := by
  unfold Impl.cycle
  kfree [Std.kf_cycleFirst s fuel, Std.kf_replay]
theorem C03_islice (s start : Nat) (stop : Option Nat) (step fuel : Nat) :
    KindFree (Impl.islice s start stop step fuel) := by
  unfold Impl.islice
  kfree [Std.kf_skipTo s start, Impl.kf_idxLoop s step]
theorem C03_pairwise (s fuel : Nat) : KindFree (Impl.pairwise s fuel) :=
  kf_scopedIter s (Std.kf_pairwise s fuel)
theorem C03_zip (srcs : List Nat) (fuel : Nat) : KindFree (Impl.zip srcs fuel) := by
  unfold Impl.zip
  split
  · exact kf_pure _
  · exact kf_tryFinally (Std.kf_zipLoop srcs _ (fun row => kf_yieldV _) fuel) (kf_closeAll srcs) (closeAll_quiet srcs)
theorem C03_zip_strict (srcs : List Nat) (fuel : Nat) : KindFree (Impl.zipStrict srcs fuel) := by
  unfold Impl.zipStrict
  split
  · exact kf_pure _
  · exact kf_tryFinally (Std.kf_zipStrictLoop srcs fuel) (kf_closeAll srcs) (closeAll_quiet srcs)
theorem C03_map (f : Nat) (srcs : List Nat) (fuel : Nat) : KindFree (Impl.map f srcs fuel) := by
  unfold Impl.map
  split
  · exact kf_pure _
  · refine kf_tryFinally (Std.kf_zipLoop srcs _ ?_ fuel) (kf_closeAll srcs) (closeAll_quiet srcs)
    intro row
    kfree
theorem C03_zip_longest (fillv : Val) (srcs : List Nat) (fuel : Nat) : KindFree (Impl.zipLongest fillv srcs fuel) := by
  unfold Impl.zipLongest
  split
  · exact kf_pure _
  · exact kf_tryFinally (Std.kf_zipLongestLoop fillv fuel _ _) (kf_closeAll srcs) (closeAll_quiet srcs)
theorem C03_all (s fuel : Nat) : KindFree (Impl.all s fuel) := kf_scopedIter s (Std.kf_allLoop s fuel)
theorem C03_any (s fuel : Nat) : KindFree (Impl.any s fuel) := kf_scopedIter s (Std.kf_anyLoop s fuel)

theorem C03_merge (fn : Option Nat) (reverse : Bool) (srcs : List Nat) (fuel : Nat) :
    KindFree (Impl.merge fn reverse srcs fuel) :=
  kf_tryFinally (Std.kf_merge fn reverse srcs fuel) (kf_closeAll srcs) (closeAll_quiet srcs)
theorem C03_sum (start : Option Val) (s fuel : Nat) : KindFree (Impl.sum start s fuel) :=
  kf_scopedIter s (Std.kf_sumLoop s fuel _)
theorem C03_min_max (fn : Option Nat) (isMax : Bool) (d : Option Val) (s fuel : Nat) :
    KindFree (Impl.minmax fn isMax d s fuel) := kf_scopedIter s (Std.kf_minmax fn isMax d s fuel)
theorem C03_reduce (f : Nat) (ini : Option Val) (s fuel : Nat) : KindFree (Impl.reduce f ini s fuel) :=
  kf_scopedIter s (Std.kf_reduce f ini s fuel)
theorem C03_list (s fuel : Nat) : KindFree (Impl.list s fuel) := by
  unfold Impl.list; kfree [Std.kf_collectAll s fuel]
theorem C03_tuple (s fuel : Nat) : KindFree (Impl.tuple s fuel) := by
  unfold Impl.tuple; kfree [Std.kf_collectAll s fuel]
theorem C03_sorted (fn : Option Nat) (reverse : Bool) (s fuel : Nat) : KindFree (Impl.sorted fn reverse s fuel) := by
  unfold Impl.sorted; kfree [Std.kf_collectKeyed fn s fuel, kf_liftExc]
theorem C03_nlargest_nsmallest (largest : Bool) (n : Nat) (fn : Option Nat) (s fuel : Nat) :
    KindFree (Impl.nBest largest n fn s fuel) := kf_scopedIter s (Std.kf_nBestAlgo ⟨largest, false⟩ n fn s fuel)

/-! Non-vacuity: the same script as a sync iterator and as an async generator. -/
private def wk : World :=
  { srcs := fun _ => { kind := .iter, script := [.item (.obj 1 1), .item (.obj 2 0), .err 7] },
    fns := fun _ _ args => .ok (.bool ((args.headD .none).truthy)),
    calls := fun _ => 0, cons := .run 0 .exhaust, vis := [], rel := [] }
example : Neutral (fun _ => SrcKind.iter) ∧ Neutral (fun _ => SrcKind.agen) := ⟨by intro s; simp, by intro s; simp⟩
example : yields (Impl.filter (some 0) 0 9 (wk.withKinds fun _ => .agen)).2.vis = [.obj 1 1] := by rfl

/-- **Callable flavours.** For every flavour (def, async def, partial(async def), callable object returning a
    coroutine that fails inside the coroutine or at call time) and every sequence of invocations on one
    `awaitify` wrapper — including a FIRST call that raises — `await awaitify(f)(*args)` evaluates to exactly
    what the n-th invocation of `f` does; it never hands back an un-awaited coroutine. -/
theorem C03_awaitify_transparent (fl : Awaitify.Flavour) (behs : List (Except Nat Nat)) :
    Awaitify.run fl Awaitify.init behs = behs.map Awaitify.ofBeh :=
  Awaitify.run_spec fl behs Awaitify.init (Awaitify.inv_init fl)

example : Awaitify.run .objx Awaitify.init [.error 7, .ok 1, .ok 2] = [.exc 7, .val 1, .val 2] := by decide

theorem C03_set (s fuel : Nat) : KindFree (Impl.set s fuel) := by
  unfold Impl.set Std.set; kfree [Std.kf_setLoop s fuel]
theorem C03_dict (s fuel : Nat) : KindFree (Impl.dict s fuel) := by
  unfold Impl.dict Std.dict; kfree [Std.kf_dictLoop s fuel]

end AsyncVerif
