import AsyncVerif.Proofs.ScopeExit
/-!
# C08 — leaving a nest of `scoped_iter` blocks when the underlying iterator's own `aclose()` fails

Property theorems only.  Model: `Machines/ScopeExit.lean` — an underlying iterator whose `aclose()` succeeds,
raises, or suspends and is cancelled there (`CloseBeh`; in the failing cases it stays usable, like the harness's
`_BadCloseSource`), a nest of `s.active` scopes (scope `0` on the iterator, scope `k+1` on the handle of scope
`k`), `aexit` = `_ScopedAsyncIteratorContext.__aexit__` as written (own wrapper first, then `aclose()` of what
the scope was opened on), `exitAll m` = the whole nest is left by `m` (fall-through / exception / cancellation
raised in the innermost block), `leaveN k m` = only the innermost `k` blocks are left, `exitSwapped` = the same
with the two awaits of `__aexit__` in the wrong order.

The theorems quantify over EVERY state `s` of the machine whose retired handles are closed (`Retired s`: holds in
every state reachable by `enter` / `nextH` / `takeH` / leaving scopes, `nest_spec`, `pullH_retired`,
`enter_retired`) with at least one scope entered: any depth `s.active ≥ 1`, any number `s.n` of remaining items,
any close behaviour `s.beh`, any wrappers already finished by exhaustion, any history `s.closes`, `s.log`.
This removes the manifest's assumption "aclose() of the underlying iterator is assumed not to raise" for the
exit path.
-/
namespace AsyncVerif.ScopeExit

/-- (a) After the nest has been left — normally, by an exception or by a cancellation, and EVEN IF the
    underlying iterator's `aclose()` raised or was cancelled — every wrapper is closed, so no handle (of any
    scope of the nest, or retired earlier) yields anything: `__anext__` on it raises StopAsyncIteration without
    touching anything (the state is unchanged, hence this stays so for ever), and a tool handed the handle gets
    no item. -/
theorem C08_scope_exit_retires_every_handle (m : Leave) (s : St) (hr : Retired s) (h : 0 < s.active) (i : Nat) :
    (exitAll m s).1.wopen i = false
    ∧ nextH i (exitAll m s).1 = ((exitAll m s).1, none)
    ∧ ∀ c, takeH i c (exitAll m s).1 = ((exitAll m s).1, []) := by
  obtain ⟨_, _, o3, o4, _⟩ := exitAll_spec m s h
  have hw : (exitAll m s).1.wopen i = false := by
    by_cases c : i < s.active
    · exact o3 i c
    · rw [o4 i (by omega)]; exact hr i (by omega)
  exact ⟨hw, pullH_closed i _ hw, fun c => takeH_closed i c _ hw⟩

/-- (b) Leaving the nest invokes the underlying iterator's `aclose()` exactly once; it is the outermost scope
    (scope `0`) that invokes it, and only after the wrappers of all scopes `s.active-1, …, 1, 0` have been
    closed, innermost first (the log gains exactly these events in this order).  Leaving fewer than all scopes
    never invokes it: the inner scopes' `__aexit__` call the outer handle's no-op `aclose`. -/
theorem C08_scope_exit_closes_once (m : Leave) (s : St) (h : 0 < s.active) :
    (exitAll m s).1.closes = s.closes + 1
    ∧ (exitAll m s).1.log = s.log ++ (List.range s.active).reverse.map Ev.wclose ++ [Ev.uclose 0]
    ∧ ∀ k, k < s.active → (leaveN k m s).1.closes = s.closes
        ∧ (leaveN k m s).1.log = s.log ++ (List.range' (s.active - k) k).reverse.map Ev.wclose := by
  obtain ⟨_, _, _, _, o5, _, _, _, _, o10⟩ := exitAll_spec m s h
  refine ⟨o5, ?_, fun k hk => ?_⟩
  · rw [o10, wcloses, List.range_eq_range']
  · obtain ⟨_, _, _, i4, _, _, _, _, i9⟩ := leaveN_inner k m s hk
    exact ⟨i4, i9⟩

/-- (c) What leaves the nest: the close failure if the underlying `aclose()` failed — its exception resp. the
    cancellation thrown into it replaces whatever was leaving the block — and the block's own outcome
    otherwise (`__aexit__` returns `None`: nothing is swallowed, a fall-through stays a fall-through). -/
theorem C08_scope_exit_propagates (m : Leave) (s : St) (h : 0 < s.active) :
    (exitAll m s).2 = match s.beh with
      | .ok => m
      | .raises e => .raised e
      | .cancelledIn e => .cancelled e := by
  rw [(exitAll_spec m s h).1]
  cases s.beh <;> rfl

/-- … and what the `__aexit__`s do is the same however the block is left. -/
theorem C08_scope_exit_mode_irrelevant (m m' : Leave) (s : St) :
    (exitAll m s).1 = (exitAll m' s).1 := leaveNWith_fst_mode aexit s.active m m' s

/-- The iterator itself after the exit: no item was consumed by leaving; it is closed iff its `aclose()`
    completed. -/
theorem C08_scope_exit_iterator (m : Leave) (s : St) (h : 0 < s.active) :
    (exitAll m s).1.n = s.n ∧ (exitAll m s).1.pos = s.pos
    ∧ (exitAll m s).1.uclosed = (s.uclosed || s.beh.failure.isNone) := by
  obtain ⟨_, _, _, _, _, o6, o7, _, o9, _⟩ := exitAll_spec m s h
  exact ⟨o6, o7, o9⟩

/-- (d) Leaving only the innermost `k` of the open scopes (`k < s.active`; by a fall-through, or by an
    exception / cancellation travelling through them): the outcome arrives unchanged in the enclosing block;
    exactly the handles of these `k` scopes are retired (they yield nothing from now on); the wrappers of all
    other handles are untouched and an outer handle `i` answers its next `__anext__` exactly as it would have
    without the inner scopes being left — in particular, if its wrappers down to the iterator are open and
    items remain, with the iterator's next item; the underlying `aclose()` has not been invoked and the
    iterator is untouched. -/
theorem C08_scope_exit_inner_only_own (k : Nat) (m : Leave) (s : St) (h : k < s.active) :
    (leaveN k m s).2 = m
    ∧ (leaveN k m s).1.active = s.active - k
    ∧ (∀ i, s.active - k ≤ i → i < s.active →
        (leaveN k m s).1.wopen i = false ∧ nextH i (leaveN k m s).1 = ((leaveN k m s).1, none))
    ∧ (∀ i, ¬ (s.active - k ≤ i ∧ i < s.active) → (leaveN k m s).1.wopen i = s.wopen i)
    ∧ (∀ i, i < s.active - k → (nextH i (leaveN k m s).1).2 = (nextH i s).2)
    ∧ (∀ i c, i < s.active - k → (∀ j, j ≤ i → s.wopen j = true) → s.uclosed = false → s.n = c + 1 →
        (nextH i (leaveN k m s).1).2 = some s.pos)
    ∧ (leaveN k m s).1.closes = s.closes
    ∧ (leaveN k m s).1.n = s.n ∧ (leaveN k m s).1.pos = s.pos ∧ (leaveN k m s).1.uclosed = s.uclosed := by
  obtain ⟨i1, i2, i3, i4, i5, i6, _, i8, _⟩ := leaveN_inner k m s h
  have hagree : ∀ i, i < s.active - k → AgreeUpTo i (leaveN k m s).1 s := fun i hi =>
    ⟨fun j hj => by rw [i3 j, if_neg (by omega)], i5, i6, i8⟩
  refine ⟨i1, i2, fun i h1 h2 => ?_, fun i hi => by rw [i3 i, if_neg hi],
    fun i hi => (pullH_agree i _ _ (hagree i hi)).1, fun i c hi ho hu hn => ?_, i4, i5, i6, i8⟩
  · have hw : (leaveN k m s).1.wopen i = false := by rw [i3 i, if_pos ⟨h1, h2⟩]
    exact ⟨hw, pullH_closed i _ hw⟩
  · show (pullH i (leaveN k m s).1).2 = some s.pos
    rw [(pullH_agree i _ _ (hagree i hi)).1, pullH_item i s c ho hu hn]

/-- (d') The same when the inner blocks are left one by one, each in its own way (`ms`, innermost first; the
    exception of one block is handled in the enclosing block before that is left in turn): every outcome
    arrives unchanged and the state is that of `leaveN`, so all of (d) applies. -/
theorem C08_scope_exit_inner_each (ms : List Leave) (s : St) (h : ms.length < s.active) :
    (leaveEach ms s).2 = ms ∧ (leaveEach ms s).1 = (leaveN ms.length .normal s).1 :=
  leaveEach_inner ms s h

/-- `exitInnermost` — one `__aexit__`, an exception raised by it travelling on through the enclosing scopes — is
    one step of the above: below the outermost scope `__aexit__` cannot raise, and when the outermost scope's
    does, no enclosing scope is left to run. -/
theorem C08_scope_exit_innermost (m : Leave) (s : St) (h : 0 < s.active) :
    exitInnermost m s = leaveN 1 m s := by
  obtain ⟨a, ha⟩ : ∃ a, s.active = a + 1 := ⟨s.active - 1, by omega⟩
  cases a with
  | zero =>
    cases hb : s.beh <;>
      simp [exitInnermost, leaveN, leaveNWith, leaveOneWith, aexit, ha, closeTarget, closeU, closeWrapper, hb,
        CloseBeh.failure]
  | succ a => simp [exitInnermost, leaveN, leaveNWith, leaveOneWith, aexit_inner s a ha]

/-- (e) The seeded change, concretely (the harness's case `badclose`, mode `raise`, depth 2, run with the two
    awaits of `__aexit__` swapped): the exception of the failing `aclose()` leaves the nest, the inner handle is
    retired, but the OUTER handle still yields item `2`, and `list(islice(outer, 2))` then gets `[3, 4]`. -/
theorem C08_scope_exit_swapped_order_counterexample :
    observe true 2 6 (.raises 31) 1 .normal
      = { exit := .raised 31, after := [some 2, none], toolAfter := [3, 4], closes := 1, consumed := 5 }
    ∧ observe false 2 6 (.raises 31) 1 .normal
      = { exit := .raised 31, after := [none, none], toolAfter := [], closes := 1, consumed := 2 } := by
  decide

/-- (e) … for every depth: with the swapped order and an underlying `aclose()` that raises or is cancelled
    (failure `x`), the failure leaves the nest after exactly one `aclose()` call as before, all inner handles are
    retired, but the outermost handle's wrapper is left exactly as it was: if it was open it stays OPEN, and the
    retired-looking handle goes on yielding the iterator's remaining items (the next `c ≤ s.n` of them to a
    consumer, the first of them to a single `__anext__`). -/
theorem C08_scope_exit_swapped_order_keeps_yielding (m x : Leave) (s : St) (h : 0 < s.active)
    (hf : s.beh.failure = some x) (h0 : s.wopen 0 = true) (hu : s.uclosed = false) :
    (exitSwapped m s).2 = x
    ∧ (exitSwapped m s).1.closes = s.closes + 1
    ∧ (exitSwapped m s).1.wopen 0 = true
    ∧ (∀ i, 0 < i → i < s.active → (exitSwapped m s).1.wopen i = false)
    ∧ (∀ c, c ≤ s.n → (takeH 0 c (exitSwapped m s).1).2 = List.range' s.pos c)
    ∧ (∀ c, s.n = c + 1 → (nextH 0 (exitSwapped m s).1).2 = some s.pos) := by
  obtain ⟨o1, _, o3, o4, _, o6, o7, o8, o9, _⟩ := exitSwapped_fail_spec m x s h hf
  have hw : ∀ j, j ≤ 0 → (exitSwapped m s).1.wopen j = true := fun j hj => by
    have : j = 0 := by omega
    subst this; rw [o3]; exact h0
  refine ⟨o1, o6, by rw [o3]; exact h0, o4, fun c hc => ?_, fun c hc => ?_⟩
  · rw [takeH_open 0 c _ hw (by rw [o9]; exact hu) (by rw [o7]; exact hc), o8]
  · show (pullH 0 (exitSwapped m s).1).2 = some s.pos
    rw [pullH_item 0 _ c hw (by rw [o9]; exact hu) (by rw [o7]; exact hc), o8]

/-- (e) General characterisation of the swapped order: after the nest has been left, handle `i` is still open
    iff it is the outermost one, it was open, and the underlying `aclose()` failed.  So the swapped order is
    indistinguishable (in what the handles yield) exactly as long as the underlying `aclose()` does not fail —
    the assumption under which `Machines/Borrow.lean` was built. -/
theorem C08_scope_exit_swapped_order_characterisation (m : Leave) (s : St) (hr : Retired s) (h : 0 < s.active)
    (i : Nat) :
    (exitSwapped m s).1.wopen i = (decide (i = 0) && s.beh.failure.isSome && s.wopen 0) := by
  cases hf : s.beh.failure with
  | none =>
    obtain ⟨_, o2, o3, _⟩ := exitSwapped_ok_spec m s h hf
    simp only [Option.isSome_none, Bool.and_false, Bool.false_and]
    by_cases c : i < s.active
    · exact o2 i c
    · rw [o3 i (by omega)]; exact hr i (by omega)
  | some x =>
    obtain ⟨_, _, o3, o4, o5, _⟩ := exitSwapped_fail_spec m x s h hf
    by_cases c0 : i = 0
    · subst c0; simp [o3]
    · simp only [c0, decide_false, Bool.false_and]
      by_cases c : i < s.active
      · exact o4 i (by omega) c
      · rw [o5 i (by omega)]; exact hr i (by omega)

/-- The nest built by the harness's `_observe_badclose` (`depth ≥ 1` scopes, `n` items, each level taking
    `taken` items from its new handle before opening the next), for every depth, `n`, `taken`, close behaviour
    and way of leaving: every handle is retired, the underlying `aclose()` was invoked exactly once — by scope
    `0`, after every wrapper was closed —, and the close failure, if any, leaves the nest, else the block's
    outcome. -/
theorem C08_scope_exit_nest (depth n : Nat) (beh : CloseBeh) (taken : Nat) (m : Leave) (hd : 0 < depth) :
    (∀ i, nextH i (exitAll m (nest depth n beh taken)).1 = ((exitAll m (nest depth n beh taken)).1, none))
    ∧ (exitAll m (nest depth n beh taken)).1.closes = 1
    ∧ (exitAll m (nest depth n beh taken)).1.log
        = (List.range depth).reverse.map Ev.wclose ++ [Ev.uclose 0]
    ∧ (exitAll m (nest depth n beh taken)).2 = beh.failure.getD m := by
  obtain ⟨n1, n2, n3, n4, _, n6⟩ := nest_spec depth n beh taken
  have ha : 0 < (nest depth n beh taken).active := by rw [n1]; exact hd
  obtain ⟨c1, c2, _⟩ := C08_scope_exit_closes_once m _ ha
  refine ⟨fun i => (C08_scope_exit_retires_every_handle m _ n2 ha i).2.1, by rw [c1, n4], ?_, ?_⟩
  · rw [c2, n6, n1]; rfl
  · rw [(exitAll_spec m _ ha).1, n3]

/-- … and with the swapped order, for every depth, while items remain (`depth * taken < n`): a failing
    underlying `aclose()` leaves the outermost handle yielding the next item `depth * taken`. -/
theorem C08_scope_exit_swapped_order_nest (depth n : Nat) (beh : CloseBeh) (taken : Nat) (m x : Leave)
    (hd : 0 < depth) (hn : depth * taken < n) (hf : beh.failure = some x) :
    (exitSwapped m (nest depth n beh taken)).2 = x
    ∧ (nextH 0 (exitSwapped m (nest depth n beh taken)).1).2 = some (depth * taken) := by
  obtain ⟨n1, _, n3, _, n5, _⟩ := nest_spec depth n beh taken
  obtain ⟨p1, p2, p3⟩ := nest_open depth n beh taken (by omega)
  have ha : 0 < (nest depth n beh taken).active := by rw [n1]; exact hd
  obtain ⟨k1, _, _, _, _, k6⟩ := C08_scope_exit_swapped_order_keeps_yielding m x _ ha (by rw [n3]; exact hf)
    (p1 0 hd) n5
  refine ⟨k1, ?_⟩
  rw [k6 (n - depth * taken - 1) (by rw [p2]; omega), p3]

section Examples

/-- three nested scopes over an iterator of 6 items whose `aclose()` raises 31; each level took one item -/
private def ex3 : St := nest 3 6 (.raises 31) 1

private theorem ex3_retired : Retired ex3 := (nest_spec 3 6 (.raises 31) 1).2.1
private theorem ex3_active : 0 < ex3.active := by decide

example : ex3.wrappers = [true, true, true] ∧ ex3.n = 3 ∧ ex3.pos = 3 := by decide

-- (a): hypotheses hold on `ex3`; left by a cancellation, the raising close: all three handles are retired
example : ∀ i, (exitAll (.cancelled 7) ex3).1.wopen i = false :=
  fun i => (C08_scope_exit_retires_every_handle (.cancelled 7) ex3 ex3_retired ex3_active i).1
example : (exitAll (.cancelled 7) ex3).1.wrappers = [false, false, false] := by decide

-- (b)
example : (exitAll .normal ex3).1.closes = 1
    ∧ (exitAll .normal ex3).1.log = [.wclose 2, .wclose 1, .wclose 0, .uclose 0] := by
  obtain ⟨h1, h2, _⟩ := C08_scope_exit_closes_once .normal ex3 ex3_active
  exact ⟨h1, h2⟩

-- (c): the raising close replaces the cancellation; a successful close lets it through
example : (exitAll (.cancelled 7) ex3).2 = .raised 31 :=
  C08_scope_exit_propagates (.cancelled 7) ex3 ex3_active
example : (exitAll (.cancelled 7) (nest 3 6 .ok 1)).2 = .cancelled 7 :=
  C08_scope_exit_propagates (.cancelled 7) (nest 3 6 .ok 1) (by decide)

-- (d): two of the three scopes left by an exception: handles 1 and 2 are retired, handle 0 yields item 3
example : (leaveN 2 (.raised 5) ex3).2 = .raised 5 ∧ (leaveN 2 (.raised 5) ex3).1.closes = 0
    ∧ (nextH 0 (leaveN 2 (.raised 5) ex3).1).2 = some 3 := by
  obtain ⟨h1, _, _, _, _, h6, h7, _⟩ := C08_scope_exit_inner_only_own 2 (.raised 5) ex3 (by decide)
  exact ⟨h1, h7, h6 0 2 (by decide) (by decide) (by decide) (by decide)⟩
example : (leaveN 2 (.raised 5) ex3).1.wrappers = [true, false, false] := by decide
example : (leaveEach [.normal, .cancelled 9] ex3).2 = [.normal, .cancelled 9] :=
  (C08_scope_exit_inner_each [.normal, .cancelled 9] ex3 (by decide)).1

-- (e): swapped order on `ex3`: the outer handle stays open and yields 3, 4, 5
example : (exitSwapped .normal ex3).2 = .raised 31 ∧ (takeH 0 3 (exitSwapped .normal ex3).1).2 = [3, 4, 5] := by
  obtain ⟨h1, _, _, _, h5, _⟩ := C08_scope_exit_swapped_order_keeps_yielding .normal (.raised 31) ex3 ex3_active
    (by decide) (by decide) (by decide)
  exact ⟨h1, h5 3 (by decide)⟩
example : (exitSwapped .normal ex3).1.wopen 0 = true := by
  rw [C08_scope_exit_swapped_order_characterisation .normal ex3 ex3_retired ex3_active 0]; decide
example : (exitSwapped .normal (nest 4 9 (.cancelledIn 32) 2)).2 = .cancelled 32
    ∧ (nextH 0 (exitSwapped .normal (nest 4 9 (.cancelledIn 32) 2)).1).2 = some 8 :=
  C08_scope_exit_swapped_order_nest 4 9 (.cancelledIn 32) 2 .normal (.cancelled 32) (by decide) (by decide) rfl

-- the nest theorem on the harness's own cases
example : (exitAll .normal (nest 3 6 (.cancelledIn 32) 1)).2 = .cancelled 32 :=
  (C08_scope_exit_nest 3 6 (.cancelledIn 32) 1 .normal (by decide)).2.2.2

end Examples

end AsyncVerif.ScopeExit
