import AsyncVerif.Proofs.LruConcOrder
import AsyncVerif.Properties.C11
/-!
# C11 (order) — the ORDER of a bounded lru_cache under overlapping calls and cancellation

Property theorems only.  Model: `Machines/Lru.lean`, `cstep` (a call is `begin c p` … `finish c r`,
interleaved freely with other calls, `cache_clear`, `cache_discard`; `finish c .cancel` is a
cancellation at the `await`).  Vocabulary (`Proofs/LruConcOrder.lean`, `Proofs/LruOrder.lean`):

* `classify typed s op` says what the step `op` taken in state `s` does to the order: `.hit p` (a
  `begin` answered from the cache: `move_to_end`), `.ins p v` (a successful `finish` whose key is
  not in the cache at that moment: inserted, evicting the oldest entry if the cache is full),
  `.clear`, `.discard p`, `.none` (the `begin` of a miss, a late duplicate, a failure, a
  cancellation, `cache_info`, an ill-formed step).
* a *touch* is a `.hit` or an `.ins` step; `trun` runs the machine and keeps the log of touched keys
  since the last `cache_clear` (oldest first).  The `begin` of a miss is NOT a touch.
* `recency log` lists the distinct keys of `log` in the order of their LAST occurrence (C10);
  `lastN n` takes the last `n`; `keys typed store` are the keys of the store, oldest first.
-/
namespace AsyncVerif.Lru

/-- For every bounded cache (`maxsize = n ≥ 1`, any `typed`) and every interleaving of `begin`,
    `finish` (returning, raising or cancelled), `cache_clear`, `cache_discard`, `cache_info` steps
    of any number of overlapping calls: the cache content, listed from oldest to newest, is exactly
    the list of the distinct keys touched since the last `cache_clear`, ordered by their LAST touch
    and restricted to the keys still present — where a touch is a successful `finish` that inserted
    the key or a `begin` that hit it; the order in which overlapping misses STARTED plays no role
    (a missing `begin` does not enter the log).  If moreover no `cache_discard` occurs, the keys
    present are exactly the `n` most recently touched ones. -/
theorem C11_order_is_completion_then_hit_order (n : Nat) (hn : 1 ≤ n) (typed : Bool) (ops : List COp) :
    let cfg : Cfg := ⟨.bounded n, typed⟩
    let x := trun cfg (CSt.init, []) ops
    x.1 = crun cfg CSt.init ops ∧
    (recency x.2).Nodup ∧
    keys typed x.1.core.store = (recency x.2).filter (fun k => decide (k ∈ keys typed x.1.core.store)) ∧
    ((∀ op ∈ ops, ∀ p, op ≠ .discard p) → keys typed x.1.core.store = lastN n (recency x.2)) := by
  intro cfg x
  have hsub := trun_sublist n typed ops (CSt.init, []) (by simp [keys, CSt.init, St.init])
  refine ⟨trun_fst cfg ops _, recency_nodup _, (sublist_eq_filter hsub (recency_nodup _)).symm, ?_⟩
  intro hop
  exact trun_lastN n hn typed ops (CSt.init, []) (by simp [keys, CSt.init, St.init, recency, lastN]) hop

/-- Whenever a `finish` inserts (after any interleaving; the call `c` is in flight with pattern `p`,
    it returns `v`, and `p` is not in the cache at that moment): if the cache is not full nothing is
    evicted; if it is full, exactly the oldest entry is evicted, and that victim is the key whose
    last touch is the oldest among all keys in the cache — it stands strictly before every surviving
    key in the last-touch order `recency log`. -/
theorem C11_eviction_victim_is_least_recently_touched (n : Nat) (hn : 1 ≤ n) (typed : Bool) (ops : List COp)
    (c v : Nat) (p : Pattern) :
    let cfg : Cfg := ⟨.bounded n, typed⟩
    let x := trun cfg (CSt.init, []) ops
    lookupCall c x.1.inflight = some p →
    find (Impl.eqv typed) p x.1.core.store = none →
    (x.1.core.store.length < n →
      (cstep cfg x.1 (.finish c (.ok v))).1.core.store = x.1.core.store ++ [(p, v)]) ∧
    (n ≤ x.1.core.store.length → ∃ victim rest, x.1.core.store = victim :: rest ∧
      (cstep cfg x.1 (.finish c (.ok v))).1.core.store = rest ++ [(p, v)] ∧
      keyOf typed victim.1 ∈ recency x.2 ∧
      ∀ e ∈ rest, (recency x.2).idxOf (keyOf typed victim.1) < (recency x.2).idxOf (keyOf typed e.1)) := by
  intro cfg x hl hf
  have hsub := trun_sublist n typed ops (CSt.init, []) (by simp [keys, CSt.init, St.init])
  refine ⟨?_, ?_⟩
  · intro hlt
    have : ¬ (x.1.core.store.length ≥ n) := by omega
    simp [cfg, cstep, hl, Impl.resume, hf, this]
  · intro hge
    cases hst : x.1.core.store with
    | nil => rw [hst] at hge; simp at hge; omega
    | cons victim rest =>
      have hge' : (victim :: rest).length ≥ n := by rw [← hst]; exact hge
      refine ⟨victim, rest, rfl, ?_, ?_, ?_⟩
      · have hf' : find (Impl.eqv typed) p (victim :: rest) = none := by rw [← hst]; exact hf
        simp only [cfg, cstep, hl, Impl.resume, hst, hf', Option.isSome_none, Bool.false_eq_true, if_false]
        rw [if_pos hge']
        rfl
      · apply hsub.subset
        change keyOf typed victim.1 ∈ keys typed x.1.core.store
        rw [hst]; simp [keys]
      · intro e he
        have hk : keys typed x.1.core.store = keyOf typed victim.1 :: keys typed rest := by rw [hst]; rfl
        have hmem : keyOf typed e.1 ∈ keys typed rest := by
          simp only [keys, List.mem_map]; exact ⟨e, he, rfl⟩
        have h2 : [keyOf typed victim.1, keyOf typed e.1].Sublist (recency x.2) := by
          refine List.Sublist.trans ?_ hsub
          rw [hk]
          exact List.Sublist.cons_cons _ (List.singleton_sublist.mpr hmem)
        exact idxOf_lt_of_pair_sublist h2 (recency_nodup _)

/-- A late duplicate changes nothing: for every configuration and every state, when the call `c`
    (in flight with pattern `p`) returns `v` but an entry with an equal key is already present
    (another overlapping call stored it first), the `finish` leaves the cache content, its order,
    the stored value and both counters exactly as they were, evicts nothing, is not a touch (the
    log is unchanged); the caller still receives its own `v`. -/
theorem C11_late_duplicate_changes_nothing (cfg : Cfg) (s : CSt) (log : List NKey) (c v : Nat) (p : Pattern)
    (e : Pattern × Nat) (hl : lookupCall c s.inflight = some p)
    (hf : find (Impl.eqv cfg.typed) p s.core.store = some e) :
    (cstep cfg s (.finish c (.ok v))).1.core = s.core ∧
    (cstep cfg s (.finish c (.ok v))).1.inflight = dropCall c s.inflight ∧
    (cstep cfg s (.finish c (.ok v))).2 = .ret v ∧
    (tstep cfg (s, log) (.finish c (.ok v))).2 = log ∧
    seqOps cfg.typed s (.finish c (.ok v)) = [] := by
  obtain ⟨var, typed⟩ := cfg
  refine ⟨?_, ?_, ?_, ?_, ?_⟩
  · simp only [cstep, hl, Impl.resume]
    cases var with
    | uncached => rfl
    | memo => simp only at hf; simp [hf]
    | bounded n => simp only at hf; simp [hf]
  · simp only [cstep, hl]
  · simp only [cstep, hl]
  · simp only at hf; simp [tstep, logStep, classify, hl, hf]
  · simp only at hf; simp [seqOps, classify, hl, hf]

/-- Every interleaving equals some sequential history, as far as the cache content goes.  For every
    bounded cache (`maxsize = n ≥ 1`) and every interleaving `ops` (including `cache_clear` and
    `cache_discard`, failures and cancellations), the SEQUENTIAL history `seqHistory cfg CSt.init
    ops` — constructed explicitly: a hit becomes a plain call at its `begin`, an inserting miss a
    plain call (returning the same value) at its `finish`, `cache_clear` / `cache_discard` stay
    where they are, and the `begin` of a miss, late duplicates (DROPPED, not turned into hits — a
    hit would reorder), failed and cancelled calls are dropped — drives the sequential machine of
    C10 to the same cache content in the same order with the same values, and the same `hits`; the
    history consists only of successful plain calls and the interleaving's own clears / discards;
    and `functools.lru_cache` (the `Spec` machine of C10) run on that history ends in the very same
    state.  PARTIAL: `misses` cannot be matched by any history of this kind — asyncstdlib counts a
    miss at every missing `begin` (also for calls that later turn out to be late duplicates, fail,
    are cancelled or are still in flight), and a `cache_clear` during flight resets the counter of a
    call that inserts afterwards; what holds without `cache_clear` is the inequality
    `sequential misses + calls still in flight ≤ misses`. -/
theorem C11_overlap_equals_some_sequential_history_partial (n : Nat) (hn : 1 ≤ n) (typed : Bool) (ops : List COp) :
    let cfg : Cfg := ⟨.bounded n, typed⟩
    let hist := seqHistory cfg CSt.init ops
    let σ := final (Impl.step cfg) St.init hist
    let s := crun cfg CSt.init ops
    σ.store = s.core.store ∧ σ.hits = s.core.hits ∧
    final (Spec.step cfg) St.init hist = σ ∧
    (∀ o ∈ hist, (∃ p v, o = Op.call p (.ok v)) ∨ (o = Op.clear ∧ COp.clear ∈ ops) ∨
      (∃ p, o = Op.discard p ∧ COp.discard p ∈ ops)) ∧
    ((∀ op ∈ ops, op ≠ .clear) → σ.misses + s.inflight.length ≤ s.core.misses) := by
  intro cfg hist σ s
  have h := seq_run n typed ops CSt.init St.init rfl rfl
  refine ⟨h.1, h.2.1, ?_, seqHistory_shape cfg ops CSt.init, ?_⟩
  · exact (final_eq cfg hn hist St.init (Wf.init _)).symm
  · intro hop
    exact h.2.2 hop (by simp [CSt.init, St.init])

/-- The same for task programs under any schedule of `send`s and cancellations: the cache after the
    schedule is the cache after the interleaving of machine steps the schedule performed, so the
    four theorems above apply to every set of tasks and every schedule. -/
theorem C11_order_schedules (n : Nat) (hn : 1 ≤ n) (typed : Bool) (tasks : List Task) (sched : List SOp) :
    let cfg : Cfg := ⟨.bounded n, typed⟩
    let ops := (schedEvents cfg (CSt.init, tasks) sched).map Prod.fst
    let x := trun cfg (CSt.init, []) ops
    (schedFinal cfg (CSt.init, tasks) sched).1 = x.1 ∧
    keys typed x.1.core.store = (recency x.2).filter (fun k => decide (k ∈ keys typed x.1.core.store)) ∧
    (final (Impl.step cfg) St.init (seqHistory cfg CSt.init ops)).store = x.1.core.store := by
  intro cfg ops x
  have h1 := C11_order_is_completion_then_hit_order n hn typed ops
  have h4 := C11_overlap_equals_some_sequential_history_partial n hn typed ops
  simp only at h1 h4
  refine ⟨?_, h1.2.2.1, ?_⟩
  · rw [schedFinal_crun]; exact h1.1.symm
  · rw [h4.1]; exact congrArg (fun y => y.core.store) h1.1.symm

/-! ## Examples -/
private def k (n : Int) : Pattern := ⟨[.prim (.int n)], []⟩
private def c2 : Cfg := ⟨.bounded 2, false⟩
private def ops1 : List COp :=
  [.begin 0 (k 1), .begin 1 (k 2), .begin 2 (k 3), .begin 3 (k 2), .finish 2 (.ok 30), .finish 1 (.ok 20),
   .finish 3 (.ok 21), .begin 4 (k 3), .finish 0 (.ok 10)]


/-- `ops1` (maxsize 2): the misses start in the order 1, 2, 3, 2 but complete in the order 3, 2, (2:
    late duplicate), then 3 is hit, then 1 completes and evicts 2 (not 3, which was hit later). -/
example : trun c2 (CSt.init, []) ops1
    = (⟨⟨1, 4, [(k 3, 30), (k 1, 10)]⟩, []⟩, [keyOf false (k 3), keyOf false (k 2), keyOf false (k 3), keyOf false (k 1)]) := by
  decide

example : recency (trun c2 (CSt.init, []) ops1).2 = [keyOf false (k 2), keyOf false (k 3), keyOf false (k 1)] ∧
    keys false (trun c2 (CSt.init, []) ops1).1.core.store = [keyOf false (k 3), keyOf false (k 1)] ∧
    lastN 2 (recency (trun c2 (CSt.init, []) ops1).2) = [keyOf false (k 3), keyOf false (k 1)] ∧
    (∀ op ∈ ops1, ∀ p, op ≠ .discard p) := by
  refine ⟨by decide, by decide, by decide, ?_⟩
  intro op hop p h
  subst h
  simp [ops1] at hop

/-- with a discard, a cancellation, a failure and a clear during flight -/
private def ops2 : List COp :=
  [.begin 0 (k 1), .begin 1 (k 2), .finish 1 (.ok 20), .finish 0 (.ok 10), .begin 2 (k 2), .discard (k 1),
   .begin 3 (k 3), .begin 4 (k 4), .begin 5 (k 5), .finish 4 .cancel, .finish 5 (.fail 7), .finish 3 (.ok 30),
   .begin 6 (k 6), .clear, .finish 6 (.ok 60)]

example : trun c2 (CSt.init, []) (ops2.take 12)
    = (⟨⟨1, 5, [(k 2, 20), (k 3, 30)]⟩, []⟩,
       [keyOf false (k 2), keyOf false (k 1), keyOf false (k 2), keyOf false (k 3)]) ∧
    trun c2 (CSt.init, []) ops2 = (⟨⟨0, 0, [(k 6, 60)]⟩, []⟩, [keyOf false (k 6)]) := by decide

/-- the eviction in `ops1`: before the last step the cache is full with 2 (touched at step 6) and 3
    (hit at step 8); call 0 (pattern 1) is in flight and absent: its `finish` evicts 2 -/
example : lookupCall 0 (trun c2 (CSt.init, []) ops1.dropLast).1.inflight = some (k 1) ∧
    find (Impl.eqv false) (k 1) (trun c2 (CSt.init, []) ops1.dropLast).1.core.store = none ∧
    (trun c2 (CSt.init, []) ops1.dropLast).1.core.store = [(k 2, 20), (k 3, 30)] ∧
    (cstep c2 (trun c2 (CSt.init, []) ops1.dropLast).1 (.finish 0 (.ok 10))).1.core.store = [(k 3, 30), (k 1, 10)] ∧
    recency (trun c2 (CSt.init, []) ops1.dropLast).2 = [keyOf false (k 2), keyOf false (k 3)] := by decide

/-- the late duplicate in `ops1`: after six steps call 3 (pattern 2) is in flight while call 1 has
    already stored pattern 2 -/
example : lookupCall 3 (trun c2 (CSt.init, []) (ops1.take 6)).1.inflight = some (k 2) ∧
    find (Impl.eqv c2.typed) (k 2) (trun c2 (CSt.init, []) (ops1.take 6)).1.core.store = some (k 2, 20) ∧
    (cstep c2 (trun c2 (CSt.init, []) (ops1.take 6)).1 (.finish 3 (.ok 21))).1.core
      = ⟨0, 4, [(k 3, 30), (k 2, 20)]⟩ := by decide

/-- the sequential history of `ops1`, and the counters: hits agree, misses 3 against 4 -/
example : seqHistory c2 CSt.init ops1
      = [.call (k 3) (.ok 30), .call (k 2) (.ok 20), .call (k 3) (.ok 0), .call (k 1) (.ok 10)] ∧
    final (Impl.step c2) St.init (seqHistory c2 CSt.init ops1) = ⟨1, 3, [(k 3, 30), (k 1, 10)]⟩ ∧
    (crun c2 CSt.init ops1).core = ⟨1, 4, [(k 3, 30), (k 1, 10)]⟩ ∧
    seqHistory c2 CSt.init ops2
      = [.call (k 2) (.ok 20), .call (k 1) (.ok 10), .call (k 2) (.ok 0), .discard (k 1), .call (k 3) (.ok 30),
         .clear, .call (k 6) (.ok 60)] := by decide

/-- through the task layer: two tasks whose calls overlap -/
example : (schedFinal c2 (CSt.init, [⟨[.call (k 1) 2 (.ok 5), .call (k 2) 0 (.ok 6)], 0, none⟩,
      ⟨[.call (k 1) 1 (.ok 7), .call (k 3) 0 (.ok 8)], 0, none⟩]) [.send 0, .send 1, .send 0, .send 1, .send 0]).1.core
    = ⟨0, 4, [(k 3, 8), (k 2, 6)]⟩ := by decide

end AsyncVerif.Lru
