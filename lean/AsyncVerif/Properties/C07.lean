import AsyncVerif.Proofs.Borrow
/-!
# C07 — a borrowed iterator can never close its underlying iterator

Property theorems only.  Model: `Machines/Borrow.lean` (`pullU`/`cancelU`/`closeU` = the underlying
iterator, `pullH` = `_BorrowedAsyncIterator.__anext__` through the wrapper generators, `step` = one
operation on the underlying iterator or on a handle, `TOp.tool` = a library tool handed a handle).
All theorems quantify over every state `s` (every underlying iterator: async generator or
class-based, with or without aclose/asend, any script with faults, any handle tree) and every
finite operation sequence.
-/
namespace AsyncVerif.Borrow

/-- Whatever is done through handles — pulling, pulling with a cancellation thrown in, `asend`,
    closing a handle directly or via `aiter(handle)`, re-borrowing, opening scopes — no `aclose()`
    call ever reaches the underlying iterator, it never becomes "closed", and its log gets no
    `close` event.  (`handleOnly` excludes exactly: the owner's own `U.aclose()` and leaving a
    scope, which is C08's subject.) -/
theorem C07_underlying_never_closed (s : State) (ops : List Op)
    (h : ∀ op ∈ ops, op.handleOnly = true) :
    (exec s ops).u.closeReqs = s.u.closeReqs
    ∧ ((exec s ops).u.status = .closed → s.u.status = .closed)
    ∧ (exec s ops).u.log.count .close = s.u.log.count .close := by
  have h0 := closeOps_handleOnly ops s h
  have hk := exec_keep ops s h0
  exact ⟨by rw [exec_closeReqs, h0]; rfl, hk.notClosed, hk.closeLog⟩

/-- a top-level operation of someone who holds only handles -/
def TOp.handleOnly : TOp → Bool
  | .prim op => op.handleOnly
  | .tool t _ _ _ => t.isSome

/-- The same for library tools: handing handles to any tools — each being any number of pulls,
    possibly a cancelled pull, possibly closing the handle — never closes the underlying iterator. -/
theorem C07_tools_never_close (s : State) (tops : List TOp)
    (h : ∀ top ∈ tops, top.handleOnly = true) :
    (execT s tops).u.closeReqs = s.u.closeReqs
    ∧ ((execT s tops).u.status = .closed → s.u.status = .closed)
    ∧ (execT s tops).u.log.count .close = s.u.log.count .close := by
  apply C07_underlying_never_closed
  intro op hop
  simp only [flatten, List.mem_flatMap] at hop
  obtain ⟨top, htop, hmem⟩ := hop
  have ht := h top htop
  cases top with
  | prim o =>
    simp only [TOp.expand, List.mem_singleton] at hmem
    subst hmem; exact ht
  | tool t k c cl =>
    cases t with
    | none => simp [TOp.handleOnly] at ht
    | some x =>
      simp only [TOp.expand, List.mem_append, List.mem_replicate] at hmem
      rcases hmem with (⟨_, e⟩ | hm) | hm
      · subst e; rfl
      · cases c <;> simp at hm; subst hm; rfl
      · cases cl <;> simp at hm; subst hm; rfl

/-- Items leave the underlying iterator exactly once and in script order, each as the outcome of
    the very operation that pulled it (through whichever handle, by `__anext__` or `asend`, or
    directly by the owner): the items still in the script before the run are the items delivered
    during the run followed by the items still in the script afterwards. -/
theorem C07_items_exactly_once_in_order (s : State) (ops : List Op) :
    itemsOf s.u.rest = delivered (outs s ops) ++ itemsOf (exec s ops).u.rest :=
  exec_items ops s

/-- Closing a borrowed handle — directly or through `aiter(handle)` — makes it inert for ever:
    after any further operations whatsoever, pulling it (also with a cancellation, also through
    `asend`) yields nothing and changes nothing: the underlying iterator is not advanced. -/
theorem C07_closed_handle_inert (s : State) (h : Nat) (hd : Handle) (hh : s.hs[h]? = some hd)
    (hb : hd.kind = .borrowed) (viaIter : Bool) (ops : List Op) :
    let s' := exec (step s (if viaIter then .closeIter h else .close (some h))).1 ops
    step s' (.next (some h)) = (s', .res .stop)
    ∧ step s' (.nextCancel (some h)) = (s', .res .stop)
    ∧ (step s' (.send h) = (s', .res .stop) ∨ step s' (.send h) = (s', .noattr)) := by
  have hv : validT s (some h) = true := by simp [validT, lt_of_getElem? hh]
  have e : (step s (if viaIter then .closeIter h else .close (some h))).1
      = { s with hs := s.hs.modify h closeWrapper } := by
    cases viaIter <;> simp [step, hv, closeT_borrowed s h hd hh hb]
  intro s'
  have h1 : ({ s with hs := s.hs.modify h closeWrapper } : State).hs[h]? = some (closeWrapper hd) :=
    getElem?_modify_self s.hs h hd closeWrapper hh
  rw [← e] at h1
  obtain ⟨hd', e', hi, _⟩ := inert_exec ops _ h _ h1 (closeWrapper_inert hd)
  exact inert_next s' h hd' e' hi

/-- The underlying iterator keeps yielding its remaining items to its owner in order: after any
    operations through handles (no cancellation thrown into it), on a script without faults, the
    owner's direct pulls deliver exactly the remaining items, then StopAsyncIteration; and together
    with what was delivered before, that is the whole script. -/
theorem C07_owner_gets_rest (s : State) (ops : List Op)
    (h : ∀ op ∈ ops, op.handleOnly = true ∧ op.noCancel = true) (hu : Usable s.u) :
    outs (exec s ops) (drain ((exec s ops).u.rest.length + 1))
        = (itemsOf (exec s ops).u.rest).map (fun v => Out.res (.item v)) ++ [.res .stop]
    ∧ itemsOf s.u.rest = delivered (outs s ops) ++ itemsOf (exec s ops).u.rest :=
  ⟨drain_usable _ _ rfl (exec_usable ops s h hu), exec_items ops s⟩

/-- The recursion budget of the model is adequate: starting from a fresh underlying iterator, no
    operation ever ends with the budget exhausted (`stuck`), so `pullH` really follows the whole
    chain of wrappers down to the underlying iterator. -/
theorem C07_fuel_adequate (u : U) (ops : List Op) :
    ∀ o ∈ outs (init u) ops, o ≠ .res .stuck := by
  have key : ∀ (ops : List Op) (s : State), WFh s.hs → ∀ o ∈ outs s ops, o ≠ .res .stuck := by
    intro ops
    induction ops with
    | nil => intro s _ o ho; simp [outs] at ho
    | cons op r ih =>
      intro s hw o ho
      simp only [outs, List.mem_cons] at ho
      rcases ho with ho | ho
      · subst ho
        cases op with
        | next t =>
          simp only [step]
          split
          · rename_i hv
            intro hc
            injection hc with hc
            refine pullH_not_stuck false _ s t hw ?_ hc
            intro x hx; subst hx
            have : x < s.hs.length := by simpa [validT] using hv
            exact ⟨this, this⟩
          · simp
        | nextCancel t =>
          simp only [step]
          split
          · rename_i hv
            intro hc
            injection hc with hc
            refine pullH_not_stuck true _ s t hw ?_ hc
            intro x hx; subst hx
            have : x < s.hs.length := by simpa [validT] using hv
            exact ⟨this, this⟩
          · simp
        | send x =>
          simp only [step]
          split
          · simp
          · split
            · simp
            · simp
            · intro hc; injection hc with hc; exact pullU_not_stuck true s.u hc
        | close t => simp only [step]; split <;> (try split) <;> simp
        | closeIter x => simp only [step]; split <;> simp
        | borrow t => simp only [step]; split <;> simp
        | enter t => simp only [step]; split <;> (try split) <;> simp
        | exit c m => simp only [step]; split <;> (try split) <;> simp
      · exact ih _ (step_wf s op hw) o ho
  exact key ops (init u) (by intro h hd hh; simp [init] at hh)

/-! Non-vacuity: an async generator with five items; borrow, pull, re-borrow, hand the re-borrowed
    handle to a tool (one pull, then close), use the dead handle, `asend` through the first one,
    close it via `aiter`, pull directly. -/
private def u0 : U :=
  { gen := true, hasClose := true, hasSend := true,
    rest := [.item 1, .item 2, .item 3, .item 4, .item 5], status := .fresh, log := [], closeReqs := 0 }

private def prog : List TOp :=
  [.prim (.borrow none), .prim (.next (some 0)), .prim (.borrow (some 0)), .tool (some 1) 1 false true,
   .prim (.next (some 1)), .prim (.send 0), .prim (.closeIter 0), .prim (.next (some 0)),
   .prim (.send 0), .prim (.next none)]

example : ∀ top ∈ prog, top.handleOnly = true := by decide
example : ∀ op ∈ flatten prog, op.handleOnly = true ∧ op.noCancel = true := by decide
example : Usable (init u0).u := ⟨Or.inl (by decide), by decide⟩
example : outs (init u0) (flatten prog)
    = [.handle 0, .res (.item 1), .handle 1, .res (.item 2), .ok, .res .stop, .res (.item 3), .ok,
       .res .stop, .res .stop, .res (.item 4)] := by decide
example : (execT (init u0) prog).u.status = .live ∧ (execT (init u0) prog).u.closeReqs = 0
    ∧ itemsOf (execT (init u0) prog).u.rest = [5] := by decide
example : (init u0).hs[0]? = none ∧ (exec (init u0) [.borrow none]).hs[0]?
    = some { parent := none, kind := .borrowed, wopen := true, send := .direct } := by decide

/-- Not claimed, and shown here on purpose: a handle re-borrowed while its parent was open keeps
    `asend` bound to the underlying iterator — after the parent is closed its `__anext__` yields
    nothing, but its `asend` still advances the underlying iterator (the real code does the same). -/
example : outs (init u0) [.borrow none, .borrow (some 0), .close (some 0), .next (some 1), .send 1, .send 0]
    = [.handle 0, .handle 1, .ok, .res .stop, .res (.item 1), .res .stop] := by decide

end AsyncVerif.Borrow
