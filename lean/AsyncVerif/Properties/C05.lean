import AsyncVerif.Impl.Aggregations
import AsyncVerif.Proofs.Core
import AsyncVerif.Proofs.TwinMore
import AsyncVerif.Proofs.Chain
/-!
# C05 — laziness: sources pulled and callables invoked in the stdlib's order

`Twin a b`: in **every** world — every input, every fault script, every number of consumer steps and
every way the consumer ends (exhaust / close / throw) — `a` and `b` end the same way and leave the
same interleaved log of pulls, end-of-source detections, callable invocations with their arguments
and results, and yields.  `Impl.T` models asyncstdlib, `Std.T` the CPython algorithm.
-/
namespace AsyncVerif

theorem C05_filter (fn : Option Nat) (s fuel : Nat) :
    Twin (Impl.filter fn s fuel) (Std.filterLoop fn false s fuel) := scopedIter_twin s _

theorem C05_filterfalse (fn : Option Nat) (s fuel : Nat) :
    Twin (Impl.filterfalse fn s fuel) (Std.filterLoop fn true s fuel) := scopedIter_twin s _

theorem C05_enumerate (s : Nat) (start : Int) (fuel : Nat) :
    Twin (Impl.enumerate s start fuel) (Std.enumerateLoop s start fuel) := scopedIter_twin s _

theorem C05_takewhile (f s fuel : Nat) :
    Twin (Impl.takewhile f s fuel) (Std.takewhileLoop f s fuel) := scopedIter_twin s _

theorem C05_starmap (f s fuel : Nat) :
    Twin (Impl.starmap f s fuel) (Std.starmapLoop f s fuel) := scopedIter_twin s _

theorem C05_accumulate (fn : Option Nat) (initial : Option Val) (s fuel : Nat) :
    Twin (Impl.accumulate fn initial s fuel) (Std.accumulate fn initial s fuel) := scopedIter_twin s _

theorem C05_batched (n : Nat) (strict : Bool) (s fuel : Nat) :
    Twin (Impl.batched n strict s fuel) (Std.batched n strict s fuel) := by
  unfold Impl.batched Std.batched
  split
  · exact Twin.refl _
  · exact scopedIter_twin s _

theorem C05_pairwise (s fuel : Nat) : Twin (Impl.pairwise s fuel) (Std.pairwise s fuel) :=
  scopedIter_twin s _

theorem C05_zip (srcs : List Nat) (fuel : Nat) : Twin (Impl.zip srcs fuel) (Std.zip srcs fuel) := by
  unfold Impl.zip Std.zip
  split
  · exact Twin.refl _
  · exact tryFinally_twin _ _ (closeAll_quiet srcs)

theorem C05_zip_strict (srcs : List Nat) (fuel : Nat) :
    Twin (Impl.zipStrict srcs fuel) (Std.zipStrict srcs fuel) := by
  unfold Impl.zipStrict Std.zipStrict
  split
  · exact Twin.refl _
  · exact tryFinally_twin _ _ (closeAll_quiet srcs)

theorem C05_map (f : Nat) (srcs : List Nat) (fuel : Nat) :
    Twin (Impl.map f srcs fuel) (Std.map f srcs fuel) := by
  unfold Impl.map Std.map
  split
  · exact Twin.refl _
  · exact tryFinally_twin _ _ (closeAll_quiet srcs)

theorem C05_zip_longest (fillv : Val) (srcs : List Nat) (fuel : Nat) :
    Twin (Impl.zipLongest fillv srcs fuel) (Std.zipLongest fillv srcs fuel) := by
  unfold Impl.zipLongest Std.zipLongest
  split
  · exact Twin.refl _
  · exact tryFinally_twin _ _ (closeAll_quiet srcs)

theorem C05_iter_sentinel (f : Nat) (sentinel : Val) (fuel : Nat) :
    Twin (Impl.iterSentinel f sentinel fuel) (Std.iterSentinel f sentinel fuel) := Twin.refl _

/-- `cycle`: the first pass is scoped, the replay phase touches only the consumer -/
theorem C05_cycle (s fuel : Nat) : Twin (Impl.cycle s fuel) (Std.cycle s fuel) := by
  unfold Impl.cycle Std.cycle
  exact twin_bind_visOnly (fun w => tryFinally_quiet _ _ (closeSrc_quiet s) w) (fun buf => visOnly_replay buf fuel [])

/-- `merge`: asyncstdlib's merge is heapq's algorithm inside `try … finally` closing every iterator -/
theorem C05_merge (fn : Option Nat) (reverse : Bool) (srcs : List Nat) (fuel : Nat) :
    Twin (Impl.merge fn reverse srcs fuel) (Std.merge fn reverse srcs fuel) :=
  tryFinally_twin _ _ (closeAll_quiet srcs)

/-- `chain`: every input in its own scope, then on to the next one; the handle's `aclose()` closes owned
    iterators.  Proved through a relation between the two runs' worlds (`VR`), since after the first
    input they differ (closed vs. merely exhausted). -/
theorem C05_chain (srcs : List Nat) (fuel : Nat) : Twin (Impl.chain srcs fuel) (Std.chain srcs fuel) :=
  chain_twin srcs fuel

/-- `dropwhile`: asyncstdlib's two loops over one iterator = `dropwhile_next`'s single loop with a flag -/
theorem C05_dropwhile (f s fuel : Nat) : Twin (Impl.dropwhile f s fuel) (Std.dropwhileLoop f s false fuel) := by
  have h1 := scopedIter_twin s (do match ← Impl.dropPhase f s fuel with
        | some rest => forEach s (fun x => do yieldV x; pure true) rest
        | none => pure () : M Unit)
  intro w
  rw [← dropwhile_body_eq f s fuel w]
  exact h1 w

/-- `compress`: two scopes around a `zip` of both iterators = `compress_next` -/
theorem C05_compress (d sel fuel : Nat) : Twin (Impl.compress d sel fuel) (Std.compressLoop d sel fuel) := by
  have h1 : Twin (Impl.compress d sel fuel) (Std.zipLoop [d, sel] compressK fuel) := by
    unfold Impl.compress
    exact (scopedIter_twin d _).trans ((scopedIter_twin sel _).trans (tryFinally_twin _ _ (closeAll_quiet _)))
  intro w
  rw [← zipLoop_eq_compressLoop d sel fuel w]
  exact h1 w

theorem C05_all (s fuel : Nat) : Twin (Impl.all s fuel) (Std.allLoop s fuel) := scopedIter_twin s _
theorem C05_any (s fuel : Nat) : Twin (Impl.any s fuel) (Std.anyLoop s fuel) := scopedIter_twin s _

end AsyncVerif
