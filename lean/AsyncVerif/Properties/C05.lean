import AsyncVerif.Impl.Aggregations
import AsyncVerif.Proofs.Core
import AsyncVerif.Proofs.TwinMore
import AsyncVerif.Proofs.Chain
import AsyncVerif.Proofs.IsliceTwin
/-!
# C05 — laziness: sources pulled and callables invoked in the stdlib's order

`Twin a b`: in **every** world — every input, every fault script, every number of consumer steps and
every way the consumer ends (exhaust / close / throw) — `a` and `b` end the same way and leave the
same interleaved log of pulls, end-of-source detections, callable invocations with their arguments
and results, and yields.  `Impl.T` models asyncstdlib, `Std.T` the CPython algorithm.
-/
namespace AsyncVerif

theorem C05_filter (fn : Option Nat) (s fuel : Nat) :
    Twin (Impl.filter fn s fuel) (Std.filterLoop fn false s fuel) := scopedIter_twin s _

theorem C05_filterfalse (fn : Option Nat) (s fuel : Nat) :
    Twin (Impl.filterfalse fn s fuel) (Std.filterLoop fn true s fuel) := scopedIter_twin s _

theorem C05_enumerate (s : Nat) (start : Int) (fuel : Nat) :
    Twin (Impl.enumerate s start fuel) (Std.enumerateLoop s start fuel) := scopedIter_twin s _

theorem C05_takewhile (f s fuel : Nat) :
    Twin (Impl.takewhile f s fuel) (Std.takewhileLoop f s fuel) := scopedIter_twin s _

theorem C05_starmap (f s fuel : Nat) :
    Twin (Impl.starmap f s fuel) (Std.starmapLoop f s fuel) := scopedIter_twin s _

theorem C05_accumulate (fn : Option Nat) (initial : Option Val) (s fuel : Nat) :
    Twin (Impl.accumulate fn initial s fuel) (Std.accumulate fn initial s fuel) := scopedIter_twin s _

theorem C05_batched (n : Nat) (strict : Bool) (s fuel : Nat) :
    Twin (Impl.batched n strict s fuel) (Std.batched n strict s fuel) := by
  unfold Impl.batched Std.batched
  split
  · exact Twin.refl _
  · exact scopedIter_twin s _

theorem C05_pairwise (s fuel : Nat) : Twin (Impl.pairwise s fuel) (Std.pairwise s fuel) :=
  scopedIter_twin s _

theorem C05_zip (srcs : List Nat) (fuel : Nat) : Twin (Impl.zip srcs fuel) (Std.zip srcs fuel) := by
  unfold Impl.zip Std.zip
  split
  · exact Twin.refl _
  · exact tryFinally_twin _ _ (closeAll_quiet srcs)

theorem C05_zip_strict (srcs : List Nat) (fuel : Nat) :
    Twin (Impl.zipStrict srcs fuel) (Std.zipStrict srcs fuel) := by
  unfold Impl.zipStrict Std.zipStrict
  split
  · exact Twin.refl _
  · exact tryFinally_twin _ _ (closeAll_quiet srcs)

theorem C05_map (f : Nat) (srcs : List Nat) (fuel : Nat) :
    Twin (Impl.map f srcs fuel) (Std.map f srcs fuel) := by
  unfold Impl.map Std.map
  split
  · exact Twin.refl _
  · exact tryFinally_twin _ _ (closeAll_quiet srcs)

theorem C05_zip_longest (fillv : Val) (srcs : List Nat) (fuel : Nat) :
    Twin (Impl.zipLongest fillv srcs fuel) (Std.zipLongest fillv srcs fuel) := by
  unfold Impl.zipLongest Std.zipLongest
  split
  · exact Twin.refl _
  · exact tryFinally_twin _ _ (closeAll_quiet srcs)

theorem C05_iter_sentinel (f : Nat) (sentinel : Val) (fuel : Nat) :
    Twin (Impl.iterSentinel f sentinel fuel) (Std.iterSentinel f sentinel fuel) := Twin.refl _

/-- `cycle`: the first pass is scoped, the replay phase touches only the consumer -/
theorem C05_cycle (s fuel : Nat) : Twin (Impl.cycle s fuel) (Std.cycle s fuel) := by
  unfold Impl.cycle Std.cycle
  exact twin_bind_visOnly (fun w => tryFinally_quiet _ _ (closeSrc_quiet s) w) (fun buf => visOnly_replay buf fuel [])

/-- `merge`: asyncstdlib's merge is heapq's algorithm inside `try … finally` closing every iterator -/
theorem C05_merge (fn : Option Nat) (reverse : Bool) (srcs : List Nat) (fuel : Nat) :
    Twin (Impl.merge fn reverse srcs fuel) (Std.merge fn reverse srcs fuel) :=
  tryFinally_twin _ _ (closeAll_quiet srcs)

/-- `chain`: every input in its own scope, then on to the next one; the handle's `aclose()` closes owned
    iterators.  Proved through a relation between the two runs' worlds (`VR`), since after the first
    input they differ (closed vs. merely exhausted). -/
theorem C05_chain (srcs : List Nat) (fuel : Nat) : Twin (Impl.chain srcs fuel) (Std.chain srcs fuel) :=
  chain_twin srcs fuel

/-- `dropwhile`: asyncstdlib's two loops over one iterator = `dropwhile_next`'s single loop with a flag -/
theorem C05_dropwhile (f s fuel : Nat) : Twin (Impl.dropwhile f s fuel) (Std.dropwhileLoop f s false fuel) := by
  have h1 := scopedIter_twin s (do match ← Impl.dropPhase f s fuel with
        | some rest => forEach s (fun x => do yieldV x; pure true) rest
        | none => pure () : M Unit)
  intro w
  rw [← dropwhile_body_eq f s fuel w]
  exact h1 w

/-- `compress`: two scopes around a `zip` of both iterators = `compress_next` -/
theorem C05_compress (d sel fuel : Nat) : Twin (Impl.compress d sel fuel) (Std.compressLoop d sel fuel) := by
  have h1 : Twin (Impl.compress d sel fuel) (Std.zipLoop [d, sel] compressK fuel) := by
    unfold Impl.compress
    exact (scopedIter_twin d _).trans ((scopedIter_twin sel _).trans (tryFinally_twin _ _ (closeAll_quiet _)))
  intro w
  rw [← zipLoop_eq_compressLoop d sel fuel w]
  exact h1 w

theorem C05_all (s fuel : Nat) : Twin (Impl.all s fuel) (Std.allLoop s fuel) := scopedIter_twin s _
theorem C05_any (s fuel : Nat) : Twin (Impl.any s fuel) (Std.anyLoop s fuel) := scopedIter_twin s _

/-! ## islice

asyncstdlib's `islice` (skip `start` items, then an indexed loop with a limit) and CPython's `islice_next`
(`cnt`/`next` state machine) are different loop structures, and their models burn fuel at different rates
(asyncstdlib: one unit per pulled item; CPython: one unit per yielded item).  A literal `Twin` at equal
fuel is therefore false at the fuel boundary (see the last example below); the twin is stated *up to
fuel*, together with the proof that the fuel hypothesis is satisfiable in every world. -/

/-- twin up to fuel: whenever neither run hits the model's fuel bound, same outcome and same visible log -/
theorem C05_islice (s start : Nat) (stop : Option Nat) (step : Nat) (hstep : 1 ≤ step) (f1 f2 : Nat) (w : World)
    (h1 : (Impl.islice s start stop step f1 w).1 ≠ .error .outOfFuel)
    (h2 : (Std.islice s start stop step f2 w).1 ≠ .error .outOfFuel) :
    (Impl.islice s start stop step f1 w).1 = (Std.islice s start stop step f2 w).1 ∧
    (Impl.islice s start stop step f1 w).2.vis = (Std.islice s start stop step f2 w).2.vis :=
  IsliceTwin.islice_twin s start stop step hstep f1 f2 w h1 h2

/-- fuel adequacy, asyncstdlib side: in every world (any source kind/status, any fault script, any consumer)
    `script length of s + 1` units of fuel are enough -/
theorem islice_impl_fuel_adequate (s start : Nat) (stop : Option Nat) (step : Nat) (w : World) (f : Nat)
    (hf : (w.srcs s).script.length + 1 ≤ f) :
    (Impl.islice s start stop step f w).1 ≠ .error .outOfFuel :=
  IsliceTwin.islice_impl_adequate s start stop step f w hf

/-- fuel adequacy, CPython side -/
theorem islice_std_fuel_adequate (s start : Nat) (stop : Option Nat) (step : Nat) (w : World) (f : Nat)
    (hf : (w.srcs s).script.length + 1 ≤ f) :
    (Std.islice s start stop step f w).1 ≠ .error .outOfFuel :=
  IsliceTwin.islice_std_adequate s start stop step f w hf

/-- the two combined: with enough fuel on both sides (not necessarily the same amount), in **every**
    world the two `islice`s end the same way and leave the same visible log -/
theorem C05_islice_fueled (s start : Nat) (stop : Option Nat) (step : Nat) (hstep : 1 ≤ step) (f1 f2 : Nat)
    (w : World) (hf1 : (w.srcs s).script.length + 1 ≤ f1) (hf2 : (w.srcs s).script.length + 1 ≤ f2) :
    (Impl.islice s start stop step f1 w).1 = (Std.islice s start stop step f2 w).1 ∧
    (Impl.islice s start stop step f1 w).2.vis = (Std.islice s start stop step f2 w).2.vis :=
  C05_islice s start stop step hstep f1 f2 w
    (islice_impl_fuel_adequate s start stop step w f1 hf1)
    (islice_std_fuel_adequate s start stop step w f2 hf2)

/-! ### The hypotheses are satisfiable on concrete, non-trivial worlds -/

section Examples

private def it (n : Nat) : Resp := .item (.obj n n)

/-- source 0: a class-based iterator delivering seven items; source 1: a generator that fails at its
    fourth `__anext__`; the consumer takes two items more and then closes the tool -/
private def exW : World where
  srcs := fun s =>
    if s = 0 then { kind := .aobj, script := [it 0, it 1, it 2, it 3, it 4, it 5, it 6] }
    else { kind := .agen, script := [it 0, it 1, it 2, .err 9, it 4] }
  fns := fun _ _ _ => .ok .none
  calls := fun _ => 0
  cons := .run 2 .close
  vis := []
  rel := []

-- consumer closes at the third yield (indices 1, 3, 5 of source 0): both end with GeneratorExit
private theorem exImpl : (Impl.islice 0 1 (some 7) 2 6 exW).1 = .error .genExit := by rfl
private theorem exStd : (Std.islice 0 1 (some 7) 2 3 exW).1 = .error .genExit := by rfl
example : (Impl.islice 0 1 (some 7) 2 6 exW).2.vis = (Std.islice 0 1 (some 7) 2 3 exW).2.vis :=
  (C05_islice 0 1 (some 7) 2 (by decide) 6 3 exW (by rw [exImpl]; simp) (by rw [exStd]; simp)).2
-- the source fails while items are being skipped: both propagate the fault after the same log
example : (Impl.islice 1 0 none 3 6 exW).1 = .error (.user 9) := by rfl
example : (Impl.islice 1 0 none 3 6 exW).2.vis = (Std.islice 1 0 none 3 6 exW).2.vis :=
  (C05_islice_fueled 1 0 none 3 (by decide) 6 6 exW (by decide) (by decide)).2
-- an exhausting consumer, `stop` cutting the slice: source 0 is pulled exactly `stop = 5` times
example : (Impl.islice 0 2 (some 5) 2 8 { exW with cons := .run 0 .exhaust }).2.vis
    = [.pull 0, .item 0 (.obj 0 0), .pull 0, .item 0 (.obj 1 1), .pull 0, .item 0 (.obj 2 2), .yld (.obj 2 2),
       .pull 0, .item 0 (.obj 3 3), .pull 0, .item 0 (.obj 4 4), .yld (.obj 4 4)] := by rfl
-- why "up to fuel": at equal fuel 4 CPython's model (one unit per yield) is done, asyncstdlib's model
-- (one unit per pull) is not — a literal `Twin` at equal fuel does not hold at the boundary
example : (Std.islice 0 0 none 2 5 { exW with cons := .run 0 .exhaust }).1 = .ok () := by rfl
example : (Impl.islice 0 0 none 2 5 { exW with cons := .run 0 .exhaust }).1 = .error .outOfFuel := by rfl

end Examples

end AsyncVerif
