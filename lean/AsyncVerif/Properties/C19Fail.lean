import AsyncVerif.Proofs.AdaptersFail
/-!
# C19 — asynctools adapters on the failure and early-end paths

Property theorems only.  Model: `Machines/AdaptersFail.lean` (`apply`, `eachStep` = `await_each`,
`anyStep` = `any_iter`, `asyncWrapped`/`syncRun` = the wrapper returned by `sync`).  User
awaitables are numbered by position; `seg i a` / `segs i l` are the complete undisturbed awaits,
`itemSteps` the requests that deliver items undisturbed; a `Cut` `some (n, c)` = the event loop
resumes `n` suspensions and throws exception `c` into the next.
-/
namespace AsyncVerif.AdaptersFail
open AsyncVerif.Adapters (Val Exc Res Kind)

/-! ## apply -/

/-- Whatever comes later (`rest`: more arguments, failing or not, or nothing), a prefix `pre` of the
    arguments of `apply` — positional first, then keywords, in order — that all are awaitables
    completing with a value before the event loop throws anything in, is awaited first: each
    awaitable entered once, driven through all its suspensions, strictly one after the other in
    argument order (`segs 0 pre`), before any other event.  If that prefix is everything, the
    function is then called exactly once with the positional values and the keyword values under
    their names, and the outcome is the function's own result: its value, or the exception it
    raises. -/
theorem C19_apply_awaits_in_order_until_failure (f : Fn) (args : List Arg) (kwargs : List (Nat × Arg))
    (cut : Cut) (pre rest : List Arg) (vs : List Val)
    (hall : args ++ kwargs.map Prod.snd = pre ++ rest)
    (hpre : pre.map Arg.res = vs.map Res.ok) (hcut : cut.allows (suspCount pre) = true) :
    (∃ tail, (apply f args kwargs cut).1 = segs 0 pre ++ tail) ∧
    (rest = [] → apply f args kwargs cut
      = (segs 0 pre ++ [Ev.call (vs.take args.length) ((kwargs.map Prod.fst).zip (vs.drop args.length))],
          ofRes (f.beh (vs.take args.length) ((kwargs.map Prod.fst).zip (vs.drop args.length))))) := by
  constructor
  · have h := awaitFrom_clean pre vs rest 0 cut hpre hcut
    rw [← hall] at h
    rcases h2 : awaitFrom (0 + pre.length) rest (cut.after (suspCount pre)) with ⟨evs', (e | ws), c⟩
    · rw [h2] at h
      exact ⟨evs', by rw [apply_error f args kwargs cut _ _ _ h]⟩
    · rw [h2] at h
      exact ⟨_, by rw [apply_ok f args kwargs cut _ _ _ h, List.append_assoc]⟩
  · intro hr
    subst hr
    rw [List.append_nil] at hall
    have h := awaitFrom_all pre vs 0 cut hpre hcut
    have h' : awaitFrom 0 (args ++ kwargs.map Prod.snd) cut
        = (segs 0 pre, .ok vs, cut.after (suspCount pre)) := by rw [hall]; exact h
    exact apply_ok f args kwargs cut _ _ _ h'

/-- If the arguments before `bad` all succeed and the await of `bad` fails in whatever way — it is
    not awaitable (`TypeError`), it raises, or the event loop throws an exception in at one of its
    suspensions — then `apply` ends with exactly that failure, and its whole log is: the complete
    awaits of the earlier arguments in order, then the events of the failed await.  Nothing else:
    the arguments `post` after it (positional or keyword) are left untouched — none is awaited,
    the result does not depend on them — and the function is not called. -/
theorem C19_apply_failure_leaves_rest_untouched (f : Fn) (args : List Arg) (kwargs : List (Nat × Arg))
    (cut c' : Cut) (pre : List Arg) (vs : List Val) (bad : Arg) (post : List Arg)
    (evs : List Ev) (err : Err)
    (hall : args ++ kwargs.map Prod.snd = pre ++ bad :: post)
    (hpre : pre.map Arg.res = vs.map Res.ok) (hcut : cut.allows (suspCount pre) = true)
    (hbad : awaitArg pre.length bad (cut.after (suspCount pre)) = (evs, .error err, c')) :
    apply f args kwargs cut = (segs 0 pre ++ evs, .error err) := by
  have h := awaitFrom_stop pre vs bad post 0 cut c' evs err hpre hcut (by simpa using hbad)
  rw [← hall] at h
  exact apply_error f args kwargs cut _ _ _ h

/-- Cancellation: if the event loop throws exception `c` in at a suspension that belongs to
    argument number `pre.length` (the earlier arguments having succeeded with fewer suspensions
    in total than the `n` that are resumed), then the very exception `c` comes out of `apply`;
    the log ends at that suspension — the interrupted awaitable was entered once and suspended
    `n - suspCount pre + 1` times — no later argument is awaited and the function is not called. -/
theorem C19_apply_cancel_propagates_same_exception (f : Fn) (args : List Arg)
    (kwargs : List (Nat × Arg)) (n c : Nat) (pre : List Arg) (vs : List Val) (k : Nat) (r : Res)
    (post : List Arg)
    (hall : args ++ kwargs.map Prod.snd = pre ++ .aw k r :: post)
    (hpre : pre.map Arg.res = vs.map Res.ok)
    (hlo : suspCount pre ≤ n) (hhi : n < suspCount pre + k) :
    apply f args kwargs (some (n, c))
      = (segs 0 pre ++ .await pre.length :: susps (.susp pre.length) (n - suspCount pre + 1),
          .error (.thrown c)) := by
  refine C19_apply_failure_leaves_rest_untouched f args kwargs (some (n, c)) none pre vs (.aw k r)
    post _ _ hall hpre (by simpa [Cut.allows] using hlo) ?_
  simp only [Cut.after]
  exact awaitArg_thrown _ _ _ _ _ (by omega)

/-! ## await_each -/

/-- `await_each` over awaitables of which the first `pre.length` succeed: that many undisturbed
    requests are, request by request, exactly — element `i` taken from the iterable (for a lazily
    producing iterable: produced only now), awaitable `i` entered once and driven through all its
    suspensions, its value handed out — nothing of any other awaitable; and afterwards the
    generator stands exactly before the remaining elements `post`, which are so far neither
    awaited nor (lazy iterable) produced: whatever the consumer does next (`ops`) happens to a
    generator over `post` alone. -/
theorem C19_await_each_lazy_and_once (lazy : Bool) (pre post : List Arg) (vs : List Val)
    (ops : List Op) (hpre : pre.map Arg.res = vs.map Res.ok) :
    run (eachStep lazy) (.live 0 (pre ++ post)) (List.replicate pre.length (.next none) ++ ops)
      = itemSteps lazy 0 pre vs ++ run (eachStep lazy) (.live pre.length post) ops := by
  simpa using each_items lazy pre vs post 0 ops hpre

/-- Early end of `await_each` after `pre.length` delivered items.  (1) Closed: `aclose()` does
    nothing, and every later operation finds a finished generator.  (2) The next request fails
    inside the next awaitable `bad` — it raises, or the event loop throws an exception in at one
    of its suspensions (a cancellation), or it is not awaitable —: that failure comes out of the
    request, whose events are only: element produced (lazy iterable), the failed await; every
    later operation finds a finished generator.  In both cases the whole run contains no event
    of the awaitables `post` after the cut: they are never awaited and, for a lazily producing
    iterable, never produced. -/
theorem C19_await_each_cut_leaves_rest_unawaited (lazy : Bool) (pre post : List Arg) (vs : List Val)
    (ops : List Op) (hpre : pre.map Arg.res = vs.map Res.ok) :
    run (eachStep lazy) (.live 0 (pre ++ post))
        (List.replicate pre.length (.next none) ++ .close :: ops)
      = itemSteps lazy 0 pre vs ++ ([], .closed) :: ops.map deadStep ∧
    ∀ (bad : Arg) (cut c' : Cut) (evs : List Ev) (err : Err),
      awaitArg pre.length bad cut = (evs, .error err, c') →
      run (eachStep lazy) (.live 0 (pre ++ bad :: post))
          (List.replicate pre.length (.next none) ++ .next cut :: ops)
        = itemSteps lazy 0 pre vs
            ++ (produce lazy pre.length ++ evs, .failed err) :: ops.map deadStep := by
  constructor
  · rw [C19_await_each_lazy_and_once lazy pre post vs _ hpre]
    simp only [run, eachStep, each_done]
  · intro bad cut c' evs err hbad
    rw [C19_await_each_lazy_and_once lazy pre (bad :: post) vs _ hpre]
    simp only [run, eachStep, eachNext, hbad, each_done]

/-! ## any_iter -/

/-- `any_iter` over each of the six argument shapes (a `list`, a lazily producing iterator or an
    async iterator; given directly or behind an awaitable that succeeds after any number of
    suspensions), items plain or awaitable: if the items `pre` resolve to the values `vs` and the
    next item is an awaitable that raises `e`, then `pre.length + 1` requests give: the outer
    awaitable (if any) awaited completely in the first request; `vs` in order, each item produced
    (lazy shapes) and awaited in its own request only; then `e` out of request number
    `pre.length`, whose events are: that item produced, its awaitable entered once and driven to
    its raise.  Later operations find a finished generator; the items `post` are never produced
    and never awaited.  And if it is the outer awaitable that raises, `e` comes out of the first
    request after the complete await of the outer awaitable: no item is produced or awaited. -/
theorem C19_any_iter_failure_position (o : Option Outer) (kind : Kind) (pre post : List Arg)
    (vs : List Val) (k : Nat) (e : Exc) (ops : List Op)
    (ho : o.bind (·.fail) = none) (hpre : pre.map Arg.resolved = vs.map Res.ok) :
    run anyStep (.fresh o kind (pre ++ .aw k (.err e) :: post))
        (List.replicate (pre.length + 1) (.next none) ++ ops)
      = addFirst (outerSeg o)
          (itemSteps (kindLazy kind) 0 pre vs
            ++ (produce (kindLazy kind) pre.length ++ .await pre.length :: susps (.susp pre.length) k,
                .failed (.raised e)) :: ops.map deadStep) ∧
    ∀ (ko : Nat) (items : List Arg),
      run anyStep (.fresh (some ⟨ko, some e⟩) kind items) (.next none :: ops)
        = (.awaitO :: susps .suspO ko, .failed (.raised e)) :: ops.map deadStep := by
  constructor
  · rw [List.replicate_succ, List.cons_append, any_fresh_run o kind _ _ ho, replicate_cons_comm]
    obtain ⟨s, hs, hk⟩ := any_start_items kind pre vs (.aw k (.err e) :: post) (.next none :: ops) hpre
    rw [hs]
    congr 2
    rcases hk with ⟨rfl, rfl⟩ | ⟨rfl, hk⟩
    · simp [run, anyStep, anyNext, anyStepA, resolveArg, awaitScript, ofRes, any_done, produce,
        kindLazy]
    · simp [run, anyStep, anyNext, anyStepS, resolveArg, awaitScript, ofRes, any_done]
  · intro ko items
    simp [run, anyStep, anyNext, awaitScript, ofRes, any_done]

/-! ## sync -/

/-- The wrapper returned by `sync(f)` keeps nothing between calls: in any sequence of calls —
    the user function answering with a plain value, by raising, or with an awaitable (itself
    completing, raising, or interrupted by an exception thrown in), in any mixture — every call
    does exactly what that call would do on its own (`asyncWrapped`: `f` called once, its
    awaitable, if any, entered once and awaited), whatever the earlier and later calls were;
    and its outcome does not even depend on how many calls were made before. -/
theorem C19_sync_calls_independent (pre post : List (Ans × Cut)) (ans : Ans) (cut : Cut) :
    syncRun 0 (pre ++ (ans, cut) :: post)
      = syncRun 0 pre ++ asyncWrapped pre.length ans cut :: syncRun (pre.length + 1) post ∧
    (syncRun 0 (pre ++ (ans, cut) :: post))[pre.length]? = some (asyncWrapped pre.length ans cut) ∧
    (asyncWrapped pre.length ans cut).2 = (asyncWrapped 0 ans cut).2 := by
  have h : syncRun 0 (pre ++ (ans, cut) :: post)
      = syncRun 0 pre ++ asyncWrapped pre.length ans cut :: syncRun (pre.length + 1) post := by
    rw [syncRun_append]; simp only [syncRun, Nat.zero_add]
  refine ⟨h, ?_, ?_⟩
  · rw [h, List.getElem?_append_right (by simp [syncRun_length])]
    simp [syncRun_length]
  · cases ans with
    | plain v => rfl
    | raises e => rfl
    | aw k r =>
      cases cut with
      | none => rfl
      | some p =>
        obtain ⟨n, c⟩ := p
        simp only [asyncWrapped, awaitScript]
        split <;> rfl

/-! ## Non-vacuity -/

private def fn : Fn := ⟨fun vs kvs => if vs.length + kvs.length = 3 then .ok 9 else .err (.user 1)⟩

/-- all succeed within the budget: in order, then one call (hypotheses of
    `C19_apply_awaits_in_order_until_failure` with `rest = []`) -/
example : ([Arg.aw 2 (.ok 10), .aw 0 (.ok 11)] ++ [((7 : Nat), Arg.aw 1 (.ok 12))].map Prod.snd
      = [.aw 2 (.ok 10), .aw 0 (.ok 11), .aw 1 (.ok 12)] ++ []) ∧
    [Arg.aw 2 (.ok 10), .aw 0 (.ok 11), .aw 1 (.ok 12)].map Arg.res = [10, 11, 12].map Res.ok ∧
    Cut.allows (some (5, 77)) (suspCount [.aw 2 (.ok 10), .aw 0 (.ok 11), .aw 1 (.ok 12)]) = true := by
  decide
example : apply fn [.aw 2 (.ok 10), .aw 0 (.ok 11)] [(7, .aw 1 (.ok 12))] (some (5, 77))
    = ([.await 0, .susp 0 0, .susp 0 1, .await 1, .await 2, .susp 2 0, .call [10, 11] [(7, 12)]], .ok 9) := rfl
/-- the function raising -/
example : apply fn [.aw 1 (.ok 10)] [] none = ([.await 0, .susp 0 0, .call [10] []], .error (.raised (.user 1))) := rfl
/-- a raising second argument: third argument and keyword untouched, no call
    (hypotheses of `C19_apply_failure_leaves_rest_untouched`) -/
example : awaitArg 1 (.aw 1 (.err (.user 4))) (Cut.after none (suspCount [.aw 2 (.ok 10)]))
    = ([.await 1, .susp 1 0], .error (.raised (.user 4)), none) := rfl
example : apply fn [.aw 2 (.ok 10), .aw 1 (.err (.user 4)), .aw 3 (.ok 11)] [(7, .aw 1 (.ok 12))] none
    = ([.await 0, .susp 0 0, .susp 0 1, .await 1, .susp 1 0], .error (.raised (.user 4))) := rfl
/-- a plain (not awaitable) keyword argument -/
example : apply fn [.aw 0 (.ok 10)] [(7, .plain 3), (8, .aw 1 (.ok 12))] none
    = ([.await 0], .error (.raised .typeError)) := rfl
/-- thrown in at the 4th suspension overall = suspension 1 of the keyword argument number 2
    (hypotheses of `C19_apply_cancel_propagates_same_exception`: `2 ≤ 3 < 2 + 3`) -/
example : apply fn [.aw 2 (.ok 10), .aw 0 (.ok 11)] [(7, .aw 3 (.ok 12)), (8, .aw 1 (.ok 13))] (some (3, 77))
    = ([.await 0, .susp 0 0, .susp 0 1, .await 1, .await 2, .susp 2 0, .susp 2 1], .error (.thrown 77)) := rfl
/-- await_each over a lazy iterable: two requests, then closed; then cancelled inside the third -/
example : run (eachStep true) (.live 0 [.aw 1 (.ok 10), .aw 0 (.ok 11), .aw 2 (.ok 12), .aw 1 (.ok 13)])
      [.next none, .next none, .close, .next none]
    = [([.produced 0, .await 0, .susp 0 0], .item 10), ([.produced 1, .await 1], .item 11),
       ([], .closed), ([], .stop)] := by decide
example : run (eachStep true) (.live 0 [.aw 1 (.ok 10), .aw 0 (.ok 11), .aw 2 (.ok 12), .aw 1 (.ok 13)])
      [.next none, .next none, .next (some (1, 55)), .next none, .close]
    = [([.produced 0, .await 0, .susp 0 0], .item 10), ([.produced 1, .await 1], .item 11),
       ([.produced 2, .await 2, .susp 2 0, .susp 2 1], .failed (.thrown 55)), ([], .stop), ([], .closed)] := by
  decide
example : [Arg.aw 1 (.ok 10), .aw 0 (.ok 11)].map Arg.res = [10, 11].map Res.ok ∧
    awaitArg 2 (.aw 2 (.ok 12)) (some (1, 55)) = ([.await 2, .susp 2 0, .susp 2 1], .error (.thrown 55), none) :=
  ⟨by decide, rfl⟩
/-- any_iter over an awaitable async iterator of mixed items, the third item raising -/
example : run anyStep (.fresh (some ⟨1, none⟩) .aiter [.plain 10, .aw 1 (.ok 11), .aw 1 (.err (.user 4)), .aw 0 (.ok 13)])
      (List.replicate 3 (.next none) ++ [.next none])
    = [([.awaitO, .suspO 0, .produced 0], .item 10), ([.produced 1, .await 1, .susp 1 0], .item 11),
       ([.produced 2, .await 2, .susp 2 0], .failed (.raised (.user 4))), ([], .stop)] := by decide
example : (some (⟨1, none⟩ : Outer)).bind (·.fail) = none ∧
    [Arg.plain 10, .aw 1 (.ok 11)].map Arg.resolved = [10, 11].map Res.ok := by decide
/-- a failing outer awaitable -/
example : run anyStep (.fresh (some ⟨2, some (.user 6)⟩) .iter [.plain 10, .aw 1 (.ok 11)]) [.next none, .next none]
    = [([.awaitO, .suspO 0, .suspO 1], .failed (.raised (.user 6))), ([], .stop)] := by decide
/-- sync: plain, raising, awaitable, cancelled awaitable, plain again -/
example : syncRun 0 [(.plain 1, none), (.raises (.user 2), none), (.aw 2 (.ok 3), none),
      (.aw 2 (.ok 4), some (0, 66)), (.plain 5, none)]
    = [([.call [0] []], .ok 1), ([.call [1] []], .error (.raised (.user 2))),
       ([.call [2] [], .await 2, .susp 2 0, .susp 2 1], .ok 3),
       ([.call [3] [], .await 3, .susp 3 0], .error (.thrown 66)), ([.call [4] []], .ok 5)] := rfl

end AsyncVerif.AdaptersFail
